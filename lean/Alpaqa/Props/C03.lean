/-
  C03 — Written-back x, y and slack error are feasible, finite and mutually consistent.

  Theorems about the PANOC loop model (`Alpaqa/Model/Panoc.lean`, tied to panoc.tpp by bit-exact
  trace replay and, for its decision kernels, by the translator).  They hold for *every* problem
  oracle, direction provider, time-limit oracle, iteration budget (0 included), both values of
  `always_overwrite_results`, every exit status: they are structural facts about which oracle answer
  ends up in which output.  The `ProblemContract` corollaries turn them into the property's statements.

  Two forms of each theorem:
  * `…_of_fuel` — over *any* carrier (IEEE doubles included) and any stop schedule
    (`stop : Nat → Bool`, any function of the number of oracle calls made so far), assuming that the
    model's explicit loop fuel did not run out (`fuelOut = false`);
  * the main form — over every linearly ordered field, with that assumption replaced by the explicit
    hypotheses of `Proofs/PanocFuel.run_fuel_suffices`: a monotone stop flag (`StopMono`, what
    `Gen/C19` establishes for the `std::atomic<bool>`) and `FuelOK pr n K`
    (`L_max ≤ L_start·2ⁿ`, `ρᴷ < min_linesearch_coefficient`, `(n+1)(K+1) ≤ lsFuel`).

  "x is finite" cannot be stated over a field (every element is finite).  What is proved is the
  structural half, over any carrier: the written-back `x` is an `x̂` answered by the prox oracle, so it
  is finite whenever the prox oracle returns finite vectors (`panoc_x_out_finite_of_fuel`, with
  `vallFinite` of the carrier's `RealLike.isFinite`).  That the shipped prox step returns finite
  vectors for finite inputs is an IEEE-level fact which is monitored (`checks/c03.py`), not proved.

  ZeroFPR / PANTR / FISTA / PANOC-OCP: `Props/C03_<Solver>.lean`.
-/
import Alpaqa.Proofs.PanocInv
import Alpaqa.Proofs.PanocFuel
import Alpaqa.Proofs.PanocLoopExample
import Alpaqa.Props.C15

namespace Alpaqa.Props.C03
open Alpaqa Alpaqa.Panoc Alpaqa.Gen
set_option linter.unusedSectionVars false

section generic
variable {α D : Type} [Add α] [Sub α] [Mul α] [Div α] [Neg α] [LT α] [LE α] [DecidableLT α]
  [DecidableLE α] [BEq α] [RealLike α] [NatCast α] [OfScientific α]
  [OfNat α 0] [OfNat α 1] [OfNat α 2] [OfNat α 100]

/-- **Exit contract of `PANOCSolver::operator()`.**  Whenever the outputs are overwritten:
    `x_out` is the `x̂` of a proximal-gradient step (hence in `C` for any prox that maps into `C`),
    `y_out` is the ψ-oracle's `ŷ` *at that very `x_out`*, and `err_z = (y_out − y_in)/Σ`.
    Otherwise `x`, `y`, `err_z` are the caller's values, untouched. -/
theorem panoc_exit_contract_of_fuel (P : Problem α) (dir : Direction D α) (d0 : D) (pr : Params α)
    (stop : Nat → Bool) (oot : Bool) (x0 y Sig errz0 gV : Vec α) (gS iS : α)
    (hfuel : (run P dir d0 pr stop oot x0 y Sig errz0 gV gS iS).fuelOut = false) :
    ExitOK P x0 y Sig errz0 (run P dir d0 pr stop oot x0 y Sig errz0 gV gS iS) := by
  unfold run at hfuel ⊢
  cases hi : initState P d0 pr stop x0 gV gS iS with
  | inl t =>
    simp only [hi] at hfuel ⊢
    exact ⟨fun h => absurd h (by simp), fun _ => ⟨rfl, rfl, rfl⟩⟩
  | inr s =>
    simp only [hi] at hfuel ⊢
    have hs := initState_good P d0 pr stop x0 gV gS iS s hi
    refine mainLoop_ok P dir pr stop oot x0 y Sig errz0 _ s hs ?_ hfuel
    rcases Bool.eq_false_or_eq_true s.fuelOut with hc | hc
    · have := mainLoop_fuelOut_mono P dir pr stop oot x0 y Sig errz0 (pr.maxIter + 2) s hc
      rw [this] at hfuel; exact absurd hfuel (by decide)
    · exact hc

/-- Feasibility: if the problem's prox step maps into `C` (proved for the shipped box / box+ℓ1 /
    unconstrained steps in `Props/C15`), the written-back `x` is in `C`. -/
theorem panoc_x_out_feasible_of_fuel (InC : Vec α → Prop) (P : Problem α)
    (hP : ∀ γ x g, InC (P.prox γ x g).2.1)
    (dir : Direction D α) (d0 : D) (pr : Params α)
    (stop : Nat → Bool) (oot : Bool) (x0 y Sig errz0 gV : Vec α) (gS iS : α)
    (hfuel : (run P dir d0 pr stop oot x0 y Sig errz0 gV gS iS).fuelOut = false)
    (hw : (run P dir d0 pr stop oot x0 y Sig errz0 gV gS iS).wrote = true) :
    InC (run P dir d0 pr stop oot x0 y Sig errz0 gV gS iS).x := by
  obtain ⟨⟨γ, x, g, hx⟩, _, _⟩ :=
    (panoc_exit_contract_of_fuel P dir d0 pr stop oot x0 y Sig errz0 gV gS iS hfuel).1 hw
  rw [hx]; exact hP γ x g

/-- Finiteness, the structural half (any carrier, e.g. IEEE doubles): the written-back `x` is an `x̂`
    answered by the prox oracle — finite whenever the oracle only returns finite vectors. -/
theorem panoc_x_out_finite_of_fuel (P : Problem α)
    (hP : ∀ γ x g, vallFinite (P.prox γ x g).2.1 = true)
    (dir : Direction D α) (d0 : D) (pr : Params α)
    (stop : Nat → Bool) (oot : Bool) (x0 y Sig errz0 gV : Vec α) (gS iS : α)
    (hfuel : (run P dir d0 pr stop oot x0 y Sig errz0 gV gS iS).fuelOut = false)
    (hw : (run P dir d0 pr stop oot x0 y Sig errz0 gV gS iS).wrote = true) :
    vallFinite (run P dir d0 pr stop oot x0 y Sig errz0 gV gS iS).x = true :=
  panoc_x_out_feasible_of_fuel (fun v => vallFinite v = true) P hP dir d0 pr stop oot x0 y Sig errz0
    gV gS iS hfuel hw

/-- Consistency: `y_out = ŷ(x_out)` and `err_z = (y_out − y_in)/Σ`, i.e. `y_out = y_in + Σ·err_z`
    componentwise whenever `Σ_i ≠ 0` (stated in the division form the code computes). -/
theorem panoc_y_errz_consistent_of_fuel (P : Problem α) (dir : Direction D α) (d0 : D) (pr : Params α)
    (stop : Nat → Bool) (oot : Bool) (x0 y Sig errz0 gV : Vec α) (gS iS : α)
    (hfuel : (run P dir d0 pr stop oot x0 y Sig errz0 gV gS iS).fuelOut = false)
    (hw : (run P dir d0 pr stop oot x0 y Sig errz0 gV gS iS).wrote = true) :
    (run P dir d0 pr stop oot x0 y Sig errz0 gV gS iS).y
        = (P.psi (run P dir d0 pr stop oot x0 y Sig errz0 gV gS iS).x).2 ∧
    (errz0.length > 0 → (run P dir d0 pr stop oot x0 y Sig errz0 gV gS iS).errz
        = vdiv (vsub (run P dir d0 pr stop oot x0 y Sig errz0 gV gS iS).y y) Sig) := by
  obtain ⟨_, hy, he⟩ :=
    (panoc_exit_contract_of_fuel P dir d0 pr stop oot x0 y Sig errz0 gV gS iS hfuel).1 hw
  exact ⟨hy, fun h => by rw [he, if_pos h]⟩

/-- With `always_overwrite_results` disabled and an exit that is neither Converged nor
    Interrupted, `x`, `y` (and `err_z`) are left untouched. -/
theorem panoc_untouched_of_fuel (P : Problem α) (dir : Direction D α) (d0 : D) (pr : Params α)
    (stop : Nat → Bool) (oot : Bool) (x0 y Sig errz0 gV : Vec α) (gS iS : α)
    (hfuel : (run P dir d0 pr stop oot x0 y Sig errz0 gV gS iS).fuelOut = false)
    (hw : (run P dir d0 pr stop oot x0 y Sig errz0 gV gS iS).wrote = false) :
    (run P dir d0 pr stop oot x0 y Sig errz0 gV gS iS).x = x0 ∧
    (run P dir d0 pr stop oot x0 y Sig errz0 gV gS iS).y = y ∧
    (run P dir d0 pr stop oot x0 y Sig errz0 gV gS iS).errz = errz0 :=
  (panoc_exit_contract_of_fuel P dir d0 pr stop oot x0 y Sig errz0 gV gS iS hfuel).2 hw

theorem mainLoop_wrote (P : Problem α) (dir : Direction D α) (pr : Params α) (stop : Nat → Bool)
    (oot : Bool) (x0 y Sig errz0 : Vec α) (fuel : Nat) (s : St α D)
    (hr : (mainLoop P dir pr stop oot x0 y Sig errz0 fuel s).fuelOut = false) :
    (mainLoop P dir pr stop oot x0 y Sig errz0 fuel s).wrote =
      ((mainLoop P dir pr stop oot x0 y Sig errz0 fuel s).stats.status == .Converged ||
       (mainLoop P dir pr stop oot x0 y Sig errz0 fuel s).stats.status == .Interrupted ||
       pr.alwaysOverwrite) := by
  induction fuel generalizing s with
  | zero => simp [mainLoop] at hr
  | succ f ih =>
    unfold mainLoop at hr ⊢
    simp only [] at hr ⊢
    split_ifs at hr ⊢ with hb
    · unfold exitBlock; simp only []
    · exact ih _ hr

/-- **When are the outputs overwritten?**  A solve that reached the main loop overwrites `x`, `y`,
    `err_z` exactly when the returned status is `Converged` or `Interrupted`, or
    `always_overwrite_results` is set; the early `NotFinite` return (non-finite initial Lipschitz
    estimate) never writes — not even with `always_overwrite_results`. -/
theorem panoc_wrote_iff_of_fuel (P : Problem α) (dir : Direction D α) (d0 : D) (pr : Params α)
    (stop : Nat → Bool) (oot : Bool) (x0 y Sig errz0 gV : Vec α) (gS iS : α)
    (hfuel : (run P dir d0 pr stop oot x0 y Sig errz0 gV gS iS).fuelOut = false) :
    (run P dir d0 pr stop oot x0 y Sig errz0 gV gS iS).wrote =
      ((initState P d0 pr stop x0 gV gS iS).isRight &&
        ((run P dir d0 pr stop oot x0 y Sig errz0 gV gS iS).stats.status == .Converged ||
         (run P dir d0 pr stop oot x0 y Sig errz0 gV gS iS).stats.status == .Interrupted ||
         pr.alwaysOverwrite)) := by
  unfold run at hfuel ⊢
  cases hi : initState P d0 pr stop x0 gV gS iS with
  | inl t => simp
  | inr s =>
    simp only [hi] at hfuel ⊢
    rw [mainLoop_wrote P dir pr stop oot x0 y Sig errz0 _ s hfuel]
    simp

/-- In particular: `Converged` and `Interrupted` exits always write (the early return reports
    `NotFinite`), and nothing is written unless the status is one of the two or
    `always_overwrite_results` is set. -/
theorem panoc_wrote_cases_of_fuel (P : Problem α) (dir : Direction D α) (d0 : D) (pr : Params α)
    (stop : Nat → Bool) (oot : Bool) (x0 y Sig errz0 gV : Vec α) (gS iS : α)
    (hfuel : (run P dir d0 pr stop oot x0 y Sig errz0 gV gS iS).fuelOut = false) :
    (((run P dir d0 pr stop oot x0 y Sig errz0 gV gS iS).stats.status = .Converged ∨
      (run P dir d0 pr stop oot x0 y Sig errz0 gV gS iS).stats.status = .Interrupted) →
        (run P dir d0 pr stop oot x0 y Sig errz0 gV gS iS).wrote = true) ∧
    ((run P dir d0 pr stop oot x0 y Sig errz0 gV gS iS).wrote = true →
      (run P dir d0 pr stop oot x0 y Sig errz0 gV gS iS).stats.status = .Converged ∨
      (run P dir d0 pr stop oot x0 y Sig errz0 gV gS iS).stats.status = .Interrupted ∨
      pr.alwaysOverwrite = true) := by
  have h := panoc_wrote_iff_of_fuel P dir d0 pr stop oot x0 y Sig errz0 gV gS iS hfuel
  constructor
  · intro hs
    rw [h]
    cases hi : initState P d0 pr stop x0 gV gS iS with
    | inl t =>
      exfalso
      have : (run P dir d0 pr stop oot x0 y Sig errz0 gV gS iS).stats.status = .NotFinite := by
        unfold run; rw [hi]
      rw [this] at hs
      rcases hs with hs | hs <;> cases hs
    | inr s =>
      rcases hs with hs | hs <;> simp [hs]
  · intro hw
    rw [h] at hw
    simp only [Bool.and_eq_true, Bool.or_eq_true, beq_iff_eq] at hw
    rcases hw.2 with (h1 | h1) | h1
    · exact Or.inl h1
    · exact Or.inr (Or.inl h1)
    · exact Or.inr (Or.inr h1)

end generic

/-! ### The property theorems with the fuel hypothesis discharged -/

section fuel
variable {α D : Type} [Field α] [LinearOrder α] [IsStrictOrderedRing α] [RealLike α]

/-- **Exit contract of `PANOCSolver::operator()`** (see `panoc_exit_contract_of_fuel`), for every
    monotone stop flag and parameters satisfying `FuelOK`. -/
theorem panoc_exit_contract (P : Problem α) (dir : Direction D α) (d0 : D) (pr : Params α)
    (stop : Nat → Bool) (hm : StopMono stop) (n K : Nat) (hF : FuelOK pr n K) (oot : Bool)
    (x0 y Sig errz0 gV : Vec α) (gS iS : α) :
    ExitOK P x0 y Sig errz0 (run P dir d0 pr stop oot x0 y Sig errz0 gV gS iS) :=
  panoc_exit_contract_of_fuel P dir d0 pr stop oot x0 y Sig errz0 gV gS iS
    (run_fuel_suffices P dir d0 pr stop hm n K hF oot x0 y Sig errz0 gV gS iS)

theorem panoc_x_out_feasible (InC : Vec α → Prop) (P : Problem α)
    (hP : ∀ γ x g, InC (P.prox γ x g).2.1) (dir : Direction D α) (d0 : D) (pr : Params α)
    (stop : Nat → Bool) (hm : StopMono stop) (n K : Nat) (hF : FuelOK pr n K) (oot : Bool)
    (x0 y Sig errz0 gV : Vec α) (gS iS : α)
    (hw : (run P dir d0 pr stop oot x0 y Sig errz0 gV gS iS).wrote = true) :
    InC (run P dir d0 pr stop oot x0 y Sig errz0 gV gS iS).x :=
  panoc_x_out_feasible_of_fuel InC P hP dir d0 pr stop oot x0 y Sig errz0 gV gS iS
    (run_fuel_suffices P dir d0 pr stop hm n K hF oot x0 y Sig errz0 gV gS iS) hw

theorem panoc_y_errz_consistent (P : Problem α) (dir : Direction D α) (d0 : D) (pr : Params α)
    (stop : Nat → Bool) (hm : StopMono stop) (n K : Nat) (hF : FuelOK pr n K) (oot : Bool)
    (x0 y Sig errz0 gV : Vec α) (gS iS : α)
    (hw : (run P dir d0 pr stop oot x0 y Sig errz0 gV gS iS).wrote = true) :
    (run P dir d0 pr stop oot x0 y Sig errz0 gV gS iS).y
        = (P.psi (run P dir d0 pr stop oot x0 y Sig errz0 gV gS iS).x).2 ∧
    (errz0.length > 0 → (run P dir d0 pr stop oot x0 y Sig errz0 gV gS iS).errz
        = vdiv (vsub (run P dir d0 pr stop oot x0 y Sig errz0 gV gS iS).y y) Sig) :=
  panoc_y_errz_consistent_of_fuel P dir d0 pr stop oot x0 y Sig errz0 gV gS iS
    (run_fuel_suffices P dir d0 pr stop hm n K hF oot x0 y Sig errz0 gV gS iS) hw

theorem panoc_untouched (P : Problem α) (dir : Direction D α) (d0 : D) (pr : Params α)
    (stop : Nat → Bool) (hm : StopMono stop) (n K : Nat) (hF : FuelOK pr n K) (oot : Bool)
    (x0 y Sig errz0 gV : Vec α) (gS iS : α)
    (hw : (run P dir d0 pr stop oot x0 y Sig errz0 gV gS iS).wrote = false) :
    (run P dir d0 pr stop oot x0 y Sig errz0 gV gS iS).x = x0 ∧
    (run P dir d0 pr stop oot x0 y Sig errz0 gV gS iS).y = y ∧
    (run P dir d0 pr stop oot x0 y Sig errz0 gV gS iS).errz = errz0 :=
  panoc_untouched_of_fuel P dir d0 pr stop oot x0 y Sig errz0 gV gS iS
    (run_fuel_suffices P dir d0 pr stop hm n K hF oot x0 y Sig errz0 gV gS iS) hw

/-- **`wrote ⇔ status`**: see `panoc_wrote_iff_of_fuel`. -/
theorem panoc_wrote_iff (P : Problem α) (dir : Direction D α) (d0 : D) (pr : Params α)
    (stop : Nat → Bool) (hm : StopMono stop) (n K : Nat) (hF : FuelOK pr n K) (oot : Bool)
    (x0 y Sig errz0 gV : Vec α) (gS iS : α) :
    (run P dir d0 pr stop oot x0 y Sig errz0 gV gS iS).wrote =
      ((initState P d0 pr stop x0 gV gS iS).isRight &&
        ((run P dir d0 pr stop oot x0 y Sig errz0 gV gS iS).stats.status == .Converged ||
         (run P dir d0 pr stop oot x0 y Sig errz0 gV gS iS).stats.status == .Interrupted ||
         pr.alwaysOverwrite)) :=
  panoc_wrote_iff_of_fuel P dir d0 pr stop oot x0 y Sig errz0 gV gS iS
    (run_fuel_suffices P dir d0 pr stop hm n K hF oot x0 y Sig errz0 gV gS iS)

/-- **The property's "untouched" clause in terms of the status**: with `always_overwrite_results`
    disabled and a returned status that is neither `Converged` nor `Interrupted`, `x`, `y`, `err_z`
    are the caller's values. -/
theorem panoc_untouched_of_status (P : Problem α) (dir : Direction D α) (d0 : D) (pr : Params α)
    (stop : Nat → Bool) (hm : StopMono stop) (n K : Nat) (hF : FuelOK pr n K) (oot : Bool)
    (x0 y Sig errz0 gV : Vec α) (gS iS : α) (hao : pr.alwaysOverwrite = false)
    (h1 : (run P dir d0 pr stop oot x0 y Sig errz0 gV gS iS).stats.status ≠ .Converged)
    (h2 : (run P dir d0 pr stop oot x0 y Sig errz0 gV gS iS).stats.status ≠ .Interrupted) :
    (run P dir d0 pr stop oot x0 y Sig errz0 gV gS iS).x = x0 ∧
    (run P dir d0 pr stop oot x0 y Sig errz0 gV gS iS).y = y ∧
    (run P dir d0 pr stop oot x0 y Sig errz0 gV gS iS).errz = errz0 := by
  apply panoc_untouched P dir d0 pr stop hm n K hF oot x0 y Sig errz0 gV gS iS
  rw [panoc_wrote_iff P dir d0 pr stop hm n K hF oot x0 y Sig errz0 gV gS iS, hao]
  simp [h1, h2]

end fuel

/-! ### Non-vacuity: concrete runs with `n = 1`, `m = 1` (`Pm` of `Proofs/PanocLoopExample`) -/

section examples
open Alpaqa.Panoc.Example

theorem stopAt_mono (t0 : Option Nat) : StopMono (stopAt t0) := by
  intro s t h hs
  cases t0 with
  | none => simp [stopAt] at hs
  | some t0 => simp only [stopAt, decide_eq_true_eq] at *; omega

theorem fuelOK_prq : FuelOK prq 1 9 := by
  refine ⟨?_, ?_, ?_, ?_, ?_, by norm_num, ?_, ?_⟩ <;> norm_num [prq, Lstart]

/-- **The library's default `PANOCParams`** (`panoc.hpp`, `lipschitz.hpp`): `L_0 = 0` (estimated),
    `ε = 1e-6`, `δ = 1e-12`, `Lγ_factor = 0.95`, `max_iter = 100`, `min_linesearch_coefficient = 1/256`,
    `linesearch_coefficient_update_factor = 0.5`, `linesearch_strictness_factor = 0.95`, `L_min = 1e-5`,
    `L_max = 1e20`, ApproxKKT, `max_no_progress = 10`, tolerance factors `10·2⁻⁵²`, all options off;
    `lsFuel = 4096` as in the replay drivers. -/
def prDefault : Params ℚ :=
  { L0 := 0, lipEps := 1/1000000, lipDelta := 1/1000000000000, LgammaFactor := 19/20, maxIter := 100,
    minLsCoef := 1/256, lsUpdateFactor := 1/2, forceLinesearch := false, lsStrictness := 19/20,
    Lmin := 1/100000, Lmax := 100000000000000000000, stopCrit := .ApproxKKT, maxNoProgress := 10,
    qubTol := 10 / 4503599627370496, lsTol := 10 / 4503599627370496, updateDirInCandidate := false,
    recomputeLastProx := false, eagerGradientEval := false, alwaysOverwrite := false,
    tolerance := 1/100000000, lsFuel := 4096 }

/-- **`FuelOK` holds for the library defaults with `n = 84`, `K = 9`**: `L_start = L_min = 1e-5`,
    `1e20 ≤ 1e-5·2⁸⁴` (`2⁸⁴ ≈ 1.93e25`; `n = 83` would not do), `(½)⁹ = 1/512 < 1/256`,
    `(84+1)(9+1) = 850 ≤ 4096`.  So for default parameters (and any `max_iter`, tolerance, criterion, options —
    `FuelOK` does not read them) no loop-level theorem carries a fuel assumption. -/
theorem fuelOK_default : FuelOK prDefault 84 9 := by
  refine ⟨?_, ?_, ?_, ?_, ?_, by norm_num, ?_, ?_⟩ <;> norm_num [prDefault, Lstart]

/-- `n = 84` is sharp for the defaults -/
example : ¬ prDefault.Lmax ≤ Lstart prDefault * 2 ^ 83 := by norm_num [prDefault, Lstart]

/-- the exit contract for the default parameters on `Pm`, no fuel assumption -/
example : ExitOK Pm [1] [0] [1] [7] (run Pm dirNoop () prDefault (stopAt none) false [1] [0] [1] [7] [] 0 0) :=
  panoc_exit_contract Pm dirNoop () prDefault (stopAt none) (stopAt_mono none) 84 9 fuelOK_default false
    [1] [0] [1] [7] [] 0 0

/-- a run that overwrites with status `Converged`: from `x = [1]`, `y = [0]`, `err_z = [7]` to
    `x̂ = [1199/800] ∈ [0, 3]`, `ŷ = [399/800] = ŷ(x̂)`, `err_z = (ŷ − y)/Σ = [399/800]` -/
example : (rm prq none).stats.status = .Converged ∧ (rm prq none).wrote = true ∧
    (rm prq none).x = [1199/800] ∧ (rm prq none).y = [399/800] ∧ (rm prq none).errz = [399/800] ∧
    (Pm.psi (rm prq none).x).2 = (rm prq none).y := by decide +kernel

/-- one that overwrites with status `Interrupted` (flag visible from tick 7) -/
example : (rm prq (some 7)).stats.status = .Interrupted ∧ (rm prq (some 7)).wrote = true ∧
    (rm prq (some 7)).x = [59/40] ∧ (rm prq (some 7)).y = [19/40] ∧
    (rm prq (some 7)).errz = [19/40] := by decide +kernel

/-- one that does not write: `max_iter = 0`, `always_overwrite_results = false` — status `MaxIter`,
    `x`, `y`, `err_z` bit-for-bit the caller's -/
example : (rm { prq with maxIter := 0, alwaysOverwrite := false } none).stats.status = .MaxIter ∧
    (rm { prq with maxIter := 0, alwaysOverwrite := false } none).wrote = false ∧
    (rm { prq with maxIter := 0, alwaysOverwrite := false } none).x = [1] ∧
    (rm { prq with maxIter := 0, alwaysOverwrite := false } none).y = [0] ∧
    (rm { prq with maxIter := 0, alwaysOverwrite := false } none).errz = [7] := by decide +kernel

/-- `panoc_exit_contract` on the converged run, every hypothesis discharged -/
example : ExitOK Pm [1] [0] [1] [7] (rm prq none) :=
  panoc_exit_contract Pm dirNoop () prq (stopAt none) (stopAt_mono none) 1 9 fuelOK_prq false
    [1] [0] [1] [7] [] 0 0

/-- `panoc_x_out_feasible` with the prox contract discharged by `Props/C15.ProxMapsIntoBox`:
    the written-back `x` of the interrupted run is in `C = [0, 3]` -/
example : Alpaqa.Props.C15.InBox [0] [3] (rm prq (some 7)).x :=
  panoc_x_out_feasible (Alpaqa.Props.C15.InBox [0] [3]) Pm
    (Alpaqa.Props.C15.ProxMapsIntoBox [] [0] [3] (by
      intro i; cases i with
      | zero => norm_num [vget]
      | succ j => simp [vget]))
    dirNoop () prq (stopAt (some 7)) (stopAt_mono (some 7)) 1 9 fuelOK_prq false
    [1] [0] [1] [7] [] 0 0 (by decide +kernel)

/-- `panoc_y_errz_consistent` and `panoc_wrote_iff` on the converged run (`m = 1`, non-empty `err_z`) -/
example : (rm prq none).y = (Pm.psi (rm prq none).x).2 ∧
    ((0 : Nat) < 1 → (rm prq none).errz = vdiv (vsub (rm prq none).y [0]) [1]) :=
  panoc_y_errz_consistent Pm dirNoop () prq (stopAt none) (stopAt_mono none) 1 9 fuelOK_prq false
    [1] [0] [1] [7] [] 0 0 (by decide +kernel)

example : (rm prq none).wrote =
    ((initState Pm () prq (stopAt none) [1] [] 0 0).isRight &&
      ((rm prq none).stats.status == .Converged || (rm prq none).stats.status == .Interrupted ||
        prq.alwaysOverwrite)) :=
  panoc_wrote_iff Pm dirNoop () prq (stopAt none) (stopAt_mono none) 1 9 fuelOK_prq false
    [1] [0] [1] [7] [] 0 0

/-- `panoc_untouched_of_status` on the run that does not write -/
example : (rm { prq with maxIter := 0, alwaysOverwrite := false } none).x = [1] ∧
    (rm { prq with maxIter := 0, alwaysOverwrite := false } none).y = [0] ∧
    (rm { prq with maxIter := 0, alwaysOverwrite := false } none).errz = [7] :=
  panoc_untouched_of_status Pm dirNoop () { prq with maxIter := 0, alwaysOverwrite := false }
    (stopAt none) (stopAt_mono none) 1 9
    (by refine ⟨?_, ?_, ?_, ?_, ?_, by norm_num, ?_, ?_⟩ <;> norm_num [prq, Lstart])
    false [1] [0] [1] [7] [] 0 0 rfl (by decide +kernel) (by decide +kernel)

end examples

end Alpaqa.Props.C03
