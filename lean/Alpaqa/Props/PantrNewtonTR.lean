/-
  The shipped trust-region direction provider of PANTR, `NewtonTRDirection` (newton-tr.hpp), as a
  `Pantr.Direction` record whose `apply` is the C11 model `Alpaqa.C11.newtonTR` (`Model/C11.lean`:
  `NewtonTRDirection::apply` on top of the Steihaug CG loop `steihaug`, every number / vector / branch
  computed by the translator-generated kernels of `Gen/C11.lean`), and its size contract
  `Pantr.DirSized n (newtonTRDir …) (fun _ => True)` — the hypothesis through which
  `Props/C01_Pantr.lean`, `Props/C03_Pantr.lean`, `Props/C05_Pantr.lean` take the provider, so far
  instantiated by the toy provider `Pantr.ExampleQ.dirq` only.

  * `NtrParams` — `SteihaugCGParams` (`tol_scale`, `tol_scale_root`, `tol_max`, `max_iter_factor`),
    `NewtonTRDirectionParams::hessian_vec_factor`, and the three libm / limits oracles of the C11 model
    (`copysign`, `round`, `numeric_limits::epsilon()`).
  * `ntrApply cfg hv J γ x p g Δ` — `NewtonTRDirection::apply(γ, x, x̂, p, grad_ψ, Δ, q)` exactly as
    C11 models it: `H = hv x` is `v ↦ ∇²ψ(x)·v` (`eval_hess_ψ_prod(x, y, Σ, 1, v, ·)`, an ORACLE),
    `J γ x g` is the index set `eval_inactive_indices_res_lna(γ, x, grad_ψ, ·)` returns (an ORACLE),
    `max_iter = round(|J| · max_iter_factor)` (`Gen.C11.cgMaxIter`, `n = grad.size() = |J|` in `solve`).
  * `newtonTRDir cfg hv J : Pantr.Direction Unit α` — state `Unit`: the C++ object keeps a pointer to the
    problem, references to `y`, `Σ` and workspaces that every `apply` overwrites before reading
    (`JK_sto`, `rJ_sto`, `qJ_sto`, `work`, `work_2`, the Steihaug buffers — C11 compares their final
    content); nothing is carried from one call to the next.  `initialize` ↦ state unchanged,
    `has_initial_direction` ↦ `true`, `update` ↦ `true`, `changed_γ`, `reset` ↦ no-ops, as in the header.
  * **`newtonTRDir_sized`**: `Pantr.DirSized n (newtonTRDir cfg hv J) (fun _ => True)` for EVERY `cfg`,
    `hv`, `J`, `n` — no hypothesis: the `q` that `apply` leaves has the size of `p` by construction of the
    scatter `q(K) = p(K); q(J) = qJ` (`C11.overlay`), whatever the oracles return (`ntrApply_length`).  In
    particular the size hypothesis `(hv x v).length = n` on the Hessian-vector oracle is NOT needed for the
    size contract, and neither is anything about `J` (in range, sorted, duplicate-free).
  * `ntrApply_congr` / `newtonTRDir_apply_congr`: the Hessian-vector oracle is only ever evaluated at
    vectors of the size of `p` — two oracles that agree there give the same `apply`.
  * `newtonTRDir_apply_some` / `_none`: `apply` IS the C11 result when the radius guards pass, so every C11
    theorem about `newtonTR` (`Props/C11.newtonTR_active_eq_fb`, `newtonTR_return`,
    `newtonTR_value_is_full_model`, …) is a theorem about `(newtonTRDir …).apply`.
  * `pantrNewtonTRInner`, **`pantr_newtontr_satisfies_inner_contract`**,
    **`alm_pantr_newtontr_certifies_kkt`** (+ `m = 0`), `pantr_newtontr_on_raw_vtable_satisfies_inner_contract`:
    the closed corollaries of `pantr_satisfies_inner_contract` — no provider hypothesis left.  The
    Hessian-vector oracle may depend on the multipliers / penalties of the inner call (`hv y Σ x v`:
    `initialize` stores `y`, `Σ`; the provider is re-initialised by every solve).

  What is simplified relative to newton-tr.hpp — nothing more than this is claimed:
  1. only the exact-Hessian branch (`finite_diff = false`, the default) — the C11 model has no
     finite-difference branch;
  2. the two `throw std::logic_error` radius guards (C11: `newtonTR = none`) are mapped to "no usable
     step": model value `0`, `q` untouched — which the PANTR loop model treats as a failed direction
     (`trustRegionStep`: `q_model ≥ 0` ⇒ `direction.reset()`, `direction_failures + 1`).  `Pantr.Direction`
     has no exceptions; in the C++ the exception leaves `PANTRSolver::operator()`.  The `initialize`-time
     `throw std::invalid_argument` (problem without `eval_hess_ψ_prod` / `eval_inactive_indices_res_lna`)
     is not modelled either: both functions are oracles here, i.e. assumed provided;
  3. real-number semantics for the PANTR theorems (ordered field, no NaN); `ntrApply` / `newtonTRDir`
     themselves and `ntrApply_length` are about the C11 model as it is.
-/
import Alpaqa.Props.C11
import Alpaqa.Props.C01_Pantr
import Alpaqa.Props.C01_Pantr_C04

namespace Alpaqa.Props.PantrNewtonTR
open Alpaqa
set_option linter.unusedSectionVars false
set_option linter.unusedVariables false

/-- Parameters of `NewtonTRDirection` (exact-Hessian branch) and the libm / limits oracles of the C11
    model. -/
structure NtrParams (α : Type) where
  /-- `std::copysign` (used by `get_boundaries_intersections`) -/
  copysign : α → α → α
  /-- `std::round` followed by `static_cast<index_t>` (`max_iter`) -/
  round : α → Int
  /-- `std::numeric_limits<real_t>::epsilon()` (radius guard) -/
  epsMach : α
  /-- `NewtonTRDirectionParams::hessian_vec_factor` -/
  hessianVecFactor : α
  /-- `SteihaugCGParams::tol_max`, `tol_scale`, `tol_scale_root`, `max_iter_factor` -/
  tolMax : α
  tolScale : α
  tolRoot : α
  maxIterFactor : α

section model
variable {α : Type} [Field α] [LinearOrder α] [IsStrictOrderedRing α] [RealLike α]

/-- `NewtonTRDirection::apply(γ, x, x̂, p, grad_ψ, radius, q)` as modelled by C11: `none` = a radius guard
    throws.  `hv x` is `v ↦ ∇²ψ(x)·v`, `J γ x g` the inactive index set of `(γ, x, grad_ψ)`; `x̂` is unused
    (`[[maybe_unused]]`). -/
def ntrApply (cfg : NtrParams α) (hv : Vec α → Vec α → Vec α) (J : α → Vec α → Vec α → List Nat)
    (γ : α) (x p g : Vec α) (Δ : α) : Option (Alpaqa.C11.NtrOut α) :=
  Alpaqa.C11.newtonTR cfg.copysign (hv x) (J γ x g) γ p cfg.hessianVecFactor Δ cfg.epsMach
    cfg.tolMax cfg.tolScale cfg.tolRoot
    (Alpaqa.Gen.C11.cgMaxIter cfg.round (J γ x g).length cfg.maxIterFactor)

/-- **`NewtonTRDirection` as a `Pantr.Direction`** (see the file header for what is simplified). -/
def newtonTRDir (cfg : NtrParams α) (hv : Vec α → Vec α → Vec α) (J : α → Vec α → Vec α → List Nat) :
    Pantr.Direction Unit α where
  init d _ _ _ _ _ := d
  hasInitial _ := true
  apply d γ x _ p g Δ q :=
    match ntrApply cfg hv J γ x p g Δ with
    | some o => (d, o.val, o.q)
    | none => (d, 0, q)
  update d _ _ _ _ _ _ _ _ := (d, true)
  changedGamma d _ _ := d
  reset d := d

variable (cfg : NtrParams α) (hv : Vec α → Vec α → Vec α) (J : α → Vec α → Vec α → List Nat)

/-- **Size lemma of the C11 Newton-TR step**: whenever `apply` returns, the `q` it leaves has the size
    of `p` — for every Hessian-vector oracle and every index set. -/
theorem ntrApply_length (γ : α) (x p g : Vec α) (Δ : α) {o : Alpaqa.C11.NtrOut α}
    (h : ntrApply cfg hv J γ x p g Δ = some o) : o.q.length = p.length :=
  (Alpaqa.Props.C11.newtonTR_active_eq_fb h).1

/-- when the radius guards pass, `apply` is the C11 result … -/
theorem newtonTRDir_apply_some (d : Unit) (γ : α) (x xh p g : Vec α) (Δ : α) (q : Vec α)
    {o : Alpaqa.C11.NtrOut α} (h : ntrApply cfg hv J γ x p g Δ = some o) :
    (newtonTRDir cfg hv J).apply d γ x xh p g Δ q = (d, o.val, o.q) := by
  simp only [newtonTRDir, h]

/-- … and when one fires (the C++ throws), "no usable step": value `0`, `q` untouched -/
theorem newtonTRDir_apply_none (d : Unit) (γ : α) (x xh p g : Vec α) (Δ : α) (q : Vec α)
    (h : ntrApply cfg hv J γ x p g Δ = none) :
    (newtonTRDir cfg hv J).apply d γ x xh p g Δ q = (d, 0, q) := by
  simp only [newtonTRDir, h]

/-- the guards are exactly the two of the header: `!isfinite(radius)`, `radius < epsilon` -/
theorem ntrApply_eq_none_iff (γ : α) (x p g : Vec α) (Δ : α) :
    ntrApply cfg hv J γ x p g Δ = none ↔
      (Alpaqa.Gen.C11.ntrRadiusNotFinite Δ = true ∨ Alpaqa.Gen.C11.ntrRadiusTooSmall Δ cfg.epsMach = true) := by
  unfold ntrApply
  rw [Alpaqa.Props.C11.newtonTR_eq]
  split_ifs with hc
  · exact ⟨fun _ => hc, fun _ => rfl⟩
  · exact ⟨fun h => (by cases h), fun h => absurd h hc⟩

/-- whenever the value `apply` reports is negative, the step was produced by the C11 model (no guard
    fired) and has the size of `p` -/
theorem newtonTRDir_apply_length (d : Unit) (γ : α) (x xh p g : Vec α) (Δ : α) (q : Vec α)
    (hneg : ((newtonTRDir cfg hv J).apply d γ x xh p g Δ q).2.1 < 0) :
    ((newtonTRDir cfg hv J).apply d γ x xh p g Δ q).2.2.length = p.length := by
  cases h : ntrApply cfg hv J γ x p g Δ with
  | none =>
    rw [newtonTRDir_apply_none cfg hv J d γ x xh p g Δ q h] at hneg
    exact absurd hneg (lt_irrefl _)
  | some o =>
    rw [newtonTRDir_apply_some cfg hv J d γ x xh p g Δ q h]
    exact ntrApply_length cfg hv J γ x p g Δ h

/-- **`NewtonTRDirection` meets PANTR's provider size contract** — for every dimension, every parameter
    set, every Hessian-vector oracle and every index-set oracle; the state invariant is trivial. -/
theorem newtonTRDir_sized (n : Nat) : Pantr.DirSized n (newtonTRDir cfg hv J) (fun _ => True) := by
  refine ⟨fun _ _ _ _ _ _ _ _ _ _ _ => trivial, fun _ _ _ _ _ _ _ _ _ _ _ _ _ => trivial, ?_,
    fun _ _ _ _ _ _ _ _ _ _ _ _ _ _ _ _ => trivial, fun _ _ _ _ => trivial, fun _ _ => trivial⟩
  intro d γ x xh p g Δ q _ _ _ hp _ hneg
  rw [newtonTRDir_apply_length cfg hv J d γ x xh p g Δ q hneg, hp]

/-- **The Hessian-vector oracle is only evaluated at vectors of the size of `p`**: two oracles that agree
    there (at the point `x` handed to `apply`) give the same result — the reduced operator scatters its
    argument into a zero vector of size `|p|` (`work.setZero(); work(J) = p`) and the right-hand-side
    term multiplies `q⁰` (`q(K) = p(K); q(J) = 0`). -/
theorem ntrApply_congr (hv' : Vec α → Vec α → Vec α) (γ : α) (x p g : Vec α) (Δ : α)
    (hH : ∀ v, v.length = p.length → hv x v = hv' x v) :
    ntrApply cfg hv J γ x p g Δ = ntrApply cfg hv' J γ x p g Δ := by
  have hB : Alpaqa.Props.C11.ntrB (hv x) (J γ x g) p.length
      = Alpaqa.Props.C11.ntrB (hv' x) (J γ x g) p.length := by
    funext v
    unfold Alpaqa.Props.C11.ntrB
    rw [hH _ (by rw [Alpaqa.Props.C11.length_overlay]; simp [Alpaqa.C11.zeros])]
  have hG : Alpaqa.Props.C11.ntrG (hv x) (J γ x g) γ p cfg.hessianVecFactor
      = Alpaqa.Props.C11.ntrG (hv' x) (J γ x g) γ p cfg.hessianVecFactor := by
    unfold Alpaqa.Props.C11.ntrG
    rw [hH _ (Alpaqa.Props.C11.length_overlay _ _ _)]
  unfold ntrApply
  rw [Alpaqa.Props.C11.newtonTR_eq, Alpaqa.Props.C11.newtonTR_eq, hB, hG]

theorem newtonTRDir_apply_congr (hv' : Vec α → Vec α → Vec α) (d : Unit) (γ : α) (x xh p g : Vec α)
    (Δ : α) (q : Vec α) (hH : ∀ v, v.length = p.length → hv x v = hv' x v) :
    (newtonTRDir cfg hv J).apply d γ x xh p g Δ q = (newtonTRDir cfg hv' J).apply d γ x xh p g Δ q := by
  simp only [newtonTRDir, ntrApply_congr cfg hv J hv' γ x p g Δ hH]

end model

/-! ### The closed corollaries of `pantr_satisfies_inner_contract` -/
section contract
open Alpaqa.Gen Alpaqa.C07 Alpaqa.C04 Alpaqa.Props.C01 Alpaqa.Props.C07 Alpaqa.Props.C01Alm
open Alpaqa.Props.C01Pantr Alpaqa.Props.C01C04 Alpaqa.Props.C01PantrC04

variable {α A : Type} [Field α] [LinearOrder α] [IsStrictOrderedRing α] [RealLike α]
  [Alpaqa.Proofs.C07.NoNaN α]

/-- `PANTRSolver<NewtonTRDirection>::operator()` as an inner-solver function of the ALM model: the PANTR
    loop model over the provider `newtonTRDir`, whose Hessian-vector oracle is that of the call's
    multipliers and penalties (`hv y Σ x v = ∇²ψ(x; y, Σ)·v`: `initialize` stores `y`, `Σ`). -/
def pantrNewtonTRInner (co : Pantr.Consts α) (Pf : Vec α → Vec α → Pantr.Problem α) (cfg : NtrParams α)
    (hv : Vec α → Vec α → Vec α → Vec α → Vec α) (J : α → Vec α → Vec α → List Nat)
    (pr : Pantr.Params α) (stop : InnerCall α → Nat → Bool) (oot clock almStop : InnerCall α → Bool)
    (gV : Vec α) (c : InnerCall α) : InnerResult α (Pantr.Stats α) :=
  pantrInner co Pf (newtonTRDir cfg (hv c.y c.sigma) J) () pr stop oot clock almStop gV c

/-- **PANTR with the Newton-TR provider satisfies ALM's inner-solver contract** — no provider hypothesis:
    for every `NtrParams`, every Hessian-vector oracle `hv` (nothing assumed, not even its size) and every
    index-set oracle `J`.  Remaining hypotheses as in `pantr_satisfies_inner_contract` (oracle contract of
    the problem, `inf ≥ 0`, `Pantr.ParamsOK`, ApproxKKT criterion). -/
theorem pantr_newtontr_satisfies_inner_contract (pb : ProblemCF α) (n m : Nat)
    (Pf : Vec α → Vec α → Pantr.Problem α) (hO : OracleContractPantr pb n m Pf)
    (co : Pantr.Consts α) (hinf : 0 ≤ co.inf) (cfg : NtrParams α)
    (hv : Vec α → Vec α → Vec α → Vec α → Vec α) (J : α → Vec α → Vec α → List Nat)
    (pr : Pantr.Params α) (hp : Pantr.ParamsOK pr) (hcrit : pr.stopCrit = .ApproxKKT)
    (stop : InnerCall α → Nat → Bool) (oot clock almStop : InnerCall α → Bool) (gV : Vec α) :
    InnerContract pb n m (pantrNewtonTRInner co Pf cfg hv J pr stop oot clock almStop gV) := by
  have h := fun c : InnerCall α =>
    pantr_satisfies_inner_contract pb n m Pf hO co hinf (newtonTRDir cfg (hv c.y c.sigma) J)
      (fun _ => True) (newtonTRDir_sized cfg (hv c.y c.sigma) J n) () trivial pr hp hcrit stop oot clock
      almStop gV
  exact ⟨fun c => (h c).conv c, fun c => (h c).conv_tol c, fun c => (h c).xSize c,
    fun c => (h c).ySize c, fun c => (h c).eSize c⟩

/-- **C01 for ALM over PANTR with the Newton-TR provider** (`m ≠ 0`): `Converged` only with the KKT
    certificate of the returned pair. -/
theorem alm_pantr_newtontr_certifies_kkt (nan inf : α) (acc0 : A) (accAdd : A → Pantr.Stats α → A)
    (P : ALMParams α) (prob : C07.Problem α) (x y : Vec α) (Sig0 : Option (Vec α))
    (pb : ProblemCF α) (n : Nat)
    (Pf : Vec α → Vec α → Pantr.Problem α) (hO : OracleContractPantr pb n prob.m Pf)
    (co : Pantr.Consts α) (hinf : 0 ≤ co.inf) (cfg : NtrParams α)
    (hv : Vec α → Vec α → Vec α → Vec α → Vec α) (J : α → Vec α → Vec α → List Nat)
    (pr : Pantr.Params α) (hp : Pantr.ParamsOK pr) (hcrit : pr.stopCrit = .ApproxKKT)
    (stop : InnerCall α → Nat → Bool) (oot clock almStop : InnerCall α → Bool) (gV : Vec α)
    (hm : prob.m ≠ 0)
    (hC : ∀ b ∈ pb.C, ∀ l u, b.1 = some l → b.2 = some u → l ≤ u)
    (hDb : ∀ i, i < prob.m → BndOK (lbAt pb.D i) (ubAt pb.D i))
    (hmin : 0 < P.min_penalty) (hmm : P.min_penalty ≤ P.max_penalty)
    (hlen : SigmaLen prob.m Sig0) (hx : x.length = n) (hy : y.length = prob.m)
    (hconv : (C07.run nan inf acc0 accAdd P prob x y Sig0
      (pantrNewtonTRInner co Pf cfg hv J pr stop oot clock almStop gV)).stats.status = .Converged) :
    KKTCert pb prob.m P.tolerance P.dual_tolerance
      (C07.run nan inf acc0 accAdd P prob x y Sig0
        (pantrNewtonTRInner co Pf cfg hv J pr stop oot clock almStop gV)).x
      (C07.run nan inf acc0 accAdd P prob x y Sig0
        (pantrNewtonTRInner co Pf cfg hv J pr stop oot clock almStop gV)).y :=
  alm_converged_certifies_kkt nan inf acc0 accAdd P prob x y Sig0 _ pb n
    (pantr_newtontr_satisfies_inner_contract pb n prob.m Pf hO co hinf cfg hv J pr hp hcrit stop oot clock
      almStop gV) hm hC hDb hmin hmm hlen hx hy hconv

/-- **… and for `m = 0`**: stationarity within `tolerance` and `x ∈ C`. -/
theorem alm_pantr_newtontr_m0_certifies_kkt (nan inf : α) (acc0 : A) (accAdd : A → Pantr.Stats α → A)
    (P : ALMParams α) (prob : C07.Problem α) (x y : Vec α) (Sig0 : Option (Vec α))
    (pb : ProblemCF α) (n : Nat)
    (Pf : Vec α → Vec α → Pantr.Problem α) (hO : OracleContractPantr pb n 0 Pf)
    (co : Pantr.Consts α) (hinf : 0 ≤ co.inf) (cfg : NtrParams α)
    (hv : Vec α → Vec α → Vec α → Vec α → Vec α) (J : α → Vec α → Vec α → List Nat)
    (pr : Pantr.Params α) (hp : Pantr.ParamsOK pr) (hcrit : pr.stopCrit = .ApproxKKT)
    (stop : InnerCall α → Nat → Bool) (oot clock almStop : InnerCall α → Bool) (gV : Vec α)
    (hm : prob.m = 0) (h0 : P.max_iter ≠ 0)
    (hC : ∀ b ∈ pb.C, ∀ l u, b.1 = some l → b.2 = some u → l ≤ u)
    (htol : 0 < P.tolerance) (hδ : 0 ≤ P.dual_tolerance) (hx : x.length = n) (hy : y.length = prob.m)
    (hconv : (C07.run nan inf acc0 accAdd P prob x y Sig0
      (pantrNewtonTRInner co Pf cfg hv J pr stop oot clock almStop gV)).stats.status = .Converged) :
    KKTCert pb 0 P.tolerance P.dual_tolerance
      (C07.run nan inf acc0 accAdd P prob x y Sig0
        (pantrNewtonTRInner co Pf cfg hv J pr stop oot clock almStop gV)).x
      (C07.run nan inf acc0 accAdd P prob x y Sig0
        (pantrNewtonTRInner co Pf cfg hv J pr stop oot clock almStop gV)).y :=
  alm_m0_converged_certifies_kkt nan inf acc0 accAdd P prob x y Sig0 _ pb n
    (pantr_newtontr_satisfies_inner_contract pb n 0 Pf hO co hinf cfg hv J pr hp hcrit stop oot clock
      almStop gV) hm h0 hC htol hδ hx hy hconv

/-- **PANTR with the Newton-TR provider over the RAW slots of the vtable `resolve B P` built by C04** —
    every provider mix, any workspace content of size `m` (`Props/C01_Pantr_C04`): no oracle hypothesis and
    no provider hypothesis left.  (The four second-order slots of the C04 vtable are arbitrary; the
    Hessian-vector oracle `hv` of the provider is likewise arbitrary here.) -/
theorem pantr_newtontr_on_raw_vtable_satisfies_inner_contract (B : Basic α) (hB : WF B)
    (P : Provided α) (hP : P.Sound B) (C : BoxC α) (D : BoxD α) (hbox : IsBoxProblem B C D)
    (W : Vec α → Vec α → Vec α → Vec α) (w : Vec α) (hw : w.length = B.m)
    (hWl : ∀ x y Sig, x.length = B.n → y.length = B.m → Sig.length = B.m → (W x y Sig).length = B.m)
    (co : Pantr.Consts α) (hinf : 0 ≤ co.inf) (cfg : NtrParams α)
    (hv : Vec α → Vec α → Vec α → Vec α → Vec α) (J : α → Vec α → Vec α → List Nat)
    (pr : Pantr.Params α) (hp : Pantr.ParamsOK pr) (hcrit : pr.stopCrit = .ApproxKKT)
    (stop : InnerCall α → Nat → Bool) (oot clock almStop : InnerCall α → Bool) (gV : Vec α) :
    InnerContract (pbOf B C D) B.n B.m
      (pantrNewtonTRInner co (fun y Sig => ofPanoc (vtProblemRaw (resolve B P) C W w y Sig)) cfg hv J pr
        stop oot clock almStop gV) :=
  pantr_newtontr_satisfies_inner_contract (pbOf B C D) B.n B.m _
    (resolve_raw_meets_oracleContractPantr B hB P hP C D hbox W w hw hWl) co hinf cfg hv J pr hp hcrit
    stop oot clock almStop gV

end contract

/-! ### Non-vacuity (closed, over `ℚ`): problem `pbEx` of `Props/C01_Alm` (minimise `(x − 2)²` s.t. `x ≥ 0`,
    `x ≤ 1`; solution `x = 1`, `y = 2`), constants / parameters of `Props/C01_Pantr`

    `RealLike ℚ` has `sqrt = id` (as in every `ℚ` example of the project): in the runs below it only enters
    the CG tolerance and the over-long-step test `‖s‖ ≥ Δ` of `steihaug`, neither of which decides
    anything here (the residual is exactly `0` after one CG iteration; `Δ = 5`). -/
section examples
open Alpaqa.C07 Alpaqa.Props.C01 Alpaqa.Props.C07 Alpaqa.Props.C01Alm Alpaqa.Props.C01Pantr
open Alpaqa.Pantr.ExampleQ

local instance : Alpaqa.Proofs.C07.NoNaN ℚ := ⟨fun _ => rfl⟩

/-- default `SteihaugCGParams` shape (`max_iter_factor = 1`), `hessian_vec_factor = 1`, `ε = 2⁻⁵²`,
    `round` to nearest, `copysign` -/
def cfgEx : NtrParams ℚ :=
  { copysign := fun a b => if b < 0 then -|a| else |a|, round := fun q => ⌊q + 1/2⌋,
    epsMach := 1/4503599627370496, hessianVecFactor := 1, tolMax := 1/100, tolScale := 1, tolRoot := 1/2,
    maxIterFactor := 1 }

/-- `∇²ψ(x; y, Σ)·v = (2 + Σ)·v` (the constraint `x ≤ 1` active in the penalty term) -/
def hvEx (_y Sig _x v : Vec ℚ) : Vec ℚ := [(2 + vget Sig 0) * vget v 0]

/-- `eval_inactive_indices_res_lna` for `C = [0, ∞)`: index `0` is inactive iff `x − γ·∇ψ(x) > 0` -/
def JEx (γ : ℚ) (x g : Vec ℚ) : List Nat := if 0 < vget x 0 - γ * vget g 0 then [0] else []

/-- PANTR with the Newton-TR provider over the closed-form oracles of `pbEx` -/
def pantrNtEx : InnerCall ℚ → InnerResult ℚ (Pantr.Stats ℚ) :=
  pantrNewtonTRInner coq (cfProblemPantr pbEx psiEx (gradPsiCF pbEx)) cfgEx hvEx JEx prK (fun _ _ => false)
    (fun _ => false) (fun _ => false) (fun _ => false) [0]

/-- **the inner contract, no hypothesis left** -/
theorem pantrNtEx_contract : InnerContract pbEx 1 1 pantrNtEx :=
  pantr_newtontr_satisfies_inner_contract pbEx 1 1 _ pbEx_contractPantr coq (by norm_num [coq]) cfgEx hvEx
    JEx prK ⟨by norm_num [prK, prq], by norm_num [prK, prq], by norm_num [prK, prq]⟩ rfl
    (fun _ _ => false) (fun _ => false) (fun _ => false) (fun _ => false) [0]

/-- the provider at work (`y = 2`, `Σ = 1`, `γ = 1/6`, `x = 3`, `∇ψ = 3`, `p = −γ∇ψ = −1/2`): the Newton
    step `q = −∇ψ/(2 + Σ) = −1` with model value `⟨∇ψ, q⟩ + ½·3·q² = −3/2` for `Δ = 5` (interior exit of
    the CG loop after one iteration); a radius below `ε` fires the guard — value `0`, `q` untouched -/
example : (newtonTRDir cfgEx (hvEx [2] [1]) JEx).apply () (1/6) [3] [5/2] [-1/2] [3] 5 [0]
      = ((), -3/2, [-1]) ∧
    (newtonTRDir cfgEx (hvEx [2] [1]) JEx).apply () (1/6) [3] [5/2] [-1/2] [3] 0 [77] = ((), 0, [77]) := by
  decide +kernel

/-- not vacuous: from `x = 3` the first Newton-TR step is accepted and lands on the solution (`ψ` is
    quadratic there): `Converged` after one iteration, `x = 1`, `y = 2`, `err_z = 0`, `ε = 0`, no rejected
    step, no direction failure … -/
example : (pantrNtEx ⟨[3], [2], [1], [7], ⟨true, 1/10, 0, false⟩⟩).status = .Converged ∧
    (pantrNtEx ⟨[3], [2], [1], [7], ⟨true, 1/10, 0, false⟩⟩).x = [1] ∧
    (pantrNtEx ⟨[3], [2], [1], [7], ⟨true, 1/10, 0, false⟩⟩).y = [2] ∧
    (pantrNtEx ⟨[3], [2], [1], [7], ⟨true, 1/10, 0, false⟩⟩).errz = [0] ∧
    (pantrNtEx ⟨[3], [2], [1], [7], ⟨true, 1/10, 0, false⟩⟩).eps = 0 ∧
    (pantrNtEx ⟨[3], [2], [1], [7], ⟨true, 1/10, 0, false⟩⟩).stats.iterations = 1 ∧
    (pantrNtEx ⟨[3], [2], [1], [7], ⟨true, 1/10, 0, false⟩⟩).stats.acceleratedStepRejected = 0 ∧
    (pantrNtEx ⟨[3], [2], [1], [7], ⟨true, 1/10, 0, false⟩⟩).stats.directionFailures = 0 := by
  decide +kernel

/-- … (the toy provider of `Props/C01_Pantr` needs 5 iterations, 4 of them rejected, from the same point)
    and likewise from `x = 1/2` -/
example : (pantrNtEx ⟨[1/2], [2], [1], [7], ⟨true, 1/10, 0, false⟩⟩).status = .Converged ∧
    (pantrNtEx ⟨[1/2], [2], [1], [7], ⟨true, 1/10, 0, false⟩⟩).x = [1] ∧
    (pantrNtEx ⟨[1/2], [2], [1], [7], ⟨true, 1/10, 0, false⟩⟩).stats.iterations = 1 := by
  decide +kernel

/-- the ALM model (`Props/C07`) over PANTR with the Newton-TR provider on `pbEx`, from `x = [3]`, `y = [2]` -/
def almPantrNtEx : C07.Result ℚ (Pantr.Stats ℚ) (Pantr.Stats ℚ) :=
  C07.run (0 : ℚ) 0 (Pantr.stats0 coq) (fun _ s => s) almEx probEx [3] [2] none pantrNtEx

theorem almPantrNtEx_converged : almPantrNtEx.stats.status = .Converged := by decide +kernel

/-- **the whole stack, closed**: ALM over PANTR over `NewtonTRDirection` (C11 model) returns `Converged`
    with the exact solution `x = 1`, `y = 2`, and `alm_pantr_newtontr_certifies_kkt`, every hypothesis
    discharged, certifies the returned pair -/
example : KKTCert pbEx 1 (1/10) (1/100) almPantrNtEx.x almPantrNtEx.y :=
  alm_pantr_newtontr_certifies_kkt (0 : ℚ) 0 (Pantr.stats0 coq) (fun _ s => s) almEx probEx [3] [2] none
    pbEx 1 _ pbEx_contractPantr coq (by norm_num [coq]) cfgEx hvEx JEx prK
    ⟨by norm_num [prK, prq], by norm_num [prK, prq], by norm_num [prK, prq]⟩ rfl
    (fun _ _ => false) (fun _ => false) (fun _ => false) (fun _ => false) [0]
    (by decide) pbEx_C pbEx_D (by norm_num [almEx]) (by norm_num [almEx]) trivial rfl rfl
    almPantrNtEx_converged

example : almPantrNtEx.x = [1] ∧ almPantrNtEx.y = [2] ∧ almPantrNtEx.stats.outer_iterations = 1 := by
  decide +kernel

end examples

end Alpaqa.Props.PantrNewtonTR
