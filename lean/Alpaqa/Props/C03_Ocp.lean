/-
  C03 for PANOC-OCP — written-back u, y and constraint error are feasible and mutually consistent.

  Theorems about the loop model `Alpaqa/Model/Ocp.lean` (tied to panoc-ocp.tpp by bit-exact trace replay).
  The structural ones hold for *every* evaluator oracle (forward / backward), every direction oracle
  (Gauss-Newton step always / periodically / never, any L-BFGS behaviour), every stop schedule, time-limit
  oracle, iteration budget (0 included), both values of `always_overwrite_results`, every exit status, over
  *any* carrier (IEEE doubles included) — conditional on the model's loop fuel (`fuelOut = false`; asserted
  by the trace replay on every run).  The order-theoretic readings (`u ∈ U`, `e = c − Π_D(c + y/μ)`) are proved
  over every linearly ordered field, where the fuel hypothesis is discharged by `FuelOK` (`Proofs/OcpFuel`:
  `ocp_exit_contract_fuelOK`, `ocp_wrote_iff_fuelOK`, `ocp_u_out_in_U`), and input boxes with infinite sides
  are covered through extended bounds (`ocp_u_out_in_extended_U`).  `ocp_wrote_iff`: results are written
  exactly on `Converged` / `Interrupted` / `always_overwrite_results` exits from a loop head.
-/
import Alpaqa.Proofs.OcpInv
import Alpaqa.Proofs.OcpLoop
import Alpaqa.Proofs.OcpFuel
import Alpaqa.Proofs.OcpExample
import Alpaqa.Proofs.Basic
import Alpaqa.Props.C15

namespace Alpaqa.Props.C03_Ocp
open Alpaqa Alpaqa.Ocp Alpaqa.Gen
set_option linter.unusedSectionVars false
set_option linter.unusedVariables false

/-! ### Structural exit contract (any carrier) -/
section structural
variable {α D : Type} [Add α] [Sub α] [Mul α] [Div α] [Neg α] [LT α] [LE α] [DecidableLT α]
  [DecidableLE α] [BEq α] [RealLike α] [NatCast α] [OfScientific α]
  [OfNat α 0] [OfNat α 1] [OfNat α 2] [OfNat α 100]

/-- **Exit contract of `PANOCOCPSolver::operator()`.**  Whenever `write_solution` runs
    (`Converged`, `Interrupted`, or `always_overwrite_results`):
    * the returned `u` is the `û` of a projected-gradient step `Π_U(u − γ∇ψ)`;
    * the returned `y`, `err_z` are `write_solution`'s formulas applied to the constraint values stored
      by the forward oracle *at that very `u`* (`(O.fwd r.u).2`), i.e. multipliers and constraint error
      belong to the returned input sequence and to no other iterate.
    Otherwise `u`, `y`, `err_z` are the caller's values, untouched. -/
theorem ocp_exit_contract (O : Oracles α) (dir : Dir D α) (P : Prob α) (d0 : D) (pr : Params α)
    (stop : Nat → Bool) (oot : Bool) (u0 y mu errz0 gV gQ : Vec α) (gS e0 : α)
    (hτ : TauSentinelOK α)
    (hfuel : (run O dir P d0 pr stop oot u0 y mu errz0 gV gQ gS e0).fuelOut = false) :
    ExitOK O P u0 y mu errz0 (run O dir P d0 pr stop oot u0 y mu errz0 gV gQ gS e0) := by
  unfold run at hfuel ⊢
  cases hi : initState O P d0 pr stop u0 gV gQ gS e0 with
  | inl t =>
    simp only [hi] at hfuel ⊢
    exact ⟨fun h => absurd h (by simp), fun _ => ⟨rfl, rfl, rfl⟩⟩
  | inr s =>
    simp only [hi] at hfuel ⊢
    have hs := initState_good O P d0 pr stop u0 gV gQ gS e0 s hi
    refine mainLoop_ok O dir P pr stop oot u0 y mu errz0 _ s hs.1 hτ ?_ hfuel
    rcases Bool.eq_false_or_eq_true s.fuelOut with hc | hc
    · have := mainLoop_fuelOut_mono O dir P pr stop oot u0 y mu errz0 (pr.maxIter + 2) s hc
      rw [this] at hfuel; exact absurd hfuel (by decide)
    · exact hc

/-- With `always_overwrite_results` disabled and an exit that is neither Converged nor Interrupted
    (and on every exception / early return), `u`, `y`, `err_z` are left untouched. -/
theorem ocp_untouched (O : Oracles α) (dir : Dir D α) (P : Prob α) (d0 : D) (pr : Params α)
    (stop : Nat → Bool) (oot : Bool) (u0 y mu errz0 gV gQ : Vec α) (gS e0 : α)
    (hτ : TauSentinelOK α)
    (hfuel : (run O dir P d0 pr stop oot u0 y mu errz0 gV gQ gS e0).fuelOut = false)
    (hw : (run O dir P d0 pr stop oot u0 y mu errz0 gV gQ gS e0).wrote = false) :
    (run O dir P d0 pr stop oot u0 y mu errz0 gV gQ gS e0).u = u0 ∧
    (run O dir P d0 pr stop oot u0 y mu errz0 gV gQ gS e0).y = y ∧
    (run O dir P d0 pr stop oot u0 y mu errz0 gV gQ gS e0).errz = errz0 :=
  (ocp_exit_contract O dir P d0 pr stop oot u0 y mu errz0 gV gQ gS e0 hτ hfuel).2 hw

/-- The returned multipliers and constraint error are computed from the trajectory of the returned
    inputs: `(u, y, e)_out = write_solution(u_out, forward(u_out))`. -/
theorem ocp_y_errz_of_returned_u (O : Oracles α) (dir : Dir D α) (P : Prob α) (d0 : D) (pr : Params α)
    (stop : Nat → Bool) (oot : Bool) (u0 y mu errz0 gV gQ : Vec α) (gS e0 : α)
    (hτ : TauSentinelOK α)
    (hfuel : (run O dir P d0 pr stop oot u0 y mu errz0 gV gQ gS e0).fuelOut = false)
    (hw : (run O dir P d0 pr stop oot u0 y mu errz0 gV gQ gS e0).wrote = true) :
    ((run O dir P d0 pr stop oot u0 y mu errz0 gV gQ gS e0).u,
     (run O dir P d0 pr stop oot u0 y mu errz0 gV gQ gS e0).y,
     (run O dir P d0 pr stop oot u0 y mu errz0 gV gQ gS e0).errz) =
      writeSolution P (run O dir P d0 pr stop oot u0 y mu errz0 gV gQ gS e0).u
        (O.fwd (run O dir P d0 pr stop oot u0 y mu errz0 gV gQ gS e0).u).2 y mu errz0 :=
  ((ocp_exit_contract O dir P d0 pr stop oot u0 y mu errz0 gV gQ gS e0 hτ hfuel).1 hw).2

/-- Where a solve can end (as `Props/C06_Ocp.ocp_run_cases`). -/
theorem ocp_run_cases_wrote (O : Oracles α) (dir : Dir D α) (P : Prob α) (d0 : D) (pr : Params α)
    (stop : Nat → Bool) (oot : Bool) (u0 y mu errz0 gV gQ : Vec α) (gS e0 : α)
    (hτ : TauSentinelOK α)
    (hfuel : (run O dir P d0 pr stop oot u0 y mu errz0 gV gQ gS e0).fuelOut = false) :
    ((run O dir P d0 pr stop oot u0 y mu errz0 gV gQ gS e0).wrote = false ∧
      (run O dir P d0 pr stop oot u0 y mu errz0 gV gQ gS e0).callbacks = []) ∨
    ((run O dir P d0 pr stop oot u0 y mu errz0 gV gQ gS e0).exc ≠ .none ∧
      (run O dir P d0 pr stop oot u0 y mu errz0 gV gQ gS e0).wrote = false) ∨
    ExitAtHead O P pr stop oot u0 y mu errz0 (run O dir P d0 pr stop oot u0 y mu errz0 gV gQ gS e0) := by
  unfold run at hfuel ⊢
  cases hi : initState O P d0 pr stop u0 gV gQ gS e0 with
  | inl t => left; exact ⟨rfl, rfl⟩
  | inr s =>
    right
    simp only [hi] at hfuel ⊢
    have hs := initState_good O P d0 pr stop u0 gV gQ gS e0 s hi
    have hf0 : s.fuelOut = false := by
      rcases Bool.eq_false_or_eq_true s.fuelOut with hc | hc
      · have := mainLoop_fuelOut_mono O dir P pr stop oot u0 y mu errz0 (pr.maxIter + 2) s hc
        rw [this] at hfuel; exact absurd hfuel (by decide)
      · exact hc
    rcases mainLoop_spec O dir P pr stop oot u0 y mu errz0 _ s hs.1 (by rw [hs.2]; omega) hτ hf0 hfuel
      with h | h
    · left
      refine ⟨h, ?_⟩
      have hok := mainLoop_ok O dir P pr stop oot u0 y mu errz0 _ s hs.1 hτ hf0 hfuel
      rcases Bool.eq_false_or_eq_true
        (mainLoop O dir P pr stop oot u0 y mu errz0 (pr.maxIter + 2) s).wrote with hw | hw
      · exfalso
        revert h hw
        exact mainLoop_exc_wrote O dir P pr stop oot u0 y mu errz0 (pr.maxIter + 2) s
      · exact hw
    · right; exact h
where
  mainLoop_exc_wrote (O : Oracles α) (dir : Dir D α) (P : Prob α) (pr : Params α) (stop : Nat → Bool)
      (oot : Bool) (u0 y mu errz0 : Vec α) (fuel : Nat) (s : St α D) :
      (mainLoop O dir P pr stop oot u0 y mu errz0 fuel s).exc ≠ .none →
      (mainLoop O dir P pr stop oot u0 y mu errz0 fuel s).wrote = true → False := by
    induction fuel generalizing s with
    | zero => simp [mainLoop, excResult]
    | succ f ih =>
      unfold mainLoop
      cases hes : (headStep P pr stop oot s).2 with
      | none => simp [excResult]
      | some es =>
        simp only []
        split_ifs
        · simp [exitBlock]
        · simp [excResult]
        · exact ih _

/-- **The outputs are overwritten exactly when** the solve returned from a loop head (progress callback
    ran, no exception) **with status `Converged` / `Interrupted`, or `always_overwrite_results` is set**;
    on the early `NotFinite` return and on every exception nothing is written. -/
theorem ocp_wrote_iff (O : Oracles α) (dir : Dir D α) (P : Prob α) (d0 : D) (pr : Params α)
    (stop : Nat → Bool) (oot : Bool) (u0 y mu errz0 gV gQ : Vec α) (gS e0 : α)
    (hτ : TauSentinelOK α)
    (hfuel : (run O dir P d0 pr stop oot u0 y mu errz0 gV gQ gS e0).fuelOut = false) :
    ((run O dir P d0 pr stop oot u0 y mu errz0 gV gQ gS e0).exc = .none →
      (run O dir P d0 pr stop oot u0 y mu errz0 gV gQ gS e0).callbacks ≠ [] →
      (run O dir P d0 pr stop oot u0 y mu errz0 gV gQ gS e0).wrote =
        ((run O dir P d0 pr stop oot u0 y mu errz0 gV gQ gS e0).stats.status == .Converged ||
         (run O dir P d0 pr stop oot u0 y mu errz0 gV gQ gS e0).stats.status == .Interrupted ||
         pr.alwaysOverwrite)) ∧
    (((run O dir P d0 pr stop oot u0 y mu errz0 gV gQ gS e0).exc ≠ .none ∨
      (run O dir P d0 pr stop oot u0 y mu errz0 gV gQ gS e0).callbacks = []) →
      (run O dir P d0 pr stop oot u0 y mu errz0 gV gQ gS e0).wrote = false) := by
  rcases ocp_run_cases_wrote O dir P d0 pr stop oot u0 y mu errz0 gV gQ gS e0 hτ hfuel with h | h | h
  · exact ⟨fun _ hc => absurd h.2 hc, fun _ => h.1⟩
  · exact ⟨fun hc _ => absurd hc h.1, fun _ => h.2⟩
  · obtain ⟨sh, eps, status, _, _, _, _, _, hr⟩ := h
    rw [hr]
    refine ⟨fun _ _ => by simp [exitBlock], fun hor => ?_⟩
    rcases hor with hx | hc
    · simp [exitBlock] at hx
    · simp [exitBlock] at hc

end structural

/-! ### Order-theoretic readings (every linearly ordered field) -/
section field
variable {α : Type} [Field α] [LinearOrder α] [IsStrictOrderedRing α] [RealLike α]

/-- pairwise `lb ≤ ub` -/
def BoxOK : Vec α → Vec α → Prop
  | l :: ls, h :: hs => l ≤ h ∧ BoxOK ls hs
  | _, _ => True

/-- every component of `v` lies between the corresponding bounds (and has bounds) -/
def InBoxV : Vec α → Vec α → Vec α → Prop
  | l :: ls, h :: hs, v :: vs => l ≤ v ∧ v ≤ h ∧ InBoxV ls hs vs
  | _, _, [] => True
  | _, _, _ :: _ => False

/-- One component of the projected-gradient step lands in `[lb, ub]`. -/
theorem projStep1_feasible (hnn : ∀ x : α, RealLike.isNaN x = false) (γ g x lb ub : α) (h : lb ≤ ub) :
    lb ≤ x + projStep1 γ g x lb ub ∧ x + projStep1 γ g x lb ub ≤ ub := by
  unfold projStep1 fminS fmaxS
  simp only [hnn, Bool.false_eq_true, if_false]
  split_ifs <;> constructor <;> linarith

/-- …and equals the Euclidean projection of the gradient step: `x + p = Π_[lb,ub](x − γ g)`. -/
theorem projStep1_eq_proj (hnn : ∀ x : α, RealLike.isNaN x = false) (γ g x lb ub : α) :
    x + projStep1 γ g x lb ub = min (max (x - γ * g) lb) ub := by
  unfold projStep1 fminS fmaxS
  simp only [hnn, Bool.false_eq_true, if_false, min_def, max_def]
  split_ifs <;> linarith

theorem projStepV_feasible (hnn : ∀ x : α, RealLike.isNaN x = false) (γ : α) (u g lb ub : Vec α)
    (h : BoxOK lb ub) : InBoxV lb ub (vadd u (projStepV γ u g lb ub)) := by
  induction u generalizing g lb ub with
  | nil => simp [vadd, vzip, InBoxV]
  | cons x xs ih =>
    cases g with
    | nil => simp [projStepV, vadd, vzip, InBoxV]
    | cons gi gs =>
      cases lb with
      | nil => simp [projStepV, vadd, vzip, InBoxV]
      | cons l ls =>
        cases ub with
        | nil => simp [projStepV, vadd, vzip, InBoxV]
        | cons hh hs =>
          have hf := projStep1_feasible hnn γ gi x l hh h.1
          simp only [projStepV, vadd, vzip, List.zipWith_cons_cons, InBoxV]
          exact ⟨hf.1, hf.2, ih gs ls hs h.2⟩

theorem boxOK_append (a b c d : Vec α) (hl : a.length = c.length) (h1 : BoxOK a c) (h2 : BoxOK b d) :
    BoxOK (a ++ b) (c ++ d) := by
  induction a generalizing c with
  | nil =>
    cases c with
    | nil => simpa using h2
    | cons _ _ => simp at hl
  | cons x xs ih =>
    cases c with
    | nil => simp at hl
    | cons z zs =>
      simp only [List.cons_append, BoxOK]
      exact ⟨h1.1, ih zs (by simpa using hl) h1.2⟩

/-- The per-stage input box repeated over the horizon is a box. -/
theorem boxOK_tile (N : Nat) (lb ub : Vec α) (hl : lb.length = ub.length) (h : BoxOK lb ub) :
    BoxOK (tile N lb) (tile N ub) := by
  induction N with
  | zero => simp [tile, BoxOK]
  | succ n ih =>
    simp only [tile, List.replicate_succ, List.flatten_cons] at ih ⊢
    exact boxOK_append _ _ _ _ hl h ih

/-- **Feasibility of the returned inputs**: every component of the returned `u` lies in the input box
    `U` (repeated over the stages), for every exit status at which results are written. -/
theorem tauSentinelOK : TauSentinelOK α := by
  constructor <;> simp [bne_iff_ne] <;> norm_num

/-- **The model's loop fuel suffices** (`Proofs/OcpFuel.run_fuelOut_false`): under `FuelOK pr nL nτ` —
    `0 < L_min ≤ L_max ≤ L_min·2^nL`, `L_max ≤ L_0·2^nL` for a user-supplied `L_0 > 0`,
    `1 < min_linesearch_coefficient·2^nτ`, `(nL+1)(nτ+3) + 1 ≤ lsFuel` — no loop of the model is cut short by its
    fuel, for all oracles, stop schedules (no monotonicity needed), budgets: the step-size loops double `L` at
    most `nL` times, the line search makes at most `(nL+1)(nτ+3)` passes, the main loop at most `max_iter + 2`. -/
theorem ocp_fuel_suffices {D : Type} (O : Oracles α) (dir : Dir D α) (P : Prob α) (d0 : D)
    (pr : Params α) (stop : Nat → Bool) (oot : Bool) (u0 y mu errz0 gV gQ : Vec α) (gS e0 : α)
    (nL nτ : Nat) (hp : FuelOK pr nL nτ) :
    (run O dir P d0 pr stop oot u0 y mu errz0 gV gQ gS e0).fuelOut = false :=
  run_fuelOut_false O dir P d0 pr stop oot u0 y mu errz0 gV gQ gS e0 nL nτ hp

/-- **Exit contract with the explicit fuel bound**: over a linearly ordered field the hypotheses
    `TauSentinelOK` and `fuelOut = false` of `ocp_exit_contract` are theorems (`FuelOK`, `Proofs/OcpFuel`). -/
theorem ocp_exit_contract_fuelOK {D : Type} (O : Oracles α) (dir : Dir D α) (P : Prob α) (d0 : D)
    (pr : Params α) (stop : Nat → Bool) (oot : Bool) (u0 y mu errz0 gV gQ : Vec α) (gS e0 : α)
    (nL nτ : Nat) (hp : FuelOK pr nL nτ) :
    ExitOK O P u0 y mu errz0 (run O dir P d0 pr stop oot u0 y mu errz0 gV gQ gS e0) :=
  ocp_exit_contract O dir P d0 pr stop oot u0 y mu errz0 gV gQ gS e0 tauSentinelOK
    (run_fuelOut_false O dir P d0 pr stop oot u0 y mu errz0 gV gQ gS e0 nL nτ hp)

/-- …and `wrote ⇔ status` likewise. -/
theorem ocp_wrote_iff_fuelOK {D : Type} (O : Oracles α) (dir : Dir D α) (P : Prob α) (d0 : D)
    (pr : Params α) (stop : Nat → Bool) (oot : Bool) (u0 y mu errz0 gV gQ : Vec α) (gS e0 : α)
    (nL nτ : Nat) (hp : FuelOK pr nL nτ)
    (hex : (run O dir P d0 pr stop oot u0 y mu errz0 gV gQ gS e0).exc = .none)
    (hcb : (run O dir P d0 pr stop oot u0 y mu errz0 gV gQ gS e0).callbacks ≠ []) :
    (run O dir P d0 pr stop oot u0 y mu errz0 gV gQ gS e0).wrote =
      ((run O dir P d0 pr stop oot u0 y mu errz0 gV gQ gS e0).stats.status == .Converged ||
       (run O dir P d0 pr stop oot u0 y mu errz0 gV gQ gS e0).stats.status == .Interrupted ||
       pr.alwaysOverwrite) :=
  (ocp_wrote_iff O dir P d0 pr stop oot u0 y mu errz0 gV gQ gS e0 tauSentinelOK
    (run_fuelOut_false O dir P d0 pr stop oot u0 y mu errz0 gV gQ gS e0 nL nτ hp)).1 hex hcb

theorem ocp_u_out_in_U {D : Type} (hnn : ∀ x : α, RealLike.isNaN x = false)
    (O : Oracles α) (dir : Dir D α) (P : Prob α) (d0 : D) (pr : Params α)
    (stop : Nat → Bool) (oot : Bool) (u0 y mu errz0 gV gQ : Vec α) (gS e0 : α)
    (hU : BoxOK P.Ulb P.Uub) (hUl : P.Ulb.length = P.Uub.length)
    (nL nτ : Nat) (hp : FuelOK pr nL nτ)
    (hw : (run O dir P d0 pr stop oot u0 y mu errz0 gV gQ gS e0).wrote = true) :
    InBoxV (tile P.N P.Ulb) (tile P.N P.Uub) (run O dir P d0 pr stop oot u0 y mu errz0 gV gQ gS e0).u := by
  obtain ⟨⟨γ, u, g, hx⟩, _⟩ :=
    (ocp_exit_contract_fuelOK O dir P d0 pr stop oot u0 y mu errz0 gV gQ gS e0 nL nτ hp).1 hw
  rw [hx]
  exact projStepV_feasible hnn γ u g _ _ (boxOK_tile P.N _ _ hUl hU)

/-! #### One-sided / unbounded input boxes

In the C++ an absent bound is `±inf`.  Over an ordered field it is represented by `none`
(`Props/C15`: `clampO`, `InBoxO`, `Far`): a bound specification `b = (lb?, ub?, lb', ub')` carries the
extended bounds and the finite stand-ins the field model computes with.  Where the stand-ins are *far
enough for the step taken* (`FarAt`: `lb' ≤ x − γg` resp. `ub' ≥ max(x − γg, lb)` on infinite sides, equal to
the bound on finite sides — exactly the condition under which `fmin(fmax(−γg, lb' − x), ub' − x)` computes
what IEEE arithmetic computes with `∓inf`), the projected-gradient step is the projection onto the
*extended* box. -/

/-- `(extended lower, extended upper, finite lower stand-in, finite upper stand-in)` -/
abbrev BndSpec (α : Type) := Option α × Option α × α × α

def lbF (b : BndSpec α) : α := b.2.2.1
def ubF (b : BndSpec α) : α := b.2.2.2

/-- the stand-ins are far enough for the step `x ↦ x − γ g`, componentwise -/
def FarAt (γ : α) : List (BndSpec α) → Vec α → Vec α → Prop
  | b :: bs, x :: xs, g :: gs =>
    C15.Far b.1 b.2.1 (x - γ * g) (C15.maxLbO b.1 (x - γ * g)) b.2.2.1 b.2.2.2 ∧ FarAt γ bs xs gs
  | _, _, _ => True

/-- `out` is, componentwise, the projection of `x − γ g` onto the extended box, and lies in it -/
def IsClampO (γ : α) : List (BndSpec α) → Vec α → Vec α → Vec α → Prop
  | b :: bs, x :: xs, g :: gs, o :: os =>
    o = C15.clampO b.1 b.2.1 (x - γ * g) ∧ C15.InBoxO b.1 b.2.1 o ∧ IsClampO γ bs xs gs os
  | _, _, _, [] => True
  | _, _, _, _ :: _ => False

/-- finite bounds are their own stand-ins -/
def finiteSpec (lb ub : Vec α) : List (BndSpec α) :=
  List.zipWith (fun l h => (some l, some h, l, h)) lb ub

theorem farAt_finite (γ : α) (lb ub u g : Vec α) : FarAt γ (finiteSpec lb ub) u g := by
  unfold finiteSpec
  induction lb generalizing ub u g with
  | nil => simp [FarAt]
  | cons l ls ih =>
    cases ub with
    | nil => simp [FarAt]
    | cons h hs =>
      cases u with
      | nil => simp [FarAt]
      | cons x xs =>
        cases g with
        | nil => simp [FarAt]
        | cons gi gs =>
          simp only [List.zipWith_cons_cons, FarAt]
          exact ⟨C15.Far.some l h _ _, ih hs xs gs⟩

/-- **The projected-gradient step with infinite sides**: `u + p = Π_{U°}(u − γ g)` componentwise, in the
    extended box. -/
theorem projStepV_clampO (hnn : ∀ x : α, RealLike.isNaN x = false) (γ : α) (bs : List (BndSpec α))
    (u g : Vec α) (hok : ∀ b ∈ bs, C15.BoxOK b.1 b.2.1) (hfar : FarAt γ bs u g) :
    IsClampO γ bs u g (vadd u (projStepV γ u g (bs.map lbF) (bs.map ubF))) := by
  induction bs generalizing u g with
  | nil => cases u <;> cases g <;> simp [projStepV, vadd, vzip, IsClampO]
  | cons b bs ih =>
    cases u with
    | nil => simp [projStepV, vadd, vzip, IsClampO]
    | cons x xs =>
      cases g with
      | nil => simp [projStepV, vadd, vzip, IsClampO]
      | cons gi gs =>
        simp only [List.map_cons, projStepV, vadd, vzip, List.zipWith_cons_cons, IsClampO]
        have h1 := projStep1_eq_proj hnn γ gi x (lbF b) (ubF b)
        have h2 := C15.clamp_far b.1 b.2.1 (x - γ * gi) (lbF b) (ubF b) hfar.1
        have h3 : x + projStep1 γ gi x (lbF b) (ubF b) = C15.clampO b.1 b.2.1 (x - γ * gi) := by
          rw [h1, h2]
        refine ⟨h3, ?_, ih xs gs (fun b' hb' => hok b' (List.mem_cons_of_mem _ hb')) hfar.2⟩
        rw [h3]
        exact C15.clampO_in_box b.1 b.2.1 (hok b (List.mem_cons_self ..)) _

theorem tile_map {β γ' : Type} (N : Nat) (f : β → γ') (v : List β) :
    (List.replicate N (v.map f)).flatten = ((List.replicate N v).flatten).map f := by
  induction N with
  | zero => simp
  | succ n ih =>
    rw [List.replicate_succ, List.replicate_succ, List.flatten_cons, List.flatten_cons, List.map_append, ih]

/-- **Feasibility of the returned inputs for one-sided / unbounded input boxes**: whenever results are
    written, the returned `u` is `û = u + p` of a projected-gradient step, and where the finite stand-ins
    the field model computes with are far enough for that step (`FarAt`; automatic for finite bounds,
    `farAt_finite`) it is the componentwise projection of `u − γ∇ψ` onto the extended box and lies in it. -/
theorem ocp_u_out_in_extended_U {D : Type} (hnn : ∀ x : α, RealLike.isNaN x = false)
    (O : Oracles α) (dir : Dir D α) (P : Prob α) (d0 : D) (pr : Params α)
    (stop : Nat → Bool) (oot : Bool) (u0 y mu errz0 gV gQ : Vec α) (gS e0 : α)
    (bs : List (BndSpec α)) (hlb : P.Ulb = bs.map lbF) (hub : P.Uub = bs.map ubF)
    (hok : ∀ b ∈ bs, C15.BoxOK b.1 b.2.1) (nL nτ : Nat) (hp : FuelOK pr nL nτ)
    (hw : (run O dir P d0 pr stop oot u0 y mu errz0 gV gQ gS e0).wrote = true) :
    ∃ (γ : α) (u g : Vec α),
      (run O dir P d0 pr stop oot u0 y mu errz0 gV gQ gS e0).u =
        vadd u (projStepV γ u g (tile P.N P.Ulb) (tile P.N P.Uub)) ∧
      (FarAt γ ((List.replicate P.N bs).flatten) u g →
        IsClampO γ ((List.replicate P.N bs).flatten) u g
          (run O dir P d0 pr stop oot u0 y mu errz0 gV gQ gS e0).u) := by
  obtain ⟨⟨γ, u, g, hx⟩, _⟩ :=
    (ocp_exit_contract_fuelOK O dir P d0 pr stop oot u0 y mu errz0 gV gQ gS e0 nL nτ hp).1 hw
  refine ⟨γ, u, g, hx, fun hfar => ?_⟩
  rw [hx]
  have e1 : tile P.N P.Ulb = ((List.replicate P.N bs).flatten).map lbF := by
    unfold tile; rw [hlb]; exact tile_map P.N lbF bs
  have e2 : tile P.N P.Uub = ((List.replicate P.N bs).flatten).map ubF := by
    unfold tile; rw [hub]; exact tile_map P.N ubF bs
  show IsClampO γ _ u g (vadd u (projStepV γ u g (tile P.N P.Ulb) (tile P.N P.Uub)))
  rw [e1, e2]
  apply projStepV_clampO hnn γ _ u g _ hfar
  intro b hb
  rw [List.mem_flatten] at hb
  obtain ⟨l, hl, hbl⟩ := hb
  rw [List.mem_replicate] at hl
  rw [hl.2] at hbl
  exact hok b hbl

/-- `write_solution`, one stage, in mathematical notation. -/
def writeStageSpec : Vec α → Vec α → Vec α → Vec α → Vec α → Vec α × Vec α
  | c :: cs, y :: ys, m :: ms, l :: ls, h :: hs =>
    let e := c - min (max (c + y / m) l) h
    let r := writeStageSpec cs ys ms ls hs
    (e :: r.1, (y + m * e) :: r.2)
  | _, _, _, _, _ => ([], [])

/-- **Consistency**: with nonzero penalties, each stage of `write_solution` computes
    `e = c − Π_D(c + y/μ)` and `y_out = y + μ·e` from the stored constraint values `c`. -/
theorem writeStage_spec (c y m l h : Vec α) (hm : ∀ x ∈ m, x ≠ 0) :
    writeStage c y m l h = writeStageSpec c y m l h := by
  induction c generalizing y m l h with
  | nil => simp [writeStage, writeStageSpec]
  | cons c0 cs ih =>
    cases y with
    | nil => simp [writeStage, writeStageSpec]
    | cons y0 ys =>
      cases m with
      | nil => simp [writeStage, writeStageSpec]
      | cons m0 ms =>
        cases l with
        | nil => simp [writeStage, writeStageSpec]
        | cons l0 ls =>
          cases h with
          | nil => simp [writeStage, writeStageSpec]
          | cons h0 hs =>
            have hm0 : m0 ≠ 0 := hm m0 (by simp)
            have ih' := ih ys ms ls hs (fun x hx => hm x (by simp [hx]))
            simp only [writeStage, writeStageSpec, emax_eq_max, emin_eq_min, ih']
            have e1 : c0 + 1 / m0 * y0 = c0 + y0 / m0 := by field_simp
            rw [e1]
            have e2 : c0 + y0 / m0 - min (max (c0 + y0 / m0) l0) h0 - 1 / m0 * y0 =
                c0 - min (max (c0 + y0 / m0) l0) h0 := by field_simp; ring
            rw [e2]

/-- Complementarity of the returned multiplier: where the shifted constraint value `ζ = c + y/μ` lies
    inside `[l, h]` (constraint inactive), the updated multiplier `y + μ·e` is zero. -/
theorem writeStage_inactive (c y m l h : α) (hm : m ≠ 0) (h1 : l ≤ c + y / m) (h2 : c + y / m ≤ h) :
    y + m * (c - min (max (c + y / m) l) h) = 0 := by
  rw [max_eq_left h1, min_eq_left h2]
  field_simp
  ring

end field

/-! ### Non-vacuity -/
section examples
local instance ratRealLike : RealLike ℚ := ⟨id, fun _ => false, fun _ => true⟩

example : TauSentinelOK ℚ := by constructor <;> decide
example : BoxOK ([-1, 0] : Vec ℚ) [1, 0] := by simp [BoxOK]
/-- a gradient step leaving the box is projected back: `u = 1/2`, `γ g = -2` → `û = 1`. -/
example : (1/2 : ℚ) + projStep1 1 (-2) (1/2) (-1) 1 = 1 := by
  simp [projStep1, fminS, fmaxS, RealLike.isNaN]; norm_num
/-- one constrained stage, `c = 3`, `y = 1`, `μ = 2`, `D = [0, 2]`: `e = 3 − Π(3.5) = 1`, `y_out = 3`. -/
example : writeStage ([3] : Vec ℚ) [1] [2] [0] [2] = ([1], [3]) := by
  simp [writeStage, emax, emin]; norm_num

/-- a one-sided box `[0, +∞)` with stand-ins `(0, 10)`: the step from `x = 1` with `γ g = −3` lands at `4`,
    the stand-in `10` is far enough, the result is the extended projection and lies in the extended box -/
example : IsClampO (1 : ℚ) [(some 0, none, 0, 10)] [1] [-3]
    (vadd [1] (projStepV 1 [1] [-3] [0] [10])) :=
  projStepV_clampO (fun _ => rfl) 1 [(some 0, none, 0, 10)] [1] [-3]
    (by intro b hb; simp at hb; subst hb; intro l h hl hh; simp at hh)
    (by simp only [FarAt, C15.Far, C15.maxLbO]; norm_num)
end examples

/-! ### Non-vacuity on concrete runs of `Ocp.run` (`Proofs/OcpExample`) -/
section run_examples
open Alpaqa.Ocp.Example

theorem fuelOK_prB : FuelOK prB 23 9 :=
  ⟨by norm_num [prB, prA], by norm_num [prB, prA], by norm_num [prB, prA], fun _ => by norm_num [prB, prA],
    by norm_num [prB, prA], by norm_num [prB, prA]⟩
theorem fuelOK_prM : FuelOK prM 23 9 :=
  ⟨by norm_num [prM, prA], by norm_num [prM, prA], by norm_num [prM, prA], fun _ => by norm_num [prM, prA],
    by norm_num [prM, prA], by norm_num [prM, prA]⟩

/-- `FuelOK` holds for the library's DEFAULT `PANOCOCPParams` (panoc-ocp.hpp: `L_min = 1e-5`, `L_max = 1e20`,
    `min_linesearch_coefficient = 1/256`, estimated `L₀`) with the model's default fuel 4096:
    `nL = 84` (`2⁸⁴ ≥ 10²⁵`), `nτ = 9`, `(84+1)(9+3) + 1 = 1021 ≤ 4096` -/
def prDefault : Params ℚ := { prA with Lmin := 1/100000, Lmax := 100000000000000000000, L0 := 0, lsFuel := 4096 }
example : FuelOK prDefault 84 9 :=
  ⟨by norm_num [prDefault, prA], by norm_num [prDefault, prA], by norm_num [prDefault, prA],
    fun h => by norm_num [prDefault, prA] at h, by norm_num [prDefault, prA], by norm_num [prDefault, prA]⟩

/-- the run `rB` (one stage constraint `x_t ∈ [-½, ½]`, `y = (2, ½)`, `μ = (2, 2)`): `Converged` after one
    Gauss-Newton iteration, model fuel not exhausted, results written:
    `u = (0, 0)`, `e = c − Π_D(c + y/μ) = (−½, −¼)`, `y_out = y + μ·e = (1, 0)` -/
example : (rB none).stats.status = .Converged ∧ (rB none).stats.iterations = 1 ∧ (rB none).fuelOut = false ∧
    (rB none).wrote = true ∧ (rB none).u = [0, 0] ∧ (rB none).errz = [-1/2, -1/4] ∧ (rB none).y = [1, 0] ∧
    (rB none).exc = .none ∧ (rB none).callbacks.length = 2 := by
  decide +kernel

/-- all hypotheses of the exit-contract theorems instantiated on `rB` -/
example : ExitOK OB PB [1, 1/2] yB muB [0, 0] (rB none) :=
  ocp_exit_contract OB (dirOf 1 4) PB () prB (stopAt none) false [1, 1/2] yB muB [0, 0] [] [] 0 0
    (by constructor <;> decide) (by decide +kernel)
example : ExitOK OB PB [1, 1/2] yB muB [0, 0] (rB none) :=
  ocp_exit_contract_fuelOK OB (dirOf 1 4) PB () prB (stopAt none) false [1, 1/2] yB muB [0, 0] [] [] 0 0
    23 9 fuelOK_prB
example : InBoxV (tile PB.N PB.Ulb) (tile PB.N PB.Uub) (rB none).u :=
  ocp_u_out_in_U (fun _ => rfl) OB (dirOf 1 4) PB () prB (stopAt none) false [1, 1/2] yB muB [0, 0] [] [] 0 0
    (by simp [PB, BoxOK]) rfl 23 9 fuelOK_prB (by decide +kernel)
example : (rB none).wrote = ((rB none).stats.status == .Converged || (rB none).stats.status == .Interrupted ||
    prB.alwaysOverwrite) :=
  ocp_wrote_iff_fuelOK OB (dirOf 1 4) PB () prB (stopAt none) false [1, 1/2] yB muB [0, 0] [] [] 0 0
    23 9 fuelOK_prB (by decide +kernel) (by decide +kernel)

/-- `rM`: zero iteration budget, `always_overwrite_results = false` → `MaxIter`, `wrote = false`, the
    caller's `u`, `y`, `err_z` untouched (`ocp_untouched`) -/
example : rM.stats.status = .MaxIter ∧ rM.wrote = false ∧ rM.u = [1, 1/2] ∧ rM.y = [7] ∧ rM.errz = [9] := by
  decide +kernel
example : rM.u = [1, 1/2] ∧ rM.y = [7] ∧ rM.errz = [9] :=
  ocp_untouched OA (dirOf 1 3) PA () prM (stopAt none) false [1, 1/2] [7] [8] [9] [] [] 0 0
    (by constructor <;> decide) (by decide +kernel) (by decide +kernel)

end run_examples

end Alpaqa.Props.C03_Ocp
