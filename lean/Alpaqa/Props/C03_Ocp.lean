/-
  C03 for PANOC-OCP — written-back u, y and constraint error are feasible and mutually consistent.

  Theorems about the loop model `Alpaqa/Model/Ocp.lean` (tied to panoc-ocp.tpp by bit-exact trace replay).
  The structural ones hold for *every* evaluator oracle (forward / backward), every direction oracle
  (Gauss-Newton step always / periodically / never, any L-BFGS behaviour), every stop schedule, time-limit
  oracle, iteration budget (0 included), both values of `always_overwrite_results`, every exit status, over
  *any* carrier (IEEE doubles included).  The order-theoretic readings (`u ∈ U`, `e = c − Π_D(c + y/μ)`)
  are proved over every linearly ordered field.
-/
import Alpaqa.Proofs.OcpInv
import Alpaqa.Proofs.Basic

namespace Alpaqa.Props.C03_Ocp
open Alpaqa Alpaqa.Ocp Alpaqa.Gen
set_option linter.unusedSectionVars false
set_option linter.unusedVariables false

/-! ### Structural exit contract (any carrier) -/
section structural
variable {α D : Type} [Add α] [Sub α] [Mul α] [Div α] [Neg α] [LT α] [LE α] [DecidableLT α]
  [DecidableLE α] [BEq α] [RealLike α] [NatCast α] [OfScientific α]
  [OfNat α 0] [OfNat α 1] [OfNat α 2] [OfNat α 100]

/-- **Exit contract of `PANOCOCPSolver::operator()`.**  Whenever `write_solution` runs
    (`Converged`, `Interrupted`, or `always_overwrite_results`):
    * the returned `u` is the `û` of a projected-gradient step `Π_U(u − γ∇ψ)`;
    * the returned `y`, `err_z` are `write_solution`'s formulas applied to the constraint values stored
      by the forward oracle *at that very `u`* (`(O.fwd r.u).2`), i.e. multipliers and constraint error
      belong to the returned input sequence and to no other iterate.
    Otherwise `u`, `y`, `err_z` are the caller's values, untouched. -/
theorem ocp_exit_contract (O : Oracles α) (dir : Dir D α) (P : Prob α) (d0 : D) (pr : Params α)
    (stop : Nat → Bool) (oot : Bool) (u0 y mu errz0 gV gQ : Vec α) (gS e0 : α)
    (hτ : TauSentinelOK α)
    (hfuel : (run O dir P d0 pr stop oot u0 y mu errz0 gV gQ gS e0).fuelOut = false) :
    ExitOK O P u0 y mu errz0 (run O dir P d0 pr stop oot u0 y mu errz0 gV gQ gS e0) := by
  unfold run at hfuel ⊢
  cases hi : initState O P d0 pr stop u0 gV gQ gS e0 with
  | inl t =>
    simp only [hi] at hfuel ⊢
    exact ⟨fun h => absurd h (by simp), fun _ => ⟨rfl, rfl, rfl⟩⟩
  | inr s =>
    simp only [hi] at hfuel ⊢
    have hs := initState_good O P d0 pr stop u0 gV gQ gS e0 s hi
    refine mainLoop_ok O dir P pr stop oot u0 y mu errz0 _ s hs.1 hτ ?_ hfuel
    rcases Bool.eq_false_or_eq_true s.fuelOut with hc | hc
    · have := mainLoop_fuelOut_mono O dir P pr stop oot u0 y mu errz0 (pr.maxIter + 2) s hc
      rw [this] at hfuel; exact absurd hfuel (by decide)
    · exact hc

/-- With `always_overwrite_results` disabled and an exit that is neither Converged nor Interrupted
    (and on every exception / early return), `u`, `y`, `err_z` are left untouched. -/
theorem ocp_untouched (O : Oracles α) (dir : Dir D α) (P : Prob α) (d0 : D) (pr : Params α)
    (stop : Nat → Bool) (oot : Bool) (u0 y mu errz0 gV gQ : Vec α) (gS e0 : α)
    (hτ : TauSentinelOK α)
    (hfuel : (run O dir P d0 pr stop oot u0 y mu errz0 gV gQ gS e0).fuelOut = false)
    (hw : (run O dir P d0 pr stop oot u0 y mu errz0 gV gQ gS e0).wrote = false) :
    (run O dir P d0 pr stop oot u0 y mu errz0 gV gQ gS e0).u = u0 ∧
    (run O dir P d0 pr stop oot u0 y mu errz0 gV gQ gS e0).y = y ∧
    (run O dir P d0 pr stop oot u0 y mu errz0 gV gQ gS e0).errz = errz0 :=
  (ocp_exit_contract O dir P d0 pr stop oot u0 y mu errz0 gV gQ gS e0 hτ hfuel).2 hw

/-- The returned multipliers and constraint error are computed from the trajectory of the returned
    inputs: `(u, y, e)_out = write_solution(u_out, forward(u_out))`. -/
theorem ocp_y_errz_of_returned_u (O : Oracles α) (dir : Dir D α) (P : Prob α) (d0 : D) (pr : Params α)
    (stop : Nat → Bool) (oot : Bool) (u0 y mu errz0 gV gQ : Vec α) (gS e0 : α)
    (hτ : TauSentinelOK α)
    (hfuel : (run O dir P d0 pr stop oot u0 y mu errz0 gV gQ gS e0).fuelOut = false)
    (hw : (run O dir P d0 pr stop oot u0 y mu errz0 gV gQ gS e0).wrote = true) :
    ((run O dir P d0 pr stop oot u0 y mu errz0 gV gQ gS e0).u,
     (run O dir P d0 pr stop oot u0 y mu errz0 gV gQ gS e0).y,
     (run O dir P d0 pr stop oot u0 y mu errz0 gV gQ gS e0).errz) =
      writeSolution P (run O dir P d0 pr stop oot u0 y mu errz0 gV gQ gS e0).u
        (O.fwd (run O dir P d0 pr stop oot u0 y mu errz0 gV gQ gS e0).u).2 y mu errz0 :=
  ((ocp_exit_contract O dir P d0 pr stop oot u0 y mu errz0 gV gQ gS e0 hτ hfuel).1 hw).2

end structural

/-! ### Order-theoretic readings (every linearly ordered field) -/
section field
variable {α : Type} [Field α] [LinearOrder α] [IsStrictOrderedRing α] [RealLike α]

/-- pairwise `lb ≤ ub` -/
def BoxOK : Vec α → Vec α → Prop
  | l :: ls, h :: hs => l ≤ h ∧ BoxOK ls hs
  | _, _ => True

/-- every component of `v` lies between the corresponding bounds (and has bounds) -/
def InBoxV : Vec α → Vec α → Vec α → Prop
  | l :: ls, h :: hs, v :: vs => l ≤ v ∧ v ≤ h ∧ InBoxV ls hs vs
  | _, _, [] => True
  | _, _, _ :: _ => False

/-- One component of the projected-gradient step lands in `[lb, ub]`. -/
theorem projStep1_feasible (hnn : ∀ x : α, RealLike.isNaN x = false) (γ g x lb ub : α) (h : lb ≤ ub) :
    lb ≤ x + projStep1 γ g x lb ub ∧ x + projStep1 γ g x lb ub ≤ ub := by
  unfold projStep1 fminS fmaxS
  simp only [hnn, Bool.false_eq_true, if_false]
  split_ifs <;> constructor <;> linarith

/-- …and equals the Euclidean projection of the gradient step: `x + p = Π_[lb,ub](x − γ g)`. -/
theorem projStep1_eq_proj (hnn : ∀ x : α, RealLike.isNaN x = false) (γ g x lb ub : α) :
    x + projStep1 γ g x lb ub = min (max (x - γ * g) lb) ub := by
  unfold projStep1 fminS fmaxS
  simp only [hnn, Bool.false_eq_true, if_false, min_def, max_def]
  split_ifs <;> linarith

theorem projStepV_feasible (hnn : ∀ x : α, RealLike.isNaN x = false) (γ : α) (u g lb ub : Vec α)
    (h : BoxOK lb ub) : InBoxV lb ub (vadd u (projStepV γ u g lb ub)) := by
  induction u generalizing g lb ub with
  | nil => simp [vadd, vzip, InBoxV]
  | cons x xs ih =>
    cases g with
    | nil => simp [projStepV, vadd, vzip, InBoxV]
    | cons gi gs =>
      cases lb with
      | nil => simp [projStepV, vadd, vzip, InBoxV]
      | cons l ls =>
        cases ub with
        | nil => simp [projStepV, vadd, vzip, InBoxV]
        | cons hh hs =>
          have hf := projStep1_feasible hnn γ gi x l hh h.1
          simp only [projStepV, vadd, vzip, List.zipWith_cons_cons, InBoxV]
          exact ⟨hf.1, hf.2, ih gs ls hs h.2⟩

theorem boxOK_append (a b c d : Vec α) (hl : a.length = c.length) (h1 : BoxOK a c) (h2 : BoxOK b d) :
    BoxOK (a ++ b) (c ++ d) := by
  induction a generalizing c with
  | nil =>
    cases c with
    | nil => simpa using h2
    | cons _ _ => simp at hl
  | cons x xs ih =>
    cases c with
    | nil => simp at hl
    | cons z zs =>
      simp only [List.cons_append, BoxOK]
      exact ⟨h1.1, ih zs (by simpa using hl) h1.2⟩

/-- The per-stage input box repeated over the horizon is a box. -/
theorem boxOK_tile (N : Nat) (lb ub : Vec α) (hl : lb.length = ub.length) (h : BoxOK lb ub) :
    BoxOK (tile N lb) (tile N ub) := by
  induction N with
  | zero => simp [tile, BoxOK]
  | succ n ih =>
    simp only [tile, List.replicate_succ, List.flatten_cons] at ih ⊢
    exact boxOK_append _ _ _ _ hl h ih

/-- **Feasibility of the returned inputs**: every component of the returned `u` lies in the input box
    `U` (repeated over the stages), for every exit status at which results are written. -/
theorem ocp_u_out_in_U {D : Type} (hnn : ∀ x : α, RealLike.isNaN x = false)
    (O : Oracles α) (dir : Dir D α) (P : Prob α) (d0 : D) (pr : Params α)
    (stop : Nat → Bool) (oot : Bool) (u0 y mu errz0 gV gQ : Vec α) (gS e0 : α)
    (hU : BoxOK P.Ulb P.Uub) (hUl : P.Ulb.length = P.Uub.length)
    (hfuel : (run O dir P d0 pr stop oot u0 y mu errz0 gV gQ gS e0).fuelOut = false)
    (hw : (run O dir P d0 pr stop oot u0 y mu errz0 gV gQ gS e0).wrote = true) :
    InBoxV (tile P.N P.Ulb) (tile P.N P.Uub) (run O dir P d0 pr stop oot u0 y mu errz0 gV gQ gS e0).u := by
  have hτ : TauSentinelOK α := by
    constructor <;> simp [bne_iff_ne] <;> norm_num
  obtain ⟨⟨γ, u, g, hx⟩, _⟩ :=
    (ocp_exit_contract O dir P d0 pr stop oot u0 y mu errz0 gV gQ gS e0 hτ hfuel).1 hw
  rw [hx]
  exact projStepV_feasible hnn γ u g _ _ (boxOK_tile P.N _ _ hUl hU)

/-- `write_solution`, one stage, in mathematical notation. -/
def writeStageSpec : Vec α → Vec α → Vec α → Vec α → Vec α → Vec α × Vec α
  | c :: cs, y :: ys, m :: ms, l :: ls, h :: hs =>
    let e := c - min (max (c + y / m) l) h
    let r := writeStageSpec cs ys ms ls hs
    (e :: r.1, (y + m * e) :: r.2)
  | _, _, _, _, _ => ([], [])

/-- **Consistency**: with nonzero penalties, each stage of `write_solution` computes
    `e = c − Π_D(c + y/μ)` and `y_out = y + μ·e` from the stored constraint values `c`. -/
theorem writeStage_spec (c y m l h : Vec α) (hm : ∀ x ∈ m, x ≠ 0) :
    writeStage c y m l h = writeStageSpec c y m l h := by
  induction c generalizing y m l h with
  | nil => simp [writeStage, writeStageSpec]
  | cons c0 cs ih =>
    cases y with
    | nil => simp [writeStage, writeStageSpec]
    | cons y0 ys =>
      cases m with
      | nil => simp [writeStage, writeStageSpec]
      | cons m0 ms =>
        cases l with
        | nil => simp [writeStage, writeStageSpec]
        | cons l0 ls =>
          cases h with
          | nil => simp [writeStage, writeStageSpec]
          | cons h0 hs =>
            have hm0 : m0 ≠ 0 := hm m0 (by simp)
            have ih' := ih ys ms ls hs (fun x hx => hm x (by simp [hx]))
            simp only [writeStage, writeStageSpec, emax_eq_max, emin_eq_min, ih']
            have e1 : c0 + 1 / m0 * y0 = c0 + y0 / m0 := by field_simp
            rw [e1]
            have e2 : c0 + y0 / m0 - min (max (c0 + y0 / m0) l0) h0 - 1 / m0 * y0 =
                c0 - min (max (c0 + y0 / m0) l0) h0 := by field_simp; ring
            rw [e2]

/-- Complementarity of the returned multiplier: where the shifted constraint value `ζ = c + y/μ` lies
    inside `[l, h]` (constraint inactive), the updated multiplier `y + μ·e` is zero. -/
theorem writeStage_inactive (c y m l h : α) (hm : m ≠ 0) (h1 : l ≤ c + y / m) (h2 : c + y / m ≤ h) :
    y + m * (c - min (max (c + y / m) l) h) = 0 := by
  rw [max_eq_left h1, min_eq_left h2]
  field_simp
  ring

end field

/-! ### Non-vacuity -/
section examples
local instance ratRealLike : RealLike ℚ := ⟨id, fun _ => false, fun _ => true⟩

example : TauSentinelOK ℚ := by constructor <;> decide
example : BoxOK ([-1, 0] : Vec ℚ) [1, 0] := by simp [BoxOK]
/-- a gradient step leaving the box is projected back: `u = 1/2`, `γ g = -2` → `û = 1`. -/
example : (1/2 : ℚ) + projStep1 1 (-2) (1/2) (-1) 1 = 1 := by
  simp [projStep1, fminS, fmaxS, RealLike.isNaN]; norm_num
/-- one constrained stage, `c = 3`, `y = 1`, `μ = 2`, `D = [0, 2]`: `e = 3 − Π(3.5) = 1`, `y_out = 3`. -/
example : writeStage ([3] : Vec ℚ) [1] [2] [0] [2] = ([1], [3]) := by
  simp [writeStage, emax, emin]; norm_num
end examples

end Alpaqa.Props.C03_Ocp
