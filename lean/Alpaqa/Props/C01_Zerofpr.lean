/-
  C01 for the ZeroFPR inner solver: the ZeroFPR loop model `Alpaqa.Zerofpr.run` (`Model/Zerofpr.lean`),
  wrapped as an inner-solver function of the ALM model, satisfies `Props/C01_Alm.InnerContract`
  (ApproxKKT criterion), hence `ALM over ZeroFPR returns Converged ⇒ (x, y) carries the KKT
  certificate` (`alm_zerofpr_certifies_kkt`, `alm_zerofpr_m0_certifies_kkt`).

  * `ZfOracleContract`: the problem oracles ZeroFPR is handed equal the user's closed forms on
    well-sized arguments (`ŷ`, `∇L`, prox step = box projection step) and return vectors of the right
    size (`Proofs/ZerofprSized.ProblemSized`).  **No consistency law between `eval_ψ_grad_ψ` and
    `eval_ψ` / `eval_grad_L` is needed** (PANOC's `OracleContract.law`): the ZeroFPR loop head evaluates
    `eval_grad_L(x̂ₖ, ŷₖ)` into `prox->grad_ψ` in every iteration and hands exactly that vector to
    `calc_error_stop_crit` (`Proofs/ZerofprInv.headStep_spec`).
  * `zerofpr_satisfies_inner_contract`: for every direction provider meeting its size contract on the
    states the loop reaches (`Proofs/ZerofprSized.DirSized n dir R`, `R d₀`), parameters with
    `0 < Lγ_factor` and `FuelOK pr N M` (`Proofs/ZerofprFuel`: contains `0 < L_min`, `0 < L_max`; the
    model's loops provably terminate within their fuel), every monotone stop schedule, clock, ALM stop
    oracle.  Nothing is assumed about the run: which iterate is written back (`Props/C03_Zerofpr`),
    `y = ŷ(x̂)`, `err_z = (ŷ − y)/Σ`, `γ > 0` (`Props/C05_Zerofpr` / `Proofs/ZerofprStep`), that `ε` is
    the ApproxKKT criterion of exactly that iterate and `Converged ⇒ ε ≤ tolerance`
    (`Props/C06_Zerofpr`), the sizes of `x`, `y`, `err_z` (`Proofs/ZerofprSized`) are proved from the
    loop model — bundled in `Proofs/C01Zerofpr.run_converged_data`.
  * `zfCfProblem_contract`: the oracles built from the closed forms meet `ZfOracleContract`.
  * closed examples over `ℚ` on `Props/C01_Alm.pbEx` (`n = 1`, `m = 1`): the contract with every
    hypothesis discharged, a `Converged` ZeroFPR run (at the solution, and from `x = 1/2` through the
    step-size backtracking and accelerated steps), and ALM over ZeroFPR returning `Converged` with
    `alm_zerofpr_certifies_kkt` certifying its result.
  Real-number semantics (ordered field, no NaN); IEEE rounding is not modelled.
-/
import Alpaqa.Props.C01_Alm
import Alpaqa.Proofs.C01Zerofpr
import Alpaqa.Proofs.ZerofprExample

namespace Alpaqa.Props.C01Zerofpr
open Alpaqa Alpaqa.Gen Alpaqa.C07 Alpaqa.C04 Alpaqa.Props.C01 Alpaqa.Props.C07 Alpaqa.Props.C01Alm
set_option linter.unusedSectionVars false

variable {α A Dd : Type} [Field α] [LinearOrder α] [IsStrictOrderedRing α] [RealLike α]
  [Alpaqa.Proofs.C07.NoNaN α]

/-- The problem oracles ZeroFPR is handed (for multipliers `y` and penalties `Σ` of size `m`) equal the
    closed forms on well-sized arguments: `eval_ψ`'s `ŷ` (`Props/C04.yhat_closed_kernel`),
    `eval_grad_L` (`grad_L_closed`), the prox step is the box projection step (`Props/C15`,
    `Props/C01.projStepO_some`); and they return vectors of the right size (`ProblemSized`).
    The analogue of `Props/C01_Alm.OracleContract` for ZeroFPR's problem record, without its `law`
    clause (not needed: see the file header). -/
structure ZfOracleContract (pb : ProblemCF α) (n m : Nat) (Pf : Vec α → Vec α → Zerofpr.Problem α) :
    Prop where
  yhat : ∀ y Sig x, y.length = m → Sig.length = m → x.length = n →
    ((Pf y Sig).psi x).2 = yhatCF pb x y Sig
  gradL : ∀ y Sig x yh, y.length = m → Sig.length = m → x.length = n → yh.length = m →
    (Pf y Sig).gradL x yh = pb.gradL x yh
  prox : ∀ y Sig γ x g, y.length = m → Sig.length = m → x.length = n → g.length = n →
    ((Pf y Sig).prox γ x g).2.1 = vadd x (projStepVO γ x g pb.C) ∧
    ((Pf y Sig).prox γ x g).2.2 = projStepVO γ x g pb.C
  sized : ∀ y Sig, y.length = m → Sig.length = m → Zerofpr.ProblemSized n m (Pf y Sig)

/-- ZeroFPR's parameters for an inner call: tolerance and `always_overwrite_results` from the options -/
def zerofprParams (pr : Zerofpr.Params α) (c : InnerCall α) : Zerofpr.Params α :=
  { pr with tolerance := c.opts.tolerance, alwaysOverwrite := c.opts.always_overwrite_results }

/-- the ZeroFPR run an inner call triggers: tolerance and `always_overwrite_results` from the options,
    `y`, `Σ`, `x`, the `err_z` buffer from the call; stop schedule and clock are arbitrary oracles -/
def zerofprRun (Pf : Vec α → Vec α → Zerofpr.Problem α) (dir : Zerofpr.Direction Dd α) (d0 : Dd)
    (pr : Zerofpr.Params α) (stop : InnerCall α → Nat → Bool) (oot : InnerCall α → Bool)
    (gV : Vec α) (gS iS : α) (c : InnerCall α) : Zerofpr.Result α Dd :=
  Zerofpr.run (Pf c.y c.sigma) dir d0 (zerofprParams pr c)
    (stop c) (oot c) c.x c.y c.sigma c.errBuf gV gS iS

/-- `ZeroFPRSolver::operator()` as an inner-solver function of the ALM model.  `stop` is ZeroFPR's own
    flag as a function of the tick, `clock` / `almStop` the two oracle bits ALM reads after the inner
    solve (`time_elapsed > max_time`; ALM's own `stop_signal.stop_requested()`) — arbitrary, and not
    related to `stop`. -/
def zerofprInner (Pf : Vec α → Vec α → Zerofpr.Problem α) (dir : Zerofpr.Direction Dd α) (d0 : Dd)
    (pr : Zerofpr.Params α) (stop : InnerCall α → Nat → Bool) (oot clock almStop : InnerCall α → Bool)
    (gV : Vec α) (gS iS : α) (c : InnerCall α) : InnerResult α (Zerofpr.Stats α) :=
  let r := zerofprRun Pf dir d0 pr stop oot gV gS iS c
  ⟨r.stats.status, r.stats.eps, r.x, r.y, r.errz, r.stats, clock c, almStop c⟩

theorem fuelOK_zerofprParams {pr : Zerofpr.Params α} {N M : Nat} (h : Zerofpr.FuelOK pr N M)
    (c : InnerCall α) : Zerofpr.FuelOK (zerofprParams pr c) N M :=
  ⟨h.lmin, h.lmax, h.l0, h.minls, h.mpos, h.fuel⟩

/-- **ZeroFPR satisfies `InnerContract`** for the ApproxKKT criterion (the default; part of the
    property statement), for every direction provider meeting its size contract on the states ZeroFPR
    reaches (`DirSized n dir R` with `R d₀`), every monotone stop schedule, clock, ALM stop oracle,
    every `L0`, every setting of the ZeroFPR-specific switches, and parameters with `0 < Lγ_factor` and
    `FuelOK pr N M` (`Proofs/ZerofprFuel`: `0 < L_min`, `0 < L_max` — needed for `γ > 0` —, and the
    bounds under which the model's loops provably terminate within their fuel).
    Nothing is assumed about the run itself: which iterate is written back, that `ε` is the ApproxKKT
    criterion of exactly that iterate with `∇ψ(x̂) = ∇L(x̂, ŷ)`, `γ > 0`, `y = ŷ(x̂)`,
    `err_z = (ŷ − y)/Σ`, `Converged ⇒ ε ≤ tolerance`, the sizes of `x`, `y`, `err_z`, and that the
    model's fuel does not run out are all proved from the loop model
    (`Proofs/C01Zerofpr.run_converged_data`, `Proofs/ZerofprSized.run_sized`,
    `Proofs/ZerofprFuel.run_fuel`). -/
theorem zerofpr_satisfies_inner_contract (pb : ProblemCF α) (n m : Nat)
    (Pf : Vec α → Vec α → Zerofpr.Problem α) (hO : ZfOracleContract pb n m Pf)
    (dir : Zerofpr.Direction Dd α) (R : Dd → Prop) (hD : Zerofpr.DirSized n dir R)
    (d0 : Dd) (hd0 : R d0) (pr : Zerofpr.Params α) (hfac : 0 < pr.LgammaFactor)
    (N M : Nat) (hF : Zerofpr.FuelOK pr N M)
    (hcrit : pr.stopCrit = .ApproxKKT)
    (stop : InnerCall α → Nat → Bool) (hmono : ∀ c, Zerofpr.StopMono (stop c))
    (oot clock almStop : InnerCall α → Bool) (gV : Vec α) (gS iS : α) :
    InnerContract pb n m (zerofprInner Pf dir d0 pr stop oot clock almStop gV gS iS) := by
  have hfuel : ∀ c, (zerofprRun Pf dir d0 pr stop oot gV gS iS c).fuelOut = false := fun c =>
    Zerofpr.run_fuel (Pf c.y c.sigma) dir d0 (zerofprParams pr c) (stop c) (hmono c) N M
      (fuelOK_zerofprParams hF c) (oot c) c.x c.y c.sigma c.errBuf gV gS iS
  have hsize : ∀ c, WFCall n m c →
      Zerofpr.OutSized n m (zerofprRun Pf dir d0 pr stop oot gV gS iS c) := fun c hwf =>
    (Zerofpr.run_sized (hO.sized c.y c.sigma hwf.y hwf.sigma) dir R hD d0 hd0 (zerofprParams pr c)
      (stop c) (hmono c) N M (fuelOK_zerofprParams hF c) (oot c) c.x c.y c.sigma c.errBuf gV gS iS
      hwf.x hwf.y hwf.sigma hwf.errBuf).2
  -- what a converged run looks like
  have key : ∀ c, WFCall n m c →
      (zerofprInner Pf dir d0 pr stop oot clock almStop gV gS iS c).status = .Converged →
      ∃ it : Zerofpr.Iterate α, 0 < it.gamma ∧
        it.xhat = vadd it.x (projStepVO it.gamma it.x it.gradPsi pb.C) ∧
        it.p = projStepVO it.gamma it.x it.gradPsi pb.C ∧
        it.yhat = yhatCF pb it.xhat c.y c.sigma ∧
        (zerofprInner Pf dir d0 pr stop oot clock almStop gV gS iS c).x = it.xhat ∧
        (zerofprInner Pf dir d0 pr stop oot clock almStop gV gS iS c).y = it.yhat ∧
        (zerofprInner Pf dir d0 pr stop oot clock almStop gV gS iS c).eps =
          stopCrit_ApproxKKT (fun _ v _ => (v, v)) it.p it.gamma it.x it.xhat it.yhat it.gradPsi
            (pb.gradL it.xhat it.yhat) ∧
        (0 < c.errBuf.length →
          (zerofprInner Pf dir d0 pr stop oot clock almStop gV gS iS c).errz =
            vdiv (vsub it.yhat c.y) c.sigma) ∧
        (0 < c.opts.tolerance →
          (zerofprInner Pf dir d0 pr stop oot clock almStop gV gS iS c).eps ≤ c.opts.tolerance) := by
    intro c hwf hc
    have hPs := hO.sized c.y c.sigma hwf.y hwf.sigma
    obtain ⟨it, hg, hγ, hsz, hx, hy, he, heps, htol⟩ :=
      Zerofpr.run_converged_data hPs dir R hD d0 hd0 (zerofprParams pr c) hF.lmin hF.lmax hfac
        (stop c) (oot c) c.x c.y c.sigma c.errBuf gV gS iS hwf.x (hfuel c) hc
    have hprox := hO.prox c.y c.sigma it.gamma it.x it.gradPsi hwf.y hwf.sigma hsz.x hsz.g
    have hgL : (Pf c.y c.sigma).gradL it.xhat it.yhat = pb.gradL it.xhat it.yhat :=
      hO.gradL c.y c.sigma _ _ hwf.y hwf.sigma hsz.xhat hsz.yhat
    refine ⟨it, hγ, ?_, ?_, ?_, hx, hy, ?_, ?_, ?_⟩
    · rw [hg.1.2.1]; exact hprox.1
    · rw [hg.1.2.2]; exact hprox.2
    · rw [hg.2]; exact hO.yhat c.y c.sigma _ hwf.y hwf.sigma hsz.xhat
    · refine Eq.trans heps ?_
      unfold Zerofpr.epsOf
      rw [hgL]
      have hcr : (zerofprParams pr c).stopCrit = .ApproxKKT := hcrit
      rw [hcr]
      rfl
    · intro hl
      refine Eq.trans he ?_
      rw [if_pos hl]
    · intro ht
      have h2 : (zerofprInner Pf dir d0 pr stop oot clock almStop gV gS iS c).eps ≤
          Alpaqa.Props.C06.effTol c.opts.tolerance := htol
      unfold Alpaqa.Props.C06.effTol at h2
      rw [if_pos ht] at h2
      exact h2
  refine ⟨?_, ?_, fun c hwf => (hsize c hwf).x, fun c hwf => (hsize c hwf).y,
    fun c hwf => (hsize c hwf).errz⟩
  · intro c hwf hc
    obtain ⟨it, hγ, hxh, hpp, hyh, hx, hy, heps, herr, _⟩ := key c hwf hc
    refine ⟨it.gamma, it.x, it.gradPsi, hγ, ?_, ?_, ?_, ?_⟩
    · rw [hx]; exact hxh
    · rw [heps, hx, hy, ← hpp]
    · rw [hy, hx]; exact hyh
    · intro hl
      rw [herr hl, hy]
  · intro c hwf ht hc
    obtain ⟨_, _, _, _, _, _, _, _, _, htol⟩ := key c hwf hc
    exact htol ht

/-! ### The oracles built from the closed forms meet `ZfOracleContract` -/

/-- The problem oracles ZeroFPR is handed, built from the user's closed forms (`ψ` arbitrary: it only
    enters the acceptance tests).  The analogue of `Props/C01_Alm.cfProblem`. -/
def zfCfProblem (pb : ProblemCF α) (ψ : Vec α → Vec α → Vec α → α) (y Sig : Vec α) :
    Zerofpr.Problem α where
  psiGradPsi x := (ψ y Sig x, pb.gradL x (yhatCF pb x y Sig), yhatCF pb x y Sig)
  psi x := (ψ y Sig x, yhatCF pb x y Sig)
  gradPsi x := pb.gradL x (yhatCF pb x y Sig)
  gradL x yh := pb.gradL x yh
  prox γ x g := (0, vadd x (projStepVO γ x g pb.C), projStepVO γ x g pb.C)

/-- **`ZfOracleContract` holds for the closed-form oracles** of every problem with `|C| = n` whose
    `∇L` returns vectors of size `n`. -/
theorem zfCfProblem_contract (pb : ProblemCF α) (ψ : Vec α → Vec α → Vec α → α) (n m : Nat)
    (hC : pb.C.length = n)
    (hgL : ∀ x y, x.length = n → y.length = m → (pb.gradL x y).length = n) :
    ZfOracleContract pb n m (zfCfProblem pb ψ) := by
  refine ⟨fun _ _ _ _ _ _ => rfl, fun _ _ _ _ _ _ _ _ => rfl, fun _ _ _ _ _ _ _ _ _ => ⟨rfl, rfl⟩, ?_⟩
  intro y Sig hy _
  have hyl : ∀ x, (yhatCF pb x y Sig).length = m := fun x => by rw [yhatCF_length, hy]
  refine ⟨fun x hx => hgL _ _ hx (hyl x), fun x _ => hyl x, fun x hx => hgL _ _ hx (hyl x),
    fun x yh hx hyh => hgL _ _ hx hyh, ?_, ?_⟩
  · intro γ x g hx hg
    show (vadd x (projStepVO γ x g pb.C)).length = n
    rw [Zerofpr.vadd_length, projStepVO_length, hx, hg, hC]; simp
  · intro γ x g hx hg
    show (projStepVO γ x g pb.C).length = n
    rw [projStepVO_length, hx, hg, hC]; simp

/-! ### Composition with the ALM outer loop -/

/-- **C01 for ALM over ZeroFPR** (`m ≠ 0`): `alm_converged_certifies_kkt` instantiated with
    `zerofpr_satisfies_inner_contract`.  Whenever the ALM model (`Props/C07`; any ALM parameters with
    `0 < min_penalty ≤ max_penalty`, any initial penalties of the right size, any clocks / stop oracles)
    run over the ZeroFPR loop model returns `Converged`, the returned `(x, y)` carries the KKT
    certificate with `tolerance` and `dual_tolerance`. -/
theorem alm_zerofpr_certifies_kkt (nan inf : α) (acc0 : A) (accAdd : A → Zerofpr.Stats α → A)
    (P : ALMParams α) (prob : Alpaqa.C07.Problem α) (x y : Vec α) (Sig0 : Option (Vec α))
    (pb : ProblemCF α) (n : Nat)
    (Pf : Vec α → Vec α → Zerofpr.Problem α) (hO : ZfOracleContract pb n prob.m Pf)
    (dir : Zerofpr.Direction Dd α) (R : Dd → Prop) (hDs : Zerofpr.DirSized n dir R)
    (d0 : Dd) (hd0 : R d0) (pr : Zerofpr.Params α) (hfac : 0 < pr.LgammaFactor)
    (N M : Nat) (hF : Zerofpr.FuelOK pr N M) (hcrit : pr.stopCrit = .ApproxKKT)
    (stop : InnerCall α → Nat → Bool) (hmono : ∀ c, Zerofpr.StopMono (stop c))
    (oot clock almStop : InnerCall α → Bool) (gV : Vec α) (gS iS : α)
    (hm : prob.m ≠ 0)
    (hC : ∀ b ∈ pb.C, ∀ l u, b.1 = some l → b.2 = some u → l ≤ u)
    (hD : ∀ i, i < prob.m → BndOK (lbAt pb.D i) (ubAt pb.D i))
    (hmin : 0 < P.min_penalty) (hmm : P.min_penalty ≤ P.max_penalty)
    (hlen : SigmaLen prob.m Sig0) (hx : x.length = n) (hy : y.length = prob.m)
    (hconv : (Alpaqa.C07.run nan inf acc0 accAdd P prob x y Sig0
      (zerofprInner Pf dir d0 pr stop oot clock almStop gV gS iS)).stats.status = .Converged) :
    KKTCert pb prob.m P.tolerance P.dual_tolerance
      (Alpaqa.C07.run nan inf acc0 accAdd P prob x y Sig0
        (zerofprInner Pf dir d0 pr stop oot clock almStop gV gS iS)).x
      (Alpaqa.C07.run nan inf acc0 accAdd P prob x y Sig0
        (zerofprInner Pf dir d0 pr stop oot clock almStop gV gS iS)).y :=
  alm_converged_certifies_kkt nan inf acc0 accAdd P prob x y Sig0 _ pb n
    (zerofpr_satisfies_inner_contract pb n prob.m Pf hO dir R hDs d0 hd0 pr hfac N M hF hcrit stop hmono
      oot clock almStop gV gS iS)
    hm hC hD hmin hmm hlen hx hy hconv

/-- **C01 for ALM over ZeroFPR, `m = 0`**: `alm_m0_converged_certifies_kkt` instantiated with
    `zerofpr_satisfies_inner_contract` (stationarity and `x ∈ C`; the clauses about `g`, `D`, `y` are
    void). -/
theorem alm_zerofpr_m0_certifies_kkt (nan inf : α) (acc0 : A) (accAdd : A → Zerofpr.Stats α → A)
    (P : ALMParams α) (prob : Alpaqa.C07.Problem α) (x y : Vec α) (Sig0 : Option (Vec α))
    (pb : ProblemCF α) (n : Nat)
    (Pf : Vec α → Vec α → Zerofpr.Problem α) (hO : ZfOracleContract pb n 0 Pf)
    (dir : Zerofpr.Direction Dd α) (R : Dd → Prop) (hDs : Zerofpr.DirSized n dir R)
    (d0 : Dd) (hd0 : R d0) (pr : Zerofpr.Params α) (hfac : 0 < pr.LgammaFactor)
    (N M : Nat) (hF : Zerofpr.FuelOK pr N M) (hcrit : pr.stopCrit = .ApproxKKT)
    (stop : InnerCall α → Nat → Bool) (hmono : ∀ c, Zerofpr.StopMono (stop c))
    (oot clock almStop : InnerCall α → Bool) (gV : Vec α) (gS iS : α)
    (hm : prob.m = 0) (h0 : P.max_iter ≠ 0)
    (hC : ∀ b ∈ pb.C, ∀ l u, b.1 = some l → b.2 = some u → l ≤ u)
    (htol : 0 < P.tolerance) (hδ : 0 ≤ P.dual_tolerance) (hx : x.length = n) (hy : y.length = prob.m)
    (hconv : (Alpaqa.C07.run nan inf acc0 accAdd P prob x y Sig0
      (zerofprInner Pf dir d0 pr stop oot clock almStop gV gS iS)).stats.status = .Converged) :
    KKTCert pb 0 P.tolerance P.dual_tolerance
      (Alpaqa.C07.run nan inf acc0 accAdd P prob x y Sig0
        (zerofprInner Pf dir d0 pr stop oot clock almStop gV gS iS)).x
      (Alpaqa.C07.run nan inf acc0 accAdd P prob x y Sig0
        (zerofprInner Pf dir d0 pr stop oot clock almStop gV gS iS)).y :=
  alm_m0_converged_certifies_kkt nan inf acc0 accAdd P prob x y Sig0 _ pb n
    (zerofpr_satisfies_inner_contract pb n 0 Pf hO dir R hDs d0 hd0 pr hfac N M hF hcrit stop hmono
      oot clock almStop gV gS iS)
    hm h0 hC htol hδ hx hy hconv

/-! ### Non-vacuity: `pbEx` of `Props/C01_Alm` (`n = 1`, `m = 1`, ℚ) -/
section examples

local instance : RealLike ℚ := Alpaqa.Props.C01Alm.instRealLikeRat
local instance : Alpaqa.Proofs.C07.NoNaN ℚ := ⟨fun _ => rfl⟩

/-- ZeroFPR parameters: `L_0 = 1`, `Lγ_factor = 1/2`, `L_min = 1/10`, `L_max = 100 ≤ 2⁷`,
    `min_linesearch_coefficient = 1/256 > 2⁻⁹`, ApproxKKT criterion, 20 iterations, model fuel 4096
    (tolerance / `always_overwrite_results` are overwritten by the call's options) -/
def zfPrEx : Zerofpr.Params ℚ :=
  { L0 := 1, lipEps := 0, lipDelta := 0, LgammaFactor := 1/2, maxIter := 20, minLsCoef := 1/256,
    forceLinesearch := false, lsStrictness := 1/2, Lmin := 1/10, Lmax := 100, stopCrit := .ApproxKKT,
    maxNoProgress := 10, qubTol := 0, lsTol := 0, updateDirInCandidate := false,
    recomputeLastProx := false, updateDirFromProxStep := false, alwaysOverwrite := false,
    tolerance := 0, lsFuel := 4096 }

theorem zfPrEx_fuelOK : Zerofpr.FuelOK zfPrEx 7 9 :=
  ⟨by norm_num [zfPrEx], by norm_num [zfPrEx], by norm_num [zfPrEx], by norm_num [zfPrEx], by norm_num,
   by decide⟩

/-- the provider of `Proofs/ZerofprExample` (`q = p`, every update accepted) keeps sizes; its state is
    `Unit`, the invariant `R` is trivial -/
theorem exDir_sized (n : Nat) : Zerofpr.DirSized n Zerofpr.Example.exDir (fun _ => True) :=
  ⟨fun _ _ _ _ _ _ _ _ _ _ _ => trivial, fun _ _ _ _ _ _ _ _ _ _ _ _ => trivial,
   fun _ _ _ _ _ _ _ _ _ _ hp _ _ => hp, fun _ _ _ _ _ _ _ _ _ _ _ _ _ _ _ _ => trivial,
   fun _ _ _ _ => trivial, fun _ _ => trivial⟩

theorem pbEx_zfContract : ZfOracleContract pbEx 1 1 (zfCfProblem pbEx psiEx) :=
  zfCfProblem_contract pbEx psiEx 1 1 rfl (fun _ _ _ _ => rfl)

/-- **the ZeroFPR loop model over the closed-form oracles of `pbEx` satisfies the inner contract** —
    no hypothesis left: oracle contract, size contracts, parameter and fuel conditions, monotone flag
    are all proved for this instance -/
theorem zerofprEx_contract :
    InnerContract pbEx 1 1
      (zerofprInner (zfCfProblem pbEx psiEx) Zerofpr.Example.exDir () zfPrEx (fun _ _ => false)
        (fun _ => false) (fun _ => false) (fun _ => false) [] 0 0) :=
  zerofpr_satisfies_inner_contract pbEx 1 1 (zfCfProblem pbEx psiEx) pbEx_zfContract
    Zerofpr.Example.exDir (fun _ => True) (exDir_sized 1) () trivial zfPrEx (by norm_num [zfPrEx]) 7 9
    zfPrEx_fuelOK rfl (fun _ _ => false) (fun _ _ _ _ h => h) (fun _ => false) (fun _ => false)
    (fun _ => false) [] 0 0

/-- the contract is not vacuous there: on the well-formed call at the solution the ZeroFPR model
    reports `Converged` with `x = [1]`, `y = [2]`, `err_z = [0]` -/
example : (zerofprInner (zfCfProblem pbEx psiEx) Zerofpr.Example.exDir () zfPrEx (fun _ _ => false)
      (fun _ => false) (fun _ => false) (fun _ => false) [] 0 0
      ⟨[1], [2], [1], [7], ⟨true, 1/10, 0, false⟩⟩).status = .Converged ∧
    (zerofprInner (zfCfProblem pbEx psiEx) Zerofpr.Example.exDir () zfPrEx (fun _ _ => false)
      (fun _ => false) (fun _ => false) (fun _ => false) [] 0 0
      ⟨[1], [2], [1], [7], ⟨true, 1/10, 0, false⟩⟩).x = [1] ∧
    (zerofprInner (zfCfProblem pbEx psiEx) Zerofpr.Example.exDir () zfPrEx (fun _ _ => false)
      (fun _ => false) (fun _ => false) (fun _ => false) [] 0 0
      ⟨[1], [2], [1], [7], ⟨true, 1/10, 0, false⟩⟩).y = [2] ∧
    (zerofprInner (zfCfProblem pbEx psiEx) Zerofpr.Example.exDir () zfPrEx (fun _ _ => false)
      (fun _ => false) (fun _ => false) (fun _ => false) [] 0 0
      ⟨[1], [2], [1], [7], ⟨true, 1/10, 0, false⟩⟩).errz = [0] := by
  decide +kernel

/-- a run that is not trivial: from `x = 1/2` the model backtracks the step size twice (`L_0 = 1` is
    below the Lipschitz constant 3 of `∇ψ`), accepts two accelerated steps with `τ = 1`, and reports
    `Converged` after three iterations with `ε = 46875/524288 ≤ 1/10` -/
example : (zerofprInner (zfCfProblem pbEx psiEx) Zerofpr.Example.exDir () zfPrEx (fun _ _ => false)
      (fun _ => false) (fun _ => false) (fun _ => false) [] 0 0
      ⟨[1/2], [2], [1], [7], ⟨true, 1/10, 0, false⟩⟩).status = .Converged ∧
    (zerofprInner (zfCfProblem pbEx psiEx) Zerofpr.Example.exDir () zfPrEx (fun _ _ => false)
      (fun _ => false) (fun _ => false) (fun _ => false) [] 0 0
      ⟨[1/2], [2], [1], [7], ⟨true, 1/10, 0, false⟩⟩).eps = 46875/524288 ∧
    (zerofprInner (zfCfProblem pbEx psiEx) Zerofpr.Example.exDir () zfPrEx (fun _ _ => false)
      (fun _ => false) (fun _ => false) (fun _ => false) [] 0 0
      ⟨[1/2], [2], [1], [7], ⟨true, 1/10, 0, false⟩⟩).stats.iterations = 3 ∧
    (zerofprInner (zfCfProblem pbEx psiEx) Zerofpr.Example.exDir () zfPrEx (fun _ _ => false)
      (fun _ => false) (fun _ => false) (fun _ => false) [] 0 0
      ⟨[1/2], [2], [1], [7], ⟨true, 1/10, 0, false⟩⟩).stats.stepsizeBacktracks = 2 ∧
    (zerofprInner (zfCfProblem pbEx psiEx) Zerofpr.Example.exDir () zfPrEx (fun _ _ => false)
      (fun _ => false) (fun _ => false) (fun _ => false) [] 0 0
      ⟨[1/2], [2], [1], [7], ⟨true, 1/10, 0, false⟩⟩).stats.tau1Accepted = 2 := by
  decide +kernel

/-- … and **the whole stack, closed**: ALM (`Props/C07` model) over the ZeroFPR loop model on `pbEx`
    returns `Converged`, and `alm_zerofpr_certifies_kkt`, every hypothesis discharged, certifies it -/
example : KKTCert pbEx 1 (1/10) (1/100)
    (Alpaqa.C07.run (0 : ℚ) 0 (Zerofpr.stats0 (0:ℚ)) (fun _ s => s) almEx probEx [1] [2] none
      (zerofprInner (zfCfProblem pbEx psiEx) Zerofpr.Example.exDir () zfPrEx (fun _ _ => false)
        (fun _ => false) (fun _ => false) (fun _ => false) [] 0 0)).x
    (Alpaqa.C07.run (0 : ℚ) 0 (Zerofpr.stats0 (0:ℚ)) (fun _ s => s) almEx probEx [1] [2] none
      (zerofprInner (zfCfProblem pbEx psiEx) Zerofpr.Example.exDir () zfPrEx (fun _ _ => false)
        (fun _ => false) (fun _ => false) (fun _ => false) [] 0 0)).y :=
  alm_zerofpr_certifies_kkt (0 : ℚ) 0 (Zerofpr.stats0 (0:ℚ)) (fun _ s => s) almEx probEx [1] [2] none
    pbEx 1 (zfCfProblem pbEx psiEx) pbEx_zfContract Zerofpr.Example.exDir (fun _ => True) (exDir_sized 1)
    () trivial zfPrEx (by norm_num [zfPrEx]) 7 9 zfPrEx_fuelOK rfl (fun _ _ => false)
    (fun _ _ _ _ h => h) (fun _ => false) (fun _ => false) (fun _ => false) [] 0 0
    (by decide) pbEx_C pbEx_D (by norm_num [almEx]) (by norm_num [almEx]) trivial rfl rfl
    (by decide +kernel)

/-- the same from `x = 1/2` (not the solution): ALM over ZeroFPR needs both outer iterations, returns
    `Converged` with `x = 66530739/67108864 ≈ 0.991`, `y = 32476307/16777216 ≈ 1.936`, certified -/
example : (Alpaqa.C07.run (0 : ℚ) 0 (Zerofpr.stats0 (0:ℚ)) (fun _ s => s) almEx probEx [1/2] [2] none
      (zerofprInner (zfCfProblem pbEx psiEx) Zerofpr.Example.exDir () zfPrEx (fun _ _ => false)
        (fun _ => false) (fun _ => false) (fun _ => false) [] 0 0)).x = [66530739/67108864] ∧
    (Alpaqa.C07.run (0 : ℚ) 0 (Zerofpr.stats0 (0:ℚ)) (fun _ s => s) almEx probEx [1/2] [2] none
      (zerofprInner (zfCfProblem pbEx psiEx) Zerofpr.Example.exDir () zfPrEx (fun _ _ => false)
        (fun _ => false) (fun _ => false) (fun _ => false) [] 0 0)).y = [32476307/16777216] ∧
    KKTCert pbEx 1 (1/10) (1/100)
      (Alpaqa.C07.run (0 : ℚ) 0 (Zerofpr.stats0 (0:ℚ)) (fun _ s => s) almEx probEx [1/2] [2] none
        (zerofprInner (zfCfProblem pbEx psiEx) Zerofpr.Example.exDir () zfPrEx (fun _ _ => false)
          (fun _ => false) (fun _ => false) (fun _ => false) [] 0 0)).x
      (Alpaqa.C07.run (0 : ℚ) 0 (Zerofpr.stats0 (0:ℚ)) (fun _ s => s) almEx probEx [1/2] [2] none
        (zerofprInner (zfCfProblem pbEx psiEx) Zerofpr.Example.exDir () zfPrEx (fun _ _ => false)
          (fun _ => false) (fun _ => false) (fun _ => false) [] 0 0)).y :=
  ⟨by decide +kernel, by decide +kernel,
   alm_zerofpr_certifies_kkt (0 : ℚ) 0 (Zerofpr.stats0 (0:ℚ)) (fun _ s => s) almEx probEx [1/2] [2] none
    pbEx 1 (zfCfProblem pbEx psiEx) pbEx_zfContract Zerofpr.Example.exDir (fun _ => True) (exDir_sized 1)
    () trivial zfPrEx (by norm_num [zfPrEx]) 7 9 zfPrEx_fuelOK rfl (fun _ _ => false)
    (fun _ _ _ _ h => h) (fun _ => false) (fun _ => false) (fun _ => false) [] 0 0
    (by decide) pbEx_C pbEx_D (by norm_num [almEx]) (by norm_num [almEx]) trivial rfl rfl
    (by decide +kernel)⟩

example : (Alpaqa.C07.run (0 : ℚ) 0 (Zerofpr.stats0 (0:ℚ)) (fun _ s => s) almEx probEx [1/2] [2] none
      (zerofprInner (zfCfProblem pbEx psiEx) Zerofpr.Example.exDir () zfPrEx (fun _ _ => false)
        (fun _ => false) (fun _ => false) (fun _ => false) [] 0 0)).stats.outer_iterations = 2 := by
  decide +kernel

end examples

end Alpaqa.Props.C01Zerofpr
