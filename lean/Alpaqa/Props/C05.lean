/-
  C05 (PANOC part) — the forward-backward envelope decreases along the reported iterates; the step
  size never grows.

  Objects.  Kernels: `panoc_fbe`, `panoc_qubViolated`, `panoc_linesearchViolated` (`Gen/C05.lean`,
  regenerated from panoc.tpp on every run).  Loop: `Alpaqa.Panoc.run` (`Model/Panoc.lean`, tied to
  panoc.tpp by bit-exact trace replay).  Carrier: any linearly ordered field — real-number
  semantics of the program text; IEEE rounding is not modelled (the documented margins
  `(1+|ψ|)·qub_tol`, `(1+|φ|)·ls_tol` are part of the statements).

  *No smoothness of ψ is assumed*: ψ, ∇ψ, the direction provider and the stop schedule are arbitrary
  oracles.  The only contract used is `ProxSpec n` — the proximal-gradient step minimises its model
  (`ProxOpt`) on well-sized vectors — and only for the safeguarded (`τ = 0`) step.  It is *discharged*
  for the shipped box / box+ℓ1 step (`BoxConstrProblem::eval_prox_grad_step`, model
  `C15.proxGradStep`) by `proxSpec_box`, from the vector-level theorems of `Props/C15`
  (`proxGradStep_vector_is_prox`, `proxGradStep_returns_h`, `proxGradStep_p_eq`,
  `proxGradStep_xhat`): for that problem class no prox hypothesis is left.  That the loop only calls
  the oracle on well-sized vectors is proved in `Proofs/PanocSized` from size contracts of the
  oracles (`ProblemSized`) and of the direction provider (`DirSized`: in every provider state PANOC reaches, a successful `apply` leaves a
  `q` of size `n`).

  Fuel: every loop-level theorem comes as `…_of_fuel` (assumes `fuelOut = false`, any stop schedule)
  and in a main form where that is replaced by `StopMono stop` and `FuelOK pr n K`
  (`Proofs/PanocFuel.run_fuel_suffices`).

  Forced hypotheses (each is listed where it is used):
  * `0 ≤ min_linesearch_coefficient` (otherwise `τ` can go negative and a step with `τ < 0` is
    accepted without any test);
  * `0 < Lγ_factor`, and `0 < L_min`, `0 < L_max` when `L_0 ≤ 0` (positivity of `γ`, `L`);
  * `force_linesearch = false` for accelerated steps ("for testing purposes only" in the docs);
  * `recompute_last_prox_step_after_stepsize_change = false` for the statements about the iterate
    *reported to the callback* (with that option the current iterate is rewritten with the new
    `γ`, `L` and a new prox step before the callback, `ψ(x̂)` is not re-evaluated: the reported
    iterate was never tested against the quadratic upper bound and the accepted inequality was
    evaluated with the old `γ`); `γ`-monotonicity and `γ·L = Lγ_factor` hold in either case.
-/
import Alpaqa.Proofs.PanocDescent
import Alpaqa.Proofs.PanocSized
import Alpaqa.Proofs.PanocFuel
import Alpaqa.Props.C15
import Alpaqa.Props.C06_Panoc
import Mathlib.Data.List.Chain
import Alpaqa.Proofs.PanocLoopExample

namespace Alpaqa.Props.C05
open Alpaqa Alpaqa.Panoc Alpaqa.Gen
set_option linter.unusedSectionVars false
set_option linter.unusedVariables false

variable {α D : Type} [Field α] [LinearOrder α] [IsStrictOrderedRing α] [RealLike α]

/-! ### Kernel level: what an accepted test means -/

theorem fbe_eq (ψ h pTp γ g : α) : panoc_fbe ψ h pTp γ g = ψ + h + pTp / (2 * γ) + g := rfl

/-- **Line-search acceptance ⇒ sufficient decrease** of the envelope with
    `σ = β(1−γL)/(2γ)`, up to the documented margin `(1+|φ(curr)|)·ls_tol`. -/
theorem linesearch_accept_descent (force : Bool) (β lstol cψ ch cpTp cγ cg cL nψ nh npTp nγ ng : α)
    (h : panoc_linesearchViolated force β lstol cψ ch cpTp cγ cg cL nψ nh npTp nγ ng = false)
    (hf : force = false) :
    panoc_fbe nψ nh npTp nγ ng ≤
      panoc_fbe cψ ch cpTp cγ cg - β * (1 - cγ * cL) / (2 * cγ) * cpTp +
        (1 + |panoc_fbe cψ ch cpTp cγ cg|) * lstol := by
  unfold panoc_linesearchViolated at h
  simp only [hf, Bool.false_eq_true, if_false, Bool.not_eq_false', decide_eq_true_eq, eabs_eq_abs] at h
  exact h

/-- **QUB acceptance ⇒ quadratic upper bound** `ψ(x̂) ≤ ψ(x) + ∇ψᵀp + (L/2)‖p‖² + (1+|ψ(x)|)·qub_tol`. -/
theorem qub_accept (tol ψ ψh g L pTp : α) (h : panoc_qubViolated tol ψ ψh g L pTp = false) :
    ψh ≤ ψ + g + L / 2 * pTp + (1 + |ψ|) * tol := by
  unfold panoc_qubViolated at h
  simp only [Bool.not_eq_false', decide_eq_true_eq, eabs_eq_abs] at h
  have e : (0.5 : α) = 1 / 2 := by norm_num
  rw [e] at h
  have e2 : 1 / 2 * L * pTp = L / 2 * pTp := by ring
  rw [e2] at h
  exact h

/-- Contract of one proximal-gradient step `r = (h(x̂), x̂, p)` returned for `(γ, x, g)`:
    `p = x̂ − x`, the value is `h` at `x̂ ∈ dom h`, and `x̂` minimises
    `u ↦ h(u) + ⟨g, u − x⟩ + ‖u − x‖²/(2γ)` over `dom h`. -/
structure ProxOpt (hval : Vec α → α) (dom : Vec α → Prop) (γ : α) (x g : Vec α)
    (r : α × Vec α × Vec α) : Prop where
  p_eq : r.2.2 = vsub r.2.1 x
  h_eq : r.1 = hval r.2.1
  feas : dom r.2.1
  opt : ∀ u, dom u → u.length = x.length →
    hval r.2.1 + sqNorm (vsub r.2.1 x) / (2 * γ) + dot (vsub r.2.1 x) g ≤
      hval u + sqNorm (vsub u x) / (2 * γ) + dot (vsub u x) g

/-- The prox contract of a problem of dimension `n`: `ProxOpt` for every `γ > 0` and all
    *well-sized* `x`, `∇ψ` (on ill-sized lists the list model of a prox step truncates and `ProxOpt`
    is false; the loop only ever calls the oracle on well-sized vectors, `Proofs/PanocSized`).
    Discharged for the shipped box / box+ℓ1 step by `proxSpec_box` below. -/
def ProxSpec (n : Nat) (hval : Vec α → α) (dom : Vec α → Prop) (P : Problem α) : Prop :=
  ∀ γ x g, 0 < γ → x.length = n → g.length = n → ProxOpt hval dom γ x g (P.prox γ x g)

/-- **`φ_γ(x) ≤ ψ(x) + h(x)`** for `x ∈ dom h` and every `γ` (take `u = x` in the prox contract). -/
theorem fbe_le_cost (hval : Vec α → α) (dom : Vec α → Prop) (γ ψx : α) (x g : Vec α)
    (r : α × Vec α × Vec α) (hr : ProxOpt hval dom γ x g r) (hx : dom x) :
    panoc_fbe ψx r.1 (sqNorm r.2.2) γ (dot r.2.2 g) ≤ ψx + hval x := by
  have h := hr.opt x hx rfl
  rw [sqNorm_vsub_self, dot_vsub_self, zero_div, add_zero, add_zero, ← hr.p_eq, ← hr.h_eq] at h
  rw [fbe_eq]
  linarith

/-- **Safeguarded step**: if the quadratic upper bound holds at the current iterate then
    `ψ(x̂) + h(x̂) ≤ φ_γ(x) − (1−γL)/(2γ)·‖p‖² + (1+|ψ(x)|)·qub_tol`. -/
theorem safe_step_descent (tol ψ ψh g L pTp γ hxh : α) (hγ : γ ≠ 0)
    (h : panoc_qubViolated tol ψ ψh g L pTp = false) :
    ψh + hxh ≤ panoc_fbe ψ hxh pTp γ g - (1 - γ * L) / (2 * γ) * pTp + (1 + |ψ|) * tol := by
  have hq := qub_accept tol ψ ψh g L pTp h
  rw [fbe_eq]
  have e : (1 - γ * L) / (2 * γ) * pTp = pTp / (2 * γ) - L / 2 * pTp := by
    field_simp
  rw [e]
  linarith

/-- …and the envelope at the new point `x⁺ = x̂` is below `ψ(x⁺) + h(x⁺)` for *whatever* step size
    the next backtracking chooses; together: the safeguarded step decreases the envelope. -/
theorem safe_step_envelope (hval : Vec α → α) (dom : Vec α → Prop)
    (tol ψ ψh g L pTp γ : α) (hγ : γ ≠ 0) (xh : Vec α) (hdom : dom xh)
    (h : panoc_qubViolated tol ψ ψh g L pTp = false)
    (γ' : α) (g' : Vec α) (r' : α × Vec α × Vec α) (hr' : ProxOpt hval dom γ' xh g' r') :
    panoc_fbe ψh r'.1 (sqNorm r'.2.2) γ' (dot r'.2.2 g') ≤
      panoc_fbe ψ (hval xh) pTp γ g - (1 - γ * L) / (2 * γ) * pTp + (1 + |ψ|) * tol :=
  le_trans (fbe_le_cost hval dom γ' ψh xh g' r' hr' hdom)
    (safe_step_descent tol ψ ψh g L pTp γ (hval xh) hγ h)

/-! ### `Props/C15` discharges the prox contract componentwise -/

/-- Box step (`eval_proj_grad_step_box`), one component: `h = δ_[lb,ub]`, value 0. -/
theorem proxOpt_component_box (γ x g lb ub : α) (hγ : 0 < γ) (hlu : lb ≤ ub) (u : α)
    (hl : lb ≤ u) (hu : u ≤ ub) :
    (projGradStepBox γ x g lb ub).2 = x + (projGradStepBox γ x g lb ub).1 ∧
    lb ≤ (projGradStepBox γ x g lb ub).2 ∧ (projGradStepBox γ x g lb ub).2 ≤ ub ∧
    (projGradStepBox γ x g lb ub).1 ^ 2 / (2 * γ) + (projGradStepBox γ x g lb ub).1 * g ≤
      (u - x) ^ 2 / (2 * γ) + (u - x) * g := by
  have hp := C15.projGradStepBox_p_eq γ x g lb ub
  have hf := C15.projGradStepBox_feasible γ x g lb ub hlu
  have ho := C15.projGradStepBox_is_prox γ x g lb ub hlu u hl hu
  refine ⟨hp, hf.1, hf.2, ?_⟩
  rw [hp] at ho
  have h2γ : (0 : α) < 2 * γ := by linarith
  rw [div_add' _ _ _ h2γ.ne', div_add' _ _ _ h2γ.ne', div_le_div_iff_of_pos_right h2γ]
  nlinarith

/-- Box + ℓ1 step (`eval_prox_grad_step_box_l1_impl`), one component: `h = λ|·| + δ_[lb,ub]`. -/
theorem proxOpt_component_boxL1 (lam γ x g lb ub : α) (hl : 0 ≤ lam) (hγ : 0 < γ) (hlu : lb ≤ ub)
    (u : α) (hu1 : lb ≤ u) (hu2 : u ≤ ub) :
    (proxGradStepBoxL1 lam γ x g lb ub).1 = (proxGradStepBoxL1 lam γ x g lb ub).2 - x ∧
    lam * |(proxGradStepBoxL1 lam γ x g lb ub).2| +
        (proxGradStepBoxL1 lam γ x g lb ub).1 ^ 2 / (2 * γ) + (proxGradStepBoxL1 lam γ x g lb ub).1 * g ≤
      lam * |u| + (u - x) ^ 2 / (2 * γ) + (u - x) * g := by
  have he := C15.proxGradStepBoxL1_eq lam γ x g lb ub
  have ho := C15.boxL1_is_prox lam γ (x - γ * g) lb ub hl hγ hlu u hu1 hu2
  refine ⟨he.2, ?_⟩
  rw [he.2, he.1]
  generalize min (max (max (min 0 (x - γ * g + γ * lam)) (x - γ * g - γ * lam)) lb) ub = xh at ho ⊢
  have h2γ : (0 : α) < 2 * γ := by linarith
  have e1 : (xh - (x - γ * g)) ^ 2 / (2 * γ) = (xh - x) ^ 2 / (2 * γ) + (xh - x) * g + γ * g ^ 2 / 2 := by
    field_simp; ring
  have e2 : (u - (x - γ * g)) ^ 2 / (2 * γ) = (u - x) ^ 2 / (2 * γ) + (u - x) * g + γ * g ^ 2 / 2 := by
    field_simp; ring
  rw [e1, e2] at ho
  linarith

/-- Summation: componentwise model inequalities give the vector inequality of `ProxOpt.opt`
    (components listed as `(x, g, x̂, u)`, `hc` the separable part of `h`). -/
theorem proxOpt_of_components (hc : α → α) (γ : α) (cs : List (α × α × α × α))
    (h : ∀ c ∈ cs, hc c.2.2.1 + (c.2.2.1 - c.1) ^ 2 / (2 * γ) + (c.2.2.1 - c.1) * c.2.1 ≤
        hc c.2.2.2 + (c.2.2.2 - c.1) ^ 2 / (2 * γ) + (c.2.2.2 - c.1) * c.2.1) :
    ((cs.map fun c => hc c.2.2.1).sum + ((cs.map fun c => (c.2.2.1 - c.1) ^ 2).sum) / (2 * γ) +
        (cs.map fun c => (c.2.2.1 - c.1) * c.2.1).sum) ≤
    ((cs.map fun c => hc c.2.2.2).sum + ((cs.map fun c => (c.2.2.2 - c.1) ^ 2).sum) / (2 * γ) +
        (cs.map fun c => (c.2.2.2 - c.1) * c.2.1).sum) := by
  induction cs with
  | nil => simp
  | cons c cs ih =>
    have h1 := h c (List.mem_cons_self ..)
    have h2 := ih (fun c' hc' => h c' (List.mem_cons_of_mem _ hc'))
    simp only [List.map_cons, List.sum_cons, add_div]
    linarith

/-! ### `Props/C15` discharges the prox contract for the vector step (`C15.proxGradStep`)

`BoxConstrProblem::eval_prox_grad_step` (box `C`, optional ℓ1 term), modelled by
`C15.proxGradStep l1 γ x g lb ub`, satisfies `ProxSpec n` with `h(u) = Σ λᵢ|uᵢ|` and
`dom h = {u : |u| = n, lb ≤ u ≤ ub}` — from the vector-level theorems of `Props/C15`
(`proxGradStep_vector_is_prox`, `proxGradStep_returns_h`, `proxGradStep_p_eq`,
`proxGradStep_xhat`). -/

theorem zipWith_eq_range (f : α → α → α) (a b : Vec α) (n : Nat) (ha : a.length = n)
    (hb : b.length = n) :
    List.zipWith f a b = (List.range n).map fun i => f (vget a i) (vget b i) := by
  have ea := Alpaqa.C15.eq_map_range_vget a
  have eb := Alpaqa.C15.eq_map_range_vget b
  rw [ha] at ea; rw [hb] at eb
  conv_lhs => rw [ea, eb]
  exact Alpaqa.C15.zipWith_map_range n _ _ f

theorem sqNorm_vsub_range (n : Nat) (a x : Vec α) (ha : a.length = n) (hx : x.length = n) :
    sqNorm (vsub a x) = ((List.range n).map fun i => (vget a i - vget x i) ^ 2).sum := by
  unfold sqNorm vsub vzip
  rw [vsum_eq_sum', zipWith_eq_range _ a x n ha hx, List.map_map]
  congr 1
  apply List.map_congr_left
  intro i _
  simp only [Function.comp]; ring

theorem dot_vsub_range (n : Nat) (a x g : Vec α) (ha : a.length = n) (hx : x.length = n)
    (hg : g.length = n) :
    dot (vsub a x) g = ((List.range n).map fun i => (vget a i - vget x i) * vget g i).sum := by
  unfold dot vmul vsub vzip
  rw [vsum_eq_sum', zipWith_eq_range _ a x n ha hx,
    zipWith_eq_range _ _ g n (by simp) hg]
  congr 1
  apply List.map_congr_left
  intro i hi
  rw [Alpaqa.C15.vget_map_range _ _ _ (List.mem_range.mp hi)]

theorem sum_prox_split (n : Nat) (γ : α) (hγ : 0 < γ) (lam a x g : Nat → α) :
    ((List.range n).map fun i => lam i * |a i| + (a i - (x i - γ * g i)) ^ 2 / (2 * γ)).sum
      = ((List.range n).map fun i => lam i * |a i|).sum
        + ((List.range n).map fun i => (a i - x i) ^ 2).sum / (2 * γ)
        + ((List.range n).map fun i => (a i - x i) * g i).sum
        + ((List.range n).map fun i => γ * g i ^ 2 / 2).sum := by
  induction n with
  | zero => simp
  | succ k ih =>
    simp only [List.range_succ, List.map_append, List.sum_append, List.map_cons, List.map_nil,
      List.sum_cons, List.sum_nil, add_zero]
    rw [ih]
    have h2 : (2 * γ) ≠ 0 := by positivity
    field_simp
    ring

/-- the ℓ1 term of the box-constrained problem class: `h(u) = Σ_{i<n} λᵢ|uᵢ|` (0 without ℓ1 term) -/
def hvalL1 (l1 : Vec α) (n : Nat) (u : Vec α) : α :=
  ((List.range n).map fun i => Alpaqa.Props.C15.lamAt l1 i * |vget u i|).sum

/-- `dom h`: vectors of size `n` inside the box -/
def domBox (n : Nat) (lb ub : Vec α) (u : Vec α) : Prop :=
  u.length = n ∧ ∀ i < n, vget lb i ≤ vget u i ∧ vget u i ≤ vget ub i

/-- The data of a box / box+ℓ1 problem of dimension `n`: non-empty box, non-negative ℓ1 weights,
    `l1_reg` of size 0, 1 or `n` (as the C++ asserts). -/
structure BoxData (n : Nat) (l1 lb ub : Vec α) : Prop where
  box : ∀ i < n, vget lb i ≤ vget ub i
  lam : ∀ i < n, 0 ≤ Alpaqa.Props.C15.lamAt l1 i
  len : l1.length ≤ 1 ∨ l1.length = n

theorem proxGradStep_p_length (l1 : Vec α) (γ : α) (x g lb ub : Vec α) :
    (Alpaqa.C15.proxGradStep l1 γ x g lb ub).2.2.length = x.length := by
  unfold Alpaqa.C15.proxGradStep
  split_ifs <;> simp

/-- **The shipped box / box+ℓ1 prox step meets the prox contract** on well-sized vectors. -/
theorem proxOpt_box (n : Nat) (l1 lb ub : Vec α) (hB : BoxData n l1 lb ub) (γ : α) (x g : Vec α)
    (hγ : 0 < γ) (hx : x.length = n) (hg : g.length = n) :
    ProxOpt (hvalL1 l1 n) (domBox n lb ub) γ x g (Alpaqa.C15.proxGradStep l1 γ x g lb ub) := by
  have hxl : (Alpaqa.C15.proxGradStep l1 γ x g lb ub).2.1.length = n := by
    rw [Alpaqa.Props.C15.proxGradStep_xhat_length, hx]
  have hpl : (Alpaqa.C15.proxGradStep l1 γ x g lb ub).2.2.length = n := by
    rw [proxGradStep_p_length, hx]
  refine ⟨?_, ?_, ⟨hxl, ?_⟩, ?_⟩
  · -- p = x̂ − x
    have ep := Alpaqa.C15.eq_map_range_vget (Alpaqa.C15.proxGradStep l1 γ x g lb ub).2.2
    rw [hpl] at ep
    rw [ep]
    unfold vsub vzip
    rw [zipWith_eq_range _ _ x n hxl hx]
    apply List.map_congr_left
    intro i hi
    exact Alpaqa.Props.C15.proxGradStep_p_eq l1 γ x g lb ub i (by rw [hx]; exact List.mem_range.mp hi)
  · -- the returned value is h(x̂)
    have := Alpaqa.Props.C15.proxGradStep_returns_h l1 γ x g lb ub (by rw [hx]; exact hB.lam)
      (by rw [hx]; exact hB.len)
    rw [hx] at this
    exact this
  · -- x̂ is in the box
    intro i hi
    rw [Alpaqa.Props.C15.proxGradStep_xhat _ _ _ _ _ _ _ (by rw [hx]; exact hi)]
    exact Alpaqa.Props.C15.boxL1_in_box _ _ _ _ (hB.box i hi)
  · -- x̂ minimises the model over the box
    intro u hu hul
    have hun : u.length = n := hu.1
    have hv := Alpaqa.Props.C15.proxGradStep_vector_is_prox l1 γ x g lb ub hγ (by rw [hx]; exact hB.box)
      (by rw [hx]; exact hB.lam) u (by rw [hx]; exact hu.2)
    rw [hx, sum_prox_split n γ hγ, sum_prox_split n γ hγ] at hv
    rw [sqNorm_vsub_range n _ x hxl hx, sqNorm_vsub_range n u x hun hx,
      dot_vsub_range n _ x g hxl hx hg, dot_vsub_range n u x g hun hx hg]
    unfold hvalL1
    linarith

/-- **`ProxSpec` holds for every problem whose prox oracle is the shipped box / box+ℓ1 step.** -/
theorem proxSpec_box (n : Nat) (l1 lb ub : Vec α) (hB : BoxData n l1 lb ub) (P : Problem α)
    (hprox : ∀ γ x g, P.prox γ x g = Alpaqa.C15.proxGradStep l1 γ x g lb ub) :
    ProxSpec n (hvalL1 l1 n) (domBox n lb ub) P := by
  intro γ x g hγ hx hg
  rw [hprox]
  exact proxOpt_box n l1 lb ub hB γ x g hγ hx hg

/-! ### Loop level: one pass of the body -/

/-- Hypotheses on the parameters that the loop-level theorems need. -/
structure ParamsOK (pr : Params α) : Prop where
  minLs : 0 ≤ pr.minLsCoef
  lgf : 0 < pr.LgammaFactor
  lmin : 0 < pr.Lmin
  lmax : 0 < pr.Lmax

/-- The iterate handed to the callback of a completed iteration and the new current iterate:
    **`γ` never increases** (`γ(new curr) ≤ γ(reported) ≤ γ(old curr)`) and **`γ·L = Lγ_factor`**
    for both — with or without `recompute_last_prox_step_after_stepsize_change`. -/
theorem gamma_antitone_gammaL_const (P : Problem α) (dir : Direction D α) (pr : Params α)
    (stop : Nat → Bool) (s : St α D) (eps : α) (hg : GammaOK pr s.curr) (hmin : 0 ≤ pr.minLsCoef)
    (hf : (iterLs P dir pr stop s).fuelOut = false) :
    GammaOK pr (iterBody P dir pr stop s eps).curr ∧
    (iterBody P dir pr stop s eps).curr.gamma ≤ s.curr.gamma ∧
    (∀ cb, (iterBody P dir pr stop s eps).cbs = cb :: s.cbs →
      GammaOK pr cb.it ∧ cb.it.gamma ≤ s.curr.gamma ∧
      (iterBody P dir pr stop s eps).curr.gamma ≤ cb.it.gamma) := by
  have hi := iterLs_inv P dir pr stop s hg hmin hf
  by_cases hst : stop (iterLs P dir pr stop s).tick = true
  · have hint := iterBody_interrupted P dir pr stop s eps hst
    refine ⟨GammaOK_of_core pr hint.2.2.2.2.1 hg, by rw [gamma_of_core hint.2.2.2.2.1], ?_⟩
    intro cb hcb
    rw [hint.2.2.1] at hcb
    exact absurd hcb (by simp)
  · have hst' : stop (iterLs P dir pr stop s).tick = false := by simpa using hst
    have ha := iterBody_advanced P dir pr stop s eps hst'
    refine ⟨by rw [ha.2.2.1]; exact hi.gok, by rw [ha.2.2.1]; exact hi.gle, ?_⟩
    intro cb hcb
    obtain ⟨cb', hcb', _, _, hit, _⟩ := ha.2.2.2.2.1
    rw [hcb'] at hcb
    have : cb = cb' := by injection hcb with h1 _; exact h1.symm
    subst this
    rw [hit, ha.2.2.1]
    rcases updateStage_curr P dir pr (iterLs P dir pr stop s) with hu | ⟨_, _, hu⟩
    · rw [hu]
      exact ⟨GammaOK_of_core pr hi.core_eq hg, by rw [gamma_of_core hi.core_eq],
        by rw [gamma_of_core hi.core_eq]; exact hi.gle⟩
    · rw [hu]
      exact ⟨hi.gok, hi.gle, le_refl _⟩

/-- **Every iterate that becomes current satisfies the quadratic upper bound unless `L ≥ L_max`**,
    and so does the iterate handed to the callback when it is not rewritten
    (`recompute_last_prox_step_after_stepsize_change = false`). -/
theorem reported_iterate_qub (P : Problem α) (dir : Direction D α) (pr : Params α)
    (stop : Nat → Bool) (s : St α D) (eps : α) (hg : GammaOK pr s.curr) (hq : QubOK pr s.curr)
    (hmin : 0 ≤ pr.minLsCoef) (hf : (iterLs P dir pr stop s).fuelOut = false) :
    QubOK pr (iterBody P dir pr stop s eps).curr ∧
    (pr.recomputeLastProx = false → ∀ cb, (iterBody P dir pr stop s eps).cbs = cb :: s.cbs →
      QubOK pr cb.it ∧ core cb.it = core s.curr) := by
  by_cases hst : stop (iterLs P dir pr stop s).tick = true
  · have hint := iterBody_interrupted P dir pr stop s eps hst
    refine ⟨QubOK_of_core pr hint.2.2.2.2.1 hq, fun _ cb hcb => ?_⟩
    rw [hint.2.2.1] at hcb
    exact absurd hcb (by simp)
  · have hst' : stop (iterLs P dir pr stop s).tick = false := by simpa using hst
    have ha := iterBody_advanced P dir pr stop s eps hst'
    have hd := iterLs_done P dir pr stop s hg hmin hf hst'
    refine ⟨by rw [ha.2.2.1]; exact hd.qub_ok, fun hrec cb hcb => ?_⟩
    obtain ⟨cb', hcb', _, _, hit, _⟩ := ha.2.2.2.2.1
    rw [hcb'] at hcb
    have : cb = cb' := by injection hcb with h1 _; exact h1.symm
    subst this
    rw [hit]
    rcases updateStage_curr P dir pr (iterLs P dir pr stop s) with hu | ⟨hr, _, _⟩
    · rw [hu]; exact ⟨QubOK_of_core pr hd.inv.core_eq hq, hd.inv.core_eq⟩
    · rw [hrec] at hr; exact absurd hr (by decide)

/-- A completed iteration, whatever the old current iterate was: the new current iterate satisfies
    the quadratic upper bound unless `L ≥ L_max`, and the reported iterate is the old current one
    (same core) when it is not rewritten. -/
theorem completed_iteration_qub (P : Problem α) (dir : Direction D α) (pr : Params α)
    (stop : Nat → Bool) (s : St α D) (eps : α) (hg : GammaOK pr s.curr)
    (hmin : 0 ≤ pr.minLsCoef) (hf : (iterLs P dir pr stop s).fuelOut = false)
    (hst' : stop (iterLs P dir pr stop s).tick = false) :
    QubOK pr (iterBody P dir pr stop s eps).curr ∧
    (pr.recomputeLastProx = false → ∀ cb, (iterBody P dir pr stop s eps).cbs = cb :: s.cbs →
      core cb.it = core s.curr) := by
  have ha := iterBody_advanced P dir pr stop s eps hst'
  have hd := iterLs_done P dir pr stop s hg hmin hf hst'
  refine ⟨by rw [ha.2.2.1]; exact hd.qub_ok, fun hrec cb hcb => ?_⟩
  obtain ⟨cb', hcb', _, _, hit, _⟩ := ha.2.2.2.2.1
  rw [hcb'] at hcb
  have : cb = cb' := by injection hcb with h1 _; exact h1.symm
  subst this
  rw [hit]
  rcases updateStage_curr P dir pr (iterLs P dir pr stop s) with hu | ⟨hr, _, _⟩
  · rw [hu]; exact hd.inv.core_eq
  · rw [hrec] at hr; exact absurd hr (by decide)

/-- **Accepted accelerated step** (`τ > 0`, line search not forced): the envelope of the new current
    iterate is below that of the old one by `β(1−γL)/(2γ)·‖p‖²`, up to `(1+|φ|)·ls_tol`. -/
theorem accelerated_step_descent (P : Problem α) (dir : Direction D α) (pr : Params α)
    (stop : Nat → Bool) (s : St α D) (eps : α) (hg : GammaOK pr s.curr) (hmin : 0 ≤ pr.minLsCoef)
    (hf : (iterLs P dir pr stop s).fuelOut = false)
    (hst : stop (iterLs P dir pr stop s).tick = false)
    (hτ : 0 < (iterLs P dir pr stop s).tau) (hforce : pr.forceLinesearch = false) :
    (iterBody P dir pr stop s eps).curr.fbe ≤
      s.curr.fbe - pr.lsStrictness * (1 - s.curr.gamma * s.curr.L) / (2 * s.curr.gamma) * s.curr.pTp +
        (1 + |s.curr.fbe|) * pr.lsTol := by
  have ha := iterBody_advanced P dir pr stop s eps hst
  have hd := iterLs_done P dir pr stop s hg hmin hf hst
  have hls : linesearchViolated pr (iterLs P dir pr stop s).curr (iterLs P dir pr stop s).next = false := by
    by_contra hc
    exact hd.ls_ok ⟨hτ, by simpa using hc⟩
  unfold linesearchViolated at hls
  have hc := hd.inv.core_eq
  rw [psix_of_core hc, hxhat_of_core hc, pTp_of_core hc, gamma_of_core hc, gradPsiTp_of_core hc,
    L_of_core hc] at hls
  rw [ha.2.2.1]
  exact linesearch_accept_descent _ _ _ _ _ _ _ _ _ _ _ _ _ _ hls hforce

/-- **Safeguarded step** (`τ = 0`) from an iterate that satisfies the quadratic upper bound, with a
    prox oracle meeting its contract: the envelope of the new current iterate is below that of the
    old one by the full `(1−γL)/(2γ)·‖p‖²`, up to `(1+|ψ|)·qub_tol` — whatever step size the
    backtracking inside the line search chose for the new iterate. -/
theorem safeguarded_step_descent {n m : Nat} (hval : Vec α → α) (dom : Vec α → Prop) (P : Problem α)
    (hP : ProxSpec n hval dom P) (hPs : ProblemSized n m P)
    (dir : Direction D α) (d0 : D) (hD : DirSized n dir d0) (pr : Params α)
    (stop : Nat → Bool) (s : St α D) (eps : α) (hsz : Sized n m s.curr)
    (hdk : DirOK n dir d0 s.k s.d) (hg : GammaOK pr s.curr)
    (hsc : StepCons P s.curr) (hq : qubViolated pr s.curr = false) (hmin : 0 ≤ pr.minLsCoef)
    (hf : (iterLs P dir pr stop s).fuelOut = false)
    (hst : stop (iterLs P dir pr stop s).tick = false)
    (hτ : (iterLs P dir pr stop s).tau = 0) :
    (iterBody P dir pr stop s eps).curr.fbe ≤
      s.curr.fbe - (1 - s.curr.gamma * s.curr.L) / (2 * s.curr.gamma) * s.curr.pTp +
        (1 + |s.curr.psix|) * pr.qubTol := by
  have ha := iterBody_advanced P dir pr stop s eps hst
  have hd := iterLs_done P dir pr stop s hg hmin hf hst
  have hsafe := hd.inv.safe (by rw [hd.prev]; exact hτ)
  rw [ha.2.2.1]
  -- the candidate's own step
  obtain ⟨⟨hh, hxh, hp⟩, hpTp, hgTp⟩ := hd.step
  have hnz := (iterBody_sized hPs dir d0 hD pr stop s eps hsz hdk hf).2 hst
  have hr := hP (iterLs P dir pr stop s).next.gamma (iterLs P dir pr stop s).next.x
    (iterLs P dir pr stop s).next.gradPsi hd.inv.gok.1 hnz.x hnz.g
  -- the old iterate's step: h(x̂) and x̂ ∈ dom h
  obtain ⟨⟨ch, cxh, cp⟩, _, _⟩ := hsc
  have hr0 := hP s.curr.gamma s.curr.x s.curr.gradPsi hg.1 hsz.x hsz.g
  have hdom : dom s.curr.xhat := by rw [cxh]; exact hr0.feas
  have hhx : s.curr.hxhat = hval s.curr.xhat := by rw [ch, cxh]; exact hr0.h_eq
  have h1 := safe_step_envelope hval dom pr.qubTol s.curr.psix s.curr.psixhat s.curr.gradPsiTp s.curr.L
    s.curr.pTp s.curr.gamma (ne_of_gt hg.1) s.curr.xhat hdom hq
    (iterLs P dir pr stop s).next.gamma (iterLs P dir pr stop s).next.gradPsi _
    (by rw [← hsafe.1]; exact hr)
  unfold Iterate.fbe
  rw [hsafe.2, hh, hpTp, hgTp, hp, hhx]
  rw [hsafe.1] at h1 ⊢
  exact h1

/-- **No accelerated step can make the merit function worse than the safeguarded step's guarantee
    (scaled by the strictness factor)**: whatever `τ` the line search ends with, for
    `0 ≤ β ≤ 1`, `γL ≤ 1`,
    `φ(new) ≤ φ(old) − β(1−γL)/(2γ)·‖p‖² + max((1+|φ|)·ls_tol, (1+|ψ|)·qub_tol)`. -/
theorem accelerated_never_worse_than_safeguard {n m : Nat} (hval : Vec α → α) (dom : Vec α → Prop)
    (P : Problem α) (hP : ProxSpec n hval dom P) (hPs : ProblemSized n m P)
    (dir : Direction D α) (d0 : D) (hD : DirSized n dir d0) (pr : Params α)
    (stop : Nat → Bool) (s : St α D) (eps : α) (hsz : Sized n m s.curr)
    (hdk : DirOK n dir d0 s.k s.d) (hg : GammaOK pr s.curr)
    (hsc : StepCons P s.curr) (hq : qubViolated pr s.curr = false) (hmin : 0 ≤ pr.minLsCoef)
    (hf : (iterLs P dir pr stop s).fuelOut = false)
    (hst : stop (iterLs P dir pr stop s).tick = false) (hforce : pr.forceLinesearch = false)
    (hβ0 : 0 ≤ pr.lsStrictness) (hβ1 : pr.lsStrictness ≤ 1) (hγL : pr.LgammaFactor ≤ 1) :
    (iterBody P dir pr stop s eps).curr.fbe ≤
      s.curr.fbe - pr.lsStrictness * ((1 - s.curr.gamma * s.curr.L) / (2 * s.curr.gamma) * s.curr.pTp) +
        max ((1 + |s.curr.fbe|) * pr.lsTol) ((1 + |s.curr.psix|) * pr.qubTol) := by
  have hd := iterLs_done P dir pr stop s hg hmin hf hst
  rcases lt_or_eq_of_le hd.inv.tau_nonneg with hτ | hτ
  · have h := accelerated_step_descent P dir pr stop s eps hg hmin hf hst hτ hforce
    have e : pr.lsStrictness * (1 - s.curr.gamma * s.curr.L) / (2 * s.curr.gamma) * s.curr.pTp =
        pr.lsStrictness * ((1 - s.curr.gamma * s.curr.L) / (2 * s.curr.gamma) * s.curr.pTp) := by ring
    rw [e] at h
    exact le_trans h (by linarith [le_max_left ((1 + |s.curr.fbe|) * pr.lsTol) ((1 + |s.curr.psix|) * pr.qubTol)])
  · have h := safeguarded_step_descent hval dom P hP hPs dir d0 hD pr stop s eps hsz hdk hg hsc hq hmin hf hst hτ.symm
    have hc : 0 ≤ (1 - s.curr.gamma * s.curr.L) / (2 * s.curr.gamma) * s.curr.pTp := by
      apply mul_nonneg
      · apply div_nonneg
        · rw [hg.2.2]; linarith
        · linarith [hg.1]
      · rw [hsc.2.1]; exact sqNorm_nonneg' _
    have : pr.lsStrictness * ((1 - s.curr.gamma * s.curr.L) / (2 * s.curr.gamma) * s.curr.pTp) ≤
        (1 - s.curr.gamma * s.curr.L) / (2 * s.curr.gamma) * s.curr.pTp := by
      nlinarith
    linarith [le_max_right ((1 + |s.curr.fbe|) * pr.lsTol) ((1 + |s.curr.psix|) * pr.qubTol)]

/-! ### Loop level: the whole run, as seen through the progress callback -/

/-- Relation between a loop callback `a` (iteration `k`, reporting `φₖ, γₖ, Lₖ, ‖pₖ‖², τₖ`) and the
    envelope value `φ` of the next reported iterate: the property's inequality with
    `cₖ = (1−γₖLₖ)/(2γₖ)`, times the strictness factor for accelerated steps. -/
def DescTo (pr : Params α) (a : Callback α) (φ : α) : Prop :=
  (0 < a.tau → pr.forceLinesearch = false →
    φ ≤ a.fbe - pr.lsStrictness * (1 - a.it.gamma * a.it.L) / (2 * a.it.gamma) * a.it.pTp +
      (1 + |a.fbe|) * pr.lsTol) ∧
  (a.tau = 0 → qubViolated pr a.it = false →
    φ ≤ a.fbe - (1 - a.it.gamma * a.it.L) / (2 * a.it.gamma) * a.it.pTp +
      (1 + |a.it.psix|) * pr.qubTol)

/-- What holds for every callback of a run.  `I` = "the initial step-size loop was cut short by a
    stop request": then the initial iterate (the one reported with `k = 0`) was never brought to
    satisfy the quadratic upper bound. -/
structure CbOK (I : Prop) (pr : Params α) (cb : Callback α) : Prop where
  gok : GammaOK pr cb.it
  qub : pr.recomputeLastProx = false → QubOK pr cb.it ∨ (I ∧ cb.k = 0)
  fbe : cb.fbe = cb.it.fbe
  tau : cb.status = .Busy → 0 ≤ cb.tau

/-- Relation between consecutive callbacks (`a` earlier, `b` later). -/
def Consec (G : Prop) (pr : Params α) (a b : Callback α) : Prop :=
  b.it.gamma ≤ a.it.gamma ∧ (G → DescTo pr a b.fbe)

structure LoopInv (G I : Prop) (P : Problem α) (pr : Params α) (s : St α D) : Prop where
  gok : GammaOK pr s.curr
  /-- the current iterate passed the quadratic-upper-bound test (or `L ≥ L_max`) — except the initial
      iterate of a solve whose initial step-size loop was interrupted (`I`) -/
  qok : QubOK pr s.curr ∨ (I ∧ s.k = 0)
  step : StepCons P s.curr
  cbs_ok : ∀ cb ∈ s.cbs, CbOK I pr cb
  chain : List.IsChain (fun newer older => Consec G pr older newer) s.cbs
  head : ∀ cb, s.cbs.head? = some cb →
    s.curr.gamma ≤ cb.it.gamma ∧ (G → DescTo pr cb s.curr.fbe)

theorem headStep_inv (G I : Prop) (P : Problem α) (pr : Params α) (stop : Nat → Bool) (oot : Bool) (s : St α D)
    (h : LoopInv G I P pr s) : LoopInv G I P pr (headStep P pr stop oot s).1 := by
  have hf := headStep_fields P pr stop oot s
  have hc := hf.2.2.2.2.1
  refine ⟨GammaOK_of_core pr hc h.gok,
    h.qok.imp (QubOK_of_core pr hc) (fun hi => ⟨hi.1, by rw [hf.1]; exact hi.2⟩),
    StepCons_of_core P hc h.step,
    by rw [hf.2.2.1]; exact h.cbs_ok, by rw [hf.2.2.1]; exact h.chain, ?_⟩
  intro cb hcb
  rw [hf.2.2.1] at hcb
  rw [gamma_of_core hc, fbe_of_core hc]
  exact h.head cb hcb

/-- What the descent clauses (`G`) need: the reported iterate is not rewritten, the prox contract,
    the size contracts of the oracles. -/
def DescentHyp (n m : Nat) (hval : Vec α → α) (dom : Vec α → Prop) (P : Problem α)
    (dir : Direction D α) (d0 : D) (pr : Params α) : Prop :=
  pr.recomputeLastProx = false ∧ ProxSpec n hval dom P ∧ ProblemSized n m P ∧ DirSized n dir d0

theorem iterBody_inv (G I : Prop) (n m : Nat) (hval : Vec α → α) (dom : Vec α → Prop) (P : Problem α)
    (dir : Direction D α) (d0 : D) (pr : Params α)
    (hG : G → DescentHyp n m hval dom P dir d0 pr)
    (stop : Nat → Bool) (s : St α D) (eps : α) (hsz : G → Sized n m s.curr)
    (hdk : G → DirOK n dir d0 s.k s.d)
    (hmin : 0 ≤ pr.minLsCoef) (h : LoopInv G I P pr s)
    (hf : (iterLs P dir pr stop s).fuelOut = false) :
    LoopInv G I P pr (iterBody P dir pr stop s eps) := by
  by_cases hst : stop (iterLs P dir pr stop s).tick = true
  · have hint := iterBody_interrupted P dir pr stop s eps hst
    have hc := hint.2.2.2.2.1
    refine ⟨GammaOK_of_core pr hc h.gok,
      h.qok.imp (QubOK_of_core pr hc) (fun hi => ⟨hi.1, by rw [hint.1]; exact hi.2⟩),
      StepCons_of_core P hc h.step,
      by rw [hint.2.2.1]; exact h.cbs_ok, by rw [hint.2.2.1]; exact h.chain, ?_⟩
    intro cb hcb
    rw [hint.2.2.1] at hcb
    rw [gamma_of_core hc, fbe_of_core hc]
    exact h.head cb hcb
  · have hst' : stop (iterLs P dir pr stop s).tick = false := by simpa using hst
    have ha := iterBody_advanced P dir pr stop s eps hst'
    have hd := iterLs_done P dir pr stop s h.gok hmin hf hst'
    have hgam := gamma_antitone_gammaL_const P dir pr stop s eps h.gok hmin hf
    have hqub := completed_iteration_qub P dir pr stop s eps h.gok hmin hf hst'
    obtain ⟨cb, hcbs, hk, hstat, hit, hfbe, htau, heps⟩ := ha.2.2.2.2.1
    have hg3 := hgam.2.2 cb hcbs
    -- the new callback against the new current iterate
    have hdesc : G → DescTo pr cb (iterBody P dir pr stop s eps).curr.fbe := by
      intro hg
      have hrec := (hG hg).1
      have hP := (hG hg).2.1
      have hcc := hqub.2 hrec cb hcbs
      constructor
      · intro hτ hforce
        rw [htau] at hτ
        have := accelerated_step_descent P dir pr stop s eps h.gok hmin hf hst' hτ hforce
        rw [hfbe, fbe_of_core hcc, gamma_of_core hcc, L_of_core hcc, pTp_of_core hcc]
        exact this
      · intro hτ hq
        rw [htau] at hτ
        rw [qubViolated_of_core pr hcc] at hq
        have := safeguarded_step_descent hval dom P hP (hG hg).2.2.1 dir d0 (hG hg).2.2.2 pr stop s eps
          (hsz hg) (hdk hg) h.gok h.step hq hmin hf hst' hτ
        rw [hfbe, fbe_of_core hcc, gamma_of_core hcc, L_of_core hcc, pTp_of_core hcc, psix_of_core hcc]
        exact this
    have hcbok : CbOK I pr cb :=
      ⟨hg3.1, fun hrec => h.qok.imp (QubOK_of_core pr (hqub.2 hrec cb hcbs))
          (fun hi => ⟨hi.1, by rw [hk]; exact hi.2⟩),
        hfbe, fun _ => by rw [htau]; exact hd.inv.tau_nonneg⟩
    refine ⟨hgam.1, Or.inl hqub.1, by rw [ha.2.2.1]; exact hd.step, ?_, ?_, ?_⟩
    · intro c hc
      rw [hcbs] at hc
      rcases List.mem_cons.mp hc with hc | hc
      · rw [hc]; exact hcbok
      · exact h.cbs_ok c hc
    · rw [hcbs]
      rw [List.isChain_cons]
      refine ⟨?_, h.chain⟩
      intro older hold
      have hh := h.head older (by simpa using hold)
      refine ⟨le_trans hg3.2.1 hh.1, fun hg => ?_⟩
      have hrec := (hG hg).1
      have hcc := hqub.2 hrec cb hcbs
      rw [hfbe, fbe_of_core hcc]
      exact hh.2 hg
    · intro c hc
      rw [hcbs] at hc
      have : c = cb := by simpa using hc.symm
      subst this
      exact ⟨hg3.2.2, hdesc⟩

/-- Invariants established by the initialisation. -/
theorem eclamp_pos (v lo hi : α) (hl : 0 < lo) (hh : 0 < hi) : 0 < eclamp v lo hi := by
  unfold eclamp; split_ifs <;> linarith

theorem initQub_inv (P : Problem α) (pr : Params α) (stop : Nat → Bool) (f : Nat) (c : Iterate α)
    (t b : Nat)
    (hg : GammaOK pr c) (hs : StepCons P c) (hf : (initQub P pr stop f c t b).2.2.2 = false) :
    GammaOK pr (initQub P pr stop f c t b).1 ∧
    (stop (initQub P pr stop f c t b).2.1 = false → QubOK pr (initQub P pr stop f c t b).1) ∧
    StepCons P (initQub P pr stop f c t b).1 := by
  induction f generalizing c t b with
  | zero => simp [initQub] at hf
  | succ f ih =>
    unfold initQub at hf ⊢
    split_ifs at hf ⊢ with hstop hc
    · exact ⟨hg, fun h => by simp only [] at h; rw [hstop] at h; exact absurd h (by decide), hs⟩
    · apply ih _ _ _ _ (stepCons_evalStep P pr _) hf
      have hes := evalStep_fields P pr { c with gamma := c.gamma / 2, L := c.L * 2 }
      have hh := half_pos_mul hg.1 hg.2.1 hg.2.2
      unfold GammaOK
      rw [hes.1, hes.2.1]
      exact ⟨hh.1, hh.2.1, hh.2.2.1⟩
    · refine ⟨hg, fun _ => ?_, hs⟩
      unfold QubOK
      by_cases hq : qubViolated pr c = true
      · right
        by_contra hlt
        apply hc
        simp only [Bool.and_eq_true, decide_eq_true_eq]
        exact ⟨not_le.mp hlt, hq⟩
      · left; simpa using hq

theorem initState_inv (P : Problem α) (d0 : D) (pr : Params α) (stop : Nat → Bool) (x0 gV : Vec α)
    (gS iS : α) (hp : ParamsOK pr) :
    match initState P d0 pr stop x0 gV gS iS with
    | .inl _ => True
    | .inr s => s.fuelOut = false → ∀ G I : Prop, (stop s.tick = true → I) → LoopInv G I P pr s := by
  unfold initState
  simp only []
  split_ifs with h1 h2 h3
  · trivial
  · intro hf
    have hL : 0 < (initialLipschitz P pr x0).1 := by
      unfold initialLipschitz; simp only []; exact eclamp_pos _ _ _ hp.lmin hp.lmax
    have := initQub_inv P pr stop pr.lsFuel _ _ 0 ?_ (stepCons_evalStep P pr _) hf
    · exact fun G I hI => ⟨this.1, (Bool.eq_false_or_eq_true _).symm.imp this.2.1 (fun h => ⟨hI h, rfl⟩),
        this.2.2, by simp, by simp, by simp⟩
    · have hes := evalStep_fields P pr
        { x := x0, xhat := (initialLipschitz P pr x0).2.2.2.1, gradPsi := (initialLipschitz P pr x0).2.2.1,
          gradPsiHat := (blankIterate gV gS).gradPsiHat, p := (blankIterate gV gS).p,
          yhat := (blankIterate gV gS).yhat, psix := (initialLipschitz P pr x0).2.1,
          psixhat := (blankIterate gV gS).psixhat,
          gamma := pr.LgammaFactor / (initialLipschitz P pr x0).1, L := (initialLipschitz P pr x0).1,
          pTp := (blankIterate gV gS).pTp, gradPsiTp := (blankIterate gV gS).gradPsiTp,
          hxhat := (blankIterate gV gS).hxhat, haveGradHat := (blankIterate gV gS).haveGradHat }
      unfold GammaOK
      rw [hes.1, hes.2.1]
      exact ⟨div_pos hp.lgf hL, hL, div_mul_cancel₀ _ (ne_of_gt hL)⟩
  · trivial
  · intro hf
    have hL : 0 < pr.L0 := not_le.mp h1
    have := initQub_inv P pr stop pr.lsFuel _ _ 0 ?_ (stepCons_evalStep P pr _) hf
    · exact fun G I hI => ⟨this.1, (Bool.eq_false_or_eq_true _).symm.imp this.2.1 (fun h => ⟨hI h, rfl⟩),
        this.2.2, by simp, by simp, by simp⟩
    · unfold GammaOK
      rw [(evalStep_fields P pr _).1, (evalStep_fields P pr _).2.1]
      exact ⟨div_pos hp.lgf hL, hL, div_mul_cancel₀ _ (ne_of_gt hL)⟩

/-- Conclusion for the callbacks of an exit from a state satisfying the invariant. -/
theorem exit_callbacks_ok (G I : Prop) (P : Problem α) (pr : Params α) (s : St α D) (eps : α)
    (status : SolverStatus) (x0 y Sig errz0 : Vec α) (h : LoopInv G I P pr s) (hst : status ≠ .Busy) :
    List.IsChain (Consec G pr) (exitBlock P pr s eps status x0 y Sig errz0).callbacks ∧
    ∀ cb ∈ (exitBlock P pr s eps status x0 y Sig errz0).callbacks, CbOK I pr cb := by
  have hcb : (exitBlock P pr s eps status x0 y Sig errz0).callbacks =
      (({ k := s.k, status := status, it := s.curr, fbe := s.curr.fbe, q := [], tau := -1,
          eps := eps } : Callback α) :: s.cbs).reverse := rfl
  rw [hcb]
  constructor
  · rw [List.isChain_reverse, List.isChain_cons]
    refine ⟨?_, ?_⟩
    · intro older hold
      have hh := h.head older (by simpa using hold)
      exact ⟨hh.1, hh.2⟩
    · exact h.chain
  · intro cb hcb'
    rw [List.mem_reverse] at hcb'
    rcases List.mem_cons.mp hcb' with hc | hc
    · rw [hc]
      exact ⟨h.gok, fun _ => h.qok, rfl, fun hb => absurd hb hst⟩
    · exact h.cbs_ok cb hc

theorem mainLoop_callbacks_ok (G I : Prop) (n m : Nat) (hval : Vec α → α) (dom : Vec α → Prop)
    (P : Problem α) (dir : Direction D α) (d0 : D) (pr : Params α)
    (hG : G → DescentHyp n m hval dom P dir d0 pr)
    (hmin : 0 ≤ pr.minLsCoef) (stop : Nat → Bool) (oot : Bool)
    (x0 y Sig errz0 : Vec α) (fuel : Nat) (s : St α D) (h : LoopInv G I P pr s)
    (hsz : G → Sized n m s.curr) (hdk : G → DirOK n dir d0 s.k s.d)
    (hf : s.fuelOut = false)
    (hr : (mainLoop P dir pr stop oot x0 y Sig errz0 fuel s).fuelOut = false) :
    List.IsChain (Consec G pr) (mainLoop P dir pr stop oot x0 y Sig errz0 fuel s).callbacks ∧
    ∀ cb ∈ (mainLoop P dir pr stop oot x0 y Sig errz0 fuel s).callbacks, CbOK I pr cb := by
  induction fuel generalizing s with
  | zero => simp [mainLoop] at hr
  | succ f ih =>
    unfold mainLoop at hr ⊢
    simp only [] at hr ⊢
    have hh := headStep_inv G I P pr stop oot s h
    have hfh : (headStep P pr stop oot s).1.fuelOut = false := by rw [headStep_fuelOut]; exact hf
    split_ifs at hr ⊢ with hb
    · exact exit_callbacks_ok G I P pr _ _ _ x0 y Sig errz0 hh (by simpa using hb)
    · have hf2 : (iterBody P dir pr stop (headStep P pr stop oot s).1 (headStep P pr stop oot s).2.1).fuelOut
          = false := by
        rcases Bool.eq_false_or_eq_true
          (iterBody P dir pr stop (headStep P pr stop oot s).1 (headStep P pr stop oot s).2.1).fuelOut
          with hc | hc
        · have := mainLoop_fuelOut_mono P dir pr stop oot x0 y Sig errz0 f _ hc
          rw [this] at hr; exact absurd hr (by decide)
        · exact hc
      have hls : (iterLs P dir pr stop (headStep P pr stop oot s).1).fuelOut = false := by
        rw [iterBody_fuelOut, hfh] at hf2; simpa using hf2
      have hszh : G → Sized n m (headStep P pr stop oot s).1.curr := fun hg =>
        headStep_sized (hG hg).2.2.1 pr stop oot s (hsz hg)
      have hdh : G → DirOK n dir d0 (headStep P pr stop oot s).1.k (headStep P pr stop oot s).1.d :=
        fun hg => by rw [(headStep_d P pr stop oot s).1, (headStep_d P pr stop oot s).2]; exact hdk hg
      exact ih _ (iterBody_inv G I n m hval dom P dir d0 pr hG stop _ _ hszh hdh hmin hh hls)
        (fun hg => (iterBody_sized (hG hg).2.2.1 dir d0 (hG hg).2.2.2 pr stop _ _ (hszh hg) (hdh hg) hls).1)
        (fun hg => Or.inr (iterBody_reach (hG hg).2.2.1 dir d0 (hG hg).2.2.2 pr stop _ _ (hszh hg) (hdh hg) hls))
        hf2 hr

/-- "The initial step-size loop was cut short by a stop request": the stop flag was visible at the
    tick at which the initialisation ended (the loop polls the flag first, so it was left through the
    poll and not because the quadratic upper bound was met). -/
def InitInterrupted (P : Problem α) (d0 : D) (pr : Params α) (stop : Nat → Bool) (x0 gV : Vec α)
    (gS iS : α) : Prop :=
  match initState P d0 pr stop x0 gV gS iS with
  | .inl _ => False
  | .inr s => stop s.tick = true

theorem run_callbacks_ok (G : Prop) (n m : Nat) (hval : Vec α → α) (dom : Vec α → Prop) (P : Problem α)
    (dir : Direction D α) (d0 : D) (pr : Params α)
    (hG : G → DescentHyp n m hval dom P dir d0 pr)
    (hp : ParamsOK pr) (stop : Nat → Bool) (oot : Bool) (x0 y Sig errz0 gV : Vec α) (gS iS : α)
    (hx0 : G → x0.length = n)
    (hfuel : (run P dir d0 pr stop oot x0 y Sig errz0 gV gS iS).fuelOut = false) :
    List.IsChain (Consec G pr) (run P dir d0 pr stop oot x0 y Sig errz0 gV gS iS).callbacks ∧
    ∀ cb ∈ (run P dir d0 pr stop oot x0 y Sig errz0 gV gS iS).callbacks,
      CbOK (InitInterrupted P d0 pr stop x0 gV gS iS) pr cb := by
  have hi := initState_inv P d0 pr stop x0 gV gS iS hp
  have hid := initState_d P d0 pr stop x0 gV gS iS
  unfold run at hfuel ⊢
  cases hs : initState P d0 pr stop x0 gV gS iS with
  | inl t => simp
  | inr s =>
    rw [hs] at hi hid
    simp only [hs] at hfuel ⊢
    have hf0 : s.fuelOut = false := by
      rcases Bool.eq_false_or_eq_true s.fuelOut with hc | hc
      · have := mainLoop_fuelOut_mono P dir pr stop oot x0 y Sig errz0 (pr.maxIter + 2) s hc
        rw [this] at hfuel; exact absurd hfuel (by decide)
      · exact hc
    have hsz : G → Sized n m s.curr := fun hg => by
      have := initState_sized (hG hg).2.2.1 d0 pr stop x0 gV gS iS (hx0 hg)
      rw [hs] at this; exact this
    exact mainLoop_callbacks_ok G _ n m hval dom P dir d0 pr hG hp.minLs stop oot x0 y Sig errz0 _ s
      (hi hf0 G _ (fun h => by unfold InitInterrupted; rw [hs]; exact h)) hsz (fun _ => Or.inl hid) hf0 hfuel

/-! ### The property's loop-level clauses, over the callback stream of a solve

Each clause comes in two forms: `…_of_fuel` assumes that the model's explicit fuel did not run out
(`fuelOut = false`, any stop schedule); the main form replaces that by the explicit hypotheses of
`Proofs/PanocFuel.run_fuel_suffices`: a monotone stop flag (`StopMono`, `Props/C19_Panoc`) and
`FuelOK pr n K` (`L_max ≤ L_start·2ⁿ`, `ρᴷ < min_linesearch_coefficient`, `(n+1)(K+1) ≤ lsFuel`). -/

/-- **The reported step size never increases** along the progress callbacks of a solve. -/
theorem gamma_antitone_of_fuel (P : Problem α) (dir : Direction D α) (d0 : D) (pr : Params α)
    (hp : ParamsOK pr) (stop : Nat → Bool) (oot : Bool) (x0 y Sig errz0 gV : Vec α) (gS iS : α)
    (hfuel : (run P dir d0 pr stop oot x0 y Sig errz0 gV gS iS).fuelOut = false) :
    List.IsChain (fun a b : Callback α => b.it.gamma ≤ a.it.gamma)
      (run P dir d0 pr stop oot x0 y Sig errz0 gV gS iS).callbacks :=
  (run_callbacks_ok False 0 0 (fun _ => 0) (fun _ => True) P dir d0 pr (fun h => h.elim) hp stop oot
    x0 y Sig errz0 gV gS iS (fun h => h.elim) hfuel).1.imp (fun _ _ h => h.1)

theorem gamma_antitone (P : Problem α) (dir : Direction D α) (d0 : D) (pr : Params α)
    (hp : ParamsOK pr) (stop : Nat → Bool) (hm : StopMono stop) (nf K : Nat) (hF : FuelOK pr nf K)
    (oot : Bool) (x0 y Sig errz0 gV : Vec α) (gS iS : α) :
    List.IsChain (fun a b : Callback α => b.it.gamma ≤ a.it.gamma)
      (run P dir d0 pr stop oot x0 y Sig errz0 gV gS iS).callbacks :=
  gamma_antitone_of_fuel P dir d0 pr hp stop oot x0 y Sig errz0 gV gS iS
    (run_fuel_suffices P dir d0 pr stop hm nf K hF oot x0 y Sig errz0 gV gS iS)

/-- **`γ·L` of every reported iterate equals `Lγ_factor`** (and `γ, L > 0`): every update is
    `γ/2, L·2`. -/
theorem gammaL_const_of_fuel (P : Problem α) (dir : Direction D α) (d0 : D) (pr : Params α)
    (hp : ParamsOK pr) (stop : Nat → Bool) (oot : Bool) (x0 y Sig errz0 gV : Vec α) (gS iS : α)
    (hfuel : (run P dir d0 pr stop oot x0 y Sig errz0 gV gS iS).fuelOut = false) :
    ∀ cb ∈ (run P dir d0 pr stop oot x0 y Sig errz0 gV gS iS).callbacks,
      cb.it.gamma * cb.it.L = pr.LgammaFactor ∧ 0 < cb.it.gamma ∧ 0 < cb.it.L := fun cb hcb =>
  have h := ((run_callbacks_ok False 0 0 (fun _ => 0) (fun _ => True) P dir d0 pr (fun h => h.elim) hp stop oot
    x0 y Sig errz0 gV gS iS (fun h => h.elim) hfuel).2 cb hcb).gok
  ⟨h.2.2, h.1, h.2.1⟩

theorem gammaL_const (P : Problem α) (dir : Direction D α) (d0 : D) (pr : Params α)
    (hp : ParamsOK pr) (stop : Nat → Bool) (hm : StopMono stop) (nf K : Nat) (hF : FuelOK pr nf K)
    (oot : Bool) (x0 y Sig errz0 gV : Vec α) (gS iS : α) :
    ∀ cb ∈ (run P dir d0 pr stop oot x0 y Sig errz0 gV gS iS).callbacks,
      cb.it.gamma * cb.it.L = pr.LgammaFactor ∧ 0 < cb.it.gamma ∧ 0 < cb.it.L :=
  gammaL_const_of_fuel P dir d0 pr hp stop oot x0 y Sig errz0 gV gS iS
    (run_fuel_suffices P dir d0 pr stop hm nf K hF oot x0 y Sig errz0 gV gS iS)

/-- **Every iterate handed to the callback satisfies the quadratic upper bound unless `L ≥ L_max`**
    (`recompute_last_prox_step_after_stepsize_change = false`; with that option the rewritten
    iterate is reported without ever being tested — see the header).  One exception, since the
    initial step-size loop polls the stop flag (C19): when that loop was cut short by a stop request
    (`InitInterrupted`), the *initial* iterate (reported with `k = 0`) was never brought to satisfy
    the bound; with a monotone flag that solve ends at its first loop head
    (`Props/C19_Panoc.init_interrupted_single_callback`). -/
theorem reported_iterate_qub_run_of_fuel (P : Problem α) (dir : Direction D α) (d0 : D) (pr : Params α)
    (hp : ParamsOK pr) (hrec : pr.recomputeLastProx = false) (stop : Nat → Bool) (oot : Bool)
    (x0 y Sig errz0 gV : Vec α) (gS iS : α)
    (hfuel : (run P dir d0 pr stop oot x0 y Sig errz0 gV gS iS).fuelOut = false) :
    ∀ cb ∈ (run P dir d0 pr stop oot x0 y Sig errz0 gV gS iS).callbacks,
      cb.it.psixhat ≤ cb.it.psix + cb.it.gradPsiTp + cb.it.L / 2 * cb.it.pTp +
          (1 + |cb.it.psix|) * pr.qubTol ∨ pr.Lmax ≤ cb.it.L ∨
      (InitInterrupted P d0 pr stop x0 gV gS iS ∧ cb.k = 0) := fun cb hcb => by
  have h := ((run_callbacks_ok False 0 0 (fun _ => 0) (fun _ => True) P dir d0 pr (fun h => h.elim) hp stop oot
    x0 y Sig errz0 gV gS iS (fun h => h.elim) hfuel).2 cb hcb).qub hrec
  rcases h with (h | h) | h
  · left; exact qub_accept _ _ _ _ _ _ h
  · right; left; exact h
  · right; right; exact h

theorem reported_iterate_qub_run (P : Problem α) (dir : Direction D α) (d0 : D) (pr : Params α)
    (hp : ParamsOK pr) (hrec : pr.recomputeLastProx = false) (stop : Nat → Bool)
    (hm : StopMono stop) (nf K : Nat) (hF : FuelOK pr nf K) (oot : Bool)
    (x0 y Sig errz0 gV : Vec α) (gS iS : α) :
    ∀ cb ∈ (run P dir d0 pr stop oot x0 y Sig errz0 gV gS iS).callbacks,
      cb.it.psixhat ≤ cb.it.psix + cb.it.gradPsiTp + cb.it.L / 2 * cb.it.pTp +
          (1 + |cb.it.psix|) * pr.qubTol ∨ pr.Lmax ≤ cb.it.L ∨
      (InitInterrupted P d0 pr stop x0 gV gS iS ∧ cb.k = 0) :=
  reported_iterate_qub_run_of_fuel P dir d0 pr hp hrec stop oot x0 y Sig errz0 gV gS iS
    (run_fuel_suffices P dir d0 pr stop hm nf K hF oot x0 y Sig errz0 gV gS iS)

/-- If no stop request was visible when the initialisation ended, every reported iterate satisfies the
    quadratic upper bound unless `L ≥ L_max` — the statement as it was before the initial loop
    polled the flag. -/
theorem reported_iterate_qub_run_uninterrupted (P : Problem α) (dir : Direction D α) (d0 : D)
    (pr : Params α) (hp : ParamsOK pr) (hrec : pr.recomputeLastProx = false) (stop : Nat → Bool)
    (hm : StopMono stop) (nf K : Nat) (hF : FuelOK pr nf K)
    (oot : Bool) (x0 y Sig errz0 gV : Vec α) (gS iS : α)
    (hni : ¬ InitInterrupted P d0 pr stop x0 gV gS iS) :
    ∀ cb ∈ (run P dir d0 pr stop oot x0 y Sig errz0 gV gS iS).callbacks,
      cb.it.psixhat ≤ cb.it.psix + cb.it.gradPsiTp + cb.it.L / 2 * cb.it.pTp +
          (1 + |cb.it.psix|) * pr.qubTol ∨ pr.Lmax ≤ cb.it.L := fun cb hcb => by
  rcases reported_iterate_qub_run P dir d0 pr hp hrec stop hm nf K hF oot x0 y Sig errz0 gV gS iS cb hcb
    with h | h | h
  · exact Or.inl h
  · exact Or.inr h
  · exact absurd h.1 hni

/-- **Descent between consecutive callbacks `k`, `k+1` of a solve**: with
    `cₖ = (1−γₖLₖ)/(2γₖ)` from the fields reported at `k`,
    * `τₖ > 0` (accelerated step, line search not forced):
      `φₖ₊₁ ≤ φₖ − β·cₖ‖pₖ‖² + (1+|φₖ|)·ls_tol`;
    * `τₖ = 0` (safeguarded step) and the reported iterate passed the quadratic upper bound test:
      `φₖ₊₁ ≤ φₖ − cₖ‖pₖ‖² + (1+|ψₖ|)·qub_tol`;
    for `recompute_last_prox_step_after_stepsize_change = false`, a prox oracle meeting the sized
    contract `ProxSpec n`, size contracts of the other oracles and of the direction provider, and a
    start of size `n`.  (Every `Busy` callback has `τ ≥ 0`, `CbOK.tau`.) -/
theorem accepted_step_descent_loop_of_fuel {n m : Nat} (hval : Vec α → α) (dom : Vec α → Prop)
    (P : Problem α) (hP : ProxSpec n hval dom P) (hPs : ProblemSized n m P)
    (dir : Direction D α) (d0 : D) (hD : DirSized n dir d0) (pr : Params α)
    (hp : ParamsOK pr) (hrec : pr.recomputeLastProx = false) (stop : Nat → Bool) (oot : Bool)
    (x0 y Sig errz0 gV : Vec α) (gS iS : α) (hx0 : x0.length = n)
    (hfuel : (run P dir d0 pr stop oot x0 y Sig errz0 gV gS iS).fuelOut = false) :
    List.IsChain (fun a b : Callback α => DescTo pr a b.fbe)
      (run P dir d0 pr stop oot x0 y Sig errz0 gV gS iS).callbacks ∧
    ∀ cb ∈ (run P dir d0 pr stop oot x0 y Sig errz0 gV gS iS).callbacks,
      cb.fbe = cb.it.fbe ∧ (cb.status = .Busy → 0 ≤ cb.tau) := by
  have h := run_callbacks_ok True n m hval dom P dir d0 pr (fun _ => ⟨hrec, hP, hPs, hD⟩) hp stop oot
    x0 y Sig errz0 gV gS iS (fun _ => hx0) hfuel
  exact ⟨h.1.imp (fun _ _ hc => hc.2 trivial), fun cb hcb => ⟨(h.2 cb hcb).fbe, (h.2 cb hcb).tau⟩⟩

theorem accepted_step_descent_loop {n m : Nat} (hval : Vec α → α) (dom : Vec α → Prop)
    (P : Problem α) (hP : ProxSpec n hval dom P) (hPs : ProblemSized n m P)
    (dir : Direction D α) (d0 : D) (hD : DirSized n dir d0) (pr : Params α)
    (hp : ParamsOK pr) (hrec : pr.recomputeLastProx = false) (stop : Nat → Bool)
    (hm : StopMono stop) (nf K : Nat) (hF : FuelOK pr nf K) (oot : Bool)
    (x0 y Sig errz0 gV : Vec α) (gS iS : α) (hx0 : x0.length = n) :
    List.IsChain (fun a b : Callback α => DescTo pr a b.fbe)
      (run P dir d0 pr stop oot x0 y Sig errz0 gV gS iS).callbacks ∧
    ∀ cb ∈ (run P dir d0 pr stop oot x0 y Sig errz0 gV gS iS).callbacks,
      cb.fbe = cb.it.fbe ∧ (cb.status = .Busy → 0 ≤ cb.tau) :=
  accepted_step_descent_loop_of_fuel hval dom P hP hPs dir d0 hD pr hp hrec stop oot
    x0 y Sig errz0 gV gS iS hx0
    (run_fuel_suffices P dir d0 pr stop hm nf K hF oot x0 y Sig errz0 gV gS iS)

/-! ### The box / box+ℓ1 problem class: no prox hypothesis left -/

/-- Size contract of the smooth oracles (what remains to be assumed of a problem whose prox step is
    the shipped one). -/
structure SmoothSized (n m : Nat) (P : Problem α) : Prop where
  pgp_grad : ∀ x, x.length = n → (P.psiGradPsi x).2.1.length = n
  pgp_work : ∀ x, x.length = n → (P.psiGradPsi x).2.2.length = m
  psi_yhat : ∀ x, x.length = n → (P.psi x).2.length = m
  gradPsi : ∀ x, x.length = n → (P.gradPsi x).length = n
  gradL : ∀ x y, x.length = n → y.length = m → (P.gradL x y).length = n

theorem problemSized_of_box {n m : Nat} (l1 lb ub : Vec α) (P : Problem α) (hS : SmoothSized n m P)
    (hprox : ∀ γ x g, P.prox γ x g = Alpaqa.C15.proxGradStep l1 γ x g lb ub) : ProblemSized n m P :=
  ⟨hS.pgp_grad, hS.pgp_work, hS.psi_yhat, hS.gradPsi, hS.gradL,
    fun γ x g hx _ => by rw [hprox, Alpaqa.Props.C15.proxGradStep_xhat_length, hx],
    fun γ x g hx _ => by rw [hprox, proxGradStep_p_length, hx]⟩

/-- **Descent along the reported iterates for the box / box+ℓ1 problem class**
    (`BoxConstrProblem::eval_prox_grad_step`): `accepted_step_descent_loop` with the prox contract
    discharged by `proxSpec_box` — what is left are the data conditions of the box (`BoxData`), the
    sizes of the smooth oracles' outputs and of the provider's `q`, and the parameter conditions. -/
theorem accepted_step_descent_loop_box {n m : Nat} (l1 lb ub : Vec α) (hB : BoxData n l1 lb ub)
    (P : Problem α) (hprox : ∀ γ x g, P.prox γ x g = Alpaqa.C15.proxGradStep l1 γ x g lb ub)
    (hS : SmoothSized n m P) (dir : Direction D α) (d0 : D) (hD : DirSized n dir d0) (pr : Params α)
    (hp : ParamsOK pr) (hrec : pr.recomputeLastProx = false) (stop : Nat → Bool)
    (hm : StopMono stop) (nf K : Nat) (hF : FuelOK pr nf K) (oot : Bool)
    (x0 y Sig errz0 gV : Vec α) (gS iS : α) (hx0 : x0.length = n) :
    List.IsChain (fun a b : Callback α => DescTo pr a b.fbe)
      (run P dir d0 pr stop oot x0 y Sig errz0 gV gS iS).callbacks ∧
    ∀ cb ∈ (run P dir d0 pr stop oot x0 y Sig errz0 gV gS iS).callbacks,
      cb.fbe = cb.it.fbe ∧ (cb.status = .Busy → 0 ≤ cb.tau) :=
  accepted_step_descent_loop (hvalL1 l1 n) (domBox n lb ub) P (proxSpec_box n l1 lb ub hB P hprox)
    (problemSized_of_box l1 lb ub P hS hprox) dir d0 hD pr hp hrec stop hm nf K hF oot
    x0 y Sig errz0 gV gS iS hx0

/-! ### Non-vacuity -/

section examples
open Alpaqa.Panoc.Example

/-- accepted tests on concrete numbers -/
example : panoc_qubViolated (0 : ℚ) (1/2) (1/8) (-1/2) 2 (1/4) = false := by decide +kernel
example : panoc_linesearchViolated false (19/20 : ℚ) 0 (1/2) 0 (1/4) (1/4) (-1/2) 2
    (1/16) 0 (1/64) (1/4) (-1/16) = false := by decide +kernel

/-- the prox contract holds for a concrete box step (`x = 1`, `∇ψ = 4`, `γ = ½`, box `[0,3]`:
    `x̂ = 0`, `p = −1`), by the componentwise lemma from `Props/C15`. -/
example : ProxOpt (fun _ => (0 : ℚ)) (fun u => ∃ a, u = [a] ∧ 0 ≤ a ∧ a ≤ 3) (1/2) [1] [4]
    (0, [(projGradStepBox (1/2 : ℚ) 1 4 0 3).2], [(projGradStepBox (1/2 : ℚ) 1 4 0 3).1]) := by
  have hc := fun u h0 h3 => proxOpt_component_box (1/2 : ℚ) 1 4 0 3 (by norm_num) (by norm_num) u h0 h3
  refine ⟨?_, rfl, ⟨_, rfl, (hc 0 (by norm_num) (by norm_num)).2.1, (hc 0 (by norm_num) (by norm_num)).2.2.1⟩, ?_⟩
  · have := (hc 0 (by norm_num) (by norm_num)).1
    simp only [vsub, vzip, List.zipWith_cons_cons, List.zipWith_nil_right]
    rw [this]; ring_nf
  · rintro u ⟨a, rfl, h0, h3⟩ _
    have h := (hc a h0 h3)
    have e := h.1
    simp only [sqNorm, dot, vsum, redux, vmul, vsub, vzip, List.zipWith_cons_cons, List.zipWith_nil_right,
      List.map_cons, List.map_nil, List.foldl_nil, zero_add]
    rw [e]
    have h4 := h.2.2.2
    have e2 : (1 + (projGradStepBox (1/2 : ℚ) 1 4 0 3).1 - 1) = (projGradStepBox (1/2 : ℚ) 1 4 0 3).1 := by ring
    rw [e2]
    nlinarith [h4]

theorem stopAt_mono (t0 : Option Nat) : StopMono (stopAt t0) := by
  intro s t h hs
  cases t0 with
  | none => simp [stopAt] at hs
  | some t0 => simp only [stopAt, decide_eq_true_eq] at *; omega

/-- the data of the example box `[-10, 10]` (no ℓ1 term), dimension 1 -/
theorem boxData_ex : BoxData 1 ([] : Vec ℚ) [-10] [10] := by
  refine ⟨?_, ?_, Or.inl (by simp)⟩
  · intro i hi; have : i = 0 := by omega
    subst this; norm_num [vget]
  · intro i _; simp [Alpaqa.Props.C15.lamAt]

/-- **the sized prox contract holds for the shipped box step** (dimension 1), with no hypothesis left -/
example : ProxSpec 1 (hvalL1 ([] : Vec ℚ) 1) (domBox 1 [-10] [10]) Pbox :=
  proxSpec_box 1 [] [-10] [10] boxData_ex Pbox (fun _ _ _ => rfl)

/-- … and for a box+ℓ1 step of dimension 2 (`λ = ½`, box `[0,3] × [-1,1]`), for every problem using it -/
example (P : Problem ℚ) (h : ∀ γ x g, P.prox γ x g = Alpaqa.C15.proxGradStep [1/2] γ x g [0, -1] [3, 1]) :
    ProxSpec 2 (hvalL1 [1/2] 2) (domBox 2 [0, -1] [3, 1]) P := by
  refine proxSpec_box 2 [1/2] [0, -1] [3, 1] ⟨?_, ?_, Or.inl (by simp)⟩ P h
  · intro i hi
    have : i = 0 ∨ i = 1 := by omega
    rcases this with rfl | rfl <;> norm_num [vget]
  · intro i _; norm_num [Alpaqa.Props.C15.lamAt, vget]

theorem paramsOK_prq : ParamsOK prq :=
  ⟨by norm_num [prq], by norm_num [prq], by norm_num [prq], by norm_num [prq]⟩

/-- the fuel hypotheses hold for the example parameters: `L_max = 4 ≤ L₀·2¹`, `(½)⁹ < 1/256`,
    `(1+1)(9+1) = 20 ≤ lsFuel = 70` -/
theorem fuelOK_prq : FuelOK prq 1 9 := by
  refine ⟨?_, ?_, ?_, ?_, ?_, by norm_num, ?_, ?_⟩ <;> norm_num [prq, Lstart]

theorem problemSized_Pbox : ProblemSized 1 0 Pbox := by
  refine ⟨fun x h => h, fun _ _ => rfl, fun _ _ => rfl, fun x h => h, fun x _ h _ => h, ?_, ?_⟩
  · intro γ x g hx _
    show (Alpaqa.C15.proxGradStep [] γ x g [-10] [10]).2.1.length = 1
    rw [Alpaqa.Props.C15.proxGradStep_xhat_length, hx]
  · intro γ x g hx _
    show (Alpaqa.C15.proxGradStep [] γ x g [-10] [10]).2.2.length = 1
    rw [proxGradStep_p_length, hx]

theorem dirSized_newton (d0 : Unit) : DirSized 1 dirNewton d0 := by
  apply DirSized.of_all
  intro d γ x xh p g q _ _ _ hg _
  show (vneg g).length = 1
  simp [vneg, hg]

theorem dirSized_noop (n : Nat) (d0 : Unit) : DirSized n dirNoop d0 := by
  apply DirSized.of_all
  intro d γ x xh p g q _ _ _ _ h
  exact absurd h (by simp [dirNoop])

/-- the concrete run with the no-op provider: three callbacks, step size constant `19/40`,
    `γ·L = 19/20`, both steps safeguarded (`τ = 0`) with strictly decreasing envelope
    `21/80 > 9261/128000 > …` -/
example : (rq none).fuelOut = false ∧
    (rq none).callbacks.map (fun c => (c.k, c.it.gamma, c.it.L, c.tau)) =
      [(0, 19/40, 2, 0), (1, 19/40, 2, 0), (2, 19/40, 2, -1)] ∧
    (rq none).callbacks.map (·.fbe) = [21/80, 9261/128000, 4084101/204800000] := by
  decide +kernel

/-- `gamma_antitone` with *all* its hypotheses discharged (no fuel assumption) -/
example : List.IsChain (fun a b : Callback ℚ => b.it.gamma ≤ a.it.gamma) (rq none).callbacks :=
  gamma_antitone Pq dirNoop () prq paramsOK_prq (stopAt none) (stopAt_mono none) 1 9 fuelOK_prq
    false [1] [] [] [] [] 0 0

/-- `gammaL_const` and `reported_iterate_qub_run` on the Newton run, every hypothesis discharged -/
example : ∀ cb ∈ (rn none).callbacks,
    cb.it.gamma * cb.it.L = prq.LgammaFactor ∧ 0 < cb.it.gamma ∧ 0 < cb.it.L :=
  gammaL_const Pbox dirNewton () prq paramsOK_prq (stopAt none) (stopAt_mono none) 1 9 fuelOK_prq
    false [1] [] [] [] [] 0 0

example : ∀ cb ∈ (rn none).callbacks,
    cb.it.psixhat ≤ cb.it.psix + cb.it.gradPsiTp + cb.it.L / 2 * cb.it.pTp +
        (1 + |cb.it.psix|) * prq.qubTol ∨ prq.Lmax ≤ cb.it.L ∨
    (InitInterrupted Pbox () prq (stopAt none) [1] [] 0 0 ∧ cb.k = 0) :=
  reported_iterate_qub_run Pbox dirNewton () prq paramsOK_prq rfl (stopAt none) (stopAt_mono none) 1 9
    fuelOK_prq false [1] [] [] [] [] 0 0

/-- **an accepted accelerated step at loop level**: the box problem with the Newton provider —
    iteration 0 accepts `τ = 1` (envelope `21/80 → 0`), the next head converges -/
example : (rn none).stats.status = .Converged ∧ (rn none).stats.iterations = 1 ∧
    (rn none).callbacks.map (fun c => (c.k, c.tau, c.fbe, c.it.gamma, c.it.L, c.it.pTp)) =
      [(0, 1, 21/80, 19/40, 2, 361/1600), (1, -1, 0, 19/40, 2, 0)] := by decide +kernel

/-- `accepted_step_descent_loop` on that run, every hypothesis discharged: the prox contract by
    `proxSpec_box` (from `Props/C15`), the size contracts, the parameter and fuel conditions -/
example : List.IsChain (fun a b : Callback ℚ => DescTo prq a b.fbe) (rn none).callbacks :=
  (accepted_step_descent_loop (n := 1) (m := 0) (hvalL1 [] 1) (domBox 1 [-10] [10]) Pbox
    (proxSpec_box 1 [] [-10] [10] boxData_ex Pbox (fun _ _ _ => rfl)) problemSized_Pbox
    dirNewton () (dirSized_newton ()) prq paramsOK_prq rfl (stopAt none) (stopAt_mono none) 1 9 fuelOK_prq
    false [1] [] [] [] [] 0 0 rfl).1

/-- the same through `accepted_step_descent_loop_box` (only data / size conditions to supply) -/
example : List.IsChain (fun a b : Callback ℚ => DescTo prq a b.fbe) (rn none).callbacks :=
  (accepted_step_descent_loop_box (n := 1) (m := 0) [] [-10] [10] boxData_ex Pbox (fun _ _ _ => rfl)
    ⟨fun x h => h, fun _ _ => rfl, fun _ _ => rfl, fun x h => h, fun x _ h _ => h⟩
    dirNewton () (dirSized_newton ()) prq paramsOK_prq rfl (stopAt none) (stopAt_mono none) 1 9 fuelOK_prq
    false [1] [] [] [] [] 0 0 rfl).1

/-- … whose first link is the accelerated clause (`τ₀ = 1 > 0`):
    `φ₁ = 0 ≤ φ₀ − β(1−γL)/(2γ)·‖p₀‖² = 21/80 − 361/32000` -/
example : ∀ a b, (rn none).callbacks = [a, b] →
    b.fbe ≤ a.fbe - prq.lsStrictness * (1 - a.it.gamma * a.it.L) / (2 * a.it.gamma) * a.it.pTp +
      (1 + |a.fbe|) * prq.lsTol := by
  intro a b hab
  have h := (accepted_step_descent_loop (n := 1) (m := 0) (hvalL1 [] 1) (domBox 1 [-10] [10]) Pbox
    (proxSpec_box 1 [] [-10] [10] boxData_ex Pbox (fun _ _ _ => rfl)) problemSized_Pbox
    dirNewton () (dirSized_newton ()) prq paramsOK_prq rfl (stopAt none) (stopAt_mono none) 1 9 fuelOK_prq
    false [1] [] [] [] [] 0 0 rfl).1
  have hr : run Pbox dirNewton () prq (stopAt none) false [1] [] [] [] [] 0 0 = rn none := rfl
  rw [hr, hab] at h
  have h1 := (List.isChain_cons_cons.mp h).1
  have hτ : a.tau = 1 := by
    have : ((rn none).callbacks.map (·.tau)) = [1, -1] := by decide +kernel
    rw [hab] at this; simpa using (List.cons.inj this).1
  exact h1.1 (by rw [hτ]; norm_num) rfl

end examples

end Alpaqa.Props.C05
