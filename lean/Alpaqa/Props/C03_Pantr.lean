/-
  C03 (PANTR) — Written-back x, y and slack error are feasible, finite and mutually consistent.

  Theorems about the PANTR loop model (`Alpaqa/Model/Pantr.lean`, tied to pantr.tpp by bit-exact
  trace replay — `checks/loop_pantr.py` — and, for its decision kernels, by the translator).  They
  hold for *every* problem oracle, trust-region direction provider (any state machine: steps outside
  the region, ascent steps, non-negative / NaN model values, NaN steps, rejected updates), stop
  schedule (`stop : Nat → Bool`, any function of the number of events so far), time-limit oracle,
  iteration budget (0 included), both values of `always_overwrite_results`, every PANTR parameter
  (`compute_ratio_using_new_stepsize`, `update_direction_on_prox_step`,
  `recompute_last_prox_step_after_direction_reset`, `disable_acceleration`, …), every exit status,
  and over *any* carrier (IEEE doubles included): they are structural facts about which oracle
  answer ends up in which output.

  `fuelOut = false` says that no `backtrack_qub` loop of the *model* ran out of its fuel
  (`Params.qubFuel`); the C++ loop has no fuel and ends because `L` doubles up to `L_max`
  (`Props/C19_Pantr.backtrack_passes_bounded`).  Replay asserts the flag is never set.
-/
import Alpaqa.Proofs.PantrInv
import Alpaqa.Proofs.PantrExample

namespace Alpaqa.Props.C03_Pantr
open Alpaqa Alpaqa.Pantr Alpaqa.Gen
set_option linter.unusedSectionVars false

variable {α D : Type} [Add α] [Sub α] [Mul α] [Div α] [Neg α] [LT α] [LE α] [DecidableLT α]
  [DecidableLE α] [BEq α] [RealLike α] [NatCast α] [OfScientific α]
  [OfNat α 0] [OfNat α 1] [OfNat α 2] [OfNat α 100]

/-- **Exit contract of `PANTRSolver::operator()`.**  Whenever the outputs are overwritten:
    `x_out` is the `x̂` of a proximal-gradient step (hence in `C` for any prox that maps into `C`),
    `y_out` is the ψ-oracle's `ŷ` *at that very `x_out`*, and `err_z = (y_out − y_in)/Σ`.
    Otherwise `x`, `y`, `err_z` are the caller's values, untouched. -/
theorem pantr_exit_contract (co : Consts α) (P : Problem α) (dir : Direction D α) (d0 : D)
    (pr : Params α) (stop : Nat → Bool) (oot : Bool) (x0 y Sig errz0 gV : Vec α)
    (hfuel : (run co P dir d0 pr stop oot x0 y Sig errz0 gV).fuelOut = false) :
    ExitOK P x0 y Sig errz0 (run co P dir d0 pr stop oot x0 y Sig errz0 gV) := by
  unfold run at hfuel ⊢
  cases hi : initState co P d0 pr stop x0 gV with
  | inl t =>
    simp only [hi] at hfuel ⊢
    exact ⟨fun h => absurd h (by simp), fun _ => ⟨rfl, rfl, rfl⟩⟩
  | inr s =>
    simp only [hi] at hfuel ⊢
    exact mainLoop_ok co P dir pr stop oot x0 y Sig errz0 _ s (initState_good co P d0 pr stop x0 gV s hi).1 hfuel

/-- When are the outputs overwritten: exactly on `Converged`, `Interrupted`, or with
    `always_overwrite_results` — and never on the early `NotFinite` return (non-finite Lipschitz
    estimate), which happens before any iterate exists. -/
theorem pantr_wrote_iff (co : Consts α) (P : Problem α) (dir : Direction D α) (d0 : D)
    (pr : Params α) (stop : Nat → Bool) (oot : Bool) (x0 y Sig errz0 gV : Vec α) :
    (run co P dir d0 pr stop oot x0 y Sig errz0 gV).wrote =
      ((run co P dir d0 pr stop oot x0 y Sig errz0 gV).final.isSome &&
        ((run co P dir d0 pr stop oot x0 y Sig errz0 gV).stats.status == .Converged ||
         (run co P dir d0 pr stop oot x0 y Sig errz0 gV).stats.status == .Interrupted ||
         pr.alwaysOverwrite)) := by
  unfold run
  cases hi : initState co P d0 pr stop x0 gV with
  | inl t => simp
  | inr s =>
    simp only []
    obtain ⟨s', -, -, -, -, he⟩ := mainLoop_exit_at_head co P dir pr stop oot x0 y Sig errz0
      (pr.maxIter + 1) s (by rw [(initState_good co P d0 pr stop x0 gV s hi).2.2.1]; omega) (by omega)
      (initState_good co P d0 pr stop x0 gV s hi).1
    rw [he]
    have hf := exitBlock_fields co pr (headStep P pr stop oot s').1 (headStep P pr stop oot s').2.1
      (headStep P pr stop oot s').2.2 x0 y Sig errz0
    rw [hf.1, hf.2.1, hf.2.2.2.2.1]; simp

/-- Feasibility: if the problem's prox step maps into `C` (proved for the shipped box / box+ℓ1 /
    unconstrained steps in `Props/C15`), the written-back `x` is in `C`. -/
theorem pantr_x_out_feasible (InC : Vec α → Prop) (P : Problem α)
    (hP : ∀ γ x g, InC (P.prox γ x g).2.1) (co : Consts α) (dir : Direction D α) (d0 : D)
    (pr : Params α) (stop : Nat → Bool) (oot : Bool) (x0 y Sig errz0 gV : Vec α)
    (hfuel : (run co P dir d0 pr stop oot x0 y Sig errz0 gV).fuelOut = false)
    (hw : (run co P dir d0 pr stop oot x0 y Sig errz0 gV).wrote = true) :
    InC (run co P dir d0 pr stop oot x0 y Sig errz0 gV).x := by
  obtain ⟨⟨γ, x, g, hx⟩, _, _⟩ :=
    (pantr_exit_contract co P dir d0 pr stop oot x0 y Sig errz0 gV hfuel).1 hw
  rw [hx]; exact hP γ x g

/-- Consistency: `y_out = ŷ(x_out)` and `err_z = (y_out − y_in)/Σ`, i.e. `y_out = y_in + Σ·err_z`
    componentwise whenever `Σ_i ≠ 0` (stated in the division form the code computes). -/
theorem pantr_y_errz_consistent (co : Consts α) (P : Problem α) (dir : Direction D α) (d0 : D)
    (pr : Params α) (stop : Nat → Bool) (oot : Bool) (x0 y Sig errz0 gV : Vec α)
    (hfuel : (run co P dir d0 pr stop oot x0 y Sig errz0 gV).fuelOut = false)
    (hw : (run co P dir d0 pr stop oot x0 y Sig errz0 gV).wrote = true) :
    (run co P dir d0 pr stop oot x0 y Sig errz0 gV).y
        = (P.psi (run co P dir d0 pr stop oot x0 y Sig errz0 gV).x).2 ∧
    (errz0.length > 0 → (run co P dir d0 pr stop oot x0 y Sig errz0 gV).errz
        = vdiv (vsub (run co P dir d0 pr stop oot x0 y Sig errz0 gV).y y) Sig) := by
  obtain ⟨_, hy, he⟩ := (pantr_exit_contract co P dir d0 pr stop oot x0 y Sig errz0 gV hfuel).1 hw
  exact ⟨hy, fun h => by rw [he, if_pos h]⟩

/-- With `always_overwrite_results` disabled and an exit that is neither Converged nor
    Interrupted, `x`, `y` (and `err_z`) are left untouched. -/
theorem pantr_untouched (co : Consts α) (P : Problem α) (dir : Direction D α) (d0 : D)
    (pr : Params α) (stop : Nat → Bool) (oot : Bool) (x0 y Sig errz0 gV : Vec α)
    (hfuel : (run co P dir d0 pr stop oot x0 y Sig errz0 gV).fuelOut = false)
    (hw : (run co P dir d0 pr stop oot x0 y Sig errz0 gV).wrote = false) :
    (run co P dir d0 pr stop oot x0 y Sig errz0 gV).x = x0 ∧
    (run co P dir d0 pr stop oot x0 y Sig errz0 gV).y = y ∧
    (run co P dir d0 pr stop oot x0 y Sig errz0 gV).errz = errz0 :=
  (pantr_exit_contract co P dir d0 pr stop oot x0 y Sig errz0 gV hfuel).2 hw

/-- Every iterate ever handed to the progress callback — not only the returned one — carries a
    consistent prox step and ŷ: `x̂`, `p`, `h(x̂)` are the prox oracle's answer at the iterate's own
    `(γ, x, ∇ψ(x))`, and `ψ(x̂)`, `ŷ` the ψ oracle's answer at that `x̂`. -/
theorem pantr_reported_iterates_consistent (co : Consts α) (P : Problem α) (dir : Direction D α)
    (d0 : D) (pr : Params α) (stop : Nat → Bool) (oot : Bool) (x0 y Sig errz0 gV : Vec α)
    (hfuel : (run co P dir d0 pr stop oot x0 y Sig errz0 gV).fuelOut = false) :
    ∀ cb ∈ (run co P dir d0 pr stop oot x0 y Sig errz0 gV).callbacks, Good P cb.it := by
  unfold run at hfuel ⊢
  cases hi : initState co P d0 pr stop x0 gV with
  | inl t => simp
  | inr s =>
    simp only [hi] at hfuel ⊢
    have hs := initState_good co P d0 pr stop x0 gV s hi
    have hc : s.cbs = [] := hs.2.2.2
    intro cb hmem
    exact mainLoop_callbacks_good co P dir pr stop oot x0 y Sig errz0 _ s hs.1
      (by rw [hc]; simp) hfuel cb hmem

/-! ### Non-vacuity (closed instance `Proofs/PantrExample.lean`; the replay driver exercises the same
    hypotheses on every recorded run of the real solver) -/
section examples
open Alpaqa.Pantr.Example

/-- an accepted trust-region step, `Converged` at `k = 1`: outputs overwritten with `x̂ = 1 ∈ C` -/
example : (solve 3 false (-1) 0).wrote = true ∧ (solve 3 false (-1) 0).fuelOut = false ∧
    (solve 3 false (-1) 0).stats.status = .Converged ∧ (solve 3 false (-1) 0).x = [1] := by decide
/-- stop request visible at the first head: `Interrupted`, outputs overwritten with `x̂₀` -/
example : (solve 3 false (-1) 1).wrote = true ∧ (solve 3 false (-1) 1).stats.status = .Interrupted ∧
    (solve 3 false (-1) 1).stats.iterations = 0 ∧ (solve 3 false (-1) 1).fuelOut = false := by decide
/-- `max_iter = 0` without `always_overwrite_results`: `MaxIter`, outputs untouched -/
example : (solve 0 false (-1) 0).wrote = false ∧ (solve 0 false (-1) 0).stats.status = .MaxIter ∧
    (solve 0 false (-1) 0).x = [5] := by decide
/-- … and with `always_overwrite_results`: overwritten -/
example : (solve 0 true (-1) 0).wrote = true ∧ (solve 0 true (-1) 0).x = [1] := by decide
/-- a provider returning a positive model value: the forward-backward step is taken instead -/
example : (solve 3 false 1 0).wrote = true ∧ (solve 3 false 1 0).stats.directionFailures = 1 ∧
    (solve 3 false 1 0).stats.acceleratedStepRejected = 1 := by decide

end examples

end Alpaqa.Props.C03_Pantr
