/-
  C03 (PANTR) — Written-back x, y and slack error are feasible, finite and mutually consistent.

  Theorems about the PANTR loop model (`Alpaqa/Model/Pantr.lean`, tied to pantr.tpp by bit-exact
  trace replay — `checks/loop_pantr.py` — and, for its decision kernels, by the translator).  They
  hold for *every* problem oracle, trust-region direction provider (any state machine: steps outside
  the region, ascent steps, non-negative / NaN model values, NaN steps, rejected updates), stop
  schedule (`stop : Nat → Bool`, any function of the number of events so far), time-limit oracle,
  iteration budget (0 included), both values of `always_overwrite_results`, every PANTR parameter
  (`compute_ratio_using_new_stepsize`, `update_direction_on_prox_step`,
  `recompute_last_prox_step_after_direction_reset`, `disable_acceleration`, …), every exit status,
  and over *any* carrier (IEEE doubles included): they are structural facts about which oracle
  answer ends up in which output.

  Fuel.  pantr.tpp has one inner loop, `backtrack_qub` (no retry loop inside an iteration, the main
  loop never `continue`s).  The model gives it the explicit fuel `Params.qubFuel`; `fuelOut = false`
  says that no `backtrack_qub` of the *model* ran out of it.  The main loop's own fuel `max_iter + 1`
  suffices unconditionally (`mainLoop_exit_at_head`: every return is a head exit; used by
  `pantr_wrote_iff`, which carries no fuel hypothesis).
  * Over an ordered field `fuelOut = false` is PROVED for every stop schedule from the parameter
    bundle `FuelOK pr N` (`0 < L_min`, `0 < L_max`, `L_max ≤ L_init·2ᴺ`, `N < qubFuel`;
    `Proofs/PantrFuel.lean: pantr_fuel_suffices`): the theorems with the plain names take `FuelOK`.
  * The `…_fuel` forms take `fuelOut = false` as a hypothesis instead and hold over any carrier, IEEE
    doubles included; the replay asserts `fuelOut = false` on every recorded run (the driver prints
    `FUEL-EXHAUSTED` otherwise; it runs with `qubFuel = 4096`, and the worst parameters the check
    draws, `L_min = 1e-5`, `L_max = 1e20`, need `N = 84`: see the example at the end).
-/
import Alpaqa.Proofs.PantrInv
import Alpaqa.Proofs.PantrFuel
import Alpaqa.Proofs.PantrExample
import Alpaqa.Proofs.PantrExampleQ

namespace Alpaqa.Props.C03_Pantr
open Alpaqa Alpaqa.Pantr Alpaqa.Gen
set_option linter.unusedSectionVars false

section structural
variable {α D : Type} [Add α] [Sub α] [Mul α] [Div α] [Neg α] [LT α] [LE α] [DecidableLT α]
  [DecidableLE α] [BEq α] [RealLike α] [NatCast α] [OfScientific α]
  [OfNat α 0] [OfNat α 1] [OfNat α 2] [OfNat α 100]

/-- Any carrier, IEEE doubles included; the replay asserts `fuelOut = false` on every recorded run.

    **Exit contract of `PANTRSolver::operator()`.**  Whenever the outputs are overwritten:
    `x_out` is the `x̂` of a proximal-gradient step (hence in `C` for any prox that maps into `C`),
    `y_out` is the ψ-oracle's `ŷ` *at that very `x_out`*, and `err_z = (y_out − y_in)/Σ`.
    Otherwise `x`, `y`, `err_z` are the caller's values, untouched. -/
theorem pantr_exit_contract_fuel (co : Consts α) (P : Problem α) (dir : Direction D α) (d0 : D)
    (pr : Params α) (stop : Nat → Bool) (oot : Bool) (x0 y Sig errz0 gV : Vec α)
    (hfuel : (run co P dir d0 pr stop oot x0 y Sig errz0 gV).fuelOut = false) :
    ExitOK P x0 y Sig errz0 (run co P dir d0 pr stop oot x0 y Sig errz0 gV) := by
  unfold run at hfuel ⊢
  cases hi : initState co P d0 pr stop x0 gV with
  | inl t =>
    simp only [hi] at hfuel ⊢
    exact ⟨fun h => absurd h (by simp), fun _ => ⟨rfl, rfl, rfl⟩⟩
  | inr s =>
    simp only [hi] at hfuel ⊢
    exact mainLoop_ok co P dir pr stop oot x0 y Sig errz0 _ s (initState_good co P d0 pr stop x0 gV s hi).1 hfuel

/-- When are the outputs overwritten: exactly on `Converged`, `Interrupted`, or with
    `always_overwrite_results` — and never on the early `NotFinite` return (non-finite Lipschitz
    estimate), which happens before any iterate exists. -/
theorem pantr_wrote_iff (co : Consts α) (P : Problem α) (dir : Direction D α) (d0 : D)
    (pr : Params α) (stop : Nat → Bool) (oot : Bool) (x0 y Sig errz0 gV : Vec α) :
    (run co P dir d0 pr stop oot x0 y Sig errz0 gV).wrote =
      ((run co P dir d0 pr stop oot x0 y Sig errz0 gV).final.isSome &&
        ((run co P dir d0 pr stop oot x0 y Sig errz0 gV).stats.status == .Converged ||
         (run co P dir d0 pr stop oot x0 y Sig errz0 gV).stats.status == .Interrupted ||
         pr.alwaysOverwrite)) := by
  unfold run
  cases hi : initState co P d0 pr stop x0 gV with
  | inl t => simp
  | inr s =>
    simp only []
    obtain ⟨s', -, -, -, -, he⟩ := mainLoop_exit_at_head co P dir pr stop oot x0 y Sig errz0
      (pr.maxIter + 1) s (by rw [(initState_good co P d0 pr stop x0 gV s hi).2.2.1]; omega) (by omega)
      (initState_good co P d0 pr stop x0 gV s hi).1
    rw [he]
    have hf := exitBlock_fields co pr (headStep P pr stop oot s').1 (headStep P pr stop oot s').2.1
      (headStep P pr stop oot s').2.2 x0 y Sig errz0
    rw [hf.1, hf.2.1, hf.2.2.2.2.1]; simp

/-- The same in "iff" form, covering every status: the outputs are left untouched exactly on the early
    return (non-finite Lipschitz estimate: no iterate exists, status `NotFinite`) or when the status is
    neither `Converged` nor `Interrupted` (i.e. `MaxIter`, `MaxTime`, `NotFinite`; `NoProgress`, `Busy`,
    `Exception` are never returned by PANTR, `Props/C06_Pantr`) and `always_overwrite_results` is off.
    No fuel hypothesis: the main loop's fuel `max_iter + 1` suffices unconditionally. -/
theorem pantr_not_wrote_iff (co : Consts α) (P : Problem α) (dir : Direction D α) (d0 : D)
    (pr : Params α) (stop : Nat → Bool) (oot : Bool) (x0 y Sig errz0 gV : Vec α) :
    (run co P dir d0 pr stop oot x0 y Sig errz0 gV).wrote = false ↔
      ((run co P dir d0 pr stop oot x0 y Sig errz0 gV).final = none ∨
       ((run co P dir d0 pr stop oot x0 y Sig errz0 gV).stats.status ≠ .Converged ∧
        (run co P dir d0 pr stop oot x0 y Sig errz0 gV).stats.status ≠ .Interrupted ∧
        pr.alwaysOverwrite = false)) := by
  rw [pantr_wrote_iff]
  cases (run co P dir d0 pr stop oot x0 y Sig errz0 gV).final <;>
    cases (run co P dir d0 pr stop oot x0 y Sig errz0 gV).stats.status <;>
    cases pr.alwaysOverwrite <;> simp

/-- … and the positive form: overwritten iff an iterate exists and the status is `Converged` or
    `Interrupted` or `always_overwrite_results` is on. -/
theorem pantr_wrote_true_iff (co : Consts α) (P : Problem α) (dir : Direction D α) (d0 : D)
    (pr : Params α) (stop : Nat → Bool) (oot : Bool) (x0 y Sig errz0 gV : Vec α) :
    (run co P dir d0 pr stop oot x0 y Sig errz0 gV).wrote = true ↔
      ((run co P dir d0 pr stop oot x0 y Sig errz0 gV).final ≠ none ∧
       ((run co P dir d0 pr stop oot x0 y Sig errz0 gV).stats.status = .Converged ∨
        (run co P dir d0 pr stop oot x0 y Sig errz0 gV).stats.status = .Interrupted ∨
        pr.alwaysOverwrite = true)) := by
  rw [pantr_wrote_iff]
  cases (run co P dir d0 pr stop oot x0 y Sig errz0 gV).final <;>
    cases (run co P dir d0 pr stop oot x0 y Sig errz0 gV).stats.status <;>
    cases pr.alwaysOverwrite <;> simp

/-- Any carrier, IEEE doubles included; the replay asserts `fuelOut = false` on every recorded run.

    Feasibility: if the problem's prox step maps into `C` (proved for the shipped box / box+ℓ1 /
    unconstrained steps in `Props/C15`), the written-back `x` is in `C`. -/
theorem pantr_x_out_feasible_fuel (InC : Vec α → Prop) (P : Problem α)
    (hP : ∀ γ x g, InC (P.prox γ x g).2.1) (co : Consts α) (dir : Direction D α) (d0 : D)
    (pr : Params α) (stop : Nat → Bool) (oot : Bool) (x0 y Sig errz0 gV : Vec α)
    (hfuel : (run co P dir d0 pr stop oot x0 y Sig errz0 gV).fuelOut = false)
    (hw : (run co P dir d0 pr stop oot x0 y Sig errz0 gV).wrote = true) :
    InC (run co P dir d0 pr stop oot x0 y Sig errz0 gV).x := by
  obtain ⟨⟨γ, x, g, hx⟩, _, _⟩ :=
    (pantr_exit_contract_fuel co P dir d0 pr stop oot x0 y Sig errz0 gV hfuel).1 hw
  rw [hx]; exact hP γ x g

/-- Any carrier, IEEE doubles included; the replay asserts `fuelOut = false` on every recorded run.

    Consistency: `y_out = ŷ(x_out)` and `err_z = (y_out − y_in)/Σ`, i.e. `y_out = y_in + Σ·err_z`
    componentwise whenever `Σ_i ≠ 0` (stated in the division form the code computes). -/
theorem pantr_y_errz_consistent_fuel (co : Consts α) (P : Problem α) (dir : Direction D α) (d0 : D)
    (pr : Params α) (stop : Nat → Bool) (oot : Bool) (x0 y Sig errz0 gV : Vec α)
    (hfuel : (run co P dir d0 pr stop oot x0 y Sig errz0 gV).fuelOut = false)
    (hw : (run co P dir d0 pr stop oot x0 y Sig errz0 gV).wrote = true) :
    (run co P dir d0 pr stop oot x0 y Sig errz0 gV).y
        = (P.psi (run co P dir d0 pr stop oot x0 y Sig errz0 gV).x).2 ∧
    (errz0.length > 0 → (run co P dir d0 pr stop oot x0 y Sig errz0 gV).errz
        = vdiv (vsub (run co P dir d0 pr stop oot x0 y Sig errz0 gV).y y) Sig) := by
  obtain ⟨_, hy, he⟩ := (pantr_exit_contract_fuel co P dir d0 pr stop oot x0 y Sig errz0 gV hfuel).1 hw
  exact ⟨hy, fun h => by rw [he, if_pos h]⟩

/-- Any carrier, IEEE doubles included; the replay asserts `fuelOut = false` on every recorded run.

    With `always_overwrite_results` disabled and an exit that is neither Converged nor
    Interrupted, `x`, `y` (and `err_z`) are left untouched. -/
theorem pantr_untouched_fuel (co : Consts α) (P : Problem α) (dir : Direction D α) (d0 : D)
    (pr : Params α) (stop : Nat → Bool) (oot : Bool) (x0 y Sig errz0 gV : Vec α)
    (hfuel : (run co P dir d0 pr stop oot x0 y Sig errz0 gV).fuelOut = false)
    (hw : (run co P dir d0 pr stop oot x0 y Sig errz0 gV).wrote = false) :
    (run co P dir d0 pr stop oot x0 y Sig errz0 gV).x = x0 ∧
    (run co P dir d0 pr stop oot x0 y Sig errz0 gV).y = y ∧
    (run co P dir d0 pr stop oot x0 y Sig errz0 gV).errz = errz0 :=
  (pantr_exit_contract_fuel co P dir d0 pr stop oot x0 y Sig errz0 gV hfuel).2 hw

/-- Any carrier, IEEE doubles included; the replay asserts `fuelOut = false` on every recorded run.

    Every iterate ever handed to the progress callback — not only the returned one — carries a
    consistent prox step and ŷ: `x̂`, `p`, `h(x̂)` are the prox oracle's answer at the iterate's own
    `(γ, x, ∇ψ(x))`, and `ψ(x̂)`, `ŷ` the ψ oracle's answer at that `x̂`. -/
theorem pantr_reported_iterates_consistent_fuel (co : Consts α) (P : Problem α) (dir : Direction D α)
    (d0 : D) (pr : Params α) (stop : Nat → Bool) (oot : Bool) (x0 y Sig errz0 gV : Vec α)
    (hfuel : (run co P dir d0 pr stop oot x0 y Sig errz0 gV).fuelOut = false) :
    ∀ cb ∈ (run co P dir d0 pr stop oot x0 y Sig errz0 gV).callbacks, Good P cb.it := by
  unfold run at hfuel ⊢
  cases hi : initState co P d0 pr stop x0 gV with
  | inl t => simp
  | inr s =>
    simp only [hi] at hfuel ⊢
    have hs := initState_good co P d0 pr stop x0 gV s hi
    have hc : s.cbs = [] := hs.2.2.2
    intro cb hmem
    exact mainLoop_callbacks_good co P dir pr stop oot x0 y Sig errz0 _ s hs.1
      (by rw [hc]; simp) hfuel cb hmem

end structural

/-! ### The same over an ordered field, with the fuel hypothesis discharged (`FuelOK`) -/
section ordered
variable {α D : Type} [Field α] [LinearOrder α] [IsStrictOrderedRing α] [RealLike α]

/-- **Exit contract of `PANTRSolver::operator()`**, for every problem oracle, direction provider,
    stop schedule, budget, status and both `always_overwrite_results` settings, under `FuelOK pr N`
    (parameters under which no step-size loop of the model runs out of fuel).  Whenever the outputs
    are overwritten: `x_out` is the `x̂` of a proximal-gradient step, `y_out` is the ψ-oracle's `ŷ` at
    that very `x_out`, and `err_z = (y_out − y_in)/Σ`; otherwise `x`, `y`, `err_z` are untouched. -/
theorem pantr_exit_contract (co : Consts α) (P : Problem α) (dir : Direction D α) (d0 : D)
    (pr : Params α) (stop : Nat → Bool) (oot : Bool) (x0 y Sig errz0 gV : Vec α) (N : Nat)
    (hF : FuelOK pr N) : ExitOK P x0 y Sig errz0 (run co P dir d0 pr stop oot x0 y Sig errz0 gV) :=
  pantr_exit_contract_fuel co P dir d0 pr stop oot x0 y Sig errz0 gV
    (pantr_fuel_suffices co P dir d0 pr stop oot x0 y Sig errz0 gV N hF)

/-- Feasibility: if the problem's prox step maps into `C`, the written-back `x` is in `C`. -/
theorem pantr_x_out_feasible (InC : Vec α → Prop) (P : Problem α)
    (hP : ∀ γ x g, InC (P.prox γ x g).2.1) (co : Consts α) (dir : Direction D α) (d0 : D)
    (pr : Params α) (stop : Nat → Bool) (oot : Bool) (x0 y Sig errz0 gV : Vec α) (N : Nat)
    (hF : FuelOK pr N) (hw : (run co P dir d0 pr stop oot x0 y Sig errz0 gV).wrote = true) :
    InC (run co P dir d0 pr stop oot x0 y Sig errz0 gV).x :=
  pantr_x_out_feasible_fuel InC P hP co dir d0 pr stop oot x0 y Sig errz0 gV
    (pantr_fuel_suffices co P dir d0 pr stop oot x0 y Sig errz0 gV N hF) hw

/-- Consistency: `y_out = ŷ(x_out)` and `err_z = (y_out − y_in)/Σ`. -/
theorem pantr_y_errz_consistent (co : Consts α) (P : Problem α) (dir : Direction D α) (d0 : D)
    (pr : Params α) (stop : Nat → Bool) (oot : Bool) (x0 y Sig errz0 gV : Vec α) (N : Nat)
    (hF : FuelOK pr N) (hw : (run co P dir d0 pr stop oot x0 y Sig errz0 gV).wrote = true) :
    (run co P dir d0 pr stop oot x0 y Sig errz0 gV).y
        = (P.psi (run co P dir d0 pr stop oot x0 y Sig errz0 gV).x).2 ∧
    (errz0.length > 0 → (run co P dir d0 pr stop oot x0 y Sig errz0 gV).errz
        = vdiv (vsub (run co P dir d0 pr stop oot x0 y Sig errz0 gV).y y) Sig) :=
  pantr_y_errz_consistent_fuel co P dir d0 pr stop oot x0 y Sig errz0 gV
    (pantr_fuel_suffices co P dir d0 pr stop oot x0 y Sig errz0 gV N hF) hw

/-- With `always_overwrite_results` disabled and an exit that is neither Converged nor Interrupted
    (`pantr_not_wrote_iff`), `x`, `y` (and `err_z`) are left untouched. -/
theorem pantr_untouched (co : Consts α) (P : Problem α) (dir : Direction D α) (d0 : D)
    (pr : Params α) (stop : Nat → Bool) (oot : Bool) (x0 y Sig errz0 gV : Vec α) (N : Nat)
    (hF : FuelOK pr N) (hw : (run co P dir d0 pr stop oot x0 y Sig errz0 gV).wrote = false) :
    (run co P dir d0 pr stop oot x0 y Sig errz0 gV).x = x0 ∧
    (run co P dir d0 pr stop oot x0 y Sig errz0 gV).y = y ∧
    (run co P dir d0 pr stop oot x0 y Sig errz0 gV).errz = errz0 :=
  pantr_untouched_fuel co P dir d0 pr stop oot x0 y Sig errz0 gV
    (pantr_fuel_suffices co P dir d0 pr stop oot x0 y Sig errz0 gV N hF) hw

/-- The property's last sentence in one statement: `always_overwrite_results` off and a status that
    is neither `Converged` nor `Interrupted` ⇒ `x`, `y`, `err_z` untouched. -/
theorem pantr_untouched_of_status (co : Consts α) (P : Problem α) (dir : Direction D α) (d0 : D)
    (pr : Params α) (stop : Nat → Bool) (oot : Bool) (x0 y Sig errz0 gV : Vec α) (N : Nat)
    (hF : FuelOK pr N) (ho : pr.alwaysOverwrite = false)
    (h1 : (run co P dir d0 pr stop oot x0 y Sig errz0 gV).stats.status ≠ .Converged)
    (h2 : (run co P dir d0 pr stop oot x0 y Sig errz0 gV).stats.status ≠ .Interrupted) :
    (run co P dir d0 pr stop oot x0 y Sig errz0 gV).x = x0 ∧
    (run co P dir d0 pr stop oot x0 y Sig errz0 gV).y = y ∧
    (run co P dir d0 pr stop oot x0 y Sig errz0 gV).errz = errz0 :=
  pantr_untouched co P dir d0 pr stop oot x0 y Sig errz0 gV N hF
    ((pantr_not_wrote_iff co P dir d0 pr stop oot x0 y Sig errz0 gV).mpr (.inr ⟨h1, h2, ho⟩))

/-- Every iterate ever handed to the progress callback carries a consistent prox step and ŷ. -/
theorem pantr_reported_iterates_consistent (co : Consts α) (P : Problem α) (dir : Direction D α)
    (d0 : D) (pr : Params α) (stop : Nat → Bool) (oot : Bool) (x0 y Sig errz0 gV : Vec α) (N : Nat)
    (hF : FuelOK pr N) :
    ∀ cb ∈ (run co P dir d0 pr stop oot x0 y Sig errz0 gV).callbacks, Good P cb.it :=
  pantr_reported_iterates_consistent_fuel co P dir d0 pr stop oot x0 y Sig errz0 gV
    (pantr_fuel_suffices co P dir d0 pr stop oot x0 y Sig errz0 gV N hF)

end ordered

/-! ### Non-vacuity (closed instance `Proofs/PantrExample.lean`; the replay driver exercises the same
    hypotheses on every recorded run of the real solver) -/
section examples
open Alpaqa.Pantr.Example

/-- an accepted trust-region step, `Converged` at `k = 1`: outputs overwritten with `x̂ = 1 ∈ C` -/
example : (solve 3 false (-1) 0).wrote = true ∧ (solve 3 false (-1) 0).fuelOut = false ∧
    (solve 3 false (-1) 0).stats.status = .Converged ∧ (solve 3 false (-1) 0).x = [1] := by decide
/-- stop request visible at the first head: `Interrupted`, outputs overwritten with `x̂₀` -/
example : (solve 3 false (-1) 1).wrote = true ∧ (solve 3 false (-1) 1).stats.status = .Interrupted ∧
    (solve 3 false (-1) 1).stats.iterations = 0 ∧ (solve 3 false (-1) 1).fuelOut = false := by decide
/-- `max_iter = 0` without `always_overwrite_results`: `MaxIter`, outputs untouched -/
example : (solve 0 false (-1) 0).wrote = false ∧ (solve 0 false (-1) 0).stats.status = .MaxIter ∧
    (solve 0 false (-1) 0).x = [5] := by decide
/-- … and with `always_overwrite_results`: overwritten -/
example : (solve 0 true (-1) 0).wrote = true ∧ (solve 0 true (-1) 0).x = [1] := by decide
/-- the `…_fuel` form on that run, the fuel flag evaluated -/
example : ExitOK P [5] [] [] [] (solve 3 false (-1) 0) :=
  pantr_exit_contract_fuel co P (dir (-1)) () (pr 3 false) _ false [5] [] [] [] [0] (by decide)
/-- a provider returning a positive model value: the forward-backward step is taken instead -/
example : (solve 3 false 1 0).wrote = true ∧ (solve 3 false 1 0).stats.directionFailures = 1 ∧
    (solve 3 false 1 0).stats.acceleratedStepRejected = 1 := by decide

end examples

/-! ### Non-vacuity of the `FuelOK` forms (`Proofs/PantrExampleQ.lean`: a run over `ℚ` with one
    accepted and one rejected trust-region step) -/
section examplesQ
open Alpaqa.Pantr.ExampleQ

/-- `FuelOK` holds for the example's parameters (`L_max = 100 ≤ L_0·2⁸`, `8 < 16`) … -/
example : FuelOK prq 8 := fuelOK
/-- … so the exit contract applies to the run, for every stop schedule; here: `MaxIter` after two
    iterations without `always_overwrite_results` — untouched; interrupted at tick 6 — overwritten
    with the `x̂ = 1/2 ∈ C` of the current iterate `x = 1`. -/
example (t0 : Option Nat) : ExitOK Pq [4] [5] [2] [7] (rq t0) :=
  pantr_exit_contract coq Pq dirq 0 prq (stopAt t0) false [4] [5] [2] [7] [0] 8 fuelOK
example : (rq none).wrote = false ∧ (rq none).stats.status = .MaxIter ∧ (rq none).stats.iterations = 2 ∧
    (rq none).x = [4] ∧ (rq (some 6)).wrote = true ∧ (rq (some 6)).stats.status = .Interrupted ∧
    (rq (some 6)).x = [1/2] ∧ (rq (some 6)).stats.iterations = 1 := by decide +kernel
example : (rq none).x = [4] ∧ (rq none).y = [5] ∧ (rq none).errz = [7] :=
  pantr_untouched_of_status coq Pq dirq 0 prq (stopAt none) false [4] [5] [2] [7] [0] 8 fuelOK rfl
    (by decide +kernel) (by decide +kernel)
/-- feasibility: every component of every `x̂` the prox oracle returns — for ALL arguments, ill-sized ones
    included — lies in `[−1, 10]`; so does the written-back `x` -/
example : ∀ a ∈ (rq (some 6)).x, -1 ≤ a ∧ a ≤ 10 :=
  pantr_x_out_feasible (fun u => ∀ a ∈ u, -1 ≤ a ∧ a ≤ 10) Pq
    (fun γ x g a ha => by
      simp only [Pq, PCq, List.mem_map] at ha
      obtain ⟨v, -, rfl⟩ := ha
      exact clampQ_mem v) coq dirq 0 prq
    (stopAt (some 6)) false [4] [5] [2] [7] [0] 8 fuelOK (by decide +kernel)
/-- interrupted at tick 6: `y_out = ŷ(x_out) = [1/2]`, `err_z = (y_out − y_in)/Σ = [(1/2 − 5)/2]` -/
example : (rq (some 6)).y = (Pq.psi (rq (some 6)).x).2 ∧
    (([7] : Vec ℚ).length > 0 → (rq (some 6)).errz = vdiv (vsub (rq (some 6)).y [5]) [2]) :=
  pantr_y_errz_consistent coq Pq dirq 0 prq (stopAt (some 6)) false [4] [5] [2] [7] [0] 8 fuelOK
    (by decide +kernel)
example : (rq (some 6)).y = [1/2] ∧ (rq (some 6)).errz = [-9/4] := by decide +kernel
example : (rq (some 6)).wrote = true ↔ ((rq (some 6)).final ≠ none ∧
    ((rq (some 6)).stats.status = .Converged ∨ (rq (some 6)).stats.status = .Interrupted ∨
      prq.alwaysOverwrite = true)) :=
  pantr_wrote_true_iff coq Pq dirq 0 prq (stopAt (some 6)) false [4] [5] [2] [7] [0]
example : ∀ cb ∈ (rq none).callbacks, Good Pq cb.it :=
  pantr_reported_iterates_consistent coq Pq dirq 0 prq (stopAt none) false [4] [5] [2] [7] [0] 8 fuelOK
example : (rq none).callbacks.length = 3 := by decide +kernel

/-- **The fuel the replay driver passes** (`Driver/LoopPantr.lean`: default `qubFuel = 4096`) covers
    the worst parameters `checks/loop_pantr.py` draws — `L_0 ≤ 0` (finite-difference estimate),
    `L_min = 1e-5` (default), `L_max = 1e20`: `1e20 ≤ 1e-5·2⁸⁴` (`2⁸⁴ ≈ 1.93e25`) and `84 < 4096`. -/
example (pr : Params ℚ) (h0 : pr.L0 = 0) (h1 : pr.Lmin = 1/100000) (h2 : pr.Lmax = 100000000000000000000)
    (h3 : pr.qubFuel = 4096) : FuelOK pr 84 :=
  ⟨by rw [h1]; norm_num, by rw [h2]; norm_num, by rw [h0, h1, h2]; norm_num, by rw [h3]; norm_num⟩

/-- **`FuelOK` (and `ParamsOK`) for the library's DEFAULT `PANTRParams`** (`Proofs/PantrExampleQ.lean:
    defaultParams`, transcribed from pantr.hpp / lipschitz.hpp): `N = 84`, model fuel 4096 … -/
example : FuelOK defaultParams 84 := defaultParams_fuelOK
example : ParamsOK defaultParams := defaultParams_paramsOK
/-- … so the exit contract holds for the default parameters, every problem, provider and stop schedule;
    here on the example problem. -/
example (stop : Nat → Bool) (oot : Bool) :
    ExitOK Pq [4] [5] [2] [7] (run coq Pq dirq 0 defaultParams stop oot [4] [5] [2] [7] [0]) :=
  pantr_exit_contract coq Pq dirq 0 defaultParams stop oot [4] [5] [2] [7] [0] 84 defaultParams_fuelOK

end examplesQ

end Alpaqa.Props.C03_Pantr
