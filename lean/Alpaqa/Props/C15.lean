/-
  C15 — Proximal / projection operators return the true minimiser and its function value.

  Every theorem here is about the definitions in `Alpaqa/Gen/C15.lean`, which are regenerated
  from /repo's C++ on every run (componentwise kernels), or about the hand-written models in
  `Alpaqa/Model/C15.lean`, which are tied by the correspondence run.  All theorems hold over
  every linearly ordered field (so at ℚ and ℝ alike); no IEEE rounding is modelled.
-/
import Alpaqa.Proofs.Basic
import Alpaqa.Gen.C15
import Alpaqa.Model.C15

namespace Alpaqa.Props.C15
open Alpaqa Alpaqa.Gen Alpaqa.C15
set_option linter.unusedSectionVars false

variable {α : Type} [Field α] [LinearOrder α] [IsStrictOrderedRing α]

/-! ### Box projection step (`BoxConstrProblem::eval_proj_grad_step_box`) -/

/-- `p` equals output minus input. -/
theorem projGradStepBox_p_eq (γ x g lb ub : α) :
    (projGradStepBox γ x g lb ub).2 = x + (projGradStepBox γ x g lb ub).1 := rfl

/-- The step lands on the projection of the forward point `v = x − γ g` onto `[lb, ub]`. -/
theorem projGradStepBox_eq_proj (γ x g lb ub : α) :
    (projGradStepBox γ x g lb ub).2 = min (max (x - γ * g) lb) ub := by
  simp only [projGradStepBox, emax_eq_max, emin_eq_min]
  rw [← min_add_add_left, ← max_add_add_left]
  congr 1 <;> [congr 1 <;> ring; ring]

/-- Feasibility: for `lb ≤ ub` the output is inside the box. -/
theorem projGradStepBox_feasible (γ x g lb ub : α) (h : lb ≤ ub) :
    lb ≤ (projGradStepBox γ x g lb ub).2 ∧ (projGradStepBox γ x g lb ub).2 ≤ ub := by
  rw [projGradStepBox_eq_proj]
  exact ⟨le_min (le_max_right _ _) h, min_le_right _ _⟩

/-- The projection is the prox of the indicator: it is the (unique) closest point of the box. -/
theorem proj_is_prox (v lb ub : α) (h : lb ≤ ub) (u : α) (hl : lb ≤ u) (hu : u ≤ ub) :
    (min (max v lb) ub - v) ^ 2 ≤ (u - v) ^ 2 ∧
    ((u - v) ^ 2 ≤ (min (max v lb) ub - v) ^ 2 → u = min (max v lb) ub) := by
  rcases le_total v lb with h1 | h1
  · rw [max_eq_right h1, min_eq_left h]
    constructor
    · nlinarith
    · intro h2; nlinarith
  · rw [max_eq_left h1]
    rcases le_total v ub with h3 | h3
    · rw [min_eq_left h3]; constructor
      · nlinarith [sq_nonneg (u - v)]
      · intro h2
        have : (u - v) ^ 2 ≤ 0 := by simpa using h2
        have : u - v = 0 := by nlinarith [sq_nonneg (u - v)]
        linarith
    · rw [min_eq_right h3]; constructor
      · nlinarith
      · intro h2; nlinarith

/-- `eval_proj_grad_step_box` is the prox-grad step of `h = δ_[lb,ub]` (value `h(x̂) = 0`). -/
theorem projGradStepBox_is_prox (γ x g lb ub : α) (h : lb ≤ ub) (u : α) (hl : lb ≤ u) (hu : u ≤ ub) :
    ((projGradStepBox γ x g lb ub).2 - (x - γ * g)) ^ 2 ≤ (u - (x - γ * g)) ^ 2 := by
  rw [projGradStepBox_eq_proj]; exact (proj_is_prox _ lb ub h u hl hu).1

/-! ### `sets::project`, `prox(Box)` and `prox_step(Box)` are the same projection -/

theorem projectBox_eq (v lb ub : α) : projectBox v lb ub = min (max v lb) ub := by
  simp [projectBox]

theorem proxBox_eq (v lb ub : α) : proxBox v lb ub = min (max v lb) ub := by
  simp [proxBox]

theorem proxStepBox_eq (x d γf lb ub : α) :
    (proxStepBox x d γf lb ub).2 = min (max (x + γf * d) lb) ub ∧
    (proxStepBox x d γf lb ub).1 = (proxStepBox x d γf lb ub).2 - x := by
  simp only [proxStepBox, emax_eq_max, emin_eq_min]
  constructor
  · rw [← min_add_add_left, ← max_add_add_left]
    congr 1 <;> [congr 1 <;> ring; ring]
  · ring

theorem proxGradStepUnconstr_eq (γ x g : α) :
    (proxGradStepUnconstr γ x g).2 = x - γ * g ∧
    (proxGradStepUnconstr γ x g).1 = (proxGradStepUnconstr γ x g).2 - x := by
  simp only [proxGradStepUnconstr]; constructor <;> ring

/-! ### Soft-thresholding (`L1Norm::prox`) -/

/-- closed form: `soft v t = v − t` if `v > t`, `v + t` if `v < −t`, else `0` (for `t ≥ 0`). -/
theorem l1Prox_closed (lam γ v : α) (ht : 0 ≤ lam * γ) :
    l1ProxScalarW lam γ v =
      if lam * γ < v then v - lam * γ else if v < -(lam * γ) then v + lam * γ else 0 := by
  simp only [l1ProxScalarW, emax_eq_max, emin_eq_min]
  split_ifs with h1 h2
  · rw [max_eq_right (by linarith), min_eq_left (by linarith)]
  · rw [max_eq_left (by linarith), min_eq_right (by linarith)]
  · rw [max_eq_left (by linarith), min_eq_left (by linarith)]

theorem l1ProxVectorW_eq_scalar (lam γ v : α) : l1ProxVectorW lam γ v = l1ProxScalarW lam γ v := rfl

/-- Variational optimality of soft-thresholding: it minimises `λ|u| + (u − v)²/(2γ)`. -/
theorem l1Prox_is_prox (lam γ v : α) (hl : 0 ≤ lam) (hγ : 0 < γ) (u : α) :
    lam * |l1ProxScalarW lam γ v| + (l1ProxScalarW lam γ v - v) ^ 2 / (2 * γ)
      ≤ lam * |u| + (u - v) ^ 2 / (2 * γ) := by
  have ht : 0 ≤ lam * γ := mul_nonneg hl hγ.le
  rw [l1Prox_closed lam γ v ht]
  have h2γ : (0:α) < 2 * γ := by linarith
  rw [add_div' _ _ _ h2γ.ne', add_div' _ _ _ h2γ.ne', div_le_div_iff_of_pos_right h2γ]
  split_ifs with h1 h2
  · rw [abs_of_pos (by linarith : 0 < v - lam * γ)]
    rcases le_total 0 u with hu | hu
    · rw [abs_of_nonneg hu]; nlinarith [sq_nonneg (u - v + lam * γ)]
    · rw [abs_of_nonpos hu]; nlinarith [sq_nonneg (u - v + lam * γ), mul_nonneg hl hγ.le, mul_nonneg ht (neg_nonneg.mpr hu)]
  · rw [abs_of_neg (by linarith : v + lam * γ < 0)]
    rcases le_total 0 u with hu | hu
    · rw [abs_of_nonneg hu]; nlinarith [sq_nonneg (u - v - lam * γ), mul_nonneg ht hu]
    · rw [abs_of_nonpos hu]; nlinarith [sq_nonneg (u - v - lam * γ)]
  · push_neg at h1 h2
    rw [abs_zero]
    rcases le_total 0 u with hu | hu
    · rw [abs_of_nonneg hu]; nlinarith [sq_nonneg u, mul_nonneg hu (sub_nonneg.mpr h1)]
    · rw [abs_of_nonpos hu]; nlinarith [sq_nonneg u, mul_nonneg (neg_nonneg.mpr hu) (by linarith : 0 ≤ v + lam * γ)]

/-! ### Box + ℓ1 (`eval_prox_grad_step_box_l1_impl`) -/


/-- the two soft-threshold spellings in the code base agree for `t ≥ 0`. -/
theorem soft_forms (v t : α) (ht : 0 ≤ t) :
    max (min 0 (v + t)) (v - t) = min (max 0 (v - t)) (v + t) := by
  simp only [min_def, max_def]; split_ifs <;> linarith

/-- `eval_prox_grad_step_box_l1_impl`: `x̂ = clamp(soft(v, γλ), lb, ub)`, `v = x − γ g`. -/
theorem proxGradStepBoxL1_eq (lam γ x g lb ub : α) :
    (proxGradStepBoxL1 lam γ x g lb ub).2 =
      min (max (max (min 0 ((x - γ * g) + γ * lam)) ((x - γ * g) - γ * lam)) lb) ub ∧
    (proxGradStepBoxL1 lam γ x g lb ub).1 = (proxGradStepBoxL1 lam γ x g lb ub).2 - x := by
  simp only [proxGradStepBoxL1, emax_eq_max, emin_eq_min]
  refine ⟨?_, by ring⟩
  have e1 : ∀ a b : α, x + -max a b = min (x - a) (x - b) := by
    intro a b; rcases le_total a b with h | h
    · rw [max_eq_right h, min_eq_right (by linarith)]; ring
    · rw [max_eq_left h, min_eq_left (by linarith)]; ring
  have e2 : ∀ a b : α, x - min a b = max (x - a) (x - b) := by
    intro a b; rcases le_total a b with h | h
    · rw [min_eq_left h, max_eq_left (by linarith)]
    · rw [min_eq_right h, max_eq_right (by linarith)]
  have e3 : ∀ a b : α, x - max a b = min (x - a) (x - b) := by
    intro a b; rw [sub_eq_add_neg, e1]
  rw [e1, e2, e2, e3]
  congr 1 <;> [congr 1 <;> [congr 1 <;> [congr 1 <;> ring; ring]; ring]; ring]

/-- soft-threshold (second spelling) is the global minimiser. -/
theorem soft_is_prox (lam γ v : α) (hl : 0 ≤ lam) (hγ : 0 < γ) (u : α) :
    lam * |max (min 0 (v + γ * lam)) (v - γ * lam)| +
        (max (min 0 (v + γ * lam)) (v - γ * lam) - v) ^ 2 / (2 * γ)
      ≤ lam * |u| + (u - v) ^ 2 / (2 * γ) := by
  have ht : 0 ≤ γ * lam := mul_nonneg hγ.le hl
  rw [soft_forms v (γ * lam) ht]
  have := l1Prox_is_prox lam γ v hl hγ u
  simpa [l1ProxScalarW, mul_comm lam γ] using this

/-- three-point convexity of `φ(u) = λ|u| + (u−v)²/(2γ)` (division-free form). -/
theorem phi_convex3 (lam γ v a b c : α) (hl : 0 ≤ lam) (hγ : 0 < γ) (hab : a ≤ b) (hbc : b ≤ c) :
    (c - a) * (lam * |b| + (b - v) ^ 2 / (2 * γ))
      ≤ (c - b) * (lam * |a| + (a - v) ^ 2 / (2 * γ)) + (b - a) * (lam * |c| + (c - v) ^ 2 / (2 * γ)) := by
  have h2γ : (0:α) < 2 * γ := by linarith
  have habs : (c - a) * |b| ≤ (c - b) * |a| + (b - a) * |c| := by
    have e : (c - a) * b = (c - b) * a + (b - a) * c := by ring
    calc (c - a) * |b| = |(c - a) * b| := by rw [abs_mul, abs_of_nonneg (by linarith : 0 ≤ c - a)]
      _ = |(c - b) * a + (b - a) * c| := by rw [e]
      _ ≤ |(c - b) * a| + |(b - a) * c| := abs_add_le _ _
      _ = (c - b) * |a| + (b - a) * |c| := by
          rw [abs_mul, abs_mul, abs_of_nonneg (by linarith : 0 ≤ c - b), abs_of_nonneg (by linarith : 0 ≤ b - a)]
  have hsq : (c - a) * (b - v) ^ 2 ≤ (c - b) * (a - v) ^ 2 + (b - a) * (c - v) ^ 2 := by
    nlinarith [mul_nonneg (sub_nonneg.mpr hab) (sub_nonneg.mpr hbc), mul_nonneg (mul_nonneg (sub_nonneg.mpr hab) (sub_nonneg.mpr hbc)) (by linarith : 0 ≤ c - a)]
  have hq : (c - a) * ((b - v) ^ 2 / (2 * γ)) ≤ (c - b) * ((a - v) ^ 2 / (2 * γ)) + (b - a) * ((c - v) ^ 2 / (2 * γ)) := by
    rw [← mul_div_assoc, ← mul_div_assoc, ← mul_div_assoc, ← add_div, div_le_div_iff_of_pos_right h2γ]
    exact hsq
  nlinarith [mul_le_mul_of_nonneg_left habs hl]

/-- In one dimension, clamping the global minimiser of the convex `φ` gives the minimiser over
    the interval — for *any* `lb ≤ ub` (the code's `lb ≤ 0 ≤ ub` precondition is not needed). -/
theorem boxL1_is_prox (lam γ v lb ub : α) (hl : 0 ≤ lam) (hγ : 0 < γ) (hlu : lb ≤ ub)
    (u : α) (hu1 : lb ≤ u) (hu2 : u ≤ ub) :
    lam * |min (max (max (min 0 (v + γ * lam)) (v - γ * lam)) lb) ub| +
        (min (max (max (min 0 (v + γ * lam)) (v - γ * lam)) lb) ub - v) ^ 2 / (2 * γ)
      ≤ lam * |u| + (u - v) ^ 2 / (2 * γ) := by
  have hglob := soft_is_prox lam γ v hl hγ
  generalize max (min 0 (v + γ * lam)) (v - γ * lam) = s0 at *
  rcases le_total s0 lb with h1 | h1
  · rw [max_eq_right h1, min_eq_left hlu]
    rcases eq_or_lt_of_le (h1.trans hu1) with h | h
    · have : lb = u := le_antisymm hu1 (h ▸ h1); rw [this]
    · have h3 := phi_convex3 lam γ v s0 lb u hl hγ h1 hu1
      have h4 := hglob u
      have : 0 < u - s0 := by linarith
      nlinarith [mul_le_mul_of_nonneg_left h4 (by linarith : 0 ≤ u - lb)]
  · rw [max_eq_left h1]
    rcases le_total s0 ub with h2 | h2
    · rw [min_eq_left h2]; exact hglob u
    · rw [min_eq_right h2]
      rcases eq_or_lt_of_le (hu2.trans h2) with h | h
      · have : ub = u := le_antisymm (h ▸ h2) hu2; rw [this]
      · have h3 := phi_convex3 lam γ v u ub s0 hl hγ hu2 h2
        have h4 := hglob u
        have : 0 < s0 - u := by linarith
        nlinarith [mul_le_mul_of_nonneg_left h4 (by linarith : 0 ≤ ub - u)]

/-! ### Inactive indices, multiplier projection, infinite bounds -/


/-- Box case of `eval_inactive_indices_res_lna`: `i ∈ J` exactly when the projection is locally
    the identity shift around the forward point. -/
theorem inInterior_iff_locally_shift (lb ub v : α) (h : lb ≤ ub) :
    inInterior lb ub v = true ↔
      ∃ δ > 0, ∀ v', |v' - v| < δ → min (max v' lb) ub - min (max v lb) ub = v' - v := by
  simp only [inInterior, Bool.and_eq_true, decide_eq_true_eq]
  constructor
  · rintro ⟨h1, h2⟩
    refine ⟨min (v - lb) (ub - v), lt_min (by linarith) (by linarith), ?_⟩
    intro v' hv'
    rw [abs_lt] at hv'
    have := min_le_left (v - lb) (ub - v)
    have := min_le_right (v - lb) (ub - v)
    rw [max_eq_left (by linarith), max_eq_left h1.le, min_eq_left (by linarith), min_eq_left h2.le]
  · rintro ⟨δ, hδ, hsh⟩
    by_contra hc
    rw [not_and_or, not_lt, not_lt] at hc
    rcases hc with hc | hc
    · have := hsh (v - δ / 2) (by rw [abs_lt]; constructor <;> linarith)
      rw [max_eq_right (by linarith), max_eq_right hc, min_eq_left h] at this
      linarith
    · have := hsh (v + δ / 2) (by rw [abs_lt]; constructor <;> linarith)
      have e1 : min (max (v + δ / 2) lb) ub = ub := min_eq_right (le_trans (by linarith) (le_max_left _ _))
      have e2 : min (max v lb) ub = ub := min_eq_right (le_trans hc (le_max_left _ _))
      rw [e1, e2] at this
      linarith

/-- `eval_proj_multipliers_box`, one ALM component: clamp to `[−M, M]`, with a side forced to 0
    where the corresponding constraint bound is infinite. -/
theorem projMult1_bounds (lbInf ubInf : Bool) (M y : α) (hM : 0 ≤ M) :
    -M ≤ projMult1 lbInf ubInf M y ∧ projMult1 lbInf ubInf M y ≤ M := by
  cases lbInf <;> cases ubInf <;> simp only [projMult1, emax_eq_max, emin_eq_min, min_def, max_def,
    Bool.false_eq_true, if_false, if_true] <;> constructor <;> split_ifs <;> linarith

theorem projMult1_sign (lbInf ubInf : Bool) (M y : α) (hM : 0 ≤ M) :
    (lbInf = true → 0 ≤ projMult1 lbInf ubInf M y) ∧ (ubInf = true → projMult1 lbInf ubInf M y ≤ 0) := by
  cases lbInf <;> cases ubInf <;> simp only [projMult1, emax_eq_max, emin_eq_min, min_def, max_def,
    Bool.false_eq_true, if_false, if_true, false_imp_iff, true_imp_iff, true_and, and_true] <;>
    (try constructor) <;> split_ifs <;> linarith

theorem projMult1_free_row (M y : α) : projMult1 true true M y = 0 := by
  simp only [projMult1, emax_eq_max, emin_eq_min, min_def, max_def, if_true]
  split_ifs <;> linarith

theorem projMult1_inrange (lbInf ubInf : Bool) (M y : α)
    (h1 : (if lbInf then 0 else -M) ≤ y) (h2 : y ≤ (if ubInf then 0 else M)) :
    projMult1 lbInf ubInf M y = y := by
  simp only [projMult1, emax_eq_max, emin_eq_min]
  rw [max_eq_left h1, min_eq_left h2]

/-- Infinite bounds: the finite-bound kernel with a lower bound that is low enough (any
    `lb ≤ x − γ g`) coincides with the kernel where the `max` with the lower bound is absent;
    this is what IEEE `-inf` does, so `none` bounds may be read as "any sufficiently low bound". -/
theorem projGradStepBox_lb_irrelevant (γ x g lb lb' ub : α) (h : lb ≤ x - γ * g) (h' : lb' ≤ x - γ * g) :
    projGradStepBox γ x g lb ub = projGradStepBox γ x g lb' ub := by
  simp only [projGradStepBox, emax_eq_max, emin_eq_min]
  rw [max_eq_left (by linarith), max_eq_left (by linarith)]

theorem projGradStepBox_ub_irrelevant (γ x g lb ub ub' : α) (h : x - γ * g ≤ ub) (h' : x - γ * g ≤ ub')
    (hl : lb ≤ ub) (hl' : lb ≤ ub') :
    projGradStepBox γ x g lb ub = projGradStepBox γ x g lb ub' := by
  simp only [projGradStepBox, emax_eq_max, emin_eq_min]
  have e : ∀ u, x - γ * g ≤ u → lb ≤ u → min (max (-γ * g) (lb - x)) (u - x) = max (-γ * g) (lb - x) := by
    intro u hu hlu; apply min_eq_left; apply max_le <;> linarith
  rw [e ub h hl, e ub' h' hl']

/-! ### Non-vacuity: concrete instances meeting the hypotheses (over ℚ) -/

example : (projGradStepBox (1/2 : ℚ) 1 4 0 3).2 = 0 ∧ (0:ℚ) ≤ 3 := by
  norm_num [projGradStepBox, emax, emin]
example : l1ProxScalarW (2 : ℚ) (1/2) 3 = 2 ∧ (0:ℚ) ≤ 2 ∧ (0:ℚ) < 1/2 := by
  norm_num [l1ProxScalarW, emax, emin]
example : (proxGradStepBoxL1 (1 : ℚ) 1 5 1 (-1) 2).2 = 2 := by
  norm_num [proxGradStepBoxL1, emax, emin]
example : inInterior (0:ℚ) 2 1 = true := by decide
example : projMult1 true false (10:ℚ) (-3) = 0 := by
  norm_num [projMult1, emax, emin]

end Alpaqa.Props.C15

