/-
  C15 — Proximal / projection operators return the true minimiser and its function value.

  Every theorem here is about the definitions in `Alpaqa/Gen/C15.lean`, which are regenerated
  from /repo's C++ on every run (componentwise kernels, the `soft_thres` lambdas of the complex
  ℓ1 norm, the post-SVD statements of the nuclear norm), or about the hand-written models in
  `Alpaqa/Model/C15.lean`, which are tied by the correspondence run.  The sqrt-free theorems hold
  over every linearly ordered field (so at ℚ and ℝ alike); the complex-ℓ1 theorems over every
  linearly ordered field with a lawful `sqrt` (`C15.LawfulSqrt`; the `ℝ` instance with `Real.sqrt`
  is constructed below, so they are not vacuous).  No IEEE rounding is modelled.

  NUCLEAR NORM — what is proved and what is the oracle's contract (`nuclear_prox_partial`).
  `NuclearNorm::prox` calls `Eigen::BDCSVD` (third party, an oracle of the model) and then
  thresholds the singular values, computes the value, selects `rank` leading triplets and forms
  `U₁ Σ₁ V₁ᵀ`.  Proved here, for the statements regenerated from the source: the thresholded
  singular values minimise `Σ λ s_i + (s_i − σ_i)²/(2γ)` over `s ≥ 0`; the returned value is
  `λ Σ s_i`; `rank` = number of `σ_i > γλ`; for σ sorted non-increasing every entry from `rank` on
  is zero, so the truncated reconstruction equals the full one.  NOT proved: that
  `U diag(s) Vᵀ` is the minimiser of `λ‖X‖_* + ‖X − A‖_F²/(2γ)` over matrices.  That needs
  (i) the oracle's contract `A = U diag(σ) Vᵀ`, `UᵀU = VᵀV = I`, σ sorted non-increasing ≥ 0, and
  (ii) von Neumann's trace inequality `⟨X, A⟩ ≤ Σ σ_i(X) σ_i(A)`, which reduces the matrix
  problem to the vector problem solved here.  Neither is formalised; the check's monitor verifies
  both on every run against an independent SVD of the input (see checks/c15.py).
-/
import Alpaqa.Proofs.Basic
import Alpaqa.Proofs.C15Lemmas
import Alpaqa.Proofs.C15Cplx
import Alpaqa.Proofs.C15Nuc
import Mathlib.Analysis.Real.Sqrt
import Alpaqa.Gen.C15
import Alpaqa.Model.C15

namespace Alpaqa.Props.C15
open Alpaqa Alpaqa.Gen Alpaqa.C15
set_option linter.unusedSectionVars false

variable {α : Type} [Field α] [LinearOrder α] [IsStrictOrderedRing α]

/-! ### Box projection step (`BoxConstrProblem::eval_proj_grad_step_box`) -/

/-- `p` equals output minus input. -/
theorem projGradStepBox_p_eq (γ x g lb ub : α) :
    (projGradStepBox γ x g lb ub).2 = x + (projGradStepBox γ x g lb ub).1 := rfl

/-- The step lands on the projection of the forward point `v = x − γ g` onto `[lb, ub]`. -/
theorem projGradStepBox_eq_proj (γ x g lb ub : α) :
    (projGradStepBox γ x g lb ub).2 = min (max (x - γ * g) lb) ub := by
  simp only [projGradStepBox, emax_eq_max, emin_eq_min]
  rw [← min_add_add_left, ← max_add_add_left]
  congr 1 <;> [congr 1 <;> ring; ring]

/-- Feasibility: for `lb ≤ ub` the output is inside the box. -/
theorem projGradStepBox_feasible (γ x g lb ub : α) (h : lb ≤ ub) :
    lb ≤ (projGradStepBox γ x g lb ub).2 ∧ (projGradStepBox γ x g lb ub).2 ≤ ub := by
  rw [projGradStepBox_eq_proj]
  exact ⟨le_min (le_max_right _ _) h, min_le_right _ _⟩

/-- The projection is the prox of the indicator: it is the (unique) closest point of the box. -/
theorem proj_is_prox (v lb ub : α) (h : lb ≤ ub) (u : α) (hl : lb ≤ u) (hu : u ≤ ub) :
    (min (max v lb) ub - v) ^ 2 ≤ (u - v) ^ 2 ∧
    ((u - v) ^ 2 ≤ (min (max v lb) ub - v) ^ 2 → u = min (max v lb) ub) := by
  rcases le_total v lb with h1 | h1
  · rw [max_eq_right h1, min_eq_left h]
    constructor
    · nlinarith
    · intro h2; nlinarith
  · rw [max_eq_left h1]
    rcases le_total v ub with h3 | h3
    · rw [min_eq_left h3]; constructor
      · nlinarith [sq_nonneg (u - v)]
      · intro h2
        have : (u - v) ^ 2 ≤ 0 := by simpa using h2
        have : u - v = 0 := by nlinarith [sq_nonneg (u - v)]
        linarith
    · rw [min_eq_right h3]; constructor
      · nlinarith
      · intro h2; nlinarith

/-- `eval_proj_grad_step_box` is the prox-grad step of `h = δ_[lb,ub]` (value `h(x̂) = 0`). -/
theorem projGradStepBox_is_prox (γ x g lb ub : α) (h : lb ≤ ub) (u : α) (hl : lb ≤ u) (hu : u ≤ ub) :
    ((projGradStepBox γ x g lb ub).2 - (x - γ * g)) ^ 2 ≤ (u - (x - γ * g)) ^ 2 := by
  rw [projGradStepBox_eq_proj]; exact (proj_is_prox _ lb ub h u hl hu).1

/-! ### `sets::project`, `prox(Box)` and `prox_step(Box)` are the same projection -/

theorem projectBox_eq (v lb ub : α) : projectBox v lb ub = min (max v lb) ub := by
  simp [projectBox]

theorem proxBox_eq (v lb ub : α) : proxBox v lb ub = min (max v lb) ub := by
  simp [proxBox]

theorem proxStepBox_eq (x d γf lb ub : α) :
    (proxStepBox x d γf lb ub).2 = min (max (x + γf * d) lb) ub ∧
    (proxStepBox x d γf lb ub).1 = (proxStepBox x d γf lb ub).2 - x := by
  simp only [proxStepBox, emax_eq_max, emin_eq_min]
  constructor
  · rw [← min_add_add_left, ← max_add_add_left]
    congr 1 <;> [congr 1 <;> ring; ring]
  · ring

theorem proxGradStepUnconstr_eq (γ x g : α) :
    (proxGradStepUnconstr γ x g).2 = x - γ * g ∧
    (proxGradStepUnconstr γ x g).1 = (proxGradStepUnconstr γ x g).2 - x := by
  simp only [proxGradStepUnconstr]; constructor <;> ring

/-! ### Soft-thresholding (`L1Norm::prox`) -/

/-- closed form: `soft v t = v − t` if `v > t`, `v + t` if `v < −t`, else `0` (for `t ≥ 0`). -/
theorem l1Prox_closed (lam γ v : α) (ht : 0 ≤ lam * γ) :
    l1ProxScalarW lam γ v =
      if lam * γ < v then v - lam * γ else if v < -(lam * γ) then v + lam * γ else 0 := by
  simp only [l1ProxScalarW, emax_eq_max, emin_eq_min]
  split_ifs with h1 h2
  · rw [max_eq_right (by linarith), min_eq_left (by linarith)]
  · rw [max_eq_left (by linarith), min_eq_right (by linarith)]
  · rw [max_eq_left (by linarith), min_eq_left (by linarith)]

theorem l1ProxVectorW_eq_scalar (lam γ v : α) : l1ProxVectorW lam γ v = l1ProxScalarW lam γ v := rfl

/-- Variational optimality of soft-thresholding: it minimises `λ|u| + (u − v)²/(2γ)`. -/
theorem l1Prox_is_prox (lam γ v : α) (hl : 0 ≤ lam) (hγ : 0 < γ) (u : α) :
    lam * |l1ProxScalarW lam γ v| + (l1ProxScalarW lam γ v - v) ^ 2 / (2 * γ)
      ≤ lam * |u| + (u - v) ^ 2 / (2 * γ) := by
  have ht : 0 ≤ lam * γ := mul_nonneg hl hγ.le
  rw [l1Prox_closed lam γ v ht]
  have h2γ : (0:α) < 2 * γ := by linarith
  rw [add_div' _ _ _ h2γ.ne', add_div' _ _ _ h2γ.ne', div_le_div_iff_of_pos_right h2γ]
  split_ifs with h1 h2
  · rw [abs_of_pos (by linarith : 0 < v - lam * γ)]
    rcases le_total 0 u with hu | hu
    · rw [abs_of_nonneg hu]; nlinarith [sq_nonneg (u - v + lam * γ)]
    · rw [abs_of_nonpos hu]; nlinarith [sq_nonneg (u - v + lam * γ), mul_nonneg hl hγ.le, mul_nonneg ht (neg_nonneg.mpr hu)]
  · rw [abs_of_neg (by linarith : v + lam * γ < 0)]
    rcases le_total 0 u with hu | hu
    · rw [abs_of_nonneg hu]; nlinarith [sq_nonneg (u - v - lam * γ), mul_nonneg ht hu]
    · rw [abs_of_nonpos hu]; nlinarith [sq_nonneg (u - v - lam * γ)]
  · push_neg at h1 h2
    rw [abs_zero]
    rcases le_total 0 u with hu | hu
    · rw [abs_of_nonneg hu]; nlinarith [sq_nonneg u, mul_nonneg hu (sub_nonneg.mpr h1)]
    · rw [abs_of_nonpos hu]; nlinarith [sq_nonneg u, mul_nonneg (neg_nonneg.mpr hu) (by linarith : 0 ≤ v + lam * γ)]

/-! ### Box + ℓ1 (`eval_prox_grad_step_box_l1_impl`) -/


/-- the two soft-threshold spellings in the code base agree for `t ≥ 0`. -/
theorem soft_forms (v t : α) (ht : 0 ≤ t) :
    max (min 0 (v + t)) (v - t) = min (max 0 (v - t)) (v + t) := by
  simp only [min_def, max_def]; split_ifs <;> linarith

/-- `eval_prox_grad_step_box_l1_impl`: `x̂ = clamp(soft(v, γλ), lb, ub)`, `v = x − γ g`. -/
theorem proxGradStepBoxL1_eq (lam γ x g lb ub : α) :
    (proxGradStepBoxL1 lam γ x g lb ub).2 =
      min (max (max (min 0 ((x - γ * g) + γ * lam)) ((x - γ * g) - γ * lam)) lb) ub ∧
    (proxGradStepBoxL1 lam γ x g lb ub).1 = (proxGradStepBoxL1 lam γ x g lb ub).2 - x := by
  simp only [proxGradStepBoxL1, emax_eq_max, emin_eq_min]
  refine ⟨?_, by ring⟩
  have e1 : ∀ a b : α, x + -max a b = min (x - a) (x - b) := by
    intro a b; rcases le_total a b with h | h
    · rw [max_eq_right h, min_eq_right (by linarith)]; ring
    · rw [max_eq_left h, min_eq_left (by linarith)]; ring
  have e2 : ∀ a b : α, x - min a b = max (x - a) (x - b) := by
    intro a b; rcases le_total a b with h | h
    · rw [min_eq_left h, max_eq_left (by linarith)]
    · rw [min_eq_right h, max_eq_right (by linarith)]
  have e3 : ∀ a b : α, x - max a b = min (x - a) (x - b) := by
    intro a b; rw [sub_eq_add_neg, e1]
  rw [e1, e2, e2, e3]
  congr 1 <;> [congr 1 <;> [congr 1 <;> [congr 1 <;> ring; ring]; ring]; ring]

/-- soft-threshold (second spelling) is the global minimiser. -/
theorem soft_is_prox (lam γ v : α) (hl : 0 ≤ lam) (hγ : 0 < γ) (u : α) :
    lam * |max (min 0 (v + γ * lam)) (v - γ * lam)| +
        (max (min 0 (v + γ * lam)) (v - γ * lam) - v) ^ 2 / (2 * γ)
      ≤ lam * |u| + (u - v) ^ 2 / (2 * γ) := by
  have ht : 0 ≤ γ * lam := mul_nonneg hγ.le hl
  rw [soft_forms v (γ * lam) ht]
  have := l1Prox_is_prox lam γ v hl hγ u
  simpa [l1ProxScalarW, mul_comm lam γ] using this

/-- three-point convexity of `φ(u) = λ|u| + (u−v)²/(2γ)` (division-free form). -/
theorem phi_convex3 (lam γ v a b c : α) (hl : 0 ≤ lam) (hγ : 0 < γ) (hab : a ≤ b) (hbc : b ≤ c) :
    (c - a) * (lam * |b| + (b - v) ^ 2 / (2 * γ))
      ≤ (c - b) * (lam * |a| + (a - v) ^ 2 / (2 * γ)) + (b - a) * (lam * |c| + (c - v) ^ 2 / (2 * γ)) := by
  have h2γ : (0:α) < 2 * γ := by linarith
  have habs : (c - a) * |b| ≤ (c - b) * |a| + (b - a) * |c| := by
    have e : (c - a) * b = (c - b) * a + (b - a) * c := by ring
    calc (c - a) * |b| = |(c - a) * b| := by rw [abs_mul, abs_of_nonneg (by linarith : 0 ≤ c - a)]
      _ = |(c - b) * a + (b - a) * c| := by rw [e]
      _ ≤ |(c - b) * a| + |(b - a) * c| := abs_add_le _ _
      _ = (c - b) * |a| + (b - a) * |c| := by
          rw [abs_mul, abs_mul, abs_of_nonneg (by linarith : 0 ≤ c - b), abs_of_nonneg (by linarith : 0 ≤ b - a)]
  have hsq : (c - a) * (b - v) ^ 2 ≤ (c - b) * (a - v) ^ 2 + (b - a) * (c - v) ^ 2 := by
    nlinarith [mul_nonneg (sub_nonneg.mpr hab) (sub_nonneg.mpr hbc), mul_nonneg (mul_nonneg (sub_nonneg.mpr hab) (sub_nonneg.mpr hbc)) (by linarith : 0 ≤ c - a)]
  have hq : (c - a) * ((b - v) ^ 2 / (2 * γ)) ≤ (c - b) * ((a - v) ^ 2 / (2 * γ)) + (b - a) * ((c - v) ^ 2 / (2 * γ)) := by
    rw [← mul_div_assoc, ← mul_div_assoc, ← mul_div_assoc, ← add_div, div_le_div_iff_of_pos_right h2γ]
    exact hsq
  nlinarith [mul_le_mul_of_nonneg_left habs hl]

/-- In one dimension, clamping the global minimiser of the convex `φ` gives the minimiser over
    the interval — for *any* `lb ≤ ub` (the code's `lb ≤ 0 ≤ ub` precondition is not needed). -/
theorem boxL1_is_prox (lam γ v lb ub : α) (hl : 0 ≤ lam) (hγ : 0 < γ) (hlu : lb ≤ ub)
    (u : α) (hu1 : lb ≤ u) (hu2 : u ≤ ub) :
    lam * |min (max (max (min 0 (v + γ * lam)) (v - γ * lam)) lb) ub| +
        (min (max (max (min 0 (v + γ * lam)) (v - γ * lam)) lb) ub - v) ^ 2 / (2 * γ)
      ≤ lam * |u| + (u - v) ^ 2 / (2 * γ) := by
  have hglob := soft_is_prox lam γ v hl hγ
  generalize max (min 0 (v + γ * lam)) (v - γ * lam) = s0 at *
  rcases le_total s0 lb with h1 | h1
  · rw [max_eq_right h1, min_eq_left hlu]
    rcases eq_or_lt_of_le (h1.trans hu1) with h | h
    · have : lb = u := le_antisymm hu1 (h ▸ h1); rw [this]
    · have h3 := phi_convex3 lam γ v s0 lb u hl hγ h1 hu1
      have h4 := hglob u
      have : 0 < u - s0 := by linarith
      nlinarith [mul_le_mul_of_nonneg_left h4 (by linarith : 0 ≤ u - lb)]
  · rw [max_eq_left h1]
    rcases le_total s0 ub with h2 | h2
    · rw [min_eq_left h2]; exact hglob u
    · rw [min_eq_right h2]
      rcases eq_or_lt_of_le (hu2.trans h2) with h | h
      · have : ub = u := le_antisymm (h ▸ h2) hu2; rw [this]
      · have h3 := phi_convex3 lam γ v u ub s0 hl hγ hu2 h2
        have h4 := hglob u
        have : 0 < s0 - u := by linarith
        nlinarith [mul_le_mul_of_nonneg_left h4 (by linarith : 0 ≤ ub - u)]

/-! ### Inactive indices, multiplier projection, infinite bounds -/


/-- Box case of `eval_inactive_indices_res_lna`: `i ∈ J` exactly when the projection is locally
    the identity shift around the forward point. -/
theorem inInterior_iff_locally_shift (lb ub v : α) (h : lb ≤ ub) :
    inInterior lb ub v = true ↔
      ∃ δ > 0, ∀ v', |v' - v| < δ → min (max v' lb) ub - min (max v lb) ub = v' - v := by
  simp only [inInterior, Bool.and_eq_true, decide_eq_true_eq]
  constructor
  · rintro ⟨h1, h2⟩
    refine ⟨min (v - lb) (ub - v), lt_min (by linarith) (by linarith), ?_⟩
    intro v' hv'
    rw [abs_lt] at hv'
    have := min_le_left (v - lb) (ub - v)
    have := min_le_right (v - lb) (ub - v)
    rw [max_eq_left (by linarith), max_eq_left h1.le, min_eq_left (by linarith), min_eq_left h2.le]
  · rintro ⟨δ, hδ, hsh⟩
    by_contra hc
    rw [not_and_or, not_lt, not_lt] at hc
    rcases hc with hc | hc
    · have := hsh (v - δ / 2) (by rw [abs_lt]; constructor <;> linarith)
      rw [max_eq_right (by linarith), max_eq_right hc, min_eq_left h] at this
      linarith
    · have := hsh (v + δ / 2) (by rw [abs_lt]; constructor <;> linarith)
      have e1 : min (max (v + δ / 2) lb) ub = ub := min_eq_right (le_trans (by linarith) (le_max_left _ _))
      have e2 : min (max v lb) ub = ub := min_eq_right (le_trans hc (le_max_left _ _))
      rw [e1, e2] at this
      linarith

/-- `eval_proj_multipliers_box`, one ALM component: clamp to `[−M, M]`, with a side forced to 0
    where the corresponding constraint bound is infinite. -/
theorem projMult1_bounds (lbInf ubInf : Bool) (M y : α) (hM : 0 ≤ M) :
    -M ≤ projMult1 lbInf ubInf M y ∧ projMult1 lbInf ubInf M y ≤ M := by
  cases lbInf <;> cases ubInf <;> simp only [projMult1, emax_eq_max, emin_eq_min, min_def, max_def,
    Bool.false_eq_true, if_false, if_true] <;> constructor <;> split_ifs <;> linarith

theorem projMult1_sign (lbInf ubInf : Bool) (M y : α) (hM : 0 ≤ M) :
    (lbInf = true → 0 ≤ projMult1 lbInf ubInf M y) ∧ (ubInf = true → projMult1 lbInf ubInf M y ≤ 0) := by
  cases lbInf <;> cases ubInf <;> simp only [projMult1, emax_eq_max, emin_eq_min, min_def, max_def,
    Bool.false_eq_true, if_false, if_true, false_imp_iff, true_imp_iff, true_and, and_true] <;>
    (try constructor) <;> split_ifs <;> linarith

theorem projMult1_free_row (M y : α) : projMult1 true true M y = 0 := by
  simp only [projMult1, emax_eq_max, emin_eq_min, min_def, max_def, if_true]
  split_ifs <;> linarith

theorem projMult1_inrange (lbInf ubInf : Bool) (M y : α)
    (h1 : (if lbInf then 0 else -M) ≤ y) (h2 : y ≤ (if ubInf then 0 else M)) :
    projMult1 lbInf ubInf M y = y := by
  simp only [projMult1, emax_eq_max, emin_eq_min]
  rw [max_eq_left h1, min_eq_left h2]

/-- Infinite bounds: the finite-bound kernel with a lower bound that is low enough (any
    `lb ≤ x − γ g`) coincides with the kernel where the `max` with the lower bound is absent;
    this is what IEEE `-inf` does, so `none` bounds may be read as "any sufficiently low bound". -/
theorem projGradStepBox_lb_irrelevant (γ x g lb lb' ub : α) (h : lb ≤ x - γ * g) (h' : lb' ≤ x - γ * g) :
    projGradStepBox γ x g lb ub = projGradStepBox γ x g lb' ub := by
  simp only [projGradStepBox, emax_eq_max, emin_eq_min]
  rw [max_eq_left (by linarith), max_eq_left (by linarith)]

theorem projGradStepBox_ub_irrelevant (γ x g lb ub ub' : α) (h : x - γ * g ≤ ub) (h' : x - γ * g ≤ ub')
    (hl : lb ≤ ub) (hl' : lb ≤ ub') :
    projGradStepBox γ x g lb ub = projGradStepBox γ x g lb ub' := by
  simp only [projGradStepBox, emax_eq_max, emin_eq_min]
  have e : ∀ u, x - γ * g ≤ u → lb ≤ u → min (max (-γ * g) (lb - x)) (u - x) = max (-γ * g) (lb - x) := by
    intro u hu hlu; apply min_eq_left; apply max_le <;> linarith
  rw [e ub h hl, e ub' h' hl']

/-! ### Inactive indices, general (box + ℓ1) case -/

/-- the box+ℓ1 prox of `eval_prox_grad_step_box_l1_impl` as a function of the forward point
    (`proxGradStepBoxL1_eq`), `t = γλ`. -/
def boxL1 (t lb ub v : α) : α := min (max (max (min 0 (v + t)) (v - t)) lb) ub

/-- "locally the identity shift around `v`". -/
def LocallyShift (P : α → α) (v : α) : Prop := ∃ δ > 0, ∀ v', |v' - v| < δ → P v' - P v = v' - v

theorem soft_gt (t v : α) (ht : 0 ≤ t) (h : t < v) : max (min 0 (v + t)) (v - t) = v - t := by
  rw [min_eq_left (by linarith), max_eq_right (by linarith)]
theorem soft_lt (t v : α) (ht : 0 ≤ t) (h : v < -t) : max (min 0 (v + t)) (v - t) = v + t := by
  rw [min_eq_right (by linarith), max_eq_left (by linarith)]
theorem soft_mid (t v : α) (h1 : -t ≤ v) (h2 : v ≤ t) : max (min 0 (v + t)) (v - t) = 0 := by
  rw [min_eq_left (by linarith), max_eq_left (by linarith)]

theorem inInterior_iff_locallyShift (lb ub v : α) (h : lb ≤ ub) :
    inInterior lb ub v = true ↔ LocallyShift (fun w => min (max w lb) ub) v :=
  inInterior_iff_locally_shift lb ub v h

/-- shifting the argument by a constant where the map factors through the shift. -/
theorem locallyShift_of_eq_shift (P Q : α → α) (v c ε : α) (hε : 0 < ε)
    (hPQ : ∀ w, |w - v| < ε → P w = Q (w + c)) :
    LocallyShift P v ↔ LocallyShift Q (v + c) := by
  have hv : P v = Q (v + c) := hPQ v (by simpa using hε)
  constructor
  · rintro ⟨δ, hδ, hs⟩
    refine ⟨min δ ε, lt_min hδ hε, fun w' hw' => ?_⟩
    have h1 : |w' - c - v| < min δ ε := by rwa [show w' - c - v = w' - (v + c) by ring]
    have := hs (w' - c) (lt_of_lt_of_le h1 (min_le_left _ _))
    rw [hPQ (w' - c) (lt_of_lt_of_le h1 (min_le_right _ _)), hv] at this
    rw [show w' - c + c = w' by ring] at this
    linarith
  · rintro ⟨δ, hδ, hs⟩
    refine ⟨min δ ε, lt_min hδ hε, fun v' hv' => ?_⟩
    have := hs (v' + c) (by rw [show v' + c - (v + c) = v' - v by ring]; exact lt_of_lt_of_le hv' (min_le_left _ _))
    rw [hPQ v' (lt_of_lt_of_le hv' (min_le_right _ _)), hv]
    linarith

/-- in the dead zone `|v| ≤ t` (`t > 0`) the prox is locally constant on one side: not a shift. -/
theorem not_locallyShift_dead (t lb ub v : α) (ht : 0 < t) (h1 : -t ≤ v) (h2 : v ≤ t) :
    ¬ LocallyShift (boxL1 t lb ub) v := by
  rintro ⟨δ, hδ, hs⟩
  have hv : boxL1 t lb ub v = min (max 0 lb) ub := by unfold boxL1; rw [soft_mid t v h1 h2]
  rcases lt_or_eq_of_le h2 with h | h
  · -- move right, staying ≤ t
    have hm : 0 < min (δ / 2) (t - v) := lt_min (by linarith) (by linarith)
    have hl1 := min_le_left (δ / 2) (t - v)
    have hl2 := min_le_right (δ / 2) (t - v)
    have := hs (v + min (δ / 2) (t - v)) (by rw [abs_lt]; constructor <;> linarith)
    have hv' : boxL1 t lb ub (v + min (δ / 2) (t - v)) = min (max 0 lb) ub := by
      unfold boxL1; rw [soft_mid t _ (by linarith) (by linarith)]
    rw [hv, hv'] at this; linarith
  · -- v = t: move left, staying ≥ −t
    have hm : 0 < min (δ / 2) (2 * t) := lt_min (by linarith) (by linarith)
    have hl1 := min_le_left (δ / 2) (2 * t)
    have hl2 := min_le_right (δ / 2) (2 * t)
    have := hs (v - min (δ / 2) (2 * t)) (by rw [abs_lt]; constructor <;> linarith)
    have hv' : boxL1 t lb ub (v - min (δ / 2) (2 * t)) = min (max 0 lb) ub := by
      unfold boxL1; rw [soft_mid t _ (by linarith) (by linarith)]
    rw [hv, hv'] at this; linarith

/-- **General (box + ℓ1) case of `eval_inactive_indices_res_lna`**: for `γλ > 0` the model's
    predicate holds iff the box+ℓ1 prox is locally the identity shift around the forward point. -/
theorem inactiveGeneral_iff_locally_shift (lam γ lb ub v : α) (ht : 0 < γ * lam) (h : lb ≤ ub) :
    inactiveGeneral lam γ lb ub v = true ↔ LocallyShift (boxL1 (γ * lam) lb ub) v := by
  have hlam : lam ≠ 0 := by rintro rfl; simp at ht
  unfold inactiveGeneral
  rw [if_neg (by simpa using hlam)]
  split_ifs with h1 h2
  · -- v > t: prox = clamp(w − t) near v
    rw [inInterior_iff_locallyShift _ _ _ h]
    have := locallyShift_of_eq_shift (boxL1 (γ * lam) lb ub) (fun w => min (max w lb) ub) v (-(γ * lam))
      (v - γ * lam) (by linarith) (fun w hw => by
        rw [abs_lt] at hw
        unfold boxL1; rw [soft_gt _ _ ht.le (by linarith)]; ring_nf)
    rw [this, sub_eq_add_neg]
  · rw [inInterior_iff_locallyShift _ _ _ h]
    have h2' : v < -(γ * lam) := by linarith
    have := locallyShift_of_eq_shift (boxL1 (γ * lam) lb ub) (fun w => min (max w lb) ub) v (γ * lam)
      (-(γ * lam) - v) (by linarith) (fun w hw => by
        rw [abs_lt] at hw
        unfold boxL1; rw [soft_lt _ _ ht.le (by linarith)])
    rw [this]
  · simp only [false_iff]
    exact not_locallyShift_dead _ lb ub v ht (by linarith) (by linarith)

/-! ### Vector lifts of the componentwise theorems (`BoxConstrProblem::eval_prox_grad_step`) -/

/-- the ℓ1 weight the dispatch of `BoxConstrProblem::eval_prox_grad_step` uses for component `i`
    (`l1_reg` of size 0: none, size 1: the scalar, otherwise per component). -/
def lamAt (l1 : Vec α) (i : Nat) : α :=
  if l1.length = 0 then 0 else if l1.length = 1 then vget l1 0 else vget l1 i

theorem boxL1_zero (lb ub v : α) : boxL1 0 lb ub v = min (max v lb) ub := by
  unfold boxL1
  rw [add_zero, sub_zero]
  congr 2
  rcases le_total 0 v with h | h
  · rw [min_eq_left h, max_eq_right h]
  · rw [min_eq_right h, max_eq_left le_rfl]

/-- every component of the vector output is the scalar box+ℓ1 prox of the forward point. -/
theorem proxGradStep_xhat (l1 : Vec α) (γ : α) (x g lb ub : Vec α) (i : Nat) (hi : i < x.length) :
    vget (proxGradStep l1 γ x g lb ub).2.1 i
      = boxL1 (γ * lamAt l1 i) (vget lb i) (vget ub i) (vget x i - γ * vget g i) := by
  unfold proxGradStep lamAt
  by_cases h0 : l1.length = 0
  · simp only [h0, beq_self_eq_true, if_true, List.map_map]
    rw [vget_map_range _ _ _ hi]
    simp only [Function.comp, projGradStepBox_eq_proj, mul_zero, boxL1_zero]
  · by_cases h1 : l1.length = 1
    · simp only [h1, beq_self_eq_true, if_true, List.map_map, Nat.one_ne_zero, if_false,
        show (1 == 0) = false from rfl, Bool.false_eq_true]
      rw [vget_map_range _ _ _ hi]
      simp only [Function.comp, (proxGradStepBoxL1_eq _ _ _ _ _ _).1, boxL1]
    · simp only [h0, h1, beq_iff_eq, if_false, List.map_map]
      rw [vget_map_range _ _ _ hi]
      simp only [Function.comp, (proxGradStepBoxL1_eq _ _ _ _ _ _).1, boxL1]

theorem proxGradStep_xhat_length (l1 : Vec α) (γ : α) (x g lb ub : Vec α) :
    (proxGradStep l1 γ x g lb ub).2.1.length = x.length := by
  unfold proxGradStep
  split_ifs <;> simp


/-- membership in the box, componentwise (`Box::lowerbound ≤ v ≤ Box::upperbound`). -/
def InBox (lb ub v : Vec α) : Prop := ∀ i < v.length, vget lb i ≤ vget v i ∧ vget v i ≤ vget ub i

theorem boxL1_in_box (t lb ub v : α) (h : lb ≤ ub) : lb ≤ boxL1 t lb ub v ∧ boxL1 t lb ub v ≤ ub :=
  ⟨le_min (le_max_right _ _) h, min_le_right _ _⟩

/-- **`ProxMapsIntoBox`**: the shipped prox step of the box-constrained problem class maps into
    `C`, in the form the loop-level feasibility theorems (`panoc_x_out_feasible`,
    `zerofpr_x_out_feasible`, `pantr_x_out_feasible`, `fista_x_out_feasible`) take as hypothesis
    `hP : ∀ γ x g, InC (P.prox γ x g).2.1`, with `P.prox γ x g = proxGradStep l1 γ x g lb ub`
    and `InC = InBox lb ub`. -/
theorem ProxMapsIntoBox (l1 lb ub : Vec α) (hb : ∀ i, vget lb i ≤ vget ub i) :
    ∀ γ x g, InBox lb ub ((fun γ x g => proxGradStep l1 γ x g lb ub) γ x g).2.1 := by
  intro γ x g i hi
  rw [proxGradStep_xhat_length] at hi
  show vget lb i ≤ vget (proxGradStep l1 γ x g lb ub).2.1 i ∧ vget (proxGradStep l1 γ x g lb ub).2.1 i ≤ vget ub i
  rw [proxGradStep_xhat _ _ _ _ _ _ _ hi]
  exact boxL1_in_box _ _ _ _ (hb i)

/-- `p = x̂ − x`, for the whole vector. -/
theorem proxGradStep_p_eq (l1 : Vec α) (γ : α) (x g lb ub : Vec α) (i : Nat) (hi : i < x.length) :
    vget (proxGradStep l1 γ x g lb ub).2.2 i = vget (proxGradStep l1 γ x g lb ub).2.1 i - vget x i := by
  unfold proxGradStep
  split_ifs <;>
  · simp only [List.map_map]
    rw [vget_map_range _ _ _ hi, vget_map_range _ _ _ hi]
    simp only [Function.comp, projGradStepBox, proxGradStepBoxL1]; ring

/-- **Vector form**: the output `x̂` of `C15.proxGradStep` minimises
    `h(u) + ‖u − v‖²/(2γ)`, `h(u) = Σ λ_i |u_i|`, `v = x − γ g`, over the box. -/
theorem proxGradStep_vector_is_prox (l1 : Vec α) (γ : α) (x g lb ub : Vec α) (hγ : 0 < γ)
    (hb : ∀ i < x.length, vget lb i ≤ vget ub i) (hl : ∀ i < x.length, 0 ≤ lamAt l1 i)
    (u : Vec α) (hu : ∀ i < x.length, vget lb i ≤ vget u i ∧ vget u i ≤ vget ub i) :
    ((List.range x.length).map fun i =>
        lamAt l1 i * |vget (proxGradStep l1 γ x g lb ub).2.1 i|
          + (vget (proxGradStep l1 γ x g lb ub).2.1 i - (vget x i - γ * vget g i)) ^ 2 / (2 * γ)).sum
      ≤ ((List.range x.length).map fun i =>
        lamAt l1 i * |vget u i| + (vget u i - (vget x i - γ * vget g i)) ^ 2 / (2 * γ)).sum := by
  apply sum_range_le
  intro i hi
  rw [proxGradStep_xhat _ _ _ _ _ _ _ hi]
  exact boxL1_is_prox (lamAt l1 i) γ _ _ _ (hl i hi) hγ (hb i hi) _ (hu i hi).1 (hu i hi).2


/-- **returned value**: `eval_prox_grad_step` returns `h(x̂) = Σ λ_i |x̂_i|` (0 without ℓ1 term).
    In the per-component case the weight vector must have the size of `x` (as the C++ asserts). -/
theorem proxGradStep_returns_h (l1 : Vec α) (γ : α) (x g lb ub : Vec α)
    (hl : ∀ i < x.length, 0 ≤ lamAt l1 i) (hlen : l1.length ≤ 1 ∨ l1.length = x.length) :
    (proxGradStep l1 γ x g lb ub).1
      = ((List.range x.length).map fun i => lamAt l1 i * |vget (proxGradStep l1 γ x g lb ub).2.1 i|).sum := by
  have key : ∀ (f : Nat → α), ((List.range x.length).map fun i =>
      lamAt l1 i * |vget ((List.range x.length).map f) i|).sum
      = ((List.range x.length).map fun i => lamAt l1 i * |f i|).sum := by
    intro f; apply sum_map_range_congr; intro i hi; rw [vget_map_range _ _ _ hi]
  unfold proxGradStep
  by_cases h0 : l1.length = 0
  · simp only [h0, beq_self_eq_true, if_true]
    have : ∀ i, lamAt l1 i = 0 := fun i => by simp [lamAt, h0]
    simp [this]
  · by_cases h1 : l1.length = 1
    · simp only [h1, beq_self_eq_true, if_true, if_false, show (1 == 0) = false from rfl,
        Bool.false_eq_true, List.map_map]
      rw [key, norm1_eq_sum_abs, List.map_map, ← sum_map_mul_left_nat]
      apply sum_map_range_congr; intro i _
      simp [lamAt, h1]
    · have hn : l1.length = x.length := by rcases hlen with h | h <;> omega
      simp only [h0, h1, beq_iff_eq, if_false, List.map_map]
      rw [key, norm1_eq_sum_abs]
      conv_lhs => rw [eq_map_range_vget l1, hn]
      unfold vmul vzip
      rw [zipWith_map_range, List.map_map]
      apply sum_map_range_congr; intro i hi
      have hli := hl i hi
      simp only [lamAt, h0, h1, if_false] at hli ⊢
      simp only [Function.comp, abs_mul, abs_of_nonneg hli]
      rw [vget_map_range _ _ _ hi]; ring

/-! ### The list `J` of `eval_inactive_indices_res_lna` -/

theorem inactiveGeneral_zero (γ lb ub v : α) : inactiveGeneral 0 γ lb ub v = inInterior lb ub v := by
  simp [inactiveGeneral]

/-- membership in the model's `J`, per component, for every size of `l1_reg`. -/
theorem mem_inactiveIndices_iff (l1 : Vec α) (γ : α) (x g lb ub : Vec α) (i : Nat) :
    i ∈ inactiveIndices l1 γ x g lb ub ↔
      i < x.length ∧ inactiveGeneral (lamAt l1 i) γ (vget lb i) (vget ub i) (vget x i - γ * vget g i) = true := by
  unfold inactiveIndices lamAt
  simp only [List.mem_filter, List.mem_range]
  apply and_congr_right
  intro _
  by_cases h0 : l1.length = 0
  · simp [h0, inactiveGeneral_zero]
  · by_cases h1 : l1.length = 1
    · by_cases hz : vget l1 0 = 0
      · simp [h1, hz, inactiveGeneral_zero]
      · simp [h1, hz]
    · simp [h0, h1]

/-- `J` is reported in strictly increasing order, without repetition. -/
theorem inactiveIndices_sorted (l1 : Vec α) (γ : α) (x g lb ub : Vec α) :
    (inactiveIndices l1 γ x g lb ub).Pairwise (· < ·) := by
  unfold inactiveIndices
  exact List.Pairwise.filter _ List.pairwise_lt_range

/-- **The reported set of inactive indices is exactly the set of components where the prox is
    locally the identity shift** (`γ > 0`, weights `≥ 0`, `lb ≤ ub`; box-only, scalar-weight and
    per-component-weight dispatch alike, zero weights included). -/
theorem inactiveIndices_iff_locally_shift (l1 : Vec α) (γ : α) (x g lb ub : Vec α) (hγ : 0 < γ)
    (hl : ∀ i < x.length, 0 ≤ lamAt l1 i) (hb : ∀ i < x.length, vget lb i ≤ vget ub i) (i : Nat) :
    i ∈ inactiveIndices l1 γ x g lb ub ↔
      i < x.length ∧
        LocallyShift (boxL1 (γ * lamAt l1 i) (vget lb i) (vget ub i)) (vget x i - γ * vget g i) := by
  rw [mem_inactiveIndices_iff]
  apply and_congr_right
  intro hi
  rcases (hl i hi).eq_or_lt with h0 | hpos
  · rw [← h0, inactiveGeneral_zero, mul_zero, inInterior_iff_locallyShift _ _ _ (hb i hi)]
    have : boxL1 0 (vget lb i) (vget ub i) = fun w => min (max w (vget lb i)) (vget ub i) := by
      funext w; exact boxL1_zero _ _ w
    rw [this]
  · exact inactiveGeneral_iff_locally_shift _ _ _ _ _ (mul_pos hγ hpos) (hb i hi)

/-! ### Complex ℓ1 norm (`L1NormComplex::prox`, the generated `soft_thres` lambdas) -/

section Complex
variable [RealLike α]

/-- **`cplxSoft_is_prox`**: for `v = (a, b)`, `γ > 0`, `λ ≥ 0` the generated map returns a
    minimiser of `φ(u) = λ‖u‖ + ‖u − v‖²/(2γ)` over `u ∈ ℝ²` (variational form). -/
theorem cplxSoft_is_prox (hs : LawfulSqrt α) (γ lam a b : α) (hγ : 0 < γ) (hl : 0 ≤ lam) (u1 u2 : α) :
    lam * RealLike.sqrt ((cplxSoftScalarW γ lam a b).1 * (cplxSoftScalarW γ lam a b).1
          + (cplxSoftScalarW γ lam a b).2 * (cplxSoftScalarW γ lam a b).2)
        + (((cplxSoftScalarW γ lam a b).1 - a) ^ 2 + ((cplxSoftScalarW γ lam a b).2 - b) ^ 2) / (2 * γ)
      ≤ lam * RealLike.sqrt (u1 * u1 + u2 * u2) + ((u1 - a) ^ 2 + (u2 - b) ^ 2) / (2 * γ) := by
  have h := cplxSoft_strong hs γ lam a b u1 u2 hγ hl
  have : 0 ≤ ((u1 - (cplxSoftScalarW γ lam a b).1) ^ 2 + (u2 - (cplxSoftScalarW γ lam a b).2) ^ 2) / (2 * γ) :=
    div_nonneg (add_nonneg (sq_nonneg _) (sq_nonneg _)) (by linarith)
  linarith

/-- **uniqueness**: any `u` that does as well as the output *is* the output. -/
theorem cplxSoft_unique (hs : LawfulSqrt α) (γ lam a b : α) (hγ : 0 < γ) (hl : 0 ≤ lam) (u1 u2 : α)
    (hu : lam * RealLike.sqrt (u1 * u1 + u2 * u2) + ((u1 - a) ^ 2 + (u2 - b) ^ 2) / (2 * γ)
      ≤ lam * RealLike.sqrt ((cplxSoftScalarW γ lam a b).1 * (cplxSoftScalarW γ lam a b).1
          + (cplxSoftScalarW γ lam a b).2 * (cplxSoftScalarW γ lam a b).2)
        + (((cplxSoftScalarW γ lam a b).1 - a) ^ 2 + ((cplxSoftScalarW γ lam a b).2 - b) ^ 2) / (2 * γ)) :
    u1 = (cplxSoftScalarW γ lam a b).1 ∧ u2 = (cplxSoftScalarW γ lam a b).2 := by
  have h := cplxSoft_strong hs γ lam a b u1 u2 hγ hl
  have h2γ : (0:α) < 2 * γ := by linarith
  have hq : ((u1 - (cplxSoftScalarW γ lam a b).1) ^ 2 + (u2 - (cplxSoftScalarW γ lam a b).2) ^ 2) / (2 * γ) ≤ 0 := by
    linarith
  have hq' : (u1 - (cplxSoftScalarW γ lam a b).1) ^ 2 + (u2 - (cplxSoftScalarW γ lam a b).2) ^ 2 ≤ 0 := by
    by_contra hc; rw [not_le] at hc
    exact absurd (div_pos hc h2γ) (not_lt.mpr hq)
  have e1 : u1 - (cplxSoftScalarW γ lam a b).1 = 0 := by
    nlinarith [sq_nonneg (u1 - (cplxSoftScalarW γ lam a b).1), sq_nonneg (u2 - (cplxSoftScalarW γ lam a b).2)]
  have e2 : u2 - (cplxSoftScalarW γ lam a b).2 = 0 := by
    nlinarith [sq_nonneg (u1 - (cplxSoftScalarW γ lam a b).1), sq_nonneg (u2 - (cplxSoftScalarW γ lam a b).2)]
  exact ⟨by linarith, by linarith⟩

/-- the tie `|v|² = (γλ)²` (the `<=` of the source) gives 0, which is what the closed form
    `v·(1 − γλ/|v|)` also evaluates to — included in the two theorems above. -/
theorem cplxSoft_tie (γ lam a b : α) (h : a * a + b * b = (γ * lam) * (γ * lam)) :
    cplxSoftScalarW γ lam a b = (0, 0) := by
  rw [cplxSoft_closed, if_pos h.le]

/-- the per-component-weight lambda is the same map. -/
theorem cplxSoftVectorW_is_scalar (γ lam a b : α) :
    cplxSoftVectorW γ lam a b = cplxSoftScalarW γ lam a b := rfl

/-- **returned value** (scalar weight): `h = λ Σ_i |out_i|`, and `out` is the soft-threshold of
    every component (`λ ≠ 0`; `λ = 0` returns the input and 0). -/
theorem cplxL1ProxScalarW_spec (lam γ : α) (v : CVec α) (hl : lam ≠ 0) :
    (cplxL1ProxScalarW lam γ v).1 = v.map (fun z => cplxSoftScalarW γ lam z.1 z.2) ∧
    (cplxL1ProxScalarW lam γ v).2
      = lam * (((cplxL1ProxScalarW lam γ v).1.map fun z => RealLike.sqrt (z.1 * z.1 + z.2 * z.2)).sum) := by
  have : (lam == 0) = false := by simpa using hl
  simp only [cplxL1ProxScalarW, this, Bool.false_eq_true, if_false, cplxL1ValueScalarW, cnorm1, vsum_eq_sum,
    true_and]
  rfl

theorem cplxL1ProxScalarW_zero (γ : α) (v : CVec α) : cplxL1ProxScalarW 0 γ v = (v, 0) := by
  simp [cplxL1ProxScalarW]

/-- **vector lift**: the whole output vector minimises `Σ_i λ|u_i| + |u_i − v_i|²/(2γ)`. -/
theorem cplxL1_vector_is_prox (hs : LawfulSqrt α) (γ lam : α) (hγ : 0 < γ) (hl : 0 ≤ lam) (v u : CVec α)
    (hlen : u.length = v.length) :
    (List.zipWith (fun s z => lam * RealLike.sqrt (s.1 * s.1 + s.2 * s.2)
        + ((s.1 - z.1) ^ 2 + (s.2 - z.2) ^ 2) / (2 * γ)) (v.map fun z => cplxSoftScalarW γ lam z.1 z.2) v).sum
      ≤ (List.zipWith (fun s z => lam * RealLike.sqrt (s.1 * s.1 + s.2 * s.2)
        + ((s.1 - z.1) ^ 2 + (s.2 - z.2) ^ 2) / (2 * γ)) u v).sum := by
  induction v generalizing u with
  | nil => cases u <;> simp_all
  | cons z zs ih =>
    cases u with
    | nil => simp at hlen
    | cons w ws =>
      simp only [List.map_cons, List.zipWith_cons_cons, List.sum_cons]
      exact add_le_add (cplxSoft_is_prox hs γ lam z.1 z.2 hγ hl w.1 w.2) (ih ws (by simpa using hlen))

/-- `|z·l| = l·|z|` for a real weight `l ≥ 0` (what `out.cwiseProduct(λ)` feeds to `norm_1`). -/
theorem cabs_scale (hs : LawfulSqrt α) (z : α × α) (l : α) (hl : 0 ≤ l) :
    cabs (z.1 * l, z.2 * l) = l * cabs z := by
  unfold cabs
  have h0 := mag2_nonneg z.1 z.2
  apply sqrt_eq_of_mul_self hs _ _ (mul_nonneg hl (hs.sqrt_nonneg _ h0))
  have := hs.sqrt_mul_self _ h0
  simp only []
  linear_combination l * l * this

/-- **returned value** (per-component weights `λ_i ≥ 0`): `h = Σ_i λ_i |out_i|`. -/
theorem cplxL1ValueVectorW_eq (hs : LawfulSqrt α) (lam : Vec α) (out : CVec α) (hl : ∀ l ∈ lam, 0 ≤ l) :
    cplxL1ValueVectorW lam out = (List.zipWith (fun z l => l * cabs z) out lam).sum := by
  simp only [cplxL1ValueVectorW, cnorm1, vsum_eq_sum, cscale]
  congr 1
  induction out generalizing lam with
  | nil => simp
  | cons z zs ih =>
    cases lam with
    | nil => simp
    | cons l ls =>
      simp only [List.zipWith_cons_cons, List.map_cons]
      rw [ih ls (fun l' h' => hl l' (List.mem_cons_of_mem _ h')), cabs_scale hs z l (hl l (List.mem_cons_self ..))]

end Complex

/-- `ℝ` with `Real.sqrt` as the model's `sqrt`: the carrier assumption is satisfiable. -/
noncomputable local instance realLikeRealC15 : RealLike ℝ := ⟨Real.sqrt, fun _ => false, fun _ => true⟩

theorem lawfulSqrt_real : LawfulSqrt ℝ where
  sqrt_nonneg := fun a _ => Real.sqrt_nonneg a
  sqrt_mul_self := fun a ha => Real.mul_self_sqrt ha

/-- `cplxSoft_is_prox` at `ℝ`, with `‖·‖` written with `Real.sqrt`. -/
theorem cplxSoft_is_prox_real (γ lam a b : ℝ) (hγ : 0 < γ) (hl : 0 ≤ lam) (u1 u2 : ℝ) :
    lam * Real.sqrt ((cplxSoftScalarW γ lam a b).1 * (cplxSoftScalarW γ lam a b).1
          + (cplxSoftScalarW γ lam a b).2 * (cplxSoftScalarW γ lam a b).2)
        + (((cplxSoftScalarW γ lam a b).1 - a) ^ 2 + ((cplxSoftScalarW γ lam a b).2 - b) ^ 2) / (2 * γ)
      ≤ lam * Real.sqrt (u1 * u1 + u2 * u2) + ((u1 - a) ^ 2 + (u2 - b) ^ 2) / (2 * γ) :=
  cplxSoft_is_prox lawfulSqrt_real γ lam a b hγ hl u1 u2

/-! ### Nuclear norm (`NuclearNorm::prox`, the part after the SVD oracle) -/

/-- **`nuclear_sv_threshold_is_prox`**: the thresholded singular values
    `singular_values = Zero.cwiseMax(σ − λγ)` minimise `Σ_i λ s_i + (s_i − σ_i)²/(2γ)` over all
    `s ≥ 0` (componentwise) — for every σ, sorted or not, and every λ. -/
theorem nuclear_sv_threshold_is_prox (lam γ : α) (σ : List α) (hγ : 0 < γ) (s : List α)
    (hs : ∀ i < σ.length, 0 ≤ vget s i) :
    ((List.range σ.length).map fun i =>
        lam * vget (σ.map (nucThreshold lam γ)) i
          + (vget (σ.map (nucThreshold lam γ)) i - vget σ i) ^ 2 / (2 * γ)).sum
      ≤ ((List.range σ.length).map fun i => lam * vget s i + (vget s i - vget σ i) ^ 2 / (2 * γ)).sum :=
  nuc_sv_sum_is_prox lam γ σ hγ s hs

/-- `rank` = number of singular values strictly above `λγ`; every thresholded value before it is
    positive and (σ sorted non-increasing) every one from it on is zero. -/
theorem nuclear_rank_spec (lam γ : α) (σ : List α) (hσ : SortedDesc σ) :
    nucRank (σ.map (nucThreshold lam γ)) = (σ.filter (fun s => decide (lam * γ < s))).length ∧
    (∀ i < nucRank (σ.map (nucThreshold lam γ)), 0 < vget (σ.map (nucThreshold lam γ)) i) ∧
    (∀ i, nucRank (σ.map (nucThreshold lam γ)) ≤ i → vget (σ.map (nucThreshold lam γ)) i = 0) :=
  ⟨nucRank_eq_count lam γ σ hσ, fun i hi => nuc_before_rank_pos lam γ σ i hi,
   fun i hi => nuc_after_rank_zero lam γ σ hσ i hi⟩

/-- **`nuclear_prox_partial`** — everything `NuclearNorm::prox` does after `svd.compute`, given
    the singular values `σ` (sorted non-increasing, the oracle's contract) and `λ ≠ 0`, `γ > 0`:
    * the thresholded singular values are `max(σ_i − λγ, 0)` and minimise the separable problem
      over `s ≥ 0`;
    * the returned value is `λ Σ s_i`;
    * `rank` counts the `σ_i > λγ`, the `s_i` before it are positive, from it on zero, so that
    * the reconstruction from the `rank` leading triplets equals the one from all triplets.

    PARTIAL.  Full statement (not proved): for `A = U diag(σ) Vᵀ` with orthonormal columns,
    `out = U diag(s) Vᵀ` is the unique minimiser of `λ‖X‖_* + ‖X − A‖_F²/(2γ)` and the returned
    value is `λ‖out‖_*`.  Missing: the SVD oracle's contract (Eigen::BDCSVD, third party) and
    von Neumann's trace inequality, which reduces the matrix problem to the vector problem above.
    The monitor of checks/c15.py checks both consequences on the real code's output. -/
theorem nuclear_prox_partial (lam γ : α) (σ : List α) (hl : lam ≠ 0) (hγ : 0 < γ) (hσ : SortedDesc σ) :
    ∃ sv value rank, nuclearPost lam γ σ = some (sv, value, rank) ∧
      sv.length = σ.length ∧
      (∀ i < σ.length, vget sv i = max 0 (vget σ i - lam * γ)) ∧
      (∀ s : List α, (∀ i < σ.length, 0 ≤ vget s i) →
        ((List.range σ.length).map fun i => lam * vget sv i + (vget sv i - vget σ i) ^ 2 / (2 * γ)).sum
          ≤ ((List.range σ.length).map fun i => lam * vget s i + (vget s i - vget σ i) ^ 2 / (2 * γ)).sum) ∧
      value = lam * sv.sum ∧
      rank = (σ.filter (fun s => decide (lam * γ < s))).length ∧
      (∀ i < rank, 0 < vget sv i) ∧ (∀ i, rank ≤ i → vget sv i = 0) ∧
      (∀ rows cols U V, nuclearReconstruct rows cols rank sv U V
                          = nuclearReconstruct rows cols σ.length sv U V) := by
  have hb : (lam == 0) = false := by simpa using hl
  refine ⟨σ.map (nucThreshold lam γ), nucValue lam (σ.map (nucThreshold lam γ)),
    nucRank (σ.map (nucThreshold lam γ)), by simp [nuclearPost, hb], by simp, ?_, ?_, ?_, ?_, ?_, ?_, ?_⟩
  · intro i hi; rw [vget_map _ _ _ hi, nucThreshold_eq]
  · exact fun s hs => nuc_sv_sum_is_prox lam γ σ hγ s hs
  · exact nucValue_eq lam γ σ
  · exact nucRank_eq_count lam γ σ hσ
  · exact fun i hi => nuc_before_rank_pos lam γ σ i hi
  · exact fun i hi => nuc_after_rank_zero lam γ σ hσ i hi
  · exact fun rows cols U V => nuclearReconstruct_rank_eq_full lam γ σ hσ rows cols U V

/-- `λ = 0`: the early exit (`out = in`, value 0, no SVD). -/
theorem nuclearPost_zero (γ : α) (σ : List α) : nuclearPost 0 γ σ = none := by
  simp [nuclearPost]

/-! ### Non-vacuity: concrete instances meeting the hypotheses (over ℚ) -/

example : (projGradStepBox (1/2 : ℚ) 1 4 0 3).2 = 0 ∧ (0:ℚ) ≤ 3 := by
  norm_num [projGradStepBox, emax, emin]
example : l1ProxScalarW (2 : ℚ) (1/2) 3 = 2 ∧ (0:ℚ) ≤ 2 ∧ (0:ℚ) < 1/2 := by
  norm_num [l1ProxScalarW, emax, emin]
example : (proxGradStepBoxL1 (1 : ℚ) 1 5 1 (-1) 2).2 = 2 := by
  norm_num [proxGradStepBoxL1, emax, emin]
example : inInterior (0:ℚ) 2 1 = true := by decide
example : projMult1 true false (10:ℚ) (-3) = 0 := by
  norm_num [projMult1, emax, emin]

example : inactiveGeneral (1:ℚ) 1 (-1) 3 2 = true ∧ (0:ℚ) < 1 * 1 := by
  norm_num [inactiveGeneral, inInterior]
example : inactiveGeneral (1:ℚ) 1 (-1) 3 (1/2) = false := by
  norm_num [inactiveGeneral, inInterior]
example : (proxGradStep [(1:ℚ)] 1 [5, 0] [1, 0] [-1, -1] [2, 2]).2.1 = [2, 0] := by
  norm_num [proxGradStep, proxGradStepBoxL1, vget, emax, emin, List.range, List.range.loop]
example : nucThreshold (1:ℚ) (1/2) 2 = 3/2 ∧ nucThreshold (1:ℚ) (1/2) (1/4) = 0 := by
  norm_num [nucThreshold, emax]
example : SortedDesc [(3:ℚ), 1, 1/4, 0] ∧ nucRank ([(3:ℚ), 1, 1/4, 0].map (nucThreshold 1 (1/2))) = 2 := by
  constructor
  · norm_num [SortedDesc]
  · rw [nucRank_map]; norm_num [List.findIdx_cons]
/-- the complex soft-threshold at concrete points over `ℝ`: `v = 3 + 4i`, `γλ = 1` gives
    `v·(1 − 1/5)`; `γλ = 5` is the tie `|v| = γλ`. -/
example : cplxSoftScalarW (1:ℝ) 1 3 4 = (12/5, 16/5) := by
  have h5 : RealLike.sqrt ((3:ℝ) * 3 + 4 * 4) = 5 :=
    sqrt_eq_of_mul_self lawfulSqrt_real 5 _ (by norm_num) (by norm_num)
  rw [cplxSoft_closed, h5, if_neg (by norm_num)]
  norm_num
example : cplxSoftScalarW (1:ℝ) 5 3 4 = (0, 0) := cplxSoft_tie _ _ _ _ (by norm_num)

end Alpaqa.Props.C15
