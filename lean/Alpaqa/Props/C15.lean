/-
  C15 — Proximal / projection operators return the true minimiser and its function value.

  Every theorem here is about the definitions in `Alpaqa/Gen/C15.lean`, which are regenerated
  from /repo's C++ on every run (componentwise kernels, the `soft_thres` lambdas of the complex
  ℓ1 norm, the post-SVD statements of the nuclear norm), or about the hand-written models in
  `Alpaqa/Model/C15.lean`, which are tied by the correspondence run.  The sqrt-free theorems hold
  over every linearly ordered field (so at ℚ and ℝ alike); the complex-ℓ1 theorems over every
  linearly ordered field with a lawful `sqrt` (`C15.LawfulSqrt`; the `ℝ` instance with `Real.sqrt`
  is constructed below, so they are not vacuous).  No IEEE rounding is modelled.

  UNIQUENESS.  Every real prox kernel is proved in the strong (quadratic-growth) form
  `φ(x̂) + (u − x̂)²/(2γ) ≤ φ(u)` for all feasible `u`, hence `φ(u) ≤ φ(x̂) → u = x̂`
  (`l1Prox_strong/_unique`, `soft_strong/_unique`, `proj_strong`, `projGradStepBox_strong/_unique`,
  `boxL1_strong/_unique`, `proxGradStepBoxL1_strong/_unique`, `proxGradStep_vector_strong/_unique`;
  the complex ℓ1 kernel: `cplxSoft_strong`, `cplxSoft_unique`).

  INFINITE BOUNDS.  The field has no `±inf`.  Extended bounds are `Option α` (`none` = −∞ / +∞);
  `clampO`, `boxL1O`, `inInteriorO`, `inactiveGeneralO` are the kernels with the `max` / `min` /
  comparison of an infinite side absent — which is what IEEE computes with `±inf` on finite data
  (`max(a, -inf) = a`, `-inf < a`), and what the driver runs at `Float`.  Bridge theorems
  (`clamp_far`, `projectBox_inf`, `projGradStepBox_inf`, `proxStepBox_inf`, `proxGradStepBoxL1_inf`,
  `inInterior_inf`, `inactiveGeneral_inf`, `proxGradStep_xhat_inf`): every finite stand-in that is
  far enough (`Far`, explicit thresholds) makes the generated finite-bound kernel compute the
  extended one; the minimiser / uniqueness / locally-shift theorems are then proved for the extended
  kernels over the extended box (`clampO_strong`, `boxL1O_strong/_unique`,
  `inInteriorO_iff_locallyShift`, `inactiveGeneralO_iff_locallyShift`,
  `proxGradStep_vector_strong_inf/_unique_inf`, `inactiveIndices_iff_locally_shift_inf`).
  `projMultipliers` takes the flags "bound is infinite" themselves, so needs no stand-in.

  RETURNED VALUE OF THE REAL `L1Norm::prox`, GENERIC `prox_step`.  `l1ProxScalarWeight` /
  `l1ProxVectorWeight` (Model/C15.lean) are `L1Norm::prox` as a whole: the generated soft-threshold
  per component, the generated returned values `λ * norm_1(out)` / `norm_1(out.cwiseProduct(λ))`,
  the `λ == 0` branch and the empty-weight default (all ones), the branch structure pinned by the
  translator.  `l1ProxScalarWeight_returns_h`, `l1ProxVectorWeight_returns_h`: the value is `h(out)`;
  `l1ProxScalarWeight_unique`, `l1ProxVectorWeight_unique`: `out` is the unique minimiser.
  `proxStepDefault` is the generic default of the `prox_step` customisation point with its two
  assignments generated from prox.hpp; `proxStepDefault_spec`: as coded = as documented
  (`out = prox(in + γ_fwd·fwd_step)`, `fb_step = out − in`, returns `h(out)`), for any `prox`.

  NUCLEAR NORM — what is proved and what is the oracle's contract (`nuclear_prox_partial`).
  `NuclearNorm::prox` calls `Eigen::BDCSVD` (third party, an oracle of the model) and then
  thresholds the singular values, computes the value, selects `rank` leading triplets and forms
  `U₁ Σ₁ V₁ᵀ`.  Proved here, for the statements regenerated from the source: the thresholded
  singular values minimise `Σ λ s_i + (s_i − σ_i)²/(2γ)` over `s ≥ 0`; the returned value is
  `λ Σ s_i`; `rank` = number of `σ_i > γλ`; for σ sorted non-increasing every entry from `rank` on
  is zero, so the truncated reconstruction equals the full one.  NOT proved: that
  `U diag(s) Vᵀ` is the minimiser of `λ‖X‖_* + ‖X − A‖_F²/(2γ)` over matrices.  That needs
  (i) the oracle's contract `A = U diag(σ) Vᵀ`, `UᵀU = VᵀV = I`, σ sorted non-increasing ≥ 0, and
  (ii) von Neumann's trace inequality `⟨X, A⟩ ≤ Σ σ_i(X) σ_i(A)`, which reduces the matrix
  problem to the vector problem solved here.  Neither is formalised; the check's monitor verifies
  both on every run against an independent SVD of the input (see checks/c15.py).
-/
import Alpaqa.Proofs.Basic
import Alpaqa.Proofs.C15Lemmas
import Alpaqa.Proofs.C15Cplx
import Alpaqa.Proofs.C15Nuc
import Mathlib.Analysis.Real.Sqrt
import Alpaqa.Gen.C15
import Alpaqa.Model.C15

namespace Alpaqa.Props.C15
open Alpaqa Alpaqa.Gen Alpaqa.C15
set_option linter.unusedSectionVars false

variable {α : Type} [Field α] [LinearOrder α] [IsStrictOrderedRing α]

/-! ### Box projection step (`BoxConstrProblem::eval_proj_grad_step_box`) -/

/-- `p` equals output minus input. -/
theorem projGradStepBox_p_eq (γ x g lb ub : α) :
    (projGradStepBox γ x g lb ub).2 = x + (projGradStepBox γ x g lb ub).1 := rfl

/-- The step lands on the projection of the forward point `v = x − γ g` onto `[lb, ub]`. -/
theorem projGradStepBox_eq_proj (γ x g lb ub : α) :
    (projGradStepBox γ x g lb ub).2 = min (max (x - γ * g) lb) ub := by
  simp only [projGradStepBox, emax_eq_max, emin_eq_min]
  rw [← min_add_add_left, ← max_add_add_left]
  congr 1 <;> [congr 1 <;> ring; ring]

/-- Feasibility: for `lb ≤ ub` the output is inside the box. -/
theorem projGradStepBox_feasible (γ x g lb ub : α) (h : lb ≤ ub) :
    lb ≤ (projGradStepBox γ x g lb ub).2 ∧ (projGradStepBox γ x g lb ub).2 ≤ ub := by
  rw [projGradStepBox_eq_proj]
  exact ⟨le_min (le_max_right _ _) h, min_le_right _ _⟩

/-- The projection is the prox of the indicator: it is the (unique) closest point of the box. -/
theorem proj_is_prox (v lb ub : α) (h : lb ≤ ub) (u : α) (hl : lb ≤ u) (hu : u ≤ ub) :
    (min (max v lb) ub - v) ^ 2 ≤ (u - v) ^ 2 ∧
    ((u - v) ^ 2 ≤ (min (max v lb) ub - v) ^ 2 → u = min (max v lb) ub) := by
  rcases le_total v lb with h1 | h1
  · rw [max_eq_right h1, min_eq_left h]
    constructor
    · nlinarith
    · intro h2; nlinarith
  · rw [max_eq_left h1]
    rcases le_total v ub with h3 | h3
    · rw [min_eq_left h3]; constructor
      · nlinarith [sq_nonneg (u - v)]
      · intro h2
        have : (u - v) ^ 2 ≤ 0 := by simpa using h2
        have : u - v = 0 := by nlinarith [sq_nonneg (u - v)]
        linarith
    · rw [min_eq_right h3]; constructor
      · nlinarith
      · intro h2; nlinarith

/-- `eval_proj_grad_step_box` is the prox-grad step of `h = δ_[lb,ub]` (value `h(x̂) = 0`). -/
theorem projGradStepBox_is_prox (γ x g lb ub : α) (h : lb ≤ ub) (u : α) (hl : lb ≤ u) (hu : u ≤ ub) :
    ((projGradStepBox γ x g lb ub).2 - (x - γ * g)) ^ 2 ≤ (u - (x - γ * g)) ^ 2 := by
  rw [projGradStepBox_eq_proj]; exact (proj_is_prox _ lb ub h u hl hu).1

/-! ### `sets::project`, `prox(Box)` and `prox_step(Box)` are the same projection -/

theorem projectBox_eq (v lb ub : α) : projectBox v lb ub = min (max v lb) ub := by
  simp [projectBox]

theorem proxBox_eq (v lb ub : α) : proxBox v lb ub = min (max v lb) ub := by
  simp [proxBox]

theorem proxStepBox_eq (x d γf lb ub : α) :
    (proxStepBox x d γf lb ub).2 = min (max (x + γf * d) lb) ub ∧
    (proxStepBox x d γf lb ub).1 = (proxStepBox x d γf lb ub).2 - x := by
  simp only [proxStepBox, emax_eq_max, emin_eq_min]
  constructor
  · rw [← min_add_add_left, ← max_add_add_left]
    congr 1 <;> [congr 1 <;> ring; ring]
  · ring

theorem proxGradStepUnconstr_eq (γ x g : α) :
    (proxGradStepUnconstr γ x g).2 = x - γ * g ∧
    (proxGradStepUnconstr γ x g).1 = (proxGradStepUnconstr γ x g).2 - x := by
  simp only [proxGradStepUnconstr]; constructor <;> ring

/-! ### Soft-thresholding (`L1Norm::prox`) -/

/-- closed form: `soft v t = v − t` if `v > t`, `v + t` if `v < −t`, else `0` (for `t ≥ 0`). -/
theorem l1Prox_closed (lam γ v : α) (ht : 0 ≤ lam * γ) :
    l1ProxScalarW lam γ v =
      if lam * γ < v then v - lam * γ else if v < -(lam * γ) then v + lam * γ else 0 := by
  simp only [l1ProxScalarW, emax_eq_max, emin_eq_min]
  split_ifs with h1 h2
  · rw [max_eq_right (by linarith), min_eq_left (by linarith)]
  · rw [max_eq_left (by linarith), min_eq_right (by linarith)]
  · rw [max_eq_left (by linarith), min_eq_left (by linarith)]

theorem l1ProxVectorW_eq_scalar (lam γ v : α) : l1ProxVectorW lam γ v = l1ProxScalarW lam γ v := rfl

/-- Variational optimality of soft-thresholding: it minimises `λ|u| + (u − v)²/(2γ)`. -/
theorem l1Prox_is_prox (lam γ v : α) (hl : 0 ≤ lam) (hγ : 0 < γ) (u : α) :
    lam * |l1ProxScalarW lam γ v| + (l1ProxScalarW lam γ v - v) ^ 2 / (2 * γ)
      ≤ lam * |u| + (u - v) ^ 2 / (2 * γ) := by
  have ht : 0 ≤ lam * γ := mul_nonneg hl hγ.le
  rw [l1Prox_closed lam γ v ht]
  have h2γ : (0:α) < 2 * γ := by linarith
  rw [add_div' _ _ _ h2γ.ne', add_div' _ _ _ h2γ.ne', div_le_div_iff_of_pos_right h2γ]
  split_ifs with h1 h2
  · rw [abs_of_pos (by linarith : 0 < v - lam * γ)]
    rcases le_total 0 u with hu | hu
    · rw [abs_of_nonneg hu]; nlinarith [sq_nonneg (u - v + lam * γ)]
    · rw [abs_of_nonpos hu]; nlinarith [sq_nonneg (u - v + lam * γ), mul_nonneg hl hγ.le, mul_nonneg ht (neg_nonneg.mpr hu)]
  · rw [abs_of_neg (by linarith : v + lam * γ < 0)]
    rcases le_total 0 u with hu | hu
    · rw [abs_of_nonneg hu]; nlinarith [sq_nonneg (u - v - lam * γ), mul_nonneg ht hu]
    · rw [abs_of_nonpos hu]; nlinarith [sq_nonneg (u - v - lam * γ)]
  · push_neg at h1 h2
    rw [abs_zero]
    rcases le_total 0 u with hu | hu
    · rw [abs_of_nonneg hu]; nlinarith [sq_nonneg u, mul_nonneg hu (sub_nonneg.mpr h1)]
    · rw [abs_of_nonpos hu]; nlinarith [sq_nonneg u, mul_nonneg (neg_nonneg.mpr hu) (by linarith : 0 ≤ v + lam * γ)]

/-! ### Box + ℓ1 (`eval_prox_grad_step_box_l1_impl`) -/


/-- the two soft-threshold spellings in the code base agree for `t ≥ 0`. -/
theorem soft_forms (v t : α) (ht : 0 ≤ t) :
    max (min 0 (v + t)) (v - t) = min (max 0 (v - t)) (v + t) := by
  simp only [min_def, max_def]; split_ifs <;> linarith

/-- `eval_prox_grad_step_box_l1_impl`: `x̂ = clamp(soft(v, γλ), lb, ub)`, `v = x − γ g`. -/
theorem proxGradStepBoxL1_eq (lam γ x g lb ub : α) :
    (proxGradStepBoxL1 lam γ x g lb ub).2 =
      min (max (max (min 0 ((x - γ * g) + γ * lam)) ((x - γ * g) - γ * lam)) lb) ub ∧
    (proxGradStepBoxL1 lam γ x g lb ub).1 = (proxGradStepBoxL1 lam γ x g lb ub).2 - x := by
  simp only [proxGradStepBoxL1, emax_eq_max, emin_eq_min]
  refine ⟨?_, by ring⟩
  have e1 : ∀ a b : α, x + -max a b = min (x - a) (x - b) := by
    intro a b; rcases le_total a b with h | h
    · rw [max_eq_right h, min_eq_right (by linarith)]; ring
    · rw [max_eq_left h, min_eq_left (by linarith)]; ring
  have e2 : ∀ a b : α, x - min a b = max (x - a) (x - b) := by
    intro a b; rcases le_total a b with h | h
    · rw [min_eq_left h, max_eq_left (by linarith)]
    · rw [min_eq_right h, max_eq_right (by linarith)]
  have e3 : ∀ a b : α, x - max a b = min (x - a) (x - b) := by
    intro a b; rw [sub_eq_add_neg, e1]
  rw [e1, e2, e2, e3]
  congr 1 <;> [congr 1 <;> [congr 1 <;> [congr 1 <;> ring; ring]; ring]; ring]

/-- soft-threshold (second spelling) is the global minimiser. -/
theorem soft_is_prox (lam γ v : α) (hl : 0 ≤ lam) (hγ : 0 < γ) (u : α) :
    lam * |max (min 0 (v + γ * lam)) (v - γ * lam)| +
        (max (min 0 (v + γ * lam)) (v - γ * lam) - v) ^ 2 / (2 * γ)
      ≤ lam * |u| + (u - v) ^ 2 / (2 * γ) := by
  have ht : 0 ≤ γ * lam := mul_nonneg hγ.le hl
  rw [soft_forms v (γ * lam) ht]
  have := l1Prox_is_prox lam γ v hl hγ u
  simpa [l1ProxScalarW, mul_comm lam γ] using this

/-- three-point convexity of `φ(u) = λ|u| + (u−v)²/(2γ)` (division-free form). -/
theorem phi_convex3 (lam γ v a b c : α) (hl : 0 ≤ lam) (hγ : 0 < γ) (hab : a ≤ b) (hbc : b ≤ c) :
    (c - a) * (lam * |b| + (b - v) ^ 2 / (2 * γ))
      ≤ (c - b) * (lam * |a| + (a - v) ^ 2 / (2 * γ)) + (b - a) * (lam * |c| + (c - v) ^ 2 / (2 * γ)) := by
  have h2γ : (0:α) < 2 * γ := by linarith
  have habs : (c - a) * |b| ≤ (c - b) * |a| + (b - a) * |c| := by
    have e : (c - a) * b = (c - b) * a + (b - a) * c := by ring
    calc (c - a) * |b| = |(c - a) * b| := by rw [abs_mul, abs_of_nonneg (by linarith : 0 ≤ c - a)]
      _ = |(c - b) * a + (b - a) * c| := by rw [e]
      _ ≤ |(c - b) * a| + |(b - a) * c| := abs_add_le _ _
      _ = (c - b) * |a| + (b - a) * |c| := by
          rw [abs_mul, abs_mul, abs_of_nonneg (by linarith : 0 ≤ c - b), abs_of_nonneg (by linarith : 0 ≤ b - a)]
  have hsq : (c - a) * (b - v) ^ 2 ≤ (c - b) * (a - v) ^ 2 + (b - a) * (c - v) ^ 2 := by
    nlinarith [mul_nonneg (sub_nonneg.mpr hab) (sub_nonneg.mpr hbc), mul_nonneg (mul_nonneg (sub_nonneg.mpr hab) (sub_nonneg.mpr hbc)) (by linarith : 0 ≤ c - a)]
  have hq : (c - a) * ((b - v) ^ 2 / (2 * γ)) ≤ (c - b) * ((a - v) ^ 2 / (2 * γ)) + (b - a) * ((c - v) ^ 2 / (2 * γ)) := by
    rw [← mul_div_assoc, ← mul_div_assoc, ← mul_div_assoc, ← add_div, div_le_div_iff_of_pos_right h2γ]
    exact hsq
  nlinarith [mul_le_mul_of_nonneg_left habs hl]

/-- In one dimension, clamping the global minimiser of the convex `φ` gives the minimiser over
    the interval — for *any* `lb ≤ ub` (the code's `lb ≤ 0 ≤ ub` precondition is not needed). -/
theorem boxL1_is_prox (lam γ v lb ub : α) (hl : 0 ≤ lam) (hγ : 0 < γ) (hlu : lb ≤ ub)
    (u : α) (hu1 : lb ≤ u) (hu2 : u ≤ ub) :
    lam * |min (max (max (min 0 (v + γ * lam)) (v - γ * lam)) lb) ub| +
        (min (max (max (min 0 (v + γ * lam)) (v - γ * lam)) lb) ub - v) ^ 2 / (2 * γ)
      ≤ lam * |u| + (u - v) ^ 2 / (2 * γ) := by
  have hglob := soft_is_prox lam γ v hl hγ
  generalize max (min 0 (v + γ * lam)) (v - γ * lam) = s0 at *
  rcases le_total s0 lb with h1 | h1
  · rw [max_eq_right h1, min_eq_left hlu]
    rcases eq_or_lt_of_le (h1.trans hu1) with h | h
    · have : lb = u := le_antisymm hu1 (h ▸ h1); rw [this]
    · have h3 := phi_convex3 lam γ v s0 lb u hl hγ h1 hu1
      have h4 := hglob u
      have : 0 < u - s0 := by linarith
      nlinarith [mul_le_mul_of_nonneg_left h4 (by linarith : 0 ≤ u - lb)]
  · rw [max_eq_left h1]
    rcases le_total s0 ub with h2 | h2
    · rw [min_eq_left h2]; exact hglob u
    · rw [min_eq_right h2]
      rcases eq_or_lt_of_le (hu2.trans h2) with h | h
      · have : ub = u := le_antisymm (h ▸ h2) hu2; rw [this]
      · have h3 := phi_convex3 lam γ v u ub s0 hl hγ hu2 h2
        have h4 := hglob u
        have : 0 < s0 - u := by linarith
        nlinarith [mul_le_mul_of_nonneg_left h4 (by linarith : 0 ≤ ub - u)]

/-! ### Inactive indices, multiplier projection, infinite bounds -/


/-- Box case of `eval_inactive_indices_res_lna`: `i ∈ J` exactly when the projection is locally
    the identity shift around the forward point. -/
theorem inInterior_iff_locally_shift (lb ub v : α) (h : lb ≤ ub) :
    inInterior lb ub v = true ↔
      ∃ δ > 0, ∀ v', |v' - v| < δ → min (max v' lb) ub - min (max v lb) ub = v' - v := by
  simp only [inInterior, Bool.and_eq_true, decide_eq_true_eq]
  constructor
  · rintro ⟨h1, h2⟩
    refine ⟨min (v - lb) (ub - v), lt_min (by linarith) (by linarith), ?_⟩
    intro v' hv'
    rw [abs_lt] at hv'
    have := min_le_left (v - lb) (ub - v)
    have := min_le_right (v - lb) (ub - v)
    rw [max_eq_left (by linarith), max_eq_left h1.le, min_eq_left (by linarith), min_eq_left h2.le]
  · rintro ⟨δ, hδ, hsh⟩
    by_contra hc
    rw [not_and_or, not_lt, not_lt] at hc
    rcases hc with hc | hc
    · have := hsh (v - δ / 2) (by rw [abs_lt]; constructor <;> linarith)
      rw [max_eq_right (by linarith), max_eq_right hc, min_eq_left h] at this
      linarith
    · have := hsh (v + δ / 2) (by rw [abs_lt]; constructor <;> linarith)
      have e1 : min (max (v + δ / 2) lb) ub = ub := min_eq_right (le_trans (by linarith) (le_max_left _ _))
      have e2 : min (max v lb) ub = ub := min_eq_right (le_trans hc (le_max_left _ _))
      rw [e1, e2] at this
      linarith

/-- `eval_proj_multipliers_box`, one ALM component: clamp to `[−M, M]`, with a side forced to 0
    where the corresponding constraint bound is infinite. -/
theorem projMult1_bounds (lbInf ubInf : Bool) (M y : α) (hM : 0 ≤ M) :
    -M ≤ projMult1 lbInf ubInf M y ∧ projMult1 lbInf ubInf M y ≤ M := by
  cases lbInf <;> cases ubInf <;> simp only [projMult1, emax_eq_max, emin_eq_min, min_def, max_def,
    Bool.false_eq_true, if_false, if_true] <;> constructor <;> split_ifs <;> linarith

theorem projMult1_sign (lbInf ubInf : Bool) (M y : α) (hM : 0 ≤ M) :
    (lbInf = true → 0 ≤ projMult1 lbInf ubInf M y) ∧ (ubInf = true → projMult1 lbInf ubInf M y ≤ 0) := by
  cases lbInf <;> cases ubInf <;> simp only [projMult1, emax_eq_max, emin_eq_min, min_def, max_def,
    Bool.false_eq_true, if_false, if_true, false_imp_iff, true_imp_iff, true_and, and_true] <;>
    (try constructor) <;> split_ifs <;> linarith

theorem projMult1_free_row (M y : α) : projMult1 true true M y = 0 := by
  simp only [projMult1, emax_eq_max, emin_eq_min, min_def, max_def, if_true]
  split_ifs <;> linarith

theorem projMult1_inrange (lbInf ubInf : Bool) (M y : α)
    (h1 : (if lbInf then 0 else -M) ≤ y) (h2 : y ≤ (if ubInf then 0 else M)) :
    projMult1 lbInf ubInf M y = y := by
  simp only [projMult1, emax_eq_max, emin_eq_min]
  rw [max_eq_left h1, min_eq_left h2]

/-- Infinite bounds: the finite-bound kernel with a lower bound that is low enough (any
    `lb ≤ x − γ g`) coincides with the kernel where the `max` with the lower bound is absent;
    this is what IEEE `-inf` does, so `none` bounds may be read as "any sufficiently low bound". -/
theorem projGradStepBox_lb_irrelevant (γ x g lb lb' ub : α) (h : lb ≤ x - γ * g) (h' : lb' ≤ x - γ * g) :
    projGradStepBox γ x g lb ub = projGradStepBox γ x g lb' ub := by
  simp only [projGradStepBox, emax_eq_max, emin_eq_min]
  rw [max_eq_left (by linarith), max_eq_left (by linarith)]

theorem projGradStepBox_ub_irrelevant (γ x g lb ub ub' : α) (h : x - γ * g ≤ ub) (h' : x - γ * g ≤ ub')
    (hl : lb ≤ ub) (hl' : lb ≤ ub') :
    projGradStepBox γ x g lb ub = projGradStepBox γ x g lb ub' := by
  simp only [projGradStepBox, emax_eq_max, emin_eq_min]
  have e : ∀ u, x - γ * g ≤ u → lb ≤ u → min (max (-γ * g) (lb - x)) (u - x) = max (-γ * g) (lb - x) := by
    intro u hu hlu; apply min_eq_left; apply max_le <;> linarith
  rw [e ub h hl, e ub' h' hl']

/-! ### Inactive indices, general (box + ℓ1) case -/

/-- the box+ℓ1 prox of `eval_prox_grad_step_box_l1_impl` as a function of the forward point
    (`proxGradStepBoxL1_eq`), `t = γλ`. -/
def boxL1 (t lb ub v : α) : α := min (max (max (min 0 (v + t)) (v - t)) lb) ub

/-- "locally the identity shift around `v`". -/
def LocallyShift (P : α → α) (v : α) : Prop := ∃ δ > 0, ∀ v', |v' - v| < δ → P v' - P v = v' - v

theorem soft_gt (t v : α) (ht : 0 ≤ t) (h : t < v) : max (min 0 (v + t)) (v - t) = v - t := by
  rw [min_eq_left (by linarith), max_eq_right (by linarith)]
theorem soft_lt (t v : α) (ht : 0 ≤ t) (h : v < -t) : max (min 0 (v + t)) (v - t) = v + t := by
  rw [min_eq_right (by linarith), max_eq_left (by linarith)]
theorem soft_mid (t v : α) (h1 : -t ≤ v) (h2 : v ≤ t) : max (min 0 (v + t)) (v - t) = 0 := by
  rw [min_eq_left (by linarith), max_eq_left (by linarith)]

theorem inInterior_iff_locallyShift (lb ub v : α) (h : lb ≤ ub) :
    inInterior lb ub v = true ↔ LocallyShift (fun w => min (max w lb) ub) v :=
  inInterior_iff_locally_shift lb ub v h

/-- shifting the argument by a constant where the map factors through the shift. -/
theorem locallyShift_of_eq_shift (P Q : α → α) (v c ε : α) (hε : 0 < ε)
    (hPQ : ∀ w, |w - v| < ε → P w = Q (w + c)) :
    LocallyShift P v ↔ LocallyShift Q (v + c) := by
  have hv : P v = Q (v + c) := hPQ v (by simpa using hε)
  constructor
  · rintro ⟨δ, hδ, hs⟩
    refine ⟨min δ ε, lt_min hδ hε, fun w' hw' => ?_⟩
    have h1 : |w' - c - v| < min δ ε := by rwa [show w' - c - v = w' - (v + c) by ring]
    have := hs (w' - c) (lt_of_lt_of_le h1 (min_le_left _ _))
    rw [hPQ (w' - c) (lt_of_lt_of_le h1 (min_le_right _ _)), hv] at this
    rw [show w' - c + c = w' by ring] at this
    linarith
  · rintro ⟨δ, hδ, hs⟩
    refine ⟨min δ ε, lt_min hδ hε, fun v' hv' => ?_⟩
    have := hs (v' + c) (by rw [show v' + c - (v + c) = v' - v by ring]; exact lt_of_lt_of_le hv' (min_le_left _ _))
    rw [hPQ v' (lt_of_lt_of_le hv' (min_le_right _ _)), hv]
    linarith

/-- in the dead zone `|v| ≤ t` (`t > 0`) the prox is locally constant on one side: not a shift. -/
theorem not_locallyShift_dead (t lb ub v : α) (ht : 0 < t) (h1 : -t ≤ v) (h2 : v ≤ t) :
    ¬ LocallyShift (boxL1 t lb ub) v := by
  rintro ⟨δ, hδ, hs⟩
  have hv : boxL1 t lb ub v = min (max 0 lb) ub := by unfold boxL1; rw [soft_mid t v h1 h2]
  rcases lt_or_eq_of_le h2 with h | h
  · -- move right, staying ≤ t
    have hm : 0 < min (δ / 2) (t - v) := lt_min (by linarith) (by linarith)
    have hl1 := min_le_left (δ / 2) (t - v)
    have hl2 := min_le_right (δ / 2) (t - v)
    have := hs (v + min (δ / 2) (t - v)) (by rw [abs_lt]; constructor <;> linarith)
    have hv' : boxL1 t lb ub (v + min (δ / 2) (t - v)) = min (max 0 lb) ub := by
      unfold boxL1; rw [soft_mid t _ (by linarith) (by linarith)]
    rw [hv, hv'] at this; linarith
  · -- v = t: move left, staying ≥ −t
    have hm : 0 < min (δ / 2) (2 * t) := lt_min (by linarith) (by linarith)
    have hl1 := min_le_left (δ / 2) (2 * t)
    have hl2 := min_le_right (δ / 2) (2 * t)
    have := hs (v - min (δ / 2) (2 * t)) (by rw [abs_lt]; constructor <;> linarith)
    have hv' : boxL1 t lb ub (v - min (δ / 2) (2 * t)) = min (max 0 lb) ub := by
      unfold boxL1; rw [soft_mid t _ (by linarith) (by linarith)]
    rw [hv, hv'] at this; linarith

/-- **General (box + ℓ1) case of `eval_inactive_indices_res_lna`**: for `γλ > 0` the model's
    predicate holds iff the box+ℓ1 prox is locally the identity shift around the forward point. -/
theorem inactiveGeneral_iff_locally_shift (lam γ lb ub v : α) (ht : 0 < γ * lam) (h : lb ≤ ub) :
    inactiveGeneral lam γ lb ub v = true ↔ LocallyShift (boxL1 (γ * lam) lb ub) v := by
  have hlam : lam ≠ 0 := by rintro rfl; simp at ht
  unfold inactiveGeneral
  rw [if_neg (by simpa using hlam)]
  split_ifs with h1 h2
  · -- v > t: prox = clamp(w − t) near v
    rw [inInterior_iff_locallyShift _ _ _ h]
    have := locallyShift_of_eq_shift (boxL1 (γ * lam) lb ub) (fun w => min (max w lb) ub) v (-(γ * lam))
      (v - γ * lam) (by linarith) (fun w hw => by
        rw [abs_lt] at hw
        unfold boxL1; rw [soft_gt _ _ ht.le (by linarith)]; ring_nf)
    rw [this, sub_eq_add_neg]
  · rw [inInterior_iff_locallyShift _ _ _ h]
    have h2' : v < -(γ * lam) := by linarith
    have := locallyShift_of_eq_shift (boxL1 (γ * lam) lb ub) (fun w => min (max w lb) ub) v (γ * lam)
      (-(γ * lam) - v) (by linarith) (fun w hw => by
        rw [abs_lt] at hw
        unfold boxL1; rw [soft_lt _ _ ht.le (by linarith)])
    rw [this]
  · simp only [false_iff]
    exact not_locallyShift_dead _ lb ub v ht (by linarith) (by linarith)

/-! ### Vector lifts of the componentwise theorems (`BoxConstrProblem::eval_prox_grad_step`) -/

/-- the ℓ1 weight the dispatch of `BoxConstrProblem::eval_prox_grad_step` uses for component `i`
    (`l1_reg` of size 0: none, size 1: the scalar, otherwise per component). -/
def lamAt (l1 : Vec α) (i : Nat) : α :=
  if l1.length = 0 then 0 else if l1.length = 1 then vget l1 0 else vget l1 i

theorem boxL1_zero (lb ub v : α) : boxL1 0 lb ub v = min (max v lb) ub := by
  unfold boxL1
  rw [add_zero, sub_zero]
  congr 2
  rcases le_total 0 v with h | h
  · rw [min_eq_left h, max_eq_right h]
  · rw [min_eq_right h, max_eq_left le_rfl]

/-- every component of the vector output is the scalar box+ℓ1 prox of the forward point. -/
theorem proxGradStep_xhat (l1 : Vec α) (γ : α) (x g lb ub : Vec α) (i : Nat) (hi : i < x.length) :
    vget (proxGradStep l1 γ x g lb ub).2.1 i
      = boxL1 (γ * lamAt l1 i) (vget lb i) (vget ub i) (vget x i - γ * vget g i) := by
  unfold proxGradStep lamAt
  by_cases h0 : l1.length = 0
  · simp only [h0, beq_self_eq_true, if_true, List.map_map]
    rw [vget_map_range _ _ _ hi]
    simp only [Function.comp, projGradStepBox_eq_proj, mul_zero, boxL1_zero]
  · by_cases h1 : l1.length = 1
    · simp only [h1, beq_self_eq_true, if_true, List.map_map, Nat.one_ne_zero, if_false,
        show (1 == 0) = false from rfl, Bool.false_eq_true]
      rw [vget_map_range _ _ _ hi]
      simp only [Function.comp, (proxGradStepBoxL1_eq _ _ _ _ _ _).1, boxL1]
    · simp only [h0, h1, beq_iff_eq, if_false, List.map_map]
      rw [vget_map_range _ _ _ hi]
      simp only [Function.comp, (proxGradStepBoxL1_eq _ _ _ _ _ _).1, boxL1]

theorem proxGradStep_xhat_length (l1 : Vec α) (γ : α) (x g lb ub : Vec α) :
    (proxGradStep l1 γ x g lb ub).2.1.length = x.length := by
  unfold proxGradStep
  split_ifs <;> simp


/-- membership in the box, componentwise (`Box::lowerbound ≤ v ≤ Box::upperbound`). -/
def InBox (lb ub v : Vec α) : Prop := ∀ i < v.length, vget lb i ≤ vget v i ∧ vget v i ≤ vget ub i

theorem boxL1_in_box (t lb ub v : α) (h : lb ≤ ub) : lb ≤ boxL1 t lb ub v ∧ boxL1 t lb ub v ≤ ub :=
  ⟨le_min (le_max_right _ _) h, min_le_right _ _⟩

/-- **`ProxMapsIntoBox`**: the shipped prox step of the box-constrained problem class maps into
    `C`, in the form the loop-level feasibility theorems (`panoc_x_out_feasible`,
    `zerofpr_x_out_feasible`, `pantr_x_out_feasible`, `fista_x_out_feasible`) take as hypothesis
    `hP : ∀ γ x g, InC (P.prox γ x g).2.1`, with `P.prox γ x g = proxGradStep l1 γ x g lb ub`
    and `InC = InBox lb ub`. -/
theorem ProxMapsIntoBox (l1 lb ub : Vec α) (hb : ∀ i, vget lb i ≤ vget ub i) :
    ∀ γ x g, InBox lb ub ((fun γ x g => proxGradStep l1 γ x g lb ub) γ x g).2.1 := by
  intro γ x g i hi
  rw [proxGradStep_xhat_length] at hi
  show vget lb i ≤ vget (proxGradStep l1 γ x g lb ub).2.1 i ∧ vget (proxGradStep l1 γ x g lb ub).2.1 i ≤ vget ub i
  rw [proxGradStep_xhat _ _ _ _ _ _ _ hi]
  exact boxL1_in_box _ _ _ _ (hb i)

/-- `p = x̂ − x`, for the whole vector. -/
theorem proxGradStep_p_eq (l1 : Vec α) (γ : α) (x g lb ub : Vec α) (i : Nat) (hi : i < x.length) :
    vget (proxGradStep l1 γ x g lb ub).2.2 i = vget (proxGradStep l1 γ x g lb ub).2.1 i - vget x i := by
  unfold proxGradStep
  split_ifs <;>
  · simp only [List.map_map]
    rw [vget_map_range _ _ _ hi, vget_map_range _ _ _ hi]
    simp only [Function.comp, projGradStepBox, proxGradStepBoxL1]; ring

/-- **Vector form**: the output `x̂` of `C15.proxGradStep` minimises
    `h(u) + ‖u − v‖²/(2γ)`, `h(u) = Σ λ_i |u_i|`, `v = x − γ g`, over the box. -/
theorem proxGradStep_vector_is_prox (l1 : Vec α) (γ : α) (x g lb ub : Vec α) (hγ : 0 < γ)
    (hb : ∀ i < x.length, vget lb i ≤ vget ub i) (hl : ∀ i < x.length, 0 ≤ lamAt l1 i)
    (u : Vec α) (hu : ∀ i < x.length, vget lb i ≤ vget u i ∧ vget u i ≤ vget ub i) :
    ((List.range x.length).map fun i =>
        lamAt l1 i * |vget (proxGradStep l1 γ x g lb ub).2.1 i|
          + (vget (proxGradStep l1 γ x g lb ub).2.1 i - (vget x i - γ * vget g i)) ^ 2 / (2 * γ)).sum
      ≤ ((List.range x.length).map fun i =>
        lamAt l1 i * |vget u i| + (vget u i - (vget x i - γ * vget g i)) ^ 2 / (2 * γ)).sum := by
  apply sum_range_le
  intro i hi
  rw [proxGradStep_xhat _ _ _ _ _ _ _ hi]
  exact boxL1_is_prox (lamAt l1 i) γ _ _ _ (hl i hi) hγ (hb i hi) _ (hu i hi).1 (hu i hi).2


/-- **returned value**: `eval_prox_grad_step` returns `h(x̂) = Σ λ_i |x̂_i|` (0 without ℓ1 term).
    In the per-component case the weight vector must have the size of `x` (as the C++ asserts). -/
theorem proxGradStep_returns_h (l1 : Vec α) (γ : α) (x g lb ub : Vec α)
    (hl : ∀ i < x.length, 0 ≤ lamAt l1 i) (hlen : l1.length ≤ 1 ∨ l1.length = x.length) :
    (proxGradStep l1 γ x g lb ub).1
      = ((List.range x.length).map fun i => lamAt l1 i * |vget (proxGradStep l1 γ x g lb ub).2.1 i|).sum := by
  have key : ∀ (f : Nat → α), ((List.range x.length).map fun i =>
      lamAt l1 i * |vget ((List.range x.length).map f) i|).sum
      = ((List.range x.length).map fun i => lamAt l1 i * |f i|).sum := by
    intro f; apply sum_map_range_congr; intro i hi; rw [vget_map_range _ _ _ hi]
  unfold proxGradStep
  by_cases h0 : l1.length = 0
  · simp only [h0, beq_self_eq_true, if_true]
    have : ∀ i, lamAt l1 i = 0 := fun i => by simp [lamAt, h0]
    simp [this]
  · by_cases h1 : l1.length = 1
    · simp only [h1, beq_self_eq_true, if_true, if_false, show (1 == 0) = false from rfl,
        Bool.false_eq_true, List.map_map]
      rw [key, norm1_eq_sum_abs, List.map_map, ← sum_map_mul_left_nat]
      apply sum_map_range_congr; intro i _
      simp [lamAt, h1]
    · have hn : l1.length = x.length := by rcases hlen with h | h <;> omega
      simp only [h0, h1, beq_iff_eq, if_false, List.map_map]
      rw [key, norm1_eq_sum_abs]
      conv_lhs => rw [eq_map_range_vget l1, hn]
      unfold vmul vzip
      rw [zipWith_map_range, List.map_map]
      apply sum_map_range_congr; intro i hi
      have hli := hl i hi
      simp only [lamAt, h0, h1, if_false] at hli ⊢
      simp only [Function.comp, abs_mul, abs_of_nonneg hli]
      rw [vget_map_range _ _ _ hi]; ring

/-! ### The list `J` of `eval_inactive_indices_res_lna` -/

theorem inactiveGeneral_zero (γ lb ub v : α) : inactiveGeneral 0 γ lb ub v = inInterior lb ub v := by
  simp [inactiveGeneral]

/-- membership in the model's `J`, per component, for every size of `l1_reg`. -/
theorem mem_inactiveIndices_iff (l1 : Vec α) (γ : α) (x g lb ub : Vec α) (i : Nat) :
    i ∈ inactiveIndices l1 γ x g lb ub ↔
      i < x.length ∧ inactiveGeneral (lamAt l1 i) γ (vget lb i) (vget ub i) (vget x i - γ * vget g i) = true := by
  unfold inactiveIndices lamAt
  simp only [List.mem_filter, List.mem_range]
  apply and_congr_right
  intro _
  by_cases h0 : l1.length = 0
  · simp [h0, inactiveGeneral_zero]
  · by_cases h1 : l1.length = 1
    · by_cases hz : vget l1 0 = 0
      · simp [h1, hz, inactiveGeneral_zero]
      · simp [h1, hz]
    · simp [h0, h1]

/-- `J` is reported in strictly increasing order, without repetition. -/
theorem inactiveIndices_sorted (l1 : Vec α) (γ : α) (x g lb ub : Vec α) :
    (inactiveIndices l1 γ x g lb ub).Pairwise (· < ·) := by
  unfold inactiveIndices
  exact List.Pairwise.filter _ List.pairwise_lt_range

/-- **The reported set of inactive indices is exactly the set of components where the prox is
    locally the identity shift** (`γ > 0`, weights `≥ 0`, `lb ≤ ub`; box-only, scalar-weight and
    per-component-weight dispatch alike, zero weights included). -/
theorem inactiveIndices_iff_locally_shift (l1 : Vec α) (γ : α) (x g lb ub : Vec α) (hγ : 0 < γ)
    (hl : ∀ i < x.length, 0 ≤ lamAt l1 i) (hb : ∀ i < x.length, vget lb i ≤ vget ub i) (i : Nat) :
    i ∈ inactiveIndices l1 γ x g lb ub ↔
      i < x.length ∧
        LocallyShift (boxL1 (γ * lamAt l1 i) (vget lb i) (vget ub i)) (vget x i - γ * vget g i) := by
  rw [mem_inactiveIndices_iff]
  apply and_congr_right
  intro hi
  rcases (hl i hi).eq_or_lt with h0 | hpos
  · rw [← h0, inactiveGeneral_zero, mul_zero, inInterior_iff_locallyShift _ _ _ (hb i hi)]
    have : boxL1 0 (vget lb i) (vget ub i) = fun w => min (max w (vget lb i)) (vget ub i) := by
      funext w; exact boxL1_zero _ _ w
    rw [this]
  · exact inactiveGeneral_iff_locally_shift _ _ _ _ _ (mul_pos hγ hpos) (hb i hi)

/-! ### Complex ℓ1 norm (`L1NormComplex::prox`, the generated `soft_thres` lambdas) -/

section Complex
variable [RealLike α]

/-- **`cplxSoft_is_prox`**: for `v = (a, b)`, `γ > 0`, `λ ≥ 0` the generated map returns a
    minimiser of `φ(u) = λ‖u‖ + ‖u − v‖²/(2γ)` over `u ∈ ℝ²` (variational form). -/
theorem cplxSoft_is_prox (hs : LawfulSqrt α) (γ lam a b : α) (hγ : 0 < γ) (hl : 0 ≤ lam) (u1 u2 : α) :
    lam * RealLike.sqrt ((cplxSoftScalarW γ lam a b).1 * (cplxSoftScalarW γ lam a b).1
          + (cplxSoftScalarW γ lam a b).2 * (cplxSoftScalarW γ lam a b).2)
        + (((cplxSoftScalarW γ lam a b).1 - a) ^ 2 + ((cplxSoftScalarW γ lam a b).2 - b) ^ 2) / (2 * γ)
      ≤ lam * RealLike.sqrt (u1 * u1 + u2 * u2) + ((u1 - a) ^ 2 + (u2 - b) ^ 2) / (2 * γ) := by
  have h := cplxSoft_strong hs γ lam a b u1 u2 hγ hl
  have : 0 ≤ ((u1 - (cplxSoftScalarW γ lam a b).1) ^ 2 + (u2 - (cplxSoftScalarW γ lam a b).2) ^ 2) / (2 * γ) :=
    div_nonneg (add_nonneg (sq_nonneg _) (sq_nonneg _)) (by linarith)
  linarith

/-- **uniqueness**: any `u` that does as well as the output *is* the output. -/
theorem cplxSoft_unique (hs : LawfulSqrt α) (γ lam a b : α) (hγ : 0 < γ) (hl : 0 ≤ lam) (u1 u2 : α)
    (hu : lam * RealLike.sqrt (u1 * u1 + u2 * u2) + ((u1 - a) ^ 2 + (u2 - b) ^ 2) / (2 * γ)
      ≤ lam * RealLike.sqrt ((cplxSoftScalarW γ lam a b).1 * (cplxSoftScalarW γ lam a b).1
          + (cplxSoftScalarW γ lam a b).2 * (cplxSoftScalarW γ lam a b).2)
        + (((cplxSoftScalarW γ lam a b).1 - a) ^ 2 + ((cplxSoftScalarW γ lam a b).2 - b) ^ 2) / (2 * γ)) :
    u1 = (cplxSoftScalarW γ lam a b).1 ∧ u2 = (cplxSoftScalarW γ lam a b).2 := by
  have h := cplxSoft_strong hs γ lam a b u1 u2 hγ hl
  have h2γ : (0:α) < 2 * γ := by linarith
  have hq : ((u1 - (cplxSoftScalarW γ lam a b).1) ^ 2 + (u2 - (cplxSoftScalarW γ lam a b).2) ^ 2) / (2 * γ) ≤ 0 := by
    linarith
  have hq' : (u1 - (cplxSoftScalarW γ lam a b).1) ^ 2 + (u2 - (cplxSoftScalarW γ lam a b).2) ^ 2 ≤ 0 := by
    by_contra hc; rw [not_le] at hc
    exact absurd (div_pos hc h2γ) (not_lt.mpr hq)
  have e1 : u1 - (cplxSoftScalarW γ lam a b).1 = 0 := by
    nlinarith [sq_nonneg (u1 - (cplxSoftScalarW γ lam a b).1), sq_nonneg (u2 - (cplxSoftScalarW γ lam a b).2)]
  have e2 : u2 - (cplxSoftScalarW γ lam a b).2 = 0 := by
    nlinarith [sq_nonneg (u1 - (cplxSoftScalarW γ lam a b).1), sq_nonneg (u2 - (cplxSoftScalarW γ lam a b).2)]
  exact ⟨by linarith, by linarith⟩

/-- the tie `|v|² = (γλ)²` (the `<=` of the source) gives 0, which is what the closed form
    `v·(1 − γλ/|v|)` also evaluates to — included in the two theorems above. -/
theorem cplxSoft_tie (γ lam a b : α) (h : a * a + b * b = (γ * lam) * (γ * lam)) :
    cplxSoftScalarW γ lam a b = (0, 0) := by
  rw [cplxSoft_closed, if_pos h.le]

/-- the per-component-weight lambda is the same map. -/
theorem cplxSoftVectorW_is_scalar (γ lam a b : α) :
    cplxSoftVectorW γ lam a b = cplxSoftScalarW γ lam a b := rfl

/-- **returned value** (scalar weight): `h = λ Σ_i |out_i|`, and `out` is the soft-threshold of
    every component (`λ ≠ 0`; `λ = 0` returns the input and 0). -/
theorem cplxL1ProxScalarW_spec (lam γ : α) (v : CVec α) (hl : lam ≠ 0) :
    (cplxL1ProxScalarW lam γ v).1 = v.map (fun z => cplxSoftScalarW γ lam z.1 z.2) ∧
    (cplxL1ProxScalarW lam γ v).2
      = lam * (((cplxL1ProxScalarW lam γ v).1.map fun z => RealLike.sqrt (z.1 * z.1 + z.2 * z.2)).sum) := by
  have : (lam == 0) = false := by simpa using hl
  simp only [cplxL1ProxScalarW, this, Bool.false_eq_true, if_false, cplxL1ValueScalarW, cnorm1, vsum_eq_sum,
    true_and]
  rfl

theorem cplxL1ProxScalarW_zero (γ : α) (v : CVec α) : cplxL1ProxScalarW 0 γ v = (v, 0) := by
  simp [cplxL1ProxScalarW]

/-- **vector lift**: the whole output vector minimises `Σ_i λ|u_i| + |u_i − v_i|²/(2γ)`. -/
theorem cplxL1_vector_is_prox (hs : LawfulSqrt α) (γ lam : α) (hγ : 0 < γ) (hl : 0 ≤ lam) (v u : CVec α)
    (hlen : u.length = v.length) :
    (List.zipWith (fun s z => lam * RealLike.sqrt (s.1 * s.1 + s.2 * s.2)
        + ((s.1 - z.1) ^ 2 + (s.2 - z.2) ^ 2) / (2 * γ)) (v.map fun z => cplxSoftScalarW γ lam z.1 z.2) v).sum
      ≤ (List.zipWith (fun s z => lam * RealLike.sqrt (s.1 * s.1 + s.2 * s.2)
        + ((s.1 - z.1) ^ 2 + (s.2 - z.2) ^ 2) / (2 * γ)) u v).sum := by
  induction v generalizing u with
  | nil => cases u <;> simp_all
  | cons z zs ih =>
    cases u with
    | nil => simp at hlen
    | cons w ws =>
      simp only [List.map_cons, List.zipWith_cons_cons, List.sum_cons]
      exact add_le_add (cplxSoft_is_prox hs γ lam z.1 z.2 hγ hl w.1 w.2) (ih ws (by simpa using hlen))

/-- `|z·l| = l·|z|` for a real weight `l ≥ 0` (what `out.cwiseProduct(λ)` feeds to `norm_1`). -/
theorem cabs_scale (hs : LawfulSqrt α) (z : α × α) (l : α) (hl : 0 ≤ l) :
    cabs (z.1 * l, z.2 * l) = l * cabs z := by
  unfold cabs
  have h0 := mag2_nonneg z.1 z.2
  apply sqrt_eq_of_mul_self hs _ _ (mul_nonneg hl (hs.sqrt_nonneg _ h0))
  have := hs.sqrt_mul_self _ h0
  simp only []
  linear_combination l * l * this

/-- **returned value** (per-component weights `λ_i ≥ 0`): `h = Σ_i λ_i |out_i|`. -/
theorem cplxL1ValueVectorW_eq (hs : LawfulSqrt α) (lam : Vec α) (out : CVec α) (hl : ∀ l ∈ lam, 0 ≤ l) :
    cplxL1ValueVectorW lam out = (List.zipWith (fun z l => l * cabs z) out lam).sum := by
  simp only [cplxL1ValueVectorW, cnorm1, vsum_eq_sum, cscale]
  congr 1
  induction out generalizing lam with
  | nil => simp
  | cons z zs ih =>
    cases lam with
    | nil => simp
    | cons l ls =>
      simp only [List.zipWith_cons_cons, List.map_cons]
      rw [ih ls (fun l' h' => hl l' (List.mem_cons_of_mem _ h')), cabs_scale hs z l (hl l (List.mem_cons_self ..))]

end Complex

/-- `ℝ` with `Real.sqrt` as the model's `sqrt`: the carrier assumption is satisfiable. -/
noncomputable local instance realLikeRealC15 : RealLike ℝ := ⟨Real.sqrt, fun _ => false, fun _ => true⟩

theorem lawfulSqrt_real : LawfulSqrt ℝ where
  sqrt_nonneg := fun a _ => Real.sqrt_nonneg a
  sqrt_mul_self := fun a ha => Real.mul_self_sqrt ha

/-- `cplxSoft_is_prox` at `ℝ`, with `‖·‖` written with `Real.sqrt`. -/
theorem cplxSoft_is_prox_real (γ lam a b : ℝ) (hγ : 0 < γ) (hl : 0 ≤ lam) (u1 u2 : ℝ) :
    lam * Real.sqrt ((cplxSoftScalarW γ lam a b).1 * (cplxSoftScalarW γ lam a b).1
          + (cplxSoftScalarW γ lam a b).2 * (cplxSoftScalarW γ lam a b).2)
        + (((cplxSoftScalarW γ lam a b).1 - a) ^ 2 + ((cplxSoftScalarW γ lam a b).2 - b) ^ 2) / (2 * γ)
      ≤ lam * Real.sqrt (u1 * u1 + u2 * u2) + ((u1 - a) ^ 2 + (u2 - b) ^ 2) / (2 * γ) :=
  cplxSoft_is_prox lawfulSqrt_real γ lam a b hγ hl u1 u2

/-! ### Nuclear norm (`NuclearNorm::prox`, the part after the SVD oracle) -/

/-- **`nuclear_sv_threshold_is_prox`**: the thresholded singular values
    `singular_values = Zero.cwiseMax(σ − λγ)` minimise `Σ_i λ s_i + (s_i − σ_i)²/(2γ)` over all
    `s ≥ 0` (componentwise) — for every σ, sorted or not, and every λ. -/
theorem nuclear_sv_threshold_is_prox (lam γ : α) (σ : List α) (hγ : 0 < γ) (s : List α)
    (hs : ∀ i < σ.length, 0 ≤ vget s i) :
    ((List.range σ.length).map fun i =>
        lam * vget (σ.map (nucThreshold lam γ)) i
          + (vget (σ.map (nucThreshold lam γ)) i - vget σ i) ^ 2 / (2 * γ)).sum
      ≤ ((List.range σ.length).map fun i => lam * vget s i + (vget s i - vget σ i) ^ 2 / (2 * γ)).sum :=
  nuc_sv_sum_is_prox lam γ σ hγ s hs

/-- `rank` = number of singular values strictly above `λγ`; every thresholded value before it is
    positive and (σ sorted non-increasing) every one from it on is zero. -/
theorem nuclear_rank_spec (lam γ : α) (σ : List α) (hσ : SortedDesc σ) :
    nucRank (σ.map (nucThreshold lam γ)) = (σ.filter (fun s => decide (lam * γ < s))).length ∧
    (∀ i < nucRank (σ.map (nucThreshold lam γ)), 0 < vget (σ.map (nucThreshold lam γ)) i) ∧
    (∀ i, nucRank (σ.map (nucThreshold lam γ)) ≤ i → vget (σ.map (nucThreshold lam γ)) i = 0) :=
  ⟨nucRank_eq_count lam γ σ hσ, fun i hi => nuc_before_rank_pos lam γ σ i hi,
   fun i hi => nuc_after_rank_zero lam γ σ hσ i hi⟩

/-- **`nuclear_prox_partial`** — everything `NuclearNorm::prox` does after `svd.compute`, given
    the singular values `σ` (sorted non-increasing, the oracle's contract) and `λ ≠ 0`, `γ > 0`:
    * the thresholded singular values are `max(σ_i − λγ, 0)` and minimise the separable problem
      over `s ≥ 0`;
    * the returned value is `λ Σ s_i`;
    * `rank` counts the `σ_i > λγ`, the `s_i` before it are positive, from it on zero, so that
    * the reconstruction from the `rank` leading triplets equals the one from all triplets.

    PARTIAL.  Full statement (not proved): for `A = U diag(σ) Vᵀ` with orthonormal columns,
    `out = U diag(s) Vᵀ` is the unique minimiser of `λ‖X‖_* + ‖X − A‖_F²/(2γ)` and the returned
    value is `λ‖out‖_*`.  Missing: the SVD oracle's contract (Eigen::BDCSVD, third party) and
    von Neumann's trace inequality, which reduces the matrix problem to the vector problem above.
    The monitor of checks/c15.py checks both consequences on the real code's output. -/
theorem nuclear_prox_partial (lam γ : α) (σ : List α) (hl : lam ≠ 0) (hγ : 0 < γ) (hσ : SortedDesc σ) :
    ∃ sv value rank, nuclearPost lam γ σ = some (sv, value, rank) ∧
      sv.length = σ.length ∧
      (∀ i < σ.length, vget sv i = max 0 (vget σ i - lam * γ)) ∧
      (∀ s : List α, (∀ i < σ.length, 0 ≤ vget s i) →
        ((List.range σ.length).map fun i => lam * vget sv i + (vget sv i - vget σ i) ^ 2 / (2 * γ)).sum
          ≤ ((List.range σ.length).map fun i => lam * vget s i + (vget s i - vget σ i) ^ 2 / (2 * γ)).sum) ∧
      value = lam * sv.sum ∧
      rank = (σ.filter (fun s => decide (lam * γ < s))).length ∧
      (∀ i < rank, 0 < vget sv i) ∧ (∀ i, rank ≤ i → vget sv i = 0) ∧
      (∀ rows cols U V, nuclearReconstruct rows cols rank sv U V
                          = nuclearReconstruct rows cols σ.length sv U V) := by
  have hb : (lam == 0) = false := by simpa using hl
  refine ⟨σ.map (nucThreshold lam γ), nucValue lam (σ.map (nucThreshold lam γ)),
    nucRank (σ.map (nucThreshold lam γ)), by simp [nuclearPost, hb], by simp, ?_, ?_, ?_, ?_, ?_, ?_, ?_⟩
  · intro i hi; rw [vget_map _ _ _ hi, nucThreshold_eq]
  · exact fun s hs => nuc_sv_sum_is_prox lam γ σ hγ s hs
  · exact nucValue_eq lam γ σ
  · exact nucRank_eq_count lam γ σ hσ
  · exact fun i hi => nuc_before_rank_pos lam γ σ i hi
  · exact fun i hi => nuc_after_rank_zero lam γ σ hσ i hi
  · exact fun rows cols U V => nuclearReconstruct_rank_eq_full lam γ σ hσ rows cols U V

/-- `λ = 0`: the early exit (`out = in`, value 0, no SVD). -/
theorem nuclearPost_zero (γ : α) (σ : List α) : nuclearPost 0 γ σ = none := by
  simp [nuclearPost]

/-! ### Strong form and uniqueness of the real prox kernels

  `φ(u) = λ|u| + (u − v)²/(2γ)` is `1/γ`-strongly convex, so a minimiser `x̂` over an interval
  satisfies `φ(x̂) + (u − x̂)²/(2γ) ≤ φ(u)` for every feasible `u` (quadratic growth) and is therefore
  the *unique* minimiser: `φ(u) ≤ φ(x̂) → u = x̂`.  Proved for soft-thresholding (both spellings of the
  source, scalar and per-component weights), the box projection, the box+ℓ1 step, and the vector
  output of `C15.proxGradStep`; `γ > 0`, weights `≥ 0` incl. 0, arbitrary `lb ≤ ub`. -/

/-- limit step, valid in every ordered field -/
theorem le_sub_of_forall_scaled (a b c : α) (hc : 0 ≤ c)
    (h : ∀ t : α, 0 < t → t < 1 → a ≤ b - (1 - t) * c) : a ≤ b - c := by
  by_contra hcon
  rw [not_le] at hcon
  rcases hc.eq_or_lt with h0 | hpos
  · have := h (1/2) (by norm_num) (by norm_num)
    rw [← h0] at this hcon; linarith
  · set ε := a - (b - c) with hε
    have hεpos : 0 < ε := by linarith
    have ht0 : 0 < min (1/2) (ε / (2 * c)) := lt_min (by norm_num) (by positivity)
    have ht1 : min (1/2) (ε / (2 * c)) < 1 := lt_of_le_of_lt (min_le_left _ _) (by norm_num)
    have := h _ ht0 ht1
    have h2 : min (1/2) (ε / (2 * c)) * c ≤ ε / 2 := by
      calc min (1/2) (ε / (2 * c)) * c ≤ ε / (2 * c) * c := mul_le_mul_of_nonneg_right (min_le_right _ _) hpos.le
        _ = ε / 2 := by field_simp
    linarith

/-- the objective of every real ℓ1-type prox here -/
def phiL1 (lam γ v u : α) : α := lam * |u| + (u - v) ^ 2 / (2 * γ)

/-- `φ` is `1/γ`-strongly convex along segments. -/
theorem phiL1_strong_convex (lam γ v a b t : α) (hl : 0 ≤ lam) (hγ : 0 < γ) (ht0 : 0 ≤ t) (ht1 : t ≤ 1) :
    phiL1 lam γ v (a + t * (b - a)) ≤ (1 - t) * phiL1 lam γ v a + t * phiL1 lam γ v b - t * (1 - t) * ((b - a) ^ 2 / (2 * γ)) := by
  unfold phiL1
  have habs : |a + t * (b - a)| ≤ (1 - t) * |a| + t * |b| := by
    calc |a + t * (b - a)| = |(1 - t) * a + t * b| := by congr 1; ring
      _ ≤ |(1 - t) * a| + |t * b| := abs_add_le _ _
      _ = (1 - t) * |a| + t * |b| := by rw [abs_mul, abs_mul, abs_of_nonneg ht0, abs_of_nonneg (by linarith : 0 ≤ 1 - t)]
  have hq : (a + t * (b - a) - v) ^ 2 / (2 * γ) = (1 - t) * ((a - v) ^ 2 / (2 * γ)) + t * ((b - v) ^ 2 / (2 * γ)) - t * (1 - t) * ((b - a) ^ 2 / (2 * γ)) := by
    field_simp; ring
  rw [hq]
  nlinarith [mul_le_mul_of_nonneg_left habs hl]

/-- **weak ⇒ strong**: a minimiser of `φ` over an interval-closed set `C` satisfies the strong
    (quadratic-growth) inequality on `C`. -/
theorem strong_of_min (lam γ v xh : α) (C : α → Prop) (hl : 0 ≤ lam) (hγ : 0 < γ)
    (hconv : ∀ a b t : α, C a → C b → 0 ≤ t → t ≤ 1 → C (a + t * (b - a)))
    (hx : C xh) (hmin : ∀ u, C u → phiL1 lam γ v xh ≤ phiL1 lam γ v u) (u : α) (hu : C u) :
    phiL1 lam γ v xh + (u - xh) ^ 2 / (2 * γ) ≤ phiL1 lam γ v u := by
  have h2γ : (0:α) < 2 * γ := by linarith
  have hc : 0 ≤ (u - xh) ^ 2 / (2 * γ) := div_nonneg (sq_nonneg _) h2γ.le
  have := le_sub_of_forall_scaled (phiL1 lam γ v xh) (phiL1 lam γ v u) ((u - xh) ^ 2 / (2 * γ)) hc (by
    intro t ht0 ht1
    have h1 := hmin _ (hconv xh u t hx hu ht0.le ht1.le)
    have h2 := phiL1_strong_convex lam γ v xh u t hl hγ ht0.le ht1.le
    have h3 : t * phiL1 lam γ v xh ≤ t * (phiL1 lam γ v u - (1 - t) * ((u - xh) ^ 2 / (2 * γ))) := by nlinarith
    exact le_of_mul_le_mul_left h3 ht0)
  linarith

theorem eq_of_strong (γ a b u xh : α) (hγ : 0 < γ) (hs : a + (u - xh) ^ 2 / (2 * γ) ≤ b) (hle : b ≤ a) : u = xh := by
  have h2γ : (0:α) < 2 * γ := by linarith
  have hq : (u - xh) ^ 2 / (2 * γ) ≤ 0 := by linarith
  have hq' : (u - xh) ^ 2 ≤ 0 := by
    by_contra hc; rw [not_le] at hc
    exact absurd (div_pos hc h2γ) (not_lt.mpr hq)
  have : u - xh = 0 := by nlinarith [sq_nonneg (u - xh)]
  linarith
/-- **strong form** for `L1Norm::prox` -/
theorem l1Prox_strong (lam γ v : α) (hl : 0 ≤ lam) (hγ : 0 < γ) (u : α) :
    lam * |l1ProxScalarW lam γ v| + (l1ProxScalarW lam γ v - v) ^ 2 / (2 * γ)
        + (u - l1ProxScalarW lam γ v) ^ 2 / (2 * γ)
      ≤ lam * |u| + (u - v) ^ 2 / (2 * γ) :=
  strong_of_min lam γ v _ (fun _ => True) hl hγ (fun _ _ _ _ _ _ _ => trivial) trivial
    (fun u _ => l1Prox_is_prox lam γ v hl hγ u) u trivial

theorem l1Prox_unique (lam γ v : α) (hl : 0 ≤ lam) (hγ : 0 < γ) (u : α)
    (hu : lam * |u| + (u - v) ^ 2 / (2 * γ)
      ≤ lam * |l1ProxScalarW lam γ v| + (l1ProxScalarW lam γ v - v) ^ 2 / (2 * γ)) :
    u = l1ProxScalarW lam γ v :=
  eq_of_strong γ _ _ u _ hγ (l1Prox_strong lam γ v hl hγ u) hu

theorem soft_strong (lam γ v : α) (hl : 0 ≤ lam) (hγ : 0 < γ) (u : α) :
    lam * |max (min 0 (v + γ * lam)) (v - γ * lam)| +
        (max (min 0 (v + γ * lam)) (v - γ * lam) - v) ^ 2 / (2 * γ)
        + (u - max (min 0 (v + γ * lam)) (v - γ * lam)) ^ 2 / (2 * γ)
      ≤ lam * |u| + (u - v) ^ 2 / (2 * γ) :=
  strong_of_min lam γ v _ (fun _ => True) hl hγ (fun _ _ _ _ _ _ _ => trivial) trivial
    (fun u _ => soft_is_prox lam γ v hl hγ u) u trivial

theorem interval_convex (lb ub a b t : α) (ha : lb ≤ a ∧ a ≤ ub) (hb : lb ≤ b ∧ b ≤ ub) (ht0 : 0 ≤ t) (ht1 : t ≤ 1) :
    lb ≤ a + t * (b - a) ∧ a + t * (b - a) ≤ ub := by
  constructor
  · nlinarith [mul_nonneg ht0 (sub_nonneg.mpr hb.1), mul_nonneg (sub_nonneg.mpr ht1) (sub_nonneg.mpr ha.1)]
  · nlinarith [mul_nonneg ht0 (sub_nonneg.mpr hb.2), mul_nonneg (sub_nonneg.mpr ht1) (sub_nonneg.mpr ha.2)]

theorem boxL1_strong (lam γ v lb ub : α) (hl : 0 ≤ lam) (hγ : 0 < γ) (hlu : lb ≤ ub)
    (u : α) (hu1 : lb ≤ u) (hu2 : u ≤ ub) :
    lam * |boxL1 (γ * lam) lb ub v| + (boxL1 (γ * lam) lb ub v - v) ^ 2 / (2 * γ)
        + (u - boxL1 (γ * lam) lb ub v) ^ 2 / (2 * γ)
      ≤ lam * |u| + (u - v) ^ 2 / (2 * γ) :=
  strong_of_min lam γ v _ (fun w => lb ≤ w ∧ w ≤ ub) hl hγ
    (fun a b t ha hb h0 h1 => interval_convex lb ub a b t ha hb h0 h1) (boxL1_in_box _ _ _ _ hlu)
    (fun w hw => boxL1_is_prox lam γ v lb ub hl hγ hlu w hw.1 hw.2) u ⟨hu1, hu2⟩

theorem boxL1_unique (lam γ v lb ub : α) (hl : 0 ≤ lam) (hγ : 0 < γ) (hlu : lb ≤ ub)
    (u : α) (hu1 : lb ≤ u) (hu2 : u ≤ ub)
    (hu : lam * |u| + (u - v) ^ 2 / (2 * γ)
      ≤ lam * |boxL1 (γ * lam) lb ub v| + (boxL1 (γ * lam) lb ub v - v) ^ 2 / (2 * γ)) :
    u = boxL1 (γ * lam) lb ub v :=
  eq_of_strong γ _ _ u _ hγ (boxL1_strong lam γ v lb ub hl hγ hlu u hu1 hu2) hu

/-- box projection, strong form (obtuse-angle / Pythagoras inequality). -/
theorem proj_strong (v lb ub : α) (h : lb ≤ ub) (u : α) (hl : lb ≤ u) (hu : u ≤ ub) :
    (min (max v lb) ub - v) ^ 2 + (u - min (max v lb) ub) ^ 2 ≤ (u - v) ^ 2 := by
  rcases le_total v lb with h1 | h1
  · rw [max_eq_right h1, min_eq_left h]; nlinarith [mul_nonneg (sub_nonneg.mpr h1) (sub_nonneg.mpr hl)]
  · rw [max_eq_left h1]
    rcases le_total v ub with h3 | h3
    · rw [min_eq_left h3]; nlinarith
    · rw [min_eq_right h3]; nlinarith [mul_nonneg (sub_nonneg.mpr h3) (sub_nonneg.mpr hu)]

theorem sum_range_add (n : Nat) (f g : Nat → α) :
    ((List.range n).map fun i => f i + g i).sum = ((List.range n).map f).sum + ((List.range n).map g).sum := by
  induction n with
  | zero => simp
  | succ m ih => simp only [List.range_succ, List.map_append, List.sum_append, ih, List.map_cons, List.map_nil, List.sum_cons, List.sum_nil]; ring

theorem sum_range_nonneg_le_zero (n : Nat) (f : Nat → α) (h0 : ∀ i < n, 0 ≤ f i)
    (hs : ((List.range n).map f).sum ≤ 0) : ∀ i < n, f i = 0 := by
  induction n with
  | zero => intro i hi; omega
  | succ m ih =>
    simp only [List.range_succ, List.map_append, List.sum_append, List.map_cons, List.map_nil, List.sum_cons, List.sum_nil, add_zero] at hs
    have hm : 0 ≤ ((List.range m).map f).sum := List.sum_nonneg (by
      intro x hx; simp only [List.mem_map, List.mem_range] at hx
      obtain ⟨i, hi, rfl⟩ := hx; exact h0 i (by omega))
    have hfm := h0 m (by omega)
    intro i hi
    rcases Nat.lt_succ_iff_lt_or_eq.mp hi with h | h
    · exact ih (fun j hj => h0 j (by omega)) (by linarith) i h
    · subst h; linarith

/-- generic lift: componentwise strong inequalities + "`u` does as well as `x̂`" force `u = x̂`. -/
theorem vector_unique_of_strong (n : Nat) (γ : α) (hγ : 0 < γ) (φx φu xh u : Nat → α)
    (hs : ∀ i < n, φx i + (u i - xh i) ^ 2 / (2 * γ) ≤ φu i)
    (hle : ((List.range n).map φu).sum ≤ ((List.range n).map φx).sum) : ∀ i < n, u i = xh i := by
  have h2γ : (0:α) < 2 * γ := by linarith
  have hsum : ((List.range n).map φx).sum + ((List.range n).map fun i => (u i - xh i) ^ 2 / (2 * γ)).sum
      ≤ ((List.range n).map φu).sum := by
    rw [← sum_range_add]; exact sum_range_le _ _ _ hs
  have hz := sum_range_nonneg_le_zero n (fun i => (u i - xh i) ^ 2 / (2 * γ))
    (fun i _ => div_nonneg (sq_nonneg _) h2γ.le) (by linarith)
  intro i hi
  have := hz i hi
  rw [div_eq_zero_iff] at this
  rcases this with h | h
  · have : u i - xh i = 0 := by simpa using h
    linarith
  · exact absurd h h2γ.ne'

theorem proxGradStep_vector_strong (l1 : Vec α) (γ : α) (x g lb ub : Vec α) (hγ : 0 < γ)
    (hb : ∀ i < x.length, vget lb i ≤ vget ub i) (hl : ∀ i < x.length, 0 ≤ lamAt l1 i)
    (u : Vec α) (hu : ∀ i < x.length, vget lb i ≤ vget u i ∧ vget u i ≤ vget ub i) :
    ((List.range x.length).map fun i =>
        lamAt l1 i * |vget (proxGradStep l1 γ x g lb ub).2.1 i|
          + (vget (proxGradStep l1 γ x g lb ub).2.1 i - (vget x i - γ * vget g i)) ^ 2 / (2 * γ)).sum
      + ((List.range x.length).map fun i =>
          (vget u i - vget (proxGradStep l1 γ x g lb ub).2.1 i) ^ 2 / (2 * γ)).sum
      ≤ ((List.range x.length).map fun i =>
        lamAt l1 i * |vget u i| + (vget u i - (vget x i - γ * vget g i)) ^ 2 / (2 * γ)).sum := by
  rw [← sum_range_add]
  apply sum_range_le
  intro i hi
  rw [proxGradStep_xhat _ _ _ _ _ _ _ hi]
  exact boxL1_strong (lamAt l1 i) γ _ _ _ (hl i hi) hγ (hb i hi) _ (hu i hi).1 (hu i hi).2

theorem proxGradStep_vector_unique (l1 : Vec α) (γ : α) (x g lb ub : Vec α) (hγ : 0 < γ)
    (hb : ∀ i < x.length, vget lb i ≤ vget ub i) (hl : ∀ i < x.length, 0 ≤ lamAt l1 i)
    (u : Vec α) (hu : ∀ i < x.length, vget lb i ≤ vget u i ∧ vget u i ≤ vget ub i)
    (hle : ((List.range x.length).map fun i =>
        lamAt l1 i * |vget u i| + (vget u i - (vget x i - γ * vget g i)) ^ 2 / (2 * γ)).sum
      ≤ ((List.range x.length).map fun i =>
        lamAt l1 i * |vget (proxGradStep l1 γ x g lb ub).2.1 i|
          + (vget (proxGradStep l1 γ x g lb ub).2.1 i - (vget x i - γ * vget g i)) ^ 2 / (2 * γ)).sum) :
    (∀ i < x.length, vget u i = vget (proxGradStep l1 γ x g lb ub).2.1 i) ∧
    (u.length = x.length → u = (proxGradStep l1 γ x g lb ub).2.1) := by
  have hs := proxGradStep_vector_strong l1 γ x g lb ub hγ hb hl u hu
  have h2γ : (0:α) < 2 * γ := by linarith
  have hz := sum_range_nonneg_le_zero x.length
    (fun i => (vget u i - vget (proxGradStep l1 γ x g lb ub).2.1 i) ^ 2 / (2 * γ))
    (fun i _ => div_nonneg (sq_nonneg _) h2γ.le) (by linarith)
  have hall : ∀ i < x.length, vget u i = vget (proxGradStep l1 γ x g lb ub).2.1 i := by
    intro i hi
    have := hz i hi
    rw [div_eq_zero_iff] at this
    rcases this with h | h
    · have : vget u i - vget (proxGradStep l1 γ x g lb ub).2.1 i = 0 := by simpa using h
      linarith
    · exact absurd h h2γ.ne'
  refine ⟨hall, fun hlen => ?_⟩
  apply List.ext_getElem
  · rw [hlen, proxGradStep_xhat_length]
  · intro i h1 h2
    have := hall i (by omega)
    simpa [vget, List.getD_eq_getElem?_getD, h1, h2] using this

/-- the generated kernels, strong form and uniqueness stated on them directly. -/
theorem projGradStepBox_strong (γ x g lb ub : α) (h : lb ≤ ub) (u : α) (hl : lb ≤ u) (hu : u ≤ ub) :
    ((projGradStepBox γ x g lb ub).2 - (x - γ * g)) ^ 2 + (u - (projGradStepBox γ x g lb ub).2) ^ 2
      ≤ (u - (x - γ * g)) ^ 2 := by
  rw [projGradStepBox_eq_proj]; exact proj_strong _ lb ub h u hl hu

theorem projGradStepBox_unique (γ x g lb ub : α) (h : lb ≤ ub) (u : α) (hl : lb ≤ u) (hu : u ≤ ub)
    (hle : (u - (x - γ * g)) ^ 2 ≤ ((projGradStepBox γ x g lb ub).2 - (x - γ * g)) ^ 2) :
    u = (projGradStepBox γ x g lb ub).2 := by
  have := projGradStepBox_strong γ x g lb ub h u hl hu
  have : u - (projGradStepBox γ x g lb ub).2 = 0 := by
    nlinarith [sq_nonneg (u - (projGradStepBox γ x g lb ub).2)]
  linarith

theorem proxGradStepBoxL1_xhat (lam γ x g lb ub : α) :
    (proxGradStepBoxL1 lam γ x g lb ub).2 = boxL1 (γ * lam) lb ub (x - γ * g) :=
  (proxGradStepBoxL1_eq lam γ x g lb ub).1

theorem proxGradStepBoxL1_strong (lam γ x g lb ub : α) (hl : 0 ≤ lam) (hγ : 0 < γ) (hlu : lb ≤ ub)
    (u : α) (hu1 : lb ≤ u) (hu2 : u ≤ ub) :
    lam * |(proxGradStepBoxL1 lam γ x g lb ub).2|
        + ((proxGradStepBoxL1 lam γ x g lb ub).2 - (x - γ * g)) ^ 2 / (2 * γ)
        + (u - (proxGradStepBoxL1 lam γ x g lb ub).2) ^ 2 / (2 * γ)
      ≤ lam * |u| + (u - (x - γ * g)) ^ 2 / (2 * γ) := by
  rw [proxGradStepBoxL1_xhat]; exact boxL1_strong lam γ _ lb ub hl hγ hlu u hu1 hu2

theorem proxGradStepBoxL1_unique (lam γ x g lb ub : α) (hl : 0 ≤ lam) (hγ : 0 < γ) (hlu : lb ≤ ub)
    (u : α) (hu1 : lb ≤ u) (hu2 : u ≤ ub)
    (hle : lam * |u| + (u - (x - γ * g)) ^ 2 / (2 * γ)
      ≤ lam * |(proxGradStepBoxL1 lam γ x g lb ub).2|
        + ((proxGradStepBoxL1 lam γ x g lb ub).2 - (x - γ * g)) ^ 2 / (2 * γ)) :
    u = (proxGradStepBoxL1 lam γ x g lb ub).2 := by
  rw [proxGradStepBoxL1_xhat] at hle ⊢; exact boxL1_unique lam γ _ lb ub hl hγ hlu u hu1 hu2 hle

/-- the per-component-weight spelling of `L1Norm::prox` is the same kernel. -/
theorem l1ProxVectorW_strong (lam γ v : α) (hl : 0 ≤ lam) (hγ : 0 < γ) (u : α) :
    lam * |l1ProxVectorW lam γ v| + (l1ProxVectorW lam γ v - v) ^ 2 / (2 * γ)
        + (u - l1ProxVectorW lam γ v) ^ 2 / (2 * γ)
      ≤ lam * |u| + (u - v) ^ 2 / (2 * γ) := l1Prox_strong lam γ v hl hγ u

theorem l1ProxVectorW_unique (lam γ v : α) (hl : 0 ≤ lam) (hγ : 0 < γ) (u : α)
    (hu : lam * |u| + (u - v) ^ 2 / (2 * γ)
      ≤ lam * |l1ProxVectorW lam γ v| + (l1ProxVectorW lam γ v - v) ^ 2 / (2 * γ)) :
    u = l1ProxVectorW lam γ v := l1Prox_unique lam γ v hl hγ u hu

theorem soft_unique (lam γ v : α) (hl : 0 ≤ lam) (hγ : 0 < γ) (u : α)
    (hu : lam * |u| + (u - v) ^ 2 / (2 * γ)
      ≤ lam * |max (min 0 (v + γ * lam)) (v - γ * lam)| +
        (max (min 0 (v + γ * lam)) (v - γ * lam) - v) ^ 2 / (2 * γ)) :
    u = max (min 0 (v + γ * lam)) (v - γ * lam) :=
  eq_of_strong γ _ _ u _ hγ (soft_strong lam γ v hl hγ u) hu

/-! ### Infinite bounds -/

/-- `max v lb` with an extended lower bound (`none` = −∞: no `max`). -/
def maxLbO (lb : Option α) (v : α) : α := match lb with | none => v | some l => max v l
/-- `min v ub` with an extended upper bound (`none` = +∞: no `min`). -/
def minUbO (ub : Option α) (v : α) : α := match ub with | none => v | some b => min v b
/-- projection onto a box with extended bounds. -/
def clampO (lb ub : Option α) (v : α) : α := minUbO ub (maxLbO lb v)
/-- box+ℓ1 prox with extended bounds. -/
def boxL1O (t : α) (lb ub : Option α) (v : α) : α := clampO lb ub (max (min 0 (v + t)) (v - t))
/-- membership in a box with extended bounds. -/
def InBoxO (lb ub : Option α) (u : α) : Prop := (∀ l, lb = some l → l ≤ u) ∧ (∀ b, ub = some b → u ≤ b)
/-- a non-empty extended box. -/
def BoxOK (lb ub : Option α) : Prop := ∀ l b, lb = some l → ub = some b → l ≤ b
/-- strict interior test with extended bounds (`-inf < v`, `v < +inf` are true for finite `v`). -/
def inInteriorO (lb ub : Option α) (v : α) : Bool :=
  (match lb with | none => true | some l => decide (l < v)) &&
  (match ub with | none => true | some b => decide (v < b))
/-- `update_J_general` with extended bounds. -/
def inactiveGeneralO (lam γ : α) (lb ub : Option α) (xfw : α) : Bool :=
  if lam = 0 then inInteriorO lb ub xfw
  else if γ * lam < xfw then inInteriorO lb ub (xfw - γ * lam)
  else if xfw < -γ * lam then inInteriorO lb ub (xfw + γ * lam)
  else false

/-- Finite stand-ins `(lb', ub')` for extended bounds `(lb, ub)`: equal to the bound where it is
    finite; where it is infinite, any value `≤ L` (lower) / `≥ U` (upper) — "sufficiently far". -/
def Far (lb ub : Option α) (L U lb' ub' : α) : Prop :=
  (match lb with | none => lb' ≤ L | some l => lb' = l) ∧
  (match ub with | none => U ≤ ub' | some b => ub' = b)

theorem Far.mono {lb ub : Option α} {L U L' U' lb' ub' : α} (h : Far lb ub L U lb' ub')
    (hL : L ≤ L') (hU : U' ≤ U) : Far lb ub L' U' lb' ub' := by
  cases lb <;> cases ub <;> simp only [Far] at h ⊢ <;> refine ⟨?_, ?_⟩ <;>
    first | exact h.1 | exact h.2 | exact h.1.trans hL | exact hU.trans h.2

/-- finite bounds stand for themselves. -/
theorem Far.some (l b L U : α) : Far (some l) (some b) L U l b := ⟨rfl, rfl⟩

/-- stand-ins always exist. -/
theorem Far.exists (lb ub : Option α) (L U : α) : ∃ lb' ub', Far lb ub L U lb' ub' :=
  ⟨lb.getD L, ub.getD U, by cases lb <;> cases ub <;> simp [Far]⟩

theorem maxLbO_mono (lb : Option α) {v w : α} (h : v ≤ w) : maxLbO lb v ≤ maxLbO lb w := by
  cases lb with
  | none => exact h
  | some l => exact max_le_max h le_rfl

theorem le_maxLbO (lb : Option α) (v : α) : v ≤ maxLbO lb v := by
  cases lb with
  | none => exact le_rfl
  | some l => exact le_max_left _ _

theorem clampO_some (l b v : α) : clampO (some l) (some b) v = min (max v l) b := rfl
theorem boxL1O_some (t l b v : α) : boxL1O t (some l) (some b) v = boxL1 t l b v := rfl
theorem inInteriorO_some (l b v : α) : inInteriorO (some l) (some b) v = inInterior l b v := rfl

/-- **the bridge for the clamp**: with stand-ins that are far enough for the point `w`, the finite
    clamp computes the extended one. -/
theorem clamp_far (lb ub : Option α) (w lb' ub' : α) (h : Far lb ub w (maxLbO lb w) lb' ub') :
    min (max w lb') ub' = clampO lb ub w := by
  cases lb <;> cases ub <;> simp only [Far, maxLbO] at h <;> obtain ⟨h1, h2⟩ := h <;>
    simp only [clampO, maxLbO, minUbO]
  · rw [max_eq_left h1, min_eq_left h2]
  · rw [max_eq_left h1, h2]
  · rw [h1, min_eq_left h2]
  · rw [h1, h2]

theorem projectBox_inf (lb ub : Option α) (v lb' ub' : α) (h : Far lb ub v (maxLbO lb v) lb' ub') :
    projectBox v lb' ub' = clampO lb ub v ∧ proxBox v lb' ub' = clampO lb ub v := by
  rw [projectBox_eq, proxBox_eq, clamp_far lb ub v lb' ub' h]; exact ⟨rfl, rfl⟩

theorem projGradStepBox_inf (lb ub : Option α) (γ x g lb' ub' : α)
    (h : Far lb ub (x - γ * g) (maxLbO lb (x - γ * g)) lb' ub') :
    (projGradStepBox γ x g lb' ub').2 = clampO lb ub (x - γ * g) := by
  rw [projGradStepBox_eq_proj, clamp_far lb ub _ lb' ub' h]

theorem proxStepBox_inf (lb ub : Option α) (x d γf lb' ub' : α)
    (h : Far lb ub (x + γf * d) (maxLbO lb (x + γf * d)) lb' ub') :
    (proxStepBox x d γf lb' ub').2 = clampO lb ub (x + γf * d) := by
  rw [(proxStepBox_eq x d γf lb' ub').1, clamp_far lb ub _ lb' ub' h]

theorem boxL1_far (t : α) (lb ub : Option α) (v lb' ub' : α)
    (h : Far lb ub (max (min 0 (v + t)) (v - t)) (maxLbO lb (max (min 0 (v + t)) (v - t))) lb' ub') :
    boxL1 t lb' ub' v = boxL1O t lb ub v := by
  unfold boxL1 boxL1O; exact clamp_far lb ub _ lb' ub' h

theorem proxGradStepBoxL1_inf (lb ub : Option α) (lam γ x g lb' ub' : α)
    (h : Far lb ub (max (min 0 ((x - γ * g) + γ * lam)) ((x - γ * g) - γ * lam))
      (maxLbO lb (max (min 0 ((x - γ * g) + γ * lam)) ((x - γ * g) - γ * lam))) lb' ub') :
    (proxGradStepBoxL1 lam γ x g lb' ub').2 = boxL1O (γ * lam) lb ub (x - γ * g) := by
  rw [(proxGradStepBoxL1_eq lam γ x g lb' ub').1]; exact boxL1_far _ lb ub _ lb' ub' h

theorem inInterior_inf (lb ub : Option α) (v L U lb' ub' : α) (hL : L < v) (hU : v < U)
    (h : Far lb ub L U lb' ub') : inInterior lb' ub' v = inInteriorO lb ub v := by
  cases lb <;> cases ub <;> simp only [Far] at h <;> obtain ⟨h1, h2⟩ := h <;>
    simp only [inInterior, inInteriorO]
  · rw [decide_eq_true (lt_of_le_of_lt h1 hL), decide_eq_true (lt_of_lt_of_le hU h2)]
  · rw [decide_eq_true (lt_of_le_of_lt h1 hL), h2]
  · rw [decide_eq_true (lt_of_lt_of_le hU h2), h1]
  · rw [h1, h2]

theorem inactiveGeneral_inf (lb ub : Option α) (lam γ xfw lb' ub' : α)
    (h : Far lb ub (xfw - |γ * lam| - 1) (xfw + |γ * lam| + 1) lb' ub') :
    inactiveGeneral lam γ lb' ub' xfw = inactiveGeneralO lam γ lb ub xfw := by
  have ha := le_abs_self (γ * lam)
  have hb := neg_le_abs (γ * lam)
  unfold inactiveGeneral inactiveGeneralO
  simp only [beq_iff_eq]
  split_ifs
  · exact inInterior_inf lb ub _ _ _ lb' ub' (by linarith [abs_nonneg (γ * lam)]) (by linarith [abs_nonneg (γ * lam)]) h
  · exact inInterior_inf lb ub _ _ _ lb' ub' (by linarith) (by linarith) h
  · exact inInterior_inf lb ub _ _ _ lb' ub' (by linarith) (by linarith) h
  · rfl

/-- for a point of a non-empty extended box and a point `w`, stand-ins exist that are far enough
    for `w`, contain `u`, and form a non-empty finite box. -/
theorem Far.exists_with (lb ub : Option α) (hok : BoxOK lb ub) (w u : α) (hu : InBoxO lb ub u) :
    ∃ lb' ub', Far lb ub w (maxLbO lb w) lb' ub' ∧ lb' ≤ u ∧ u ≤ ub' ∧ lb' ≤ ub' := by
  cases lb with
  | none =>
    cases ub with
    | none => exact ⟨min w u, max w u, ⟨min_le_left _ _, le_max_left _ _⟩, min_le_right _ _, le_max_right _ _,
        (min_le_left _ _).trans (le_max_left _ _)⟩
    | some b => exact ⟨min w u, b, ⟨min_le_left _ _, rfl⟩, min_le_right _ _, hu.2 b rfl,
        (min_le_right _ _).trans (hu.2 b rfl)⟩
  | some l =>
    cases ub with
    | none => exact ⟨l, max (max w l) u, ⟨rfl, le_max_left _ _⟩, hu.1 l rfl, le_max_right _ _,
        (le_max_right w l).trans (le_max_left _ _)⟩
    | some b => exact ⟨l, b, ⟨rfl, rfl⟩, hu.1 l rfl, hu.2 b rfl, hok l b rfl rfl⟩

theorem clampO_in_box (lb ub : Option α) (hok : BoxOK lb ub) (v : α) : InBoxO lb ub (clampO lb ub v) := by
  cases lb <;> cases ub <;> simp only [clampO, maxLbO, minUbO, InBoxO] <;> constructor <;> intro c hc <;>
    simp only [Option.some.injEq, reduceCtorEq] at hc
  · subst hc; exact min_le_right _ _
  · subst hc; exact le_max_right _ _
  · subst hc; exact le_min (le_max_right _ _) (hok _ _ rfl rfl)
  · subst hc; exact min_le_right _ _

/-- **projection with infinite sides**: unique closest point of the extended box. -/
theorem clampO_strong (lb ub : Option α) (hok : BoxOK lb ub) (v u : α) (hu : InBoxO lb ub u) :
    (clampO lb ub v - v) ^ 2 + (u - clampO lb ub v) ^ 2 ≤ (u - v) ^ 2 := by
  obtain ⟨lb', ub', hf, h1, h2, h3⟩ := Far.exists_with lb ub hok v u hu
  rw [← clamp_far lb ub v lb' ub' hf]
  exact proj_strong v lb' ub' h3 u h1 h2

theorem clampO_unique (lb ub : Option α) (hok : BoxOK lb ub) (v u : α) (hu : InBoxO lb ub u)
    (hle : (u - v) ^ 2 ≤ (clampO lb ub v - v) ^ 2) : u = clampO lb ub v := by
  have := clampO_strong lb ub hok v u hu
  have : u - clampO lb ub v = 0 := by nlinarith [sq_nonneg (u - clampO lb ub v)]
  linarith

/-- **box+ℓ1 prox with infinite sides**, strong form. -/
theorem boxL1O_strong (lam γ v : α) (lb ub : Option α) (hl : 0 ≤ lam) (hγ : 0 < γ) (hok : BoxOK lb ub)
    (u : α) (hu : InBoxO lb ub u) :
    lam * |boxL1O (γ * lam) lb ub v| + (boxL1O (γ * lam) lb ub v - v) ^ 2 / (2 * γ)
        + (u - boxL1O (γ * lam) lb ub v) ^ 2 / (2 * γ)
      ≤ lam * |u| + (u - v) ^ 2 / (2 * γ) := by
  obtain ⟨lb', ub', hf, h1, h2, h3⟩ := Far.exists_with lb ub hok (max (min 0 (v + γ * lam)) (v - γ * lam)) u hu
  rw [← boxL1_far (γ * lam) lb ub v lb' ub' hf]
  exact boxL1_strong lam γ v lb' ub' hl hγ h3 u h1 h2

theorem boxL1O_unique (lam γ v : α) (lb ub : Option α) (hl : 0 ≤ lam) (hγ : 0 < γ) (hok : BoxOK lb ub)
    (u : α) (hu : InBoxO lb ub u)
    (hle : lam * |u| + (u - v) ^ 2 / (2 * γ)
      ≤ lam * |boxL1O (γ * lam) lb ub v| + (boxL1O (γ * lam) lb ub v - v) ^ 2 / (2 * γ)) :
    u = boxL1O (γ * lam) lb ub v :=
  eq_of_strong γ _ _ u _ hγ (boxL1O_strong lam γ v lb ub hl hγ hok u hu) hle

theorem boxL1O_in_box (t : α) (lb ub : Option α) (hok : BoxOK lb ub) (v : α) : InBoxO lb ub (boxL1O t lb ub v) :=
  clampO_in_box lb ub hok _

theorem locallyShift_congr (P Q : α → α) (v ε : α) (hε : 0 < ε) (hPQ : ∀ w, |w - v| < ε → P w = Q w) :
    LocallyShift P v ↔ LocallyShift Q v := by
  have := locallyShift_of_eq_shift P Q v 0 ε hε (fun w hw => by rw [add_zero]; exact hPQ w hw)
  rwa [add_zero] at this

/-- **inactive-index test with infinite sides**. -/
theorem inInteriorO_iff_locallyShift (lb ub : Option α) (hok : BoxOK lb ub) (v : α) :
    inInteriorO lb ub v = true ↔ LocallyShift (clampO lb ub) v := by
  -- stand-ins at distance ≥ 1 from `v`
  let lb' : α := match lb with | none => minUbO ub (v - 1) | some l => l
  let ub' : α := match ub with | none => maxLbO lb (v + 1) | some b => b
  have hlu : lb' ≤ ub' := by
    cases lb <;> cases ub <;> simp only [lb', ub', minUbO, maxLbO]
    · linarith
    · exact min_le_right _ _
    · exact le_max_right _ _
    · exact hok _ _ rfl rfl
  have hL : ∀ w, v - 1 ≤ w → Far lb ub w (maxLbO lb (v + 1)) lb' ub' := by
    intro w hw
    cases lb <;> cases ub <;> simp only [Far, lb', ub', minUbO, maxLbO] <;> refine ⟨?_, ?_⟩ <;>
      first | trivial | rfl | exact le_rfl | exact hw | exact (min_le_left _ _).trans hw
  have hint : inInterior lb' ub' v = inInteriorO lb ub v :=
    inInterior_inf lb ub v (v - 1) (v + 1) lb' ub' (by linarith) (by linarith)
      ((hL (v - 1) le_rfl).mono le_rfl (le_maxLbO lb _))
  rw [← hint, inInterior_iff_locallyShift lb' ub' v hlu]
  apply locallyShift_congr _ _ v 1 one_pos
  intro w hw
  rw [abs_lt] at hw
  exact clamp_far lb ub w lb' ub' ((hL w (by linarith)).mono le_rfl (maxLbO_mono lb (by linarith)))

theorem boxL1O_zero (lb ub : Option α) (v : α) : boxL1O 0 lb ub v = clampO lb ub v := by
  unfold boxL1O
  rw [add_zero, sub_zero]
  congr 1
  rcases le_total 0 v with h | h
  · rw [min_eq_left h, max_eq_right h]
  · rw [min_eq_right h, max_eq_left le_rfl]

theorem not_locallyShift_deadO (t : α) (lb ub : Option α) (v : α) (ht : 0 < t) (h1 : -t ≤ v) (h2 : v ≤ t) :
    ¬ LocallyShift (boxL1O t lb ub) v := by
  rintro ⟨δ, hδ, hs⟩
  have hv : boxL1O t lb ub v = clampO lb ub 0 := by unfold boxL1O; rw [soft_mid t v h1 h2]
  rcases lt_or_eq_of_le h2 with h | h
  · have hm : 0 < min (δ / 2) (t - v) := lt_min (by linarith) (by linarith)
    have hl1 := min_le_left (δ / 2) (t - v)
    have hl2 := min_le_right (δ / 2) (t - v)
    have := hs (v + min (δ / 2) (t - v)) (by rw [abs_lt]; constructor <;> linarith)
    have hv' : boxL1O t lb ub (v + min (δ / 2) (t - v)) = clampO lb ub 0 := by
      unfold boxL1O; rw [soft_mid t _ (by linarith) (by linarith)]
    rw [hv, hv'] at this; linarith
  · have hm : 0 < min (δ / 2) (2 * t) := lt_min (by linarith) (by linarith)
    have hl1 := min_le_left (δ / 2) (2 * t)
    have hl2 := min_le_right (δ / 2) (2 * t)
    have := hs (v - min (δ / 2) (2 * t)) (by rw [abs_lt]; constructor <;> linarith)
    have hv' : boxL1O t lb ub (v - min (δ / 2) (2 * t)) = clampO lb ub 0 := by
      unfold boxL1O; rw [soft_mid t _ (by linarith) (by linarith)]
    rw [hv, hv'] at this; linarith

/-- **general inactive-index test with infinite sides** (`γλ ≥ 0`, zero weight included). -/
theorem inactiveGeneralO_iff_locallyShift (lam γ : α) (lb ub : Option α) (v : α) (ht : 0 ≤ γ * lam)
    (hγ : 0 < γ) (hok : BoxOK lb ub) :
    inactiveGeneralO lam γ lb ub v = true ↔ LocallyShift (boxL1O (γ * lam) lb ub) v := by
  unfold inactiveGeneralO
  by_cases hlam : lam = 0
  · rw [if_pos hlam, hlam, mul_zero, inInteriorO_iff_locallyShift lb ub hok]
    have : boxL1O 0 lb ub = clampO lb ub := by funext w; exact boxL1O_zero lb ub w
    rw [this]
  have ht : 0 < γ * lam := lt_of_le_of_ne ht (by
    intro h; rcases mul_eq_zero.mp h.symm with h | h
    · exact hγ.ne' h
    · exact hlam h)
  rw [if_neg hlam]
  split_ifs with h1 h2
  · rw [inInteriorO_iff_locallyShift lb ub hok]
    have := locallyShift_of_eq_shift (boxL1O (γ * lam) lb ub) (clampO lb ub) v (-(γ * lam))
      (v - γ * lam) (by linarith) (fun w hw => by
        rw [abs_lt] at hw
        unfold boxL1O; rw [soft_gt _ _ ht.le (by linarith)]; ring_nf)
    rw [this, sub_eq_add_neg]
  · rw [inInteriorO_iff_locallyShift lb ub hok]
    have h2' : v < -(γ * lam) := by linarith
    have := locallyShift_of_eq_shift (boxL1O (γ * lam) lb ub) (clampO lb ub) v (γ * lam)
      (-(γ * lam) - v) (by linarith) (fun w hw => by
        rw [abs_lt] at hw
        unfold boxL1O; rw [soft_lt _ _ ht.le (by linarith)])
    rw [this]
  · simp only [false_iff]
    exact not_locallyShift_deadO _ lb ub v ht (by linarith) (by linarith)

/-! #### vector lifts with infinite sides -/

/-- every component of `C15.proxGradStep` run with far stand-ins is the extended box+ℓ1 prox. -/
theorem proxGradStep_xhat_inf (l1 : Vec α) (γ : α) (x g lb' ub' : Vec α) (lbO ubO : Nat → Option α)
    (hfar : ∀ i < x.length,
      Far (lbO i) (ubO i)
        (max (min 0 ((vget x i - γ * vget g i) + γ * lamAt l1 i)) ((vget x i - γ * vget g i) - γ * lamAt l1 i))
        (maxLbO (lbO i) (max (min 0 ((vget x i - γ * vget g i) + γ * lamAt l1 i)) ((vget x i - γ * vget g i) - γ * lamAt l1 i)))
        (vget lb' i) (vget ub' i))
    (i : Nat) (hi : i < x.length) :
    vget (proxGradStep l1 γ x g lb' ub').2.1 i
      = boxL1O (γ * lamAt l1 i) (lbO i) (ubO i) (vget x i - γ * vget g i) := by
  rw [proxGradStep_xhat _ _ _ _ _ _ _ hi]
  exact boxL1_far _ _ _ _ _ _ (hfar i hi)


/-- **vector form with infinite sides, strong**: `x̂` (computed with far stand-ins, i.e. what IEEE
    `±inf` computes) satisfies the strong minimiser inequality over the *extended* box. -/
theorem proxGradStep_vector_strong_inf (l1 : Vec α) (γ : α) (x g lb' ub' : Vec α) (lbO ubO : Nat → Option α)
    (hγ : 0 < γ) (hok : ∀ i < x.length, BoxOK (lbO i) (ubO i)) (hl : ∀ i < x.length, 0 ≤ lamAt l1 i)
    (hfar : ∀ i < x.length,
      Far (lbO i) (ubO i)
        (max (min 0 ((vget x i - γ * vget g i) + γ * lamAt l1 i)) ((vget x i - γ * vget g i) - γ * lamAt l1 i))
        (maxLbO (lbO i) (max (min 0 ((vget x i - γ * vget g i) + γ * lamAt l1 i)) ((vget x i - γ * vget g i) - γ * lamAt l1 i)))
        (vget lb' i) (vget ub' i))
    (u : Vec α) (hu : ∀ i < x.length, InBoxO (lbO i) (ubO i) (vget u i)) :
    ((List.range x.length).map fun i =>
        lamAt l1 i * |vget (proxGradStep l1 γ x g lb' ub').2.1 i|
          + (vget (proxGradStep l1 γ x g lb' ub').2.1 i - (vget x i - γ * vget g i)) ^ 2 / (2 * γ)).sum
      + ((List.range x.length).map fun i =>
          (vget u i - vget (proxGradStep l1 γ x g lb' ub').2.1 i) ^ 2 / (2 * γ)).sum
      ≤ ((List.range x.length).map fun i =>
        lamAt l1 i * |vget u i| + (vget u i - (vget x i - γ * vget g i)) ^ 2 / (2 * γ)).sum := by
  rw [← sum_range_add]
  apply sum_range_le
  intro i hi
  rw [proxGradStep_xhat_inf l1 γ x g lb' ub' lbO ubO hfar i hi]
  exact boxL1O_strong (lamAt l1 i) γ _ _ _ (hl i hi) hγ (hok i hi) _ (hu i hi)

theorem proxGradStep_vector_unique_inf (l1 : Vec α) (γ : α) (x g lb' ub' : Vec α) (lbO ubO : Nat → Option α)
    (hγ : 0 < γ) (hok : ∀ i < x.length, BoxOK (lbO i) (ubO i)) (hl : ∀ i < x.length, 0 ≤ lamAt l1 i)
    (hfar : ∀ i < x.length,
      Far (lbO i) (ubO i)
        (max (min 0 ((vget x i - γ * vget g i) + γ * lamAt l1 i)) ((vget x i - γ * vget g i) - γ * lamAt l1 i))
        (maxLbO (lbO i) (max (min 0 ((vget x i - γ * vget g i) + γ * lamAt l1 i)) ((vget x i - γ * vget g i) - γ * lamAt l1 i)))
        (vget lb' i) (vget ub' i))
    (u : Vec α) (hu : ∀ i < x.length, InBoxO (lbO i) (ubO i) (vget u i))
    (hle : ((List.range x.length).map fun i =>
        lamAt l1 i * |vget u i| + (vget u i - (vget x i - γ * vget g i)) ^ 2 / (2 * γ)).sum
      ≤ ((List.range x.length).map fun i =>
        lamAt l1 i * |vget (proxGradStep l1 γ x g lb' ub').2.1 i|
          + (vget (proxGradStep l1 γ x g lb' ub').2.1 i - (vget x i - γ * vget g i)) ^ 2 / (2 * γ)).sum) :
    ∀ i < x.length, vget u i = vget (proxGradStep l1 γ x g lb' ub').2.1 i := by
  apply vector_unique_of_strong x.length γ hγ _ _ _ _ _ hle
  intro i hi
  rw [proxGradStep_xhat_inf l1 γ x g lb' ub' lbO ubO hfar i hi]
  exact boxL1O_strong (lamAt l1 i) γ _ _ _ (hl i hi) hγ (hok i hi) _ (hu i hi)

/-- **the reported `J` with infinite sides**: run with far stand-ins, `i ∈ J` iff the extended
    box+ℓ1 prox is locally the identity shift at the forward point. -/
theorem inactiveIndices_iff_locally_shift_inf (l1 : Vec α) (γ : α) (x g lb' ub' : Vec α)
    (lbO ubO : Nat → Option α) (hγ : 0 < γ) (hl : ∀ i < x.length, 0 ≤ lamAt l1 i)
    (hok : ∀ i < x.length, BoxOK (lbO i) (ubO i))
    (hfar : ∀ i < x.length,
      Far (lbO i) (ubO i) ((vget x i - γ * vget g i) - |γ * lamAt l1 i| - 1)
        ((vget x i - γ * vget g i) + |γ * lamAt l1 i| + 1) (vget lb' i) (vget ub' i))
    (i : Nat) :
    i ∈ inactiveIndices l1 γ x g lb' ub' ↔
      i < x.length ∧
        LocallyShift (boxL1O (γ * lamAt l1 i) (lbO i) (ubO i)) (vget x i - γ * vget g i) := by
  rw [mem_inactiveIndices_iff]
  apply and_congr_right
  intro hi
  rw [inactiveGeneral_inf (lbO i) (ubO i) _ _ _ _ _ (hfar i hi)]
  exact inactiveGeneralO_iff_locallyShift _ _ _ _ _ (mul_nonneg hγ.le (hl i hi)) hγ (hok i hi)

/-! ### `eval_proj_multipliers_box` on the whole vector (`C15.projMultipliers`)

  The flags `lbInf i` / `ubInf i` say "`D.lowerbound(i) == -inf`" / "`D.upperbound(i) == +inf`"
  (the driver computes them with exactly these comparisons), so infinite bounds need no stand-in
  here: the finite bound values never enter `eval_proj_multipliers_box`.  Documented convention
  (comments in the source): no lower bound ⇒ the multiplier can only be positive (`y_i ≥ 0`), no
  upper bound ⇒ only negative (`y_i ≤ 0`); the first `penalty_alm_split` rows are handled by a
  quadratic penalty and get multiplier 0. -/

theorem projMultipliers_length (lbInf ubInf : List Bool) (split : Nat) (M : α) (y : Vec α) :
    (projMultipliers lbInf ubInf split M y).length = y.length := by
  simp [projMultipliers]

/-- **penalty-only rows** (`i < penalty_alm_split`) are set to 0. -/
theorem projMultipliers_penalty_rows (lbInf ubInf : List Bool) (split : Nat) (M : α) (y : Vec α)
    (i : Nat) (hi : i < y.length) (hs : i < split) :
    vget (projMultipliers lbInf ubInf split M y) i = 0 := by
  unfold projMultipliers
  rw [vget_map_range _ _ _ hi, if_pos hs]

/-- **ALM rows** (`split ≤ i`) are clamped to `[y_lb, y_ub]`, `y_lb = 0` if the constraint has no
    lower bound else `−M`, `y_ub = 0` if it has no upper bound else `M`. -/
theorem projMultipliers_alm_rows (lbInf ubInf : List Bool) (split : Nat) (M : α) (y : Vec α)
    (i : Nat) (hi : i < y.length) (hs : split ≤ i) :
    vget (projMultipliers lbInf ubInf split M y) i
      = min (max (vget y i) (if lbInf.getD i false then 0 else -M)) (if ubInf.getD i false then 0 else M) := by
  unfold projMultipliers
  rw [vget_map_range _ _ _ hi, if_neg (by omega)]
  simp only [projMult1, emax_eq_max, emin_eq_min]

/-- every row ends up within `±M`. -/
theorem projMultipliers_clamps (lbInf ubInf : List Bool) (split : Nat) (M : α) (y : Vec α)
    (hM : 0 ≤ M) (i : Nat) (hi : i < y.length) :
    -M ≤ vget (projMultipliers lbInf ubInf split M y) i ∧
    vget (projMultipliers lbInf ubInf split M y) i ≤ M := by
  unfold projMultipliers
  rw [vget_map_range _ _ _ hi]
  split_ifs
  · exact ⟨by linarith, hM⟩
  · exact projMult1_bounds _ _ M _ hM

/-- one-sided rows: no lower bound ⇒ `y_i ≥ 0`; no upper bound ⇒ `y_i ≤ 0`; free row ⇒ `y_i = 0`. -/
theorem projMultipliers_sign (lbInf ubInf : List Bool) (split : Nat) (M : α) (y : Vec α)
    (hM : 0 ≤ M) (i : Nat) (hi : i < y.length) :
    (lbInf.getD i false = true → 0 ≤ vget (projMultipliers lbInf ubInf split M y) i) ∧
    (ubInf.getD i false = true → vget (projMultipliers lbInf ubInf split M y) i ≤ 0) := by
  unfold projMultipliers
  rw [vget_map_range _ _ _ hi]
  split_ifs
  · exact ⟨fun _ => le_rfl, fun _ => le_rfl⟩
  · exact projMult1_sign _ _ M _ hM

/-- it is a projection: on an ALM row the result is the unique closest point of `[y_lb, y_ub]` to
    `y_i`, so a multiplier already in range is returned unchanged. -/
theorem projMultipliers_closest (lbInf ubInf : List Bool) (split : Nat) (M : α) (y : Vec α)
    (hM : 0 ≤ M) (i : Nat) (hi : i < y.length) (hs : split ≤ i) (u : α)
    (h1 : (if lbInf.getD i false then 0 else -M) ≤ u) (h2 : u ≤ (if ubInf.getD i false then 0 else M)) :
    (vget (projMultipliers lbInf ubInf split M y) i - vget y i) ^ 2
        + (u - vget (projMultipliers lbInf ubInf split M y) i) ^ 2 ≤ (u - vget y i) ^ 2 := by
  rw [projMultipliers_alm_rows _ _ _ _ _ i hi hs]
  apply proj_strong _ _ _ _ u h1 h2
  cases lbInf.getD i false <;> cases ubInf.getD i false <;> simp <;> linarith

theorem projMultipliers_inrange (lbInf ubInf : List Bool) (split : Nat) (M : α) (y : Vec α)
    (i : Nat) (hi : i < y.length) (hs : split ≤ i)
    (h1 : (if lbInf.getD i false then 0 else -M) ≤ vget y i)
    (h2 : vget y i ≤ (if ubInf.getD i false then 0 else M)) :
    vget (projMultipliers lbInf ubInf split M y) i = vget y i := by
  rw [projMultipliers_alm_rows _ _ _ _ _ i hi hs, max_eq_left h1, min_eq_left h2]

/-! ### `L1Norm::prox` as a whole: output vector and returned value ("returns h at that point") -/

theorem l1ProxScalarW_zero (γ a : α) : l1ProxScalarW 0 γ a = a := by
  simp only [l1ProxScalarW, emax_eq_max, emin_eq_min, zero_mul, sub_zero, add_zero]
  rcases le_total 0 a with h | h
  · rw [max_eq_right h, min_eq_left le_rfl]
  · rw [max_eq_left h, min_eq_right h]

/-- the `λ == 0` branch: identity, value 0. -/
theorem l1ProxScalarWeight_zero (γ : α) (v : Vec α) : l1ProxScalarWeight 0 γ v = (v, 0) := by
  simp [l1ProxScalarWeight]

/-- every component of the output is the generated soft-threshold of the input component — in the
    `λ == 0` branch too (there the soft-threshold is the identity). -/
theorem l1ProxScalarWeight_out (lam γ : α) (v : Vec α) :
    (l1ProxScalarWeight lam γ v).1 = v.map (l1ProxScalarW lam γ) := by
  unfold l1ProxScalarWeight
  by_cases h : lam = 0
  · subst h
    simp only [beq_self_eq_true, if_true]
    have : l1ProxScalarW (0 : α) γ = id := by funext a; exact l1ProxScalarW_zero γ a
    rw [this, List.map_id]
  · have : (lam == 0) = false := by simpa using h
    simp only [this, Bool.false_eq_true, if_false]

/-- **returns `h` at that point** (scalar weight, every `λ`, `λ = 0` included):
    the returned value is `λ·‖out‖₁ = λ Σ|out_i|`. -/
theorem l1ProxScalarWeight_returns_h (lam γ : α) (v : Vec α) :
    (l1ProxScalarWeight lam γ v).2 = lam * (((l1ProxScalarWeight lam γ v).1.map (|·|)).sum) := by
  unfold l1ProxScalarWeight
  by_cases h : lam = 0
  · subst h; simp
  · have : (lam == 0) = false := by simpa using h
    simp only [this, Bool.false_eq_true, if_false, l1ValueScalarW, norm1_eq_sum_abs]

/-- the weights `L1Norm<Conf, vec>::prox` uses: all ones when constructed with an empty vector. -/
def l1Weights (lam : Vec α) (n : Nat) : Vec α := if lam.length = 0 then List.replicate n 1 else lam

theorem l1ProxVectorWeight_out (lam : Vec α) (γ : α) (v : Vec α) (i : Nat) (hi : i < v.length) :
    vget (l1ProxVectorWeight lam γ v).1 i
      = l1ProxScalarW (vget (l1Weights lam v.length) i) γ (vget v i) := by
  unfold l1ProxVectorWeight l1Weights
  simp only []
  rw [vget_map_range _ _ _ hi]
  by_cases h : lam.length = 0
  · simp [h, l1ProxVectorW, l1ProxScalarW]
  · simp [h, l1ProxVectorW, l1ProxScalarW]

theorem l1ProxVectorWeight_length (lam : Vec α) (γ : α) (v : Vec α) :
    (l1ProxVectorWeight lam γ v).1.length = v.length := by
  simp [l1ProxVectorWeight]

/-- **returns `h` at that point** (per-component weights `λ_i ≥ 0` of the size of the input, or the
    empty-vector default = all ones): the returned value is `Σ λ_i |out_i|`. -/
theorem l1ProxVectorWeight_returns_h (lam : Vec α) (γ : α) (v : Vec α)
    (hl : ∀ l ∈ lam, 0 ≤ l) (hlen : lam.length = 0 ∨ lam.length = v.length) :
    (l1ProxVectorWeight lam γ v).2
      = ((List.range v.length).map fun i =>
          vget (l1Weights lam v.length) i * |vget (l1ProxVectorWeight lam γ v).1 i|).sum := by
  have hW : (l1Weights lam v.length).length = v.length := by
    unfold l1Weights; split_ifs with h
    · simp
    · rcases hlen with h' | h' <;> [exact absurd h' h; exact h']
  have hWnn : ∀ i < v.length, 0 ≤ vget (l1Weights lam v.length) i := by
    intro i hi
    unfold l1Weights; split_ifs with h
    · simp [vget, List.getD_eq_getElem?_getD, hi]
    · have : i < lam.length := by rcases hlen with h' | h' <;> [exact absurd h' h; omega]
      have hm : vget lam i ∈ lam := by
        simp only [vget, List.getD_eq_getElem?_getD, List.getElem?_eq_getElem this, Option.getD_some]
        exact List.getElem_mem this
      exact hl _ hm
  have hWeq : (if (lam.length == 0) = true then v.map (fun _ => (1 : α)) else lam) = l1Weights lam v.length := by
    unfold l1Weights
    by_cases h : lam.length = 0
    · simp [h, List.map_const']
    · simp [h]
  unfold l1ProxVectorWeight
  simp only [hWeq, l1ValueVectorW]
  rw [norm1_eq_sum_abs]
  set W := l1Weights lam v.length with hWdef
  set out := (List.range v.length).map fun i => l1ProxVectorW (vget W i) γ (vget v i) with hout
  conv_lhs => rw [eq_map_range_vget W, hW]
  unfold vmul vzip
  rw [zipWith_map_range, List.map_map]
  apply sum_map_range_congr
  intro i hi
  simp only [Function.comp]
  rw [hout, vget_map_range _ _ _ hi, abs_mul, abs_of_nonneg (hWnn i hi)]
  ring

/-- **`L1Norm::prox` returns the unique minimiser** (whole vector, per-component weights incl. the
    all-ones default and zero weights): strong form, hence `φ(u) ≤ φ(out) → u = out` componentwise. -/
theorem l1ProxVectorWeight_unique (lam : Vec α) (γ : α) (v : Vec α) (hγ : 0 < γ)
    (hl : ∀ i < v.length, 0 ≤ vget (l1Weights lam v.length) i) (u : Vec α)
    (hle : ((List.range v.length).map fun i =>
        vget (l1Weights lam v.length) i * |vget u i| + (vget u i - vget v i) ^ 2 / (2 * γ)).sum
      ≤ ((List.range v.length).map fun i =>
        vget (l1Weights lam v.length) i * |vget (l1ProxVectorWeight lam γ v).1 i|
          + (vget (l1ProxVectorWeight lam γ v).1 i - vget v i) ^ 2 / (2 * γ)).sum) :
    ∀ i < v.length, vget u i = vget (l1ProxVectorWeight lam γ v).1 i := by
  apply vector_unique_of_strong v.length γ hγ _ _ _ _ _ hle
  intro i hi
  rw [l1ProxVectorWeight_out lam γ v i hi]
  exact l1Prox_strong _ γ _ (hl i hi) hγ _

theorem l1ProxScalarWeight_unique (lam γ : α) (v : Vec α) (hl : 0 ≤ lam) (hγ : 0 < γ) (u : Vec α)
    (hle : ((List.range v.length).map fun i =>
        lam * |vget u i| + (vget u i - vget v i) ^ 2 / (2 * γ)).sum
      ≤ ((List.range v.length).map fun i =>
        lam * |vget (l1ProxScalarWeight lam γ v).1 i|
          + (vget (l1ProxScalarWeight lam γ v).1 i - vget v i) ^ 2 / (2 * γ)).sum) :
    ∀ i < v.length, vget u i = vget (l1ProxScalarWeight lam γ v).1 i := by
  apply vector_unique_of_strong v.length γ hγ _ _ _ _ _ hle
  intro i hi
  rw [l1ProxScalarWeight_out, vget_map _ _ _ hi]
  exact l1Prox_strong lam γ _ hl hγ _

/-! ### The generic `prox_step` default (`prox_step_fn`: prox_step from prox) -/

/-- **as coded = as documented**: for any functor's `prox` (a function `input ↦ (out, h)` with the
    step size already applied), the generic default returns `h(out)`, `out = prox(in + γ_fwd·fwd_step)`
    and `fb_step = out − in` ("p equals output minus input"), componentwise. -/
theorem proxStepDefault_spec (prox : Vec α → Vec α × α) (inp fwd : Vec α) (γfwd : α) :
    (proxStepDefault prox inp fwd γfwd).1
        = (prox ((List.range inp.length).map fun i => vget inp i + γfwd * vget fwd i)).2 ∧
    (proxStepDefault prox inp fwd γfwd).2.1
        = (prox ((List.range inp.length).map fun i => vget inp i + γfwd * vget fwd i)).1 ∧
    ∀ i < inp.length, vget (proxStepDefault prox inp fwd γfwd).2.2 i
        = vget (proxStepDefault prox inp fwd γfwd).2.1 i - vget inp i := by
  refine ⟨rfl, rfl, fun i hi => ?_⟩
  simp only [proxStepDefault, proxStepDefaultFb, proxStepDefaultFwd]
  rw [vget_map_range _ _ _ hi]

/-- instantiated for `L1Norm` with a scalar weight: the output of the generic forward-backward step is
    the unique minimiser of `λ‖u‖₁ + ‖u − (in + γ_fwd·d)‖²/(2γ)` and the returned value is `λ‖out‖₁`. -/
theorem proxStepDefault_l1_returns_h (lam γ γfwd : α) (inp fwd : Vec α) :
    (proxStepDefault (l1ProxScalarWeight lam γ) inp fwd γfwd).1
      = lam * (((proxStepDefault (l1ProxScalarWeight lam γ) inp fwd γfwd).2.1.map (|·|)).sum) := by
  rw [(proxStepDefault_spec _ inp fwd γfwd).1, (proxStepDefault_spec _ inp fwd γfwd).2.1]
  exact l1ProxScalarWeight_returns_h lam γ _

/-! ### Non-vacuity: concrete instances meeting the hypotheses (over ℚ) -/

example : (projGradStepBox (1/2 : ℚ) 1 4 0 3).2 = 0 ∧ (0:ℚ) ≤ 3 := by
  norm_num [projGradStepBox, emax, emin]
example : l1ProxScalarW (2 : ℚ) (1/2) 3 = 2 ∧ (0:ℚ) ≤ 2 ∧ (0:ℚ) < 1/2 := by
  norm_num [l1ProxScalarW, emax, emin]
example : (proxGradStepBoxL1 (1 : ℚ) 1 5 1 (-1) 2).2 = 2 := by
  norm_num [proxGradStepBoxL1, emax, emin]
example : inInterior (0:ℚ) 2 1 = true := by decide
example : projMult1 true false (10:ℚ) (-3) = 0 := by
  norm_num [projMult1, emax, emin]

example : inactiveGeneral (1:ℚ) 1 (-1) 3 2 = true ∧ (0:ℚ) < 1 * 1 := by
  norm_num [inactiveGeneral, inInterior]
example : inactiveGeneral (1:ℚ) 1 (-1) 3 (1/2) = false := by
  norm_num [inactiveGeneral, inInterior]
example : (proxGradStep [(1:ℚ)] 1 [5, 0] [1, 0] [-1, -1] [2, 2]).2.1 = [2, 0] := by
  norm_num [proxGradStep, proxGradStepBoxL1, vget, emax, emin, List.range, List.range.loop]
example : nucThreshold (1:ℚ) (1/2) 2 = 3/2 ∧ nucThreshold (1:ℚ) (1/2) (1/4) = 0 := by
  norm_num [nucThreshold, emax]
example : SortedDesc [(3:ℚ), 1, 1/4, 0] ∧ nucRank ([(3:ℚ), 1, 1/4, 0].map (nucThreshold 1 (1/2))) = 2 := by
  constructor
  · norm_num [SortedDesc]
  · rw [nucRank_map]; norm_num [List.findIdx_cons]
/-- the complex soft-threshold at concrete points over `ℝ`: `v = 3 + 4i`, `γλ = 1` gives
    `v·(1 − 1/5)`; `γλ = 5` is the tie `|v| = γλ`. -/
example : cplxSoftScalarW (1:ℝ) 1 3 4 = (12/5, 16/5) := by
  have h5 : RealLike.sqrt ((3:ℝ) * 3 + 4 * 4) = 5 :=
    sqrt_eq_of_mul_self lawfulSqrt_real 5 _ (by norm_num) (by norm_num)
  rw [cplxSoft_closed, h5, if_neg (by norm_num)]
  norm_num
example : cplxSoftScalarW (1:ℝ) 5 3 4 = (0, 0) := cplxSoft_tie _ _ _ _ (by norm_num)


/-! #### strong form / uniqueness / infinite sides / multiplier vector: every hypothesis instantiated -/

-- soft-threshold, λ = 2, γ = 1/2, v = 3 (x̂ = 2), competitor u = 1; and the zero weight λ = 0
example := l1Prox_strong (2:ℚ) (1/2) 3 (by norm_num) (by norm_num) 1
example := l1Prox_strong (0:ℚ) (1/2) 3 le_rfl (by norm_num) 1
example : (2:ℚ) = l1ProxScalarW 2 (1/2) 3 :=
  l1Prox_unique 2 (1/2) 3 (by norm_num) (by norm_num) 2 (by norm_num [l1ProxScalarW, emax, emin])
example := soft_strong (2:ℚ) (1/2) (-3) (by norm_num) (by norm_num) 1
-- box projection: v = −1 onto [0, 3], competitor u = 2 (a box with lb > 0, not containing 0)
example := projGradStepBox_strong (1/2 : ℚ) 1 4 0 3 (by norm_num) 2 (by norm_num) (by norm_num)
example : (0:ℚ) = (projGradStepBox (1/2) 1 4 0 3).2 :=
  projGradStepBox_unique (1/2) 1 4 0 3 (by norm_num) 0 le_rfl (by norm_num)
    (by norm_num [projGradStepBox, emax, emin])
-- box + ℓ1: λ = 1, γ = 1, x = 5, g = 1 (v = 4, soft = 3, x̂ = 2), box [−1, 2], competitor u = 0;
-- and a box that does not contain 0 ([1, 2], arbitrary lb ≤ ub)
example := proxGradStepBoxL1_strong (1:ℚ) 1 5 1 (-1) 2 (by norm_num) (by norm_num) (by norm_num) 0
  (by norm_num) (by norm_num)
example := proxGradStepBoxL1_strong (1:ℚ) 1 5 1 1 2 (by norm_num) (by norm_num) (by norm_num) 1
  le_rfl (by norm_num)
example : (2:ℚ) = (proxGradStepBoxL1 1 1 5 1 (-1) 2).2 :=
  proxGradStepBoxL1_unique 1 1 5 1 (-1) 2 (by norm_num) (by norm_num) (by norm_num) 2 (by norm_num) le_rfl
    (by norm_num [proxGradStepBoxL1, emax, emin])
-- vector: n = 2, scalar weight 1, γ = 1, competitor u = [0, 1/2]
example := proxGradStep_vector_strong [(1:ℚ)] 1 [5, 0] [1, 0] [-1, -1] [2, 2] (by norm_num)
  (by intro i hi; have : i = 0 ∨ i = 1 := by simp at hi; omega
      rcases this with rfl | rfl <;> norm_num [vget])
  (by intro i _; norm_num [lamAt, vget])
  [0, 1/2]
  (by intro i hi; have : i = 0 ∨ i = 1 := by simp at hi; omega
      rcases this with rfl | rfl <;> norm_num [vget])
-- infinite sides: lb = −∞ stood in by −1000, ub = 3
example : (projGradStepBox (1/2 : ℚ) 1 4 (-1000) 3).2 = clampO none (some 3) (1 - 1/2 * 4) :=
  projGradStepBox_inf none (some 3) (1/2) 1 4 (-1000) 3 (by norm_num [Far, maxLbO])
example := boxL1O_strong (1:ℚ) 1 4 none (some 2) (by norm_num) (by norm_num)
  (by intro l b h _; cases h) 0 ⟨(by intro l h; cases h), (by intro b h; cases h; norm_num)⟩
example : inInteriorO (none : Option ℚ) (some 2) 1 = true := by decide
example : inactiveGeneral (1:ℚ) 1 (-1000) 3 2 = inactiveGeneralO (1:ℚ) 1 none (some 3) 2 :=
  inactiveGeneral_inf none (some (3:ℚ)) 1 1 2 (-1000) 3 (by norm_num [Far, abs_one])
-- vector with infinite sides: component 0 has (−∞, 2], component 1 has [−1, +∞)
example := proxGradStep_vector_strong_inf [(1:ℚ)] 1 [5, 0] [1, 0] [-100, -1] [2, 100]
  (fun i => if i = 0 then none else some (-1)) (fun i => if i = 0 then some 2 else none) (by norm_num)
  (by intro i hi; have : i = 0 ∨ i = 1 := by simp at hi; omega
      rcases this with rfl | rfl <;> intro l b h1 h2 <;> simp at h1 h2)
  (by intro i _; norm_num [lamAt, vget])
  (by intro i hi; have : i = 0 ∨ i = 1 := by simp at hi; omega
      rcases this with rfl | rfl <;> norm_num [Far, maxLbO, lamAt, vget])
  [0, 1/2]
  (by intro i hi; have : i = 0 ∨ i = 1 := by simp at hi; omega
      rcases this with rfl | rfl <;> constructor <;> intro c hc <;> simp at hc <;> subst hc <;> norm_num [vget])
-- multiplier projection: penalty row 0, one-sided rows 1 and 2, free row 3, two-sided row 4
example : projMultipliers [false, true, false, true, false] [false, false, true, true, false] 1 (10:ℚ)
    [7, 4, -20, 5, 30] = [0, 4, -10, 0, 10] := by
  norm_num [projMultipliers, projMult1, vget, emax, emin, List.range, List.range.loop]
example := projMultipliers_penalty_rows [false, true, false, true, false] [false, false, true, true, false] 1 (10:ℚ)
  [7, 4, -20, 5, 30] 0 (by simp) (by norm_num)
example := projMultipliers_sign [false, true, false, true, false] [false, false, true, true, false] 1 (10:ℚ)
  [7, 4, -20, 5, 30] (by norm_num) 2 (by simp)
example := projMultipliers_closest [false, true, false, true, false] [false, false, true, true, false] 1 (10:ℚ)
  [7, 4, -20, 5, 30] (by norm_num) 2 (by simp) (by norm_num) (-5) (by norm_num) (by norm_num)

example : ∀ i < 2, vget [(2:ℚ), 0] i = vget (proxGradStep [(1:ℚ)] 1 [5, 0] [1, 0] [-1, -1] [2, 2]).2.1 i :=
  (proxGradStep_vector_unique [(1:ℚ)] 1 [5, 0] [1, 0] [-1, -1] [2, 2] (by norm_num)
    (by intro i hi; have : i = 0 ∨ i = 1 := by simp at hi; omega
        rcases this with rfl | rfl <;> norm_num [vget])
    (by intro i _; norm_num [lamAt, vget])
    [2, 0]
    (by intro i hi; have : i = 0 ∨ i = 1 := by simp at hi; omega
        rcases this with rfl | rfl <;> norm_num [vget])
    (by norm_num [proxGradStep, proxGradStepBoxL1, vget, emax, emin, List.range, List.range.loop, lamAt])).1
example := clampO_strong (none : Option ℚ) (some 3) (by intro l b h _; cases h) 5 1
  ⟨(by intro l h; cases h), (by intro b h; cases h; norm_num)⟩
example := inInteriorO_iff_locallyShift (none : Option ℚ) (some 3) (by intro l b h _; cases h) 1
example := inactiveGeneralO_iff_locallyShift (1:ℚ) 1 none (some 3) 2 (by norm_num) (by norm_num)
  (by intro l b h _; cases h)
example := inactiveIndices_iff_locally_shift_inf [(1:ℚ)] 1 [5, 0] [1, 0] [-100, -1] [2, 100]
  (fun i => if i = 0 then none else some (-1)) (fun i => if i = 0 then some 2 else none) (by norm_num)
  (by intro i _; norm_num [lamAt, vget])
  (by intro i hi; have : i = 0 ∨ i = 1 := by simp at hi; omega
      rcases this with rfl | rfl <;> intro l b h1 h2 <;> simp at h1 h2)
  (by intro i hi; have : i = 0 ∨ i = 1 := by simp at hi; omega
      rcases this with rfl | rfl <;> norm_num [Far, lamAt, vget, abs_one])
  0

/-! #### `L1Norm::prox` as a whole and the generic `prox_step` default: evaluated instances -/
example : l1ProxScalarWeight (2:ℚ) (1/2) [3, -1/2, -4] = ([2, 0, -3], 10) := by decide +kernel
example : l1ProxScalarWeight (0:ℚ) (1/2) [3, -1/2] = ([3, -1/2], 0) := by decide +kernel
example : l1ProxVectorWeight ([] : Vec ℚ) (1/2) [3, -1/4] = ([5/2, 0], 5/2) := by decide +kernel
example : l1ProxVectorWeight [(1:ℚ), 0, 2] (1/2) [3, -4, 1/2] = ([5/2, -4, 0], 5/2) := by decide +kernel
example := l1ProxVectorWeight_returns_h [(1:ℚ), 0, 2] (1/2) [3, -4, 1/2]
  (by intro l hl; simp at hl; rcases hl with rfl | rfl | rfl <;> norm_num) (Or.inr rfl)
example := l1ProxVectorWeight_returns_h ([] : Vec ℚ) (1/2) [3, -1/4] (by simp) (Or.inl rfl)
-- γ = 1/2 ≠ 1, γ_fwd = −2 ≠ ±γ: in + γ_fwd·d = (0, 4), out = (0, 7/2), fb_step = out − in, h = 7/2
example : proxStepDefault (l1ProxScalarWeight (1:ℚ) (1/2)) [1, 2] [1/2, -1] (-2)
    = (7/2, [0, 7/2], [-1, 3/2]) := by decide +kernel

end Alpaqa.Props.C15
