/-
  C17 — Numeric text I/O round-trips exactly and rejects malformed input.

  Theorems about the executable model `Alpaqa/Model/C17.lean` (CSV reader state machine over a
  libstdc++-style `IStream`, printers' framing), whose constants and decision expressions are the
  regenerated `Alpaqa/Gen/C17.lean` and whose control skeleton is pinned by the `skel_*` theorems
  below.  `std::from_chars` / `std::to_chars` are oracles (`P`, `printNum`); their contract enters
  as hypotheses: `TokOK` (a printed token is consumed entirely, with its value, when followed by the
  separator or the end of the window), `PBound` (the oracle never consumes more than it is given),
  `P [] = none` (the empty range is not a number).  Nothing here is about decimal ↔ binary conversion.

  Canonical reader states: `shifted L j` / `streamOf L tail` describe the reader after it has
  consumed `j ≤ 64` characters of the window over a line whose unread part was `L` (any length —
  `L` may be millions of characters; the window holds `L.take 64`, the stream `L.drop 64 ++ tail`).
  All step theorems are stated from *every* such state, i.e. for every position of the chunk
  boundaries relative to the tokens; all row theorems are about the functions the driver runs
  (`readRowImpl` = `read_row_impl`, `readRowStdVector` = `read_row_std_vector`) on
  `rowStream cs L tail` = any number of comment lines, the line `L`, then `tail` (end of file, or a
  newline and everything after it).

  Row grammar of the library (unit-tested there: `csv.readEndWithSep`, `csv.readEndWithSepEOF`,
  `csv.stdvecReadEndWithSep`, `csv.stdvecReadEndWithSepEOF`): a separator *terminates* a field, the
  last field may or may not be terminated — `1,2,` is the row (1, 2) (`read_row_terminated`), not a
  row with an empty third field.  Every other empty field (`,1,2`  `1,,2`  `1,2,,`  `,`) is rejected
  (`row_empty_field_rejected`).
-/
import Alpaqa.Proofs.C17Row

namespace Alpaqa.Props.C17
set_option linter.unusedSimpArgs false
open Alpaqa.C17 Alpaqa.Gen.C17 Alpaqa.Proofs.C17

/-! ### The hand model's control skeleton is the one csv.tpp has now (regenerated every run) -/

theorem consts_csv : bufmaxsize = 64 ∧ arraySize = 65 ∧ bufidxInit = 0 ∧ keepReadingInit = true ∧ endCh = '\n' := by
  decide
theorem skel_read_ok : skel_read =
    ["if {call read_chunk}", "decl v", "decl bufend", "decl ptr = read_single",
     "if {throw csv::read_row unexpected character '}", "if {throw csv::read_row number too long for buffer}",
     "if {call std::copy; bufidx -=} else {bufidx =}", "return"] := by decide
theorem skel_read_chunk_ok : skel_read_chunk =
    ["if {throw csv::read_row invalid stream:}", "if {return}", "if {throw csv::read_row extraction failed:}",
     "bufidx +=", "keep_reading ="] := by decide
theorem skel_skip_comments_ok : skel_skip_comments =
    ["if {return}",
     "while {call read_chunk; if {break}; while {bufidx =; call read_chunk}; bufidx =; call next_line; " ++
       "if {return}}"] := by
  decide
/-- `read_single`: one leading `+` is skipped; after it either nothing (a following `-` is then taken by
    `from_chars`), or the check `if (bufbegin != bufend && *bufbegin == '-') throw` (exact statement checked by
    the translator, reported as `singleRejectsPlusMinus`). -/
theorem skel_read_single_ok :
    (singleRejectsPlusMinus = false ∧ skel_read_single =
      ["if {++bufbegin}", "decl [ptr,ec] = std::from_chars", "decl bufvw",
       "if {throw csv::read_row conversion failed '}", "return"]) ∨
    (singleRejectsPlusMinus = true ∧ skel_read_single =
      ["if {++bufbegin; if {throw csv::read_row conversion failed '}}", "decl [ptr,ec] = std::from_chars",
       "decl bufvw", "if {throw csv::read_row conversion failed '}", "return"]) := by
  first | exact Or.inl ⟨rfl, rfl⟩ | exact Or.inr ⟨rfl, rfl⟩
theorem skel_next_line_ok : skel_next_line = ["if {throw csv::read_row line not fully consumed}"] := by decide
theorem skel_done_ok : skel_done = ["decl keep_reading", "return"] := by decide
/-- `read_row_impl` has one of the two shapes the model knows: the plain body, or the body wrapped in
    the error handler that calls `discard_line` (the translator checks the exact statements). -/
theorem skel_read_row_impl_ok :
    (rowImplResyncs = false ∧ skel_read_row_impl =
      ["decl reader", "call skip_comments", "while[RANGE_FOR] {vv = read}", "call next_line"]) ∨
    (rowImplResyncs = true ∧ skel_read_row_impl =
      ["decl reader", "decl resync",
       "if[TRY] {call skip_comments; while[RANGE_FOR] {vv = read}; call next_line} else {if {call discard_line}; throw rethrow}"] ∧
      skel_discard_line = ["bufidx =", "if {return}", "call is.clear", "call is.ignore"]) := by
  first | exact Or.inl ⟨rfl, rfl⟩ | exact Or.inr ⟨rfl, rfl, rfl⟩
theorem skel_read_row_std_vector_ok :
    (rowVecResyncs = false ∧ skel_read_row_std_vector =
      ["decl reader", "decl v", "call skip_comments", "while[done] {call push_back,read}", "call next_line",
       "return"]) ∨
    (rowVecResyncs = true ∧ skel_read_row_std_vector =
      ["decl reader", "decl v", "decl resync",
       "if[TRY] {call skip_comments; while[done] {call push_back,read}; call next_line} else {if {call discard_line}; throw rethrow}",
       "return"] ∧
      skel_discard_line = ["bufidx =", "if {return}", "call is.clear", "call is.ignore"]) := by
  first | exact Or.inl ⟨rfl, rfl⟩ | exact Or.inr ⟨rfl, rfl, rfl⟩

/-- **Which csv.tpp this is**: the row functions have the error handler that discards the rest of a
    rejected line (finding `csv-error-leaves-stream-mid-line` fixed). -/
theorem rows_current : rowImplResyncs = true ∧ rowVecResyncs = true := by decide

/-- **Which `read_single` this is**: with the check after the skipped `+` (finding
    `csv-plus-minus-sign-accepted` fixed). -/
theorem single_current : singleRejectsPlusMinus = true := by decide

/-- **Which `float_to_str_vw` this is**: a failing `std::to_chars` (only reachable through the `precision`
    argument, see `printer_buffers_fit`) throws `std::length_error` (finding
    `print-precision-overflows-buffer` fixed). -/
theorem printer_error_code_current : floatToStrChecksEc = true := by decide

/-- longest token the element printer can write at precision `digits`: sign, digit, point, `digits` digits,
    `e`, exponent sign, `expDigits` exponent digits -/
def longestToken (digits expDigits : Nat) : Nat := 3 + digits + 2 + expDigits

/-- **At default precision `std::to_chars` cannot run out of buffer**: every element buffer of print.tpp
    (sizes regenerated from the source) holds the longest default-precision token of every scalar type —
    long double: max_digits10 = 21, four exponent digits (30 characters); double: 17 / 3 (25); float: 9 / 2
    (16).  (The type constants are facts about the platform, exercised by the printer stage of the check on
    LDBL_MAX, LDBL_MIN, the denormals and random patterns.)  Hence dropping the error code is harmless for
    `print_csv` / `print_python` / `print_matlab` and `float_to_str(value)`; it is not for
    `float_to_str(value, precision)` with `longestToken precision _ > 64`. -/
theorem printer_buffers_fit :
    printBufSizes ≠ [] ∧ ∀ n ∈ printBufSizes, longestToken 21 4 ≤ n ∧ longestToken 17 3 ≤ n ∧ longestToken 9 2 ≤ n := by
  decide

theorem printer_literals_ok :
    csvDefaults = [",", "", "\n"] ∧ matlabEnd = ";\n" ∧ pythonEnd = "\n" ∧
    lits_print_csv_impl = [] ∧
    lits_print_matlab_impl = [" ", "[", "]", "[", " ", ";\n ", "]"] ∧
    lits_print_python_impl = [", ", "[", "]", "[[", ", ", "],\n [", "]]"] ∧
    lits_float_to_str_vw = ["'+'", "!", "signbit", "&&", "!", "isnan", "scientific"] ∧
    defaultPrecision = "std::numeric_limits<F>::max_digits10" := by decide

/-! ### Valid rows: chunk-boundary independence -/

/-- **One field, any chunk position.**  From every canonical state whose unread line starts with a
    token (< window) followed by the separator, `read` returns the token's value and leaves the
    canonical state of the rest of the line. -/
theorem read_token_any_offset {V : Type} (P : List Char → Option (V × Nat)) (sep : Char)
    (L tail tok L' : List Char) (j : Nat) (v : V) (hj : j ≤ min 64 L.length) (hL : NoNL L) (ht : TailOK tail)
    (hd : L.drop j = tok ++ sep :: L') (hlen : tok.length ≤ 63) (hok : TokOK P sep tok v) :
    Alpaqa.C17.read P (shifted L j) (streamOf L tail) sep =
      (.ok v, shifted (L.drop j) (tok.length + 1), streamOf (L.drop j) tail) :=
  read_tok P sep L tail tok L' j v hj hL ht hd hlen hok

/-- **All fields.**  `n = tv.length` reads from any canonical state whose unread line is the tokens
    joined by `sep` return exactly their values, with the window empty and the stream at the line end. -/
theorem read_fields_tokens {V : Type} (P : List Char → Option (V × Nat)) (sep : Char)
    (tv : List (List Char × V)) (tail : List Char) (ht : TailOK tail)
    (hlen : ∀ p ∈ tv, p.1.length ≤ 63) (hok : ∀ p ∈ tv, TokOK P sep p.1 p.2)
    (L : List Char) (j : Nat) (hj : j ≤ min 64 L.length) (hL : NoNL L)
    (hd : L.drop j = lineOf sep (tv.map (·.1))) :
    readFields P tv.length (shifted L j) (streamOf L tail) sep =
      (.ok (tv.map (·.2)), ⟨[], 0, false⟩, ⟨tail, tail.isEmpty, tail.isEmpty⟩) :=
  readFields_tokens P sep tv tail ht hlen hok L j hj hL hd

/-- **`read_row` on a valid row of any length, after any number of comment lines** (no bound on the
    number of fields, on the line length or on the comment lengths, hence every position of the
    64-byte chunk boundaries): the values are `map parse toks` and the stream is left at the start
    of the next line.  `cs` are the comment bodies (each line is `'#' :: body ++ ['\n']`). -/
theorem read_row_tokens {V : Type} (P : List Char → Option (V × Nat)) (sep : Char)
    (cs : List (List Char)) (hcs : ∀ b ∈ cs, NoNL b)
    (tv : List (List Char × V)) (tail : List Char) (ht : TailOK tail)
    (hlen : ∀ p ∈ tv, p.1.length ≤ 63) (hok : ∀ p ∈ tv, TokOK P sep p.1 p.2)
    (hNL : NoNL (lineOf sep (tv.map (·.1))))
    (c : Char) (l : List Char) (hline : lineOf sep (tv.map (·.1)) = c :: l) (hc : c ≠ '#') :
    readRowImpl P tv.length sep ⟨commentText cs ++ (lineOf sep (tv.map (·.1)) ++ tail), false, false⟩ =
      (.ok (tv.map (·.2)), afterLine tail) :=
  readRowImplG_ok _ P _ sep _ _ _ (readRowCore_tokens P sep cs hcs tv tail ht hlen hok hNL c l hline hc)

/-- **`read_row_std_vector` on a valid row** (same generality): all the values, in order, and the
    stream at the start of the next line.  The model's recursion bound for the `while (!done)` loop is
    shown sufficient (`readVecCore_prefix`), it is never what ends the loop. -/
theorem read_vector_tokens {V : Type} (P : List Char → Option (V × Nat)) (sep : Char)
    (cs : List (List Char)) (tv : List (List Char × V)) (tail : List Char)
    (ctx : RowCtx cs (lineOf sep (tv.map (·.1))) tail)
    (hlen : ∀ p ∈ tv, p.1.length ≤ 63) (hok : ∀ p ∈ tv, TokOK P sep p.1 p.2) (hne : ∀ p ∈ tv, p.1 ≠ []) :
    readRowStdVector P sep (rowStream cs (lineOf sep (tv.map (·.1))) tail) =
      (.ok (tv.map (·.2)), afterLine tail) := by
  apply readRowStdVectorG_ok
  rcases List.eq_nil_or_concat tv with rfl | ⟨tvi, pl, h⟩
  · obtain ⟨c, l, h, _⟩ := ctx.hstart
    simp [lineOf] at h
  · rw [List.concat_eq_append] at h
    subst h
    have hl : lineOf sep ((tvi ++ [pl]).map (·.1)) = fieldsText sep (tvi.map (·.1)) ++ pl.1 := by
      rw [List.map_append, List.map_cons, List.map_nil, lineOf_concat]
    have := core_vec_last_ok P sep ctx tvi (fun p hp => hlen p (by simp [hp])) (fun p hp => hok p (by simp [hp]))
      pl.1 hl pl.2 (hne pl (by simp)) (by have := hlen pl (by simp); omega) (hok pl (by simp))
    simpa using this

/-- **Separator-terminated rows** (`1,2,\n`; the library's tested row grammar): every field, the last
    one included, is followed by the separator; `read_row(n)` with `n` = the number of fields and
    `read_row_std_vector` return the values and leave the stream at the start of the next line. -/
theorem read_row_terminated {V : Type} (P : List Char → Option (V × Nat)) (sep : Char)
    (cs : List (List Char)) (tv : List (List Char × V)) (tail : List Char)
    (ctx : RowCtx cs (fieldsText sep (tv.map (·.1))) tail)
    (hlen : ∀ p ∈ tv, p.1.length ≤ 63) (hok : ∀ p ∈ tv, TokOK P sep p.1 p.2) :
    readRowImpl P tv.length sep (rowStream cs (fieldsText sep (tv.map (·.1))) tail) =
      (.ok (tv.map (·.2)), afterLine tail) ∧
    readRowStdVector P sep (rowStream cs (fieldsText sep (tv.map (·.1))) tail) =
      (.ok (tv.map (·.2)), afterLine tail) :=
  ⟨readRowImplG_ok _ P _ sep _ _ _ (core_terminated_ok P sep ctx tv hlen hok [] (by simp) rfl),
   readRowStdVectorG_ok _ P sep _ _ _ (core_vec_terminated_ok P sep ctx tv hlen hok [] (by simp) rfl)⟩

/-- **The empty row** — also after any number of comment lines (the repaired `skip_comments`) — is
    read as zero fields and its newline consumed, by both readers. -/
theorem read_row_empty {V : Type} (P : List Char → Option (V × Nat)) (sep : Char)
    (cs : List (List Char)) (hcs : ∀ b ∈ cs, NoNL b) (t : List Char) :
    readRowImpl P 0 sep ⟨commentText cs ++ '\n' :: t, false, false⟩ = (.ok [], ⟨t, false, false⟩) ∧
    readRowStdVector P sep ⟨commentText cs ++ '\n' :: t, false, false⟩ = (.ok [], ⟨t, false, false⟩) :=
  ⟨readRowImplG_ok _ P _ sep _ _ _ (readRowCore_empty P sep cs hcs t),
   readRowStdVectorG_ok _ P sep _ _ _ (readVecCore_emptyline P sep cs hcs ('\n' :: t) (Or.inr ⟨t, rfl⟩))⟩

/-- … and a file that ends after its comment lines reads as an empty row (no error). -/
theorem read_row_empty_eof {V : Type} (P : List Char → Option (V × Nat)) (sep : Char)
    (cs : List (List Char)) (hcs : ∀ b ∈ cs, NoNL b) :
    (readRowImpl P 0 sep ⟨commentText cs, false, false⟩).1 = .ok [] ∧
    (readRowStdVector P sep ⟨commentText cs, false, false⟩).1 = .ok [] := by
  constructor
  · rw [readRowImpl, readRowImplG_ok _ P _ sep _ _ _ (readRowCore_empty_eof P sep cs hcs)]
  · have := readVecCore_emptyline P sep cs hcs [] (Or.inl rfl)
    simp only [List.append_nil] at this
    rw [readRowStdVector, readRowStdVectorG_ok _ P sep _ _ _ this]

/-! ### Printers' framing, and print-then-read -/

theorem joinSep_single (sep : Char) (ts : List (List Char)) : joinSep [sep] ts = lineOf sep ts := by
  induction ts with
  | nil => rfl
  | cons t r ih =>
    cases r with
    | nil => rfl
    | cons t' r' => simp [joinSep, lineOf, ih]

/-- `print_csv` of a vector (one column) is the tokens joined by the separator plus a newline. -/
theorem printCsv_vector (n : Nat) (el : Nat → Nat → List Char) (sep : Char) :
    printCsvImpl n 1 el [sep] [] ['\n'] = lineOf sep (rowToks n fun r => el r 0) ++ ['\n'] := by
  simp [printCsvImpl, joinSep_single]

/-- **print-then-read**, modulo the oracle contract `parse (print v) = v` (= `TokOK`): a vector
    printed by `print_csv` and followed by anything is read back as the same values, the stream left
    at the start of what followed. -/
theorem print_then_read {V : Type} (P : List Char → Option (V × Nat)) (sep : Char)
    (tv : List (List Char × V)) (el : Nat → Nat → List Char) (rest : List Char)
    (hel : (rowToks tv.length fun r => el r 0) = tv.map (·.1))
    (hlen : ∀ p ∈ tv, p.1.length ≤ 63) (hok : ∀ p ∈ tv, TokOK P sep p.1 p.2)
    (hNL : NoNL (lineOf sep (tv.map (·.1))))
    (c : Char) (l : List Char) (hline : lineOf sep (tv.map (·.1)) = c :: l) (hc : c ≠ '#') :
    readRowImpl P tv.length sep ⟨printCsvImpl tv.length 1 el [sep] [] ['\n'] ++ rest, false, false⟩ =
      (.ok (tv.map (·.2)), ⟨rest, false, false⟩) := by
  rw [printCsv_vector, hel, List.append_assoc]
  have := read_row_tokens P sep [] (by simp) tv ('\n' :: rest) (Or.inr ⟨rest, rfl⟩) hlen hok hNL c l hline hc
  simpa [commentText, afterLine] using this

/-! ### Malformed input: the rejecting steps, from every chunk position -/

/-- **Wrong separator / trailing garbage.**  A token (< window) that the oracle stops after, followed
    by a character that is not the separator, at any chunk position: `read` throws "unexpected
    character". -/
theorem wrong_separator_rejected {V : Type} (P : List Char → Option (V × Nat)) (sep c : Char)
    (L tail tok L' : List Char) (j : Nat) (v : V) (hj : j ≤ min 64 L.length) (hL : NoNL L) (ht : TailOK tail)
    (hd : L.drop j = tok ++ c :: L') (hc : c ≠ sep) (hlen : tok.length ≤ 63)
    (hparse : ∀ X, readSingle P (tok ++ c :: X) 0 (tok ++ c :: X).length = some (v, tok.length)) :
    Alpaqa.C17.read P (shifted L j) (streamOf L tail) sep =
      (.error .sep, shifted (L.drop j) 0, streamOf (L.drop j) tail) :=
  read_wrongsep P sep c L tail tok L' j v hj hL ht hd hc hlen hparse

/-- **Empty field / non-numeric field / too few fields.**  Whenever the oracle rejects the window
    (`from_chars` error), at any chunk position, `read` throws "conversion failed". -/
theorem unparsable_rejected {V : Type} (P : List Char → Option (V × Nat)) (sep : Char)
    (L tail : List Char) (j : Nat) (hj : j ≤ min 64 L.length) (hL : NoNL L) (ht : TailOK tail)
    (hparse : readSingle P ((L.drop j).take 64) 0 (min 64 (L.drop j).length) = none) :
    Alpaqa.C17.read P (shifted L j) (streamOf L tail) sep =
      (.error .conv, shifted (L.drop j) 0, streamOf (L.drop j) tail) :=
  read_unparsable P sep L tail j hj hL ht hparse

/-- **`+-…` is not a number.**  With the check after the skipped `+` (`readSingleG true`: csv.tpp with
    fixes/C17-csv-plus-minus-sign-accepted.diff) the token is rejected whatever `from_chars` would make of it … -/
theorem plus_minus_rejected_with_check {V : Type} (P : List Char → Option (V × Nat)) (X : List Char) (e : Nat)
    (he : 2 ≤ e) : readSingleG true P ('+' :: '-' :: X) 0 e = none :=
  readSingleG_plusminus_rejected P X e he

/-- … and without it (`readSingleG false`) the `+` is skipped and the rest, minus sign included, goes to
    `from_chars`: `+-3` is read as `-3`, `+-inf` as `-inf`. -/
theorem plus_minus_accepted_without_check {V : Type} (P : List Char → Option (V × Nat)) (X : List Char) (e : Nat)
    (he : 2 ≤ e) (v : V) (k : Nat) (hP : P (('-' :: X).take (e - 1)) = some (v, k)) :
    readSingleG false P ('+' :: '-' :: X) 0 e = some (v, 1 + k) :=
  readSingleG_plusminus_accepted P X e he v k hP

/-- **Over-long token.**  At any chunk position, if the unread line starts with a token of more than
    64 characters (longer than the window) that does not contain the separator, `read` throws —
    whatever the number oracle makes of the first 64 characters: conversion error, unexpected
    character, or "number too long" when the number fills the window and the line continues
    (`overlongErr`, one of the three by `overlongErr_cases`). -/
theorem overlong_token_rejected {V : Type} (P : List Char → Option (V × Nat)) (hP : PBound P) (sep : Char)
    (L tail tok rest : List Char) (j : Nat) (hj : j ≤ min 64 L.length) (hL : NoNL L) (ht : TailOK tail)
    (hd : L.drop j = tok ++ rest) (hlong : 65 ≤ tok.length) (hsep : sep ∉ tok) :
    Alpaqa.C17.read P (shifted L j) (streamOf L tail) sep =
      (.error (overlongErr P tok), shifted (L.drop j) 0, streamOf (L.drop j) tail) ∧
    (overlongErr P tok = .conv ∨ overlongErr P tok = .sep ∨ overlongErr P tok = .long) :=
  ⟨read_overlong P sep L tail tok rest j hj hL ht hd hlong hsep
    (fun v ptr h => readSingle_le P hP (tok.take 64) 64 (by rw [List.length_take]; omega) v ptr h),
   overlongErr_cases P tok⟩

/-- **`next_line` accepts exactly the fully read line**, from every canonical state: it succeeds
    (newline consumed, stream at the start of the next line) iff nothing of the line is unread; otherwise
    "line not fully consumed", with the stream still inside the line.  (`rem` is the unread text of
    the line; after `1,2,` has been read as two fields of `1,2,\n`, `rem = []`: the separator
    terminated the second field.) -/
theorem next_line_exact (L tail : List Char) (hL : NoNL L) (ht : TailOK tail) (r : Reader) (is : IStream)
    (rem : List Char) (hc : Canon L tail r is rem) :
    (rem = [] ∧ nextLine r is = (.ok (), afterLine tail)) ∨
    (rem ≠ [] ∧ ∃ is', nextLine r is = (.error .line, is') ∧ InLine L tail is') :=
  nextLine_canon L tail hL ht r is rem hc

/-- **Any text, one `read`**: from every canonical state, whatever the line contains, `read` either
    returns a value and moves to a canonical state strictly further on in the same line, or throws one
    of the three errors with the stream inside the line.  (The induction step of the frame theorems.) -/
theorem read_any_text {V : Type} (P : List Char → Option (V × Nat)) (hP : PBound P) (sep : Char)
    (L tail : List Char) (hL : NoNL L) (ht : TailOK tail) (r : Reader) (is : IStream) (rem : List Char)
    (hc : Canon L tail r is rem) :
    (∃ v r' is' rem', Alpaqa.C17.read P r is sep = (.ok v, r', is') ∧ Canon L tail r' is' rem' ∧
        (rem ≠ [] → rem'.length < rem.length)) ∨
    (∃ e r' is', (e = .conv ∨ e = .sep ∨ e = .long) ∧ Alpaqa.C17.read P r is sep = (.error e, r', is') ∧
        InLine L tail is') :=
  read_canon P hP sep L tail hL ht r is rem hc

/-! ### Malformed rows are rejected by `read_row_impl` / `read_row_std_vector`

  In all theorems of this section the row is `k = tv.length` well-formed fields, each followed by the
  separator (any `k`, any lengths < window, hence any chunk position of what follows), then `R`; the
  class of malformation is a condition on `R` (and on `n` for `read_row(n)`). -/

section rows
variable {V : Type} (P : List Char → Option (V × Nat)) (sep : Char)
  {cs : List (List Char)} {L tail : List Char} (ctx : RowCtx cs L tail)
  (tv : List (List Char × V)) (hlen : ∀ p ∈ tv, p.1.length ≤ 63) (hok : ∀ p ∈ tv, TokOK P sep p.1 p.2)
  (R : List Char) (hline : L = fieldsText sep (tv.map (·.1)) ++ R)
include ctx hlen hok hline

/-- **Wrong separator / trailing garbage**: `R` starts with a token the oracle stops after, followed
    by a character that is not the separator. -/
theorem row_wrong_separator_rejected (tok R' : List Char) (c : Char) (v : V) (hR : R = tok ++ c :: R')
    (hc : c ≠ sep) (htok : tok.length ≤ 63)
    (hparse : ∀ X, readSingle P (tok ++ c :: X) 0 (tok ++ c :: X).length = some (v, tok.length))
    (n : Nat) (hn : tv.length < n) :
    (readRowImpl P n sep (rowStream cs L tail)).1 = .error .sep ∧
    (readRowStdVector P sep (rowStream cs L tail)).1 = .error .sep := by
  subst hR
  have hread := canon_read_wrongsep P sep c L tail ctx.hL ctx.ht tok R' v hc htok hparse
  obtain ⟨m, rfl⟩ : ∃ m, n = tv.length + (m + 1) := ⟨n - tv.length - 1, by omega⟩
  obtain ⟨is1, h1⟩ := core_read_fails_row P sep ctx tv hlen hok _ hline .sep hread m
  obtain ⟨is2, h2⟩ := core_read_fails_vec P sep ctx tv hlen hok _ hline .sep hread (by simp)
  exact ⟨by rw [readRowImpl, readRowImplG_fst, h1], by rw [readRowStdVector, readRowStdVectorG_fst, h2]⟩

/-- **Non-numeric / empty field**: the oracle rejects what the window shows of `R`
    (`read_row_std_vector`: `R ≠ []`, an exhausted line simply ends the row). -/
theorem row_unparsable_rejected (hparse : readSingle P (R.take 64) 0 (min 64 R.length) = none)
    (n : Nat) (hn : tv.length < n) :
    (readRowImpl P n sep (rowStream cs L tail)).1 = .error .conv ∧
    (R ≠ [] → (readRowStdVector P sep (rowStream cs L tail)).1 = .error .conv) := by
  have hread := canon_read_unparsable P sep L tail ctx.hL ctx.ht R hparse
  obtain ⟨m, rfl⟩ : ∃ m, n = tv.length + (m + 1) := ⟨n - tv.length - 1, by omega⟩
  obtain ⟨is1, h1⟩ := core_read_fails_row P sep ctx tv hlen hok _ hline .conv hread m
  refine ⟨by rw [readRowImpl, readRowImplG_fst, h1], fun hR => ?_⟩
  obtain ⟨is2, h2⟩ := core_read_fails_vec P sep ctx tv hlen hok _ hline .conv hread hR
  rw [readRowStdVector, readRowStdVectorG_fst, h2]

/-- **Empty field** at the front (`k = 0`: `,1,2`), in the middle (`1,,2`) or at the end (`1,2,,`):
    `R` starts with the separator where a number is expected.  (`hsepP`: no number starts with the
    separator; `sep ≠ '+'` because `read_single` skips one leading `+`.) -/
theorem row_empty_field_rejected (R' : List Char) (hR : R = sep :: R') (hsepP : ∀ X, P (sep :: X) = none)
    (hplus : sep ≠ '+') (n : Nat) (hn : tv.length < n) :
    (readRowImpl P n sep (rowStream cs L tail)).1 = .error .conv ∧
    (readRowStdVector P sep (rowStream cs L tail)).1 = .error .conv := by
  have hparse : readSingle P (R.take 64) 0 (min 64 R.length) = none := by
    subst hR
    obtain ⟨k, hk⟩ : ∃ k, min 64 (sep :: R').length = k + 1 := ⟨min 63 R'.length, by simp; omega⟩
    have hh : ((sep :: R').take 64).getD 0 ' ' = sep := by simp
    have ht : ((sep :: R').take 64).take (k + 1) = sep :: ((sep :: R').take 64).tail.take k := by
      simp
    simp only [readSingle, readSingleG, hk, hh, singleSkipPlus, ht]
    simp [hplus, hsepP, singleFails]
  obtain ⟨h1, h2⟩ := row_unparsable_rejected P sep ctx tv hlen hok R hline hparse n hn
  exact ⟨h1, h2 (by subst hR; simp)⟩

/-- **Too few fields** (separator-terminated form, `1,2,` with `n ≥ 3`): the line is exhausted after
    `k < n` fields. -/
theorem row_too_few_rejected (hP0 : P [] = none) (hR : R = []) (n : Nat) (hn : tv.length < n) :
    (readRowImpl P n sep (rowStream cs L tail)).1 = .error .conv := by
  subst hR
  exact (row_unparsable_rejected P sep ctx tv hlen hok [] hline
    (by simp [readSingle, readSingleG, singleSkipPlus, hP0, singleFails]) n hn).1

/-- **Too few fields** (last field not terminated, `1,2` with `n ≥ 3`): `R` is a last well-formed field
    that ends the line, and more than `k + 1` fields are requested. -/
theorem row_too_few_unterminated_rejected (hP0 : P [] = none) (v : V) (hRlen : R.length ≤ 64) (hRok : TokOK P sep R v)
    (n : Nat) (hn : tv.length + 1 < n) :
    (readRowImpl P n sep (rowStream cs L tail)).1 = .error .conv := by
  obtain ⟨m, rfl⟩ : ∃ m, n = tv.length + (m + 2) := ⟨n - tv.length - 2, by omega⟩
  obtain ⟨is1, h1⟩ := core_too_few_last P hP0 sep ctx tv hlen hok R hline v hRlen hRok m
  rw [readRowImpl, readRowImplG_fst, h1]

/-- **Too many fields**: anything of the line is left after the `n = k` requested fields (`n = 0`:
    any non-empty line). -/
theorem row_too_many_rejected (hR : R ≠ []) :
    (readRowImpl P tv.length sep (rowStream cs L tail)).1 = .error .line := by
  obtain ⟨is1, h1⟩ := core_too_many P sep ctx tv hlen hok R hline hR
  rw [readRowImpl, readRowImplG_fst, h1]

/-- **Over-long token**: `R` starts with more than 64 characters without a separator. -/
theorem row_overlong_rejected (hP : PBound P) (tok rest : List Char) (hR : R = tok ++ rest)
    (hlong : 65 ≤ tok.length) (hsep : sep ∉ tok) (n : Nat) (hn : tv.length < n) :
    (readRowImpl P n sep (rowStream cs L tail)).1 = .error (overlongErr P tok) ∧
    (readRowStdVector P sep (rowStream cs L tail)).1 = .error (overlongErr P tok) := by
  subst hR
  have hread := canon_read_overlong P hP sep L tail ctx.hL ctx.ht tok rest hlong hsep
  obtain ⟨m, rfl⟩ : ∃ m, n = tv.length + (m + 1) := ⟨n - tv.length - 1, by omega⟩
  obtain ⟨is1, h1⟩ := core_read_fails_row P sep ctx tv hlen hok _ hline _ hread m
  obtain ⟨is2, h2⟩ := core_read_fails_vec P sep ctx tv hlen hok _ hline _ hread
    (by intro h; have h0 : tok = [] := (List.append_eq_nil_iff.mp h).1; rw [h0] at hlong; simp at hlong)
  exact ⟨by rw [readRowImpl, readRowImplG_fst, h1], by rw [readRowStdVector, readRowStdVectorG_fst, h2]⟩

end rows

/-- **Too few fields, empty line**: at least one field is requested and the line (after any comment
    lines) is empty, or the file ends: "extraction failed" (nothing loaded yet) or "conversion failed"
    (after a comment line). -/
theorem empty_line_too_few_rejected {V : Type} (P : List Char → Option (V × Nat)) (hP0 : P [] = none)
    (sep : Char) (cs : List (List Char)) (hcs : ∀ b ∈ cs, NoNL b) (tail : List Char) (ht : TailOK tail)
    (n : Nat) (hn : 0 < n) :
    ∃ e, (e = .ext ∨ e = .conv) ∧
      (readRowImpl P n sep ⟨commentText cs ++ tail, false, false⟩).1 = .error e := by
  obtain ⟨k', hk⟩ := skipComments_emptyline cs hcs tail ht
  obtain ⟨e, r', is', he, h1, _⟩ := read_emptyline P hP0 sep k' tail ht
  obtain ⟨m, rfl⟩ : ∃ m, n = m + 1 := ⟨n - 1, by omega⟩
  refine ⟨e, he, ?_⟩
  rw [readRowImpl, readRowImplG_fst]
  simp [readRowCore, hk, readFields_succ_err P m _ _ sep e r' is' h1]

/-! ### No partial consumption: a row call consumes exactly one line, or fails inside it

  For *every* content `L` of the line — well-formed or malformed in any way — after any comment lines
  and followed by anything.  `readRowImplG false` / `readRowStdVectorG false` are the row functions
  without error handler (csv.tpp now, `rows_current`), `… true` with the handler
  `catch (read_error &) { if (resync) reader.discard_line(is); throw; }` of the proposed fix. -/

section frame
variable {V : Type} (P : List Char → Option (V × Nat)) (hP : PBound P) (sep : Char)
  (cs : List (List Char)) (hcs : ∀ b ∈ cs, NoNL b) (L tail : List Char) (hL : NoNL L) (hdata : DataLine L)
  (ht : TailOK tail)
include hP hcs hL hdata ht

/-- **Without the handler** (what csv.tpp guarantees now): success ⇒ `n` values and the stream at the
    start of the next line; error ⇒ a genuine `read_error` (never the model's recursion bound) and the
    stream *somewhere inside the rejected line*: nothing after the line's end has been consumed, but
    the next call does not start at the next row. -/
theorem read_row_frame_plain (hP0 : P [] = none) (n : Nat) :
    (∃ vs is', readRowImplG false P n sep (rowStream cs L tail) = (.ok vs, is') ∧ AtNext tail is' ∧
        vs.length = n) ∨
    (∃ e is', e ≠ .fuel ∧ readRowImplG false P n sep (rowStream cs L tail) = (.error e, is') ∧
        InLine L tail is') := by
  rcases readRowCore_frame P hP hP0 sep cs hcs L tail hL hdata ht n with ⟨vs, is', h, ha, hl⟩ | ⟨e, is', he, h, hi⟩
  · exact Or.inl ⟨vs, is', readRowImplG_ok _ P n sep _ _ _ h, ha, hl⟩
  · exact Or.inr ⟨e, is', he, by rw [rowStream, readRowImplG_err _ P n sep _ _ _ h]; simp [onRowError], hi⟩

/-- **With the handler**: success as before; error ⇒ the stream is exactly at the start of the next
    line with no error flag (`afterError tail`), whatever made the row malformed. -/
theorem read_row_frame_resync (hP0 : P [] = none) (n : Nat) :
    (∃ vs is', readRowImplG true P n sep (rowStream cs L tail) = (.ok vs, is') ∧ AtNext tail is' ∧
        vs.length = n) ∨
    (∃ e, e ≠ .fuel ∧ readRowImplG true P n sep (rowStream cs L tail) = (.error e, afterError tail)) := by
  rcases readRowCore_frame P hP hP0 sep cs hcs L tail hL hdata ht n with ⟨vs, is', h, ha, hl⟩ | ⟨e, is', he, h, hi⟩
  · exact Or.inl ⟨vs, is', readRowImplG_ok _ P n sep _ _ _ h, ha, hl⟩
  · refine Or.inr ⟨e, he, ?_⟩
    rw [rowStream, readRowImplG_err _ P n sep _ _ _ h]
    simp [onRowError, discardLine_inLine L tail hL ht is' hi]

theorem read_vector_frame_plain :
    (∃ vs is', readRowStdVectorG false P sep (rowStream cs L tail) = (.ok vs, is') ∧ AtNext tail is') ∨
    (∃ e is', e ≠ .fuel ∧ readRowStdVectorG false P sep (rowStream cs L tail) = (.error e, is') ∧
        InLine L tail is') := by
  rcases readVecCore_frame P hP sep cs hcs L tail hL hdata ht with ⟨vs, is', h, ha⟩ | ⟨e, is', he, h, hi⟩
  · exact Or.inl ⟨vs, is', readRowStdVectorG_ok _ P sep _ _ _ h, ha⟩
  · exact Or.inr ⟨e, is', he, by rw [rowStream, readRowStdVectorG_err _ P sep _ _ _ h]; simp [onRowError], hi⟩

theorem read_vector_frame_resync :
    (∃ vs is', readRowStdVectorG true P sep (rowStream cs L tail) = (.ok vs, is') ∧ AtNext tail is') ∨
    (∃ e, e ≠ .fuel ∧ readRowStdVectorG true P sep (rowStream cs L tail) = (.error e, afterError tail)) := by
  rcases readVecCore_frame P hP sep cs hcs L tail hL hdata ht with ⟨vs, is', h, ha⟩ | ⟨e, is', he, h, hi⟩
  · exact Or.inl ⟨vs, is', readRowStdVectorG_ok _ P sep _ _ _ h, ha⟩
  · refine Or.inr ⟨e, he, ?_⟩
    rw [rowStream, readRowStdVectorG_err _ P sep _ _ _ h]
    simp [onRowError, discardLine_inLine L tail hL ht is' hi]

/-- **csv.tpp as it is now** (`rows_current`: with the handler) -/
theorem read_row_frame_current (hP0 : P [] = none) (n : Nat) :
    (∃ vs is', readRowImpl P n sep (rowStream cs L tail) = (.ok vs, is') ∧ AtNext tail is' ∧ vs.length = n) ∨
    (∃ e, e ≠ .fuel ∧ readRowImpl P n sep (rowStream cs L tail) = (.error e, afterError tail)) := by
  have := read_row_frame_resync P hP sep cs hcs L tail hL hdata ht hP0 n
  rwa [← rows_current.1] at this

theorem read_vector_frame_current :
    (∃ vs is', readRowStdVector P sep (rowStream cs L tail) = (.ok vs, is') ∧ AtNext tail is') ∨
    (∃ e, e ≠ .fuel ∧ readRowStdVector P sep (rowStream cs L tail) = (.error e, afterError tail)) := by
  have := read_vector_frame_resync P hP sep cs hcs L tail hL hdata ht
  rwa [← rows_current.2] at this

end frame

/-- **stream = comments ++ row₁ ++ "\n" ++ rest, with the handler**: whatever `row₁` is, and whether the
    call succeeds or throws, both row functions leave exactly `rest`, flags clear. -/
theorem rows_leave_rest_resync {V : Type} (P : List Char → Option (V × Nat)) (hP : PBound P) (hP0 : P [] = none)
    (sep : Char) (cs : List (List Char)) (hcs : ∀ b ∈ cs, NoNL b) (row rest : List Char) (hL : NoNL row)
    (hdata : DataLine row) (n : Nat) :
    (readRowImplG true P n sep (rowStream cs row ('\n' :: rest))).2 = ⟨rest, false, false⟩ ∧
    (readRowStdVectorG true P sep (rowStream cs row ('\n' :: rest))).2 = ⟨rest, false, false⟩ := by
  constructor
  · rcases read_row_frame_resync P hP sep cs hcs row ('\n' :: rest) hL hdata (Or.inr ⟨rest, rfl⟩) hP0 n with
      ⟨vs, is', h, ha, _⟩ | ⟨e, _, h⟩
    · rw [h]; exact ha
    · rw [h]; rfl
  · rcases read_vector_frame_resync P hP sep cs hcs row ('\n' :: rest) hL hdata (Or.inr ⟨rest, rfl⟩) with
      ⟨vs, is', h, ha⟩ | ⟨e, _, h⟩
    · rw [h]; exact ha
    · rw [h]; rfl

/-- A stream that is already failed when the row function is entered is not touched by the handler
    (`resync = !is.fail()`): same result as without it. -/
theorem failed_stream_untouched {V : Type} (P : List Char → Option (V × Nat)) (n : Nat) (sep : Char)
    (is : IStream) (hf : is.fail = true) :
    readRowImplG true P n sep is = readRowImplG false P n sep is ∧
    readRowStdVectorG true P sep is = readRowStdVectorG false P sep is := by
  simp [readRowImplG, readRowStdVectorG, onRowError, hf]

/-! ### Non-vacuity: the hypotheses are satisfiable, the conclusions are not trivially true -/

/-- toy oracle with the `from_chars` contract on unsigned decimal integers -/
def digitsP (l : List Char) : Option (Nat × Nat) :=
  let ds := l.takeWhile Char.isDigit
  if ds.isEmpty then none else some (ds.foldl (fun a c => a * 10 + (c.toNat - 48)) 0, ds.length)

theorem digitsP_bound : PBound digitsP := by
  intro l v k h
  unfold digitsP at h
  by_cases he : (l.takeWhile Char.isDigit).isEmpty = true
  · simp [he] at h
  · simp only [he] at h
    have hk : k = (l.takeWhile Char.isDigit).length := by
      simp at h; exact h.2.symm
    rw [hk]
    exact (List.takeWhile_sublist _).length_le

theorem digitsP_nil : digitsP [] = none := rfl

theorem noNL_of_all (l : List Char) (h : l.all (· != '\n') = true) : NoNL l := by
  intro c hc
  have := List.all_eq_true.mp h c hc
  simpa using this

/-- the oracle contract holds for a concrete oracle and token -/
example : TokOK digitsP ',' ['1', '2'] 12 := by
  intro rest h
  rcases h with rfl | ⟨t, rfl⟩ <;>
    simp [readSingle, readSingleG, digitsP, singleSkipPlus, singleFails, Char.isDigit]

theorem dataLine_cons (c : Char) (l : List Char) (hc : c ≠ '#') : DataLine (c :: l) := by
  intro c' l' h
  injection h with h1 _
  exact h1 ▸ hc

/-- concrete tokens for the examples: `12` and `7` in front of `,` -/
theorem tok_12_7 : ∀ p ∈ [((['1', '2'] : List Char), 12), (['7'], 7)], TokOK digitsP ',' p.1 p.2 := by
  intro p hp
  simp at hp
  rcases hp with rfl | rfl <;> intro rest h <;> rcases h with rfl | ⟨t, rfl⟩ <;>
    simp [readSingle, readSingleG, digitsP, singleSkipPlus, singleFails, Char.isDigit]

theorem tok_12 : ∀ p ∈ [((['1', '2'] : List Char), 12)], TokOK digitsP ',' p.1 p.2 :=
  fun p hp => tok_12_7 p (by simp at hp ⊢; exact Or.inl hp)

theorem len_12_7 : ∀ p ∈ [((['1', '2'] : List Char), 12), (['7'], 7)], p.1.length ≤ 63 := by
  intro p hp; simp at hp; rcases hp with rfl | rfl <;> simp

theorem len_12 : ∀ p ∈ [((['1', '2'] : List Char), 12)], p.1.length ≤ 63 :=
  fun p hp => len_12_7 p (by simp at hp ⊢; exact Or.inl hp)

theorem ctxOf (L : List Char) (t : List Char) (hL : L.all (· != '\n') = true) (c : Char) (l : List Char)
    (h : L = c :: l) (hc : c ≠ '#') : RowCtx [['c']] L ('\n' :: t) :=
  ⟨by intro b hb; simp at hb; subst hb; exact noNL_of_all _ (by decide), noNL_of_all L hL, Or.inr ⟨t, rfl⟩,
   ⟨c, l, h, hc⟩⟩

/-- `read_row_tokens` instantiated: two tokens, any continuation of the file -/
example (t : List Char) :
    readRowImpl digitsP 2 ',' ⟨['1', '2', ',', '7'] ++ '\n' :: t, false, false⟩ = (.ok [12, 7], ⟨t, false, false⟩) := by
  have := read_row_tokens digitsP ',' [] (by simp) [(['1', '2'], 12), (['7'], 7)] ('\n' :: t) (Or.inr ⟨t, rfl⟩)
    len_12_7 tok_12_7 (noNL_of_all _ (by decide)) '1' ['2', ',', '7'] rfl (by decide)
  simpa [lineOf, afterLine, commentText] using this

/-- `read_vector_tokens` instantiated (after a comment line `#c`) -/
example (t : List Char) :
    readRowStdVector digitsP ',' (rowStream [['c']] ['1', '2', ',', '7'] ('\n' :: t)) =
      (.ok [12, 7], ⟨t, false, false⟩) :=
  read_vector_tokens digitsP ',' [['c']] [(['1', '2'], 12), (['7'], 7)] ('\n' :: t)
    (ctxOf _ t (by decide) '1' ['2', ',', '7'] rfl (by decide)) len_12_7 tok_12_7
    (by intro p hp; simp at hp; rcases hp with rfl | rfl <;> simp)

/-- `read_row_terminated` instantiated: `12,7,` is the row (12, 7) for both readers -/
example (t : List Char) :
    readRowImpl digitsP 2 ',' (rowStream [['c']] ['1', '2', ',', '7', ','] ('\n' :: t)) =
      (.ok [12, 7], ⟨t, false, false⟩) ∧
    readRowStdVector digitsP ',' (rowStream [['c']] ['1', '2', ',', '7', ','] ('\n' :: t)) =
      (.ok [12, 7], ⟨t, false, false⟩) :=
  read_row_terminated digitsP ',' [['c']] [(['1', '2'], 12), (['7'], 7)] ('\n' :: t)
    (ctxOf _ t (by decide) '1' ['2', ',', '7', ','] rfl (by decide)) len_12_7 tok_12_7

/-- wrong separator: `12,7;5` -/
example (t : List Char) :
    (readRowImpl digitsP 3 ',' (rowStream [['c']] ['1', '2', ',', '7', ';', '5'] ('\n' :: t))).1 = .error .sep ∧
    (readRowStdVector digitsP ',' (rowStream [['c']] ['1', '2', ',', '7', ';', '5'] ('\n' :: t))).1 = .error .sep :=
  row_wrong_separator_rejected digitsP ',' (ctxOf _ t (by decide) '1' ['2', ',', '7', ';', '5'] rfl (by decide))
    [(['1', '2'], 12)] len_12 tok_12 ['7', ';', '5'] rfl ['7'] ['5'] ';' 7 rfl (by decide) (by simp)
    (by intro X; simp [readSingle, readSingleG, digitsP, singleSkipPlus, singleFails, Char.isDigit]) 3 (by simp)

/-- empty field in the middle (`12,,7`) and at the front (`,12`) -/
example (t : List Char) :
    (readRowImpl digitsP 3 ',' (rowStream [['c']] ['1', '2', ',', ',', '7'] ('\n' :: t))).1 = .error .conv ∧
    (readRowStdVector digitsP ',' (rowStream [['c']] ['1', '2', ',', ',', '7'] ('\n' :: t))).1 = .error .conv :=
  row_empty_field_rejected digitsP ',' (ctxOf _ t (by decide) '1' ['2', ',', ',', '7'] rfl (by decide))
    [(['1', '2'], 12)] len_12 tok_12 [',', '7'] rfl ['7'] rfl
    (by intro X; simp [digitsP, Char.isDigit]) (by decide) 3 (by simp)
example (t : List Char) :
    (readRowImpl digitsP 2 ',' (rowStream [['c']] [',', '1', '2'] ('\n' :: t))).1 = .error .conv ∧
    (readRowStdVector digitsP ',' (rowStream [['c']] [',', '1', '2'] ('\n' :: t))).1 = .error .conv :=
  row_empty_field_rejected digitsP ',' (ctxOf _ t (by decide) ',' ['1', '2'] rfl (by decide))
    [] (by simp) (by simp) [',', '1', '2'] rfl ['1', '2'] rfl
    (by intro X; simp [digitsP, Char.isDigit]) (by decide) 2 (by simp)

/-- too few: `12,7,` and `12,7` with `n = 3` -/
example (t : List Char) :
    (readRowImpl digitsP 3 ',' (rowStream [['c']] ['1', '2', ',', '7', ','] ('\n' :: t))).1 = .error .conv :=
  row_too_few_rejected digitsP ',' (ctxOf _ t (by decide) '1' ['2', ',', '7', ','] rfl (by decide))
    [(['1', '2'], 12), (['7'], 7)] len_12_7 tok_12_7 [] rfl digitsP_nil rfl 3 (by simp)
example (t : List Char) :
    (readRowImpl digitsP 3 ',' (rowStream [['c']] ['1', '2', ',', '7'] ('\n' :: t))).1 = .error .conv :=
  row_too_few_unterminated_rejected digitsP ',' (ctxOf _ t (by decide) '1' ['2', ',', '7'] rfl (by decide))
    [(['1', '2'], 12)] len_12 tok_12 ['7'] rfl digitsP_nil 7 (by simp) (tok_12_7 (['7'], 7) (by simp)) 3 (by simp)

/-- too many: `12,7,5` with `n = 2` -/
example (t : List Char) :
    (readRowImpl digitsP 2 ',' (rowStream [['c']] ['1', '2', ',', '7', ',', '5'] ('\n' :: t))).1 = .error .line :=
  row_too_many_rejected digitsP ',' (ctxOf _ t (by decide) '1' ['2', ',', '7', ',', '5'] rfl (by decide))
    [(['1', '2'], 12), (['7'], 7)] len_12_7 tok_12_7 ['5'] rfl (by simp)

/-- over-long: `12,` then 65 digits -/
example (t : List Char) :
    (readRowImpl digitsP 2 ',' (rowStream [['c']] (['1', '2', ','] ++ List.replicate 65 '1') ('\n' :: t))).1 =
      .error .long ∧
    (readRowStdVector digitsP ',' (rowStream [['c']] (['1', '2', ','] ++ List.replicate 65 '1') ('\n' :: t))).1 =
      .error .long := by
  have hE : overlongErr digitsP (List.replicate 65 '1') = .long := by decide +kernel
  have := row_overlong_rejected digitsP ','
    (ctxOf (['1', '2', ','] ++ List.replicate 65 '1') t (by decide) '1' (['2', ','] ++ List.replicate 65 '1') rfl
      (by decide))
    [(['1', '2'], 12)] len_12 tok_12 (List.replicate 65 '1') rfl digitsP_bound (List.replicate 65 '1') [] (by simp)
    (by simp) (by decide) 2 (by simp)
  rwa [hE] at this

/-- the frame theorems instantiated: a malformed line `1,x` after a comment, any continuation -/
example (t : List Char) (n : Nat) :=
  read_row_frame_resync digitsP digitsP_bound ',' [['c']]
    (by intro b hb; simp at hb; subst hb; exact noNL_of_all _ (by decide)) ['1', ',', 'x'] ('\n' :: t)
    (noNL_of_all _ (by decide)) (dataLine_cons _ _ (by decide)) (Or.inr ⟨t, rfl⟩) digitsP_nil n
example (t : List Char) (n : Nat) :=
  read_row_frame_current digitsP digitsP_bound ',' [['c']]
    (by intro b hb; simp at hb; subst hb; exact noNL_of_all _ (by decide)) ['1', ',', 'x'] ('\n' :: t)
    (noNL_of_all _ (by decide)) (dataLine_cons _ _ (by decide)) (Or.inr ⟨t, rfl⟩) digitsP_nil n
example (t : List Char) :=
  read_vector_frame_current digitsP digitsP_bound ',' [['c']]
    (by intro b hb; simp at hb; subst hb; exact noNL_of_all _ (by decide)) ['1', ',', 'x'] ('\n' :: t)
    (noNL_of_all _ (by decide)) (dataLine_cons _ _ (by decide)) (Or.inr ⟨t, rfl⟩)

/-! #### The open finding `csv-error-leaves-stream-mid-line`, on the model of the present code -/

/-- Without the handler the error branch of the frame theorems is really "inside the line": after the
    65-digit token is rejected the stream holds the 65th digit and the rest; the *next* call returns
    that digit as a row `[2]`, and only the call after that sees the real next row `7`. -/
theorem finding_tail_read_as_next_row :
    let s0 : IStream := ⟨List.replicate 64 '1' ++ ['2', '\n', '7', '\n'], false, false⟩
    let r1 := readRowStdVectorG false digitsP ',' s0
    let r2 := readRowStdVectorG false digitsP ',' r1.2
    r1 = (.error .long, ⟨['2', '\n', '7', '\n'], false, false⟩) ∧ r2 = (.ok [2], ⟨['7', '\n'], false, false⟩) := by
  decide +kernel

/-- … a short rejected row leaves the stream on its newline: the next `read_row_std_vector` returns an
    empty row, the next `read_row(1)` fails with "extraction failed" and sets failbit. -/
theorem finding_short_row_next_call :
    let s0 : IStream := ⟨['1', ',', 'x', '\n', '7', '\n'], false, false⟩
    let r1 := readRowStdVectorG false digitsP ',' s0
    r1 = (.error .conv, ⟨['\n', '7', '\n'], false, false⟩) ∧
    readRowStdVectorG false digitsP ',' r1.2 = (.ok [], ⟨['7', '\n'], false, false⟩) ∧
    readRowImplG false digitsP 1 ',' r1.2 = (.error .ext, ⟨['\n', '7', '\n'], false, true⟩) := by
  decide +kernel

/-- With the handler the same two streams: the error is the same, the next call reads the next row. -/
theorem fixed_next_row_after_error :
    let sA : IStream := ⟨List.replicate 64 '1' ++ ['2', '\n', '7', '\n'], false, false⟩
    let sB : IStream := ⟨['1', ',', 'x', '\n', '7', '\n'], false, false⟩
    let a1 := readRowStdVectorG true digitsP ',' sA
    let b1 := readRowImplG true digitsP 2 ',' sB
    a1 = (.error .long, ⟨['7', '\n'], false, false⟩) ∧
    readRowStdVectorG true digitsP ',' a1.2 = (.ok [7], ⟨[], false, false⟩) ∧
    b1 = (.error .conv, ⟨['7', '\n'], false, false⟩) ∧
    readRowImplG true digitsP 1 ',' b1.2 = (.ok [7], ⟨[], false, false⟩) := by
  decide +kernel

/-- the functions the driver runs are the ones with the handler (`rows_current`) -/
example :
    readRowStdVector digitsP ',' ⟨List.replicate 64 '1' ++ ['2', '\n', '7'], false, false⟩ =
      (.error .long, ⟨['7'], false, false⟩) := by
  decide +kernel
example :
    (readRowImpl digitsP 2 ',' ⟨List.replicate 64 '1' ++ ['2', '\n', '7'], false, false⟩).1 = .error .long := by
  decide +kernel
/-- a 64-character token that ends the line still fits the window and is accepted -/
example :
    (readRowImpl digitsP 2 ',' ⟨['5', ','] ++ List.replicate 64 '1' ++ ['\n', '7'], false, false⟩) =
      (.ok [5, 1111111111111111111111111111111111111111111111111111111111111111], ⟨['7'], false, false⟩) := by
  decide +kernel

/-- a 99-character row (50 one-digit fields): tokens and separators straddle the window boundary -/
example :
    (readRowImpl digitsP 50 ';' ⟨(List.replicate 49 ['7', ';']).flatten ++ ['7', '\n', '5'], false, false⟩) =
      (.ok (List.replicate 50 7), ⟨['5'], false, false⟩) := by
  decide +kernel

/-- comment lines of 1, 64, 65 and 130 characters, then an empty row, then a data row -/
example :
    let cmt (n : Nat) : List Char := '#' :: List.replicate n 'x' ++ ['\n']
    let text := cmt 0 ++ cmt 63 ++ cmt 64 ++ cmt 129 ++ ['\n', '4', ',', '2', '\n']
    let r1 := readRowImpl digitsP 0 ',' ⟨text, false, false⟩
    r1.1 = .ok [] ∧ readRowImpl digitsP 2 ',' r1.2 = (.ok [4, 2], ⟨[], false, false⟩) := by
  decide +kernel

/-- malformed: wrong separator in the middle of a 99-character row is rejected, not returned -/
example :
    (readRowImpl digitsP 50 ';' ⟨(List.replicate 40 ['7', ';']).flatten ++ ['7', ','] ++
        (List.replicate 8 ['7', ';']).flatten ++ ['7', '\n', '5'], false, false⟩).1 = .error .sep := by
  decide +kernel

/-! #### direct instances of the remaining theorems (all hypotheses instantiated) -/

example (t : List Char) :=
  read_token_any_offset digitsP ',' ['1', '2', ',', '7'] ('\n' :: t) ['1', '2'] ['7'] 0 12 (by simp)
    (noNL_of_all _ (by decide)) (Or.inr ⟨t, rfl⟩) rfl (by simp) (tok_12_7 (['1', '2'], 12) (by simp))
example (t : List Char) :=
  read_fields_tokens digitsP ',' [(['1', '2'], 12), (['7'], 7)] ('\n' :: t) (Or.inr ⟨t, rfl⟩) len_12_7 tok_12_7
    ['1', '2', ',', '7'] 0 (by simp) (noNL_of_all _ (by decide)) rfl
example (t : List Char) :=
  wrong_separator_rejected digitsP ',' ';' ['7', ';', '5'] ('\n' :: t) ['7'] ['5'] 0 7 (by simp)
    (noNL_of_all _ (by decide)) (Or.inr ⟨t, rfl⟩) rfl (by decide) (by simp)
    (by intro X; simp [readSingle, readSingleG, digitsP, singleSkipPlus, singleFails, Char.isDigit])
example (t : List Char) :=
  unparsable_rejected digitsP ',' ['x', ',', '5'] ('\n' :: t) 0 (by simp) (noNL_of_all _ (by decide))
    (Or.inr ⟨t, rfl⟩) (by decide)
example (t : List Char) :=
  overlong_token_rejected digitsP digitsP_bound ',' (List.replicate 65 '1') ('\n' :: t) (List.replicate 65 '1') []
    0 (by simp) (noNL_of_all _ (by decide)) (Or.inr ⟨t, rfl⟩) (by simp) (by simp) (by decide)
example (t : List Char) :=
  next_line_exact ['1', ',', 'x'] ('\n' :: t) (noNL_of_all _ (by decide)) (Or.inr ⟨t, rfl⟩) _ _ _
    (canon_start _ _)
example (t : List Char) :=
  read_any_text digitsP digitsP_bound ',' ['1', ',', 'x'] ('\n' :: t) (noNL_of_all _ (by decide))
    (Or.inr ⟨t, rfl⟩) _ _ _ (canon_start _ _)
example (t : List Char) :=
  print_then_read digitsP ',' [(['1', '2'], 12), (['7'], 7)] (fun r _ => if r = 0 then ['1', '2'] else ['7']) t
    (by decide) len_12_7 tok_12_7 (noNL_of_all _ (by decide)) '1' ['2', ',', '7'] rfl (by decide)
example (t : List Char) (n : Nat) :=
  rows_leave_rest_resync digitsP digitsP_bound digitsP_nil ',' [['c']]
    (by intro b hb; simp at hb; subst hb; exact noNL_of_all _ (by decide)) ['1', ',', 'x'] t
    (noNL_of_all _ (by decide)) (dataLine_cons _ _ (by decide)) n
example (n : Nat) := failed_stream_untouched digitsP n ',' ⟨['1', '\n'], false, true⟩ rfl
example (t : List Char) := empty_line_too_few_rejected digitsP digitsP_nil ',' [['c']]
    (by intro b hb; simp at hb; subst hb; exact noNL_of_all _ (by decide)) ('\n' :: t) (Or.inr ⟨t, rfl⟩) 2 (by simp)
example (t : List Char) :=
  read_vector_frame_resync digitsP digitsP_bound ',' [['c']]
    (by intro b hb; simp at hb; subst hb; exact noNL_of_all _ (by decide)) ['1', ',', 'x'] ('\n' :: t)
    (noNL_of_all _ (by decide)) (dataLine_cons _ _ (by decide)) (Or.inr ⟨t, rfl⟩)
example (t : List Char) (n : Nat) :=
  read_row_frame_plain digitsP digitsP_bound ',' [['c']]
    (by intro b hb; simp at hb; subst hb; exact noNL_of_all _ (by decide)) ['1', ',', 'x'] ('\n' :: t)
    (noNL_of_all _ (by decide)) (dataLine_cons _ _ (by decide)) (Or.inr ⟨t, rfl⟩) digitsP_nil n
example (t : List Char) :=
  read_vector_frame_plain digitsP digitsP_bound ',' [['c']]
    (by intro b hb; simp at hb; subst hb; exact noNL_of_all _ (by decide)) ['1', ',', 'x'] ('\n' :: t)
    (noNL_of_all _ (by decide)) (dataLine_cons _ _ (by decide)) (Or.inr ⟨t, rfl⟩)
example (t : List Char) := read_row_empty digitsP ',' [['c']]
    (by intro b hb; simp at hb; subst hb; exact noNL_of_all _ (by decide)) t
example := read_row_empty_eof digitsP ',' [['c']]
    (by intro b hb; simp at hb; subst hb; exact noNL_of_all _ (by decide))


/-! #### `+-…` tokens (former finding `csv-plus-minus-sign-accepted`) -/

/-- toy oracle with the `from_chars` contract on signed decimal integers (a minus sign, no plus sign) -/
def sdigitsP (l : List Char) : Option (Int × Nat) :=
  match l with
  | '-' :: t => (digitsP t).map fun (v, k) => (-(v : Int), k + 1)
  | _ => (digitsP l).map fun (v, k) => ((v : Int), k)

example : readSingleG true sdigitsP ['+', '-', '3'] 0 3 = none :=
  plus_minus_rejected_with_check sdigitsP ['3'] 3 (by simp)
example : readSingleG false sdigitsP ['+', '-', '3'] 0 3 = some (-3, 3) :=
  plus_minus_accepted_without_check sdigitsP ['3'] 3 (by simp) (-3) 2 (by decide)

/-- the row functions the driver runs (`single_current`): `7,+-3` is rejected, the next row is intact -/
theorem plus_minus_row_rejected :
    readRowImpl sdigitsP 2 ',' ⟨['7', ',', '+', '-', '3', '\n', '5'], false, false⟩ =
      (.error .conv, ⟨['5'], false, false⟩) ∧
    readRowStdVector sdigitsP ',' ⟨['7', ',', '+', '-', '3', '\n', '5'], false, false⟩ =
      (.error .conv, ⟨['5'], false, false⟩) := by
  decide +kernel
/-- `+3` and `-3` themselves are read as before -/
example :
    readRowImpl sdigitsP 2 ',' ⟨['+', '3', ',', '-', '3', '\n'], false, false⟩ = (.ok [3, -3], ⟨[], false, false⟩) := by
  decide +kernel

end Alpaqa.Props.C17
