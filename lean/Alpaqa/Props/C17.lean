/-
  C17 — Numeric text I/O round-trips exactly and rejects malformed input.

  Theorems about the executable model `Alpaqa/Model/C17.lean` (CSV reader state machine over a
  libstdc++-style `IStream`, printers' framing), whose constants and decision expressions are the
  regenerated `Alpaqa/Gen/C17.lean` and whose control skeleton is pinned by the `skel_*` theorems
  below.  `std::from_chars` / `std::to_chars` are oracles (`P`, `printNum`); their contract enters
  as the hypothesis `TokOK` (a printed token is consumed entirely, with its value, when followed by
  the separator or the end of the window).  Nothing here is about decimal ↔ binary conversion.

  Canonical reader states: `shifted L j` / `streamOf L tail` describe the reader after it has
  consumed `j ≤ 64` characters of the window over a line whose unread part was `L` (any length —
  `L` may be millions of characters; the window holds `L.take 64`, the stream `L.drop 64 ++ tail`).
  All step theorems are stated from *every* such state, i.e. for every position of the chunk
  boundaries relative to the tokens.
-/
import Alpaqa.Proofs.C17

namespace Alpaqa.Props.C17
set_option linter.unusedSimpArgs false
open Alpaqa.C17 Alpaqa.Gen.C17 Alpaqa.Proofs.C17

/-! ### The hand model's control skeleton is the one csv.tpp has now (regenerated every run) -/

theorem consts_csv : bufmaxsize = 64 ∧ arraySize = 65 ∧ bufidxInit = 0 ∧ keepReadingInit = true ∧ endCh = '\n' := by
  decide
theorem skel_read_ok : skel_read =
    ["if {call read_chunk}", "decl v", "decl bufend", "decl ptr = read_single",
     "if {throw csv::read_row unexpected character '}", "if {throw csv::read_row number too long for buffer}",
     "if {call std::copy; bufidx -=} else {bufidx =}", "return"] := by decide
theorem skel_read_chunk_ok : skel_read_chunk =
    ["if {throw csv::read_row invalid stream:}", "if {return}", "if {throw csv::read_row extraction failed:}",
     "bufidx +=", "keep_reading ="] := by decide
theorem skel_skip_comments_ok : skel_skip_comments =
    ["if {return}",
     "while {call read_chunk; if {break}; while {bufidx =; call read_chunk}; bufidx =; call next_line; " ++
       "if {return}}"] := by
  decide
theorem skel_read_single_ok : skel_read_single =
    ["if {++bufbegin}", "decl [ptr,ec] = std::from_chars", "decl bufvw",
     "if {throw csv::read_row conversion failed '}", "return"] := by decide
theorem skel_next_line_ok : skel_next_line = ["if {throw csv::read_row line not fully consumed}"] := by decide
theorem skel_done_ok : skel_done = ["decl keep_reading", "return"] := by decide
theorem skel_read_row_impl_ok : skel_read_row_impl =
    ["decl reader", "call skip_comments", "while[RANGE_FOR] {vv = read}", "call next_line"] := by decide
theorem skel_read_row_std_vector_ok : skel_read_row_std_vector =
    ["decl reader", "decl v", "call skip_comments", "while[done] {call push_back,read}", "call next_line",
     "return"] := by decide
theorem printer_literals_ok :
    csvDefaults = [",", "", "\n"] ∧ matlabEnd = ";\n" ∧ pythonEnd = "\n" ∧
    lits_print_csv_impl = [] ∧
    lits_print_matlab_impl = [" ", "[", "]", "[", " ", ";\n ", "]"] ∧
    lits_print_python_impl = [", ", "[", "]", "[[", ", ", "],\n [", "]]"] ∧
    lits_float_to_str_vw = ["'+'", "!", "signbit", "&&", "!", "isnan", "scientific"] ∧
    defaultPrecision = "std::numeric_limits<F>::max_digits10" := by decide

/-! ### Valid rows: chunk-boundary independence -/

/-- the stream after a line has been read and its newline consumed -/
def afterLine : List Char → IStream
  | [] => ⟨[], true, true⟩
  | _ :: t => ⟨t, false, false⟩

/-- **One field, any chunk position.**  From every canonical state whose unread line starts with a
    token (< window) followed by the separator, `read` returns the token's value and leaves the
    canonical state of the rest of the line. -/
theorem read_token_any_offset {V : Type} (P : List Char → Option (V × Nat)) (sep : Char)
    (L tail tok L' : List Char) (j : Nat) (v : V) (hj : j ≤ min 64 L.length) (hL : NoNL L) (ht : TailOK tail)
    (hd : L.drop j = tok ++ sep :: L') (hlen : tok.length ≤ 63) (hok : TokOK P sep tok v) :
    Alpaqa.C17.read P (shifted L j) (streamOf L tail) sep =
      (.ok v, shifted (L.drop j) (tok.length + 1), streamOf (L.drop j) tail) :=
  read_tok P sep L tail tok L' j v hj hL ht hd hlen hok

/-- **All fields.**  `n = tv.length` reads from any canonical state whose unread line is the tokens
    joined by `sep` return exactly their values, with the window empty and the stream at the line end. -/
theorem read_fields_tokens {V : Type} (P : List Char → Option (V × Nat)) (sep : Char)
    (tv : List (List Char × V)) (tail : List Char) (ht : TailOK tail)
    (hlen : ∀ p ∈ tv, p.1.length ≤ 63) (hok : ∀ p ∈ tv, TokOK P sep p.1 p.2)
    (L : List Char) (j : Nat) (hj : j ≤ min 64 L.length) (hL : NoNL L)
    (hd : L.drop j = lineOf sep (tv.map (·.1))) :
    readFields P tv.length (shifted L j) (streamOf L tail) sep =
      (.ok (tv.map (·.2)), ⟨[], 0, false⟩, ⟨tail, tail.isEmpty, tail.isEmpty⟩) :=
  readFields_tokens P sep tv tail ht hlen hok L j hj hL hd

/-- **`read_row` on a valid row of any length, after any number of comment lines** (no bound on the
    number of fields, on the line length or on the comment lengths, hence every position of the
    64-byte chunk boundaries): the values are `map parse toks` and the stream is left at the start
    of the next line.  `cs` are the comment bodies (each line is `'#' :: body ++ ['\n']`). -/
theorem read_row_tokens {V : Type} (P : List Char → Option (V × Nat)) (sep : Char)
    (cs : List (List Char)) (hcs : ∀ b ∈ cs, NoNL b)
    (tv : List (List Char × V)) (tail : List Char) (ht : TailOK tail)
    (hlen : ∀ p ∈ tv, p.1.length ≤ 63) (hok : ∀ p ∈ tv, TokOK P sep p.1 p.2)
    (hNL : NoNL (lineOf sep (tv.map (·.1))))
    (c : Char) (l : List Char) (hline : lineOf sep (tv.map (·.1)) = c :: l) (hc : c ≠ '#') :
    readRowImpl P tv.length sep ⟨commentText cs ++ (lineOf sep (tv.map (·.1)) ++ tail), false, false⟩ =
      (.ok (tv.map (·.2)), afterLine tail) := by
  have hF : cs.length + 1 ≤ (commentText cs ++ (lineOf sep (tv.map (·.1)) ++ tail)).length + 1 := by
    have := commentText_length cs
    simp only [List.length_append]; omega
  obtain ⟨k', hk⟩ := comments_skipped (lineOf sep (tv.map (·.1)) ++ tail) cs true _ hF hcs
  have hpos : ∃ f, (commentText cs ++ (lineOf sep (tv.map (·.1)) ++ tail)).length + 1 - cs.length = f + 1 := by
    have := commentText_length cs
    exact ⟨(commentText cs ++ (lineOf sep (tv.map (·.1)) ++ tail)).length - cs.length, by
      simp only [List.length_append] at *; omega⟩
  obtain ⟨f, hf⟩ := hpos
  have h1 : skipComments {} ⟨commentText cs ++ (lineOf sep (tv.map (·.1)) ++ tail), false, false⟩ =
      (.ok (), shifted (lineOf sep (tv.map (·.1))) 0, streamOf (lineOf sep (tv.map (·.1))) tail) := by
    rw [skipComments_eq]
    have hr0 : ({} : Reader) = ⟨[], 0, true⟩ := rfl
    rw [hr0, hk, hf]
    exact afterTest_data f k' _ tail c l hline hc hNL ht
  have h2 := readFields_tokens P sep tv tail ht hlen hok (lineOf sep (tv.map (·.1))) 0 (by omega) hNL rfl
  have h3 := nextLine_done tail ht
  simp only [readRowImpl, h1, h2, h3]
  cases tail <;> rfl

/-- **The empty row** — also after any number of comment lines (the repaired `skip_comments`) — is
    read as zero fields and its newline consumed. -/
theorem read_row_empty {V : Type} (P : List Char → Option (V × Nat)) (sep : Char)
    (cs : List (List Char)) (hcs : ∀ b ∈ cs, NoNL b) (t : List Char) :
    readRowImpl P 0 sep ⟨commentText cs ++ '\n' :: t, false, false⟩ = (.ok [], ⟨t, false, false⟩) := by
  have hF : cs.length + 1 ≤ (commentText cs ++ '\n' :: t).length + 1 := by
    have := commentText_length cs
    simp only [List.length_append]; omega
  obtain ⟨k', hk⟩ := comments_skipped ('\n' :: t) cs true _ hF hcs
  have hr0 : ({} : Reader) = ⟨[], 0, true⟩ := rfl
  have h1 : skipComments {} ⟨commentText cs ++ '\n' :: t, false, false⟩ =
      (.ok (), ⟨[], 0, k'⟩, ⟨'\n' :: t, false, false⟩) := by
    rw [skipComments_eq, hr0, hk, afterTest_empty]
  simp [readRowImpl, h1, readFields, nextLine, nextLineThrowsEvalsGetc, nextLineThrows, IStream.get1,
    IStream.good, endCh]

/-- … and a file that ends after its comment lines reads as an empty row (no error). -/
theorem read_row_empty_eof {V : Type} (P : List Char → Option (V × Nat)) (sep : Char)
    (cs : List (List Char)) (hcs : ∀ b ∈ cs, NoNL b) :
    (readRowImpl P 0 sep ⟨commentText cs, false, false⟩).1 = .ok [] := by
  have hF : cs.length + 1 ≤ (commentText cs ++ []).length + 1 := by
    have := commentText_length cs
    simp only [List.length_append]; omega
  obtain ⟨k', hk⟩ := comments_skipped [] cs true _ hF hcs
  have hpos : ∃ f, (commentText cs ++ []).length + 1 - cs.length = f + 1 := by
    have := commentText_length cs
    exact ⟨(commentText cs ++ []).length - cs.length, by simp only [List.length_append] at *; omega⟩
  obtain ⟨f, hf⟩ := hpos
  have hr0 : ({} : Reader) = ⟨[], 0, true⟩ := rfl
  have h1 : skipComments {} ⟨commentText cs, false, false⟩ = (.ok (), ⟨[], 0, k'⟩, ⟨[], true, false⟩) := by
    have := skipComments_eq {} ⟨commentText cs ++ [], false, false⟩
    rw [hr0, hk, hf, afterTest_eof] at this
    show skipComments ⟨[], 0, true⟩ _ = _
    simpa using this
  simp [readRowImpl, h1, readFields, nextLine, nextLineThrowsEvalsGetc, nextLineThrows]

/-! ### Printers' framing, and print-then-read -/

theorem joinSep_single (sep : Char) (ts : List (List Char)) : joinSep [sep] ts = lineOf sep ts := by
  induction ts with
  | nil => rfl
  | cons t r ih =>
    cases r with
    | nil => rfl
    | cons t' r' => simp [joinSep, lineOf, ih]

/-- `print_csv` of a vector (one column) is the tokens joined by the separator plus a newline. -/
theorem printCsv_vector (n : Nat) (el : Nat → Nat → List Char) (sep : Char) :
    printCsvImpl n 1 el [sep] [] ['\n'] = lineOf sep (rowToks n fun r => el r 0) ++ ['\n'] := by
  simp [printCsvImpl, joinSep_single]

/-- **print-then-read**, modulo the oracle contract `parse (print v) = v` (= `TokOK`): a vector
    printed by `print_csv` and followed by anything is read back as the same values, the stream left
    at the start of what followed. -/
theorem print_then_read {V : Type} (P : List Char → Option (V × Nat)) (sep : Char)
    (tv : List (List Char × V)) (el : Nat → Nat → List Char) (rest : List Char)
    (hel : (rowToks tv.length fun r => el r 0) = tv.map (·.1))
    (hlen : ∀ p ∈ tv, p.1.length ≤ 63) (hok : ∀ p ∈ tv, TokOK P sep p.1 p.2)
    (hNL : NoNL (lineOf sep (tv.map (·.1))))
    (c : Char) (l : List Char) (hline : lineOf sep (tv.map (·.1)) = c :: l) (hc : c ≠ '#') :
    readRowImpl P tv.length sep ⟨printCsvImpl tv.length 1 el [sep] [] ['\n'] ++ rest, false, false⟩ =
      (.ok (tv.map (·.2)), ⟨rest, false, false⟩) := by
  rw [printCsv_vector, hel, List.append_assoc]
  have := read_row_tokens P sep [] (by simp) tv ('\n' :: rest) (Or.inr ⟨rest, rfl⟩) hlen hok hNL c l hline hc
  simpa [commentText, afterLine] using this

/-! ### Malformed rows are rejected; nothing past the end of the line is consumed -/

/-- In every canonical state the unread stream ends with `tail` (newline + following lines, or EOF):
    the reader has consumed nothing beyond the current line. -/
theorem streamOf_within_line (L tail : List Char) : ∃ pre, (streamOf L tail).rest = pre ++ tail :=
  ⟨L.drop 64, rfl⟩

/-- **Wrong separator / trailing garbage.**  A token (< window) that the oracle stops after, followed
    by a character that is not the separator, at any chunk position: `read` throws "unexpected
    character"; the stream stays inside the line. -/
theorem wrong_separator_rejected {V : Type} (P : List Char → Option (V × Nat)) (sep c : Char)
    (L tail tok L' : List Char) (j : Nat) (v : V) (hj : j ≤ min 64 L.length) (hL : NoNL L) (ht : TailOK tail)
    (hd : L.drop j = tok ++ c :: L') (hc : c ≠ sep) (hlen : tok.length ≤ 63)
    (hparse : ∀ X, readSingle P (tok ++ c :: X) 0 (tok ++ c :: X).length = some (v, tok.length)) :
    Alpaqa.C17.read P (shifted L j) (streamOf L tail) sep =
      (.error .sep, shifted (L.drop j) 0, streamOf (L.drop j) tail) := by
  simp only [Alpaqa.C17.read, chunkPhase_shifted L tail j hj hL ht]
  rw [hd]
  have hW := take64_tok_sep tok L' c hlen
  have hrs := hparse (L'.take (63 - tok.length))
  have hlenW : min 64 (tok ++ c :: L').length = (tok ++ c :: L'.take (63 - tok.length)).length := by
    rw [← hW, List.length_take]
  have hne : tok.length ≠ (tok ++ c :: L'.take (63 - tok.length)).length := by simp
  have hget : (tok ++ c :: L'.take (63 - tok.length)).getD tok.length ' ' = c := by
    simp [List.getD_eq_getElem?_getD]
  simp only [readParse, shifted, readBufend, readSingleBegin, Nat.zero_add, List.drop_zero, Nat.sub_zero, hW,
    hlenW, hrs]
  simp [readSepBad, hne, hget, hc]

/-- **Empty field / non-numeric field / too few fields.**  Whenever the oracle rejects the window
    (`from_chars` error), at any chunk position, `read` throws "conversion failed". -/
theorem unparsable_rejected {V : Type} (P : List Char → Option (V × Nat)) (sep : Char)
    (L tail : List Char) (j : Nat) (hj : j ≤ min 64 L.length) (hL : NoNL L) (ht : TailOK tail)
    (hparse : readSingle P ((L.drop j).take 64) 0 (min 64 (L.drop j).length) = none) :
    Alpaqa.C17.read P (shifted L j) (streamOf L tail) sep =
      (.error .conv, shifted (L.drop j) 0, streamOf (L.drop j) tail) := by
  simp only [Alpaqa.C17.read, chunkPhase_shifted L tail j hj hL ht]
  have hparse' := hparse
  simp only [List.length_drop] at hparse'
  simp [readParse, shifted, readBufend, readSingleBegin, hparse']

/-- too few fields: the line is exhausted and the oracle rejects the empty string -/
theorem too_few_rejected {V : Type} (P : List Char → Option (V × Nat)) (sep : Char)
    (L tail : List Char) (j : Nat) (hj : j ≤ min 64 L.length) (hL : NoNL L) (ht : TailOK tail)
    (hd : L.drop j = []) (hP : P [] = none) :
    Alpaqa.C17.read P (shifted L j) (streamOf L tail) sep =
      (.error .conv, shifted (L.drop j) 0, streamOf (L.drop j) tail) := by
  apply unparsable_rejected P sep L tail j hj hL ht
  simp [hd, readSingle, singleSkipPlus, hP, singleFails]

/-- **Too many fields.**  If anything of the line is unread when `next_line` is called (any chunk
    position), it throws "line not fully consumed" and the stream stays inside the line. -/
theorem too_many_rejected (L tail : List Char) (j : Nat) (hj : j ≤ min 64 L.length) (hL : NoNL L)
    (hd : L.drop j ≠ []) :
    ∃ is', nextLine (shifted L j) (streamOf L tail) = (.error .line, is') ∧ ∃ pre, is'.rest = pre ++ tail := by
  have hlt : j < L.length := by
    by_contra h; exact hd (List.drop_eq_nil_of_le (by omega))
  by_cases hb : min 64 L.length - j > 0
  · refine ⟨streamOf L tail, ?_, streamOf_within_line L tail⟩
    simp [nextLine, shifted, nextLineThrowsEvalsGetc, nextLineThrows, hb]
  · have h64 : 64 < L.length := by omega
    have hj64 : j = 64 := by omega
    have h1 : ¬ (L.length ≤ 64) := by omega
    obtain ⟨c, r, hcr⟩ : ∃ c r, L.drop 64 = c :: r := by
      cases hdd : L.drop 64 with
      | nil => have := List.drop_eq_nil_iff.mp hdd; omega
      | cons c r => exact ⟨c, r, rfl⟩
    have hc : c ≠ '\n' := hL c (List.mem_of_mem_drop (by rw [hcr]; simp))
    refine ⟨⟨r ++ tail, false, false⟩, ?_, ⟨r, rfl⟩⟩
    have hb0 : min 64 L.length - j = 0 := by omega
    simp [nextLine, shifted, streamOf, nextLineThrowsEvalsGetc, nextLineThrows, hb0, h1, hcr, IStream.get1,
      IStream.good, endCh, hc]

/-! ### Over-long token: rejected (repaired `read`: "number too long for buffer") -/

/-- **Over-long token.**  At any chunk position, if the unread line starts with a token of more than
    64 characters (longer than the window) that does not contain the separator, `read` throws —
    whatever the number oracle makes of the first 64 characters (`hbound`: it cannot consume more
    than it was given): conversion error, unexpected character, or "number too long" when the number
    fills the window and the line continues.  The stream stays inside the line
    (`streamOf_within_line`); no number is returned. -/
theorem overlong_token_rejected {V : Type} (P : List Char → Option (V × Nat)) (sep : Char)
    (L tail tok rest : List Char) (j : Nat) (hj : j ≤ min 64 L.length) (hL : NoNL L) (ht : TailOK tail)
    (hd : L.drop j = tok ++ rest) (hlong : 65 ≤ tok.length) (hsep : sep ∉ tok)
    (hbound : ∀ v ptr, readSingle P (tok.take 64) 0 64 = some (v, ptr) → ptr ≤ 64) :
    ∃ e, Alpaqa.C17.read P (shifted L j) (streamOf L tail) sep =
      (.error e, shifted (L.drop j) 0, streamOf (L.drop j) tail) := by
  simp only [Alpaqa.C17.read, chunkPhase_shifted L tail j hj hL ht]
  have hW : (L.drop j).take 64 = tok.take 64 := by
    rw [hd, List.take_append_of_le_length (by omega)]
  have hlen : 64 < (L.drop j).length := by rw [hd, List.length_append]; omega
  have hmin : min 64 (L.drop j).length = 64 := by omega
  have hsh : shifted (L.drop j) 0 = ⟨tok.take 64, 64, true⟩ := by
    simp only [shifted, List.drop_zero, Nat.sub_zero, hW, hmin]
    have : 64 < L.length - j := by simpa using hlen
    simp [this]
  rw [hsh]
  cases hrs : readSingle P (tok.take 64) 0 64 with
  | none => exact ⟨.conv, by simp [readParse, readBufend, readSingleBegin, hrs]⟩
  | some vp =>
    obtain ⟨v, ptr⟩ := vp
    have hb := hbound v ptr hrs
    by_cases h64 : ptr = 64
    · subst h64
      exact ⟨.long, by simp [readParse, readBufend, readSingleBegin, hrs, readSepBad, readLong]⟩
    · have hlt : ptr < (tok.take 64).length := by rw [List.length_take]; omega
      have hne : (tok.take 64)[ptr]?.getD ' ' ≠ sep := by
        rw [List.getElem?_eq_getElem hlt]
        simp only [Option.getD_some]
        intro h
        exact hsep (h ▸ List.mem_of_mem_take (List.getElem_mem hlt))
      exact ⟨.sep, by simp [readParse, readBufend, readSingleBegin, hrs, readSepBad, h64, hne]⟩

/-- toy oracle with the `from_chars` contract on unsigned decimal integers -/
def digitsP (l : List Char) : Option (Nat × Nat) :=
  let ds := l.takeWhile Char.isDigit
  if ds.isEmpty then none else some (ds.foldl (fun a c => a * 10 + (c.toNat - 48)) 0, ds.length)

/-- the former silent split (DESIGN §7-B): a single 65-digit token is now an error for both readers,
    and the stream is left inside that line (the next line `7` is untouched) -/
example :
    readRowStdVector digitsP ',' ⟨List.replicate 64 '1' ++ ['2', '\n', '7'], false, false⟩ =
      (.error .long, ⟨['2', '\n', '7'], false, false⟩) := by
  decide +kernel
example :
    (readRowImpl digitsP 2 ',' ⟨List.replicate 64 '1' ++ ['2', '\n', '7'], false, false⟩).1 = .error .long := by
  decide +kernel
/-- a 64-character token that ends the line still fits the window and is accepted -/
example :
    (readRowImpl digitsP 2 ',' ⟨['5', ','] ++ List.replicate 64 '1' ++ ['\n', '7'], false, false⟩) =
      (.ok [5, 1111111111111111111111111111111111111111111111111111111111111111], ⟨['7'], false, false⟩) := by
  decide +kernel

/-! ### Non-vacuity: the hypotheses are satisfiable, the conclusions are not trivially true -/

/-- the oracle contract holds for a concrete oracle and token -/
example : TokOK digitsP ',' ['1', '2'] 12 := by
  intro rest h
  rcases h with rfl | ⟨t, rfl⟩ <;>
    simp [readSingle, digitsP, singleSkipPlus, singleFails, Char.isDigit]

/-- `read_row_tokens` instantiated: two tokens, any continuation of the file -/
example (t : List Char) :
    readRowImpl digitsP 2 ',' ⟨['1', '2', ',', '7'] ++ '\n' :: t, false, false⟩ = (.ok [12, 7], ⟨t, false, false⟩) := by
  have hok : ∀ p ∈ [((['1', '2'] : List Char), 12), (['7'], 7)], TokOK digitsP ',' p.1 p.2 := by
    intro p hp
    simp at hp
    rcases hp with rfl | rfl <;> intro rest h <;> rcases h with rfl | ⟨t, rfl⟩ <;>
      simp [readSingle, digitsP, singleSkipPlus, singleFails, Char.isDigit]
  have := read_row_tokens digitsP ',' [] (by simp) [(['1', '2'], 12), (['7'], 7)] ('\n' :: t) (Or.inr ⟨t, rfl⟩)
    (by intro p hp; simp at hp; rcases hp with rfl | rfl <;> simp) hok
    (by intro c hc; simp [lineOf] at hc; rcases hc with rfl | rfl | rfl | rfl <;> decide)
    '1' ['2', ',', '7'] rfl (by decide)
  simpa [lineOf, afterLine, commentText] using this

/-- a 99-character row (50 one-digit fields): tokens and separators straddle the window boundary -/
example :
    (readRowImpl digitsP 50 ';' ⟨(List.replicate 49 ['7', ';']).flatten ++ ['7', '\n', '5'], false, false⟩) =
      (.ok (List.replicate 50 7), ⟨['5'], false, false⟩) := by
  decide +kernel

/-- comment lines of 1, 64, 65 and 130 characters, then an empty row, then a data row -/
example :
    let cmt (n : Nat) : List Char := '#' :: List.replicate n 'x' ++ ['\n']
    let text := cmt 0 ++ cmt 63 ++ cmt 64 ++ cmt 129 ++ ['\n', '4', ',', '2', '\n']
    let r1 := readRowImpl digitsP 0 ',' ⟨text, false, false⟩
    r1.1 = .ok [] ∧ readRowImpl digitsP 2 ',' r1.2 = (.ok [4, 2], ⟨[], false, false⟩) := by
  decide +kernel

/-- malformed: wrong separator in the middle of a 99-character row is rejected, not returned -/
example :
    (readRowImpl digitsP 50 ';' ⟨(List.replicate 40 ['7', ';']).flatten ++ ['7', ','] ++
        (List.replicate 8 ['7', ';']).flatten ++ ['7', '\n', '5'], false, false⟩).1 = .error .sep := by
  decide +kernel

end Alpaqa.Props.C17
