/-
  C08 — FISTA attains the accelerated O(1/k²) rate on convex problems.

  What is proved (over any linearly ordered field with a lawful `sqrt`; `ℝ` is an instance):

  * `tNext_identity`, `tNext_ge_half`, `t_ge` — about the *generated* momentum update `fista_tNext`
    (regenerated from fista.tpp on every run): `t₊² − t₊ = t²`, `tₖ ≥ (k+2)/2`.
  * `fb_three_point` — Beck–Teboulle's Lemma 2.3 from convexity of ψ at the evaluated point, the
    accepted quadratic upper bound with constant `1/γ`, and prox optimality.
  * `fista_lyapunov`, `fista_energy`, `fista_rate`, `fista_rate_property_bound` — for *any* sequences
    satisfying the recurrences the code implements (extrapolation formula, `t ≥ 1`,
    `t₊² − t₊ ≤ t²`, `γ` non-increasing): `E_{k+1} ≤ E_k + margin`, hence
    `F(x̂ₖ) − F⋆ ≤ 2(‖x₀−x⋆‖² + Mₖ)/(γₖ (k+2)²) ≤` the property's bound.
  * fuel: the model theorems below carry no `fuelOut` hypothesis — `FistaFuelOK pr nL` (`Proofs/FistaFuel`:
    `0 < L_min ≤ L_max ≤ L_min·2^nL`, `L_max ≤ L_0·2^nL` for a user-supplied `L_0 > 0`, `nL + 1 ≤ qubFuel`)
    makes the model's backtracking fuel provably sufficient (`Fista.run_fuelOut_false`).
  * `fista_rate_model` — the same bound for **every callback of the loop model**
    `Fista.run` (`Alpaqa/Model/Fista.lean`, tied to fista.tpp by bit-exact trace replay): all three
    Lipschitz modes, all stop schedules / budgets (the final callback of a solve whose last
    backtracking loop may have been cut short by a visible stop request is excepted — the loop polls
    the flag, C19), under the oracle contract `Spec`
    (ψ convex; prox = `ProxContract` in subgradient form) and `QubMax` (`L_max` valid).  The QUB at
    accepted steps is *not* assumed: it is what the loop checks via the generated
    `fista_qubViolated`; its rounding margin `(1+|ψ|)·tol` is carried as the explicit term
    `Σ_j 2γ_j t_j² margin_j` (`marginSum`), which vanishes for a fixed step size.
  * `pg_monotone`, `pg_rate` — acceleration disabled (sequence form): `F(x̂ₖ₊₁) ≤ F(x̂ₖ) + margin`,
    `F(x̂ₖ) − F⋆ ≤ (‖x₀−x⋆‖² + Mₖ)/(2γₖ(k+1))`; `pg_rate_model`, `pg_model_exact` — the same for the
    callbacks of `Fista.run` with `disable_acceleration = true`.
  * model-level Lyapunov steps: `C08.proxStage_post` (`E_k ≤ preQ_k + margin`, i.e. `fista_lyapunov`
    for one pass of the model's prox / backtracking stage) and `C08.advance_top` (the generated
    extrapolation statement turns `E_k` into `preQ_{k+1}`, using `tNext_identity`).
  * `prox_sub_of_contract` — `ProxContract` (x̂ minimises `h(u) + ‖u−v‖²/(2γ)`, the form proved
    componentwise for box / box+ℓ1 in `Props/C15`) implies the subgradient form used by `Spec`,
    for convex `h`.

  Expected failure on the unpatched source (DESIGN §7-A): fista.tpp has `1 + 4·t` instead of
  `1 + 4·t·t`; then `tNext_identity` does not compile (and `t_ge` is false: `t → 2`).
-/
import Mathlib.Analysis.Real.Sqrt
import Alpaqa.Proofs.C08Model
import Alpaqa.Proofs.FistaFuel

namespace Alpaqa.Props.C08
open Alpaqa Alpaqa.Gen Alpaqa.Fista Alpaqa.C08
set_option linter.unusedSectionVars false

/-! ### The generated momentum update -/
section scalar
variable {α : Type} [Field α] [LinearOrder α] [IsStrictOrderedRing α] [RealLike α]

/-- **tNext_identity**: `(generated tNext t)² − tNext t = t²`. -/
theorem tNext_identity (hs : LawfulSqrt α) (t : α) : fista_tNext t ^ 2 - fista_tNext t = t ^ 2 :=
  Alpaqa.C08.tNext_identity hs t

theorem tNext_ge_half (hs : LawfulSqrt α) (t : α) : t + 1 / 2 ≤ fista_tNext t := Alpaqa.C08.tNext_ge hs t

/-- **t_ge**: the solver's momentum sequence (`t₀ = 1`, `tₖ₊₁ = tNext tₖ`) satisfies
    `tₖ ≥ (k+2)/2`. -/
theorem t_ge (hs : LawfulSqrt α) (k : ℕ) : ((k : α) + 2) / 2 ≤ tSeq k := Alpaqa.C08.t_ge hs k

end scalar

/-! ### Three-point lemma and the Lyapunov argument for sequences -/
section seq
variable {α V : Type} [Field α] [LinearOrder α] [IsStrictOrderedRing α] [AddCommGroup V] [Module α V]
  {ip : V → V → α}

/-- **fb_three_point** (Beck–Teboulle Lemma 2.3, Appendix A.1):
    `F(z) − F(x̂) ≥ ‖x̂−x‖²/(2γ) + ⟨x−z, x̂−x⟩/γ − m` for a forward-backward step `x ↦ x̂`.
    `hqub` is the accepted quadratic upper bound with constant `L`, `L·γ = Lγ_factor ≤ 1`. -/
theorem fb_three_point (hip : IsIP ip) {ψx ψxh ψz hxh hz γ L m : α} {g x xh z : V} (hγ : 0 < γ)
    (hLγ : L * γ ≤ 1)
    (hconv : ψx + ip g (z - x) ≤ ψz)
    (hqub : ψxh ≤ ψx + ip g (xh - x) + L / 2 * ip (xh - x) (xh - x) + m)
    (hprox : γ * hxh + ip (x - γ • g - xh) (z - xh) ≤ γ * hz) :
    ip (xh - x) (xh - x) / (2 * γ) + ip (x - z) (xh - x) / γ - m ≤ (ψz + hz) - (ψxh + hxh) := by
  have hA := hip.nonneg (xh - x)
  have hq : 2 * γ * ψxh ≤ 2 * γ * (ψx + ip g (xh - x) + m) + ip (xh - x) (xh - x) := by
    have := mul_le_mul_of_nonneg_left hqub hγ.le
    nlinarith [mul_le_mul_of_nonneg_right hLγ hA]
  have h := Alpaqa.C08.fb_three_point hip hγ hconv hq hprox
  have h2 : (0 : α) < 2 * γ := by linarith
  have e : ip (xh - x) (xh - x) / (2 * γ) + ip (x - z) (xh - x) / γ - m
      = (ip (xh - x) (xh - x) + 2 * ip (x - z) (xh - x) - 2 * γ * m) / (2 * γ) := by
    field_simp
  rw [e, div_le_iff₀ h2]
  linarith

/-- `x̂ₖ₋₁` (`prev_x̂` of the code; arbitrary `p0` at `k = 0`, where its coefficient is 0) -/
def xhPrev (xh : ℕ → V) (p0 : V) : ℕ → V
  | 0 => p0
  | k + 1 => xh k

/-- accumulated rounding margin `Mₖ = Σ_{j≤k} 2γ_j t_j² m_j` -/
def MSeq (t γ m : ℕ → α) : ℕ → α
  | 0 => 2 * γ 0 * t 0 ^ 2 * m 0
  | k + 1 => MSeq t γ m k + 2 * γ (k + 1) * t (k + 1) ^ 2 * m (k + 1)

/-- `Eₖ = 2γₖtₖ²(F(x̂ₖ) − F⋆) + ‖tₖx̂ₖ − (tₖ−1)x̂ₖ₋₁ − x⋆‖²` -/
def ESeq (ip : V → V → α) (xh : ℕ → V) (p0 : V) (t γ Fh : ℕ → α) (xs : V) (Fs : α) (k : ℕ) : α :=
  2 * γ k * t k ^ 2 * (Fh k - Fs) +
    ip (t k • xh k - (t k - 1) • xhPrev xh p0 k - xs) (t k • xh k - (t k - 1) • xhPrev xh p0 k - xs)

/-- The FISTA recurrences as fista.tpp implements them, plus the three-point inequalities at the
    evaluated points (the conclusions of `fb_three_point` at `(xₖ, x̂ₖ, γₖ)` towards `x⋆` and
    `x̂ₖ₋₁`).  `t` is *any* momentum sequence with `t ≥ 1`, `t₊² − t₊ ≤ t²`. -/
structure FistaSeq (ip : V → V → α) (x xh : ℕ → V) (p0 : V) (t γ m Fh : ℕ → α) (xs : V) (Fs : α) :
    Prop where
  t0 : t 0 = 1
  t_ge_one : ∀ k, 1 ≤ t k
  t_rec : ∀ k, t (k + 1) ^ 2 - t (k + 1) ≤ t k ^ 2
  γ_pos : ∀ k, 0 < γ k
  γ_mono : ∀ k, γ (k + 1) ≤ γ k
  /-- `curr->x = curr->x̂ + ((t_prev - 1) / t) * (curr->x̂ - prev_x̂)` -/
  extrap : ∀ k, x (k + 1) = xh k + ((t k - 1) / t (k + 1)) • (xh k - xhPrev xh p0 k)
  tp_star : ∀ k, ip (xh k - x k) (xh k - x k) + 2 * ip (x k - xs) (xh k - x k) - 2 * γ k * m k
      ≤ 2 * γ k * (Fs - Fh k)
  tp_prev : ∀ k, ip (xh (k + 1) - x (k + 1)) (xh (k + 1) - x (k + 1))
      + 2 * ip (x (k + 1) - xh k) (xh (k + 1) - x (k + 1)) - 2 * γ (k + 1) * m (k + 1)
      ≤ 2 * γ (k + 1) * (Fh k - Fh (k + 1))
  v_nonneg : ∀ k, 0 ≤ Fh k - Fs

variable {x xh : ℕ → V} {p0 : V} {t γ m Fh : ℕ → α} {xs : V} {Fs : α}

/-- **fista_lyapunov**: `E_{k+1} ≤ E_k + 2γ_{k+1}t_{k+1}²·m_{k+1}`. -/
theorem fista_lyapunov (hip : IsIP ip) (H : FistaSeq ip x xh p0 t γ m Fh xs Fs) (k : ℕ) :
    ESeq ip xh p0 t γ Fh xs Fs (k + 1)
      ≤ ESeq ip xh p0 t γ Fh xs Fs k + 2 * γ (k + 1) * t (k + 1) ^ 2 * m (k + 1) := by
  have ht1 := H.t_ge_one (k + 1)
  have htn0 : t (k + 1) ≠ 0 := by linarith [ht1] |> ne_of_gt
  have hl := lyapunov_step hip (t := t (k + 1)) (p := xh k) (xs := xs) (Fs := Fs) ht1
    (fun _ => H.tp_prev k) (H.tp_star (k + 1))
  have hw : t (k + 1) • x (k + 1) - (t (k + 1) - 1) • xh k - xs
      = t k • xh k - (t k - 1) • xhPrev xh p0 k - xs := by
    rw [H.extrap k]; exact extrapolation_identity htn0 _ _ _
  rw [hw] at hl
  unfold ESeq
  have epv : xhPrev xh p0 (k + 1) = xh k := rfl
  rw [epv]
  have hv := H.v_nonneg k
  have hrec := H.t_rec k
  have hγ1 := H.γ_pos (k + 1)
  have hγm := H.γ_mono k
  have h1 : 2 * γ (k + 1) * (t (k + 1) ^ 2 - t (k + 1)) * (Fh k - Fs)
      ≤ 2 * γ k * t k ^ 2 * (Fh k - Fs) := by
    have hnn : 0 ≤ t (k + 1) ^ 2 - t (k + 1) := by nlinarith
    have a1 : (t (k + 1) ^ 2 - t (k + 1)) * (Fh k - Fs) ≤ t k ^ 2 * (Fh k - Fs) :=
      mul_le_mul_of_nonneg_right hrec hv
    have a2 : γ (k + 1) * (t k ^ 2 * (Fh k - Fs)) ≤ γ k * (t k ^ 2 * (Fh k - Fs)) :=
      mul_le_mul_of_nonneg_right hγm (mul_nonneg (sq_nonneg _) hv)
    nlinarith [mul_le_mul_of_nonneg_left a1 hγ1.le]
  linarith

/-- `E₀ ≤ ‖x₀ − x⋆‖² + M₀`. -/
theorem fista_E0 (hip : IsIP ip) (H : FistaSeq ip x xh p0 t γ m Fh xs Fs) :
    ESeq ip xh p0 t γ Fh xs Fs 0 ≤ ip (x 0 - xs) (x 0 - xs) + MSeq t γ m 0 := by
  have hb := lyapunov_base hip (H.tp_star 0)
  unfold ESeq MSeq
  simp only [H.t0, xhPrev, one_pow, mul_one, sub_self, zero_smul, sub_zero, one_smul]
  linarith

/-- **Energy bound**: `Eₖ ≤ ‖x₀ − x⋆‖² + Mₖ` for every `k`. -/
theorem fista_energy (hip : IsIP ip) (H : FistaSeq ip x xh p0 t γ m Fh xs Fs) (k : ℕ) :
    ESeq ip xh p0 t γ Fh xs Fs k ≤ ip (x 0 - xs) (x 0 - xs) + MSeq t γ m k := by
  induction k with
  | zero => exact fista_E0 hip H
  | succ k ih =>
    have := fista_lyapunov hip H k
    simp only [MSeq]
    linarith

/-- **fista_rate**: `F(x̂ₖ) − F⋆ ≤ 2(‖x₀ − x⋆‖² + Mₖ)/(γₖ (k+2)²)` whenever `tₖ ≥ (k+2)/2`. -/
theorem fista_rate (hip : IsIP ip) (H : FistaSeq ip x xh p0 t γ m Fh xs Fs)
    (htk : ∀ k : ℕ, ((k : α) + 2) / 2 ≤ t k) (k : ℕ) :
    Fh k - Fs ≤ 2 * (ip (x 0 - xs) (x 0 - xs) + MSeq t γ m k) / (γ k * ((k : α) + 2) ^ 2) := by
  have hE := fista_energy hip H k
  unfold ESeq at hE
  exact rate_of_post (H.γ_pos k) (htk k) (H.v_nonneg k) (hip.nonneg _) hE

/-- With the solver's own momentum sequence `tSeq` (generated `tNext`), `t_rec` and `t ≥ (k+2)/2`
    are theorems (`tNext_identity`, `t_ge`), not hypotheses. -/
theorem fista_rate_code_momentum [RealLike α] (hs : LawfulSqrt α) (hip : IsIP ip)
    (H : FistaSeq ip x xh p0 (tSeq (α := α)) γ m Fh xs Fs) (k : ℕ) :
    Fh k - Fs ≤ 2 * (ip (x 0 - xs) (x 0 - xs) + MSeq (tSeq (α := α)) γ m k) / (γ k * ((k : α) + 2) ^ 2) :=
  fista_rate hip H (Alpaqa.C08.t_ge hs) k

/-- the recurrence hypotheses of `FistaSeq` hold for the generated update -/
theorem tSeq_recurrence [RealLike α] (hs : LawfulSqrt α) :
    tSeq (α := α) 0 = 1 ∧ (∀ k : ℕ, (1 : α) ≤ tSeq k) ∧
    (∀ k : ℕ, tSeq (α := α) (k + 1) ^ 2 - tSeq (k + 1) ≤ tSeq k ^ 2) :=
  ⟨rfl, tSeq_ge_one hs, fun k => le_of_eq (Alpaqa.C08.tNext_identity hs (tSeq k))⟩

/-- **≤ the property's bound**: `2D/(γ(k+2)²) ≤ 2D/(γ(k+1)²)`. -/
theorem rate_le_property_bound {D γk : α} (hD : 0 ≤ D) (hγ : 0 < γk) (k : ℕ) :
    2 * D / (γk * ((k : α) + 2) ^ 2) ≤ 2 * D / (γk * ((k : α) + 1) ^ 2) := by
  have hk : (0 : α) ≤ (k : α) := Nat.cast_nonneg k
  apply div_le_div_of_nonneg_left (by positivity) (by positivity)
  apply mul_le_mul_of_nonneg_left _ hγ.le
  nlinarith

/-- **fista_rate, property form** (no rounding margin): `F(x̂ₖ) − F⋆ ≤ 2‖x₀ − x⋆‖²/(γₖ(k+1)²)`. -/
theorem fista_rate_property_bound (hip : IsIP ip) (H : FistaSeq ip x xh p0 t γ (fun _ => 0) Fh xs Fs)
    (htk : ∀ k : ℕ, ((k : α) + 2) / 2 ≤ t k) (k : ℕ) :
    Fh k - Fs ≤ 2 * ip (x 0 - xs) (x 0 - xs) / (γ k * ((k : α) + 1) ^ 2) := by
  have h := fista_rate hip H htk k
  have hM : ∀ j, MSeq t γ (fun _ => (0 : α)) j = 0 := by
    intro j
    induction j with
    | zero => simp [MSeq]
    | succ j ih => simp [MSeq, ih]
  rw [hM, add_zero] at h
  exact le_trans h (rate_le_property_bound (hip.nonneg _) (H.γ_pos k) k)

/-! ### Acceleration disabled: proximal gradient -/

/-- accumulated margin of the proximal-gradient bound, `Σ_{j≤k} 2γ_j (j+1) m_j` -/
def MPg (γ m : ℕ → α) : ℕ → α
  | 0 => 2 * γ 0 * m 0
  | k + 1 => MPg γ m k + 2 * γ (k + 1) * ((k : α) + 2) * m (k + 1)

/-- `disable_acceleration`: `xₖ₊₁ = x̂ₖ`; three-point inequalities towards `x⋆` and towards the
    base point `xₖ₊₁ = x̂ₖ` itself. -/
structure PgSeq (ip : V → V → α) (x xh : ℕ → V) (γ m Fh : ℕ → α) (xs : V) (Fs : α) : Prop where
  γ_pos : ∀ k, 0 < γ k
  γ_mono : ∀ k, γ (k + 1) ≤ γ k
  next : ∀ k, x (k + 1) = xh k
  tp_star : ∀ k, ip (xh k - x k) (xh k - x k) + 2 * ip (x k - xs) (xh k - x k) - 2 * γ k * m k
      ≤ 2 * γ k * (Fs - Fh k)
  tp_self : ∀ k, ip (xh (k + 1) - x (k + 1)) (xh (k + 1) - x (k + 1))
      + 2 * ip (x (k + 1) - x (k + 1)) (xh (k + 1) - x (k + 1)) - 2 * γ (k + 1) * m (k + 1)
      ≤ 2 * γ (k + 1) * (Fh k - Fh (k + 1))
  v_nonneg : ∀ k, 0 ≤ Fh k - Fs

/-- **pg_monotone**: `F(x̂ₖ₊₁) ≤ F(x̂ₖ) + mₖ₊₁`. -/
theorem pg_monotone (hip : IsIP ip) (H : PgSeq ip x xh γ m Fh xs Fs) (k : ℕ) :
    Fh (k + 1) ≤ Fh k + m (k + 1) :=
  pg_descent hip (H.γ_pos (k + 1)) (H.tp_self k)

/-- **pg_rate**: `F(x̂ₖ) − F⋆ ≤ (‖x₀ − x⋆‖² + Mₖ)/(2γₖ(k+1))`. -/
theorem pg_rate (hip : IsIP ip) (H : PgSeq ip x xh γ m Fh xs Fs) (k : ℕ) :
    Fh k - Fs ≤ (ip (x 0 - xs) (x 0 - xs) + MPg γ m k) / (2 * γ k * ((k : α) + 1)) := by
  have hQ : ∀ k, 2 * γ k * ((k : α) + 1) * (Fh k - Fs) + ip (xh k - xs) (xh k - xs)
      ≤ ip (x 0 - xs) (x 0 - xs) + MPg γ m k := by
    intro k
    induction k with
    | zero =>
      have := lyapunov_base hip (H.tp_star 0)
      simp only [MPg, Nat.cast_zero, zero_add, mul_one]
      linarith
    | succ k ih =>
      have hb := lyapunov_base hip (H.tp_star (k + 1))
      rw [H.next k] at hb
      have hmono := pg_monotone hip H k
      have hv := H.v_nonneg k
      have hγ1 := H.γ_pos (k + 1)
      have hγm := H.γ_mono k
      have hk : (0 : α) ≤ (k : α) + 1 := by positivity
      simp only [MPg, Nat.cast_succ]
      have a1 : γ (k + 1) * (((k : α) + 1) * (Fh k - Fs)) ≤ γ k * (((k : α) + 1) * (Fh k - Fs)) :=
        mul_le_mul_of_nonneg_right hγm (mul_nonneg hk hv)
      have a2 : ((k : α) + 1) * (Fh (k + 1) - Fs) ≤ ((k : α) + 1) * (Fh k + m (k + 1) - Fs) :=
        mul_le_mul_of_nonneg_left (by linarith) hk
      nlinarith [mul_le_mul_of_nonneg_left a2 hγ1.le]
  have h := hQ k
  have hk : (0 : α) < (k : α) + 1 := by positivity
  have hγ := H.γ_pos k
  rw [le_div_iff₀ (by positivity)]
  nlinarith [hip.nonneg (xh k - xs)]

end seq

/-! ### The loop model -/
section model
variable {α : Type} [Field α] [LinearOrder α] [IsStrictOrderedRing α] [RealLike α]
  {n : ℕ} {P : Problem α} {pr : Params α} {ψ : List α → α} {grad : List α → List α}
  {h : List α → α} {dom : List α → Prop} {xs : List α} {Fs : α}

/-- **fista_rate_model**: every iterate reported by `Fista.run` (newest first in
    `callbacks.reverse`) satisfies
    `F(x̂ₖ) − F⋆ ≤ 2(‖x₀ − x⋆‖² + Σ_{j≤k} 2γ_j t_j² margin_j)/(γₖ (k+2)²)`,
    for all stop schedules (a flag that is never lowered), budgets, Lipschitz modes, criteria —
    with one exception since the backtracking loop polls the stop flag (C19): the iterate of the
    *final* callback (the head of `callbacks.reverse`) when a stop request was visible at the final
    loop-head check (`finalPoll`), which may have cut the last backtracking short.  So: all callbacks
    but the final one always; the final one too if no request was visible at the final check. -/
theorem fista_rate_model (S : Spec n P ψ grad h dom) (hp : ParamOK pr) (hQ : QubMax n ψ grad pr.Lmax)
    (T : Target n ψ h dom xs Fs) (hsq : LawfulSqrt α) (hacc : pr.disableAcceleration = false)
    (stop : ℕ → Bool) (hm : StopMono stop) (oot : Bool) (x0 y Sig errz0 gV : List α) (nan inf : α)
    (hx0 : x0.length = n) (nL : ℕ) (hF : FistaFuelOK pr nL) :
    AllOK pr ψ h Fs (ipN n (toFn x0 - toFn xs) (toFn x0 - toFn xs))
      (run P pr stop oot x0 y Sig errz0 gV nan inf).callbacks.reverse.tail ∧
    (stop (finalPoll pr (run P pr stop oot x0 y Sig errz0 gV nan inf)) = false →
      AllOK pr ψ h Fs (ipN n (toFn x0 - toFn xs) (toFn x0 - toFn xs))
        (run P pr stop oot x0 y Sig errz0 gV nan inf).callbacks.reverse) := by
  have hfuel := run_fuelOut_false P pr stop oot x0 y Sig errz0 gV nan inf nL hF
  unfold run at hfuel ⊢
  cases hi : initState P pr x0 gV nan with
  | inl tk => simp [AllOK]
  | inr s =>
    simp only [hi] at hfuel ⊢
    obtain ⟨hinv, hk, hcbs, _, _⟩ := initState_top (xs := xs) (Fs := Fs) S hp x0 gV nan hx0 s hi
    apply mainLoop_allOK S hp hQ T hsq hacc stop hm oot x0 y Sig errz0 _ _ s (by omega) (by omega)
    · rw [hcbs]; simpa [marginSum] using hinv
    · rw [hcbs]; trivial
    · exact hfuel

/-- When no rounding margin is involved (fixed step size, or `qub_tolerance_factor = 0`):
    every reported iterate satisfies `F(x̂ₖ) − F⋆ ≤ 2‖x₀ − x⋆‖²/(γₖ(k+2)²)` (≤ the property's
    `…/(γₖ(k+1)²)` by `rate_le_property_bound`). -/
theorem fista_rate_model_exact (S : Spec n P ψ grad h dom) (hp : ParamOK pr)
    (hQ : QubMax n ψ grad pr.Lmax) (T : Target n ψ h dom xs Fs) (hsq : LawfulSqrt α)
    (hacc : pr.disableAcceleration = false) (hzero : fixedLip pr = true ∨ pr.qubTol = 0)
    (stop : ℕ → Bool) (hm : StopMono stop) (oot : Bool) (x0 y Sig errz0 gV : List α) (nan inf : α)
    (hx0 : x0.length = n) (nL : ℕ) (hF : FistaFuelOK pr nL) :
    (∀ cb ∈ (run P pr stop oot x0 y Sig errz0 gV nan inf).callbacks.reverse.tail,
      ψ cb.it.xhat + h cb.it.xhat - Fs
        ≤ 2 * ipN n (toFn x0 - toFn xs) (toFn x0 - toFn xs) / (cb.it.gamma * ((cb.k : α) + 2) ^ 2)) ∧
    (stop (finalPoll pr (run P pr stop oot x0 y Sig errz0 gV nan inf)) = false →
      ∀ cb ∈ (run P pr stop oot x0 y Sig errz0 gV nan inf).callbacks,
        ψ cb.it.xhat + h cb.it.xhat - Fs
          ≤ 2 * ipN n (toFn x0 - toFn xs) (toFn x0 - toFn xs) / (cb.it.gamma * ((cb.k : α) + 2) ^ 2)) := by
  have hall := fista_rate_model S hp hQ T hsq hacc stop hm oot x0 y Sig errz0 gV nan inf hx0 nL hF
  have hm0 : ∀ l : List (Callback α), marginSum pr l = 0 := by
    intro l
    induction l with
    | nil => simp [marginSum]
    | cons c l ih =>
      unfold marginSum at ih ⊢
      rw [List.map_cons, List.sum_cons, ih, add_zero]
      unfold cbMargin
      rcases hzero with hz | hz
      · simp [hz]
      · simp [hz]
  have hgen : ∀ l : List (Callback α), AllOK pr ψ h Fs (ipN n (toFn x0 - toFn xs) (toFn x0 - toFn xs)) l →
      ∀ cb ∈ l, Rate ψ h Fs (ipN n (toFn x0 - toFn xs) (toFn x0 - toFn xs)) 0 cb := by
    intro l
    induction l with
    | nil => intro _ cb hcb; cases hcb
    | cons c l ih =>
      intro hok cb hcb
      rcases List.mem_cons.mp hcb with rfl | hmem
      · have := hok.1; rwa [hm0] at this
      · exact ih hok.2 cb hmem
  refine ⟨fun cb hcb => ?_, fun hns cb hcb => ?_⟩
  · have := hgen _ hall.1 cb hcb
    unfold Rate at this
    simpa using this
  · have := hgen _ (hall.2 hns) cb (List.mem_reverse.mpr hcb)
    unfold Rate at this
    simpa using this

/-- **pg_monotone / pg_rate on the model** (`disable_acceleration = true`): for the callbacks of
    `Fista.run` (newest first), `F(x̂ₖ) − F⋆ ≤ (‖x₀−x⋆‖² + Σ_{j≤k} 2γ_j(j+1)m_j)/(2γₖ(k+1))` and
    `F(x̂ₖ) ≤ F(x̂ₖ₋₁) + mₖ` (see `AllOKPg`), for all stop schedules (flag never lowered), budgets,
    Lipschitz modes — for all callbacks but the final one, and for the final one too if no stop
    request was visible at the final loop-head check (see `fista_rate_model`). -/
theorem pg_rate_model (S : Spec n P ψ grad h dom) (hp : ParamOK pr) (hQ : QubMax n ψ grad pr.Lmax)
    (T : Target n ψ h dom xs Fs) (hacc : pr.disableAcceleration = true)
    (stop : ℕ → Bool) (hm : StopMono stop) (oot : Bool) (x0 y Sig errz0 gV : List α) (nan inf : α)
    (hx0 : x0.length = n) (nL : ℕ) (hF : FistaFuelOK pr nL) :
    AllOKPg pr ψ h Fs (ipN n (toFn x0 - toFn xs) (toFn x0 - toFn xs))
      (run P pr stop oot x0 y Sig errz0 gV nan inf).callbacks.reverse.tail ∧
    (stop (finalPoll pr (run P pr stop oot x0 y Sig errz0 gV nan inf)) = false →
      AllOKPg pr ψ h Fs (ipN n (toFn x0 - toFn xs) (toFn x0 - toFn xs))
        (run P pr stop oot x0 y Sig errz0 gV nan inf).callbacks.reverse) := by
  have hfuel := run_fuelOut_false P pr stop oot x0 y Sig errz0 gV nan inf nL hF
  unfold run at hfuel ⊢
  cases hi : initState P pr x0 gV nan with
  | inl tk => simp [AllOKPg]
  | inr s =>
    simp only [hi] at hfuel ⊢
    obtain ⟨hinv, hk, hcbs, _, hx⟩ := initState_top (xs := xs) (Fs := Fs) S hp x0 gV nan hx0 s hi
    apply mainLoop_allOKPg S hp hQ T hacc stop hm oot x0 y Sig errz0 _ _ s (by omega) (by omega)
    · exact { cons := hinv.cons, hprev := fun hc => absurd hk hc,
              hhead := fun cb' hc => (by rw [hcbs] at hc; cases hc),
              hv := (by rw [hk]; simp),
              hQ := (by rw [hk, hcbs, hx]; simp [marginSumPg]) }
    · rw [hcbs]; trivial
    · exact hfuel

/-- Monotone decrease and O(1/k) bound without margin (fixed step or zero tolerance factor). -/
theorem pg_model_exact (S : Spec n P ψ grad h dom) (hp : ParamOK pr)
    (hQ : QubMax n ψ grad pr.Lmax) (T : Target n ψ h dom xs Fs)
    (hacc : pr.disableAcceleration = true) (hzero : fixedLip pr = true ∨ pr.qubTol = 0)
    (stop : ℕ → Bool) (hm : StopMono stop) (oot : Bool) (x0 y Sig errz0 gV : List α) (nan inf : α)
    (hx0 : x0.length = n) (nL : ℕ) (hF : FistaFuelOK pr nL) :
    ((∀ cb ∈ (run P pr stop oot x0 y Sig errz0 gV nan inf).callbacks.reverse.tail,
      ψ cb.it.xhat + h cb.it.xhat - Fs
        ≤ ipN n (toFn x0 - toFn xs) (toFn x0 - toFn xs) / (2 * cb.it.gamma * ((cb.k : α) + 1))) ∧
     List.IsChain (fun a b : Callback α => ψ a.it.xhat + h a.it.xhat ≤ ψ b.it.xhat + h b.it.xhat)
      (run P pr stop oot x0 y Sig errz0 gV nan inf).callbacks.reverse.tail) ∧
    (stop (finalPoll pr (run P pr stop oot x0 y Sig errz0 gV nan inf)) = false →
      (∀ cb ∈ (run P pr stop oot x0 y Sig errz0 gV nan inf).callbacks,
        ψ cb.it.xhat + h cb.it.xhat - Fs
          ≤ ipN n (toFn x0 - toFn xs) (toFn x0 - toFn xs) / (2 * cb.it.gamma * ((cb.k : α) + 1))) ∧
      List.IsChain (fun a b : Callback α => ψ b.it.xhat + h b.it.xhat ≤ ψ a.it.xhat + h a.it.xhat)
        (run P pr stop oot x0 y Sig errz0 gV nan inf).callbacks) := by
  have hall := pg_rate_model S hp hQ T hacc stop hm oot x0 y Sig errz0 gV nan inf hx0 nL hF
  have hcb0 : ∀ c : Callback α, cbM pr c = 0 := by
    intro c; unfold cbM; rcases hzero with hz | hz <;> simp [hz]
  have hm0 : ∀ l : List (Callback α), marginSumPg pr l = 0 := by
    intro l
    induction l with
    | nil => simp [marginSumPg]
    | cons c l ih =>
      unfold marginSumPg at ih ⊢
      rw [List.map_cons, List.sum_cons, ih, add_zero, hcb0, mul_zero]
  have hgen : ∀ l : List (Callback α),
      AllOKPg pr ψ h Fs (ipN n (toFn x0 - toFn xs) (toFn x0 - toFn xs)) l →
      (∀ cb ∈ l, RatePg ψ h Fs (ipN n (toFn x0 - toFn xs) (toFn x0 - toFn xs)) 0 cb) ∧
      List.IsChain (fun a b : Callback α => ψ a.it.xhat + h a.it.xhat ≤ ψ b.it.xhat + h b.it.xhat) l := by
    intro l
    induction l with
    | nil => intro _; exact ⟨fun cb hcb => (by cases hcb), List.isChain_nil⟩
    | cons c l ih =>
      intro hok
      obtain ⟨h1, h2, h3⟩ := hok
      obtain ⟨i1, i2⟩ := ih h3
      refine ⟨?_, ?_⟩
      · intro cb hcb
        rcases List.mem_cons.mp hcb with rfl | hmem
        · rwa [hm0] at h1
        · exact i1 cb hmem
      · cases l with
        | nil => exact List.isChain_singleton _
        | cons c' l' =>
          refine List.isChain_cons_cons.mpr ⟨?_, i2⟩
          have := h2 c' rfl
          rw [hcb0, add_zero] at this
          exact this
  refine ⟨?_, fun hns => ?_⟩
  · obtain ⟨g1, g2⟩ := hgen _ hall.1
    refine ⟨fun cb hcb => ?_, g2⟩
    have := g1 cb hcb
    unfold RatePg at this
    simpa using this
  · obtain ⟨g1, g2⟩ := hgen _ (hall.2 hns)
    refine ⟨?_, ?_⟩
    · intro cb hcb
      have := g1 cb (List.mem_reverse.mpr hcb)
      unfold RatePg at this
      simpa using this
    · have := List.isChain_reverse.mpr g2
      simpa [flip] using this

/-- `ProxContract`: `x̂` minimises `u ↦ h(u) + ‖u − (x − γ∇ψ)‖²/(2γ)` over `dom h` (the form
    proved componentwise for box / box+ℓ1 steps in `Props/C15`: `projGradStepBox_is_prox`,
    `boxL1_is_prox`). -/
def ProxContract (n : ℕ) (P : Problem α) (h : List α → α) (dom : List α → Prop) : Prop :=
  ∀ γ x g, 0 < γ → x.length = n → g.length = n → ∀ u, dom u → u.length = n →
    2 * γ * h (P.prox γ x g).2.1
        + ipN n (toFn (P.prox γ x g).2.1 - (toFn x - γ • toFn g)) (toFn (P.prox γ x g).2.1 - (toFn x - γ • toFn g))
      ≤ 2 * γ * h u + ipN n (toFn u - (toFn x - γ • toFn g)) (toFn u - (toFn x - γ • toFn g))

/-- **prox_sub_of_contract**: the minimiser form implies the subgradient form required by `Spec`
    when `h` is convex on `dom h` (segments inside `dom h`, Jensen along them). -/
theorem prox_sub_of_contract (hC : ProxContract n P h dom)
    (hlen : ∀ γ x g, x.length = n → g.length = n → (P.prox γ x g).2.1.length = n)
    (hdom : ∀ γ x g, x.length = n → g.length = n → dom (P.prox γ x g).2.1)
    (hconv : ∀ a b : List α, a.length = n → b.length = n → dom a → dom b → ∀ s : α, 0 < s → s ≤ 1 →
      dom (vadd a (smul s (vsub b a))) ∧
      h (vadd a (smul s (vsub b a))) ≤ (1 - s) * h a + s * h b)
    (γ : α) (x g z : List α) (hγ : 0 < γ) (hx : x.length = n) (hg : g.length = n) (hz : dom z)
    (hzl : z.length = n) :
    γ * h (P.prox γ x g).2.1 +
        ipN n (toFn x - γ • toFn g - toFn (P.prox γ x g).2.1) (toFn z - toFn (P.prox γ x g).2.1)
      ≤ γ * h z := by
  have hxl := hlen γ x g hx hg
  have hxd := hdom γ x g hx hg
  -- work with the function `hf` on sequences that agrees with `h` along the segment
  have key : ∀ s : α, 0 < s → s ≤ 1 →
      toFn (vadd (P.prox γ x g).2.1 (smul s (vsub z (P.prox γ x g).2.1)))
        = toFn (P.prox γ x g).2.1 + s • (toFn z - toFn (P.prox γ x g).2.1) := by
    intro s _ _
    rw [toFn_vadd _ _ (by rw [length_smul, length_vsub _ _ (by rw [hzl, hxl]), hzl, hxl]),
      toFn_smul, toFn_vsub _ _ (by rw [hzl, hxl])]
  have hulen : ∀ s : α, (vadd (P.prox γ x g).2.1 (smul s (vsub z (P.prox γ x g).2.1))).length = n := by
    intro s
    rw [length_vadd _ _ (by rw [length_smul, length_vsub _ _ (by rw [hzl, hxl]), hzl, hxl]), hxl]
  -- the abstract lemma, with `hf u` read off along the segment through a parametrisation in `s`
  by_contra hc
  rw [not_le] at hc
  have hip := isIP_ipN (α := α) n
  -- replay the proof of `prox_sub_of_min` with the list-level facts
  set xh := toFn (P.prox γ x g).2.1 with hxh
  set v := toFn x - γ • toFn g with hv
  have hN := hip.nonneg (toFn z - xh)
  set N := ipN n (toFn z - xh) (toFn z - xh) with hNdef
  set Δ := γ * h (P.prox γ x g).2.1 + ipN n (v - xh) (toFn z - xh) - γ * h z with hΔ
  have hΔpos : 0 < Δ := by rw [hΔ]; linarith
  have hN1 : 0 < N + 1 := by linarith
  obtain ⟨s, hs0, hs1, hsΔ⟩ : ∃ s : α, 0 < s ∧ s ≤ 1 ∧ s * (N + 1) ≤ Δ := by
    refine ⟨min 1 (Δ / (N + 1)), lt_min one_pos (div_pos hΔpos hN1), min_le_left _ _, ?_⟩
    have := min_le_right (1 : α) (Δ / (N + 1))
    calc min 1 (Δ / (N + 1)) * (N + 1) ≤ Δ / (N + 1) * (N + 1) :=
          mul_le_mul_of_nonneg_right this hN1.le
      _ = Δ := div_mul_cancel₀ _ hN1.ne'
  obtain ⟨hud, hcv⟩ := hconv _ z hxl hzl hxd hz s hs0 hs1
  have h1 := hC γ x g hγ hx hg _ hud (hulen s)
  rw [key s hs0 hs1, ← hxh, ← hv] at h1
  have e : xh + s • (toFn z - xh) - v = (xh - v) + s • (toFn z - xh) := by abel
  rw [e, hip.add_smul_sq] at h1
  have e2 : ipN n (v - xh) (toFn z - xh) = -ipN n (xh - v) (toFn z - xh) := by
    rw [← hip.neg_left]; congr 1; abel
  rw [e2] at hΔ
  rw [← hNdef] at h1
  generalize ipN n (xh - v) (xh - v) = W at h1
  generalize ipN n (xh - v) (toFn z - xh) = B at h1 hΔ
  generalize h (vadd (P.prox γ x g).2.1 (smul s (vsub z (P.prox γ x g).2.1))) = hu at h1 hcv
  have h3 : s * (2 * Δ) ≤ s * (s * N) := by
    have := mul_le_mul_of_nonneg_left hcv (mul_pos (by norm_num : (0:α) < 2) hγ).le
    rw [hΔ]; nlinarith
  have h4 : 2 * Δ ≤ s * N := le_of_mul_le_mul_left h3 hs0
  nlinarith

end model

/-! ### Non-vacuity: the hypotheses are jointly satisfiable (ℝ, least squares `ψ = ½‖x‖²`) -/
section example_real

noncomputable local instance realLikeRealC08 : RealLike ℝ := ⟨Real.sqrt, fun _ => false, fun _ => true⟩

theorem lawfulSqrt_real : LawfulSqrt ℝ where
  sqrt_nonneg := fun a _ => Real.sqrt_nonneg a
  sqrt_mul_self := fun a ha => Real.mul_self_sqrt ha

/-- `tNext 1 = (1+√5)/2`: the golden ratio, `> 3/2`. -/
example : fista_tNext (1 : ℝ) ^ 2 - fista_tNext 1 = 1 := by
  have := tNext_identity lawfulSqrt_real (1 : ℝ); simpa using this

/-- ψ(x) = ½‖x‖² on ℝⁿ, h = 0, exact gradient step as the prox oracle. -/
noncomputable def exP (n : ℕ) : Problem ℝ :=
  { psiGradPsi := fun x => (ipN n (toFn x) (toFn x) / 2, x, []),
    psi := fun x => (ipN n (toFn x) (toFn x) / 2, []),
    gradPsi := fun x => x, gradL := fun x _ => x,
    prox := fun γ x g => (0, vsub x (smul γ g), vsub (vsub x (smul γ g)) x) }

theorem exSpec (n : ℕ) : Spec n (exP n) (fun x => ipN n (toFn x) (toFn x) / 2) (fun x => x)
    (fun _ => 0) (fun _ => True) where
  grad_len := fun _ hx => hx
  gradPsi_eq := fun _ => rfl
  psiGrad_eq := fun _ => ⟨rfl, rfl⟩
  psi_eq := fun _ => rfl
  prox_len := fun γ x g hx hg => by
    simp only [exP]; rw [length_vsub _ _ (by rw [length_smul, hx, hg]), hx]
  prox_p := fun _ _ _ => rfl
  prox_h := fun _ _ _ => rfl
  prox_dom := fun _ _ _ _ _ => trivial
  prox_sub := fun γ x g z _ hx hg _ _ => by
    simp only [exP, mul_zero, zero_add]
    rw [toFn_vsub _ _ (by rw [length_smul, hx, hg]), toFn_smul, sub_self, (isIP_ipN n).zero_left]
  convex := fun x z _ _ => by
    have hip := isIP_ipN (α := ℝ) n
    have e : toFn z = toFn x + (1 : ℝ) • (toFn z - toFn x) := by module
    have h1 := hip.add_smul_sq (toFn x) (toFn z - toFn x) 1
    rw [← e] at h1
    have := hip.nonneg (toFn z - toFn x)
    nlinarith

theorem exQub (n : ℕ) : QubMax n (fun x : List ℝ => ipN n (toFn x) (toFn x) / 2) (fun x => x) 1 := by
  intro x z _ _
  have hip := isIP_ipN (α := ℝ) n
  have e : toFn z = toFn x + (1 : ℝ) • (toFn z - toFn x) := by module
  have h1 := hip.add_smul_sq (toFn x) (toFn z - toFn x) 1
  rw [← e] at h1
  nlinarith

noncomputable def exPr : Params ℝ :=
  { L0 := 0, lipEps := 0, lipDelta := 0, LgammaFactor := 1, maxIter := 100, Lmin := 1, Lmax := 1,
    stopCrit := .ProjGradNorm, maxNoProgress := 10, qubTol := 0, disableAcceleration := false,
    alwaysOverwrite := true, tolerance := 0 }

theorem exParamOK : ParamOK exPr :=
  { lgf_pos := by norm_num [exPr], lgf_le := by norm_num [exPr], tol_nonneg := by norm_num [exPr],
    lmin_pos := by norm_num [exPr], lmin_le := by norm_num [exPr] }

theorem exTarget (n : ℕ) : Target n (fun x : List ℝ => ipN n (toFn x) (toFn x) / 2) (fun _ => 0)
    (fun _ => True) (List.replicate n 0) 0 where
  xs_len := List.length_replicate
  xs_dom := trivial
  Fs_eq := by
    have : toFn (List.replicate n (0 : ℝ)) = 0 := by
      funext i
      simp only [toFn, List.getD_eq_getElem?_getD, List.getElem?_replicate, Pi.zero_apply]
      split_ifs <;> rfl
    rw [this, (isIP_ipN (α := ℝ) n).zero_left]; norm_num
  Fs_min := fun z _ _ => by
    have := (isIP_ipN (α := ℝ) n).nonneg (toFn z)
    linarith

/-- the fuel condition for the fixed step size `L_min = L_max = 1`: the backtracking loop is never entered
    (`nL = 0`), the default `qubFuel = 4096 ≥ 1` suffices -/
theorem exFuelOK : FistaFuelOK exPr 0 where
  lmin_pos := by norm_num [exPr]
  lmin_le := by norm_num [exPr]
  lmax_lmin := by norm_num [exPr]
  lmax_l0 := fun h => by
    have : fixedLip exPr = true := by simp [fixedLip, fista_fixedLipschitz, exPr]
    rw [this] at h; exact absurd h (by decide)
  fuel := by norm_num [exPr]

/-- All hypotheses of `fista_rate_model_exact` hold for this instance: FISTA with `L = 1` on
    `½‖x‖²` satisfies `F(x̂ₖ) ≤ 2‖x₀‖²/(γₖ(k+2)²)` at every reported iterate (for a stop flag that is
    never requested: `StopMono` holds trivially and no request is visible at the final check). -/
example (n : ℕ) (x0 : List ℝ) (hx0 : x0.length = n) (oot : Bool) :
    ∀ cb ∈ (run (exP n) exPr (fun _ => false) oot x0 [] [] [] [] 0 0).callbacks,
      ipN n (toFn cb.it.xhat) (toFn cb.it.xhat) / 2 + 0 - 0
        ≤ 2 * ipN n (toFn x0 - toFn (List.replicate n (0:ℝ))) (toFn x0 - toFn (List.replicate n (0:ℝ)))
            / (cb.it.gamma * ((cb.k : ℝ) + 2) ^ 2) :=
  (fista_rate_model_exact (exSpec n) exParamOK (exQub n) (exTarget n) lawfulSqrt_real rfl
    (Or.inr rfl) (fun _ => false) (fun _ _ _ h => h) oot x0 [] [] [] [] 0 0 hx0 0 exFuelOK).2 rfl

/-- … and for any stop schedule that never lowers the flag (here: visible from tick `k` on) every
    reported iterate but possibly the final one satisfies the bound. -/
example (n : ℕ) (x0 : List ℝ) (hx0 : x0.length = n) (k : ℕ) (oot : Bool) :
    ∀ cb ∈ (run (exP n) exPr (fun t => decide (k ≤ t)) oot x0 [] [] [] [] 0 0).callbacks.reverse.tail,
      ipN n (toFn cb.it.xhat) (toFn cb.it.xhat) / 2 + 0 - 0
        ≤ 2 * ipN n (toFn x0 - toFn (List.replicate n (0:ℝ))) (toFn x0 - toFn (List.replicate n (0:ℝ)))
            / (cb.it.gamma * ((cb.k : ℝ) + 2) ^ 2) :=
  (fista_rate_model_exact (exSpec n) exParamOK (exQub n) (exTarget n) lawfulSqrt_real rfl
    (Or.inr rfl) (fun t => decide (k ≤ t))
    (fun a b hab h => by simp only [decide_eq_true_eq] at h ⊢; omega)
    oot x0 [] [] [] [] 0 0 hx0 0 exFuelOK).1

end example_real

end Alpaqa.Props.C08
