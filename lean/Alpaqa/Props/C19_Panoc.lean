/-
  C19 (PANOC) — `stop()` interrupts the solver promptly, leaving valid results.

  * Source facts (`Gen/C19.lean`, regenerated from atomic-stop-signal.hpp and the solver sources on
    every run, decided here): the flag is a `std::atomic<bool>` initialised `false`, accessed only
    through `store(true)` and `load` — it is never stored `false`; the solvers touch their
    `stop_signal` member only through `stop()`, `stop_requested()` and by passing it (const ref) to
    `check_all_stop_conditions`; PANOC polls it in the condition of the initial step-size loop, at
    the loop head, in the condition of the line-search loop, and right after that loop; every
    solver's step-size backtracking loop polls it (`stepsize_loops_poll`).  Hence the value a poll
    sees is a *monotone*
    function of time (`stop_monotone_of_history`): that is the only property of the flag the loop
    theorems use (`StopMono`).  Data-race freedom itself is the C++ memory model's guarantee for
    `std::atomic` and is not modelled (validated by the ThreadSanitizer run of `checks/c19.py`).
  * Loop theorems, about `Alpaqa.Panoc.run` (tied to panoc.tpp by trace replay), for every problem
    oracle, direction provider, parameter set, budget and every monotone stop schedule
    `stop : Nat → Bool` (a function of the *tick* = number of problem / direction / callback calls
    made so far — so "every point of execution at which the request can land" is covered).
-/
import Alpaqa.Proofs.PanocLoop
import Alpaqa.Props.C06_Panoc
import Alpaqa.Props.C03
import Alpaqa.Gen.C19
import Alpaqa.Proofs.PanocLoopExample
import Alpaqa.Proofs.PanocFuel

namespace Alpaqa.Props.C19Panoc
open Alpaqa Alpaqa.Panoc Alpaqa.Gen Alpaqa.Gen.C19 Alpaqa.Props.C06
set_option linter.unusedSectionVars false
set_option linter.unusedVariables false

/-! ### The flag: declaration and accesses (generated tables) -/

/-- Every textual occurrence of `stop_flag` is its declaration as `std::atomic<bool>{false}`, a
    `store(true)` or a `load`: the flag is atomic and is never cleared. -/
theorem flag_atomic_never_cleared :
    ∀ a ∈ stopFlagAccesses, a.2 = .load ∨ a.2 = .store (some true) ∨ a.2 = .decl true false := by
  decide

/-- `stop()` stores `true`, `stop_requested()` loads; there is exactly one declaration. -/
theorem flag_api :
    ("stop", FlagAccess.store (some true)) ∈ stopFlagAccesses ∧
    ("stop_requested", FlagAccess.load) ∈ stopFlagAccesses ∧
    (stopFlagAccesses.filter (fun a => a.2 == .decl true false)).length = 1 := by decide

/-- The solvers use their `stop_signal` member only through the signal's API. -/
theorem solvers_use_api_only : ∀ u ∈ signalUses, u.2 ≠ .other := by decide

/-- PANOC's poll sites, in source order: the loop head (through `check_all_stop_conditions`, which
    polls once), the line-search loop condition, the `continue` right after the line search —
    preceded by the condition of the initial step-size loop
    `while (!stop_requested() && L < L_max && qub_violated(…))`. -/
theorem panoc_poll_sites :
    (signalUses.filter (fun u => u.1 == "panoc.tpp")).map (·.2) =
      [.whileNotPollQub, .passToChain, .whileNotPoll, .ifPollContinue] ∧
    (signalUses.filter (fun u => u.1 == "panoc-helpers.tpp")).map (·.2) = [.paramConstRef, .poll] ∧
    (signalUses.filter (fun u => u.1 == "panoc.hpp")).map (·.2) = [.callStop, .member] := by
  decide

/-- **The step-size loops poll the flag, in every solver scanned**: each of panoc.tpp, zerofpr.tpp,
    pantr.tpp (`backtrack_qub`, used for the initial and the in-iteration backtracking), fista.tpp
    and panoc-ocp.tpp has exactly one `while` loop whose condition calls `qub_violated`, and its
    condition is `!stop_signal.stop_requested() && L < params.L_max && qub_violated(…)`. -/
theorem stepsize_loops_poll :
    stepsizeLoops.map (·.1) = ["panoc.tpp", "zerofpr.tpp", "pantr.tpp", "fista.tpp", "panoc-ocp.tpp"] ∧
    ∀ l ∈ stepsizeLoops, l.2.1 = true ∧ l.2.2 = true := by decide

/-- The initial step-size loop precedes the loop head in every solver: the first poll site of each
    `.tpp` file (after the progress-callback lambda of PANOC-OCP) is the step-size loop condition,
    the next one the loop-head check (`check_all_stop_conditions`, or the direct poll of PANOC-OCP's
    own `check_all_stop_conditions` lambda, which is defined before the initialisation). -/
theorem init_loop_polls_every_solver :
    (signalUses.filter (fun u => u.1 == "zerofpr.tpp")).map (·.2) =
      [.whileNotPollQub, .passToChain, .whileNotPoll, .ifPollContinue] ∧
    (signalUses.filter (fun u => u.1 == "pantr.tpp")).map (·.2) = [.whileNotPollQub, .passToChain] ∧
    (signalUses.filter (fun u => u.1 == "fista.tpp")).map (·.2) = [.whileNotPollQub, .passToChain] ∧
    (signalUses.filter (fun u => u.1 == "panoc-ocp.tpp")).map (·.2) =
      [.poll, .whileNotPollQub, .whileNotPoll, .ifPollContinue] := by decide

/-- Value of the flag after a history of accesses (in the flag's modification order). -/
def flagAfter (b : Bool) : List FlagAccess → Bool
  | [] => b
  | .store (some v) :: r => flagAfter v r
  | _ :: r => flagAfter b r

theorem flagAfter_append (b : Bool) (l1 l2 : List FlagAccess) :
    flagAfter b (l1 ++ l2) = flagAfter (flagAfter b l1) l2 := by
  induction l1 generalizing b with
  | nil => rfl
  | cons a r ih =>
    cases a with
    | store v => cases v <;> simp [flagAfter, ih]
    | decl _ _ => simp [flagAfter, ih]
    | load => simp [flagAfter, ih]
    | other => simp [flagAfter, ih]

theorem flag_stays_set (ops : List FlagAccess)
    (h : ∀ o ∈ ops, o = .load ∨ o = .store (some true)) : flagAfter true ops = true := by
  induction ops with
  | nil => rfl
  | cons a r ih =>
    have hr : ∀ o ∈ r, o = .load ∨ o = .store (some true) := fun o ho => h o (List.mem_cons_of_mem _ ho)
    rcases h a (List.mem_cons_self ..) with ha | ha <;> subst ha <;> simpa [flagAfter] using ih hr

/-- **The stop flag is monotone**: along any history made of the accesses that exist in the source
    (`load`, `store(true)`), what a poll after `t` accesses sees never goes back from `true` to
    `false`. -/
theorem stop_monotone_of_history (hist : List FlagAccess)
    (h : ∀ o ∈ hist, o = .load ∨ o = .store (some true)) :
    StopMono (fun t => flagAfter false (hist.take t)) := by
  intro s t hst hs
  have e : hist.take t = hist.take s ++ (hist.take t).drop s := by
    have h1 : (hist.take t).take s = hist.take s := by
      rw [List.take_take, Nat.min_eq_left hst]
    rw [← h1]
    exact (List.take_append_drop s (hist.take t)).symm
  have hs' : flagAfter false (hist.take s) = true := hs
  show flagAfter false (hist.take t) = true
  rw [e, flagAfter_append, hs']
  apply flag_stays_set
  intro o ho
  exact h o (List.mem_of_mem_take (List.mem_of_mem_drop ho))

/-! ### Loop theorems -/

section generic
variable {α D : Type} [Add α] [Sub α] [Mul α] [Div α] [Neg α] [LT α] [LE α] [DecidableLT α]
  [DecidableLE α] [BEq α] [RealLike α] [NatCast α] [OfScientific α]
  [OfNat α 0] [OfNat α 1] [OfNat α 2] [OfNat α 100]

/-- **A stop request visible at a loop-head check ends the solve at that check**: the main loop
    returns through the exit block of that very head — no direction call, no line search, no
    further problem evaluation except those of the exit block (progress callback, and `ψ(x̂)`/`ŷ`
    once in eager mode unless the head itself evaluated `ŷ`): at most 2 more ticks, and at most 4 for
    the head and its exit block together (`head_exit_ticks`). -/
theorem stop_at_head_exits (P : Problem α) (dir : Direction D α) (pr : Params α)
    (stop : Nat → Bool) (oot : Bool) (x0 y Sig errz0 : Vec α) (fuel : Nat) (s : St α D)
    (h : stop (headStep P pr stop oot s).1.tick = true) :
    (headStep P pr stop oot s).2.2 ≠ .Busy ∧
    mainLoop P dir pr stop oot x0 y Sig errz0 (fuel + 1) s =
      exitBlock P pr (headStep P pr stop oot s).1 (headStep P pr stop oot s).2.1
        (headStep P pr stop oot s).2.2 x0 y Sig errz0 ∧
    (mainLoop P dir pr stop oot x0 y Sig errz0 (fuel + 1) s).ticks ≤
      (headStep P pr stop oot s).1.tick + 2 ∧
    (mainLoop P dir pr stop oot x0 y Sig errz0 (fuel + 1) s).stats.iterations = s.k := by
  have hs := (headStep_status P pr stop oot s).2
  have hnb : (headStep P pr stop oot s).2.2 ≠ .Busy := by
    rw [hs, h]; exact stop_requested_not_busy _ _ _ _ _ _ _
  have he : mainLoop P dir pr stop oot x0 y Sig errz0 (fuel + 1) s =
      exitBlock P pr (headStep P pr stop oot s).1 (headStep P pr stop oot s).2.1
        (headStep P pr stop oot s).2.2 x0 y Sig errz0 := by
    rw [mainLoop]
    try simp only []
    rw [if_pos (by simpa using hnb)]
  refine ⟨hnb, he, ?_, ?_⟩
  · rw [he]; exact (exitBlock_fields P pr _ _ _ x0 y Sig errz0).2.2.2.2.2
  · rw [he, (exitBlock_fields P pr _ _ _ x0 y Sig errz0).2.2.1, (headStep_fields P pr stop oot s).1]

/-- **Once the flag is visible the line-search loop makes no further evaluation.** -/
theorem lineSearch_no_eval_after_stop (P : Problem α) (dir : Direction D α) (pr : Params α)
    (stop : Nat → Bool) (q : Vec α) (tauInit : α) (f : Nat) (s : LS α D) (h : stop s.tick = true) :
    lineSearch P dir pr stop q tauInit (f + 1) s = s :=
  lineSearch_stop_id P dir pr stop q tauInit f s h

/-- **After an interrupted line search the next head exits with the previous current iterate**:
    the candidate is discarded (`k`, the callback list, the no-progress counter and the core of the
    current iterate are those of before the iteration), the next loop-head check is not `Busy`, and
    what is written back is the `x̂` of the iterate that was current before the interrupted
    iteration. -/
theorem interrupted_linesearch_discards_candidate (P : Problem α) (dir : Direction D α)
    (pr : Params α) (stop : Nat → Bool) (hm : StopMono stop) (oot : Bool) (x0 y Sig errz0 : Vec α)
    (fuel : Nat) (s : St α D) (eps : α) (h : stop (iterLs P dir pr stop s).tick = true) :
    (iterBody P dir pr stop s eps).k = s.k ∧ (iterBody P dir pr stop s eps).cbs = s.cbs ∧
    (iterBody P dir pr stop s eps).noProgress = s.noProgress ∧
    core (iterBody P dir pr stop s eps).curr = core s.curr ∧
    (headStep P pr stop oot (iterBody P dir pr stop s eps)).2.2 ≠ .Busy ∧
    (mainLoop P dir pr stop oot x0 y Sig errz0 (fuel + 1) (iterBody P dir pr stop s eps)).stats.iterations
      = s.k ∧
    ((mainLoop P dir pr stop oot x0 y Sig errz0 (fuel + 1) (iterBody P dir pr stop s eps)).wrote = true →
      (mainLoop P dir pr stop oot x0 y Sig errz0 (fuel + 1) (iterBody P dir pr stop s eps)).x
        = s.curr.xhat) := by
  have hi := iterBody_interrupted P dir pr stop s eps h
  have hf := headStep_fields P pr stop oot (iterBody P dir pr stop s eps)
  have hstop : stop (headStep P pr stop oot (iterBody P dir pr stop s eps)).1.tick = true :=
    hm _ _ (by rw [← hi.2.2.2.2.2]; exact hf.2.2.2.2.2.1) h
  have hx := stop_at_head_exits P dir pr stop oot x0 y Sig errz0 fuel _ hstop
  refine ⟨hi.1, hi.2.2.1, hi.2.1, hi.2.2.2.2.1, hx.1, by rw [hx.2.2.2, hi.1], ?_⟩
  rw [hx.2.1]
  intro hw
  obtain ⟨c, hc, _, hxh, _, _, _, _, _, _, hwx⟩ := exitBlock_final P pr
    (headStep P pr stop oot (iterBody P dir pr stop s eps)).1
    (headStep P pr stop oot (iterBody P dir pr stop s eps)).2.1
    (headStep P pr stop oot (iterBody P dir pr stop s eps)).2.2 x0 y Sig errz0
  rw [(hwx hw).1, hxh, xhat_of_core hf.2.2.2.2.1, xhat_of_core hi.2.2.2.2.1]

/-- Tick bound for the main loop: with a monotone flag visible from tick `t₀` on, a solve that is at
    a loop head at tick `s.tick` ends at tick `≤ max (s.tick + 4) (t₀ + 7)`.
    `4` = one head (`∇ψ(x̂)`, unit-step prox of the criterion) + exit block (callback, `ψ(x̂)`);
    `7` = at most 3 calls made by the stage during which the flag became visible after tick `t₀`
    (direction stage: ≤ 4 calls starting before `t₀`; one line-search pass: ≤ 4; update stage and
    callback: ≤ 4), plus that head and exit. -/
theorem mainLoop_ticks_after_stop (P : Problem α) (dir : Direction D α) (pr : Params α)
    (stop : Nat → Bool) (hm : StopMono stop) (t0 : Nat) (h0 : stop t0 = true) (oot : Bool)
    (x0 y Sig errz0 : Vec α) (fuel : Nat) (s : St α D) :
    (mainLoop P dir pr stop oot x0 y Sig errz0 fuel s).ticks ≤ max (s.tick + 4) (t0 + 7) := by
  induction fuel generalizing s with
  | zero =>
    have := (exitBlock_fields P pr s s.stats.eps .Exception x0 y Sig errz0).2.2.2.2.2
    simp only [mainLoop]
    omega
  | succ f ih =>
    have hf := headStep_fields P pr stop oot s
    by_cases hst : stop (headStep P pr stop oot s).1.tick = true
    · -- head and exit block together make at most 4 calls (`ŷ(x̂)` is evaluated by one of them only)
      have he := (stop_at_head_exits P dir pr stop oot x0 y Sig errz0 f s hst).2.1
      have := head_exit_ticks P pr stop oot s (headStep P pr stop oot s).2.1
        (headStep P pr stop oot s).2.2 x0 y Sig errz0
      rw [he]
      omega
    · have hst' : stop (headStep P pr stop oot s).1.tick = false := by simpa using hst
      have hlt := lt_of_not_stop hm h0 hst'
      rw [mainLoop]
      try simp only []
      split_ifs with hb
      · have := (exitBlock_fields P pr (headStep P pr stop oot s).1 (headStep P pr stop oot s).2.1
          (headStep P pr stop oot s).2.2 x0 y Sig errz0).2.2.2.2.2
        omega
      · have hb' := iterBody_tick_bound P dir pr stop hm t0 h0 (headStep P pr stop oot s).1
          (headStep P pr stop oot s).2.1 hlt
        have := ih (iterBody P dir pr stop (headStep P pr stop oot s).1 (headStep P pr stop oot s).2.1)
        omega

/-- **Once the flag is visible the initial step-size loop makes no further evaluation**: the loop
    `while (!stop_requested() && L < L_max && qub_violated)` polls the flag first. -/
theorem initQub_no_eval_after_stop (P : Problem α) (pr : Params α) (stop : Nat → Bool) (f : Nat)
    (c : Iterate α) (t b : Nat) (h : stop t = true) :
    initQub P pr stop (f + 1) c t b = (c, t, b, false) :=
  initQub_stop_id P pr stop f c t b h

/-- Number of oracle calls of the initialisation (Lipschitz estimate, first proximal-gradient step,
    initial quadratic-upper-bound backtracking). -/
def initTicks (P : Problem α) (d0 : D) (pr : Params α) (stop : Nat → Bool) (x0 gV : Vec α) (gS iS : α) :
    Nat :=
  match initState P d0 pr stop x0 gV gS iS with
  | .inl t => t
  | .inr s => s.tick

/-- The initialisation makes `2` or `1` calls for the Lipschitz estimate / first `ψ, ∇ψ`, `2` for
    the first proximal-gradient step and `2` per initial step-size backtrack. -/
theorem initTicks_eq (P : Problem α) (d0 : D) (pr : Params α) (stop : Nat → Bool) (x0 gV : Vec α)
    (gS iS : α) (s : St α D) (h : initState P d0 pr stop x0 gV gS iS = .inr s) :
    s.tick = (if pr.L0 ≤ 0 then 2 else 1) + 2 + 2 * s.stats.stepsizeBacktracks := by
  have := initState_ticks P d0 pr stop x0 gV gS iS
  rw [h] at this
  exact this

/-- **The initialisation is interruptible**: with a monotone flag visible from tick `t₀` on, the
    initialisation ends at tick `≤ max 4 (t₀ + 1)` — whatever the number of step-size backtracks the
    quadratic upper bound would still ask for.  `4` = the calls made before the first poll
    (Lipschitz estimate `≤ 2`, first proximal-gradient step and `ψ(x̂)`); `t₀ + 1`: a backtrack
    (2 calls) is only started at a tick `< t₀`. -/
theorem initTicks_after_stop (P : Problem α) (d0 : D) (pr : Params α) (stop : Nat → Bool)
    (hm : StopMono stop) (t0 : Nat) (h0 : stop t0 = true) (x0 gV : Vec α) (gS iS : α) :
    initTicks P d0 pr stop x0 gV gS iS ≤ max 4 (t0 + 1) := by
  unfold initTicks initState
  simp only []
  split_ifs with h1 h2 h3 <;> simp only [] <;>
    first
    | omega
    | exact Nat.le_trans (initQub_tick_bound P pr stop hm t0 h0 _ _ _ _) (by omega)

/-- **At most one further iteration's worth of evaluations after `stop()`** — wherever the request
    lands, the initialisation included: if the (monotone) flag is visible from tick `t₀` on, the
    solve ends at tick `≤ max 8 (t₀ + 7)`, independent of the number of initial step-size backtracks.
    `8` = a request that is already visible at the first poll: `≤ 4` calls before that poll
    (Lipschitz estimate, first proximal-gradient step) + first head (`≤ 2`) + exit block (`≤ 2`);
    `t₀ + 7`: see `mainLoop_ticks_after_stop` (a request landing inside the initial step-size loop
    gives `≤ t₀ + 5`: the backtrack in flight, head, exit block). -/
theorem at_most_one_iteration_after_stop (P : Problem α) (dir : Direction D α) (d0 : D)
    (pr : Params α) (stop : Nat → Bool) (hm : StopMono stop) (t0 : Nat) (h0 : stop t0 = true)
    (oot : Bool) (x0 y Sig errz0 gV : Vec α) (gS iS : α) :
    (run P dir d0 pr stop oot x0 y Sig errz0 gV gS iS).ticks ≤ max 8 (t0 + 7) := by
  have hi := initTicks_after_stop P d0 pr stop hm t0 h0 x0 gV gS iS
  unfold initTicks at hi
  unfold run
  cases hs : initState P d0 pr stop x0 gV gS iS with
  | inl t =>
    have := initState_ticks P d0 pr stop x0 gV gS iS
    rw [hs] at this
    simp only [] at this ⊢
    omega
  | inr s =>
    rw [hs] at hi
    simp only [] at hi ⊢
    have := mainLoop_ticks_after_stop P dir pr stop hm t0 h0 oot x0 y Sig errz0 (pr.maxIter + 2) s
    omega

/-- The bound in the form `t₀ + c`: `≤ t₀ + 8` always, `≤ t₀ + 7` for a request that lands during
    or after the first oracle call (`t₀ ≥ 1` — every request made while the solve is running). -/
theorem ticks_after_stop_le (P : Problem α) (dir : Direction D α) (d0 : D)
    (pr : Params α) (stop : Nat → Bool) (hm : StopMono stop) (t0 : Nat) (h0 : stop t0 = true)
    (oot : Bool) (x0 y Sig errz0 gV : Vec α) (gS iS : α) :
    (run P dir d0 pr stop oot x0 y Sig errz0 gV gS iS).ticks ≤ t0 + 8 ∧
    (1 ≤ t0 → (run P dir d0 pr stop oot x0 y Sig errz0 gV gS iS).ticks ≤ t0 + 7) := by
  have := at_most_one_iteration_after_stop P dir d0 pr stop hm t0 h0 oot x0 y Sig errz0 gV gS iS
  constructor
  · omega
  · intro h1; omega

/-- **A solve whose initial step-size loop was cut short ends at its first loop head**: if the
    (monotone) flag is visible when the initialisation ends, the solve returns through the exit block
    of the first head — no direction call, no line search, `0` iterations, exactly one callback (the
    final one, reporting the initial iterate), at most `4` further calls. -/
theorem init_interrupted_single_callback (P : Problem α) (dir : Direction D α) (d0 : D)
    (pr : Params α) (stop : Nat → Bool) (hm : StopMono stop) (oot : Bool)
    (x0 y Sig errz0 gV : Vec α) (gS iS : α) (s : St α D)
    (hs : initState P d0 pr stop x0 gV gS iS = .inr s) (hst : stop s.tick = true) :
    (headStep P pr stop oot s).2.2 ≠ .Busy ∧
    run P dir d0 pr stop oot x0 y Sig errz0 gV gS iS =
      exitBlock P pr (headStep P pr stop oot s).1 (headStep P pr stop oot s).2.1
        (headStep P pr stop oot s).2.2 x0 y Sig errz0 ∧
    (run P dir d0 pr stop oot x0 y Sig errz0 gV gS iS).stats.iterations = 0 ∧
    (run P dir d0 pr stop oot x0 y Sig errz0 gV gS iS).callbacks.length = 1 ∧
    (run P dir d0 pr stop oot x0 y Sig errz0 gV gS iS).ticks ≤ s.tick + 4 := by
  have hf := headStep_fields P pr stop oot s
  have hk := C06Panoc.initState_k P d0 pr stop x0 gV gS iS s hs
  have hstop : stop (headStep P pr stop oot s).1.tick = true := hm _ _ hf.2.2.2.2.2.1 hst
  have hx := stop_at_head_exits P dir pr stop oot x0 y Sig errz0 (pr.maxIter + 1) s hstop
  have hr : run P dir d0 pr stop oot x0 y Sig errz0 gV gS iS =
      mainLoop P dir pr stop oot x0 y Sig errz0 (pr.maxIter + 1 + 1) s := by
    unfold run; rw [hs]
  refine ⟨hx.1, by rw [hr]; exact hx.2.1, by rw [hr, hx.2.2.2]; exact hk.1, ?_, ?_⟩
  · rw [hr, hx.2.1, exitBlock_callbacks, hf.2.2.1, hk.2.2]; rfl
  · rw [hr, hx.2.1]
    exact head_exit_ticks P pr stop oot s _ _ x0 y Sig errz0

/-! ### Interrupted or natural status -/

section chain
variable {β : Type} [LT β] [LE β] [DecidableLT β] [DecidableLE β] [RealLike β]
  [OfNat β 0] [OfScientific β]

/-- With the stop flag visible, the chain returns `Interrupted` unless one of the higher-priority
    conditions holds — and then it returns exactly that condition's status. -/
theorem chain_with_stop (tol : β) (maxIter maxNP k : Nat) (ε : β) (np : Nat) (oot : Bool) :
    statusChain tol maxIter maxNP k ε np oot true = .Interrupted ∨
    (statusChain tol maxIter maxNP k ε np oot true = .Converged ∧ ε ≤ effTol tol) ∨
    (statusChain tol maxIter maxNP k ε np oot true = .MaxTime ∧ oot = true) ∨
    (statusChain tol maxIter maxNP k ε np oot true = .MaxIter ∧ k = maxIter) ∨
    (statusChain tol maxIter maxNP k ε np oot true = .NotFinite ∧ RealLike.isFinite ε = false) ∨
    (statusChain tol maxIter maxNP k ε np oot true = .NoProgress ∧ np > maxNP) := by
  unfold statusChain effTol
  simp only []
  split_ifs <;> simp_all

end chain

/-- **Final status is `Interrupted` unless a higher-priority chain condition holds at that head**:
    if the (monotone) flag was visible from tick `t₀` and the solve made at least `t₀ + 2` calls in
    total — i.e. it did not finish before the request could be seen — the returned status is
    `Interrupted`, or it is the natural status whose condition held at the last head
    (`Converged ∧ ε ≤ tol'`, `MaxTime`, `MaxIter ∧ iterations = max_iter`, `NotFinite ∧ ε not
    finite`, `NoProgress ∧ counter > max_no_progress`). -/
theorem interrupted_or_natural_of_fuel (P : Problem α) (dir : Direction D α) (d0 : D) (pr : Params α)
    (stop : Nat → Bool) (hm : StopMono stop) (t0 : Nat) (h0 : stop t0 = true) (oot : Bool)
    (x0 y Sig errz0 gV : Vec α) (gS iS : α) (sh : St α D)
    (hfuel : (run P dir d0 pr stop oot x0 y Sig errz0 gV gS iS).fuelOut = false)
    (hh : C06Panoc.finalHead P dir d0 pr stop oot x0 gV gS iS = some sh)
    (hlate : t0 + 2 ≤ (run P dir d0 pr stop oot x0 y Sig errz0 gV gS iS).ticks) :
    (run P dir d0 pr stop oot x0 y Sig errz0 gV gS iS).stats.status = .Interrupted ∨
    ((run P dir d0 pr stop oot x0 y Sig errz0 gV gS iS).stats.status = .Converged ∧
      (run P dir d0 pr stop oot x0 y Sig errz0 gV gS iS).stats.eps ≤ effTol pr.tolerance) ∨
    ((run P dir d0 pr stop oot x0 y Sig errz0 gV gS iS).stats.status = .MaxTime ∧ oot = true) ∨
    ((run P dir d0 pr stop oot x0 y Sig errz0 gV gS iS).stats.status = .MaxIter ∧
      (run P dir d0 pr stop oot x0 y Sig errz0 gV gS iS).stats.iterations = pr.maxIter) ∨
    ((run P dir d0 pr stop oot x0 y Sig errz0 gV gS iS).stats.status = .NotFinite ∧
      RealLike.isFinite (run P dir d0 pr stop oot x0 y Sig errz0 gV gS iS).stats.eps = false) ∨
    ((run P dir d0 pr stop oot x0 y Sig errz0 gV gS iS).stats.status = .NoProgress ∧
      sh.noProgress > pr.maxNoProgress) := by
  have hc := C06Panoc.final_status_is_chain_of_fuel P dir d0 pr stop oot x0 y Sig errz0 gV gS iS sh hfuel hh
  have he := C06Panoc.run_eq_exit_of_fuel P dir d0 pr stop oot x0 y Sig errz0 gV gS iS sh hfuel hh
  have ht := (exitBlock_fields P pr sh (epsOf P pr sh.curr)
    (statusOf pr sh.k (epsOf P pr sh.curr) sh.noProgress oot (stop sh.tick)) x0 y Sig errz0).2.2.2.2.2
  rw [← he.2] at ht
  have hstop : stop sh.tick = true := hm t0 sh.tick (by omega) h0
  rw [hc.1, hc.2.1, hc.2.2.1, hstop]
  exact chain_with_stop _ _ _ _ _ _ _

/-- With a monotone stop flag the main loop's fuel (`max_iter + 2` passes) always suffices: the
    solve never ends in the model's artificial `Exception` exit.  (A pass either advances `k`, which
    a `Busy` head bounds by `max_iter`, or was interrupted, and then the next head exits.) -/
theorem mainLoop_fuel_suffices (P : Problem α) (dir : Direction D α) (pr : Params α)
    (stop : Nat → Bool) (hm : StopMono stop) (oot : Bool) (x0 y Sig errz0 : Vec α) (fuel : Nat)
    (s : St α D) (hk : s.k ≤ pr.maxIter) (hfuel : pr.maxIter - s.k + 2 ≤ fuel) :
    (mainLoop P dir pr stop oot x0 y Sig errz0 fuel s).stats.status ≠ .Exception := by
  induction fuel generalizing s with
  | zero => omega
  | succ f ih =>
    have hf := headStep_fields P pr stop oot s
    rw [mainLoop]
    try simp only []
    split_ifs with hb
    · rw [(exitBlock_fields P pr _ _ _ x0 y Sig errz0).1, (headStep_status P pr stop oot s).2]
      exact never_exception _ _ _ _ _ _ _ _
    · have hbusy : (headStep P pr stop oot s).2.2 = .Busy := by simpa using hb
      have hne := C06Panoc.head_busy_k_ne P pr stop oot s hbusy
      by_cases hst : stop (iterLs P dir pr stop (headStep P pr stop oot s).1).tick = true
      · -- interrupted: the next head exits
        cases f with
        | zero => omega
        | succ f' =>
          have hd := interrupted_linesearch_discards_candidate P dir pr stop hm oot x0 y Sig errz0 f'
            (headStep P pr stop oot s).1 (headStep P pr stop oot s).2.1 hst
          have hi := iterBody_interrupted P dir pr stop (headStep P pr stop oot s).1
            (headStep P pr stop oot s).2.1 hst
          have hf2 := headStep_fields P pr stop oot
            (iterBody P dir pr stop (headStep P pr stop oot s).1 (headStep P pr stop oot s).2.1)
          have hstop : stop (headStep P pr stop oot
              (iterBody P dir pr stop (headStep P pr stop oot s).1 (headStep P pr stop oot s).2.1)).1.tick
              = true := hm _ _ (by rw [← hi.2.2.2.2.2]; exact hf2.2.2.2.2.2.1) hst
          have hx := stop_at_head_exits P dir pr stop oot x0 y Sig errz0 f' _ hstop
          rw [hx.2.1, (exitBlock_fields P pr _ _ _ x0 y Sig errz0).1,
            (headStep_status P pr stop oot _).2]
          exact never_exception _ _ _ _ _ _ _ _
      · have hst' : stop (iterLs P dir pr stop (headStep P pr stop oot s).1).tick = false := by
          simpa using hst
        have ha := (iterBody_advanced P dir pr stop (headStep P pr stop oot s).1
          (headStep P pr stop oot s).2.1 hst').1
        rw [hf.1] at ha
        apply ih
        · omega
        · omega

/-! ### Outputs -/

/-- **Outputs of an interrupted solve satisfy the same consistency relations as any other exit**
    — the exit contract of `Props/C03.lean`, which already quantifies over all stop schedules:
    whenever results are written, `x_out` is the `x̂` of a proximal-gradient step, `y_out = ŷ(x_out)`,
    `err_z = (y_out − y_in)/Σ`; otherwise the caller's values are untouched. -/
theorem outputs_consistent_of_fuel (P : Problem α) (dir : Direction D α) (d0 : D) (pr : Params α)
    (stop : Nat → Bool) (oot : Bool) (x0 y Sig errz0 gV : Vec α) (gS iS : α)
    (hfuel : (run P dir d0 pr stop oot x0 y Sig errz0 gV gS iS).fuelOut = false) :
    ExitOK P x0 y Sig errz0 (run P dir d0 pr stop oot x0 y Sig errz0 gV gS iS) :=
  C03.panoc_exit_contract_of_fuel P dir d0 pr stop oot x0 y Sig errz0 gV gS iS hfuel

end generic

/-! ### With the fuel hypothesis discharged

`at_most_one_iteration_after_stop`, `ticks_after_stop_le`, `stop_at_head_exits`,
`interrupted_linesearch_discards_candidate`, `init_interrupted_single_callback` need no fuel
hypothesis.  The two theorems that do are restated here with the explicit hypotheses of
`Proofs/PanocFuel.run_fuel_suffices` (`FuelOK pr n K`; the flag is monotone anyway), which also
strengthens `mainLoop_fuel_suffices`: not only is the artificial `Exception` exit never taken, no
loop of the model runs out of fuel. -/

section fuel
variable {α D : Type} [Field α] [LinearOrder α] [IsStrictOrderedRing α] [RealLike α]

/-- **The model's fuel never runs out** (monotone flag, `FuelOK`): see `Proofs/PanocFuel`. -/
theorem fuel_suffices (P : Problem α) (dir : Direction D α) (d0 : D) (pr : Params α)
    (stop : Nat → Bool) (hm : StopMono stop) (n K : Nat) (hF : FuelOK pr n K) (oot : Bool)
    (x0 y Sig errz0 gV : Vec α) (gS iS : α) :
    (run P dir d0 pr stop oot x0 y Sig errz0 gV gS iS).fuelOut = false :=
  run_fuel_suffices P dir d0 pr stop hm n K hF oot x0 y Sig errz0 gV gS iS

/-- **Final status is `Interrupted` unless a higher-priority chain condition holds at that head**
    (see `interrupted_or_natural_of_fuel`). -/
theorem interrupted_or_natural (P : Problem α) (dir : Direction D α) (d0 : D) (pr : Params α)
    (stop : Nat → Bool) (hm : StopMono stop) (t0 : Nat) (h0 : stop t0 = true) (n K : Nat)
    (hF : FuelOK pr n K) (oot : Bool)
    (x0 y Sig errz0 gV : Vec α) (gS iS : α) (sh : St α D)
    (hh : C06Panoc.finalHead P dir d0 pr stop oot x0 gV gS iS = some sh)
    (hlate : t0 + 2 ≤ (run P dir d0 pr stop oot x0 y Sig errz0 gV gS iS).ticks) :
    (run P dir d0 pr stop oot x0 y Sig errz0 gV gS iS).stats.status = .Interrupted ∨
    ((run P dir d0 pr stop oot x0 y Sig errz0 gV gS iS).stats.status = .Converged ∧
      (run P dir d0 pr stop oot x0 y Sig errz0 gV gS iS).stats.eps ≤ effTol pr.tolerance) ∨
    ((run P dir d0 pr stop oot x0 y Sig errz0 gV gS iS).stats.status = .MaxTime ∧ oot = true) ∨
    ((run P dir d0 pr stop oot x0 y Sig errz0 gV gS iS).stats.status = .MaxIter ∧
      (run P dir d0 pr stop oot x0 y Sig errz0 gV gS iS).stats.iterations = pr.maxIter) ∨
    ((run P dir d0 pr stop oot x0 y Sig errz0 gV gS iS).stats.status = .NotFinite ∧
      RealLike.isFinite (run P dir d0 pr stop oot x0 y Sig errz0 gV gS iS).stats.eps = false) ∨
    ((run P dir d0 pr stop oot x0 y Sig errz0 gV gS iS).stats.status = .NoProgress ∧
      sh.noProgress > pr.maxNoProgress) :=
  interrupted_or_natural_of_fuel P dir d0 pr stop hm t0 h0 oot x0 y Sig errz0 gV gS iS sh
    (run_fuel_suffices P dir d0 pr stop hm n K hF oot x0 y Sig errz0 gV gS iS) hh hlate

/-- **Outputs of an interrupted solve satisfy the same consistency relations as any other exit.** -/
theorem outputs_consistent (P : Problem α) (dir : Direction D α) (d0 : D) (pr : Params α)
    (stop : Nat → Bool) (hm : StopMono stop) (n K : Nat) (hF : FuelOK pr n K) (oot : Bool)
    (x0 y Sig errz0 gV : Vec α) (gS iS : α) :
    ExitOK P x0 y Sig errz0 (run P dir d0 pr stop oot x0 y Sig errz0 gV gS iS) :=
  C03.panoc_exit_contract P dir d0 pr stop hm n K hF oot x0 y Sig errz0 gV gS iS

end fuel

/-! ### Non-vacuity -/

section examples
open Alpaqa.Panoc.Example

example : StopMono (stopAt (some 7)) := C03.stopAt_mono (some 7)

/-- `interrupted_or_natural` and `outputs_consistent` on the interrupted run, every hypothesis
    discharged (`FuelOK prq 1 9`, no fuel assumption) -/
example (sh : St ℚ Unit)
    (hh : C06Panoc.finalHead Pq dirNoop () prq (stopAt (some 7)) false [1] [] 0 0 = some sh) :
    (rq (some 7)).stats.status = .Interrupted ∨
    ((rq (some 7)).stats.status = .Converged ∧ (rq (some 7)).stats.eps ≤ effTol prq.tolerance) ∨
    ((rq (some 7)).stats.status = .MaxTime ∧ false = true) ∨
    ((rq (some 7)).stats.status = .MaxIter ∧ (rq (some 7)).stats.iterations = prq.maxIter) ∨
    ((rq (some 7)).stats.status = .NotFinite ∧ RealLike.isFinite (rq (some 7)).stats.eps = false) ∨
    ((rq (some 7)).stats.status = .NoProgress ∧ sh.noProgress > prq.maxNoProgress) :=
  interrupted_or_natural Pq dirNoop () prq (stopAt (some 7)) (C03.stopAt_mono (some 7)) 7
    (by decide) 1 9 C03.fuelOK_prq false [1] [] [] [] [] 0 0 sh hh (by decide +kernel)

example : ExitOK Pq [1] [] [] [] (rq (some 7)) :=
  outputs_consistent Pq dirNoop () prq (stopAt (some 7)) (C03.stopAt_mono (some 7)) 1 9
    C03.fuelOK_prq false [1] [] [] [] [] 0 0

/-- `fuel_suffices` for the small-`L₀` variant: `L_max = 4 ≤ (1/16)·2⁶`, `(6+1)(9+1) = 70 ≤ lsFuel` -/
example : (run Pq dirNoop () { prq with L0 := 1/16 } (stopAt (some 4)) false [1] [] [] [] [] 0 0).fuelOut
    = false :=
  fuel_suffices Pq dirNoop () { prq with L0 := 1/16 } (stopAt (some 4)) (C03.stopAt_mono (some 4)) 6 9
    (by refine ⟨?_, ?_, ?_, ?_, ?_, by norm_num, ?_, ?_⟩ <;> norm_num [prq, Lstart])
    false [1] [] [] [] [] 0 0

/-- flag visible from tick 7: the run ends Interrupted at tick 9 ≤ 7 + 7, still in iteration 0,
    while the undisturbed run takes 18 ticks and two iterations. -/
example : (rq (some 7)).stats.status = .Interrupted ∧ (rq (some 7)).ticks = 9 ∧
    (rq (some 7)).ticks ≤ max 8 (7 + 7) ∧
    (rq (some 7)).fuelOut = false ∧ (rq (some 7)).stats.iterations = 0 ∧
    (rq none).ticks = 18 ∧ (rq none).stats.iterations = 2 := by decide +kernel

/-- `L₀ = 1/16` (true curvature 1): the initial step-size loop backtracks 4 times (8 calls). -/
def rqSmall (t0 : Option Nat) : Result ℚ Unit :=
  run Pq dirNoop () { prq with L0 := 1/16 } (stopAt t0) false [1] [] [] [] [] 0 0

/-- a request landing inside the initialisation (flag visible from tick 4, i.e. during the first
    backtrack): the initial loop stops after that backtrack (1 instead of 4), the first head returns
    `Interrupted` at tick 6 ≤ max 8 (4 + 7) with the single final callback; undisturbed, the
    initialisation alone takes 11 calls. -/
example : (rqSmall (some 4)).stats.status = .Interrupted ∧ (rqSmall (some 4)).ticks = 6 ∧
    (rqSmall (some 4)).ticks ≤ max 8 (4 + 7) ∧ (rqSmall (some 4)).stats.stepsizeBacktracks = 1 ∧
    (rqSmall (some 4)).callbacks.length = 1 ∧ (rqSmall (some 4)).stats.iterations = 0 ∧
    (rqSmall (some 4)).fuelOut = false ∧
    (rqSmall none).stats.stepsizeBacktracks = 4 ∧ (rqSmall none).fuelOut = false ∧
    initTicks Pq () { prq with L0 := 1/16 } (stopAt none) [1] [] 0 0 = 11 ∧
    initTicks Pq () { prq with L0 := 1/16 } (stopAt (some 4)) [1] [] 0 0 = 5 := by decide +kernel

/-- a history of accesses as they occur in the source: once set, the flag stays set -/
example : flagAfter false [.load, .store (some true), .load, .store (some true), .load] = true := by
  decide

end examples

end Alpaqa.Props.C19Panoc
