/-
  C13 — PANOC-OCP `Converged` certifies input-constrained stationarity of the OCP.

  `ocp_converged_certifies` (any carrier, IEEE doubles included): for every evaluator oracle, every
  direction oracle — i.e. whatever the Gauss-Newton block and the masked L-BFGS object return, hence for
  every `gn_interval / gn_sticky / reset_lbfgs_on_gn_step / lqr_factor_cholesky` (these settings only
  select or parameterise the direction oracle and the scheduling the model computes itself) —, every stop
  schedule, budget and initial guess: if the solver returns `Converged` then
    * `write_solution` ran, the returned inputs are `û = u + p` of the final iterate `(γ, u, ∇ψ, p)`, where
      `p` is the projected-gradient step `Π_U(u − γ∇ψ) − u` and `∇ψ` is the backward oracle's answer on the
      forward oracle's roll-out of `u` (`Good`);
    * the reported ε is the generated criterion `calcErrorStopCritOcp` of that final iterate and
      `ε ≤ tolerance'` (`tolerance' = tolerance > 0 ? tolerance : 1e-8`, the chain's effective tolerance);
    * the returned `y`, `err_z` are `write_solution`'s formulas on the constraint values of the forward
      roll-out of the returned inputs (C03_Ocp).
  Over a linearly ordered field (`ocp_converged_certifies_real`, all six supported criteria, explicit fuel
  bound `FuelOK` instead of `fuelOut = false`): the returned inputs lie in `U` and are
  `û = Π_U(u − γ∇ψ(u))` for the *certified point* `u` = the `u` of the iterate that was current at exit
  (`Result.final`), and the documented stationarity measure of the selected criterion **at `u`** —
  `‖u − Π_U(u − γ∇ψ(u))‖∞` (ProjGradNorm), its 2-norm (ProjGradNorm2, stage-accumulated sum of squares =
  `Σ vᵢ²` for `N·nu` entries), the same with `γ = 1` (ProjGradUnitNorm, ProjGradUnitNorm2), the same divided
  by `γ` (FPRNorm, FPRNorm2) — is within `tolerance'` (`CritWithin`).  The measure at the *returned* point `û`
  is not bounded by the tolerance: open finding `C13:residual-at-returned-point-exceeds-tolerance`.
  One-sided / unbounded input boxes: `ocp_converged_certifies_real_ext` (extended bounds `Option α`, finite
  stand-ins that are far enough for the certified step, `Props/C03_Ocp.FarAt`).
  What makes "∇ψ" the true gradient of the true cost is C12 (`forward` / `backward` oracles).
-/
import Alpaqa.Props.C03_Ocp
import Alpaqa.Props.C06_Ocp
import Alpaqa.Proofs.C06Spec
import Alpaqa.Proofs.C08Scalar
import Alpaqa.Proofs.OcpDoc
import Alpaqa.Proofs.OcpSized
import Alpaqa.Proofs.OcpWrite
import Mathlib.Analysis.Real.Sqrt

namespace Alpaqa.Props.C13
open Alpaqa Alpaqa.Ocp Alpaqa.Gen Alpaqa.Props
set_option linter.unusedSectionVars false
set_option linter.unusedVariables false

/-! ### Structural certificate (any carrier) -/
section structural
variable {α D : Type} [Add α] [Sub α] [Mul α] [Div α] [Neg α] [LT α] [LE α] [DecidableLT α]
  [DecidableLE α] [BEq α] [RealLike α] [NatCast α] [OfScientific α]
  [OfNat α 0] [OfNat α 1] [OfNat α 2] [OfNat α 100]

/-- What `Converged` certifies about the final iterate `it` and the outputs. -/
structure Certificate (O : Oracles α) (P : Prob α) (pr : Params α) (y mu errz0 : Vec α)
    (r : Result α D) (it : Iterate α) : Prop where
  /-- the final iterate is consistent: roll-out, gradient, projected-gradient step, x̂u -/
  good : Good O P it
  final : r.final = some it
  wrote : r.wrote = true
  /-- the returned inputs are `û` of the final iterate -/
  u_out : r.u = it.uhat
  /-- multipliers / constraint error belong to the returned inputs -/
  y_e_out : (r.u, r.y, r.errz) = writeSolution P r.u (O.fwd r.u).2 y mu errz0
  /-- ε is the generated criterion of the final iterate -/
  eps_crit : epsOf P pr it = some r.stats.eps
  /-- and it meets the effective tolerance -/
  eps_le : r.stats.eps ≤ C06.effTol pr.tolerance

/-- **`Converged` certifies.**  For all oracles (all Gauss-Newton / L-BFGS schedules), stop schedules,
    budgets, initial guesses. -/
theorem ocp_converged_certifies (O : Oracles α) (dir : Dir D α) (P : Prob α) (d0 : D) (pr : Params α)
    (stop : Nat → Bool) (oot : Bool) (u0 y mu errz0 gV gQ : Vec α) (gS e0 : α)
    (hτ : TauSentinelOK α)
    (hfuel : (run O dir P d0 pr stop oot u0 y mu errz0 gV gQ gS e0).fuelOut = false)
    (hconv : (run O dir P d0 pr stop oot u0 y mu errz0 gV gQ gS e0).stats.status = .Converged) :
    ∃ it : Iterate α,
      Certificate O P pr y mu errz0 (run O dir P d0 pr stop oot u0 y mu errz0 gV gQ gS e0) it := by
  rcases C06_Ocp.ocp_run_cases O dir P d0 pr stop oot u0 y mu errz0 gV gQ gS e0 hτ hfuel with h | h | h
  · rw [h.1] at hconv; exact absurd hconv (by decide)
  · -- an exception leaves the default status `Busy`
    exfalso
    revert h hconv
    unfold run
    cases hi : initState O P d0 pr stop u0 gV gQ gS e0 with
    | inl t => simp
    | inr s =>
      simp only []
      intro hc hne
      have := mainLoop_exc_status O dir P pr stop oot u0 y mu errz0 (pr.maxIter + 2) s
        (initState_status O P d0 pr stop u0 gV gQ gS e0 s hi) hne
      rw [this] at hc; exact absurd hc (by decide)
  · obtain ⟨sh, eps, status, hg, hk, he, hst, hnb, hr⟩ := h
    have hexit := (C03_Ocp.ocp_exit_contract O dir P d0 pr stop oot u0 y mu errz0 gV gQ gS e0 hτ hfuel).1
    generalize run O dir P d0 pr stop oot u0 y mu errz0 gV gQ gS e0 = r at *
    have hstat : status = .Converged := by rw [hr] at hconv; simpa [exitBlock] using hconv
    have hw : r.wrote = true := by rw [hr]; simp [exitBlock, hstat]
    refine ⟨sh.curr, hg, ?_, hw, ?_, (hexit hw).2, ?_, ?_⟩
    · rw [hr]; simp [exitBlock]
    · rw [hr]; simp only [exitBlock]; rw [if_pos (by simp [hstat])]; exact writeSolution_u _ _ _ _ _ _
    · rw [hr]; simpa [exitBlock] using he
    · have : r.stats.eps = eps := by rw [hr]; simp [exitBlock]
      rw [this]
      rw [hstat] at hst
      exact (C06_Ocp.ocp_converged_iff _ _ _ _ _ _ _ _).mp hst.symm
where
  /-- the statistics start with status `Busy` and keep it until the exit block -/
  initState_status (O : Oracles α) (P : Prob α) (d0 : D) (pr : Params α) (stop : Nat → Bool)
      (u0 gV gQ : Vec α) (gS e0 : α)
      (s : St α D) (h : initState O P d0 pr stop u0 gV gQ gS e0 = .inr s) : s.stats.status = .Busy := by
    unfold initState at h
    simp only [] at h
    split_ifs at h
    injection h with h
    subst h
    rfl
  iterBody_status (O : Oracles α) (dir : Dir D α) (P : Prob α) (pr : Params α) (stop : Nat → Bool)
      (s : St α D) (eps : α) (h : s.stats.status = .Busy) :
      (iterBody O dir P pr stop s eps).1.stats.status = .Busy := by
    unfold iterBody
    simp only []
    split_ifs
    · exact h
    · exact h
    · unfold acceptStep; exact h
  mainLoop_exc_status (O : Oracles α) (dir : Dir D α) (P : Prob α) (pr : Params α) (stop : Nat → Bool)
      (oot : Bool) (u0 y mu errz0 : Vec α) (fuel : Nat) (s : St α D) (h : s.stats.status = .Busy)
      (hx : (mainLoop O dir P pr stop oot u0 y mu errz0 fuel s).exc ≠ .none) :
      (mainLoop O dir P pr stop oot u0 y mu errz0 fuel s).stats.status = .Busy := by
    induction fuel generalizing s with
    | zero => simp [mainLoop, excResult] at hx
    | succ f ih =>
      unfold mainLoop at hx ⊢
      have hh : (headStep P pr stop oot s).1.stats = s.stats := by
        unfold headStep; simp only []; split <;> rfl
      cases hes : (headStep P pr stop oot s).2 with
      | none => simp only [excResult]; rw [hh]; exact h
      | some es =>
        simp only [hes] at hx ⊢
        split_ifs at hx ⊢
        · simp [exitBlock] at hx
        · simp only [excResult]
          exact iterBody_status O dir P pr stop _ es.1 (by rw [hh]; exact h)
        · exact ih _ (iterBody_status O dir P pr stop _ es.1 (by rw [hh]; exact h)) hx

end structural

/-! ### Real-number reading (every linearly ordered field) -/
section field
variable {α : Type} [Field α] [LinearOrder α] [IsStrictOrderedRing α] [RealLike α]

open C06Spec

/-- **`Converged` certifies, real-number reading — all six criteria PANOC-OCP supports.**
    Over a linearly ordered field (no NaN), for a non-empty input box, under the explicit fuel bound
    `FuelOK` (no `fuelOut` hypothesis), for all evaluator / direction oracles (Gauss-Newton steps always,
    periodically or never), stop schedules, budgets, initial guesses: if the solver returns `Converged`
    the iterate `it` that was current at exit (`Result.final`) has a step size `γ = it.γ` and a point
    `u = it.u` — the **certified point**, the solver's last iterate `u_k` — such that with
    `∇ψ(u) = it.∇ψ` = the backward oracle on the forward roll-out of `u`:
    * the **returned** inputs are `û = Π_U(u − γ∇ψ(u))` (in general `≠ u`) and lie in `U`;
    * the documented stationarity measure of the selected criterion **at `u`** (not at the returned `û`:
      open finding `C13:residual-at-returned-point-exceeds-tolerance`) is within the effective tolerance
      (`CritWithin`: `‖u − Π_U(u − γ∇ψ)‖∞`, `…‖₂`, the same with `γ = 1`, the same divided by `γ`);
    * the criterion is one of the six supported ones. -/
theorem ocp_converged_certifies_real {D : Type} (hnn : ∀ x : α, RealLike.isNaN x = false)
    (O : Oracles α) (dir : Dir D α) (P : Prob α) (d0 : D) (pr : Params α)
    (stop : Nat → Bool) (oot : Bool) (u0 y mu errz0 gV gQ : Vec α) (gS e0 : α)
    (hU : C03_Ocp.BoxOK P.Ulb P.Uub) (hUl : P.Ulb.length = P.Uub.length)
    (nL nτ : Nat) (hp : FuelOK pr nL nτ)
    (hconv : (run O dir P d0 pr stop oot u0 y mu errz0 gV gQ gS e0).stats.status = .Converged) :
    C03_Ocp.InBoxV (tile P.N P.Ulb) (tile P.N P.Uub)
      (run O dir P d0 pr stop oot u0 y mu errz0 gV gQ gS e0).u ∧
    ∃ it : Iterate α,
      (run O dir P d0 pr stop oot u0 y mu errz0 gV gQ gS e0).final = some it ∧
      it.gradPsi = O.bwd it.u (O.fwd it.u).2 ∧
      (run O dir P d0 pr stop oot u0 y mu errz0 gV gQ gS e0).u =
        projGradV it.gamma it.u it.gradPsi (tile P.N P.Ulb) (tile P.N P.Uub) ∧
      CritWithin P pr.stopCrit it.gamma it.u it.gradPsi (C06.effTol pr.tolerance) ∧
      (run O dir P d0 pr stop oot u0 y mu errz0 gV gQ gS e0).stats.eps ≤ C06.effTol pr.tolerance := by
  have hfuel := run_fuelOut_false O dir P d0 pr stop oot u0 y mu errz0 gV gQ gS e0 nL nτ hp
  obtain ⟨it, hc⟩ := ocp_converged_certifies O dir P d0 pr stop oot u0 y mu errz0 gV gQ gS e0
    C03_Ocp.tauSentinelOK hfuel hconv
  refine ⟨C03_Ocp.ocp_u_out_in_U hnn O dir P d0 pr stop oot u0 y mu errz0 gV gQ gS e0 hU hUl nL nτ hp hc.wrote,
    it, hc.final, by rw [hc.good.1.2.2, hc.good.1.1], ?_,
    epsOf_eq_doc hnn P pr it hc.good.2.1 _ hc.eps_crit _ hc.eps_le, hc.eps_le⟩
  rw [hc.u_out]
  have h1 : it.uhat = (evalProxImpl P it.gamma it.u it.gradPsi).1 := congrArg Prod.fst hc.good.2.1
  rw [h1, ← projStepV_eq_proj hnn]
  rfl

/-- **The 2-norm criteria in sum-of-squares form** (lawful square root): `CritWithin` for `ProjGradNorm2`
    / `ProjGradUnitNorm2` means `tol ≥ 0` and `Σ_stages ‖rₜ‖² ≤ tol²` for the residual `r = u − Π_U(u − γ∇ψ)`
    (`γ = 1` for the unit variant); for `FPRNorm2` with `γ > 0`: `Σ ‖rₜ‖² ≤ (γ·tol)²`.  With
    `stageSumSq_eq_sumSq` the left-hand side is `Σᵢ rᵢ²` for residuals of `N·nu` entries. -/
theorem critWithin_two_norm (hs : Alpaqa.C08.LawfulSqrt α) (P : Prob α) (γ : α) (u g : Vec α) (tol : α) :
    (CritWithin P .ProjGradNorm2 γ u g tol →
      0 ≤ tol ∧ stageSumSq P (docRes γ u g (tile P.N P.Ulb) (tile P.N P.Uub)) ≤ tol ^ 2) ∧
    (CritWithin P .ProjGradUnitNorm2 γ u g tol →
      0 ≤ tol ∧ stageSumSq P (docRes 1 u g (tile P.N P.Ulb) (tile P.N P.Uub)) ≤ tol ^ 2) ∧
    (0 < γ → CritWithin P .FPRNorm2 γ u g tol →
      0 ≤ tol ∧ stageSumSq P (docRes γ u g (tile P.N P.Ulb) (tile P.N P.Uub)) ≤ (γ * tol) ^ 2) := by
  refine ⟨fun h => sqrt_le_iff_sq hs _ _ (stageSumSq_nonneg _ _) h,
    fun h => sqrt_le_iff_sq hs _ _ (stageSumSq_nonneg _ _) h, fun hγ h => ?_⟩
  unfold CritWithin at h
  simp only [] at h
  have h' : RealLike.sqrt (stageSumSq P (docRes γ u g (tile P.N P.Ulb) (tile P.N P.Uub))) ≤ γ * tol := by
    rw [inv_mul_le_iff₀ hγ] at h; exact h
  have := sqrt_le_iff_sq hs _ _ (stageSumSq_nonneg _ _) h'
  refine ⟨?_, this.2⟩
  by_contra hneg
  have : γ * tol < 0 := mul_neg_of_pos_of_neg hγ (not_le.mp hneg)
  linarith [this, ‹0 ≤ γ * tol ∧ _›.1]

/-! #### Sizes: the 2-norm is `√(Σᵢ rᵢ²)`, the multipliers / errors on the flat vectors -/

/-- **Under the size contract of the oracles the certified iterate is full-sized and the stage-accumulated
    sum of squares of the criterion is the plain sum of squares of the residual**: with `SizeContract`
    (`Proofs/OcpSized`: gradient / direction oracles return `N·nu` entries, `nu` bounds per stage — what the
    C++ asserts) and an initial guess of `N·nu` entries, the iterate `it` of the final callback of every
    solve that returned from a loop head has `u`, `∇ψ`, `p`, `û` of `N·nu` entries, and for every `γ'`
    (`γ' = it.γ` and `γ' = 1` are the ones the criteria use)
    `stageSumSq P (docRes γ' it.u it.∇ψ) = Σᵢ (docRes γ' it.u it.∇ψ)ᵢ²`. -/
theorem ocp_final_sized {D : Type} (hnn : ∀ x : α, RealLike.isNaN x = false)
    (O : Oracles α) (dir : Dir D α) (P : Prob α) (d0 : D) (pr : Params α)
    (hc : SizeContract O dir P) (stop : Nat → Bool) (oot : Bool) (u0 y mu errz0 gV gQ : Vec α) (gS e0 : α)
    (hu0 : u0.length = P.N * P.nu) (nL nτ : Nat) (hp : FuelOK pr nL nτ) (cb : Callback α)
    (hcb : (run O dir P d0 pr stop oot u0 y mu errz0 gV gQ gS e0).callbacks.getLast? = some cb) :
    ItSized P cb.it ∧
    ∀ γ' : α, stageSumSq P (docRes γ' cb.it.u cb.it.gradPsi (tile P.N P.Ulb) (tile P.N P.Uub)) =
      sumSq (docRes γ' cb.it.u cb.it.gradPsi (tile P.N P.Ulb) (tile P.N P.Uub)) := by
  have hmem : cb ∈ (run O dir P d0 pr stop oot u0 y mu errz0 gV gQ gS e0).callbacks :=
    List.mem_of_getLast? hcb
  have hs := (run_callbacks_sized O dir P d0 pr hc nL nτ hp stop oot u0 y mu errz0 gV gQ gS e0 hu0 cb hmem).2
  refine ⟨hs, fun γ' => stageSumSq_eq_sumSq P _ ?_⟩
  have hl : (tile P.N P.Ulb).length = P.N * P.nu := by unfold tile; rw [tile_length, hc.ulb]
  have hh : (tile P.N P.Uub).length = P.N * P.nu := by unfold tile; rw [tile_length, hc.uub]
  have := congrArg List.length (docRes_abs hnn γ' cb.it.u cb.it.gradPsi (tile P.N P.Ulb) (tile P.N P.Uub))
  rw [List.length_map, List.length_map] at this
  rw [this]
  exact projStepV_length _ _ _ _ _ _ hs.u hs.g hl hh

/-- **The returned multipliers and constraint errors, on the flat vectors handed back** ("satisfy the same
    relations as for the general solvers"): whenever results are written, under the size relations the C++
    asserts (`WriteSized`: `|y| = |μ| = N·nc + nc_N`, `|D| = nc`, `|D_N| = nc_N`, `nc` / `nc_N` constraint
    values stored per stage by the forward roll-out *of the returned inputs*) and nonzero penalties, the
    returned `y`, `err_z` have `N·nc + nc_N` entries (no truncation) and, entry by entry (`i = nc·t + j`),
    `err_z[i] = c_t[j] − Π_D(c_t[j] + y_in[i]/μ[i])`, `y_out[i] = y_in[i] + μ[i]·err_z[i]`,
    with `c_t` the constraint values of the independent roll-out `forward(u_out)`. -/
theorem ocp_y_errz_flat {D : Type} (O : Oracles α) (dir : Dir D α) (P : Prob α) (d0 : D) (pr : Params α)
    (stop : Nat → Bool) (oot : Bool) (u0 y mu errz0 gV gQ : Vec α) (gS e0 : α)
    (nL nτ : Nat) (hp : FuelOK pr nL nτ)
    (hw : (run O dir P d0 pr stop oot u0 y mu errz0 gV gQ gS e0).wrote = true)
    (hs : WriteSized P (O.fwd (run O dir P d0 pr stop oot u0 y mu errz0 gV gQ gS e0).u).2 y mu)
    (hm : ∀ x ∈ mu, x ≠ 0) :
    (run O dir P d0 pr stop oot u0 y mu errz0 gV gQ gS e0).y.length = P.nc * P.N + P.ncN ∧
    (run O dir P d0 pr stop oot u0 y mu errz0 gV gQ gS e0).errz.length = P.nc * P.N + P.ncN ∧
    (∀ t < P.N, ∀ j < P.nc,
      (run O dir P d0 pr stop oot u0 y mu errz0 gV gQ gS e0).errz.getD (P.nc * t + j) 0 =
        specE ((P.ck (O.fwd (run O dir P d0 pr stop oot u0 y mu errz0 gV gQ gS e0).u).2 t).getD j 0)
          (y.getD (P.nc * t + j) 0) (mu.getD (P.nc * t + j) 0) (P.Dlb.getD j 0) (P.Dub.getD j 0) ∧
      (run O dir P d0 pr stop oot u0 y mu errz0 gV gQ gS e0).y.getD (P.nc * t + j) 0 =
        y.getD (P.nc * t + j) 0 + mu.getD (P.nc * t + j) 0 *
          (run O dir P d0 pr stop oot u0 y mu errz0 gV gQ gS e0).errz.getD (P.nc * t + j) 0) ∧
    (∀ j < P.ncN,
      (run O dir P d0 pr stop oot u0 y mu errz0 gV gQ gS e0).errz.getD (P.nc * P.N + j) 0 =
        specE ((P.ck (O.fwd (run O dir P d0 pr stop oot u0 y mu errz0 gV gQ gS e0).u).2 P.N).getD j 0)
          (y.getD (P.nc * P.N + j) 0) (mu.getD (P.nc * P.N + j) 0) (P.DNlb.getD j 0) (P.DNub.getD j 0) ∧
      (run O dir P d0 pr stop oot u0 y mu errz0 gV gQ gS e0).y.getD (P.nc * P.N + j) 0 =
        y.getD (P.nc * P.N + j) 0 + mu.getD (P.nc * P.N + j) 0 *
          (run O dir P d0 pr stop oot u0 y mu errz0 gV gQ gS e0).errz.getD (P.nc * P.N + j) 0) := by
  have h := ((C03_Ocp.ocp_exit_contract_fuelOK O dir P d0 pr stop oot u0 y mu errz0 gV gQ gS e0 nL nτ hp).1 hw).2
  have hf := writeSolution_flat P (run O dir P d0 pr stop oot u0 y mu errz0 gV gQ gS e0).u
    (O.fwd (run O dir P d0 pr stop oot u0 y mu errz0 gV gQ gS e0).u).2 y mu errz0 hs hm
  have hy : (run O dir P d0 pr stop oot u0 y mu errz0 gV gQ gS e0).y =
      (writeSolution P (run O dir P d0 pr stop oot u0 y mu errz0 gV gQ gS e0).u
        (O.fwd (run O dir P d0 pr stop oot u0 y mu errz0 gV gQ gS e0).u).2 y mu errz0).2.1 :=
    congrArg (fun t => t.2.1) h
  have he : (run O dir P d0 pr stop oot u0 y mu errz0 gV gQ gS e0).errz =
      (writeSolution P (run O dir P d0 pr stop oot u0 y mu errz0 gV gQ gS e0).u
        (O.fwd (run O dir P d0 pr stop oot u0 y mu errz0 gV gQ gS e0).u).2 y mu errz0).2.2 :=
    congrArg (fun t => t.2.2) h
  rw [hy, he]
  exact hf

/-! #### One-sided / unbounded input boxes (`Props/C03_Ocp`: `BndSpec`, `FarAt`, `IsClampO`) -/

/-- **`Converged` certifies, for input boxes with infinite sides.**  `bs` gives, per input component,
    the extended bounds (`none` = `∓∞`) and the finite stand-ins the field model computes with
    (`P.Ulb = bs.map lbF`, `P.Uub = bs.map ubF`).  Then, with `(γ, u)` the certified point as in
    `ocp_converged_certifies_real`:
    * the returned inputs are `u + p`, the documented measure (computed with the stand-ins) is within the
      tolerance at `u`;
    * where the stand-ins are far enough for the step `u − γ∇ψ(u)` (`FarAt γ`: what makes the finite
      `fmin/fmax` agree with IEEE `∓inf` arithmetic; automatic for finite bounds), the returned inputs are
      the componentwise projection onto the *extended* box, lie in it, and the residual vector of the
      measure is `u − Π_{U°}(u − γ∇ψ(u))`;
    * likewise for the unit step of `ProjGradUnitNorm(2)` under `FarAt 1`. -/
theorem ocp_converged_certifies_real_ext {D : Type} (hnn : ∀ x : α, RealLike.isNaN x = false)
    (O : Oracles α) (dir : Dir D α) (P : Prob α) (d0 : D) (pr : Params α)
    (stop : Nat → Bool) (oot : Bool) (u0 y mu errz0 gV gQ : Vec α) (gS e0 : α)
    (bs : List (C03_Ocp.BndSpec α)) (hlb : P.Ulb = bs.map C03_Ocp.lbF) (hub : P.Uub = bs.map C03_Ocp.ubF)
    (hok : ∀ b ∈ bs, C15.BoxOK b.1 b.2.1) (nL nτ : Nat) (hp : FuelOK pr nL nτ)
    (hconv : (run O dir P d0 pr stop oot u0 y mu errz0 gV gQ gS e0).stats.status = .Converged) :
    ∃ it : Iterate α,
      (run O dir P d0 pr stop oot u0 y mu errz0 gV gQ gS e0).final = some it ∧
      it.gradPsi = O.bwd it.u (O.fwd it.u).2 ∧
      (run O dir P d0 pr stop oot u0 y mu errz0 gV gQ gS e0).u =
        projGradV it.gamma it.u it.gradPsi (tile P.N P.Ulb) (tile P.N P.Uub) ∧
      CritWithin P pr.stopCrit it.gamma it.u it.gradPsi (C06.effTol pr.tolerance) ∧
      (C03_Ocp.FarAt it.gamma ((List.replicate P.N bs).flatten) it.u it.gradPsi →
        C03_Ocp.IsClampO it.gamma ((List.replicate P.N bs).flatten) it.u it.gradPsi
          (run O dir P d0 pr stop oot u0 y mu errz0 gV gQ gS e0).u ∧
        docRes it.gamma it.u it.gradPsi (tile P.N P.Ulb) (tile P.N P.Uub) =
          vsub it.u (run O dir P d0 pr stop oot u0 y mu errz0 gV gQ gS e0).u) ∧
      (C03_Ocp.FarAt 1 ((List.replicate P.N bs).flatten) it.u it.gradPsi →
        C03_Ocp.IsClampO 1 ((List.replicate P.N bs).flatten) it.u it.gradPsi
          (projGradV 1 it.u it.gradPsi (tile P.N P.Ulb) (tile P.N P.Uub))) := by
  have hfuel := run_fuelOut_false O dir P d0 pr stop oot u0 y mu errz0 gV gQ gS e0 nL nτ hp
  obtain ⟨it, hc⟩ := ocp_converged_certifies O dir P d0 pr stop oot u0 y mu errz0 gV gQ gS e0
    C03_Ocp.tauSentinelOK hfuel hconv
  have e1 : tile P.N P.Ulb = ((List.replicate P.N bs).flatten).map C03_Ocp.lbF := by
    unfold tile; rw [hlb]; exact C03_Ocp.tile_map P.N C03_Ocp.lbF bs
  have e2 : tile P.N P.Uub = ((List.replicate P.N bs).flatten).map C03_Ocp.ubF := by
    unfold tile; rw [hub]; exact C03_Ocp.tile_map P.N C03_Ocp.ubF bs
  have hokT : ∀ b ∈ (List.replicate P.N bs).flatten, C15.BoxOK b.1 b.2.1 := by
    intro b hb
    rw [List.mem_flatten] at hb
    obtain ⟨l, hl, hbl⟩ := hb
    rw [List.mem_replicate] at hl
    rw [hl.2] at hbl
    exact hok b hbl
  have hu : (run O dir P d0 pr stop oot u0 y mu errz0 gV gQ gS e0).u =
      projGradV it.gamma it.u it.gradPsi (tile P.N P.Ulb) (tile P.N P.Uub) := by
    rw [hc.u_out]
    have h1 : it.uhat = (evalProxImpl P it.gamma it.u it.gradPsi).1 := congrArg Prod.fst hc.good.2.1
    rw [h1, ← projStepV_eq_proj hnn]
    rfl
  refine ⟨it, hc.final, by rw [hc.good.1.2.2, hc.good.1.1], hu,
    epsOf_eq_doc hnn P pr it hc.good.2.1 _ hc.eps_crit _ hc.eps_le, ?_, ?_⟩
  · intro hfar
    refine ⟨?_, by rw [hu]; rfl⟩
    rw [hu, ← projStepV_eq_proj hnn, e1, e2]
    exact C03_Ocp.projStepV_clampO hnn _ _ _ _ hokT hfar
  · intro hfar
    rw [← projStepV_eq_proj hnn, e1, e2]
    exact C03_Ocp.projStepV_clampO hnn _ _ _ _ hokT hfar

end field

/-! ### Non-vacuity -/
section examples
local instance ratRealLike : RealLike ℚ := ⟨id, fun _ => false, fun _ => true⟩

/-- one stage, one input in `[-1, 1]`, `u = 1/2`, `∇ψ = -2`, `γ = 1`: `p = 1/2`, criterion `‖p‖∞ = 1/2`,
    which meets a tolerance of 1 and not one of 1/4. -/
example :
    let P : Prob ℚ := { N := 1, nx := 1, nu := 1, nh := 0, nc := 0, nhN := 0, ncN := 0,
                        Ulb := [-1], Uub := [1], Dlb := [], Dub := [], DNlb := [], DNub := [] }
    (evalProxImpl P 1 [1/2] [-2]) = ([1], [1/2], 1/4, -1) := by
  simp [evalProxImpl, projStepV, projStep1, tile, stages, fminS, fmaxS, RealLike.isNaN, vadd, vzip, sqNorm,
    dot, vsum, vmul, redux]
  norm_num
example : C06.effTol (0 : ℚ) = 1e-8 ∧ C06.effTol (1 : ℚ) = 1 := by
  constructor <;> simp [C06.effTol]
end examples

/-! ### Non-vacuity on concrete runs of `Ocp.run` (`Proofs/OcpExample`) -/
section run_examples
open Alpaqa.Ocp.Example

theorem fuelOK_prC (c : PANOCStopCrit) : FuelOK (prC c) 23 9 :=
  ⟨by norm_num [prC, prA], by norm_num [prC, prA], by norm_num [prC, prA], fun _ => by norm_num [prC, prA],
    by norm_num [prC, prA], by norm_num [prC, prA]⟩

/-- the L-BFGS run `rC` with tolerance `1/10`, for each of the three ∞-norm criteria: `Converged` after two
    iterations (ProjGradNorm: ε = ‖p‖∞ = 80579/1024000; FPRNorm: four iterations), model fuel not exhausted,
    and the returned `û` differs from the certified `u` -/
example : (rC .ProjGradNorm none).stats.status = .Converged ∧ (rC .ProjGradNorm none).stats.iterations = 2 ∧
    (rC .ProjGradNorm none).stats.eps = 80579/1024000 ∧ (rC .ProjGradNorm none).fuelOut = false ∧
    (rC .ProjGradNorm none).u = [131741/1024000, -2381/25600] ∧
    (rC .ProjGradNorm none).final.map (·.u) = some [1327/6400, -1067/12800] := by
  decide +kernel
example : (rC .FPRNorm none).stats.status = .Converged ∧ (rC .FPRNorm none).stats.iterations = 4 ∧
    (rC .ProjGradUnitNorm none).stats.status = .Converged ∧
    (rC .ProjGradNorm2 none).stats.status = .Converged ∧ (rC .ProjGradUnitNorm2 none).stats.status = .Converged ∧
    (rC .FPRNorm2 none).stats.status = .Converged := by
  decide +kernel

/-- all hypotheses of `ocp_converged_certifies` / `ocp_converged_certifies_real` instantiated, for every
    supported criterion `c` (`decide` evaluates the six runs) -/
example (c : PANOCStopCrit)
    (hc : c ∈ [PANOCStopCrit.ProjGradNorm, .ProjGradNorm2, .ProjGradUnitNorm, .ProjGradUnitNorm2, .FPRNorm, .FPRNorm2]) :
    ∃ it : Iterate ℚ, (rC c none).final = some it ∧ it.gradPsi = OA.bwd it.u (OA.fwd it.u).2 ∧
      (rC c none).u = projGradV it.gamma it.u it.gradPsi (tile PA.N PA.Ulb) (tile PA.N PA.Uub) ∧
      CritWithin PA (prC c).stopCrit it.gamma it.u it.gradPsi (C06.effTol (prC c).tolerance) ∧
      (rC c none).stats.eps ≤ C06.effTol (prC c).tolerance :=
  (ocp_converged_certifies_real (fun _ => rfl) OA (dirOf 1 3) PA () (prC c) (stopAt none) false [1, 1/2]
    [] [] [] [] [] 0 0 (by simp [PA, C03_Ocp.BoxOK]) rfl 23 9 (fuelOK_prC c)
    (by
      simp only [List.mem_cons, List.mem_nil_iff, or_false] at hc
      rcases hc with rfl | rfl | rfl | rfl | rfl | rfl <;> decide +kernel)).2

/-- the Gauss-Newton run with a stage constraint (`rB`): structural certificate -/
example : ∃ it : Iterate ℚ, Certificate OB PB prB yB muB [0, 0] (rB none) it :=
  ocp_converged_certifies OB (dirOf 1 4) PB () prB (stopAt none) false [1, 1/2] yB muB [0, 0] [] [] 0 0
    (by constructor <;> decide) (by decide +kernel) (by decide +kernel)

/-- the size contract holds for the example oracles (`N·nu = 2`) -/
theorem sizeContract_A : SizeContract OA (dirOf 1 3) PA :=
  ⟨rfl, rfl, fun _ _ _ => rfl, fun _ _ _ _ _ => rfl,
    fun _ q _ _ hq => by show (smul _ q).length = _; rw [smul_length]; exact hq⟩

/-- `ocp_final_sized` instantiated on the `ProjGradNorm2` run: the certified iterate is full-sized and the
    criterion's `pᵀp` is `Σᵢ rᵢ²` -/
example (cb : Callback ℚ) (hcb : (rC .ProjGradNorm2 none).callbacks.getLast? = some cb) :
    ItSized PA cb.it :=
  (ocp_final_sized (fun _ => rfl) OA (dirOf 1 3) PA () (prC .ProjGradNorm2) sizeContract_A (stopAt none) false
    [1, 1/2] [] [] [] [] [] 0 0 rfl 23 9 (fuelOK_prC _) cb hcb).1
example : ((rC .ProjGradNorm2 none).callbacks.getLast?).map (fun cb => cb.it.u.length) = some 2 := by
  decide +kernel

/-- `ocp_y_errz_flat` instantiated on the run with a stage constraint (`rB`): `WriteSized` holds
    (`|y| = |μ| = 2 = N·nc`, one stored constraint value per stage), the penalties are nonzero -/
example : (rB none).y.length = 2 ∧ (rB none).errz.length = 2 ∧
    (rB none).errz.getD 0 0 = specE ((PB.ck (OB.fwd (rB none).u).2 0).getD 0 0) (yB.getD 0 0) (muB.getD 0 0)
      (PB.Dlb.getD 0 0) (PB.Dub.getD 0 0) ∧
    (rB none).y.getD 1 0 = yB.getD 1 0 + muB.getD 1 0 * (rB none).errz.getD 1 0 := by
  have h := ocp_y_errz_flat OB (dirOf 1 4) PB () prB (stopAt none) false [1, 1/2] yB muB [0, 0] [] [] 0 0
    23 9 C03_Ocp.fuelOK_prB (by decide +kernel)
    { y := rfl, mu := rfl, dlb := rfl, dub := rfl, dnlb := rfl, dnub := rfl,
      ck := fun t ht => by
        have : t = 0 ∨ t = 1 := by have : t < 2 := ht; omega
        rcases this with rfl | rfl <;> decide +kernel,
      ckN := by decide +kernel, some := rfl }
    (by intro x hx; simp [muB] at hx; subst hx; norm_num)
  exact ⟨h.1, h.2.1, (h.2.2.1 0 (by decide) 0 (by decide)).1, (h.2.2.1 1 (by decide) 0 (by decide)).2⟩

/-- a one-sided input box `U = [-1, +∞)`, represented with the stand-in `1000` for `+∞`: the run is the same
    as with `[-1, 1]` as long as the stand-in is far enough for every step taken; at the certified iterate
    `FarAt` holds, so the returned inputs are the projection onto the extended box -/
def PAinf : Prob ℚ := { PA with Uub := [1000] }
def bsInf : List (C03_Ocp.BndSpec ℚ) := [(some (-1), none, -1, 1000)]
def rInf : Result ℚ Unit :=
  run OA (dirOf 1 3) PAinf () (prC .ProjGradNorm) (stopAt none) false [1, 1/2] [] [] [] [] [] 0 0

example : rInf.stats.status = .Converged ∧
    rInf.final.map (fun it => (it.gamma, it.u, it.gradPsi)) =
      some (19/80, [1327/6400, -1067/12800], [4241/12800, 13/320]) := by
  decide +kernel

example : ∃ it : Iterate ℚ, rInf.final = some it ∧
    C03_Ocp.FarAt it.gamma ((List.replicate PAinf.N bsInf).flatten) it.u it.gradPsi ∧
    C03_Ocp.IsClampO it.gamma ((List.replicate PAinf.N bsInf).flatten) it.u it.gradPsi rInf.u := by
  obtain ⟨it, h1, _, _, _, h5, _⟩ := ocp_converged_certifies_real_ext (fun _ => rfl) OA (dirOf 1 3) PAinf ()
    (prC .ProjGradNorm) (stopAt none) false [1, 1/2] [] [] [] [] [] 0 0 bsInf rfl rfl
    (by intro b hb; simp [bsInf] at hb; subst hb; intro l h hl hh; simp at hh) 23 9 (fuelOK_prC _)
    (by decide +kernel)
  have hv : rInf.final.map (fun it => (it.gamma, it.u, it.gradPsi)) =
      some (19/80, [1327/6400, -1067/12800], [4241/12800, 13/320]) := by decide +kernel
  have h1' : rInf.final = some it := h1
  rw [h1'] at hv
  simp only [Option.map_some, Option.some.injEq, Prod.mk.injEq] at hv
  obtain ⟨hg, hu, hgr⟩ := hv
  have hfar : C03_Ocp.FarAt it.gamma ((List.replicate PAinf.N bsInf).flatten) it.u it.gradPsi := by
    rw [hg, hu, hgr]
    have e : (List.replicate PAinf.N bsInf).flatten =
        [(some (-1), none, -1, 1000), (some (-1), none, -1, 1000)] := by decide +kernel
    rw [e]
    refine ⟨⟨rfl, ?_⟩, ⟨rfl, ?_⟩, trivial⟩ <;> simp only [C15.maxLbO] <;> norm_num
  exact ⟨it, h1, hfar, (h5 hfar).1⟩

end run_examples

/-! ### Non-vacuity of the 2-norm reading over `ℝ` (lawful square root) -/
section real_example
noncomputable local instance realLikeRealC13 : RealLike ℝ := ⟨Real.sqrt, fun _ => false, fun _ => true⟩

theorem lawfulSqrt_real : Alpaqa.C08.LawfulSqrt ℝ where
  sqrt_nonneg := fun a _ => Real.sqrt_nonneg a
  sqrt_mul_self := fun _ ha => Real.mul_self_sqrt ha

/-- one stage, one input in `[-1, 1]` -/
def P1 : Prob ℝ :=
  { N := 1, nx := 1, nu := 1, nh := 0, nc := 0, nhN := 0, ncN := 0, Ulb := [-1], Uub := [1],
    Dlb := [], Dub := [], DNlb := [], DNub := [] }

/-- `u = ½`, `∇ψ = −2`, `γ = 1`: `u − Π_U(u − γ∇ψ) = ½ − 1 = −½`, `√(¼) = ½ ≤ 1` -/
theorem p1_sumSq : stageSumSq P1 (docRes 1 [1/2] [-2] (tile P1.N P1.Ulb) (tile P1.N P1.Uub)) = 1/4 := by
  simp [stageSumSq, stages, docRes, projGradV, tile, P1, vsub, vzip, sqNorm, vsum, redux]
  norm_num

theorem p1_within : CritWithin P1 .ProjGradNorm2 1 [1/2] [-2] 1 := by
  unfold CritWithin
  simp only []
  rw [p1_sumSq]
  show Real.sqrt (1/4) ≤ 1
  rw [Real.sqrt_le_iff]
  norm_num

example : (0 : ℝ) ≤ 1 ∧ stageSumSq P1 (docRes 1 [1/2] [-2] (tile P1.N P1.Ulb) (tile P1.N P1.Uub)) ≤ 1 ^ 2 :=
  (critWithin_two_norm lawfulSqrt_real P1 1 [1/2] [-2] 1).1 p1_within

end real_example

end Alpaqa.Props.C13
