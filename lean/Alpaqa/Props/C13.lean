/-
  C13 — PANOC-OCP `Converged` certifies input-constrained stationarity of the OCP.

  `ocp_converged_certifies` (any carrier, IEEE doubles included): for every evaluator oracle, every
  direction oracle — i.e. whatever the Gauss-Newton block and the masked L-BFGS object return, hence for
  every `gn_interval / gn_sticky / reset_lbfgs_on_gn_step / lqr_factor_cholesky` (these settings only
  select or parameterise the direction oracle and the scheduling the model computes itself) —, every stop
  schedule, budget and initial guess: if the solver returns `Converged` then
    * `write_solution` ran, the returned inputs are `û = u + p` of the final iterate `(γ, u, ∇ψ, p)`, where
      `p` is the projected-gradient step `Π_U(u − γ∇ψ) − u` and `∇ψ` is the backward oracle's answer on the
      forward oracle's roll-out of `u` (`Good`);
    * the reported ε is the generated criterion `calcErrorStopCritOcp` of that final iterate and
      `ε ≤ tolerance'` (`tolerance' = tolerance > 0 ? tolerance : 1e-8`, the chain's effective tolerance);
    * the returned `y`, `err_z` are `write_solution`'s formulas on the constraint values of the forward
      roll-out of the returned inputs (C03_Ocp).
  Over a linearly ordered field: the returned inputs lie in `U`, and for the ∞-norm criteria every
  component of the residual `Π_U(u − γ∇ψ(u)) − u` (resp. with γ = 1, resp. divided by γ) is within
  `tolerance'`; the returned point is `u + p`, at distance `‖p‖∞ ≤ tolerance'` from `u`.
  What makes "∇ψ" the true gradient of the true cost is C12 (`forward` / `backward` oracles).
-/
import Alpaqa.Props.C03_Ocp
import Alpaqa.Props.C06_Ocp

namespace Alpaqa.Props.C13
open Alpaqa Alpaqa.Ocp Alpaqa.Gen Alpaqa.Props
set_option linter.unusedSectionVars false
set_option linter.unusedVariables false

/-! ### Structural certificate (any carrier) -/
section structural
variable {α D : Type} [Add α] [Sub α] [Mul α] [Div α] [Neg α] [LT α] [LE α] [DecidableLT α]
  [DecidableLE α] [BEq α] [RealLike α] [NatCast α] [OfScientific α]
  [OfNat α 0] [OfNat α 1] [OfNat α 2] [OfNat α 100]

/-- What `Converged` certifies about the final iterate `it` and the outputs. -/
structure Certificate (O : Oracles α) (P : Prob α) (pr : Params α) (y mu errz0 : Vec α)
    (r : Result α D) (it : Iterate α) : Prop where
  /-- the final iterate is consistent: roll-out, gradient, projected-gradient step, x̂u -/
  good : Good O P it
  final : r.final = some it
  wrote : r.wrote = true
  /-- the returned inputs are `û` of the final iterate -/
  u_out : r.u = it.uhat
  /-- multipliers / constraint error belong to the returned inputs -/
  y_e_out : (r.u, r.y, r.errz) = writeSolution P r.u (O.fwd r.u).2 y mu errz0
  /-- ε is the generated criterion of the final iterate -/
  eps_crit : epsOf P pr it = some r.stats.eps
  /-- and it meets the effective tolerance -/
  eps_le : r.stats.eps ≤ C06.effTol pr.tolerance

/-- **`Converged` certifies.**  For all oracles (all Gauss-Newton / L-BFGS schedules), stop schedules,
    budgets, initial guesses. -/
theorem ocp_converged_certifies (O : Oracles α) (dir : Dir D α) (P : Prob α) (d0 : D) (pr : Params α)
    (stop : Nat → Bool) (oot : Bool) (u0 y mu errz0 gV gQ : Vec α) (gS e0 : α)
    (hτ : TauSentinelOK α)
    (hfuel : (run O dir P d0 pr stop oot u0 y mu errz0 gV gQ gS e0).fuelOut = false)
    (hconv : (run O dir P d0 pr stop oot u0 y mu errz0 gV gQ gS e0).stats.status = .Converged) :
    ∃ it : Iterate α,
      Certificate O P pr y mu errz0 (run O dir P d0 pr stop oot u0 y mu errz0 gV gQ gS e0) it := by
  rcases C06_Ocp.ocp_run_cases O dir P d0 pr stop oot u0 y mu errz0 gV gQ gS e0 hτ hfuel with h | h | h
  · rw [h.1] at hconv; exact absurd hconv (by decide)
  · -- an exception leaves the default status `Busy`
    exfalso
    revert h hconv
    unfold run
    cases hi : initState O P d0 pr stop u0 gV gQ gS e0 with
    | inl t => simp
    | inr s =>
      simp only []
      intro hc hne
      have := mainLoop_exc_status O dir P pr stop oot u0 y mu errz0 (pr.maxIter + 2) s
        (initState_status O P d0 pr stop u0 gV gQ gS e0 s hi) hne
      rw [this] at hc; exact absurd hc (by decide)
  · obtain ⟨sh, eps, status, hg, hk, he, hst, hnb, hr⟩ := h
    have hexit := (C03_Ocp.ocp_exit_contract O dir P d0 pr stop oot u0 y mu errz0 gV gQ gS e0 hτ hfuel).1
    generalize run O dir P d0 pr stop oot u0 y mu errz0 gV gQ gS e0 = r at *
    have hstat : status = .Converged := by rw [hr] at hconv; simpa [exitBlock] using hconv
    have hw : r.wrote = true := by rw [hr]; simp [exitBlock, hstat]
    refine ⟨sh.curr, hg, ?_, hw, ?_, (hexit hw).2, ?_, ?_⟩
    · rw [hr]; simp [exitBlock]
    · rw [hr]; simp only [exitBlock]; rw [if_pos (by simp [hstat])]; exact writeSolution_u _ _ _ _ _ _
    · rw [hr]; simpa [exitBlock] using he
    · have : r.stats.eps = eps := by rw [hr]; simp [exitBlock]
      rw [this]
      rw [hstat] at hst
      exact (C06_Ocp.ocp_converged_iff _ _ _ _ _ _ _ _).mp hst.symm
where
  /-- the statistics start with status `Busy` and keep it until the exit block -/
  initState_status (O : Oracles α) (P : Prob α) (d0 : D) (pr : Params α) (stop : Nat → Bool)
      (u0 gV gQ : Vec α) (gS e0 : α)
      (s : St α D) (h : initState O P d0 pr stop u0 gV gQ gS e0 = .inr s) : s.stats.status = .Busy := by
    unfold initState at h
    simp only [] at h
    split_ifs at h
    injection h with h
    subst h
    rfl
  iterBody_status (O : Oracles α) (dir : Dir D α) (P : Prob α) (pr : Params α) (stop : Nat → Bool)
      (s : St α D) (eps : α) (h : s.stats.status = .Busy) :
      (iterBody O dir P pr stop s eps).1.stats.status = .Busy := by
    unfold iterBody
    simp only []
    split_ifs
    · exact h
    · exact h
    · unfold acceptStep; exact h
  mainLoop_exc_status (O : Oracles α) (dir : Dir D α) (P : Prob α) (pr : Params α) (stop : Nat → Bool)
      (oot : Bool) (u0 y mu errz0 : Vec α) (fuel : Nat) (s : St α D) (h : s.stats.status = .Busy)
      (hx : (mainLoop O dir P pr stop oot u0 y mu errz0 fuel s).exc ≠ .none) :
      (mainLoop O dir P pr stop oot u0 y mu errz0 fuel s).stats.status = .Busy := by
    induction fuel generalizing s with
    | zero => simp [mainLoop, excResult] at hx
    | succ f ih =>
      unfold mainLoop at hx ⊢
      have hh : (headStep P pr stop oot s).1.stats = s.stats := by
        unfold headStep; simp only []; split <;> rfl
      cases hes : (headStep P pr stop oot s).2 with
      | none => simp only [excResult]; rw [hh]; exact h
      | some es =>
        simp only [hes] at hx ⊢
        split_ifs at hx ⊢
        · simp [exitBlock] at hx
        · simp only [excResult]
          exact iterBody_status O dir P pr stop _ es.1 (by rw [hh]; exact h)
        · exact ih _ (iterBody_status O dir P pr stop _ es.1 (by rw [hh]; exact h)) hx

/-- The six supported criteria as functions of the final iterate `(γ, u, ∇ψ)`: with
    `(û, p, pᵀp, ·) = eval_prox_impl(γ, u, ∇ψ)` and `(·, p₁, p₁ᵀp₁, ·) = eval_prox_impl(1, u, ∇ψ)`. -/
theorem crit_formulas (P : Prob α) (pr : Params α) (it : Iterate α) (h : ProxCons P it) :
    (pr.stopCrit = .ProjGradNorm → epsOf P pr it = some (normInf (evalProxImpl P it.gamma it.u it.gradPsi).2.1)) ∧
    (pr.stopCrit = .ProjGradNorm2 →
      epsOf P pr it = some (RealLike.sqrt (evalProxImpl P it.gamma it.u it.gradPsi).2.2.1)) ∧
    (pr.stopCrit = .ProjGradUnitNorm →
      epsOf P pr it = some (normInf (evalProxImpl P 1 it.u it.gradPsi).2.1)) ∧
    (pr.stopCrit = .ProjGradUnitNorm2 →
      epsOf P pr it = some (RealLike.sqrt (evalProxImpl P 1 it.u it.gradPsi).2.2.1)) ∧
    (pr.stopCrit = .FPRNorm →
      epsOf P pr it = some (normInf (evalProxImpl P it.gamma it.u it.gradPsi).2.1 / it.gamma)) ∧
    (pr.stopCrit = .FPRNorm2 →
      epsOf P pr it = some (RealLike.sqrt (evalProxImpl P it.gamma it.u it.gradPsi).2.2.1 / it.gamma)) := by
  have hp : it.p = (evalProxImpl P it.gamma it.u it.gradPsi).2.1 := congrArg (fun t => t.2.1) h
  have hpp : it.pTp = (evalProxImpl P it.gamma it.u it.gradPsi).2.2.1 := congrArg (fun t => t.2.2.1) h
  refine ⟨?_, ?_, ?_, ?_, ?_, ?_⟩ <;> intro hc <;> unfold epsOf <;> rw [hc] <;>
    simp only [calcErrorStopCritOcp, stopCritOcp_ProjGradNorm, stopCritOcp_ProjGradNorm2,
      stopCritOcp_ProjGradUnitNorm, stopCritOcp_ProjGradUnitNorm2, stopCritOcp_FPRNorm,
      stopCritOcp_FPRNorm2, hp, hpp]

end structural

/-! ### Real-number reading (every linearly ordered field) -/
section field
variable {α : Type} [Field α] [LinearOrder α] [IsStrictOrderedRing α] [RealLike α]

/-- `Π_[lb,ub](u − γ g)`, componentwise. -/
def projGradV (γ : α) : Vec α → Vec α → Vec α → Vec α → Vec α
  | x :: xs, g :: gs, l :: ls, h :: hs => min (max (x - γ * g) l) h :: projGradV γ xs gs ls hs
  | _, _, _, _ => []

/-- `u + p` is the Euclidean projection of the gradient step onto the box: `p = Π_U(u − γ∇ψ) − u`. -/
theorem projStepV_eq_proj (hnn : ∀ x : α, RealLike.isNaN x = false) (γ : α) (u g lb ub : Vec α) :
    vadd u (projStepV γ u g lb ub) = projGradV γ u g lb ub := by
  induction u generalizing g lb ub with
  | nil => simp [vadd, vzip, projGradV]
  | cons x xs ih =>
    cases g with
    | nil => simp [projStepV, vadd, vzip, projGradV]
    | cons gi gs =>
      cases lb with
      | nil => simp [projStepV, vadd, vzip, projGradV]
      | cons l ls =>
        cases ub with
        | nil => simp [projStepV, vadd, vzip, projGradV]
        | cons hh hs =>
          have h1 := C03_Ocp.projStep1_eq_proj hnn γ gi x l hh
          have h2 := ih gs ls hs
          simp only [projStepV, vadd, vzip, List.zipWith_cons_cons, projGradV] at h2 ⊢
          rw [h1, h2]

/-- **`Converged` certifies, real-number reading** (criterion `ProjGradNorm`; the other ∞-norm criteria
    are analogous through `crit_formulas`): the returned inputs lie in `U`, they are `u + p` for the final
    iterate `u`, and every component of the projected-gradient residual `p = Π_U(u − γ∇ψ(u)) − u` of the
    final iterate — with `∇ψ(u)` the backward oracle on the forward roll-out of `u` — is within the
    effective tolerance. -/
theorem ocp_converged_certifies_real {D : Type} (hnn : ∀ x : α, RealLike.isNaN x = false)
    (O : Oracles α) (dir : Dir D α) (P : Prob α) (d0 : D) (pr : Params α)
    (stop : Nat → Bool) (oot : Bool) (u0 y mu errz0 gV gQ : Vec α) (gS e0 : α)
    (hU : C03_Ocp.BoxOK P.Ulb P.Uub) (hUl : P.Ulb.length = P.Uub.length)
    (hcrit : pr.stopCrit = .ProjGradNorm)
    (hfuel : (run O dir P d0 pr stop oot u0 y mu errz0 gV gQ gS e0).fuelOut = false)
    (hconv : (run O dir P d0 pr stop oot u0 y mu errz0 gV gQ gS e0).stats.status = .Converged) :
    C03_Ocp.InBoxV (tile P.N P.Ulb) (tile P.N P.Uub)
      (run O dir P d0 pr stop oot u0 y mu errz0 gV gQ gS e0).u ∧
    ∃ (γ : α) (u : Vec α),
      let g := O.bwd u (O.fwd u).2
      let p := projStepV γ u g (tile P.N P.Ulb) (tile P.N P.Uub)
      (run O dir P d0 pr stop oot u0 y mu errz0 gV gQ gS e0).u = vadd u p ∧
      ∀ e ∈ p, |e| ≤ C06.effTol pr.tolerance := by
  have hτ : TauSentinelOK α := by
    constructor <;> simp [bne_iff_ne] <;> norm_num
  obtain ⟨it, hc⟩ := ocp_converged_certifies O dir P d0 pr stop oot u0 y mu errz0 gV gQ gS e0 hτ hfuel hconv
  refine ⟨C03_Ocp.ocp_u_out_in_U hnn O dir P d0 pr stop oot u0 y mu errz0 gV gQ gS e0 hU hUl hfuel hc.wrote,
    it.gamma, it.u, ?_, ?_⟩
  · rw [hc.u_out]
    have h1 : it.uhat = (evalProxImpl P it.gamma it.u it.gradPsi).1 := congrArg Prod.fst hc.good.2.1
    rw [h1, hc.good.1.2.2, hc.good.1.1]
    rfl
  · intro e he
    have hcf := (crit_formulas P pr it hc.good.2.1).1 hcrit
    rw [hc.eps_crit] at hcf
    have heq : (run O dir P d0 pr stop oot u0 y mu errz0 gV gQ gS e0).stats.eps =
        normInf (evalProxImpl P it.gamma it.u it.gradPsi).2.1 := Option.some.inj hcf
    have hle := hc.eps_le
    rw [heq] at hle
    refine le_trans (abs_le_normInf _ e ?_) hle
    rw [hc.good.1.2.2, hc.good.1.1]
    exact he

end field

/-! ### Non-vacuity -/
section examples
local instance ratRealLike : RealLike ℚ := ⟨id, fun _ => false, fun _ => true⟩

/-- one stage, one input in `[-1, 1]`, `u = 1/2`, `∇ψ = -2`, `γ = 1`: `p = 1/2`, criterion `‖p‖∞ = 1/2`,
    which meets a tolerance of 1 and not one of 1/4. -/
example :
    let P : Prob ℚ := { N := 1, nx := 1, nu := 1, nh := 0, nc := 0, nhN := 0, ncN := 0,
                        Ulb := [-1], Uub := [1], Dlb := [], Dub := [], DNlb := [], DNub := [] }
    (evalProxImpl P 1 [1/2] [-2]) = ([1], [1/2], 1/4, -1) := by
  simp [evalProxImpl, projStepV, projStep1, tile, stages, fminS, fmaxS, RealLike.isNaN, vadd, vzip, sqNorm,
    dot, vsum, vmul, redux]
  norm_num
example : C06.effTol (0 : ℚ) = 1e-8 ∧ C06.effTol (1 : ℚ) = 1 := by
  constructor <;> simp [C06.effTol]
end examples

end Alpaqa.Props.C13
