/-
  C19 for PANOC-OCP — `stop()` interrupts promptly and leaves valid results.

  The stop flag is `stop : Nat → Bool`, a function of the tick (number of problem calls, L-BFGS calls and
  callbacks so far).
  For every evaluator / direction oracle, any carrier:
  * a request visible at a loop-head check ends the solve there (`stop_at_head_exits`) — never `Busy`;
  * the line-search loop does no evaluation once the flag is visible (`linesearch_does_nothing_when_stopped`);
  * neither does the initial step-size loop `while (!stop_requested() && L < L_max && qub_violated)`
    (`init_loop_does_nothing_when_stopped`); with a flag that is never lowered and visible from tick
    `t₀` on it is left at tick `≤ max t (t₀ + fwdTicks − 1)` whatever the number of backtracks still
    needed (`init_loop_ticks_after_stop`), and the solve then returns from its first loop head
    (`init_interrupted_then_returns`);
  * a line search that ends with the flag visible is *discarded*: the current iterate, `k` and the callback
    list are unchanged (`interrupted_linesearch_discarded`), and the very next loop head returns
    (`interrupted_then_returns`) — so at most the evaluations of the pass in progress happen after `stop()`;
  * the results written at that exit satisfy the exit contract of `Props/C03_Ocp` (which quantifies over
    all stop schedules already).
  * **oracle-event bound** (`ocp_ticks_after_stop`): with a flag that is never lowered and visible from
    tick `t₀` on, a whole solve makes at most `max (initTicks + 1) (t₀ + pollGap)` oracle calls (ticks), where
    `pollGap = max (max gnTicks 3) (2·fwdTicks + bwdTicks)` is the largest number of calls between two
    consecutive polls of the flag (one Gauss-Newton block; one line-search pass = candidate roll-out,
    gradient, ψ(û); L-BFGS reset + update + progress callback) and `initTicks = 4 + 2·fwdTicks + 2·bwdTicks +
    fsimTicks` the calls before the first poll.  No fuel hypothesis, every carrier.
  Not modelled: data-race freedom of the flag (C++ memory model).
-/
import Alpaqa.Proofs.OcpLs
import Alpaqa.Proofs.OcpLoop
import Alpaqa.Proofs.OcpTicks
import Alpaqa.Proofs.OcpExample

namespace Alpaqa.Props.C19_Ocp
open Alpaqa Alpaqa.Ocp Alpaqa.Gen
set_option linter.unusedSectionVars false
set_option linter.unusedVariables false

variable {α D : Type} [Add α] [Sub α] [Mul α] [Div α] [Neg α] [LT α] [LE α] [DecidableLT α]
  [DecidableLE α] [BEq α] [RealLike α] [NatCast α] [OfScientific α]
  [OfNat α 0] [OfNat α 1] [OfNat α 2] [OfNat α 100]

/-- **A stop request visible at a loop head ends the solve at that head** (for a supported criterion):
    the loop returns the exit block with a non-`Busy` status — no direction is computed, no line search
    is started, `k` does not advance. -/
theorem stop_at_head_exits (O : Oracles α) (dir : Dir D α) (P : Prob α) (pr : Params α)
    (stop : Nat → Bool) (oot : Bool) (u0 y mu errz0 : Vec α) (fuel : Nat) (s : St α D) (eps : α)
    (he : epsOf P pr s.curr = some eps) (hs : stop s.tick = true) :
    mainLoop O dir P pr stop oot u0 y mu errz0 (fuel + 1) s =
      exitBlock P pr (headStep P pr stop oot s).1 eps
        (statusOf pr s.k eps s.noProgress oot true) u0 y mu errz0 ∧
    statusOf pr s.k eps s.noProgress oot true ≠ .Busy := by
  have hnb := statusOf_stop_not_busy pr s.k eps s.noProgress oot
  refine ⟨?_, hnb⟩
  unfold mainLoop
  have h2 := headStep_snd P pr stop oot s
  rw [he, hs] at h2
  simp only [Option.map_some] at h2
  rw [h2]
  simp only []
  rw [if_pos (by simpa using hnb)]

/-- …and the status reported then is `Interrupted`, or it is the natural status whose own condition held
    at that head: `Converged ∧ ε ≤ tol'`, `MaxTime ∧ out of time`, `MaxIter ∧ k = max_iter`,
    `NotFinite ∧ ε not finite`, `NoProgress ∧ counter > max_no_progress`. -/
theorem stop_status_interrupted_or_natural (pr : Params α) (k : Nat) (eps : α) (np : Nat) (oot : Bool) :
    statusOf pr k eps np oot true = .Interrupted ∨
    (statusOf pr k eps np oot true = .Converged ∧ eps ≤ Props.C06.effTol pr.tolerance) ∨
    (statusOf pr k eps np oot true = .MaxTime ∧ oot = true) ∨
    (statusOf pr k eps np oot true = .MaxIter ∧ k = pr.maxIter) ∨
    (statusOf pr k eps np oot true = .NotFinite ∧ RealLike.isFinite eps = false) ∨
    (statusOf pr k eps np oot true = .NoProgress ∧ np > pr.maxNoProgress) := by
  unfold statusOf
  rw [Props.C06.chains_agree]
  exact Props.C06.stop_gives_interrupted_or_natural _ _ _ _ _ _ _

/-- **The line-search loop does nothing once the flag is visible.** -/
theorem linesearch_does_nothing_when_stopped (O : Oracles α) (dir : Dir D α) (P : Prob α)
    (pr : Params α) (stop : Nat → Bool) (c : Iterate α) (q : Vec α) (tauInit : α) (dn : Bool)
    (fuel : Nat) (s : LS α D) (h : stop s.tick = true) :
    lineSearch O dir P pr stop c q tauInit dn (fuel + 1) s = s :=
  lineSearch_stop_noop O dir P pr stop c q tauInit dn fuel s h

/-- **An interrupted line search is discarded.**  If the stop flag is visible when the line search of
    an iteration ends (whether it was cut short or its last pass had just completed), the pass leaves the
    current iterate, the iteration counter and the callback list untouched, makes no L-BFGS update and no
    progress callback, and the flag is visible at the next loop head. -/
theorem interrupted_linesearch_discarded (O : Oracles α) (dir : Dir D α) (P : Prob α) (pr : Params α)
    (stop : Nat → Bool) (s : St α D) (eps : α)
    (hex : (directionStage dir P pr s).exc = .none)
    (hst : stop (lineSearch O dir P pr stop s.curr (directionStage dir P pr s).q
        (directionStage dir P pr s).tauInit
        (decide (pr.gnInterval > 0) && ((s.k + 1) % pr.gnInterval == 0) && !pr.disableAccel) pr.lsFuel
        { next := { s.next with gamma := s.curr.gamma, L := s.curr.L }, d := (directionStage dir P pr s).d,
          tick := (directionStage dir P pr s).tick, tau := (directionStage dir P pr s).tauInit,
          tauPrev := -1,
          doGnStep := (decide (pr.gnInterval > 0) && ((s.k + 1) % pr.gnInterval == 0) && !pr.disableAccel)
            || (s.doGnStep && pr.gnSticky),
          lsBacktracks := 0, stepsizeBacktracks := 0 }).tick = true) :
    (iterBody O dir P pr stop s eps).1.curr = s.curr ∧ (iterBody O dir P pr stop s eps).1.k = s.k ∧
    (iterBody O dir P pr stop s eps).1.cbs = s.cbs ∧
    (iterBody O dir P pr stop s eps).1.noProgress = s.noProgress ∧
    stop (iterBody O dir P pr stop s eps).1.tick = true ∧ (iterBody O dir P pr stop s eps).2 = .none := by
  unfold iterBody
  simp only []
  rw [if_neg (by simp [hex]), if_pos hst]
  exact ⟨rfl, rfl, rfl, rfl, hst, rfl⟩

/-- **After an interrupted pass the next loop head returns**: the solve ends with the exit block of
    that head, whose current iterate is the one that was current before the interrupted pass. -/
theorem interrupted_then_returns (O : Oracles α) (dir : Dir D α) (P : Prob α) (pr : Params α)
    (stop : Nat → Bool) (oot : Bool) (u0 y mu errz0 : Vec α) (fuel : Nat) (s : St α D) (eps eps' : α)
    (hcur : (iterBody O dir P pr stop s eps).1.curr = s.curr)
    (hst : stop (iterBody O dir P pr stop s eps).1.tick = true)
    (he : epsOf P pr s.curr = some eps') :
    ∃ status, status ≠ SolverStatus.Busy ∧
      mainLoop O dir P pr stop oot u0 y mu errz0 (fuel + 1) (iterBody O dir P pr stop s eps).1 =
        exitBlock P pr (headStep P pr stop oot (iterBody O dir P pr stop s eps).1).1 eps' status
          u0 y mu errz0 ∧
      (headStep P pr stop oot (iterBody O dir P pr stop s eps).1).1.curr = s.curr := by
  have h := stop_at_head_exits O dir P pr stop oot u0 y mu errz0 fuel (iterBody O dir P pr stop s eps).1
    eps' (by rw [hcur]; exact he) hst
  exact ⟨_, h.2, h.1, by rw [(headStep_curr P pr stop oot _).1, hcur]⟩

/-! ### The initial step-size loop -/

/-- **The initial step-size loop does nothing once the flag is visible.** -/
theorem init_loop_does_nothing_when_stopped (O : Oracles α) (P : Prob α) (pr : Params α)
    (stop : Nat → Bool) (f : Nat) (c : Iterate α) (t b : Nat) (h : stop t = true) :
    initQub O P pr stop (f + 1) c t b = (c, t, b, false) :=
  initQub_stop_noop O P pr stop f c t b h

/-- With a flag that is never lowered and visible from tick `t₀` on, the initial step-size loop
    entered at tick `t` is left at tick `≤ max t (t₀ + fwdTicks − 1)` (`fwdTicks` = the problem calls
    of one `eval_forward_hat`): only the backtrack in flight is completed. -/
theorem init_loop_ticks_after_stop (O : Oracles α) (P : Prob α) (pr : Params α) (stop : Nat → Bool)
    (hm : ∀ a b, a ≤ b → stop a = true → stop b = true) (t0 : Nat) (h0 : stop t0 = true)
    (f : Nat) (c : Iterate α) (t b : Nat) :
    (initQub O P pr stop f c t b).2.1 ≤ max t (t0 + P.fwdTicks - 1) :=
  initQub_tick_bound O P pr stop hm t0 h0 f c t b

/-- **A solve whose initial step-size loop was cut short returns from its first loop head**: the
    flag visible when the initialisation ends is visible at the first head check (PANOC-OCP's head
    makes no call before the check), which returns the exit block with a non-`Busy` status, the
    initial iterate current, `k = 0`. -/
theorem init_interrupted_then_returns (O : Oracles α) (dir : Dir D α) (P : Prob α) (d0 : D)
    (pr : Params α) (stop : Nat → Bool) (oot : Bool) (u0 y mu errz0 gV gQ : Vec α) (gS e0 : α)
    (s : St α D) (eps : α) (hi : initState O P d0 pr stop u0 gV gQ gS e0 = .inr s)
    (hs : stop s.tick = true) (he : epsOf P pr s.curr = some eps) :
    run O dir P d0 pr stop oot u0 y mu errz0 gV gQ gS e0 =
      exitBlock P pr (headStep P pr stop oot s).1 eps
        (statusOf pr s.k eps s.noProgress oot true) u0 y mu errz0 ∧
    statusOf pr s.k eps s.noProgress oot true ≠ .Busy ∧ s.k = 0 := by
  have h := stop_at_head_exits O dir P pr stop oot u0 y mu errz0 (pr.maxIter + 1) s eps he hs
  refine ⟨?_, h.2, (initState_good O P d0 pr stop u0 gV gQ gS e0 s hi).2⟩
  unfold run; rw [hi]; exact h.1

/-! ### Oracle-event bound after `stop()` -/

/-- **At most `pollGap` further oracle calls after `stop()`, wherever it lands.**  If the flag, never
    lowered (`StopMono`), is visible from tick `t₀` on, the solve ends at tick
    `≤ max (initTicks + 1) (t₀ + pollGap)` — in the model's own tick units (one tick per problem call made by
    `forward` / `forward_simulate` / `backward` / the Gauss-Newton block, per masked-L-BFGS call and per
    progress callback):
    * `pollGap = max (max gnTicks 3) (2·fwdTicks + bwdTicks)`: the calls between two consecutive polls of
      the flag — less than one iteration's worth of evaluations;
    * `initTicks + 1`: a request that is already visible at the first poll (initialisation, final
      callback).
    For all evaluator / direction oracles, budgets, criteria; no fuel hypothesis. -/
theorem ocp_ticks_after_stop (O : Oracles α) (dir : Dir D α) (P : Prob α) (d0 : D) (pr : Params α)
    (stop : Nat → Bool) (hm : StopMono stop) (t0 : Nat) (h0 : stop t0 = true) (oot : Bool)
    (u0 y mu errz0 gV gQ : Vec α) (gS e0 : α) :
    (run O dir P d0 pr stop oot u0 y mu errz0 gV gQ gS e0).ticks ≤
      max (P.initTicks + 1) (t0 + P.pollGap) :=
  run_ticks_after_stop O dir P d0 pr stop hm t0 h0 oot u0 y mu errz0 gV gQ gS e0

/-- The per-call-site pieces of `pollGap`. -/
theorem pollGap_pieces (P : Prob α) :
    max P.gnTicks 2 ≤ P.pollGap ∧ 2 * P.fwdTicks + P.bwdTicks ≤ P.pollGap ∧ 3 ≤ P.pollGap := by
  unfold Prob.pollGap Prob.lsGap; omega

/-! ### Non-vacuity -/
section examples
local instance ratRealLike : RealLike ℚ := ⟨id, fun _ => false, fun _ => true⟩
/-- with the flag set the chain reports `Interrupted` when nothing else applies … -/
example : statusChainOcp (1 : ℚ) 10 5 3 2 0 false true = .Interrupted := by
  simp [statusChainOcp, RealLike.isFinite]
/-- … and `Converged` wins when the tolerance is met at the same moment. -/
example : statusChainOcp (1 : ℚ) 10 5 3 (1/2) 0 false true = .Converged := by
  simp [statusChainOcp, RealLike.isFinite]; norm_num
end examples

/-! ### Non-vacuity on concrete runs of `Ocp.run` (`Proofs/OcpExample`) -/
section run_examples
open Alpaqa.Ocp.Example

theorem stopAt_mono (t0 : Option Nat) : StopMono (stopAt t0) := by
  intro a b hab h
  cases t0 with
  | none => simp [stopAt] at h
  | some t => simp only [stopAt, decide_eq_true_eq] at h ⊢; omega

/-- the example OCP `PA`: `fwdTicks = 5`, `bwdTicks = 5`, `gnTicks = 11`, `fsimTicks = 2`:
    `pollGap = 15`, `initTicks = 26` -/
example : PA.pollGap = 15 ∧ PA.initTicks = 26 := by decide

/-- `ocp_ticks_after_stop` instantiated: Gauss-Newton run `rA`, flag visible from tick `t₀` on -/
example (t0 : Nat) : (rA .ProjGradNorm (some t0)).ticks ≤ max (PA.initTicks + 1) (t0 + PA.pollGap) :=
  ocp_ticks_after_stop OA (dirOf 1 3) PA () (prAc .ProjGradNorm) (stopAt (some t0)) (stopAt_mono _) t0
    (by simp [stopAt]) false [1, 1/2] [] [] [] [] [] 0 0

/-- what actually happens: uninterrupted the run takes 47 ticks (`Converged` after one iteration); a
    request at a tick `≤ 19` (initialisation) ends it at tick 20, one in `20 … 30` (direction / first
    line-search pass) at tick 31, one in `31 … 45` at tick 46 — always `Interrupted`, `k = 0`, the outputs
    written from the initial iterate -/
example : (rA .ProjGradNorm none).ticks = 47 ∧
    (List.range 47).map (fun t => (rA .ProjGradNorm (some t)).ticks) =
      List.replicate 20 20 ++ List.replicate 11 31 ++ List.replicate 15 46 ++ [47] ∧
    (List.range 46).all (fun t => (rA .ProjGradNorm (some t)).stats.status == .Interrupted &&
      (rA .ProjGradNorm (some t)).stats.iterations == 0 && (rA .ProjGradNorm (some t)).wrote) = true := by
  decide +kernel

/-- `interrupted_linesearch_discarded` / `interrupted_then_returns` on the run: a request landing in the
    first line search (tick 25) leaves one callback, `k = 0`, and the returned inputs are `û` of the
    *initial* iterate -/
example : (rA .ProjGradNorm (some 25)).callbacks.length = 1 ∧ (rA .ProjGradNorm (some 25)).u = [13/32, 1/40] ∧
    (rA .ProjGradNorm (some 25)).fuelOut = false := by
  decide +kernel

end run_examples

end Alpaqa.Props.C19_Ocp
