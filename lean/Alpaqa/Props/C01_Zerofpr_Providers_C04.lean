/-
  C01 — ZeroFPR with a shipped direction provider over the raw slots of the C04 vtable.

  `Props/C01_Zerofpr_C04.lean` has the vtable `resolve B P` (every provider mix) with an abstract direction
  provider, `Props/ZerofprDirections.lean` has the shipped providers over an abstract problem.  This file states
  the composition the claim text describes (audit round 4, L2): no oracle hypothesis and no provider hypothesis
  is left — only `WF B`, `P.Sound B`, `IsBoxProblem B C D`, the parameter / fuel / stop-flag hypotheses of
  `zerofpr_satisfies_inner_contract`, and `memory ≥ 1` for L-BFGS.
-/
import Alpaqa.Props.C01_Zerofpr_C04
import Alpaqa.Props.ZerofprDirections

namespace Alpaqa.Props.C01ZerofprProvidersC04

open Alpaqa Alpaqa.Gen Alpaqa.C04 Alpaqa.C07 Alpaqa.Directions Alpaqa.Props.C01Alm Alpaqa.Props.C01C04
open Alpaqa.Props.C01Zerofpr Alpaqa.Props.C01ZerofprC04 Alpaqa.Props.ZerofprDirections Alpaqa.Props.Directions

variable {α : Type} [Field α] [LinearOrder α] [IsStrictOrderedRing α]
  [RealLike α] [PowLike α] [HasNaN α] [Alpaqa.Proofs.C07.NoNaN α]

/-- ZeroFPR + `NoopDirection` over the raw vtable slots, every provider mix, any initial provider state. -/
theorem zerofpr_noop_on_raw_vtable_inner_contract (B : Basic α) (hB : WF B) (P : Provided α) (hP : P.Sound B)
    (C : BoxC α) (D : BoxD α) (hbox : IsBoxProblem B C D) (W : Vec α → Vec α → Vec α → Vec α) (w : Vec α)
    (hw : w.length = B.m) (d0 : Latch Noop.State)
    (pr : Zerofpr.Params α) (hfac : 0 < pr.LgammaFactor)
    (N M : Nat) (hF : Zerofpr.FuelOK pr N M) (hcrit : pr.stopCrit = .ApproxKKT)
    (stop : InnerCall α → Nat → Bool) (hmono : ∀ c, Zerofpr.StopMono (stop c))
    (oot clock almStop : InnerCall α → Bool) (gV : Vec α) (gS iS : α) :
    InnerContract (pbOf B C D) B.n B.m
      (zerofprInner (vtProblemZf (resolve B P) C W w) (ofPanocDir noopDir) d0 pr stop oot clock
        almStop gV gS iS) :=
  zerofpr_noop_satisfies_inner_contract (pbOf B C D) B.n B.m _
    (resolve_raw_meets_zfOracleContract B hB P hP C D hbox W w hw) d0 pr hfac N M hF hcrit stop hmono
    oot clock almStop gV gS iS

/-- ZeroFPR + `LBFGSDirection` (memory ≥ 1) over the raw vtable slots, every provider mix, any initial
    provider state. -/
theorem zerofpr_lbfgs_on_raw_vtable_inner_contract (B : Basic α) (hB : WF B) (P : Provided α) (hP : P.Sound B)
    (C : BoxC α) (D : BoxD α) (hbox : IsBoxProblem B C D) (W : Vec α → Vec α → Vec α → Vec α) (w : Vec α)
    (hw : w.length = B.m) (c : LbfgsCfg α) (hm : 1 ≤ c.accel.memory) (d0 : Latch (Lbfgs.State α))
    (pr : Zerofpr.Params α) (hfac : 0 < pr.LgammaFactor)
    (N M : Nat) (hF : Zerofpr.FuelOK pr N M) (hcrit : pr.stopCrit = .ApproxKKT)
    (stop : InnerCall α → Nat → Bool) (hmono : ∀ c, Zerofpr.StopMono (stop c))
    (oot clock almStop : InnerCall α → Bool) (gV : Vec α) (gS iS : α) :
    InnerContract (pbOf B C D) B.n B.m
      (zerofprInner (vtProblemZf (resolve B P) C W w) (ofPanocDir (lbfgsDir c B.n)) d0 pr stop oot clock
        almStop gV gS iS) :=
  zerofpr_lbfgs_satisfies_inner_contract (pbOf B C D) B.n B.m _
    (resolve_raw_meets_zfOracleContract B hB P hP C D hbox W w hw) c hm d0 pr hfac N M hF hcrit stop hmono
    oot clock almStop gV gS iS

/-- ZeroFPR + `AndersonDirection` over the raw vtable slots, every provider mix, any initial provider state. -/
theorem zerofpr_anderson_on_raw_vtable_inner_contract (B : Basic α) (hB : WF B) (P : Provided α)
    (hP : P.Sound B) (C : BoxC α) (D : BoxD α) (hbox : IsBoxProblem B C D)
    (W : Vec α → Vec α → Vec α → Vec α) (w : Vec α) (hw : w.length = B.m)
    (c : AndersonCfg α) (y' Sig' : Vec α) (d0 : Latch (Anderson.State α))
    (pr : Zerofpr.Params α) (hfac : 0 < pr.LgammaFactor)
    (N M : Nat) (hF : Zerofpr.FuelOK pr N M) (hcrit : pr.stopCrit = .ApproxKKT)
    (stop : InnerCall α → Nat → Bool) (hmono : ∀ c, Zerofpr.StopMono (stop c))
    (oot clock almStop : InnerCall α → Bool) (gV : Vec α) (gS iS : α) :
    InnerContract (pbOf B C D) B.n B.m
      (zerofprInner (vtProblemZf (resolve B P) C W w) (ofPanocDir (andersonDir c B.n y' Sig')) d0 pr stop oot
        clock almStop gV gS iS) :=
  zerofpr_anderson_satisfies_inner_contract (pbOf B C D) B.n B.m _
    (resolve_raw_meets_zfOracleContract B hB P hP C D hbox W w hw) c y' Sig' d0 pr hfac N M hF hcrit stop
    hmono oot clock almStop gV gS iS

end Alpaqa.Props.C01ZerofprProvidersC04
