/-
  C06 — Exit status, iteration count and reported residual mean what is documented.

  `statusChain`, `statusChainOcp`, `calcErrorStopCrit`, `requiresGradHat`, `noProgressUpdate`
  are regenerated from /repo's C++ on every run (`Alpaqa/Gen/C06.lean`).  The chain theorems hold
  for *every* carrier with *any* decidable order and any classification of "finite" — they are
  pure decision logic, so in particular they hold for IEEE doubles (NaN, ±inf included).
  Loop-level facts (iteration count, which iterate ε is computed from, what the no-progress counter is) are in
  `Props/C06_<Solver>.lean` for the solver loop models.

  Documented formulas: `docCrit` is an independent specification of all ten criteria (mathematical norms,
  projection `Π_C`); `calcErrorStopCrit_eq_doc` proves the generated code equal to it for nine criteria;
  for all ten criteria (`Ipopt` since /repo commit f69b0f2f3, finding `C06:ipopt-box-multiplier-sign`, fixed).
  Non-finite residuals: `crit_nonneg_or_nan` / `nonfinite_crit_never_converged` over `XR β` with IEEE
  arithmetic (`Proofs/C06Spec`) — `ε = −inf` is unreachable for `γ` NaN-or-nonnegative; the tolerance must be
  finite (`inf_tolerance_accepts_inf`).  `max_no_progress = 0`: the repaired update statement (commit
  f7343661f, finding `C06:max-no-progress-zero-division`, fixed) tests every iteration; `noProgressUpdate_spec`
  holds for all `max_no_progress` and the totalised `k % 0` is never looked at.
-/
import Alpaqa.Proofs.VecLemmas
import Alpaqa.Proofs.C06Spec
import Alpaqa.Gen.C06
import Alpaqa.Model.XR

namespace Alpaqa.Props.C06
open Alpaqa Alpaqa.Gen

/-! ### The status chain: pure decision logic, any carrier (IEEE doubles included) -/
section chain
variable {α : Type} [LT α] [LE α] [DecidableLT α] [DecidableLE α] [RealLike α]
  [OfNat α 0] [OfScientific α]

/-- The tolerance the chain actually tests against. -/
def effTol (tol : α) : α := if tol > 0 then tol else (1e-8 : α)

variable (tol : α) (maxIter maxNP k : Nat) (ε : α) (np : Nat) (oot intr : Bool)

/-- `Converged` is reported exactly when `ε ≤ tolerance'`. -/
theorem converged_iff :
    statusChain tol maxIter maxNP k ε np oot intr = .Converged ↔ ε ≤ effTol tol := by
  unfold statusChain effTol
  simp only [decide_eq_true_eq]
  by_cases h1 : tol > 0 <;> simp only [h1, if_true, if_false] <;>
  · constructor
    · intro hh; split_ifs at hh; assumption
    · intro hh; simp [hh]

/-- A satisfied tolerance wins over every limit reached at the same moment. -/
theorem converged_wins (h : ε ≤ effTol tol) :
    statusChain tol maxIter maxNP k ε np oot intr = .Converged :=
  (converged_iff tol maxIter maxNP k ε np oot intr).mpr h

theorem maxTime_only_if (h : statusChain tol maxIter maxNP k ε np oot intr = .MaxTime) :
    oot = true := by
  unfold statusChain at h; simp only [] at h; split_ifs at h <;> simp_all

/-- `MaxIter` only with the iteration count equal to `max_iter`. -/
theorem maxIter_only_if (h : statusChain tol maxIter maxNP k ε np oot intr = .MaxIter) :
    k = maxIter := by
  unfold statusChain at h; simp only [] at h; split_ifs at h <;> simp_all

/-- `NotFinite` only with a non-finite residual. -/
theorem notFinite_only_if (h : statusChain tol maxIter maxNP k ε np oot intr = .NotFinite) :
    RealLike.isFinite ε = false := by
  unfold statusChain at h; simp only [] at h; split_ifs at h <;> simp_all

/-- `NoProgress` only when the counter exceeds `max_no_progress`. -/
theorem noProgress_only_if (h : statusChain tol maxIter maxNP k ε np oot intr = .NoProgress) :
    np > maxNP := by
  unfold statusChain at h; simp only [] at h; split_ifs at h <;> simp_all

/-- `Interrupted` only after a stop request. -/
theorem interrupted_only_if (h : statusChain tol maxIter maxNP k ε np oot intr = .Interrupted) :
    intr = true := by
  unfold statusChain at h; simp only [] at h; split_ifs at h <;> simp_all

/-- The loop continues (`Busy`) only if no exit condition holds; in particular `k ≠ max_iter`
    and no stop request — the facts the iteration bound and prompt interruption rest on. -/
theorem busy_only_if (h : statusChain tol maxIter maxNP k ε np oot intr = .Busy) :
    ¬ ε ≤ effTol tol ∧ oot = false ∧ k ≠ maxIter ∧ RealLike.isFinite ε = true ∧
      ¬ np > maxNP ∧ intr = false := by
  unfold statusChain effTol at *; simp only [] at h; split_ifs at h <;> simp_all

theorem never_exception : statusChain tol maxIter maxNP k ε np oot intr ≠ .Exception := by
  unfold statusChain; simp only []; split_ifs <;> simp

/-- A stop request seen at a loop-head check always ends the loop there. -/
theorem stop_requested_not_busy :
    statusChain tol maxIter maxNP k ε np oot true ≠ .Busy := by
  unfold statusChain; simp only []; split_ifs <;> simp

/-- With the stop flag visible, the chain returns `Interrupted` unless one of the higher-priority
    conditions holds — and then it returns exactly that condition's status, *with its condition*. -/
theorem stop_gives_interrupted_or_natural :
    statusChain tol maxIter maxNP k ε np oot true = .Interrupted ∨
    (statusChain tol maxIter maxNP k ε np oot true = .Converged ∧ ε ≤ effTol tol) ∨
    (statusChain tol maxIter maxNP k ε np oot true = .MaxTime ∧ oot = true) ∨
    (statusChain tol maxIter maxNP k ε np oot true = .MaxIter ∧ k = maxIter) ∨
    (statusChain tol maxIter maxNP k ε np oot true = .NotFinite ∧ RealLike.isFinite ε = false) ∨
    (statusChain tol maxIter maxNP k ε np oot true = .NoProgress ∧ np > maxNP) := by
  unfold statusChain effTol
  simp only []
  split_ifs <;> simp_all

/-- Reaching `max_iter` always ends the loop. -/
theorem max_iter_not_busy : statusChain tol maxIter maxNP maxIter ε np oot intr ≠ .Busy := by
  unfold statusChain; simp only []; split_ifs <;> simp_all

/-- The PANOC-OCP copy of the chain is the same function. -/
theorem chains_agree :
    statusChainOcp tol maxIter maxNP k ε np oot intr = statusChain tol maxIter maxNP k ε np oot intr := rfl

end chain

/-! ### Non-finite residuals (IEEE comparison semantics via `XR`) -/
section nonfinite
variable {β : Type} [LT β] [LE β] [DecidableLT β] [DecidableLE β] [OfNat β 0] [OfScientific β]

/-- A NaN or `+inf` residual is never `Converged`, whatever finite tolerance is requested.
    (`-inf ≤ tol` holds in IEEE arithmetic; residuals are norms / norms over `γ > 0` and cannot be
    `-inf`, which is why `ε ≠ ninf` is a hypothesis.) -/
theorem nonfinite_never_converged (tol ε : XR β) (maxIter maxNP k np : Nat) (oot intr : Bool)
    (hε : RealLike.isFinite ε = false) (hni : ε ≠ .ninf)
    (htol : RealLike.isFinite (effTol tol) = true) :
    statusChain tol maxIter maxNP k ε np oot intr ≠ .Converged := by
  rw [Ne, converged_iff]
  generalize effTol tol = t at htol
  cases ε <;> cases t <;> simp_all [LE.le, XR.leb, RealLike.isFinite, XR.isFiniteX]

/-- …and such a run reports `NotFinite` unless a time or iteration limit is hit first. -/
theorem nonfinite_reports_notFinite (tol ε : XR β) (maxIter maxNP k np : Nat) (intr : Bool)
    (hε : RealLike.isFinite ε = false) (hni : ε ≠ .ninf)
    (htol : RealLike.isFinite (effTol tol) = true) (hk : k ≠ maxIter) :
    statusChain tol maxIter maxNP k ε np false intr = .NotFinite := by
  have hc := nonfinite_never_converged tol ε maxIter maxNP k np false intr hε hni htol
  rw [Ne, converged_iff] at hc
  unfold statusChain effTol at *
  simp_all

/-- Why "finite tolerance" is a hypothesis: with `tolerance = +inf` the chain's test `ε ≤ tolerance`
    holds for `ε = +inf`, and the solve is reported `Converged` with a non-finite residual (the two clauses
    "Converged ⇔ ε ≤ tolerance" and "a non-finite residual is never Converged" of the property contradict
    each other there; the code implements the first). -/
theorem inf_tolerance_accepts_inf (maxIter maxNP k np : Nat) (oot intr : Bool) :
    statusChain (XR.pinf : XR β) maxIter maxNP k XR.pinf np oot intr = .Converged := by
  rw [converged_iff]
  have : effTol (XR.pinf : XR β) = XR.pinf := by
    unfold effTol
    have h : (XR.pinf : XR β) > 0 := (rfl : XR.ltb (XR.fin (0 : β)) XR.pinf = true)
    rw [if_pos h]
  rw [this]
  exact (rfl : XR.leb (XR.pinf : XR β) XR.pinf = true)

end nonfinite

/-! ### Non-finite residuals of the *generated criteria*: `ε = −inf` is unreachable -/
section nonfinite_crit
open C06Spec
variable {β : Type} [Field β] [LinearOrder β] [IsStrictOrderedRing β]

/-- **Every generated stopping criterion, evaluated in IEEE arithmetic on `XR β` (finite values, `±inf`,
    NaN), is NaN or `≥ 0`** — for all ten criteria, all vectors (any entries, any lengths), any prox oracle,
    provided the step size `γ` is NaN or `≥ 0` (it is a divisor in `FPRNorm`, `FPRNorm2`). -/
theorem crit_nonneg_or_nan (c : PANOCStopCrit) (prox : XR β → Vec (XR β) → Vec (XR β) → Vec (XR β) × Vec (XR β))
    (p : Vec (XR β)) (γ : XR β) (x xh yh g gh : Vec (XR β)) (hγ : NN γ) :
    RealLike.isNaN (calcErrorStopCrit c prox p γ x xh yh g gh) = true ∨
      (0 : XR β) ≤ calcErrorStopCrit c prox p γ x xh yh g gh :=
  crit_NN XR.signLaws c prox p γ x xh yh g gh hγ

/-- **A non-finite residual is never reported as `Converged`** — for the residual *as the generated
    criteria compute it*, without the hypothesis `ε ≠ −inf` of `nonfinite_never_converged`: whatever finite
    tolerance is requested, for all ten criteria and all inputs with `γ` NaN or `≥ 0`. -/
theorem nonfinite_crit_never_converged (c : PANOCStopCrit)
    (prox : XR β → Vec (XR β) → Vec (XR β) → Vec (XR β) × Vec (XR β))
    (p : Vec (XR β)) (γ : XR β) (x xh yh g gh : Vec (XR β)) (hγ : NN γ)
    (tol : XR β) (maxIter maxNP k np : Nat) (oot intr : Bool)
    (hε : RealLike.isFinite (calcErrorStopCrit c prox p γ x xh yh g gh) = false)
    (htol : RealLike.isFinite (effTol tol) = true) :
    statusChain tol maxIter maxNP k (calcErrorStopCrit c prox p γ x xh yh g gh) np oot intr ≠ .Converged := by
  apply nonfinite_never_converged tol _ maxIter maxNP k np oot intr hε _ htol
  intro h
  have := crit_NN XR.signLaws c prox p γ x xh yh g gh hγ
  rw [h] at this
  exact XR.not_nn_ninf this

/-- With a negative step size the hypothesis on `γ` is needed: `FPRNorm = ‖p‖∞/γ` is `−inf` for
    `‖p‖∞ = +inf`, `γ = −1`, and `−inf ≤ tolerance`. -/
example : calcErrorStopCrit .FPRNorm (fun _ _ _ => (([] : Vec (XR ℚ)), ([] : Vec (XR ℚ))))
    [XR.pinf] (XR.fin (-1)) [] [] [] [] [] = (XR.ninf : XR ℚ) := by
  decide +kernel

/-- non-vacuity: NaN in `p` gives a NaN residual, `+inf` a `+inf` one; neither is `Converged`. -/
example : calcErrorStopCrit .ProjGradNorm (fun _ _ _ => (([] : Vec (XR ℚ)), ([] : Vec (XR ℚ))))
    [XR.nan, XR.fin 1] (XR.fin 1) [] [] [] [] [] = (XR.nan : XR ℚ) ∧
    calcErrorStopCrit .FPRNorm2 (fun _ _ _ => (([] : Vec (XR ℚ)), ([] : Vec (XR ℚ))))
    [XR.fin 2, XR.pinf] (XR.fin (1/2)) [] [] [] [] [] = (XR.pinf : XR ℚ) := by
  decide +kernel

end nonfinite_crit

/-! ### The no-progress counter over a whole run -/

/-- Counter after processing the `same`-flags of iterations `k₀, k₀+1, …` in order. -/
def npRun (M : Nat) : Nat → Nat → List Bool → Nat
  | _, np, [] => np
  | k, np, s :: ss => npRun M (k + 1) (noProgressUpdate np k M s) ss

/-- Number of trailing `true`s. -/
def trailingTrue : List Bool → Nat
  | [] => 0
  | l@(_ :: _) => (l.reverse.takeWhile (· = true)).length

theorem noProgressUpdate_le (np k M : Nat) (s : Bool) :
    noProgressUpdate np k M s ≤ (if s then np + 1 else np) ∧
    (s = false → noProgressUpdate np k M s = 0 ∨ (noProgressUpdate np k M s = np ∧ np = 0)) := by
  unfold noProgressUpdate
  cases s <;> simp <;> split_ifs <;> simp_all <;> omega

/-- The counter never exceeds the number of *consecutive* most recent iterations in which the
    iterate did not change: `NoProgress` (counter `> max_no_progress`) therefore needs more than
    `max_no_progress` consecutive unchanged iterations. -/
theorem no_progress_counts_consecutive (M : Nat) (flags : List Bool) (k₀ : Nat) :
    npRun M k₀ 0 flags ≤ (flags.reverse.takeWhile (· = true)).length := by
  suffices h : ∀ (fl pre : List Bool) (k np : Nat),
      np ≤ (pre.reverse.takeWhile (· = true)).length →
      npRun M k np fl ≤ ((pre ++ fl).reverse.takeWhile (· = true)).length by
    simpa using h flags [] k₀ 0 (by simp)
  intro fl
  induction fl with
  | nil => intro pre k np h; simpa [npRun] using h
  | cons s ss ih =>
    intro pre k np h
    have := ih (pre ++ [s]) (k + 1) (noProgressUpdate np k M s) (by
      have hu := noProgressUpdate_le np k M s
      cases s
      · simp only [List.reverse_append, List.reverse_cons, List.reverse_nil, List.nil_append,
          List.singleton_append, List.takeWhile_cons]
        rcases hu.2 rfl with h0 | ⟨h1, h2⟩ <;> simp_all
      · simp only [List.reverse_append, List.reverse_cons, List.reverse_nil, List.nil_append,
          List.singleton_append, List.takeWhile_cons, decide_true, if_true, List.length_cons]
        have := hu.1; simp at this; omega)
    simpa [npRun, List.append_assoc] using this

/-- The counter after one more iteration. -/
theorem npRun_append_single (M k np : Nat) (fl : List Bool) (f : Bool) :
    npRun M k np (fl ++ [f]) = noProgressUpdate (npRun M k np fl) (k + fl.length) M f := by
  induction fl generalizing k np with
  | nil => simp [npRun]
  | cons x xs ih =>
    simp only [List.cons_append, npRun, List.length_cons]
    rw [ih]
    congr 1
    omega

/-- **The no-progress update, as a specification** — for every `max_no_progress`, `0` included: the
    counter is (re)started at the iterations `k` that are multiples of `max_no_progress` — at *every*
    iteration when `max_no_progress = 0` — and, once running, counts the consecutive unchanged iterates.
    (Before /repo commit f7343661f the statement was `no_progress > 0 || k % max_no_progress == 0`: a
    division by zero at `max_no_progress = 0`, finding `C06:max-no-progress-zero-division`, fixed.  The
    repaired statement short-circuits on `max_no_progress == 0`, so the value Lean's total `k % 0 = k` takes
    is never looked at: the generated function is a model of the code for all `max_no_progress`.) -/
theorem noProgressUpdate_spec (np k M : Nat) (same : Bool) :
    noProgressUpdate np k M same =
      if 0 < np ∨ M = 0 ∨ M ∣ k then (if same then np + 1 else 0) else np := by
  unfold noProgressUpdate
  have : (k % M == 0) = decide (M ∣ k) := by
    rw [Bool.eq_iff_iff]; simp [Nat.dvd_iff_mod_eq_zero]
  simp only [this, Bool.or_eq_true, decide_eq_true_eq, beq_iff_eq, or_assoc]

/-- `max_no_progress = 0`: every iteration is tested (`NoProgress` is reported at the first unchanged
    iterate, the chain's test being `no_progress > 0`). -/
theorem noProgressUpdate_zero (np k : Nat) (same : Bool) :
    noProgressUpdate np k 0 same = if same then np + 1 else 0 := by
  rw [noProgressUpdate_spec]; simp

/-- `no_progress_counts_consecutive` under its former name (the guard `1 ≤ max_no_progress` was needed while
    the C++ statement divided by zero at `max_no_progress = 0`; it is no longer). -/
theorem no_progress_counts_consecutive_guarded (M : Nat) (flags : List Bool) (k₀ : Nat) :
    npRun M k₀ 0 flags ≤ (flags.reverse.takeWhile (· = true)).length :=
  no_progress_counts_consecutive M flags k₀

/-! ### Stopping criteria = documented formulas -/
section crit
variable {α : Type} [Field α] [LinearOrder α] [IsStrictOrderedRing α] [RealLike α]

/-- Criteria for which `stop_crit_requires_grad_ψx̂` is false never read `∇ψ(x̂)` — so the
    loops may skip evaluating it exactly for those (a wrong table entry would feed stale data). -/
theorem requires_grad_hat_sound (c : PANOCStopCrit) (h : requiresGradHat c = false)
    (prox : α → Vec α → Vec α → Vec α × Vec α) (p : Vec α) (γ : α) (x xh yh g gh gh' : Vec α) :
    calcErrorStopCrit c prox p γ x xh yh g gh = calcErrorStopCrit c prox p γ x xh yh g gh' := by
  cases c <;> simp [requiresGradHat] at h <;> rfl

/-- and the criteria that do read it are flagged (witness: the value changes with `∇ψ(x̂)`). -/
example : requiresGradHat .ApproxKKT = true ∧ requiresGradHat .ApproxKKT2 = true ∧
    requiresGradHat .Ipopt = true := by decide

/-- ApproxKKT: `ε = ‖γ⁻¹(x − x̂) + ∇ψ(x̂) − ∇ψ(x)‖∞` with `p = x̂ − x` (the code computes the
    negated vector, with the parenthesisation that avoids cancellation). -/
theorem approxKKT_eq_doc (prox : α → Vec α → Vec α → Vec α × Vec α) (γ : α)
    (x xh yh g gh : Vec α) :
    stopCrit_ApproxKKT prox (vsub xh x) γ x xh yh g gh
      = normInf (vadd (smul (1 / γ) (vsub x xh)) (vsub gh g)) := by
  unfold stopCrit_ApproxKKT
  rw [← normInf_vneg]
  apply normInf_eq_of_abs_eq
  congr 1
  unfold vneg vadd vsub smul vzip
  induction x generalizing xh g gh with
  | nil => simp
  | cons a as ih =>
    cases xh <;> cases g <;> cases gh <;> simp_all <;> ring

/-! #### The documented formula of each of the ten criteria (panoc-stop-crit.hpp), as an independent spec

Norms are the mathematical ones of `Proofs/C06Spec`: `maxAbs v = max_i |v_i|`, `sumAbs v = Σ|v_i|`,
`√(sumSq v) = √(Σ v_i²)`.  `PC` is the projection onto `C` (any map: the formulas are written with `Π_C`).
The generated `calcErrorStopCrit` receives the step `p`, a prox *oracle* and work vectors; the link to the
documented quantities is
* `ProxIsProj PC prox`: the problem's `eval_prox_grad_step(γ, x, g)` returns `(Π_C(x − γg), Π_C(x − γg) − x)`;
* `Consistent PC γ p x xh g`: the iterate data handed in are those of the projected-gradient step from `x`:
  `x̂ = Π_C(x − γ∇ψ(x))`, `p = x̂ − x`. -/
open C06Spec

/-- `eval_prox_grad_step(γ, x, g) = (Π_C(x − γ g), Π_C(x − γ g) − x)`. -/
def ProxIsProj (PC : Vec α → Vec α) (prox : α → Vec α → Vec α → Vec α × Vec α) : Prop :=
  ∀ γ x g, prox γ x g = (PC (vsub x (smul γ g)), vsub (PC (vsub x (smul γ g))) x)

/-- `x̂ = Π_C(x − γ∇ψ(x))`, `p = x̂ − x`. -/
structure Consistent (PC : Vec α → Vec α) (γ : α) (p x xh g : Vec α) : Prop where
  hxh : xh = PC (vsub x (smul γ g))
  hp : p = vsub xh x

/-- Ipopt criterion *as documented*: `v = x̂ − ∇ψ(x̂)`, `w = v − Π_C(v)`, `ε' = ‖x̂ − Π_C(v)‖∞`,
    `s_d = max(s_max, (‖ŷ‖₁ + ‖w‖₁)/(2m + 2n))/s_max`, `ε = ε'/s_d`, `s_max = 100`
    (`ε = ε'` when `m + n = 0`, where the documented quotient is `0/0`). -/
def docIpopt (PC : Vec α → Vec α) (xh yh gh : Vec α) : α :=
  if 2 * (yh.length + xh.length) = 0 then maxAbs (vsub xh (PC (vsub xh gh)))
  else maxAbs (vsub xh (PC (vsub xh gh))) /
    (max 100 ((sumAbs yh + sumAbs (vsub (vsub xh gh) (PC (vsub xh gh)))) /
      ((2 * (yh.length + xh.length) : Nat) : α)) / 100)

/-- **The documented formula of every criterion** (doc comments of `enum class PANOCStopCrit`). -/
def docCrit (PC : Vec α → Vec α) (c : PANOCStopCrit) (γ : α) (x xh yh g gh : Vec α) : α :=
  match c with
  | .ApproxKKT => maxAbs (vadd (smul γ⁻¹ (vsub x xh)) (vsub gh g))
  | .ApproxKKT2 => RealLike.sqrt (sumSq (vadd (smul γ⁻¹ (vsub x xh)) (vsub gh g)))
  | .ProjGradNorm => maxAbs (vsub x (PC (vsub x (smul γ g))))
  | .ProjGradNorm2 => RealLike.sqrt (sumSq (vsub x (PC (vsub x (smul γ g)))))
  | .ProjGradUnitNorm => maxAbs (vsub x (PC (vsub x g)))
  | .ProjGradUnitNorm2 => RealLike.sqrt (sumSq (vsub x (PC (vsub x g))))
  | .FPRNorm => γ⁻¹ * maxAbs (vsub x (PC (vsub x (smul γ g))))
  | .FPRNorm2 => γ⁻¹ * RealLike.sqrt (sumSq (vsub x (PC (vsub x (smul γ g)))))
  | .Ipopt => docIpopt PC xh yh gh
  | .LBFGSBpp => maxAbs (vsub x (PC (vsub x g))) / max 1 (RealLike.sqrt (sumSq x))

/-- `|γ⁻¹ p + (∇ψ − ∇ψ̂)| = |γ⁻¹ (x − x̂) + (∇ψ̂ − ∇ψ)|` componentwise, for `p = x̂ − x`. -/
theorem kkt_abs (c : α) (x xh g gh : Vec α) :
    (vadd (smul c (vsub xh x)) (vsub g gh)).map (fun a => |a|) =
      (vadd (smul c (vsub x xh)) (vsub gh g)).map (fun a => |a|) := by
  unfold vadd vsub smul vzip
  induction x generalizing xh g gh with
  | nil => simp
  | cons a as ih =>
    cases xh with
    | nil => simp
    | cons b bs =>
      cases g with
      | nil => simp
      | cons d ds =>
        cases gh with
        | nil => simp
        | cons e es =>
          simp only [List.zipWith_cons_cons, List.map_cons, List.cons.injEq]
          refine ⟨?_, ih bs ds es⟩
          rw [← abs_neg]; congr 1; ring

theorem fmaxS_eq_max (hnn : ∀ a : α, RealLike.isNaN a = false) (a b : α) : fmaxS a b = max a b := by
  unfold fmaxS
  simp only [hnn, Bool.false_eq_true, if_false]
  exact emax_eq_max a b

/-- `|(q − x̂) + ∇ψ̂| = |(x̂ − ∇ψ̂) − q|` componentwise: the vector the code takes the 1-norm of is `−w`. -/
theorem ipopt_abs (q xh gh : Vec α) :
    (vadd (vsub q xh) gh).map (fun a => |a|) = (vsub (vsub xh gh) q).map (fun a => |a|) := by
  unfold vadd vsub vzip
  induction q generalizing xh gh with
  | nil => simp
  | cons a as ih =>
    cases xh with
    | nil => simp
    | cons b bs =>
      cases gh with
      | nil => simp
      | cons d ds =>
        simp only [List.zipWith_cons_cons, List.map_cons, List.cons.injEq]
        refine ⟨?_, ih bs ds⟩
        rw [← abs_neg]; congr 1; ring

/-- **`calc_error_stop_crit` = the documented formula, for all ten criteria** — the generated code (which
    works from the step `p` it is handed, prox-oracle calls and work vectors) computes the documented quantity
    of `(x, x̂, ŷ, γ, ∇ψ(x), ∇ψ(x̂))`.  `γ ≠ 0` is a hypothesis because the formulas divide by `γ`: at `γ = 0`
    both sides would only agree through the field convention `x/0 = 0` (the solvers keep `γ > 0`:
    `Props/C06_Fista.fista_eps_is_documented`, `Props/C06_Ocp.ocp_eps_is_documented`).  (`Ipopt`: since /repo commit f69b0f2f3; before, the box multipliers
    entered the scaling `s_d` with the wrong sign of `∇ψ(x̂)` — finding `C06:ipopt-box-multiplier-sign`, fixed.) -/
theorem calcErrorStopCrit_eq_doc (hnn : ∀ a : α, RealLike.isNaN a = false) (PC : Vec α → Vec α)
    (prox : α → Vec α → Vec α → Vec α × Vec α) (hP : ProxIsProj PC prox)
    (c : PANOCStopCrit) (γ : α) (hγ : γ ≠ 0) (p x xh yh g gh : Vec α)
    (hd : Consistent PC γ p x xh g) :
    calcErrorStopCrit c prox p γ x xh yh g gh = docCrit PC c γ x xh yh g gh := by
  have hp := hd.hp
  have hxh := hd.hxh
  have hu : (prox 1 x g).2 = vsub (PC (vsub x g)) x := by rw [hP 1 x g, smul_one]
  have e1 : normInf p = maxAbs (vsub x (PC (vsub x (smul γ g)))) := by
    rw [normInf_eq_maxAbs, hp, ← hxh]; exact maxAbs_congr_abs _ _ (abs_vsub_comm _ _)
  have e2 : norm2 p = RealLike.sqrt (sumSq (vsub x (PC (vsub x (smul γ g))))) := by
    rw [norm2_eq_sqrt_sumSq, hp, ← hxh]; congr 1; exact sumSq_congr_abs _ _ (abs_vsub_comm _ _)
  have e3 : normInf (prox 1 x g).2 = maxAbs (vsub x (PC (vsub x g))) := by
    rw [normInf_eq_maxAbs, hu]; exact maxAbs_congr_abs _ _ (abs_vsub_comm _ _)
  have e4 : norm2 (prox 1 x g).2 = RealLike.sqrt (sumSq (vsub x (PC (vsub x g)))) := by
    rw [norm2_eq_sqrt_sumSq, hu]; congr 1; exact sumSq_congr_abs _ _ (abs_vsub_comm _ _)
  cases c
  · simp only [calcErrorStopCrit, stopCrit_ApproxKKT, docCrit]
    rw [normInf_eq_maxAbs, hp, one_div]
    exact maxAbs_congr_abs _ _ (kkt_abs _ _ _ _ _)
  · simp only [calcErrorStopCrit, stopCrit_ApproxKKT2, docCrit]
    rw [norm2_eq_sqrt_sumSq, hp, one_div]
    congr 1
    exact sumSq_congr_abs _ _ (kkt_abs _ _ _ _ _)
  · simp only [calcErrorStopCrit, stopCrit_ProjGradNorm, docCrit]; exact e1
  · simp only [calcErrorStopCrit, stopCrit_ProjGradNorm2, docCrit]; exact e2
  · simp only [calcErrorStopCrit, stopCrit_ProjGradUnitNorm, docCrit]; exact e3
  · simp only [calcErrorStopCrit, stopCrit_ProjGradUnitNorm2, docCrit]; exact e4
  · simp only [calcErrorStopCrit, stopCrit_FPRNorm, docCrit]; rw [e1, div_eq_inv_mul]
  · simp only [calcErrorStopCrit, stopCrit_FPRNorm2, docCrit]; rw [e2, div_eq_inv_mul]
  · -- Ipopt
    have hu' : (prox 1 xh gh).2 = vsub (PC (vsub xh gh)) xh := by rw [hP 1 xh gh, smul_one]
    have e5 : normInf (prox 1 xh gh).2 = maxAbs (vsub xh (PC (vsub xh gh))) := by
      rw [normInf_eq_maxAbs, hu']; exact maxAbs_congr_abs _ _ (abs_vsub_comm _ _)
    simp only [calcErrorStopCrit, stopCrit_Ipopt, docCrit, docIpopt]
    by_cases hn : 2 * (yh.length + xh.length) = 0
    · simp only [hn, beq_self_eq_true, if_true]; exact e5
    · have hb : ((2 * (yh.length + xh.length)) == 0) = false := by simpa using hn
      simp only [hb, hn, Bool.false_eq_true, if_false]
      rw [e5, emax_eq_max, norm1_eq_sumAbs, norm1_eq_sumAbs, hu', add_comm (sumAbs _) (sumAbs yh),
        sumAbs_congr_abs _ _ (ipopt_abs _ _ _)]
  · simp only [calcErrorStopCrit, stopCrit_LBFGSBpp, docCrit]
    rw [e3, fmaxS_eq_max hnn, norm2_eq_sqrt_sumSq]

/-- A tolerance met in the ∞-norm bounds every component of the residual vector. -/
theorem approxKKT_componentwise (prox : α → Vec α → Vec α → Vec α × Vec α) (γ tol : α)
    (p x xh yh g gh : Vec α) (h : stopCrit_ApproxKKT prox p γ x xh yh g gh ≤ tol) :
    ∀ e ∈ vadd (smul (1 / γ) p) (vsub g gh), |e| ≤ tol := by
  intro e he
  exact le_trans (abs_le_normInf _ e he) h

/-- PANOC-OCP supports exactly six criteria; the other four make the solver throw. -/
theorem ocp_supported (c : PANOCStopCrit) (proxOcp : α → Vec α → Vec α → Vec α × Vec α × α)
    (γ : α) (xu g p : Vec α) (pTp : α) :
    (calcErrorStopCritOcp c proxOcp γ xu g p pTp).isSome =
      decide (c ∈ [.ProjGradNorm, .ProjGradNorm2, .ProjGradUnitNorm, .ProjGradUnitNorm2,
                   .FPRNorm, .FPRNorm2]) := by
  cases c <;> rfl

/-- **On all six supported criteria the PANOC-OCP copy computes what the general `calc_error_stop_crit`
    computes** — given that the general prox oracle is the view `(x̂, p)` of the OCP one and that the stored
    `‖p‖²` (resp. the one returned with the unit step) is the squared norm of the step (the OCP copy takes
    `√(pᵀp)` from the accumulated scalar where the general one calls `p.norm()`). -/
theorem ocp_crit_agree (proxOcp : α → Vec α → Vec α → Vec α × Vec α × α)
    (prox : α → Vec α → Vec α → Vec α × Vec α)
    (hprox : ∀ γ x g, prox γ x g = ((proxOcp γ x g).1, (proxOcp γ x g).2.1))
    (γ : α) (xu g p xh yh gh : Vec α) (pTp : α) (hp : pTp = sqNorm p)
    (hw : (proxOcp 1 xu g).2.2 = sqNorm (proxOcp 1 xu g).2.1)
    (c : PANOCStopCrit)
    (hc : c ∈ [PANOCStopCrit.ProjGradNorm, .ProjGradNorm2, .ProjGradUnitNorm, .ProjGradUnitNorm2, .FPRNorm, .FPRNorm2]) :
    calcErrorStopCritOcp c proxOcp γ xu g p pTp = some (calcErrorStopCrit c prox p γ xu xh yh g gh) := by
  simp only [List.mem_cons, List.mem_nil_iff, or_false] at hc
  rcases hc with rfl | rfl | rfl | rfl | rfl | rfl
  · rfl
  · simp only [calcErrorStopCritOcp, calcErrorStopCrit, stopCritOcp_ProjGradNorm2, stopCrit_ProjGradNorm2, norm2, hp]
  · simp only [calcErrorStopCritOcp, calcErrorStopCrit, stopCritOcp_ProjGradUnitNorm, stopCrit_ProjGradUnitNorm,
      hprox]
  · simp only [calcErrorStopCritOcp, calcErrorStopCrit, stopCritOcp_ProjGradUnitNorm2, stopCrit_ProjGradUnitNorm2,
      hprox, norm2, hw]
  · rfl
  · simp only [calcErrorStopCritOcp, calcErrorStopCrit, stopCritOcp_FPRNorm2, stopCrit_FPRNorm2, norm2, hp]

end crit

/-! ### Non-vacuity -/

example : statusChain (XR.fin (1 : ℚ)) 10 5 3 (XR.fin 0) 0 false false = .Converged := by
  decide
example : statusChain (XR.fin (1 : ℚ)) 10 5 10 (XR.fin 2) 0 false false = .MaxIter := by
  decide
example : statusChain (XR.fin (1 : ℚ)) 10 5 3 (XR.nan) 0 false false = .NotFinite := by
  decide
example : npRun 2 0 0 [true, true, true, false, true] = 1 := by decide
example : npRun 2 0 0 [true, true, true] = 3 := by decide

/-! ### Non-vacuity of the documented-formula theorems -/
section doc_examples
local instance ratRealLikeC06 : RealLike ℚ := ⟨id, fun _ => false, fun _ => true⟩

/-- projection onto the box `[-1, 1]ⁿ` and the corresponding projected-gradient step -/
def exPC (v : Vec ℚ) : Vec ℚ := v.map fun a => min (max a (-1)) 1
def exProx (γ : ℚ) (x g : Vec ℚ) : Vec ℚ × Vec ℚ :=
  (exPC (vsub x (smul γ g)), vsub (exPC (vsub x (smul γ g))) x)

/-- `x = (½, 0)`, `∇ψ(x) = (−3, 1)`, `γ = ½`: `x̂ = Π_C(2, −½) = (1, −½)`, `p = (½, −½)`. -/
theorem exConsistent : Consistent exPC (1/2) [1/2, -1/2] [1/2, 0] [1, -1/2] [-3, 1] :=
  ⟨by decide +kernel, by decide +kernel⟩

/-- all hypotheses of `calcErrorStopCrit_eq_doc` instantiated, for each of the ten criteria -/
example (c : PANOCStopCrit) :
    calcErrorStopCrit c exProx [1/2, -1/2] (1/2) [1/2, 0] [1, -1/2] [7] [-3, 1] [2, 5]
      = docCrit exPC c (1/2) [1/2, 0] [1, -1/2] [7] [-3, 1] [2, 5] :=
  calcErrorStopCrit_eq_doc (fun _ => rfl) exPC exProx (fun _ _ _ => rfl) c _ (by norm_num) _ _ _ _ _ _ exConsistent

/-- the documented values at that point: `‖p‖∞ = ½`, `‖p‖∞/γ = 1`, unit step
    `x − Π_C(x − ∇ψ) = (−½, 1)`, KKT residual `γ⁻¹(x − x̂) + ∇ψ̂ − ∇ψ = (4, 5)` -/
example : docCrit exPC .ProjGradNorm (1/2) [1/2, 0] [1, -1/2] [7] [-3, 1] [2, 5] = 1/2 ∧
    docCrit exPC .FPRNorm (1/2) [1/2, 0] [1, -1/2] [7] [-3, 1] [2, 5] = 1 ∧
    docCrit exPC .ProjGradUnitNorm (1/2) [1/2, 0] [1, -1/2] [7] [-3, 1] [2, 5] = 1 ∧
    docCrit exPC .ApproxKKT (1/2) [1/2, 0] [1, -1/2] [7] [-3, 1] [2, 5] = 5 := by
  decide +kernel

/-- **Ipopt at the point where the code used to differ from the documentation** — unconstrained
    (`Π_C = id`), `x̂ = 0`, `∇ψ(x̂) = 1000`, no general constraints: `w = 0`, `s_d = 1`, `ε = 1000` (the
    unrepaired code returned 100); and with large multipliers `ŷ = (900, 900)` (`m = 2`, `n = 1`):
    `s_d = max(100, 1800/6)/100 = 3`, `ε = 1000/3`. -/
example : docIpopt (fun v : Vec ℚ => v) [0] [] [1000] = 1000 ∧
    calcErrorStopCrit .Ipopt (fun (γ : ℚ) x g => (vsub x (smul γ g), vsub (vsub x (smul γ g)) x))
      [] 1 [] [0] [] [] [1000] = 1000 ∧
    calcErrorStopCrit .Ipopt (fun (γ : ℚ) x g => (vsub x (smul γ g), vsub (vsub x (smul γ g)) x))
      [] 1 [] [0] [900, 900] [] [1000] = 1000 / 3 := by
  decide +kernel

example : noProgressUpdate 0 4 2 true = 1 ∧ noProgressUpdate 0 5 2 true = 0 ∧ noProgressUpdate 3 5 2 true = 4 ∧
    noProgressUpdate 0 5 0 true = 1 ∧ noProgressUpdate 2 7 0 false = 0 := by
  decide
/-- `max_no_progress = 0`: the counter is the number of trailing unchanged iterates -/
example : npRun 0 0 0 [true, false, true, true] = 2 := by decide
/-- `ocp_crit_agree` with every hypothesis discharged (`p = (3, 4)`, stored `‖p‖² = 25`), for each of the six -/
example (c : PANOCStopCrit)
    (hc : c ∈ [PANOCStopCrit.ProjGradNorm, .ProjGradNorm2, .ProjGradUnitNorm, .ProjGradUnitNorm2, .FPRNorm, .FPRNorm2]) :
    calcErrorStopCritOcp c (fun (_ : ℚ) x g => (x, g, sqNorm g)) (1/2) [1, 1] [6, 8] [3, 4] 25
      = some (calcErrorStopCrit c (fun (_ : ℚ) x g => (x, g)) [3, 4] (1/2) [1, 1] [] [] [6, 8] []) :=
  ocp_crit_agree _ _ (fun _ _ _ => rfl) _ _ _ _ _ _ _ _ (by decide +kernel) rfl c hc

/-- `stop_gives_interrupted_or_natural`: tolerance met at the same moment → `Converged ∧ ε ≤ tol'` -/
example : statusChain (1 : ℚ) 10 5 3 (1/2) 0 false true = .Converged ∧ (1/2 : ℚ) ≤ effTol 1 := by
  have h := stop_gives_interrupted_or_natural (1 : ℚ) 10 5 3 (1/2) 0 false
  have hc : statusChain (1 : ℚ) 10 5 3 (1/2) 0 false true = .Converged := by decide +kernel
  rcases h with h | h | h | h | h | h
  · rw [hc] at h; exact absurd h (by decide)
  · exact h
  all_goals (rw [hc] at h; exact absurd h.1 (by decide))

end doc_examples

end Alpaqa.Props.C06
