/-
  C06 — Exit status, iteration count and reported residual mean what is documented.

  `statusChain`, `statusChainOcp`, `calcErrorStopCrit`, `requiresGradHat`, `noProgressUpdate`
  are regenerated from /repo's C++ on every run (`Alpaqa/Gen/C06.lean`).  The chain theorems hold
  for *every* carrier with *any* decidable order and any classification of "finite" — they are
  pure decision logic, so in particular they hold for IEEE doubles (NaN, ±inf included).
  Loop-level facts (iteration count, which iterate ε is computed from) are in `Props/Loop.lean`
  for the solver loop models.
-/
import Alpaqa.Proofs.VecLemmas
import Alpaqa.Gen.C06
import Alpaqa.Model.XR

namespace Alpaqa.Props.C06
open Alpaqa Alpaqa.Gen

/-! ### The status chain: pure decision logic, any carrier (IEEE doubles included) -/
section chain
variable {α : Type} [LT α] [LE α] [DecidableLT α] [DecidableLE α] [RealLike α]
  [OfNat α 0] [OfScientific α]

/-- The tolerance the chain actually tests against. -/
def effTol (tol : α) : α := if tol > 0 then tol else (1e-8 : α)

variable (tol : α) (maxIter maxNP k : Nat) (ε : α) (np : Nat) (oot intr : Bool)

/-- `Converged` is reported exactly when `ε ≤ tolerance'`. -/
theorem converged_iff :
    statusChain tol maxIter maxNP k ε np oot intr = .Converged ↔ ε ≤ effTol tol := by
  unfold statusChain effTol
  simp only [decide_eq_true_eq]
  by_cases h1 : tol > 0 <;> simp only [h1, if_true, if_false] <;>
  · constructor
    · intro hh; split_ifs at hh; assumption
    · intro hh; simp [hh]

/-- A satisfied tolerance wins over every limit reached at the same moment. -/
theorem converged_wins (h : ε ≤ effTol tol) :
    statusChain tol maxIter maxNP k ε np oot intr = .Converged :=
  (converged_iff tol maxIter maxNP k ε np oot intr).mpr h

theorem maxTime_only_if (h : statusChain tol maxIter maxNP k ε np oot intr = .MaxTime) :
    oot = true := by
  unfold statusChain at h; simp only [] at h; split_ifs at h <;> simp_all

/-- `MaxIter` only with the iteration count equal to `max_iter`. -/
theorem maxIter_only_if (h : statusChain tol maxIter maxNP k ε np oot intr = .MaxIter) :
    k = maxIter := by
  unfold statusChain at h; simp only [] at h; split_ifs at h <;> simp_all

/-- `NotFinite` only with a non-finite residual. -/
theorem notFinite_only_if (h : statusChain tol maxIter maxNP k ε np oot intr = .NotFinite) :
    RealLike.isFinite ε = false := by
  unfold statusChain at h; simp only [] at h; split_ifs at h <;> simp_all

/-- `NoProgress` only when the counter exceeds `max_no_progress`. -/
theorem noProgress_only_if (h : statusChain tol maxIter maxNP k ε np oot intr = .NoProgress) :
    np > maxNP := by
  unfold statusChain at h; simp only [] at h; split_ifs at h <;> simp_all

/-- `Interrupted` only after a stop request. -/
theorem interrupted_only_if (h : statusChain tol maxIter maxNP k ε np oot intr = .Interrupted) :
    intr = true := by
  unfold statusChain at h; simp only [] at h; split_ifs at h <;> simp_all

/-- The loop continues (`Busy`) only if no exit condition holds; in particular `k ≠ max_iter`
    and no stop request — the facts the iteration bound and prompt interruption rest on. -/
theorem busy_only_if (h : statusChain tol maxIter maxNP k ε np oot intr = .Busy) :
    ¬ ε ≤ effTol tol ∧ oot = false ∧ k ≠ maxIter ∧ RealLike.isFinite ε = true ∧
      ¬ np > maxNP ∧ intr = false := by
  unfold statusChain effTol at *; simp only [] at h; split_ifs at h <;> simp_all

theorem never_exception : statusChain tol maxIter maxNP k ε np oot intr ≠ .Exception := by
  unfold statusChain; simp only []; split_ifs <;> simp

/-- A stop request seen at a loop-head check always ends the loop there. -/
theorem stop_requested_not_busy :
    statusChain tol maxIter maxNP k ε np oot true ≠ .Busy := by
  unfold statusChain; simp only []; split_ifs <;> simp

/-- Reaching `max_iter` always ends the loop. -/
theorem max_iter_not_busy : statusChain tol maxIter maxNP maxIter ε np oot intr ≠ .Busy := by
  unfold statusChain; simp only []; split_ifs <;> simp_all

/-- The PANOC-OCP copy of the chain is the same function. -/
theorem chains_agree :
    statusChainOcp tol maxIter maxNP k ε np oot intr = statusChain tol maxIter maxNP k ε np oot intr := rfl

end chain

/-! ### Non-finite residuals (IEEE comparison semantics via `XR`) -/
section nonfinite
variable {β : Type} [LT β] [LE β] [DecidableLT β] [DecidableLE β] [OfNat β 0] [OfScientific β]

/-- A NaN or `+inf` residual is never `Converged`, whatever finite tolerance is requested.
    (`-inf ≤ tol` holds in IEEE arithmetic; residuals are norms / norms over `γ > 0` and cannot be
    `-inf`, which is why `ε ≠ ninf` is a hypothesis.) -/
theorem nonfinite_never_converged (tol ε : XR β) (maxIter maxNP k np : Nat) (oot intr : Bool)
    (hε : RealLike.isFinite ε = false) (hni : ε ≠ .ninf)
    (htol : RealLike.isFinite (effTol tol) = true) :
    statusChain tol maxIter maxNP k ε np oot intr ≠ .Converged := by
  rw [Ne, converged_iff]
  generalize effTol tol = t at htol
  cases ε <;> cases t <;> simp_all [LE.le, XR.leb, RealLike.isFinite, XR.isFiniteX]

/-- …and such a run reports `NotFinite` unless a time or iteration limit is hit first. -/
theorem nonfinite_reports_notFinite (tol ε : XR β) (maxIter maxNP k np : Nat) (intr : Bool)
    (hε : RealLike.isFinite ε = false) (hni : ε ≠ .ninf)
    (htol : RealLike.isFinite (effTol tol) = true) (hk : k ≠ maxIter) :
    statusChain tol maxIter maxNP k ε np false intr = .NotFinite := by
  have hc := nonfinite_never_converged tol ε maxIter maxNP k np false intr hε hni htol
  rw [Ne, converged_iff] at hc
  unfold statusChain effTol at *
  simp_all

end nonfinite

/-! ### The no-progress counter over a whole run -/

/-- Counter after processing the `same`-flags of iterations `k₀, k₀+1, …` in order. -/
def npRun (M : Nat) : Nat → Nat → List Bool → Nat
  | _, np, [] => np
  | k, np, s :: ss => npRun M (k + 1) (noProgressUpdate np k M s) ss

/-- Number of trailing `true`s. -/
def trailingTrue : List Bool → Nat
  | [] => 0
  | l@(_ :: _) => (l.reverse.takeWhile (· = true)).length

theorem noProgressUpdate_le (np k M : Nat) (s : Bool) :
    noProgressUpdate np k M s ≤ (if s then np + 1 else np) ∧
    (s = false → noProgressUpdate np k M s = 0 ∨ (noProgressUpdate np k M s = np ∧ np = 0)) := by
  unfold noProgressUpdate
  cases s <;> simp <;> split_ifs <;> simp_all <;> omega

/-- The counter never exceeds the number of *consecutive* most recent iterations in which the
    iterate did not change: `NoProgress` (counter `> max_no_progress`) therefore needs more than
    `max_no_progress` consecutive unchanged iterations. -/
theorem no_progress_counts_consecutive (M : Nat) (flags : List Bool) (k₀ : Nat) :
    npRun M k₀ 0 flags ≤ (flags.reverse.takeWhile (· = true)).length := by
  suffices h : ∀ (fl pre : List Bool) (k np : Nat),
      np ≤ (pre.reverse.takeWhile (· = true)).length →
      npRun M k np fl ≤ ((pre ++ fl).reverse.takeWhile (· = true)).length by
    simpa using h flags [] k₀ 0 (by simp)
  intro fl
  induction fl with
  | nil => intro pre k np h; simpa [npRun] using h
  | cons s ss ih =>
    intro pre k np h
    have := ih (pre ++ [s]) (k + 1) (noProgressUpdate np k M s) (by
      have hu := noProgressUpdate_le np k M s
      cases s
      · simp only [List.reverse_append, List.reverse_cons, List.reverse_nil, List.nil_append,
          List.singleton_append, List.takeWhile_cons]
        rcases hu.2 rfl with h0 | ⟨h1, h2⟩ <;> simp_all
      · simp only [List.reverse_append, List.reverse_cons, List.reverse_nil, List.nil_append,
          List.singleton_append, List.takeWhile_cons, decide_true, if_true, List.length_cons]
        have := hu.1; simp at this; omega)
    simpa [npRun, List.append_assoc] using this

/-! ### Stopping criteria = documented formulas -/
section crit
variable {α : Type} [Field α] [LinearOrder α] [IsStrictOrderedRing α] [RealLike α]

/-- Criteria for which `stop_crit_requires_grad_ψx̂` is false never read `∇ψ(x̂)` — so the
    loops may skip evaluating it exactly for those (a wrong table entry would feed stale data). -/
theorem requires_grad_hat_sound (c : PANOCStopCrit) (h : requiresGradHat c = false)
    (prox : α → Vec α → Vec α → Vec α × Vec α) (p : Vec α) (γ : α) (x xh yh g gh gh' : Vec α) :
    calcErrorStopCrit c prox p γ x xh yh g gh = calcErrorStopCrit c prox p γ x xh yh g gh' := by
  cases c <;> simp [requiresGradHat] at h <;> rfl

/-- and the criteria that do read it are flagged (witness: the value changes with `∇ψ(x̂)`). -/
example : requiresGradHat .ApproxKKT = true ∧ requiresGradHat .ApproxKKT2 = true ∧
    requiresGradHat .Ipopt = true := by decide

/-- ApproxKKT: `ε = ‖γ⁻¹(x − x̂) + ∇ψ(x̂) − ∇ψ(x)‖∞` with `p = x̂ − x` (the code computes the
    negated vector, with the parenthesisation that avoids cancellation). -/
theorem approxKKT_eq_doc (prox : α → Vec α → Vec α → Vec α × Vec α) (γ : α)
    (x xh yh g gh : Vec α) :
    stopCrit_ApproxKKT prox (vsub xh x) γ x xh yh g gh
      = normInf (vadd (smul (1 / γ) (vsub x xh)) (vsub gh g)) := by
  unfold stopCrit_ApproxKKT
  rw [← normInf_vneg]
  apply normInf_eq_of_abs_eq
  congr 1
  unfold vneg vadd vsub smul vzip
  induction x generalizing xh g gh with
  | nil => simp
  | cons a as ih =>
    cases xh <;> cases g <;> cases gh <;> simp_all <;> ring

/-- ProjGradNorm / FPRNorm: `‖p‖∞` and `‖p‖∞ / γ` of the step `p` handed in. -/
theorem projGradNorm_eq_doc (prox : α → Vec α → Vec α → Vec α × Vec α) (γ : α)
    (p x xh yh g gh : Vec α) :
    stopCrit_ProjGradNorm prox p γ x xh yh g gh = normInf p ∧
    stopCrit_FPRNorm prox p γ x xh yh g gh = normInf p / γ ∧
    stopCrit_ProjGradNorm2 prox p γ x xh yh g gh = norm2 p ∧
    stopCrit_FPRNorm2 prox p γ x xh yh g gh = norm2 p / γ := ⟨rfl, rfl, rfl, rfl⟩

/-- ProjGradUnitNorm / LBFGSBpp: the prox step is re-evaluated with unit step size at `x`. -/
theorem projGradUnitNorm_eq_doc (prox : α → Vec α → Vec α → Vec α × Vec α) (γ : α)
    (p x xh yh g gh : Vec α) :
    stopCrit_ProjGradUnitNorm prox p γ x xh yh g gh = normInf (prox 1 x g).2 ∧
    stopCrit_ProjGradUnitNorm2 prox p γ x xh yh g gh = norm2 (prox 1 x g).2 ∧
    stopCrit_LBFGSBpp prox p γ x xh yh g gh = normInf (prox 1 x g).2 / fmaxS 1 (norm2 x) :=
  ⟨rfl, rfl, rfl⟩

/-- A tolerance met in the ∞-norm bounds every component of the residual vector. -/
theorem approxKKT_componentwise (prox : α → Vec α → Vec α → Vec α × Vec α) (γ tol : α)
    (p x xh yh g gh : Vec α) (h : stopCrit_ApproxKKT prox p γ x xh yh g gh ≤ tol) :
    ∀ e ∈ vadd (smul (1 / γ) p) (vsub g gh), |e| ≤ tol := by
  intro e he
  exact le_trans (abs_le_normInf _ e he) h

/-- PANOC-OCP supports exactly six criteria; the other four make the solver throw. -/
theorem ocp_supported (c : PANOCStopCrit) (proxOcp : α → Vec α → Vec α → Vec α × Vec α × α)
    (γ : α) (xu g p : Vec α) (pTp : α) :
    (calcErrorStopCritOcp c proxOcp γ xu g p pTp).isSome =
      decide (c ∈ [.ProjGradNorm, .ProjGradNorm2, .ProjGradUnitNorm, .ProjGradUnitNorm2,
                   .FPRNorm, .FPRNorm2]) := by
  cases c <;> rfl

/-- On the supported criteria the OCP copy computes the same `∞`-norm quantities. -/
theorem ocp_crit_agree (proxOcp : α → Vec α → Vec α → Vec α × Vec α × α)
    (prox : α → Vec α → Vec α → Vec α × Vec α) (γ : α) (xu g p xh yh gh : Vec α) (pTp : α) :
    calcErrorStopCritOcp .ProjGradNorm proxOcp γ xu g p pTp
      = some (calcErrorStopCrit .ProjGradNorm prox p γ xu xh yh g gh) ∧
    calcErrorStopCritOcp .FPRNorm proxOcp γ xu g p pTp
      = some (calcErrorStopCrit .FPRNorm prox p γ xu xh yh g gh) := ⟨rfl, rfl⟩

end crit

/-! ### Non-vacuity -/

example : statusChain (XR.fin (1 : ℚ)) 10 5 3 (XR.fin 0) 0 false false = .Converged := by
  decide
example : statusChain (XR.fin (1 : ℚ)) 10 5 10 (XR.fin 2) 0 false false = .MaxIter := by
  decide
example : statusChain (XR.fin (1 : ℚ)) 10 5 3 (XR.nan) 0 false false = .NotFinite := by
  decide
example : npRun 2 0 0 [true, true, true, false, true] = 1 := by decide
example : npRun 2 0 0 [true, true, true] = 3 := by decide

end Alpaqa.Props.C06
