/-
  C19 (PANTR) — `stop()` interrupts promptly, leaving valid results.

  PANTR polls the stop flag in exactly one place: `check_all_stop_conditions` at the loop head.
  Unlike PANOC / ZeroFPR it has **no** `while (!stop_signal.stop_requested())` loop — its only inner
  loops are the `backtrack_qub` step-size loops, which do not look at the flag.  So the statements
  are:

  * a request visible at a head check ends the solve *there* (`pantr_stop_at_head_exits`): no
    further iteration, the iterate that is current is written back (C03 applies to it);
  * a request landing anywhere inside iteration `k` (after that iteration's head poll) lets the
    iteration finish and exits at the next head with `iterations = k + 1`
    (`pantr_stop_during_iteration`) — "at most one further iteration's worth of evaluations";
  * what bounds that work: one iteration is at most `15 + 2·b` events (problem evaluations by the
    solver, direction calls, one callback), `b` = step-size halvings in it (`pantr_iteration_events`),
    the exit adds at most 3 (`pantr_events_after_visible_stop`), and over an ordered field each
    `backtrack_qub` loop makes `n` passes only if `L·2ⁿ⁻¹ < L_max` (`backtrack_passes_bounded`):
    with `L > 0` and finite `L_max` at most `⌊log₂(L_max/L)⌋ + 1` passes — *independent of the stop
    flag*.  With `L_max = ∞` the bound comes from IEEE overflow only (≈ 2100 doublings); this is
    the one place where PANTR's promptness rests on a parameter rather than on the flag.
  * `Interrupted` only if the flag was visible at the last head; otherwise the natural status
    (`pantr_interrupted_or_natural`).
  * outputs after an interrupted solve satisfy the same contract as any exit:
    `Props/C03_Pantr.pantr_exit_contract` quantifies over all stop schedules.

  Not modelled: data-race freedom of the flag (C++ memory model), see DESIGN §6 C19.
-/
import Alpaqa.Proofs.PantrOrd
import Alpaqa.Proofs.PantrExample
import Alpaqa.Props.C06
import Alpaqa.Props.C06_Pantr

namespace Alpaqa.Props.C19_Pantr
open Alpaqa Alpaqa.Pantr Alpaqa.Gen
set_option linter.unusedSectionVars false

/-- The stop flag is never cleared during a solve (only `stop()` writes it). -/
def MonotoneStop (stop : Nat → Bool) : Prop := ∀ a b, a ≤ b → stop a = true → stop b = true

section structural
variable {α D : Type} [Add α] [Sub α] [Mul α] [Div α] [Neg α] [LT α] [LE α] [DecidableLT α]
  [DecidableLE α] [BEq α] [RealLike α] [NatCast α] [OfScientific α]
  [OfNat α 0] [OfNat α 1] [OfNat α 2] [OfNat α 100]

/-- **A stop request visible at a loop-head check ends the solve there**: the loop returns the exit
    block of this very head — `iterations = k`, the current iterate is the final one, the status is
    not `Busy` (it is `Interrupted` unless a higher-priority condition of the chain holds). -/
theorem pantr_stop_at_head_exits (co : Consts α) (P : Problem α) (dir : Direction D α) (pr : Params α)
    (stop : Nat → Bool) (oot : Bool) (x0 y Sig errz0 : Vec α) (fuel : Nat) (s : St α D)
    (hstop : stop (headStep P pr stop oot s).1.tick = true) :
    (headStep P pr stop oot s).2.2 ≠ .Busy ∧
    mainLoop co P dir pr stop oot x0 y Sig errz0 (fuel + 1) s =
      exitBlock co pr (headStep P pr stop oot s).1 (headStep P pr stop oot s).2.1
        (headStep P pr stop oot s).2.2 x0 y Sig errz0 ∧
    (mainLoop co P dir pr stop oot x0 y Sig errz0 (fuel + 1) s).stats.iterations = s.k ∧
    (mainLoop co P dir pr stop oot x0 y Sig errz0 (fuel + 1) s).final = some s.curr := by
  have hb : (headStep P pr stop oot s).2.2 ≠ .Busy := by
    rw [headStep_status, hstop]; exact C06.stop_requested_not_busy _ _ _ _ _ _ _
  have he : mainLoop co P dir pr stop oot x0 y Sig errz0 (fuel + 1) s =
      exitBlock co pr (headStep P pr stop oot s).1 (headStep P pr stop oot s).2.1
        (headStep P pr stop oot s).2.2 x0 y Sig errz0 := by
    unfold mainLoop; simp [hb]
  have hf := exitBlock_fields co pr (headStep P pr stop oot s).1 (headStep P pr stop oot s).2.1
    (headStep P pr stop oot s).2.2 x0 y Sig errz0
  have hh := headStep_same P pr stop oot s
  exact ⟨hb, he, by rw [he, hf.2.2.1, hh.2.2.1], by rw [he, hf.2.2.2.2.1, hh.1]⟩

/-- With a flag that is never cleared: a request already visible when a pass of the loop starts
    ends the solve in that pass, after at most 3 more events (`∇ψ(x̂)` if the criterion needs it, the
    unit-step prox of some criteria, the final callback). -/
theorem pantr_events_after_visible_stop (co : Consts α) (P : Problem α) (dir : Direction D α)
    (pr : Params α) (stop : Nat → Bool) (hm : MonotoneStop stop) (oot : Bool) (x0 y Sig errz0 : Vec α)
    (fuel : Nat) (s : St α D) (hstop : stop s.tick = true) :
    (mainLoop co P dir pr stop oot x0 y Sig errz0 (fuel + 1) s).stats.iterations = s.k ∧
    (mainLoop co P dir pr stop oot x0 y Sig errz0 (fuel + 1) s).final = some s.curr ∧
    (mainLoop co P dir pr stop oot x0 y Sig errz0 (fuel + 1) s).stats.status ≠ .Busy ∧
    (mainLoop co P dir pr stop oot x0 y Sig errz0 (fuel + 1) s).ticks ≤ s.tick + 3 := by
  have hh := headStep_same P pr stop oot s
  have hst : stop (headStep P pr stop oot s).1.tick = true := hm _ _ hh.2.2.2.1 hstop
  obtain ⟨hb, he, hi, hfin⟩ := pantr_stop_at_head_exits co P dir pr stop oot x0 y Sig errz0 fuel s hst
  have hf := exitBlock_fields co pr (headStep P pr stop oot s).1 (headStep P pr stop oot s).2.1
    (headStep P pr stop oot s).2.2 x0 y Sig errz0
  refine ⟨hi, hfin, by rw [he, hf.2.1]; exact hb, ?_⟩
  rw [he, hf.2.2.2.2.2.1]
  have := hh.2.2.2.2.1
  omega

/-- **A request landing inside an iteration**: if the head of iteration `k` saw no exit condition
    and the flag is visible by the time the body of that iteration is done, the next head exits:
    `iterations = k + 1`, i.e. at most the remainder of one iteration is executed after `stop()`. -/
theorem pantr_stop_during_iteration (co : Consts α) (P : Problem α) (dir : Direction D α)
    (pr : Params α) (stop : Nat → Bool) (hm : MonotoneStop stop) (oot : Bool) (x0 y Sig errz0 : Vec α)
    (fuel : Nat) (s : St α D) (hbusy : (headStep P pr stop oot s).2.2 = .Busy)
    (hstop : stop (iterBody co P dir pr (headStep P pr stop oot s).1 (headStep P pr stop oot s).2.1).tick
      = true) :
    (mainLoop co P dir pr stop oot x0 y Sig errz0 (fuel + 2) s).stats.iterations = s.k + 1 ∧
    (mainLoop co P dir pr stop oot x0 y Sig errz0 (fuel + 2) s).stats.status ≠ .Busy := by
  have hstep : mainLoop co P dir pr stop oot x0 y Sig errz0 (fuel + 2) s =
      mainLoop co P dir pr stop oot x0 y Sig errz0 (fuel + 1)
        (iterBody co P dir pr (headStep P pr stop oot s).1 (headStep P pr stop oot s).2.1) := by
    conv_lhs => unfold mainLoop
    simp [hbusy]
  have := pantr_events_after_visible_stop co P dir pr stop hm oot x0 y Sig errz0 fuel _ hstop
  rw [hstep]
  refine ⟨?_, this.2.2.1⟩
  rw [this.1, (iterBody_spec co P dir pr _ _).2.2.1, (headStep_same P pr stop oot s).2.2.1]

/-- **Work of one iteration** in events: between 4 and `15 + 2·b`, where `b` is the number of
    step-size halvings (`stepsize_backtracks`) the iteration performed. -/
theorem pantr_iteration_events (co : Consts α) (P : Problem α) (dir : Direction D α) (pr : Params α)
    (s : St α D) (eps : α) :
    s.tick + 4 ≤ (iterBody co P dir pr s eps).tick ∧
    (iterBody co P dir pr s eps).tick + 2 * s.stats.stepsizeBacktracks
      ≤ s.tick + 15 + 2 * (iterBody co P dir pr s eps).stats.stepsizeBacktracks :=
  iterBody_tick co P dir pr s eps

/-- `Interrupted` is reported only if the flag was visible at the last head check; a solve whose
    flag is never visible ends with its natural status. -/
theorem pantr_interrupted_or_natural (co : Consts α) (P : Problem α) (dir : Direction D α) (d0 : D)
    (pr : Params α) (stop : Nat → Bool) (oot : Bool) (x0 y Sig errz0 gV : Vec α) (s : St α D)
    (hi : initState co P d0 pr x0 gV = .inr s) (hnever : ∀ t, stop t = false) :
    (run co P dir d0 pr stop oot x0 y Sig errz0 gV).stats.status ≠ .Interrupted := by
  intro h
  have := C06_Pantr.pantr_interrupted_only_if co P dir d0 pr stop oot x0 y Sig errz0 gV s hi h
  rw [hnever] at this; exact absurd this (by decide)

end structural

/-! ### What bounds the step-size loops (ordered field) -/
section ordered
variable {α : Type} [Field α] [LinearOrder α] [IsStrictOrderedRing α] [RealLike α]

/-- `backtrack_qub` adds `n` to `stepsize_backtracks` and costs `2n` evaluations; `n ≥ 1` passes are
    possible only while `L·2ⁿ⁻¹ < L_max`.  Nothing else — neither the problem nor the stop flag —
    enters the bound. -/
theorem backtrack_passes_bounded (P : Problem α) (pr : Params α) (f : Nat) (c : Iterate α) (t b : Nat) :
    ∃ n : Nat, (backtrackQub P pr f c t b).2.2.1 = b + n ∧
      (backtrackQub P pr f c t b).2.1 = t + 2 * n ∧ (1 ≤ n → c.L * 2 ^ (n - 1) < pr.Lmax) := by
  obtain ⟨n, h1, -, -, h4⟩ := backtrackQub_pow P pr f c t b
  have ht := (backtrackQub_tick P pr f c t b).1
  exact ⟨n, h1, by omega, h4⟩

/-- Explicit form: with `L ≥ L_min > 0` no loop makes more than `n` passes once `L_min·2ⁿ⁻¹ ≥ L_max`. -/
theorem backtrack_passes_le (P : Problem α) (pr : Params α) (f : Nat) (c : Iterate α) (t b N : Nat)
    (hL : 0 < c.L) (hN : pr.Lmax ≤ c.L * 2 ^ N) :
    (backtrackQub P pr f c t b).2.2.1 ≤ b + N := by
  obtain ⟨n, h1, -, h3⟩ := backtrack_passes_bounded P pr f c t b
  rw [h1]
  by_contra hlt
  have hn : N + 1 ≤ n := by omega
  have h := h3 (by omega)
  have hpow : (2 : α) ^ N ≤ 2 ^ (n - 1) := pow_le_pow_right₀ (by norm_num) (by omega)
  have : c.L * 2 ^ N ≤ c.L * 2 ^ (n - 1) := mul_le_mul_of_nonneg_left hpow hL.le
  linarith

end ordered

/-! ### Non-vacuity -/
section examples
open Alpaqa.Pantr.Example

/-- flag visible at the first head: exit there with 0 iterations -/
example : (solve 3 false 1 1).stats.status = .Interrupted ∧ (solve 3 false 1 1).stats.iterations = 0 := by
  decide
/-- request landing inside iteration 0 (event 9 of the run): iteration 0 completes, exit at the next
    head with 1 iteration -/
example : (solve 3 false 1 9).stats.iterations = 1 ∧ (solve 3 false 1 9).stats.status ≠ .Busy := by
  decide
example : MonotoneStop (fun t => decide (t ≥ 9)) := by
  intro a b hab h; simp at h ⊢; omega

end examples

end Alpaqa.Props.C19_Pantr
