/-
  C19 (PANTR) — `stop()` interrupts promptly, leaving valid results.

  PANTR polls the stop flag in two places: `check_all_stop_conditions` at the loop head, and the
  condition of `backtrack_qub` — `while (!stop_requested() && L < L_max && qub_violated(i))` — the
  step-size loop used for the initial backtracking and (up to twice) inside an iteration.  Unlike
  PANOC / ZeroFPR it has no line-search loop.  So the statements are:

  * a request visible at a head check ends the solve *there* (`pantr_stop_at_head_exits`): no
    further iteration, the iterate that is current is written back (C03 applies to it);
  * a request landing anywhere inside iteration `k` (after that iteration's head poll) lets the
    iteration finish and exits at the next head with `iterations = k + 1`
    (`pantr_stop_during_iteration`) — "at most one further iteration's worth of evaluations";
  * once the flag is visible `backtrack_qub` makes no further call (`pantr_backtrack_noop`); with a
    flag that is never lowered and visible from tick `t₀` on, a `backtrack_qub` entered at tick `t`
    ends at tick `≤ max t (t₀ + 1)` (`pantr_backtrack_ticks_after_stop`), the initialisation ends at
    tick `≤ max 4 (t₀ + 1)` (`pantr_init_ticks_after_stop`), an iteration that starts at tick `t`
    ends at tick `≤ max (t + 15) (t₀ + 6)` (`pantr_iteration_ticks_after_stop`) and the whole solve
    at tick `≤ t₀ + 17` (`pantr_ticks_after_stop`: the `≤ 14` non-backtracking events of the
    iteration in flight, the next head `≤ 2`, the final callback; `pantr_ticks_after_stop_max`:
    `≤ max 7 (t₀ + 17)`) — independent of the number of step-size halvings the quadratic upper bound
    would still ask for; over an ordered field (exclusive comparisons, `!=` the negation of `=`) the
    sharp bound is `max 7 (t₀ + 13)` (`pantr_ticks_after_stop_tight`), attained by a closed run;
  * without a request, one iteration is at most `15 + 2·b` events (problem evaluations by the
    solver, direction calls, one callback), `b` = step-size halvings in it (`pantr_iteration_events`),
    the exit adds at most 3 (`pantr_events_after_visible_stop`), and over an ordered field each
    `backtrack_qub` loop makes `n` passes only if `L·2ⁿ⁻¹ < L_max` (`backtrack_passes_bounded`).
  * `pantr_interrupted_or_natural`: if the flag (never lowered) is visible from tick `t₀` and the solve
    made more than `t₀` events, the returned status is `Interrupted` or the natural status whose chain
    condition held at the last head (`Converged ∧ ε ≤ tol'`, `MaxTime ∧` limit reached,
    `MaxIter ∧ iterations = max_iter`, `NotFinite ∧ ε` not finite; `NoProgress` is impossible for
    PANTR).  Conversely `Interrupted` only if the flag was visible at the last head
    (`pantr_not_interrupted_without_stop`, `Props/C06_Pantr.pantr_interrupted_only_if`).
  * no theorem of this file carries a fuel hypothesis: the main loop's fuel `max_iter + 1` suffices
    unconditionally (pantr.tpp has no retry loop inside an iteration and never `continue`s), and the
    statements about `backtrack_qub` hold whether or not its model fuel runs out.
  * outputs after an interrupted solve satisfy the same contract as any exit:
    `Props/C03_Pantr.pantr_exit_contract` quantifies over all stop schedules.

  Not modelled: data-race freedom of the flag (C++ memory model), see DESIGN §6 C19.
-/
import Alpaqa.Proofs.PantrOrd
import Alpaqa.Proofs.PantrExample
import Alpaqa.Proofs.PantrExampleQ
import Alpaqa.Props.C06
import Alpaqa.Props.C06_Pantr

namespace Alpaqa.Props.C19_Pantr
open Alpaqa Alpaqa.Pantr Alpaqa.Gen
set_option linter.unusedSectionVars false

/-- The stop flag is never cleared during a solve (only `stop()` writes it). -/
def MonotoneStop (stop : Nat → Bool) : Prop := ∀ a b, a ≤ b → stop a = true → stop b = true

section structural
variable {α D : Type} [Add α] [Sub α] [Mul α] [Div α] [Neg α] [LT α] [LE α] [DecidableLT α]
  [DecidableLE α] [BEq α] [RealLike α] [NatCast α] [OfScientific α]
  [OfNat α 0] [OfNat α 1] [OfNat α 2] [OfNat α 100]

/-- **A stop request visible at a loop-head check ends the solve there**: the loop returns the exit
    block of this very head — `iterations = k`, the current iterate is the final one, the status is
    not `Busy` (it is `Interrupted` unless a higher-priority condition of the chain holds). -/
theorem pantr_stop_at_head_exits (co : Consts α) (P : Problem α) (dir : Direction D α) (pr : Params α)
    (stop : Nat → Bool) (oot : Bool) (x0 y Sig errz0 : Vec α) (fuel : Nat) (s : St α D)
    (hstop : stop (headStep P pr stop oot s).1.tick = true) :
    (headStep P pr stop oot s).2.2 ≠ .Busy ∧
    mainLoop co P dir pr stop oot x0 y Sig errz0 (fuel + 1) s =
      exitBlock co pr (headStep P pr stop oot s).1 (headStep P pr stop oot s).2.1
        (headStep P pr stop oot s).2.2 x0 y Sig errz0 ∧
    (mainLoop co P dir pr stop oot x0 y Sig errz0 (fuel + 1) s).stats.iterations = s.k ∧
    (mainLoop co P dir pr stop oot x0 y Sig errz0 (fuel + 1) s).final = some s.curr := by
  have hb : (headStep P pr stop oot s).2.2 ≠ .Busy := by
    rw [headStep_status, hstop]; exact C06.stop_requested_not_busy _ _ _ _ _ _ _
  have he : mainLoop co P dir pr stop oot x0 y Sig errz0 (fuel + 1) s =
      exitBlock co pr (headStep P pr stop oot s).1 (headStep P pr stop oot s).2.1
        (headStep P pr stop oot s).2.2 x0 y Sig errz0 := by
    unfold mainLoop; simp [hb]
  have hf := exitBlock_fields co pr (headStep P pr stop oot s).1 (headStep P pr stop oot s).2.1
    (headStep P pr stop oot s).2.2 x0 y Sig errz0
  have hh := headStep_same P pr stop oot s
  exact ⟨hb, he, by rw [he, hf.2.2.1, hh.2.2.1], by rw [he, hf.2.2.2.2.1, hh.1]⟩

/-- With a flag that is never cleared: a request already visible when a pass of the loop starts
    ends the solve in that pass, after at most 3 more events (`∇ψ(x̂)` if the criterion needs it, the
    unit-step prox of some criteria, the final callback). -/
theorem pantr_events_after_visible_stop (co : Consts α) (P : Problem α) (dir : Direction D α)
    (pr : Params α) (stop : Nat → Bool) (hm : MonotoneStop stop) (oot : Bool) (x0 y Sig errz0 : Vec α)
    (fuel : Nat) (s : St α D) (hstop : stop s.tick = true) :
    (mainLoop co P dir pr stop oot x0 y Sig errz0 (fuel + 1) s).stats.iterations = s.k ∧
    (mainLoop co P dir pr stop oot x0 y Sig errz0 (fuel + 1) s).final = some s.curr ∧
    (mainLoop co P dir pr stop oot x0 y Sig errz0 (fuel + 1) s).stats.status ≠ .Busy ∧
    (mainLoop co P dir pr stop oot x0 y Sig errz0 (fuel + 1) s).ticks ≤ s.tick + 3 := by
  have hh := headStep_same P pr stop oot s
  have hst : stop (headStep P pr stop oot s).1.tick = true := hm _ _ hh.2.2.2.1 hstop
  obtain ⟨hb, he, hi, hfin⟩ := pantr_stop_at_head_exits co P dir pr stop oot x0 y Sig errz0 fuel s hst
  have hf := exitBlock_fields co pr (headStep P pr stop oot s).1 (headStep P pr stop oot s).2.1
    (headStep P pr stop oot s).2.2 x0 y Sig errz0
  refine ⟨hi, hfin, by rw [he, hf.2.1]; exact hb, ?_⟩
  rw [he, hf.2.2.2.2.2.1]
  have := hh.2.2.2.2.1
  omega

/-- **A request landing inside an iteration**: if the head of iteration `k` saw no exit condition
    and the flag is visible by the time the body of that iteration is done, the next head exits:
    `iterations = k + 1`, i.e. at most the remainder of one iteration is executed after `stop()`. -/
theorem pantr_stop_during_iteration (co : Consts α) (P : Problem α) (dir : Direction D α)
    (pr : Params α) (stop : Nat → Bool) (hm : MonotoneStop stop) (oot : Bool) (x0 y Sig errz0 : Vec α)
    (fuel : Nat) (s : St α D) (hbusy : (headStep P pr stop oot s).2.2 = .Busy)
    (hstop : stop (iterBody co P dir pr stop (headStep P pr stop oot s).1 (headStep P pr stop oot s).2.1).tick
      = true) :
    (mainLoop co P dir pr stop oot x0 y Sig errz0 (fuel + 2) s).stats.iterations = s.k + 1 ∧
    (mainLoop co P dir pr stop oot x0 y Sig errz0 (fuel + 2) s).stats.status ≠ .Busy := by
  have hstep : mainLoop co P dir pr stop oot x0 y Sig errz0 (fuel + 2) s =
      mainLoop co P dir pr stop oot x0 y Sig errz0 (fuel + 1)
        (iterBody co P dir pr stop (headStep P pr stop oot s).1 (headStep P pr stop oot s).2.1) := by
    conv_lhs => unfold mainLoop
    simp [hbusy]
  have := pantr_events_after_visible_stop co P dir pr stop hm oot x0 y Sig errz0 fuel _ hstop
  rw [hstep]
  refine ⟨?_, this.2.2.1⟩
  rw [this.1, (iterBody_spec co P dir pr stop _ _).2.2.1, (headStep_same P pr stop oot s).2.2.1]

/-- **Work of one iteration** in events: between 4 and `15 + 2·b`, where `b` is the number of
    step-size halvings (`stepsize_backtracks`) the iteration performed. -/
theorem pantr_iteration_events (co : Consts α) (P : Problem α) (dir : Direction D α) (pr : Params α)
    (stop : Nat → Bool)
    (s : St α D) (eps : α) :
    s.tick + 4 ≤ (iterBody co P dir pr stop s eps).tick ∧
    (iterBody co P dir pr stop s eps).tick + 2 * s.stats.stepsizeBacktracks
      ≤ s.tick + 15 + 2 * (iterBody co P dir pr stop s eps).stats.stepsizeBacktracks :=
  iterBody_tick co P dir pr stop s eps

/-! ### The step-size loops poll the flag -/

/-- **Once the flag is visible `backtrack_qub` makes no further call** (initial backtracking and
    the in-iteration ones alike: it is one lambda). -/
theorem pantr_backtrack_noop (P : Problem α) (pr : Params α) (stop : Nat → Bool) (f : Nat)
    (c : Iterate α) (t b : Nat) (h : stop t = true) :
    backtrackQub P pr stop (f + 1) c t b = (c, t, b, false) :=
  backtrackQub_stop_noop P pr stop f c t b h

/-- With a flag that is never lowered and visible from tick `t₀` on, `backtrack_qub` entered at tick
    `t` ends at tick `≤ max t (t₀ + 1)`. -/
theorem pantr_backtrack_ticks_after_stop (P : Problem α) (pr : Params α) (stop : Nat → Bool)
    (hm : MonotoneStop stop) (t0 : Nat) (h0 : stop t0 = true) (f : Nat) (c : Iterate α) (t b : Nat) :
    (backtrackQub P pr stop f c t b).2.1 ≤ max t (t0 + 1) :=
  backtrackQub_tick_bound P pr stop hm t0 h0 f c t b

/-- **The initialisation is interruptible**: it ends at tick `≤ max 4 (t₀ + 1)` (`4` = Lipschitz
    estimate `≤ 2` + first proximal-gradient step and `ψ(x̂)`, made before the first poll). -/
theorem pantr_init_ticks_after_stop (co : Consts α) (P : Problem α) (d0 : D) (pr : Params α)
    (stop : Nat → Bool) (hm : MonotoneStop stop) (t0 : Nat) (h0 : stop t0 = true) (x0 gV : Vec α)
    (s : St α D) (hi : initState co P d0 pr stop x0 gV = .inr s) : s.tick ≤ max 4 (t0 + 1) := by
  have hc : (lipschitzStage co P pr x0 gV).2.2 ≤ 2 := by
    unfold lipschitzStage; simp only []; split_ifs <;> simp
  unfold initState at hi
  simp only [] at hi
  split_ifs at hi
  injection hi with hi; subst hi
  simp only []
  exact Nat.le_trans (backtrackQub_tick_bound P pr stop hm t0 h0 _ _ _ _) (by omega)

theorem candidateFbe_tick_stop (P : Problem α) (pr : Params α) (stop : Nat → Bool)
    (hm : MonotoneStop stop) (t0 : Nat) (h0 : stop t0 = true) (prox cand : Iterate α) (q : Vec α)
    (t : Nat) : (candidateFbe P pr stop prox cand q t).2.1 ≤ max (t + 3) (t0 + 1) := by
  unfold candidateFbe
  simp only []
  split_ifs
  · exact backtrackQub_tick_bound P pr stop hm t0 h0 _ _ _ _
  · dsimp only; omega

theorem trStage_tick_stop (co : Consts α) (P : Problem α) (dir : Direction D α) (pr : Params α)
    (stop : Nat → Bool) (hm : MonotoneStop stop) (t0 : Nat) (h0 : stop t0 = true) (s : St α D) :
    (trStage co P dir pr stop s).tick ≤ max (s.tick + 10) (t0 + 1) := by
  have h1 := fbsStep_tick P pr s
  have h2 := dirInit_tick dir s (fbsStep P pr s).1 (fbsStep P pr s).2.2
  unfold trStage
  simp only []
  split_ifs
  · unfold trAttempt
    simp only []
    generalize htr : trustRegionStep co dir _ _ _ _ _ = tr
    have h3 := trustRegionStep_tick co dir (dirInit dir s (fbsStep P pr s).1 (fbsStep P pr s).2.2).1
      (dirInit dir s (fbsStep P pr s).1 (fbsStep P pr s).2.2).2.2 (fbsStep P pr s).1 s.Delta s.q
    rw [htr] at h3
    split_ifs
    · have h4 := candidateFbe_tick_stop P pr stop hm t0 h0 (fbsStep P pr s).1 s.cand tr.2.2.1 tr.2.1
      simp only []
      omega
    · simp only []; omega
  · simp only []; omega

theorem acceptStage_tick_stop (P : Problem α) (dir : Direction D α) (pr : Params α)
    (stop : Nat → Bool) (hm : MonotoneStop stop) (t0 : Nat) (h0 : stop t0 = true) (m : Mid α D)
    (t : Nat) : (acceptStage P dir pr stop m t).tick ≤ max (t + 4) (t0 + 4) := by
  unfold acceptStage
  simp only []
  by_cases hc : pr.computeRatioUsingNewStepsize
  · simp only [hc, Bool.not_true, Bool.false_eq_true, if_false]
    split_ifs <;> dsimp only <;> omega
  · simp only [hc, Bool.not_false, if_true]
    have := backtrackQub_tick_bound P pr stop hm t0 h0 pr.qubFuel (evalPsiHat P m.cand) (t + 1) 0
    split_ifs <;> dsimp only <;> omega

theorem rejectStage_tick_stop (P : Problem α) (dir : Direction D α) (pr : Params α)
    (stop : Nat → Bool) (hm : MonotoneStop stop) (t0 : Nat) (h0 : stop t0 = true) (m : Mid α D)
    (t : Nat) : (rejectStage P dir pr stop m t).tick ≤ max (t + 4) (t0 + 4) := by
  unfold rejectStage
  simp only []
  have := backtrackQub_tick_bound P pr stop hm t0 h0 pr.qubFuel (evalPsiHat P m.prox) (t + 1) 0
  split_ifs <;> dsimp only <;> omega

/-- **Work of one iteration once a stop request is pending**: with a flag that is never lowered and
    visible from tick `t₀` on, an iteration that starts at tick `t` ends at tick
    `≤ max (t + 15) (t₀ + 6)` — `15` = its events other than step-size halvings; `t₀ + 6`: a request
    landing inside the candidate's `backtrack_qub` is followed by the pass in flight (`≤ t₀ + 1`),
    the progress callback, `ψ(x̂)` of the fallback step (whose `backtrack_qub` then does nothing) and
    `≤ 3` direction / prox calls.  No term in the number of halvings. -/
theorem pantr_iteration_ticks_after_stop (co : Consts α) (P : Problem α) (dir : Direction D α)
    (pr : Params α) (stop : Nat → Bool) (hm : MonotoneStop stop) (t0 : Nat) (h0 : stop t0 = true)
    (s : St α D) (eps : α) :
    (iterBody co P dir pr stop s eps).tick ≤ max (s.tick + 15) (t0 + 6) := by
  have h1 := trStage_tick_stop co P dir pr stop hm t0 h0 s
  have h2 := acceptStage_tick_stop P dir pr stop hm t0 h0 (trStage co P dir pr stop s)
    ((trStage co P dir pr stop s).tick + 1)
  have h3 := rejectStage_tick_stop P dir pr stop hm t0 h0 (trStage co P dir pr stop s)
    ((trStage co P dir pr stop s).tick + 1)
  unfold iterBody
  simp only []
  split_ifs <;> omega

/-- Tick bound for the main loop: with a flag that is never lowered and visible from tick `t₀` on,
    a solve that is at a loop head at tick `s.tick` ends at tick `≤ max (s.tick + 3) (t₀ + 17)`.
    `3` = head (`≤ 2`) + final callback; `17`: an iteration whose head polled the flag at a tick
    `≤ t₀ − 1` ends at tick `≤ t₀ + 14` (`≤ 15` events other than halvings), then the next head
    (`≤ 2`) and the final callback. -/
theorem pantr_mainLoop_ticks_after_stop (co : Consts α) (P : Problem α) (dir : Direction D α)
    (pr : Params α) (stop : Nat → Bool) (hm : MonotoneStop stop) (t0 : Nat) (h0 : stop t0 = true)
    (oot : Bool) (x0 y Sig errz0 : Vec α) (fuel : Nat) (s : St α D) :
    (mainLoop co P dir pr stop oot x0 y Sig errz0 fuel s).ticks ≤ max (s.tick + 3) (t0 + 17) := by
  induction fuel generalizing s with
  | zero =>
    simp only [mainLoop]
    rw [(exitBlock_fields co pr s s.stats.eps .Exception x0 y Sig errz0).2.2.2.2.2.1]
    omega
  | succ f ih =>
    have hh := headStep_same P pr stop oot s
    by_cases hst : stop (headStep P pr stop oot s).1.tick = true
    · have he := (pantr_stop_at_head_exits co P dir pr stop oot x0 y Sig errz0 f s hst).2.1
      rw [he, (exitBlock_fields co pr _ _ _ x0 y Sig errz0).2.2.2.2.2.1]
      omega
    · have hlt : (headStep P pr stop oot s).1.tick < t0 := by
        apply Nat.lt_of_not_le
        intro hc
        exact hst (hm t0 _ hc h0)
      unfold mainLoop
      simp only []
      split_ifs with hb
      · rw [(exitBlock_fields co pr _ _ _ x0 y Sig errz0).2.2.2.2.2.1]
        omega
      · have hb' := pantr_iteration_ticks_after_stop co P dir pr stop hm t0 h0
          (headStep P pr stop oot s).1 (headStep P pr stop oot s).2.1
        have := ih (iterBody co P dir pr stop (headStep P pr stop oot s).1 (headStep P pr stop oot s).2.1)
        omega

/-- **At most one further iteration's worth of evaluations after `stop()`, wherever it lands**
    (initialisation and step-size loops included): if the flag, never lowered, is visible from tick
    `t₀` on, the solve ends at tick `≤ max 7 (t₀ + 17)` — in particular `≤ t₀ + 17`. -/
theorem pantr_ticks_after_stop (co : Consts α) (P : Problem α) (dir : Direction D α) (d0 : D)
    (pr : Params α) (stop : Nat → Bool) (hm : MonotoneStop stop) (t0 : Nat) (h0 : stop t0 = true)
    (oot : Bool) (x0 y Sig errz0 gV : Vec α) :
    (run co P dir d0 pr stop oot x0 y Sig errz0 gV).ticks ≤ t0 + 17 := by
  unfold run
  cases hi : initState co P d0 pr stop x0 gV with
  | inl t =>
    simp only []
    have hc : (lipschitzStage co P pr x0 gV).2.2 ≤ 2 := by
      unfold lipschitzStage; simp only []; split_ifs <;> simp
    unfold initState at hi
    simp only [] at hi
    split_ifs at hi
    injection hi with hi
    omega
  | inr s =>
    simp only []
    have h1 := pantr_init_ticks_after_stop co P d0 pr stop hm t0 h0 x0 gV s hi
    have h2 := pantr_mainLoop_ticks_after_stop co P dir pr stop hm t0 h0 oot x0 y Sig errz0
      (pr.maxIter + 1) s
    omega

/-- The same in the `max` form (a request that lands very early does not make the bound smaller than
    the undisturbed start of a solve): the solve ends at tick `≤ max 7 (t₀ + 17)`; `7` = initialisation
    `≤ 4` (Lipschitz estimate `≤ 2`, first prox step, `ψ(x̂)`) + first head `≤ 2` + final callback. -/
theorem pantr_ticks_after_stop_max (co : Consts α) (P : Problem α) (dir : Direction D α) (d0 : D)
    (pr : Params α) (stop : Nat → Bool) (hm : MonotoneStop stop) (t0 : Nat) (h0 : stop t0 = true)
    (oot : Bool) (x0 y Sig errz0 gV : Vec α) :
    (run co P dir d0 pr stop oot x0 y Sig errz0 gV).ticks ≤ max 7 (t0 + 17) := by
  unfold run
  cases hi : initState co P d0 pr stop x0 gV with
  | inl t =>
    simp only []
    have hc : (lipschitzStage co P pr x0 gV).2.2 ≤ 2 := by
      unfold lipschitzStage; simp only []; split_ifs <;> simp
    unfold initState at hi
    simp only [] at hi
    split_ifs at hi
    injection hi with hi
    omega
  | inr s =>
    simp only []
    have h1 := pantr_init_ticks_after_stop co P d0 pr stop hm t0 h0 x0 gV s hi
    have h2 := pantr_mainLoop_ticks_after_stop co P dir pr stop hm t0 h0 oot x0 y Sig errz0
      (pr.maxIter + 1) s
    omega

/-- With the stop flag visible, the generated chain returns `Interrupted` unless one of the
    higher-priority conditions holds — and then exactly that condition's status (pure decision logic
    of `check_all_stop_conditions`, any carrier). -/
theorem chain_with_stop (tol : α) (maxIter maxNP k : Nat) (ε : α) (np : Nat) (oot : Bool) :
    statusChain tol maxIter maxNP k ε np oot true = .Interrupted ∨
    (statusChain tol maxIter maxNP k ε np oot true = .Converged ∧ ε ≤ C06.effTol tol) ∨
    (statusChain tol maxIter maxNP k ε np oot true = .MaxTime ∧ oot = true) ∨
    (statusChain tol maxIter maxNP k ε np oot true = .MaxIter ∧ k = maxIter) ∨
    (statusChain tol maxIter maxNP k ε np oot true = .NotFinite ∧ RealLike.isFinite ε = false) ∨
    (statusChain tol maxIter maxNP k ε np oot true = .NoProgress ∧ np > maxNP) := by
  unfold statusChain C06.effTol
  simp only []
  split_ifs <;> simp_all

/-- **Final status is `Interrupted` unless a higher-priority chain condition holds at that head.**
    If the flag, never lowered, is visible from tick `t₀` on and the solve made more than `t₀` events in
    all (`t₀ + 1 ≤ ticks`: the last head polls the flag at tick `ticks − 1`, the exit block adds the
    final callback; in particular whenever `t₀ + 2 ≤ ticks`) — i.e. it did not finish before the
    request could be seen — the returned status is `Interrupted`, or it is the natural status whose
    condition held at that last head: `Converged ∧ ε ≤ tol'`, `MaxTime ∧` time limit reached,
    `MaxIter ∧ iterations = max_iter`, `NotFinite ∧ ε` not finite.  (`NoProgress` is impossible for
    PANTR: its counter is the constant 0.)  Every problem, provider, budget; no fuel hypothesis. -/
theorem pantr_interrupted_or_natural (co : Consts α) (P : Problem α) (dir : Direction D α) (d0 : D)
    (pr : Params α) (stop : Nat → Bool) (hm : MonotoneStop stop) (t0 : Nat) (h0 : stop t0 = true)
    (oot : Bool) (x0 y Sig errz0 gV : Vec α) (s : St α D)
    (hi : initState co P d0 pr stop x0 gV = .inr s)
    (hlate : t0 + 1 ≤ (run co P dir d0 pr stop oot x0 y Sig errz0 gV).ticks) :
    (run co P dir d0 pr stop oot x0 y Sig errz0 gV).stats.status = .Interrupted ∨
    ((run co P dir d0 pr stop oot x0 y Sig errz0 gV).stats.status = .Converged ∧
      (run co P dir d0 pr stop oot x0 y Sig errz0 gV).stats.eps ≤ C06.effTol pr.tolerance) ∨
    ((run co P dir d0 pr stop oot x0 y Sig errz0 gV).stats.status = .MaxTime ∧ oot = true) ∨
    ((run co P dir d0 pr stop oot x0 y Sig errz0 gV).stats.status = .MaxIter ∧
      (run co P dir d0 pr stop oot x0 y Sig errz0 gV).stats.iterations = pr.maxIter) ∨
    ((run co P dir d0 pr stop oot x0 y Sig errz0 gV).stats.status = .NotFinite ∧
      RealLike.isFinite (run co P dir d0 pr stop oot x0 y Sig errz0 gV).stats.eps = false) := by
  have hc := C06_Pantr.pantr_status_is_chain co P dir d0 pr stop oot x0 y Sig errz0 gV s hi
  have hstop : stop ((run co P dir d0 pr stop oot x0 y Sig errz0 gV).ticks - 1) = true :=
    hm t0 _ (by omega) h0
  rw [hstop] at hc
  rw [hc]
  rcases chain_with_stop pr.tolerance pr.maxIter pr.maxNoProgress
    (run co P dir d0 pr stop oot x0 y Sig errz0 gV).stats.iterations
    (run co P dir d0 pr stop oot x0 y Sig errz0 gV).stats.eps 0 oot with h | h | h | h | h | h
  · exact .inl h
  · exact .inr (.inl h)
  · exact .inr (.inr (.inl h))
  · exact .inr (.inr (.inr (.inl h)))
  · exact .inr (.inr (.inr (.inr h)))
  · exact absurd h.2 (by omega)

/-- The converse direction: `Interrupted` is reported only if the flag was visible at the last head
    check; a solve whose flag is never visible ends with its natural status. -/
theorem pantr_not_interrupted_without_stop (co : Consts α) (P : Problem α) (dir : Direction D α)
    (d0 : D) (pr : Params α) (stop : Nat → Bool) (oot : Bool) (x0 y Sig errz0 gV : Vec α) (s : St α D)
    (hi : initState co P d0 pr stop x0 gV = .inr s) (hnever : ∀ t, stop t = false) :
    (run co P dir d0 pr stop oot x0 y Sig errz0 gV).stats.status ≠ .Interrupted := by
  intro h
  have := C06_Pantr.pantr_interrupted_only_if co P dir d0 pr stop oot x0 y Sig errz0 gV s hi h
  rw [hnever] at this; exact absurd this (by decide)

end structural

/-! ### What bounds the step-size loops (ordered field) -/
section ordered
variable {α : Type} [Field α] [LinearOrder α] [IsStrictOrderedRing α] [RealLike α]

/-- `backtrack_qub` adds `n` to `stepsize_backtracks` and costs `2n` evaluations; `n ≥ 1` passes are
    possible only while `L·2ⁿ⁻¹ < L_max`.  Nothing else — neither the problem nor the stop flag —
    enters the bound. -/
theorem backtrack_passes_bounded (P : Problem α) (pr : Params α)
    (stop : Nat → Bool) (f : Nat) (c : Iterate α) (t b : Nat) :
    ∃ n : Nat, (backtrackQub P pr stop f c t b).2.2.1 = b + n ∧
      (backtrackQub P pr stop f c t b).2.1 = t + 2 * n ∧ (1 ≤ n → c.L * 2 ^ (n - 1) < pr.Lmax) := by
  obtain ⟨n, h1, -, -, h4⟩ := backtrackQub_pow P pr stop f c t b
  have ht := (backtrackQub_tick P pr stop f c t b).1
  exact ⟨n, h1, by omega, h4⟩

/-- Explicit form: with `L ≥ L_min > 0` no loop makes more than `n` passes once `L_min·2ⁿ⁻¹ ≥ L_max`. -/
theorem backtrack_passes_le (P : Problem α) (pr : Params α)
    (stop : Nat → Bool) (f : Nat) (c : Iterate α) (t b N : Nat)
    (hL : 0 < c.L) (hN : pr.Lmax ≤ c.L * 2 ^ N) :
    (backtrackQub P pr stop f c t b).2.2.1 ≤ b + N := by
  obtain ⟨n, h1, -, h3⟩ := backtrack_passes_bounded P pr stop f c t b
  rw [h1]
  by_contra hlt
  have hn : N + 1 ≤ n := by omega
  have h := h3 (by omega)
  have hpow : (2 : α) ^ N ≤ 2 ^ (n - 1) := pow_le_pow_right₀ (by norm_num) (by omega)
  have : c.L * 2 ^ N ≤ c.L * 2 ^ (n - 1) := mul_le_mul_of_nonneg_left hpow hL.le
  linarith

/-! ### The sharp event bound after `stop()` (ordered field)

Over an ordered field the comparisons are exclusive (`q_model ≥ 0` and `q_model < 0` cannot both
hold) and `!=` is the negation of equality (no NaN step size), and then the bound `t₀ + 17` of
`pantr_ticks_after_stop` (any carrier) sharpens to `t₀ + 13`, which is attained.  Where the four
events go: (1) `direction.reset()` after a failed trust-region step and `compute_candidate_fbe`
exclude each other; (2), (3) `direction.changed_γ` and the recomputed prox step need a step-size
change, hence a `backtrack_qub` pass, hence a poll that did not see the flag; (4) `∇ψ(x̂ₖ)` is evaluated
either by the head (criteria that read it) or by `compute_FBS_step`, never by both. -/

/-- events of `compute_FBS_step` -/
def fbsTicks (pr : Params α) : Nat := if requiresGradHat pr.stopCrit then 2 else 3

/-- events of a loop head (`∇ψ(x̂ₖ)` if the criterion reads it, the unit-step prox of some criteria) -/
def headTicks (pr : Params α) : Nat :=
  (if requiresGradHat pr.stopCrit then 1 else 0) + epsTicks pr.stopCrit

theorem fbs_head_le (pr : Params α) : fbsTicks pr + headTicks pr ≤ 4 ∧ headTicks pr ≤ 2 := by
  unfold fbsTicks headTicks
  cases pr.stopCrit <;> simp [requiresGradHat, epsTicks]

theorem fbsStep_tick_eq (P : Problem α) (pr : Params α) (s : St α D) :
    (fbsStep P pr s).2.2 = s.tick + fbsTicks pr := by
  unfold fbsStep fbsTicks; simp only []; split_ifs <;> rfl

theorem headStep_tick_eq (P : Problem α) (pr : Params α) (stop : Nat → Bool) (oot : Bool) (s : St α D) :
    (headStep P pr stop oot s).1.tick = s.tick + headTicks pr := by
  unfold headStep headTicks; simp only []; split_ifs <;> first | rfl | omega

/-- With a flag that is never lowered and visible from tick `t₀` on, `backtrack_qub` either does
    nothing (same iterate, same tick) or was entered before `t₀` and is left at tick `≤ t₀ + 1`. -/
theorem backtrackQub_stop_cases (P : Problem α) (pr : Params α) (stop : Nat → Bool)
    (hm : MonotoneStop stop) (t0 : Nat) (h0 : stop t0 = true) (f : Nat) (c : Iterate α) (t b : Nat) :
    ((backtrackQub P pr stop f c t b).1 = c ∧ (backtrackQub P pr stop f c t b).2.1 = t) ∨
    (t < t0 ∧ (backtrackQub P pr stop f c t b).2.1 ≤ t0 + 1) := by
  cases f with
  | zero => exact .inl ⟨rfl, rfl⟩
  | succ f =>
    unfold backtrackQub
    split_ifs with hst hc
    · exact .inl ⟨rfl, rfl⟩
    · have hlt : t < t0 := by
        apply Nat.lt_of_not_le
        intro hc
        exact hst (hm t0 t hc h0)
      have := backtrackQub_tick_bound P pr stop hm t0 h0 f (backtrackStep P c) (t + 2) (b + 1)
      exact .inr ⟨hlt, by omega⟩
    · exact .inl ⟨rfl, rfl⟩

/-- A trust-region step whose model value is negative made one event (`direction.apply`): the
    `direction.reset()` branches return a non-negative value (`+inf`, or `q_model ≥ 0` itself). -/
theorem trustRegionStep_neg_tick (co : Consts α) (hinf : ¬ co.inf < 0) (dir : Direction D α) (d : D)
    (t : Nat) (prox : Iterate α) (Delta : α) (q : Vec α)
    (hq : (trustRegionStep co dir d t prox Delta q).2.2.2.1 < 0) :
    (trustRegionStep co dir d t prox Delta q).2.1 = t + 1 := by
  unfold trustRegionStep at hq ⊢
  simp only [] at hq ⊢
  split_ifs at hq ⊢ with h1 h2
  · exact absurd hq hinf
  · exact absurd hq (not_lt.mpr h2)
  · rfl

theorem candidateFbe_tick_tight (P : Problem α) (pr : Params α) (stop : Nat → Bool)
    (hm : MonotoneStop stop) (t0 : Nat) (h0 : stop t0 = true) (prox cand : Iterate α) (q : Vec α)
    (t : Nat) :
    ((candidateFbe P pr stop prox cand q t).2.1 ≤ t + 3 ∧
      (candidateFbe P pr stop prox cand q t).1.gamma = prox.gamma) ∨
    (candidateFbe P pr stop prox cand q t).2.1 ≤ t0 + 1 := by
  unfold candidateFbe
  simp only []
  split_ifs
  · rcases backtrackQub_stop_cases P pr stop hm t0 h0 pr.qubFuel
      (evalPsiHat P (evalProxGradStep P
        { (evalPsiGradPsi P { cand with x := vadd prox.x q }) with gamma := prox.gamma, L := prox.L }))
      (t + 3) 0 with h | h
    · refine .inl ⟨by rw [h.2], ?_⟩
      rw [h.1]; simp [evalPsiHat, evalProxGradStep]
    · exact .inr h.2
  · exact .inl ⟨by dsimp only; omega, by simp [evalProxGradStep]⟩

/-- `trStage` once a request is pending: at most `fbsTicks + 6` events (FBS step, `initialize` and
    `has_initial_direction` at `k = 0`, `apply`, the candidate's three evaluations) with the
    candidate's step size unchanged — or it ended inside the candidate's `backtrack_qub` at tick
    `≤ t₀ + 1`. -/
theorem trStage_tick_tight (co : Consts α) (hinf : ¬ co.inf < 0) (P : Problem α) (dir : Direction D α)
    (pr : Params α) (stop : Nat → Bool) (hm : MonotoneStop stop) (t0 : Nat) (h0 : stop t0 = true)
    (s : St α D) :
    ((trStage co P dir pr stop s).tick ≤ s.tick + fbsTicks pr + 6 ∧
      ((trStage co P dir pr stop s).accept = true →
        (trStage co P dir pr stop s).cand.gamma = (trStage co P dir pr stop s).prox.gamma)) ∨
    (trStage co P dir pr stop s).tick ≤ t0 + 1 := by
  have h1 := fbsStep_tick_eq P pr s
  have h2 := dirInit_tick dir s (fbsStep P pr s).1 (fbsStep P pr s).2.2
  unfold trStage
  simp only []
  split_ifs
  · unfold trAttempt
    simp only []
    generalize htr : trustRegionStep co dir _ _ _ _ _ = tr
    have h3 := trustRegionStep_tick co dir (dirInit dir s (fbsStep P pr s).1 (fbsStep P pr s).2.2).1
      (dirInit dir s (fbsStep P pr s).1 (fbsStep P pr s).2.2).2.2 (fbsStep P pr s).1 s.Delta s.q
    have h3' := trustRegionStep_neg_tick co hinf dir (dirInit dir s (fbsStep P pr s).1 (fbsStep P pr s).2.2).1
      (dirInit dir s (fbsStep P pr s).1 (fbsStep P pr s).2.2).2.2 (fbsStep P pr s).1 s.Delta s.q
    rw [htr] at h3 h3'
    split_ifs with hq
    · have h4 := h3' hq
      rcases candidateFbe_tick_tight P pr stop hm t0 h0 (fbsStep P pr s).1 s.cand tr.2.2.1 tr.2.1
        with h5 | h5
      · refine .inl ⟨?_, fun _ => h5.2⟩
        simp only []
        omega
      · exact .inr h5
    · refine .inl ⟨?_, fun h => absurd h (by simp)⟩
      simp only []
      omega
  · refine .inl ⟨?_, fun h => absurd h (by simp)⟩
    simp only []
    omega

/-- The accept stage for a candidate whose step size equals `prox`'s: two events (`ψ(x̂)` when the
    ratio was computed with the old step size, `direction.update`) — or its `backtrack_qub` was
    entered before `t₀` and the stage ends at tick `≤ t₀ + 4`. -/
theorem acceptStage_tick_tight (P : Problem α) (dir : Direction D α) (pr : Params α)
    (stop : Nat → Bool) (hm : MonotoneStop stop) (t0 : Nat) (h0 : stop t0 = true) (m : Mid α D)
    (t : Nat) (hγ : m.cand.gamma = m.prox.gamma) :
    (acceptStage P dir pr stop m t).tick ≤ t + 2 ∨ (acceptStage P dir pr stop m t).tick ≤ t0 + 4 := by
  unfold acceptStage
  simp only []
  by_cases hc : pr.computeRatioUsingNewStepsize
  · simp only [hc, Bool.not_true, Bool.false_eq_true, if_false]
    left
    have : (m.prox.gamma != m.cand.gamma) = false := by simp [hγ]
    simp only [this, Bool.false_eq_true, if_false]
    omega
  · simp only [hc, Bool.not_false, if_true]
    rcases backtrackQub_stop_cases P pr stop hm t0 h0 pr.qubFuel (evalPsiHat P m.cand) (t + 1) 0
      with h | h
    · left
      have : (m.prox.gamma != (backtrackQub P pr stop pr.qubFuel (evalPsiHat P m.cand) (t + 1) 0).1.gamma)
          = false := by rw [h.1]; simp [evalPsiHat, hγ]
      simp only [this, Bool.false_eq_true, if_false]
      omega
    · right
      split_ifs <;> dsimp only <;> omega

/-- The reject stage (`prox` carries the current step size): two events (`ψ(x̂)`, `direction.update`
    if `update_direction_on_prox_step`) — or its `backtrack_qub` was entered before `t₀`: `≤ t₀ + 4`. -/
theorem rejectStage_tick_tight (P : Problem α) (dir : Direction D α) (pr : Params α)
    (stop : Nat → Bool) (hm : MonotoneStop stop) (t0 : Nat) (h0 : stop t0 = true) (m : Mid α D)
    (t : Nat) (hγ : m.prox.gamma = m.curr.gamma) :
    (rejectStage P dir pr stop m t).tick ≤ t + 2 ∨ (rejectStage P dir pr stop m t).tick ≤ t0 + 4 := by
  unfold rejectStage
  simp only []
  rcases backtrackQub_stop_cases P pr stop hm t0 h0 pr.qubFuel (evalPsiHat P m.prox) (t + 1) 0
    with h | h
  · left
    have : ((backtrackQub P pr stop pr.qubFuel (evalPsiHat P m.prox) (t + 1) 0).1.gamma != m.curr.gamma)
        = false := by rw [h.1]; simp [evalPsiHat, hγ]
    simp only [this, Bool.false_eq_true, if_false]
    split_ifs <;> dsimp only <;> omega
  · right
    split_ifs <;> dsimp only <;> omega

/-- **One iteration once a request is pending, sharp**: it ends at tick
    `≤ max (t + fbsTicks + 9) (t₀ + 6)`. -/
theorem pantr_iteration_ticks_tight (co : Consts α) (hinf : ¬ co.inf < 0) (P : Problem α)
    (dir : Direction D α) (pr : Params α) (stop : Nat → Bool) (hm : MonotoneStop stop) (t0 : Nat)
    (h0 : stop t0 = true) (s : St α D) (eps : α) :
    (iterBody co P dir pr stop s eps).tick ≤ max (s.tick + fbsTicks pr + 9) (t0 + 6) := by
  have hpg : (trStage co P dir pr stop s).prox.gamma = (trStage co P dir pr stop s).curr.gamma := by
    rw [trStage_prox, (trStage_spec co P dir pr stop s).1]
    simp [fbsStep, evalProxGradStep, evalPsiGradPsi]
  have h2 := acceptStage_tick_stop P dir pr stop hm t0 h0 (trStage co P dir pr stop s)
    ((trStage co P dir pr stop s).tick + 1)
  have h3 := rejectStage_tick_stop P dir pr stop hm t0 h0 (trStage co P dir pr stop s)
    ((trStage co P dir pr stop s).tick + 1)
  have h3' := rejectStage_tick_tight P dir pr stop hm t0 h0 (trStage co P dir pr stop s)
    ((trStage co P dir pr stop s).tick + 1) hpg
  rcases trStage_tick_tight co hinf P dir pr stop hm t0 h0 s with h1 | h1
  · unfold iterBody
    simp only []
    by_cases ha : (trStage co P dir pr stop s).accept = true
    · have h2' := acceptStage_tick_tight P dir pr stop hm t0 h0 (trStage co P dir pr stop s)
        ((trStage co P dir pr stop s).tick + 1) (h1.2 ha)
      simp only [ha, if_true]
      omega
    · simp only [ha, Bool.false_eq_true, if_false]
      omega
  · unfold iterBody
    simp only []
    split_ifs <;> omega

/-- Sharp tick bound for the main loop: a solve at a loop head at tick `s.tick` ends at tick
    `≤ max (s.tick + headTicks + 1) (t₀ + 13)`. -/
theorem pantr_mainLoop_ticks_tight (co : Consts α) (hinf : ¬ co.inf < 0) (P : Problem α)
    (dir : Direction D α) (pr : Params α) (stop : Nat → Bool) (hm : MonotoneStop stop) (t0 : Nat)
    (h0 : stop t0 = true) (oot : Bool) (x0 y Sig errz0 : Vec α) (fuel : Nat) (s : St α D) :
    (mainLoop co P dir pr stop oot x0 y Sig errz0 fuel s).ticks
      ≤ max (s.tick + headTicks pr + 1) (t0 + 13) := by
  have hfh := fbs_head_le pr
  induction fuel generalizing s with
  | zero =>
    simp only [mainLoop]
    rw [(exitBlock_fields co pr s s.stats.eps .Exception x0 y Sig errz0).2.2.2.2.2.1]
    omega
  | succ f ih =>
    have hh := headStep_tick_eq P pr stop oot s
    by_cases hst : stop (headStep P pr stop oot s).1.tick = true
    · have he := (pantr_stop_at_head_exits co P dir pr stop oot x0 y Sig errz0 f s hst).2.1
      rw [he, (exitBlock_fields co pr _ _ _ x0 y Sig errz0).2.2.2.2.2.1]
      omega
    · have hlt : (headStep P pr stop oot s).1.tick < t0 := by
        apply Nat.lt_of_not_le
        intro hc
        exact hst (hm t0 _ hc h0)
      unfold mainLoop
      simp only []
      split_ifs with hb
      · rw [(exitBlock_fields co pr _ _ _ x0 y Sig errz0).2.2.2.2.2.1]
        omega
      · have hb' := pantr_iteration_ticks_tight co hinf P dir pr stop hm t0 h0
          (headStep P pr stop oot s).1 (headStep P pr stop oot s).2.1
        have := ih (iterBody co P dir pr stop (headStep P pr stop oot s).1 (headStep P pr stop oot s).2.1)
        omega

/-- **The sharp bound: a solve ends at most 13 events after the request** (`≤ max 7 (t₀ + 13)`), for a
    flag that is never lowered and visible from tick `t₀` on, over an ordered field, with `inf ≥ 0`.
    The 13 (attained, see the example at the end of this file): a request that becomes visible right
    after the head poll of iteration `k = 0` is followed by `compute_FBS_step` (3 events for a criterion
    that does not read `∇ψ(x̂)`), `direction.initialize`, `has_initial_direction`, `direction.apply`, the
    candidate's `ψ, ∇ψ`, prox step and `ψ(x̂)` (`compute_ratio_using_new_stepsize`), the progress callback,
    `ψ(x̂)` of the fallback step, `direction.update`, the unit-step prox of the next head's criterion
    and the final callback; `11` for an iteration `k ≥ 1`. -/
theorem pantr_ticks_after_stop_tight (co : Consts α) (hinf : ¬ co.inf < 0) (P : Problem α)
    (dir : Direction D α) (d0 : D) (pr : Params α) (stop : Nat → Bool) (hm : MonotoneStop stop)
    (t0 : Nat) (h0 : stop t0 = true) (oot : Bool) (x0 y Sig errz0 gV : Vec α) :
    (run co P dir d0 pr stop oot x0 y Sig errz0 gV).ticks ≤ max 7 (t0 + 13) := by
  have hfh := fbs_head_le pr
  unfold run
  cases hi : initState co P d0 pr stop x0 gV with
  | inl t =>
    simp only []
    have hc : (lipschitzStage co P pr x0 gV).2.2 ≤ 2 := by
      unfold lipschitzStage; simp only []; split_ifs <;> simp
    unfold initState at hi
    simp only [] at hi
    split_ifs at hi
    injection hi with hi
    omega
  | inr s =>
    simp only []
    have h1 := pantr_init_ticks_after_stop co P d0 pr stop hm t0 h0 x0 gV s hi
    have h2 := pantr_mainLoop_ticks_tight co hinf P dir pr stop hm t0 h0 oot x0 y Sig errz0
      (pr.maxIter + 1) s
    omega

end ordered

/-! ### Non-vacuity -/
section examples
open Alpaqa.Pantr.Example

/-- flag visible at the first head: exit there with 0 iterations -/
example : (solve 3 false 1 1).stats.status = .Interrupted ∧ (solve 3 false 1 1).stats.iterations = 0 := by
  decide
/-- request landing inside iteration 0 (event 9 of the run): iteration 0 completes, exit at the next
    head with 1 iteration -/
example : (solve 3 false 1 9).stats.iterations = 1 ∧ (solve 3 false 1 9).stats.status ≠ .Busy := by
  decide
example : MonotoneStop (fun t => decide (t ≥ 9)) := by
  intro a b hab h; simp at h ⊢; omega

/-- an instance whose initial `backtrack_qub` runs to `L_max` (`ψ(x̂)` huge, `L_0 = 1`, `L_max = 16`:
    4 halvings, 12 events in all); a request landing inside that loop (flag visible from tick 4, i.e.
    during the first halving) ends it after that halving, and the first head returns `Interrupted` at
    tick 6 ≤ 4 + 17 -/
example :
    let r := fun k : Nat => run co { P with psi := fun _ => (100000000, []) } (dir 1) ()
      { pr 3 false with L0 := 1, Lmax := 16 } (fun t => k != 0 && t ≥ k) false [5] [] [] [] [0]
    (r 0).stats.stepsizeBacktracks = 4 ∧ (r 0).ticks = 12 ∧
    (r 4).stats.stepsizeBacktracks = 1 ∧ (r 4).ticks = 6 ∧ (r 4).stats.status = .Interrupted ∧
    (r 4).stats.iterations = 0 ∧ (r 4).fuelOut = false := by decide

/-- `pantr_interrupted_or_natural` on that run (`t₀ = 9`, 14 events in all): the head after iteration 0
    sees the flag *and* a satisfied tolerance — `Converged` wins; with `t₀ = 3` (4 events):
    `Interrupted` -/
example : (solve 3 false 1 9).stats.status = .Converged ∧ 9 + 1 ≤ (solve 3 false 1 9).ticks ∧
    (solve 3 false 1 3).stats.status = .Interrupted ∧ 3 + 1 ≤ (solve 3 false 1 3).ticks := by decide
example : (solve 3 false 1 9).stats.status = .Interrupted ∨
    ((solve 3 false 1 9).stats.status = .Converged ∧
      (solve 3 false 1 9).stats.eps ≤ C06.effTol (pr 3 false).tolerance) ∨
    ((solve 3 false 1 9).stats.status = .MaxTime ∧ false = true) ∨
    ((solve 3 false 1 9).stats.status = .MaxIter ∧ (solve 3 false 1 9).stats.iterations = (pr 3 false).maxIter) ∨
    ((solve 3 false 1 9).stats.status = .NotFinite ∧ RealLike.isFinite (solve 3 false 1 9).stats.eps = false) :=
  pantr_interrupted_or_natural co P (dir 1) () (pr 3 false) _
    (by intro a b hab h; simp at h ⊢; omega) 9 (by decide) false [5] [] [] [] [0] _ rfl (by decide)
/-- no request at all: not `Interrupted` -/
example : (solve 3 false 1 0).stats.status ≠ .Interrupted :=
  pantr_not_interrupted_without_stop co P (dir 1) () (pr 3 false) _ false [5] [] [] [] [0] _ rfl
    (fun _ => rfl)
/-- the tick bounds on that run: 14 events `≤ 9 + 17` -/
example : (solve 3 false 1 9).ticks ≤ max 7 (9 + 17) :=
  pantr_ticks_after_stop_max co P (dir 1) () (pr 3 false) _
    (by intro a b hab h; simp at h ⊢; omega) 9 (by decide) false [5] [] [] [] [0]

end examples

/-! ### Non-vacuity over `ℚ` (`Proofs/PantrExampleQ.lean`): a natural status after the request -/
section examplesQ
open Alpaqa.Pantr.ExampleQ

example (k : Nat) : MonotoneStop (stopAt (some k)) := by
  intro a b hab h; simp only [stopAt, decide_eq_true_eq] at h ⊢; omega

/-- request visible from tick 17 — inside the second (last) iteration of a solve with `max_iter = 2`: the
    iteration completes, the next head sees both `k = max_iter` and the flag; `MaxIter` has priority
    (`26` events in all, `17 + 1 ≤ 26`); visible from tick 6 — inside the first iteration —:
    `Interrupted` after one iteration, 17 events `≤ 6 + 17`. -/
example : (rq (some 17)).stats.status = .MaxIter ∧ (rq (some 17)).stats.iterations = 2 ∧
    (rq (some 17)).ticks = 26 ∧ (rq (some 6)).stats.status = .Interrupted ∧
    (rq (some 6)).stats.iterations = 1 ∧ (rq (some 6)).ticks = 17 := by decide +kernel
example : (rq (some 17)).stats.status = .Interrupted ∨
    ((rq (some 17)).stats.status = .Converged ∧ (rq (some 17)).stats.eps ≤ C06.effTol prq.tolerance) ∨
    ((rq (some 17)).stats.status = .MaxTime ∧ false = true) ∨
    ((rq (some 17)).stats.status = .MaxIter ∧ (rq (some 17)).stats.iterations = prq.maxIter) ∨
    ((rq (some 17)).stats.status = .NotFinite ∧ RealLike.isFinite (rq (some 17)).stats.eps = false) :=
  pantr_interrupted_or_natural coq Pq dirq 0 prq (stopAt (some 17))
    (by intro a b hab h; simp only [stopAt, decide_eq_true_eq] at h ⊢; omega) 17 (by decide)
    false [4] [5] [2] [7] [0] _ rfl (by decide +kernel)

/-- the example with criterion `ProjGradUnitNorm` (one prox evaluation per head, `∇ψ(x̂)` evaluated by
    `compute_FBS_step`), `compute_ratio_using_new_stepsize` and a provider whose every proposal is
    rejected -/
def prT : Params ℚ :=
  { prq with stopCrit := .ProjGradUnitNorm, computeRatioUsingNewStepsize := true, maxIter := 3 }
def rT (t0 : Option Nat) : Result ℚ Nat := run coq Pq dirq 1 prT (stopAt t0) false [4] [5] [2] [7] [0]

/-- **The bound `t₀ + 13` is attained**: the first head polls the flag at tick 6; a request visible
    from tick 7 on is followed by the whole iteration `k = 0` (12 events), the next head's prox
    evaluation and the final callback — 20 events in all; in iteration `k = 1` (head poll at tick 19,
    request visible from tick 20): 31 = 20 + 11. -/
example : (rT (some 6)).ticks = 7 ∧ (rT (some 7)).ticks = 7 + 13 ∧ (rT (some 7)).stats.iterations = 1 ∧
    (rT (some 7)).stats.status = .Interrupted ∧ (rT (some 19)).ticks = 20 ∧
    (rT (some 20)).ticks = 20 + 11 ∧ (rT (some 20)).stats.iterations = 2 := by decide +kernel
example : (rT (some 7)).ticks ≤ max 7 (7 + 13) :=
  pantr_ticks_after_stop_tight coq (by norm_num [coq]) Pq dirq 1 prT (stopAt (some 7))
    (by intro a b hab h; simp only [stopAt, decide_eq_true_eq] at h ⊢; omega) 7 (by decide)
    false [4] [5] [2] [7] [0]

end examplesQ

end Alpaqa.Props.C19_Pantr
