/-
  C19 (PANTR) — `stop()` interrupts promptly, leaving valid results.

  PANTR polls the stop flag in two places: `check_all_stop_conditions` at the loop head, and the
  condition of `backtrack_qub` — `while (!stop_requested() && L < L_max && qub_violated(i))` — the
  step-size loop used for the initial backtracking and (up to twice) inside an iteration.  Unlike
  PANOC / ZeroFPR it has no line-search loop.  So the statements are:

  * a request visible at a head check ends the solve *there* (`pantr_stop_at_head_exits`): no
    further iteration, the iterate that is current is written back (C03 applies to it);
  * a request landing anywhere inside iteration `k` (after that iteration's head poll) lets the
    iteration finish and exits at the next head with `iterations = k + 1`
    (`pantr_stop_during_iteration`) — "at most one further iteration's worth of evaluations";
  * once the flag is visible `backtrack_qub` makes no further call (`pantr_backtrack_noop`); with a
    flag that is never lowered and visible from tick `t₀` on, a `backtrack_qub` entered at tick `t`
    ends at tick `≤ max t (t₀ + 1)` (`pantr_backtrack_ticks_after_stop`), the initialisation ends at
    tick `≤ max 4 (t₀ + 1)` (`pantr_init_ticks_after_stop`), an iteration that starts at tick `t`
    ends at tick `≤ max (t + 15) (t₀ + 6)` (`pantr_iteration_ticks_after_stop`) and the whole solve
    at tick `≤ t₀ + 17` (`pantr_ticks_after_stop`: the `≤ 14` non-backtracking events of the
    iteration in flight, the next head `≤ 2`, the final callback) — independent of the number of
    step-size halvings the quadratic upper bound would still ask for;
  * without a request, one iteration is at most `15 + 2·b` events (problem evaluations by the
    solver, direction calls, one callback), `b` = step-size halvings in it (`pantr_iteration_events`),
    the exit adds at most 3 (`pantr_events_after_visible_stop`), and over an ordered field each
    `backtrack_qub` loop makes `n` passes only if `L·2ⁿ⁻¹ < L_max` (`backtrack_passes_bounded`).
  * `Interrupted` only if the flag was visible at the last head; otherwise the natural status
    (`pantr_interrupted_or_natural`).
  * outputs after an interrupted solve satisfy the same contract as any exit:
    `Props/C03_Pantr.pantr_exit_contract` quantifies over all stop schedules.

  Not modelled: data-race freedom of the flag (C++ memory model), see DESIGN §6 C19.
-/
import Alpaqa.Proofs.PantrOrd
import Alpaqa.Proofs.PantrExample
import Alpaqa.Props.C06
import Alpaqa.Props.C06_Pantr

namespace Alpaqa.Props.C19_Pantr
open Alpaqa Alpaqa.Pantr Alpaqa.Gen
set_option linter.unusedSectionVars false

/-- The stop flag is never cleared during a solve (only `stop()` writes it). -/
def MonotoneStop (stop : Nat → Bool) : Prop := ∀ a b, a ≤ b → stop a = true → stop b = true

section structural
variable {α D : Type} [Add α] [Sub α] [Mul α] [Div α] [Neg α] [LT α] [LE α] [DecidableLT α]
  [DecidableLE α] [BEq α] [RealLike α] [NatCast α] [OfScientific α]
  [OfNat α 0] [OfNat α 1] [OfNat α 2] [OfNat α 100]

/-- **A stop request visible at a loop-head check ends the solve there**: the loop returns the exit
    block of this very head — `iterations = k`, the current iterate is the final one, the status is
    not `Busy` (it is `Interrupted` unless a higher-priority condition of the chain holds). -/
theorem pantr_stop_at_head_exits (co : Consts α) (P : Problem α) (dir : Direction D α) (pr : Params α)
    (stop : Nat → Bool) (oot : Bool) (x0 y Sig errz0 : Vec α) (fuel : Nat) (s : St α D)
    (hstop : stop (headStep P pr stop oot s).1.tick = true) :
    (headStep P pr stop oot s).2.2 ≠ .Busy ∧
    mainLoop co P dir pr stop oot x0 y Sig errz0 (fuel + 1) s =
      exitBlock co pr (headStep P pr stop oot s).1 (headStep P pr stop oot s).2.1
        (headStep P pr stop oot s).2.2 x0 y Sig errz0 ∧
    (mainLoop co P dir pr stop oot x0 y Sig errz0 (fuel + 1) s).stats.iterations = s.k ∧
    (mainLoop co P dir pr stop oot x0 y Sig errz0 (fuel + 1) s).final = some s.curr := by
  have hb : (headStep P pr stop oot s).2.2 ≠ .Busy := by
    rw [headStep_status, hstop]; exact C06.stop_requested_not_busy _ _ _ _ _ _ _
  have he : mainLoop co P dir pr stop oot x0 y Sig errz0 (fuel + 1) s =
      exitBlock co pr (headStep P pr stop oot s).1 (headStep P pr stop oot s).2.1
        (headStep P pr stop oot s).2.2 x0 y Sig errz0 := by
    unfold mainLoop; simp [hb]
  have hf := exitBlock_fields co pr (headStep P pr stop oot s).1 (headStep P pr stop oot s).2.1
    (headStep P pr stop oot s).2.2 x0 y Sig errz0
  have hh := headStep_same P pr stop oot s
  exact ⟨hb, he, by rw [he, hf.2.2.1, hh.2.2.1], by rw [he, hf.2.2.2.2.1, hh.1]⟩

/-- With a flag that is never cleared: a request already visible when a pass of the loop starts
    ends the solve in that pass, after at most 3 more events (`∇ψ(x̂)` if the criterion needs it, the
    unit-step prox of some criteria, the final callback). -/
theorem pantr_events_after_visible_stop (co : Consts α) (P : Problem α) (dir : Direction D α)
    (pr : Params α) (stop : Nat → Bool) (hm : MonotoneStop stop) (oot : Bool) (x0 y Sig errz0 : Vec α)
    (fuel : Nat) (s : St α D) (hstop : stop s.tick = true) :
    (mainLoop co P dir pr stop oot x0 y Sig errz0 (fuel + 1) s).stats.iterations = s.k ∧
    (mainLoop co P dir pr stop oot x0 y Sig errz0 (fuel + 1) s).final = some s.curr ∧
    (mainLoop co P dir pr stop oot x0 y Sig errz0 (fuel + 1) s).stats.status ≠ .Busy ∧
    (mainLoop co P dir pr stop oot x0 y Sig errz0 (fuel + 1) s).ticks ≤ s.tick + 3 := by
  have hh := headStep_same P pr stop oot s
  have hst : stop (headStep P pr stop oot s).1.tick = true := hm _ _ hh.2.2.2.1 hstop
  obtain ⟨hb, he, hi, hfin⟩ := pantr_stop_at_head_exits co P dir pr stop oot x0 y Sig errz0 fuel s hst
  have hf := exitBlock_fields co pr (headStep P pr stop oot s).1 (headStep P pr stop oot s).2.1
    (headStep P pr stop oot s).2.2 x0 y Sig errz0
  refine ⟨hi, hfin, by rw [he, hf.2.1]; exact hb, ?_⟩
  rw [he, hf.2.2.2.2.2.1]
  have := hh.2.2.2.2.1
  omega

/-- **A request landing inside an iteration**: if the head of iteration `k` saw no exit condition
    and the flag is visible by the time the body of that iteration is done, the next head exits:
    `iterations = k + 1`, i.e. at most the remainder of one iteration is executed after `stop()`. -/
theorem pantr_stop_during_iteration (co : Consts α) (P : Problem α) (dir : Direction D α)
    (pr : Params α) (stop : Nat → Bool) (hm : MonotoneStop stop) (oot : Bool) (x0 y Sig errz0 : Vec α)
    (fuel : Nat) (s : St α D) (hbusy : (headStep P pr stop oot s).2.2 = .Busy)
    (hstop : stop (iterBody co P dir pr stop (headStep P pr stop oot s).1 (headStep P pr stop oot s).2.1).tick
      = true) :
    (mainLoop co P dir pr stop oot x0 y Sig errz0 (fuel + 2) s).stats.iterations = s.k + 1 ∧
    (mainLoop co P dir pr stop oot x0 y Sig errz0 (fuel + 2) s).stats.status ≠ .Busy := by
  have hstep : mainLoop co P dir pr stop oot x0 y Sig errz0 (fuel + 2) s =
      mainLoop co P dir pr stop oot x0 y Sig errz0 (fuel + 1)
        (iterBody co P dir pr stop (headStep P pr stop oot s).1 (headStep P pr stop oot s).2.1) := by
    conv_lhs => unfold mainLoop
    simp [hbusy]
  have := pantr_events_after_visible_stop co P dir pr stop hm oot x0 y Sig errz0 fuel _ hstop
  rw [hstep]
  refine ⟨?_, this.2.2.1⟩
  rw [this.1, (iterBody_spec co P dir pr stop _ _).2.2.1, (headStep_same P pr stop oot s).2.2.1]

/-- **Work of one iteration** in events: between 4 and `15 + 2·b`, where `b` is the number of
    step-size halvings (`stepsize_backtracks`) the iteration performed. -/
theorem pantr_iteration_events (co : Consts α) (P : Problem α) (dir : Direction D α) (pr : Params α)
    (stop : Nat → Bool)
    (s : St α D) (eps : α) :
    s.tick + 4 ≤ (iterBody co P dir pr stop s eps).tick ∧
    (iterBody co P dir pr stop s eps).tick + 2 * s.stats.stepsizeBacktracks
      ≤ s.tick + 15 + 2 * (iterBody co P dir pr stop s eps).stats.stepsizeBacktracks :=
  iterBody_tick co P dir pr stop s eps

/-! ### The step-size loops poll the flag -/

/-- **Once the flag is visible `backtrack_qub` makes no further call** (initial backtracking and
    the in-iteration ones alike: it is one lambda). -/
theorem pantr_backtrack_noop (P : Problem α) (pr : Params α) (stop : Nat → Bool) (f : Nat)
    (c : Iterate α) (t b : Nat) (h : stop t = true) :
    backtrackQub P pr stop (f + 1) c t b = (c, t, b, false) :=
  backtrackQub_stop_noop P pr stop f c t b h

/-- With a flag that is never lowered and visible from tick `t₀` on, `backtrack_qub` entered at tick
    `t` ends at tick `≤ max t (t₀ + 1)`. -/
theorem pantr_backtrack_ticks_after_stop (P : Problem α) (pr : Params α) (stop : Nat → Bool)
    (hm : MonotoneStop stop) (t0 : Nat) (h0 : stop t0 = true) (f : Nat) (c : Iterate α) (t b : Nat) :
    (backtrackQub P pr stop f c t b).2.1 ≤ max t (t0 + 1) :=
  backtrackQub_tick_bound P pr stop hm t0 h0 f c t b

/-- **The initialisation is interruptible**: it ends at tick `≤ max 4 (t₀ + 1)` (`4` = Lipschitz
    estimate `≤ 2` + first proximal-gradient step and `ψ(x̂)`, made before the first poll). -/
theorem pantr_init_ticks_after_stop (co : Consts α) (P : Problem α) (d0 : D) (pr : Params α)
    (stop : Nat → Bool) (hm : MonotoneStop stop) (t0 : Nat) (h0 : stop t0 = true) (x0 gV : Vec α)
    (s : St α D) (hi : initState co P d0 pr stop x0 gV = .inr s) : s.tick ≤ max 4 (t0 + 1) := by
  have hc : (lipschitzStage co P pr x0 gV).2.2 ≤ 2 := by
    unfold lipschitzStage; simp only []; split_ifs <;> simp
  unfold initState at hi
  simp only [] at hi
  split_ifs at hi
  injection hi with hi; subst hi
  simp only []
  exact Nat.le_trans (backtrackQub_tick_bound P pr stop hm t0 h0 _ _ _ _) (by omega)

theorem candidateFbe_tick_stop (P : Problem α) (pr : Params α) (stop : Nat → Bool)
    (hm : MonotoneStop stop) (t0 : Nat) (h0 : stop t0 = true) (prox cand : Iterate α) (q : Vec α)
    (t : Nat) : (candidateFbe P pr stop prox cand q t).2.1 ≤ max (t + 3) (t0 + 1) := by
  unfold candidateFbe
  simp only []
  split_ifs
  · exact backtrackQub_tick_bound P pr stop hm t0 h0 _ _ _ _
  · dsimp only; omega

theorem trStage_tick_stop (co : Consts α) (P : Problem α) (dir : Direction D α) (pr : Params α)
    (stop : Nat → Bool) (hm : MonotoneStop stop) (t0 : Nat) (h0 : stop t0 = true) (s : St α D) :
    (trStage co P dir pr stop s).tick ≤ max (s.tick + 10) (t0 + 1) := by
  have h1 := fbsStep_tick P pr s
  have h2 := dirInit_tick dir s (fbsStep P pr s).1 (fbsStep P pr s).2.2
  unfold trStage
  simp only []
  split_ifs
  · unfold trAttempt
    simp only []
    generalize htr : trustRegionStep co dir _ _ _ _ _ = tr
    have h3 := trustRegionStep_tick co dir (dirInit dir s (fbsStep P pr s).1 (fbsStep P pr s).2.2).1
      (dirInit dir s (fbsStep P pr s).1 (fbsStep P pr s).2.2).2.2 (fbsStep P pr s).1 s.Delta s.q
    rw [htr] at h3
    split_ifs
    · have h4 := candidateFbe_tick_stop P pr stop hm t0 h0 (fbsStep P pr s).1 s.cand tr.2.2.1 tr.2.1
      simp only []
      omega
    · simp only []; omega
  · simp only []; omega

theorem acceptStage_tick_stop (P : Problem α) (dir : Direction D α) (pr : Params α)
    (stop : Nat → Bool) (hm : MonotoneStop stop) (t0 : Nat) (h0 : stop t0 = true) (m : Mid α D)
    (t : Nat) : (acceptStage P dir pr stop m t).tick ≤ max (t + 4) (t0 + 4) := by
  unfold acceptStage
  simp only []
  by_cases hc : pr.computeRatioUsingNewStepsize
  · simp only [hc, Bool.not_true, Bool.false_eq_true, if_false]
    split_ifs <;> dsimp only <;> omega
  · simp only [hc, Bool.not_false, if_true]
    have := backtrackQub_tick_bound P pr stop hm t0 h0 pr.qubFuel (evalPsiHat P m.cand) (t + 1) 0
    split_ifs <;> dsimp only <;> omega

theorem rejectStage_tick_stop (P : Problem α) (dir : Direction D α) (pr : Params α)
    (stop : Nat → Bool) (hm : MonotoneStop stop) (t0 : Nat) (h0 : stop t0 = true) (m : Mid α D)
    (t : Nat) : (rejectStage P dir pr stop m t).tick ≤ max (t + 4) (t0 + 4) := by
  unfold rejectStage
  simp only []
  have := backtrackQub_tick_bound P pr stop hm t0 h0 pr.qubFuel (evalPsiHat P m.prox) (t + 1) 0
  split_ifs <;> dsimp only <;> omega

/-- **Work of one iteration once a stop request is pending**: with a flag that is never lowered and
    visible from tick `t₀` on, an iteration that starts at tick `t` ends at tick
    `≤ max (t + 15) (t₀ + 6)` — `15` = its events other than step-size halvings; `t₀ + 6`: a request
    landing inside the candidate's `backtrack_qub` is followed by the pass in flight (`≤ t₀ + 1`),
    the progress callback, `ψ(x̂)` of the fallback step (whose `backtrack_qub` then does nothing) and
    `≤ 3` direction / prox calls.  No term in the number of halvings. -/
theorem pantr_iteration_ticks_after_stop (co : Consts α) (P : Problem α) (dir : Direction D α)
    (pr : Params α) (stop : Nat → Bool) (hm : MonotoneStop stop) (t0 : Nat) (h0 : stop t0 = true)
    (s : St α D) (eps : α) :
    (iterBody co P dir pr stop s eps).tick ≤ max (s.tick + 15) (t0 + 6) := by
  have h1 := trStage_tick_stop co P dir pr stop hm t0 h0 s
  have h2 := acceptStage_tick_stop P dir pr stop hm t0 h0 (trStage co P dir pr stop s)
    ((trStage co P dir pr stop s).tick + 1)
  have h3 := rejectStage_tick_stop P dir pr stop hm t0 h0 (trStage co P dir pr stop s)
    ((trStage co P dir pr stop s).tick + 1)
  unfold iterBody
  simp only []
  split_ifs <;> omega

/-- Tick bound for the main loop: with a flag that is never lowered and visible from tick `t₀` on,
    a solve that is at a loop head at tick `s.tick` ends at tick `≤ max (s.tick + 3) (t₀ + 17)`.
    `3` = head (`≤ 2`) + final callback; `17`: an iteration whose head polled the flag at a tick
    `≤ t₀ − 1` ends at tick `≤ t₀ + 14` (`≤ 15` events other than halvings), then the next head
    (`≤ 2`) and the final callback. -/
theorem pantr_mainLoop_ticks_after_stop (co : Consts α) (P : Problem α) (dir : Direction D α)
    (pr : Params α) (stop : Nat → Bool) (hm : MonotoneStop stop) (t0 : Nat) (h0 : stop t0 = true)
    (oot : Bool) (x0 y Sig errz0 : Vec α) (fuel : Nat) (s : St α D) :
    (mainLoop co P dir pr stop oot x0 y Sig errz0 fuel s).ticks ≤ max (s.tick + 3) (t0 + 17) := by
  induction fuel generalizing s with
  | zero =>
    simp only [mainLoop]
    rw [(exitBlock_fields co pr s s.stats.eps .Exception x0 y Sig errz0).2.2.2.2.2.1]
    omega
  | succ f ih =>
    have hh := headStep_same P pr stop oot s
    by_cases hst : stop (headStep P pr stop oot s).1.tick = true
    · have he := (pantr_stop_at_head_exits co P dir pr stop oot x0 y Sig errz0 f s hst).2.1
      rw [he, (exitBlock_fields co pr _ _ _ x0 y Sig errz0).2.2.2.2.2.1]
      omega
    · have hlt : (headStep P pr stop oot s).1.tick < t0 := by
        apply Nat.lt_of_not_le
        intro hc
        exact hst (hm t0 _ hc h0)
      unfold mainLoop
      simp only []
      split_ifs with hb
      · rw [(exitBlock_fields co pr _ _ _ x0 y Sig errz0).2.2.2.2.2.1]
        omega
      · have hb' := pantr_iteration_ticks_after_stop co P dir pr stop hm t0 h0
          (headStep P pr stop oot s).1 (headStep P pr stop oot s).2.1
        have := ih (iterBody co P dir pr stop (headStep P pr stop oot s).1 (headStep P pr stop oot s).2.1)
        omega

/-- **At most one further iteration's worth of evaluations after `stop()`, wherever it lands**
    (initialisation and step-size loops included): if the flag, never lowered, is visible from tick
    `t₀` on, the solve ends at tick `≤ max 7 (t₀ + 17)` — in particular `≤ t₀ + 17`. -/
theorem pantr_ticks_after_stop (co : Consts α) (P : Problem α) (dir : Direction D α) (d0 : D)
    (pr : Params α) (stop : Nat → Bool) (hm : MonotoneStop stop) (t0 : Nat) (h0 : stop t0 = true)
    (oot : Bool) (x0 y Sig errz0 gV : Vec α) :
    (run co P dir d0 pr stop oot x0 y Sig errz0 gV).ticks ≤ t0 + 17 := by
  unfold run
  cases hi : initState co P d0 pr stop x0 gV with
  | inl t =>
    simp only []
    have hc : (lipschitzStage co P pr x0 gV).2.2 ≤ 2 := by
      unfold lipschitzStage; simp only []; split_ifs <;> simp
    unfold initState at hi
    simp only [] at hi
    split_ifs at hi
    injection hi with hi
    omega
  | inr s =>
    simp only []
    have h1 := pantr_init_ticks_after_stop co P d0 pr stop hm t0 h0 x0 gV s hi
    have h2 := pantr_mainLoop_ticks_after_stop co P dir pr stop hm t0 h0 oot x0 y Sig errz0
      (pr.maxIter + 1) s
    omega

/-- `Interrupted` is reported only if the flag was visible at the last head check; a solve whose
    flag is never visible ends with its natural status. -/
theorem pantr_interrupted_or_natural (co : Consts α) (P : Problem α) (dir : Direction D α) (d0 : D)
    (pr : Params α) (stop : Nat → Bool) (oot : Bool) (x0 y Sig errz0 gV : Vec α) (s : St α D)
    (hi : initState co P d0 pr stop x0 gV = .inr s) (hnever : ∀ t, stop t = false) :
    (run co P dir d0 pr stop oot x0 y Sig errz0 gV).stats.status ≠ .Interrupted := by
  intro h
  have := C06_Pantr.pantr_interrupted_only_if co P dir d0 pr stop oot x0 y Sig errz0 gV s hi h
  rw [hnever] at this; exact absurd this (by decide)

end structural

/-! ### What bounds the step-size loops (ordered field) -/
section ordered
variable {α : Type} [Field α] [LinearOrder α] [IsStrictOrderedRing α] [RealLike α]

/-- `backtrack_qub` adds `n` to `stepsize_backtracks` and costs `2n` evaluations; `n ≥ 1` passes are
    possible only while `L·2ⁿ⁻¹ < L_max`.  Nothing else — neither the problem nor the stop flag —
    enters the bound. -/
theorem backtrack_passes_bounded (P : Problem α) (pr : Params α)
    (stop : Nat → Bool) (f : Nat) (c : Iterate α) (t b : Nat) :
    ∃ n : Nat, (backtrackQub P pr stop f c t b).2.2.1 = b + n ∧
      (backtrackQub P pr stop f c t b).2.1 = t + 2 * n ∧ (1 ≤ n → c.L * 2 ^ (n - 1) < pr.Lmax) := by
  obtain ⟨n, h1, -, -, h4⟩ := backtrackQub_pow P pr stop f c t b
  have ht := (backtrackQub_tick P pr stop f c t b).1
  exact ⟨n, h1, by omega, h4⟩

/-- Explicit form: with `L ≥ L_min > 0` no loop makes more than `n` passes once `L_min·2ⁿ⁻¹ ≥ L_max`. -/
theorem backtrack_passes_le (P : Problem α) (pr : Params α)
    (stop : Nat → Bool) (f : Nat) (c : Iterate α) (t b N : Nat)
    (hL : 0 < c.L) (hN : pr.Lmax ≤ c.L * 2 ^ N) :
    (backtrackQub P pr stop f c t b).2.2.1 ≤ b + N := by
  obtain ⟨n, h1, -, h3⟩ := backtrack_passes_bounded P pr stop f c t b
  rw [h1]
  by_contra hlt
  have hn : N + 1 ≤ n := by omega
  have h := h3 (by omega)
  have hpow : (2 : α) ^ N ≤ 2 ^ (n - 1) := pow_le_pow_right₀ (by norm_num) (by omega)
  have : c.L * 2 ^ N ≤ c.L * 2 ^ (n - 1) := mul_le_mul_of_nonneg_left hpow hL.le
  linarith

end ordered

/-! ### Non-vacuity -/
section examples
open Alpaqa.Pantr.Example

/-- flag visible at the first head: exit there with 0 iterations -/
example : (solve 3 false 1 1).stats.status = .Interrupted ∧ (solve 3 false 1 1).stats.iterations = 0 := by
  decide
/-- request landing inside iteration 0 (event 9 of the run): iteration 0 completes, exit at the next
    head with 1 iteration -/
example : (solve 3 false 1 9).stats.iterations = 1 ∧ (solve 3 false 1 9).stats.status ≠ .Busy := by
  decide
example : MonotoneStop (fun t => decide (t ≥ 9)) := by
  intro a b hab h; simp at h ⊢; omega

/-- an instance whose initial `backtrack_qub` runs to `L_max` (`ψ(x̂)` huge, `L_0 = 1`, `L_max = 16`:
    4 halvings, 12 events in all); a request landing inside that loop (flag visible from tick 4, i.e.
    during the first halving) ends it after that halving, and the first head returns `Interrupted` at
    tick 6 ≤ 4 + 17 -/
example :
    let r := fun k : Nat => run co { P with psi := fun _ => (100000000, []) } (dir 1) ()
      { pr 3 false with L0 := 1, Lmax := 16 } (fun t => k != 0 && t ≥ k) false [5] [] [] [] [0]
    (r 0).stats.stepsizeBacktracks = 4 ∧ (r 0).ticks = 12 ∧
    (r 4).stats.stepsizeBacktracks = 1 ∧ (r 4).ticks = 6 ∧ (r 4).stats.status = .Interrupted ∧
    (r 4).stats.iterations = 0 ∧ (r 4).fuelOut = false := by decide

end examples

end Alpaqa.Props.C19_Pantr
