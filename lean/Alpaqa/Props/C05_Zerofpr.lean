/-
  C05 (ZeroFPR) — Forward-backward envelope decreases; step size never grows.

  From the *generated* acceptance tests `zerofpr_linesearchViolated` / `zerofpr_qubViolated`
  (`Alpaqa/Gen/C05.lean`, re-extracted from zerofpr.tpp on every run) and the loop model
  (`Alpaqa/Model/Zerofpr.lean`):

  * an accepted accelerated step (`τ > 0`, line search not forced) decreases the envelope:
    `φ(xₖ₊₁) ≤ φ(xₖ) − σ‖pₖ‖² + margin`, `σ = β(1−γL)/(2γ)`, `margin = (1+|φ(xₖ)|)·ls_tol` —
    for one pass of the line-search body, the whole line search and one pass of the loop body;
  * every iterate that becomes current satisfies the quadratic upper bound (or its `L` reached
    `L_max`), hence `ψ(x̂)+h(x̂) ≤ φγ(x) − ((1−γL)/(2γ))‖p‖² + margin_qub`;
  * `γ` never increases, stays positive, and `γ·L` is constant — per pass, per line search, per
    iteration, and over a whole solve (`γ·L = Lγ_factor` for every reported iterate).
  No smoothness / convexity is assumed: problem functions, the prox step and the direction
  provider are arbitrary oracles; every stop schedule.
  Structural statements hold over any carrier; arithmetic ones over a linearly ordered field.
-/
import Alpaqa.Proofs.ZerofprStep
import Alpaqa.Proofs.ZerofprExample

namespace Alpaqa.Props.C05_Zerofpr
open Alpaqa Alpaqa.Zerofpr Alpaqa.Gen
set_option linter.unusedSectionVars false

/-! ### Structural: what an accepted candidate has passed (any carrier, IEEE doubles included) -/
section structural
variable {α D : Type} [Add α] [Sub α] [Mul α] [Div α] [Neg α] [LT α] [LE α] [DecidableLT α]
  [DecidableLE α] [BEq α] [RealLike α] [NatCast α] [OfScientific α]
  [OfNat α 0] [OfNat α 1] [OfNat α 2] [OfNat α 100]

/-- A pass of the line-search body ends in `break` only with both generated tests passed. -/
theorem lsPass_accepts (P : Problem α) (dir : Direction D α) (pr : Params α) (c : Iterate α)
    (px : ProxIterate α) (q : Vec α) (tauInit : α) (s s' : LS α D)
    (h : lsPass P dir pr c px q tauInit s = .done s') : Accepted pr c s' :=
  (lsPass_done P dir pr c px q tauInit s s' h).2.1

/-- The line search, left through `break`, delivers an accepted candidate. -/
theorem lineSearch_accepts (P : Problem α) (dir : Direction D α) (pr : Params α)
    (stop : Nat → Bool) (c : Iterate α) (px : ProxIterate α) (q : Vec α) (tauInit : α)
    (fuel : Nat) (s : LS α D) (hf : s.fuelOut = false)
    (hr : (lineSearch P dir pr stop c px q tauInit fuel s).fuelOut = false)
    (hs : stop (lineSearch P dir pr stop c px q tauInit fuel s).tick = false) :
    Accepted pr c (lineSearch P dir pr stop c px q tauInit fuel s) :=
  (lineSearch_good P dir pr stop c px q tauInit fuel s hf hr hs).2

/-- A completed iteration: the iterate that becomes current passed the generated tests against
    the iterate that was current, with the `τ` that is reported in the callback. -/
theorem iterBody_accepts (P : Problem α) (dir : Direction D α) (pr : Params α) (stop : Nat → Bool)
    (s : St α D) (eps : α) (hst : stop (lsOf P dir pr stop s).tick = false)
    (hf : (lsOf P dir pr stop s).fuelOut = false) :
    (iterBody P dir pr stop s eps).curr = (lsOf P dir pr stop s).next ∧
    Accepted pr s.curr (lsOf P dir pr stop s) ∧
    ∃ cb, (iterBody P dir pr stop s eps).cbs = cb :: s.cbs ∧ cb.tau = (lsOf P dir pr stop s).tau := by
  have hd := iterBody_completed P dir pr stop s eps hst
  obtain ⟨cb, h1, h2, _⟩ := hd.2.2.2
  refine ⟨hd.1, ?_, cb, h1, h2⟩
  unfold lsOf at hst hf ⊢
  exact lineSearch_accepts P dir pr stop _ _ _ _ _ _ (lsInit_fuelOut _ _ _ _ _) hf hst

/-- "The initial step-size loop was cut short by a stop request": the stop flag was visible at the
    tick at which the initialisation ended (the loop polls the flag first, so it was left through the
    poll and not because the quadratic upper bound was met). -/
def InitInterrupted (P : Problem α) (d0 : D) (pr : Params α) (stop : Nat → Bool) (x0 gV : Vec α)
    (gS : α) : Prop :=
  match initState P d0 pr stop x0 gV gS with
  | .inl _ => False
  | .inr s => stop s.tick = true

/-- Invariant of the main loop: the current iterate satisfies the quadratic upper bound test or
    has `L ≥ L_max` (unless the model's fuel ran out) — except the *initial* iterate (`k = 0`) of a
    solve whose initial step-size loop was interrupted (`I`). -/
def QubInv (I : Prop) (pr : Params α) (s : St α D) : Prop :=
  s.fuelOut = true ∨ QubOK pr s.curr ∨ (I ∧ s.k = 0)

theorem qubInv_step (I : Prop) (P : Problem α) (dir : Direction D α) (pr : Params α)
    (stop : Nat → Bool) (oot : Bool) (s : St α D) (h : QubInv I pr s) :
    QubInv I pr (iterBody P dir pr stop (headStep P pr stop oot s).1 (headStep P pr stop oot s).2.1) := by
  have hs := headStep_same P pr stop oot s
  generalize hs' : (headStep P pr stop oot s).1 = s' at hs
  generalize (headStep P pr stop oot s).2.1 = eps
  rcases h with h | h
  · left; rw [iterBody_fuelOut, hs.2.2.2.2.1, h]; rfl
  · cases hf : (iterBody P dir pr stop s' eps).fuelOut
    · right
      rw [iterBody_fuelOut] at hf
      have hlsf : (lsOf P dir pr stop s').fuelOut = false := by
        cases hx : (lsOf P dir pr stop s').fuelOut
        · rfl
        · rw [hx] at hf; simp at hf
      by_cases hst : stop (lsOf P dir pr stop s').tick = true
      · rw [(iterBody_interrupted P dir pr stop s' eps hst).1, hs.1,
          (iterBody_interrupted P dir pr stop s' eps hst).2.2.1, hs.2.1]; exact h
      · have ha := iterBody_accepts P dir pr stop s' eps (by simpa using hst) hlsf
        left; rw [ha.1]; exact ha.2.1.1
    · left; exact hf

/-- **Every iterate a solve returns satisfies the generated quadratic-upper-bound test, or its
    `L` reached `L_max`** — with one exception since the initial step-size loop polls the stop flag
    (C19): a solve whose initial loop was cut short by a stop request (`InitInterrupted`) and that
    returns the initial iterate (zero iterations). -/
theorem zerofpr_final_iterate_qub (P : Problem α) (dir : Direction D α) (d0 : D) (pr : Params α)
    (stop : Nat → Bool) (oot : Bool) (x0 y Sig errz0 gV : Vec α) (gS : α) (c : Iterate α)
    (hfuel : (run P dir d0 pr stop oot x0 y Sig errz0 gV gS).fuelOut = false)
    (hc : (run P dir d0 pr stop oot x0 y Sig errz0 gV gS).final = some c) :
    QubOK pr c ∨ (InitInterrupted P d0 pr stop x0 gV gS ∧
      (run P dir d0 pr stop oot x0 y Sig errz0 gV gS).stats.iterations = 0) := by
  have hII : ∀ s, initState P d0 pr stop x0 gV gS = .inr s →
      (stop s.tick = true ↔ InitInterrupted P d0 pr stop x0 gV gS) := by
    intro s hs; unfold InitInterrupted; rw [hs]
  unfold run at hfuel hc ⊢
  cases hi : initState P d0 pr stop x0 gV gS with
  | inl t => simp [hi] at hc
  | inr s =>
    simp only [hi] at hfuel hc ⊢
    have hk0 : s.k = 0 := (initState_good P d0 pr stop x0 gV gS s hi).2.1
    have h0 : QubInv (InitInterrupted P d0 pr stop x0 gV gS) pr s := by
      by_cases hfo : s.fuelOut = true
      · exact .inl hfo
      · right
        by_cases hst : stop s.tick = true
        · exact .inr ⟨(hII s hi).mp hst, hk0⟩
        · left
          unfold initState at hi
          simp only [] at hi
          split_ifs at hi
          injection hi with hi; subst hi
          exact initQub_qubOK P pr stop _ _ _ _ (by simpa using hfo) (by simpa using hst)
    rcases mainLoop_cases P dir pr stop oot x0 y Sig errz0 (QubInv (InitInterrupted P d0 pr stop x0 gV gS) pr)
      (fun s hs _ => qubInv_step _ P dir pr stop oot s hs) (pr.maxIter + 2) s h0
      with ⟨s', hI, _, he⟩ | ⟨s', _, he⟩
    · rw [he] at hfuel hc ⊢
      have hs := headStep_same P pr stop oot s'
      have hx := exitBlock_spec pr (headStep P pr stop oot s').1 (headStep P pr stop oot s').2.1
        (headStep P pr stop oot s').2.2 x0 y Sig errz0
      rw [hx.2.2.2.2.2.1, hs.2.2.2.2.1] at hfuel
      rw [hx.2.2.2.2.1, hs.1] at hc
      rw [hx.2.2.1, hs.2.1]
      injection hc with hc; subst hc
      rcases hI with hI | hI | hI
      · rw [hI] at hfuel; exact absurd hfuel (by decide)
      · exact .inl hI
      · exact .inr hI
    · rw [he] at hfuel; simp at hfuel

end structural

/-! ### Arithmetic: what the tests mean over a linearly ordered field -/
section field
variable {α D : Type} [Field α] [LinearOrder α] [IsStrictOrderedRing α] [RealLike α]

/-- `σ = β(1−γL)/(2γ)` of the iterate the line search starts from. -/
def sigma (pr : Params α) (c : Iterate α) : α :=
  pr.lsStrictness * (1 - c.gamma * c.L) / (2 * c.gamma)

/-- The generated line-search test, read as an inequality. -/
theorem linesearch_kernel_descent (β tol cψ ch cpp cγ cg cL nψ nh npp nγ ng : α)
    (h : zerofpr_linesearchViolated false β tol cψ ch cpp cγ cg cL nψ nh npp nγ ng = false) :
    zerofpr_fbe nψ nh npp nγ ng ≤
      zerofpr_fbe cψ ch cpp cγ cg - β * (1 - cγ * cL) / (2 * cγ) * cpp
        + (1 + |zerofpr_fbe cψ ch cpp cγ cg|) * tol := by
  unfold zerofpr_linesearchViolated at h
  simpa using h

/-- The generated quadratic-upper-bound test, read as an inequality. -/
theorem qub_kernel_bound (tol ψ ψh g L pp : α)
    (h : zerofpr_qubViolated tol ψ ψh g L pp = false) :
    ψh ≤ ψ + g + 1 / 2 * L * pp + (1 + |ψ|) * tol := by
  unfold zerofpr_qubViolated at h
  have h5 : (0.5 : α) = 1 / 2 := by norm_num
  simp only [decide_eq_false_iff_not, not_lt, eabs_eq_abs, h5] at h
  exact h

/-- `linesearch_violated(curr, next) = false` (not forced) as an envelope inequality. -/
theorem linesearch_ok_descent (pr : Params α) (c n : Iterate α)
    (hforce : pr.forceLinesearch = false) (h : linesearchViolated pr c n = false) :
    n.fbe ≤ c.fbe - sigma pr c * c.pTp + (1 + |c.fbe|) * pr.lsTol := by
  unfold linesearchViolated at h
  rw [hforce] at h
  exact linesearch_kernel_descent _ _ _ _ _ _ _ _ _ _ _ _ _ h

/-- `Accepted` with `τ > 0`: the candidate's envelope is below the current one by `σ‖p‖²`. -/
theorem accepted_descent (pr : Params α) (c : Iterate α) (s : LS α D)
    (hforce : pr.forceLinesearch = false) (ha : Accepted pr c s) (hτ : 0 < s.tau) :
    s.next.fbe ≤ c.fbe - sigma pr c * c.pTp + (1 + |c.fbe|) * pr.lsTol := by
  have h2 := ha.2
  have : decide (s.tau > 0) = true := by simpa using hτ
  rw [this, Bool.true_and] at h2
  exact linesearch_ok_descent pr c s.next hforce h2

/-- **One pass of the line-search body** that ends in `break` with an accelerated step. -/
theorem lsPass_descent (P : Problem α) (dir : Direction D α) (pr : Params α) (c : Iterate α)
    (px : ProxIterate α) (q : Vec α) (tauInit : α) (s s' : LS α D)
    (hforce : pr.forceLinesearch = false)
    (h : lsPass P dir pr c px q tauInit s = .done s') (hτ : 0 < s'.tau) :
    s'.next.fbe ≤ c.fbe - sigma pr c * c.pTp + (1 + |c.fbe|) * pr.lsTol :=
  accepted_descent pr c s' hforce (lsPass_accepts P dir pr c px q tauInit s s' h) hτ

/-- **The whole line search**, left through `break` with an accelerated step. -/
theorem lineSearch_descent (P : Problem α) (dir : Direction D α) (pr : Params α)
    (stop : Nat → Bool) (c : Iterate α) (px : ProxIterate α) (q : Vec α) (tauInit : α)
    (fuel : Nat) (s : LS α D) (hforce : pr.forceLinesearch = false) (hf : s.fuelOut = false)
    (hr : (lineSearch P dir pr stop c px q tauInit fuel s).fuelOut = false)
    (hs : stop (lineSearch P dir pr stop c px q tauInit fuel s).tick = false)
    (hτ : 0 < (lineSearch P dir pr stop c px q tauInit fuel s).tau) :
    (lineSearch P dir pr stop c px q tauInit fuel s).next.fbe ≤
      c.fbe - sigma pr c * c.pTp + (1 + |c.fbe|) * pr.lsTol :=
  accepted_descent pr c _ hforce (lineSearch_accepts P dir pr stop c px q tauInit fuel s hf hr hs) hτ

/-- **One completed iteration that accepts an accelerated step** (`τ > 0` is the `τ` reported in
    that iteration's callback): `φ(xₖ₊₁) ≤ φ(xₖ) − σ‖pₖ‖² + (1+|φ(xₖ)|)·ls_tol`,
    `σ = β(1−γₖLₖ)/(2γₖ)`, for every oracle and direction provider. -/
theorem zerofpr_iter_descent (P : Problem α) (dir : Direction D α) (pr : Params α)
    (stop : Nat → Bool) (s : St α D) (eps : α) (hforce : pr.forceLinesearch = false)
    (hst : stop (lsOf P dir pr stop s).tick = false)
    (hf : (lsOf P dir pr stop s).fuelOut = false) (hτ : 0 < (lsOf P dir pr stop s).tau) :
    (iterBody P dir pr stop s eps).curr.fbe ≤
      s.curr.fbe - sigma pr s.curr * s.curr.pTp + (1 + |s.curr.fbe|) * pr.lsTol := by
  have ha := iterBody_accepts P dir pr stop s eps hst hf
  rw [ha.1]
  exact accepted_descent pr s.curr _ hforce ha.2.1 hτ

/-- With `0 < β`, `γL ≤ 1`, `γ > 0` and `‖p‖² ≥ 0` the decrease is genuine: `σ‖p‖² ≥ 0`. -/
theorem sigma_nonneg (pr : Params α) (c : Iterate α) (hβ : 0 ≤ pr.lsStrictness)
    (hγ : 0 < c.gamma) (hγL : c.gamma * c.L ≤ 1) : 0 ≤ sigma pr c := by
  unfold sigma
  apply div_nonneg
  · exact mul_nonneg hβ (by linarith)
  · linarith

/-- `QubOK` as the forward-backward descent inequality: with `L < L_max` and `γ > 0`,
    `ψ(x̂) + h(x̂) ≤ φγ(x) − ((1−γL)/(2γ))‖p‖² + (1+|ψ(x)|)·qub_tol`. -/
theorem qubOK_fb_descent (pr : Params α) (i : Iterate α) (h : QubOK pr i) (hL : i.L < pr.Lmax)
    (hγ : 0 < i.gamma) :
    i.psixhat + i.hxhat ≤
      i.fbe - (1 - i.gamma * i.L) / (2 * i.gamma) * i.pTp + (1 + |i.psix|) * pr.qubTol := by
  unfold QubOK at h
  have : decide (i.L < pr.Lmax) = true := by simpa using hL
  rw [this, Bool.true_and] at h
  have hq := qub_kernel_bound _ _ _ _ _ _ h
  unfold Iterate.fbe zerofpr_fbe
  have hne : i.gamma ≠ 0 := ne_of_gt hγ
  have : (1 - i.gamma * i.L) / (2 * i.gamma) * i.pTp
      = i.pTp / (2 * i.gamma) - 1 / 2 * i.L * i.pTp := by
    field_simp
  rw [this]
  linarith

/-- **`γ` never increases, stays positive, `γ·L` is constant** — one pass of the line-search
    body (either outcome), relative to the iterate the line search started from. -/
theorem lsPass_gamma (P : Problem α) (dir : Direction D α) (pr : Params α) (c : Iterate α)
    (px : ProxIterate α) (q : Vec α) (tauInit : α) (s : LS α D) (hc : 0 < c.gamma)
    (h : GL c s.next) :
    0 < (lsPass P dir pr c px q tauInit s).st.next.gamma ∧
    (lsPass P dir pr c px q tauInit s).st.next.gamma ≤ c.gamma ∧
    (lsPass P dir pr c px q tauInit s).st.next.gamma * (lsPass P dir pr c px q tauInit s).st.next.L
      = c.gamma * c.L :=
  lsPass_GL P dir pr c px q tauInit s hc h

/-- …the whole line search (however it ends: `break`, stop request, fuel). -/
theorem lineSearch_gamma (P : Problem α) (dir : Direction D α) (pr : Params α)
    (stop : Nat → Bool) (s : St α D) (hc : 0 < s.curr.gamma) :
    0 < (lsOf P dir pr stop s).next.gamma ∧ (lsOf P dir pr stop s).next.gamma ≤ s.curr.gamma ∧
    (lsOf P dir pr stop s).next.gamma * (lsOf P dir pr stop s).next.L
      = s.curr.gamma * s.curr.L :=
  lsOf_GL P dir pr stop s hc

/-- …one pass of the loop body (completed or interrupted). -/
theorem iterBody_gamma (P : Problem α) (dir : Direction D α) (pr : Params α)
    (stop : Nat → Bool) (s : St α D) (eps : α) (hc : 0 < s.curr.gamma) :
    0 < (iterBody P dir pr stop s eps).curr.gamma ∧
    (iterBody P dir pr stop s eps).curr.gamma ≤ s.curr.gamma ∧
    (iterBody P dir pr stop s eps).curr.gamma * (iterBody P dir pr stop s eps).curr.L
      = s.curr.gamma * s.curr.L :=
  iterBody_GL P dir pr stop s eps hc

/-- **…and a whole solve**: the step sizes of the reported iterates (progress callbacks, in
    order, the final one included) are non-increasing, and each satisfies `γ·L = Lγ_factor`.
    Unconditional in oracles, stop schedule and budget; needs only `0 < L_min`, `0 < L_max`,
    `0 < Lγ_factor` (so that the initial `γ = Lγ_factor / L` is well defined and positive). -/
theorem zerofpr_gamma_antitone_gammaL_const (P : Problem α) (dir : Direction D α) (d0 : D)
    (pr : Params α) (stop : Nat → Bool) (oot : Bool) (x0 y Sig errz0 gV : Vec α) (gS : α)
    (hmin : 0 < pr.Lmin) (hmax : 0 < pr.Lmax) (hfac : 0 < pr.LgammaFactor) :
    (run P dir d0 pr stop oot x0 y Sig errz0 gV gS).callbacks.Pairwise
      (fun a b => b.it.gamma ≤ a.it.gamma) ∧
    ∀ cb ∈ (run P dir d0 pr stop oot x0 y Sig errz0 gV gS).callbacks,
      0 < cb.it.gamma ∧ cb.it.gamma * cb.it.L = pr.LgammaFactor := by
  unfold run
  cases hi : initState P d0 pr stop x0 gV gS with
  | inl t => simp
  | inr s =>
    simp only []
    have h0 := initState_gammaInv P d0 pr stop x0 gV gS hmin hmax hfac s hi
    have key : ∀ (s' : St α D) (eps : α) (st : SolverStatus), GammaInv pr.LgammaFactor s' →
        (exitBlock pr s' eps st x0 y Sig errz0).callbacks.Pairwise
          (fun a b => b.it.gamma ≤ a.it.gamma) ∧
        ∀ cb ∈ (exitBlock pr s' eps st x0 y Sig errz0).callbacks,
          0 < cb.it.gamma ∧ cb.it.gamma * cb.it.L = pr.LgammaFactor := by
      intro s' eps st ⟨h1, h2, h3, h4⟩
      unfold exitBlock
      simp only [List.pairwise_reverse, List.mem_reverse, List.mem_cons]
      refine ⟨List.pairwise_cons.mpr ⟨fun b hb => (h3 b hb).1, h4⟩, ?_⟩
      rintro cb (rfl | hcb)
      · exact ⟨h1, h2⟩
      · exact ⟨lt_of_lt_of_le h1 (h3 cb hcb).1, (h3 cb hcb).2⟩
    rcases mainLoop_cases P dir pr stop oot x0 y Sig errz0 (GammaInv pr.LgammaFactor)
      (fun s hs _ => gammaInv_step P dir pr stop oot pr.LgammaFactor s hs) (pr.maxIter + 2) s h0
      with ⟨s', hI, _, he⟩ | ⟨s', hI, he⟩
    · rw [he]
      have hs := headStep_same P pr stop oot s'
      apply key
      unfold GammaInv at hI ⊢
      rw [hs.1, hs.2.2.2.1]; exact hI
    · rw [he]; exact key s' _ _ hI

/-! ### Non-vacuity -/

/-- a concrete instance of the line-search test over `ℚ`: `φ = 3 → 1` with `σ‖p‖² = 1.5` passes
    (`β = 1/2`, `γ = 1/2`, `L = 1/2`, `‖p‖² = 4`: `σ = (1/2)(3/4)/1 = 3/8`). -/
example : zerofpr_linesearchViolated false (1/2 : ℚ) 0 1 0 4 (1/2) (-2) (1/2) 1 0 0 (1/2) 0 = false := by
  unfold zerofpr_linesearchViolated zerofpr_fbe; norm_num [eabs]

/-- …and one that is rejected (envelope went up). -/
example : zerofpr_linesearchViolated false (1/2 : ℚ) 0 1 0 4 (1/2) (-2) (1/2) 5 0 0 (1/2) 0 = true := by
  unfold zerofpr_linesearchViolated zerofpr_fbe; norm_num [eabs]

/-- The hypotheses of `sigma_nonneg` / `qubOK_fb_descent` / the solve-level theorem are
    satisfiable: `γ = 1/2`, `L = 1`, `Lγ_factor = 1/2`. -/
example : (0 : ℚ) < 1/2 ∧ (1/2 : ℚ) * 1 ≤ 1 ∧ ((1/2 : ℚ) / 2) * (1 * 2) = (1/2) * 1 := by norm_num

end field

section examples
open Alpaqa.Zerofpr.Example

/-- the concrete solve of `Proofs/ZerofprExample.lean`: accelerated steps (`τ = 1`) accepted in
    iterations 1 and 2, envelope `5/2 → 1/4 → 1/64 → 1/1024`, `γ = 1/2` and `γ·L = 1/2 = Lγ_factor`
    throughout; the hypotheses of the solve-level theorem hold. -/
example : (exRun (fun _ => false)).callbacks.map (·.fbe) = [5/2, 1/4, 1/64, 1/1024] ∧
    (exRun (fun _ => false)).callbacks.map (·.tau) = [0, 1, 1, -1] ∧
    (exRun (fun _ => false)).callbacks.map (·.it.gamma) = [1/2, 1/2, 1/2, 1/2] ∧
    (exRun (fun _ => false)).callbacks.map (fun cb => cb.it.gamma * cb.it.L) = [1/2, 1/2, 1/2, 1/2] ∧
    0 < exPr.Lmin ∧ 0 < exPr.Lmax ∧ 0 < exPr.LgammaFactor ∧ exPr.forceLinesearch = false := by
  decide +kernel

end examples
end Alpaqa.Props.C05_Zerofpr
