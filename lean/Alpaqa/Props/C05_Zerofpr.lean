/-
  C05 (ZeroFPR) — Forward-backward envelope decreases; step size never grows.

  From the *generated* acceptance tests `zerofpr_linesearchViolated` / `zerofpr_qubViolated`
  (`Alpaqa/Gen/C05.lean`, re-extracted from zerofpr.tpp on every run) and the loop model
  (`Alpaqa/Model/Zerofpr.lean`):

  * an accepted accelerated step (`τ > 0`, line search not forced) decreases the envelope:
    `φ(xₖ₊₁) ≤ φ(xₖ) − σ‖pₖ‖² + margin`, `σ = β(1−γL)/(2γ)`, `margin = (1+|φ(xₖ)|)·ls_tol` —
    for one pass of the line-search body, the whole line search and one pass of the loop body;
  * every iterate that becomes current satisfies the quadratic upper bound (or its `L` reached
    `L_max`), hence `ψ(x̂)+h(x̂) ≤ φγ(x) − ((1−γL)/(2γ))‖p‖² + margin_qub`;
  * `γ` never increases, stays positive, and `γ·L` is constant — per pass, per line search, per
    iteration, and over a whole solve (`γ·L = Lγ_factor` for every reported iterate).
  * **whole run, over the list of progress callbacks** (`run_callbacks_ok` and its corollaries):
    the reported step sizes are non-increasing with `γ·L = Lγ_factor` (`zerofpr_gamma_chain`,
    `zerofpr_gamma_antitone_gammaL_const`), every reported iterate satisfies the quadratic upper
    bound or `L ≥ L_max` or is the initial iterate of a solve whose initial step-size loop was
    interrupted (`zerofpr_reported_iterate_qub`), and consecutive callbacks satisfy the descent
    inequality `DescTo` with the documented margins (`zerofpr_descent_chain_local`): `τ > 0` from
    ZeroFPR's own line search, `τ = 0` through the envelope link `φ_{γ'}(x̂ₖ) ≤ ψ(x̂ₖ)+h(x̂ₖ)`, which
    needs the prox contract in its SIZED form (`Proofs/ProxContract.lean`, discharged there for
    the box / box+ℓ1 steps from `Props/C15.lean`).
  No smoothness / convexity is assumed: problem functions, the prox step and the direction
  provider are arbitrary oracles; every stop schedule.
  Structural statements hold over any carrier; arithmetic ones over a linearly ordered field.

  Forced hypotheses: `0 < Lγ_factor`, `0 < L_min`, `0 < L_max` (`ParamsOK`: positivity of `γ`, `L`);
  `force_linesearch = false` for accelerated steps; `recompute_last_prox_step_after_stepsize_change
  = false` for statements about the iterate *reported to the callback* (with that option the current
  iterate is reported with the candidate's `(γ, L)`, i.e. with an envelope value that was never
  tested).  Sizes: `zerofpr_descent_chain` takes the well-formedness of the call (`x₀` of size `n`, …), sized
  problem oracles and a direction provider sized on the states the loop reaches (`Proofs/ZerofprSized.lean`:
  `ProblemSized`, `DirSized n dir R`, `run_sized`); `zerofpr_descent_chain_local` instead takes the sizes as
  premises on the reported vectors of each `τ = 0` step (`DescTo`) and needs no oracle size contract.  `…_fuel` theorems carry
  `fuelOut = false`; the plain names discharge it from `FuelOK pr N M` and a stop flag that is
  never lowered (`Proofs/ZerofprFuel.lean`).
-/
import Alpaqa.Proofs.ZerofprStep
import Alpaqa.Proofs.ZerofprChain
import Alpaqa.Proofs.ZerofprSized
import Alpaqa.Proofs.ProxContract
import Alpaqa.Proofs.ZerofprExample
import Mathlib.Data.List.Chain

namespace Alpaqa.Props.C05_Zerofpr
open Alpaqa Alpaqa.Zerofpr Alpaqa.Gen Alpaqa.ProxContract
set_option linter.unusedSectionVars false
set_option linter.unusedVariables false

/-! ### Structural: what an accepted candidate has passed (any carrier, IEEE doubles included) -/
section structural
variable {α D : Type} [Add α] [Sub α] [Mul α] [Div α] [Neg α] [LT α] [LE α] [DecidableLT α]
  [DecidableLE α] [BEq α] [RealLike α] [NatCast α] [OfScientific α]
  [OfNat α 0] [OfNat α 1] [OfNat α 2] [OfNat α 100]

/-- A pass of the line-search body ends in `break` only with both generated tests passed. -/
theorem lsPass_accepts (P : Problem α) (dir : Direction D α) (pr : Params α) (c : Iterate α)
    (px : ProxIterate α) (q : Vec α) (tauInit : α) (s s' : LS α D)
    (h : lsPass P dir pr c px q tauInit s = .done s') : Accepted pr c s' :=
  (lsPass_done P dir pr c px q tauInit s s' h).2.1

/-- The line search, left through `break`, delivers an accepted candidate. -/
theorem lineSearch_accepts (P : Problem α) (dir : Direction D α) (pr : Params α)
    (stop : Nat → Bool) (c : Iterate α) (px : ProxIterate α) (q : Vec α) (tauInit : α)
    (fuel : Nat) (s : LS α D) (hf : s.fuelOut = false)
    (hr : (lineSearch P dir pr stop c px q tauInit fuel s).fuelOut = false)
    (hs : stop (lineSearch P dir pr stop c px q tauInit fuel s).tick = false) :
    Accepted pr c (lineSearch P dir pr stop c px q tauInit fuel s) :=
  (lineSearch_good P dir pr stop c px q tauInit fuel s hf hr hs).2

/-- A completed iteration: the iterate that becomes current passed the generated tests against
    the iterate that was current, with the `τ` that is reported in the callback. -/
theorem iterBody_accepts (P : Problem α) (dir : Direction D α) (pr : Params α) (stop : Nat → Bool)
    (s : St α D) (eps : α) (hst : stop (lsOf P dir pr stop s).tick = false)
    (hf : (lsOf P dir pr stop s).fuelOut = false) :
    (iterBody P dir pr stop s eps).curr = (lsOf P dir pr stop s).next ∧
    Accepted pr s.curr (lsOf P dir pr stop s) ∧
    ∃ cb, (iterBody P dir pr stop s eps).cbs = cb :: s.cbs ∧ cb.tau = (lsOf P dir pr stop s).tau := by
  have hd := iterBody_completed P dir pr stop s eps hst
  obtain ⟨cb, h1, h2, _⟩ := hd.2.2.2
  refine ⟨hd.1, ?_, cb, h1, h2⟩
  unfold lsOf at hst hf ⊢
  exact lineSearch_accepts P dir pr stop _ _ _ _ _ _ (lsInit_fuelOut _ _ _ _ _) hf hst

/-- "The initial step-size loop was cut short by a stop request": the stop flag was visible at the
    tick at which the initialisation ended (the loop polls the flag first, so it was left through the
    poll and not because the quadratic upper bound was met). -/
def InitInterrupted (P : Problem α) (d0 : D) (pr : Params α) (stop : Nat → Bool) (x0 gV : Vec α)
    (gS : α) : Prop :=
  match initState P d0 pr stop x0 gV gS with
  | .inl _ => False
  | .inr s => stop s.tick = true

/-- Invariant of the main loop: the current iterate satisfies the quadratic upper bound test or
    has `L ≥ L_max` (unless the model's fuel ran out) — except the *initial* iterate (`k = 0`) of a
    solve whose initial step-size loop was interrupted (`I`). -/
def QubInv (I : Prop) (pr : Params α) (s : St α D) : Prop :=
  s.fuelOut = true ∨ QubOK pr s.curr ∨ (I ∧ s.k = 0)

theorem qubInv_step (I : Prop) (P : Problem α) (dir : Direction D α) (pr : Params α)
    (stop : Nat → Bool) (oot : Bool) (s : St α D) (h : QubInv I pr s) :
    QubInv I pr (iterBody P dir pr stop (headStep P pr stop oot s).1 (headStep P pr stop oot s).2.1) := by
  have hs := headStep_same P pr stop oot s
  generalize hs' : (headStep P pr stop oot s).1 = s' at hs
  generalize (headStep P pr stop oot s).2.1 = eps
  rcases h with h | h
  · left; rw [iterBody_fuelOut, hs.2.2.2.2.1, h]; rfl
  · cases hf : (iterBody P dir pr stop s' eps).fuelOut
    · right
      rw [iterBody_fuelOut] at hf
      have hlsf : (lsOf P dir pr stop s').fuelOut = false := by
        cases hx : (lsOf P dir pr stop s').fuelOut
        · rfl
        · rw [hx] at hf; simp at hf
      by_cases hst : stop (lsOf P dir pr stop s').tick = true
      · rw [(iterBody_interrupted P dir pr stop s' eps hst).1, hs.1,
          (iterBody_interrupted P dir pr stop s' eps hst).2.2.1, hs.2.1]; exact h
      · have ha := iterBody_accepts P dir pr stop s' eps (by simpa using hst) hlsf
        left; rw [ha.1]; exact ha.2.1.1
    · left; exact hf

/-- **Every iterate a solve returns satisfies the generated quadratic-upper-bound test, or its
    `L` reached `L_max`** — with one exception since the initial step-size loop polls the stop flag
    (C19): a solve whose initial loop was cut short by a stop request (`InitInterrupted`) and that
    returns the initial iterate (zero iterations). -/
theorem zerofpr_final_iterate_qub_fuel (P : Problem α) (dir : Direction D α) (d0 : D) (pr : Params α)
    (stop : Nat → Bool) (oot : Bool) (x0 y Sig errz0 gV : Vec α) (gS iS : α) (c : Iterate α)
    (hfuel : (run P dir d0 pr stop oot x0 y Sig errz0 gV gS iS).fuelOut = false)
    (hc : (run P dir d0 pr stop oot x0 y Sig errz0 gV gS iS).final = some c) :
    QubOK pr c ∨ (InitInterrupted P d0 pr stop x0 gV gS ∧
      (run P dir d0 pr stop oot x0 y Sig errz0 gV gS iS).stats.iterations = 0) := by
  have hII : ∀ s, initState P d0 pr stop x0 gV gS = .inr s →
      (stop s.tick = true ↔ InitInterrupted P d0 pr stop x0 gV gS) := by
    intro s hs; unfold InitInterrupted; rw [hs]
  unfold run at hfuel hc ⊢
  cases hi : initState P d0 pr stop x0 gV gS with
  | inl t => simp [hi] at hc
  | inr s =>
    simp only [hi] at hfuel hc ⊢
    have hk0 : s.k = 0 := (initState_good P d0 pr stop x0 gV gS s hi).2.1
    have h0 : QubInv (InitInterrupted P d0 pr stop x0 gV gS) pr s := by
      by_cases hfo : s.fuelOut = true
      · exact .inl hfo
      · right
        by_cases hst : stop s.tick = true
        · exact .inr ⟨(hII s hi).mp hst, hk0⟩
        · left
          unfold initState at hi
          simp only [] at hi
          split_ifs at hi
          injection hi with hi; subst hi
          exact initQub_qubOK P pr stop _ _ _ _ (by simpa using hfo) (by simpa using hst)
    rcases mainLoop_cases P dir pr stop oot x0 y Sig errz0 (QubInv (InitInterrupted P d0 pr stop x0 gV gS) pr)
      (fun s hs _ => qubInv_step _ P dir pr stop oot s hs) (pr.maxIter + 2) s h0
      with ⟨s', hI, _, he⟩ | ⟨s', _, he⟩
    · rw [he] at hfuel hc ⊢
      have hs := headStep_same P pr stop oot s'
      have hx := exitBlock_spec pr (headStep P pr stop oot s').1 (headStep P pr stop oot s').2.1
        (headStep P pr stop oot s').2.2 x0 y Sig errz0
      rw [hx.2.2.2.2.2.1, hs.2.2.2.2.1] at hfuel
      rw [hx.2.2.2.2.1, hs.1] at hc
      rw [hx.2.2.1, hs.2.1]
      injection hc with hc; subst hc
      rcases hI with hI | hI | hI
      · rw [hI] at hfuel; exact absurd hfuel (by decide)
      · exact .inl hI
      · exact .inr hI
    · rw [he] at hfuel; simp at hfuel

end structural

/-! ### Arithmetic: what the tests mean over a linearly ordered field -/
section field
variable {α D : Type} [Field α] [LinearOrder α] [IsStrictOrderedRing α] [RealLike α]

/-- `σ = β(1−γL)/(2γ)` of the iterate the line search starts from. -/
def sigma (pr : Params α) (c : Iterate α) : α :=
  pr.lsStrictness * (1 - c.gamma * c.L) / (2 * c.gamma)

/-- The generated line-search test, read as an inequality. -/
theorem linesearch_kernel_descent (β tol cψ ch cpp cγ cg cL nψ nh npp nγ ng : α)
    (h : zerofpr_linesearchViolated false β tol cψ ch cpp cγ cg cL nψ nh npp nγ ng = false) :
    zerofpr_fbe nψ nh npp nγ ng ≤
      zerofpr_fbe cψ ch cpp cγ cg - β * (1 - cγ * cL) / (2 * cγ) * cpp
        + (1 + |zerofpr_fbe cψ ch cpp cγ cg|) * tol := by
  unfold zerofpr_linesearchViolated at h
  simpa using h

/-- The generated quadratic-upper-bound test, read as an inequality. -/
theorem qub_kernel_bound (tol ψ ψh g L pp : α)
    (h : zerofpr_qubViolated tol ψ ψh g L pp = false) :
    ψh ≤ ψ + g + 1 / 2 * L * pp + (1 + |ψ|) * tol := by
  unfold zerofpr_qubViolated at h
  have h5 : (0.5 : α) = 1 / 2 := by norm_num
  simp only [Bool.not_eq_false', decide_eq_true_eq, eabs_eq_abs, h5] at h
  exact h

/-- `linesearch_violated(curr, next) = false` (not forced) as an envelope inequality. -/
theorem linesearch_ok_descent (pr : Params α) (c n : Iterate α)
    (hforce : pr.forceLinesearch = false) (h : linesearchViolated pr c n = false) :
    n.fbe ≤ c.fbe - sigma pr c * c.pTp + (1 + |c.fbe|) * pr.lsTol := by
  unfold linesearchViolated at h
  rw [hforce] at h
  exact linesearch_kernel_descent _ _ _ _ _ _ _ _ _ _ _ _ _ h

/-- `Accepted` with `τ > 0`: the candidate's envelope is below the current one by `σ‖p‖²`. -/
theorem accepted_descent (pr : Params α) (c : Iterate α) (s : LS α D)
    (hforce : pr.forceLinesearch = false) (ha : Accepted pr c s) (hτ : 0 < s.tau) :
    s.next.fbe ≤ c.fbe - sigma pr c * c.pTp + (1 + |c.fbe|) * pr.lsTol := by
  have h2 := ha.2
  have : decide (s.tau > 0) = true := by simpa using hτ
  rw [this, Bool.true_and] at h2
  exact linesearch_ok_descent pr c s.next hforce h2

/-- **One pass of the line-search body** that ends in `break` with an accelerated step. -/
theorem lsPass_descent (P : Problem α) (dir : Direction D α) (pr : Params α) (c : Iterate α)
    (px : ProxIterate α) (q : Vec α) (tauInit : α) (s s' : LS α D)
    (hforce : pr.forceLinesearch = false)
    (h : lsPass P dir pr c px q tauInit s = .done s') (hτ : 0 < s'.tau) :
    s'.next.fbe ≤ c.fbe - sigma pr c * c.pTp + (1 + |c.fbe|) * pr.lsTol :=
  accepted_descent pr c s' hforce (lsPass_accepts P dir pr c px q tauInit s s' h) hτ

/-- **The whole line search**, left through `break` with an accelerated step. -/
theorem lineSearch_descent (P : Problem α) (dir : Direction D α) (pr : Params α)
    (stop : Nat → Bool) (c : Iterate α) (px : ProxIterate α) (q : Vec α) (tauInit : α)
    (fuel : Nat) (s : LS α D) (hforce : pr.forceLinesearch = false) (hf : s.fuelOut = false)
    (hr : (lineSearch P dir pr stop c px q tauInit fuel s).fuelOut = false)
    (hs : stop (lineSearch P dir pr stop c px q tauInit fuel s).tick = false)
    (hτ : 0 < (lineSearch P dir pr stop c px q tauInit fuel s).tau) :
    (lineSearch P dir pr stop c px q tauInit fuel s).next.fbe ≤
      c.fbe - sigma pr c * c.pTp + (1 + |c.fbe|) * pr.lsTol :=
  accepted_descent pr c _ hforce (lineSearch_accepts P dir pr stop c px q tauInit fuel s hf hr hs) hτ

/-- **One completed iteration that accepts an accelerated step** (`τ > 0` is the `τ` reported in
    that iteration's callback): `φ(xₖ₊₁) ≤ φ(xₖ) − σ‖pₖ‖² + (1+|φ(xₖ)|)·ls_tol`,
    `σ = β(1−γₖLₖ)/(2γₖ)`, for every oracle and direction provider. -/
theorem zerofpr_iter_descent (P : Problem α) (dir : Direction D α) (pr : Params α)
    (stop : Nat → Bool) (s : St α D) (eps : α) (hforce : pr.forceLinesearch = false)
    (hst : stop (lsOf P dir pr stop s).tick = false)
    (hf : (lsOf P dir pr stop s).fuelOut = false) (hτ : 0 < (lsOf P dir pr stop s).tau) :
    (iterBody P dir pr stop s eps).curr.fbe ≤
      s.curr.fbe - sigma pr s.curr * s.curr.pTp + (1 + |s.curr.fbe|) * pr.lsTol := by
  have ha := iterBody_accepts P dir pr stop s eps hst hf
  rw [ha.1]
  exact accepted_descent pr s.curr _ hforce ha.2.1 hτ

/-- With `0 < β`, `γL ≤ 1`, `γ > 0` and `‖p‖² ≥ 0` the decrease is genuine: `σ‖p‖² ≥ 0`. -/
theorem sigma_nonneg (pr : Params α) (c : Iterate α) (hβ : 0 ≤ pr.lsStrictness)
    (hγ : 0 < c.gamma) (hγL : c.gamma * c.L ≤ 1) : 0 ≤ sigma pr c := by
  unfold sigma
  apply div_nonneg
  · exact mul_nonneg hβ (by linarith)
  · linarith

/-- `QubOK` as the forward-backward descent inequality: with `L < L_max` and `γ > 0`,
    `ψ(x̂) + h(x̂) ≤ φγ(x) − ((1−γL)/(2γ))‖p‖² + (1+|ψ(x)|)·qub_tol`. -/
theorem qubOK_fb_descent (pr : Params α) (i : Iterate α) (h : QubOK pr i) (hL : i.L < pr.Lmax)
    (hγ : 0 < i.gamma) :
    i.psixhat + i.hxhat ≤
      i.fbe - (1 - i.gamma * i.L) / (2 * i.gamma) * i.pTp + (1 + |i.psix|) * pr.qubTol := by
  unfold QubOK at h
  have : decide (i.L < pr.Lmax) = true := by simpa using hL
  rw [this, Bool.true_and] at h
  have hq := qub_kernel_bound _ _ _ _ _ _ h
  unfold Iterate.fbe zerofpr_fbe
  have hne : i.gamma ≠ 0 := ne_of_gt hγ
  have : (1 - i.gamma * i.L) / (2 * i.gamma) * i.pTp
      = i.pTp / (2 * i.gamma) - 1 / 2 * i.L * i.pTp := by
    field_simp
  rw [this]
  linarith

/-- **`γ` never increases, stays positive, `γ·L` is constant** — one pass of the line-search
    body (either outcome), relative to the iterate the line search started from. -/
theorem lsPass_gamma (P : Problem α) (dir : Direction D α) (pr : Params α) (c : Iterate α)
    (px : ProxIterate α) (q : Vec α) (tauInit : α) (s : LS α D) (hc : 0 < c.gamma)
    (h : GL c s.next) :
    0 < (lsPass P dir pr c px q tauInit s).st.next.gamma ∧
    (lsPass P dir pr c px q tauInit s).st.next.gamma ≤ c.gamma ∧
    (lsPass P dir pr c px q tauInit s).st.next.gamma * (lsPass P dir pr c px q tauInit s).st.next.L
      = c.gamma * c.L :=
  lsPass_GL P dir pr c px q tauInit s hc h

/-- …the whole line search (however it ends: `break`, stop request, fuel). -/
theorem lineSearch_gamma (P : Problem α) (dir : Direction D α) (pr : Params α)
    (stop : Nat → Bool) (s : St α D) (hc : 0 < s.curr.gamma) :
    0 < (lsOf P dir pr stop s).next.gamma ∧ (lsOf P dir pr stop s).next.gamma ≤ s.curr.gamma ∧
    (lsOf P dir pr stop s).next.gamma * (lsOf P dir pr stop s).next.L
      = s.curr.gamma * s.curr.L :=
  lsOf_GL P dir pr stop s hc

/-- …one pass of the loop body (completed or interrupted). -/
theorem iterBody_gamma (P : Problem α) (dir : Direction D α) (pr : Params α)
    (stop : Nat → Bool) (s : St α D) (eps : α) (hc : 0 < s.curr.gamma) :
    0 < (iterBody P dir pr stop s eps).curr.gamma ∧
    (iterBody P dir pr stop s eps).curr.gamma ≤ s.curr.gamma ∧
    (iterBody P dir pr stop s eps).curr.gamma * (iterBody P dir pr stop s eps).curr.L
      = s.curr.gamma * s.curr.L :=
  iterBody_GL P dir pr stop s eps hc

/-- **…and a whole solve**: the step sizes of the reported iterates (progress callbacks, in
    order, the final one included) are non-increasing, and each satisfies `γ·L = Lγ_factor`.
    Unconditional in oracles, stop schedule and budget; needs only `0 < L_min`, `0 < L_max`,
    `0 < Lγ_factor` (so that the initial `γ = Lγ_factor / L` is well defined and positive). -/
theorem zerofpr_gamma_antitone_gammaL_const (P : Problem α) (dir : Direction D α) (d0 : D)
    (pr : Params α) (stop : Nat → Bool) (oot : Bool) (x0 y Sig errz0 gV : Vec α) (gS iS : α)
    (hmin : 0 < pr.Lmin) (hmax : 0 < pr.Lmax) (hfac : 0 < pr.LgammaFactor) :
    (run P dir d0 pr stop oot x0 y Sig errz0 gV gS iS).callbacks.Pairwise
      (fun a b => b.it.gamma ≤ a.it.gamma) ∧
    ∀ cb ∈ (run P dir d0 pr stop oot x0 y Sig errz0 gV gS iS).callbacks,
      0 < cb.it.gamma ∧ cb.it.gamma * cb.it.L = pr.LgammaFactor := by
  unfold run
  cases hi : initState P d0 pr stop x0 gV gS with
  | inl t => simp
  | inr s =>
    simp only []
    have h0 := initState_gammaInv P d0 pr stop x0 gV gS hmin hmax hfac s hi
    have key : ∀ (s' : St α D) (eps : α) (st : SolverStatus), GammaInv pr.LgammaFactor s' →
        (exitBlock pr s' eps st x0 y Sig errz0).callbacks.Pairwise
          (fun a b => b.it.gamma ≤ a.it.gamma) ∧
        ∀ cb ∈ (exitBlock pr s' eps st x0 y Sig errz0).callbacks,
          0 < cb.it.gamma ∧ cb.it.gamma * cb.it.L = pr.LgammaFactor := by
      intro s' eps st ⟨h1, h2, h3, h4⟩
      unfold exitBlock
      simp only [List.pairwise_reverse, List.mem_reverse, List.mem_cons]
      refine ⟨List.pairwise_cons.mpr ⟨fun b hb => (h3 b hb).1, h4⟩, ?_⟩
      rintro cb (rfl | hcb)
      · exact ⟨h1, h2⟩
      · exact ⟨lt_of_lt_of_le h1 (h3 cb hcb).1, (h3 cb hcb).2⟩
    rcases mainLoop_cases P dir pr stop oot x0 y Sig errz0 (GammaInv pr.LgammaFactor)
      (fun s hs _ => gammaInv_step P dir pr stop oot pr.LgammaFactor s hs) (pr.maxIter + 2) s h0
      with ⟨s', hI, _, he⟩ | ⟨s', hI, he⟩
    · rw [he]
      have hs := headStep_same P pr stop oot s'
      apply key
      unfold GammaInv at hI ⊢
      rw [hs.1, hs.2.2.2.1]; exact hI
    · rw [he]; exact key s' _ _ hI

/-! ### The whole run, as seen through the progress callback -/

/-- `γ > 0`, `L > 0`, `γ·L = Lγ_factor`. -/
def GammaOK (pr : Params α) (i : Iterate α) : Prop :=
  0 < i.gamma ∧ 0 < i.L ∧ i.gamma * i.L = pr.LgammaFactor

theorem gammaOK_of_GL (pr : Params α) (c n : Iterate α) (hc : GammaOK pr c) (h : GL c n) :
    GammaOK pr n := by
  obtain ⟨h0, _, h2⟩ := h
  have hκ : 0 < n.gamma * n.L := by rw [h2]; exact mul_pos hc.1 hc.2.1
  exact ⟨h0, (pos_iff_pos_of_mul_pos hκ).mp h0, by rw [h2]; exact hc.2.2⟩

/-- `qub_violated = false` as the forward-backward descent inequality (`γ > 0`):
    `ψ(x̂) + h(x̂) ≤ φγ(x) − ((1−γL)/(2γ))‖p‖² + (1+|ψ(x)|)·qub_tol`. -/
theorem qub_fb_descent (pr : Params α) (i : Iterate α) (h : qubViolated pr i = false)
    (hγ : 0 < i.gamma) :
    i.psixhat + i.hxhat ≤
      i.fbe - (1 - i.gamma * i.L) / (2 * i.gamma) * i.pTp + (1 + |i.psix|) * pr.qubTol := by
  have hq := qub_kernel_bound _ _ _ _ _ _ h
  unfold Iterate.fbe zerofpr_fbe
  have hne : i.gamma ≠ 0 := ne_of_gt hγ
  have : (1 - i.gamma * i.L) / (2 * i.gamma) * i.pTp
      = i.pTp / (2 * i.gamma) - 1 / 2 * i.L * i.pTp := by
    field_simp
  rw [this]
  linarith

/-- **One completed iteration that takes the safeguarded step** (`τ = 0`: the line search failed,
    there was no direction, or the direction was abandoned): `xₖ₊₁ = x̂ₖ`, and for *whatever* step size
    the backtracking inside the line search chose for the new iterate,
    `φ(xₖ₊₁) ≤ φ(xₖ) − ((1−γₖLₖ)/(2γₖ))‖pₖ‖² + (1+|ψ(xₖ)|)·qub_tol`,
    provided the current iterate passed the quadratic-upper-bound test and the prox oracle meets its
    (sized) contract at the two points where it is used: `(γₖ, xₖ, ∇ψ(xₖ))` and `(γₖ₊₁, x̂ₖ, ∇ψ(x̂ₖ))`. -/
theorem zerofpr_safe_step_descent (n : Nat) (hval : Vec α → α) (dom : Vec α → Prop) (P : Problem α)
    (hP : Sized n hval dom P.prox) (dir : Direction D α) (pr : Params α) (stop : Nat → Bool)
    (s : St α D) (eps : α) (hγ : 0 < s.curr.gamma) (hsc : StepCons P s.curr)
    (hq : qubViolated pr s.curr = false)
    (hx : s.curr.x.length = n) (hgr : s.curr.gradPsi.length = n) (hgh : s.prox.gradPsi.length = n)
    (hst : stop (lsOf P dir pr stop s).tick = false) (hf : (lsOf P dir pr stop s).fuelOut = false)
    (hτ : (lsOf P dir pr stop s).tau = 0) :
    (iterBody P dir pr stop s eps).curr.fbe ≤
      s.curr.fbe - (1 - s.curr.gamma * s.curr.L) / (2 * s.curr.gamma) * s.curr.pTp +
        (1 + |s.curr.psix|) * pr.qubTol := by
  have hd := lsOf_lsDone P dir pr stop s hf hst
  obtain ⟨hsx, hspsi, hsg⟩ := hd.safe hτ
  obtain ⟨⟨hh, hxh, hp⟩, hpTp, hgTp⟩ := hd.step
  have hγ' := (lsOf_GL P dir pr stop s hγ).1
  -- the current iterate's own step: x̂ₖ ∈ dom h, of dimension n, h(x̂ₖ) is what it carries
  obtain ⟨⟨ch, cxh, cp⟩, _, _⟩ := hsc
  have hr0 := hP s.curr.gamma s.curr.x s.curr.gradPsi hγ hx hgr
  have hdom : dom s.curr.xhat := by rw [cxh]; exact hr0.feas
  have hlen : s.curr.xhat.length = n := by rw [cxh]; exact hr0.len
  have hhx : s.curr.hxhat = hval s.curr.xhat := by rw [ch, cxh]; exact hr0.h_eq
  -- the new iterate's step, taken from x̂ₖ
  have hr := hP (lsOf P dir pr stop s).next.gamma (lsOf P dir pr stop s).next.x
    (lsOf P dir pr stop s).next.gradPsi hγ' (by rw [hsx]; exact hlen) (by rw [hsg]; exact hgh)
  have henv := envelope_le_cost n hval dom _ (lsOf P dir pr stop s).next.psix _ _ _ hr
    (by rw [hsx]; exact hdom) (by rw [hsx]; exact hlen)
  have hfb := qub_fb_descent pr s.curr hq hγ
  rw [(iterBody_completed P dir pr stop s eps hst).1]
  have e : (lsOf P dir pr stop s).next.fbe =
      (lsOf P dir pr stop s).next.psix +
        (P.prox (lsOf P dir pr stop s).next.gamma (lsOf P dir pr stop s).next.x
          (lsOf P dir pr stop s).next.gradPsi).1 +
        sqNorm (P.prox (lsOf P dir pr stop s).next.gamma (lsOf P dir pr stop s).next.x
          (lsOf P dir pr stop s).next.gradPsi).2.2 / (2 * (lsOf P dir pr stop s).next.gamma) +
        dot (P.prox (lsOf P dir pr stop s).next.gamma (lsOf P dir pr stop s).next.x
          (lsOf P dir pr stop s).next.gradPsi).2.2 (lsOf P dir pr stop s).next.gradPsi := by
    unfold Iterate.fbe zerofpr_fbe
    rw [hh, hpTp, hgTp, hp]
  rw [e]
  rw [hsx, hspsi] at henv
  rw [hsx, hspsi]
  linarith

/-- Relation between a loop callback `a` (iteration `k`, reporting `φₖ, γₖ, Lₖ, ‖pₖ‖², τₖ`) and the
    envelope value `φ` of the next reported iterate: the property's inequality with
    `cₖ = (1−γₖLₖ)/(2γₖ)`, times the strictness factor for accelerated steps (`τₖ > 0`); for the
    safeguarded step (`τₖ = 0`) the reported vectors must have the problem's dimension `n`, the
    dimension for which the prox contract is assumed. -/
def DescTo (n : Nat) (pr : Params α) (a : Callback α) (φ : α) : Prop :=
  (0 < a.tau → pr.forceLinesearch = false →
    φ ≤ a.fbe - pr.lsStrictness * (1 - a.it.gamma * a.it.L) / (2 * a.it.gamma) * a.it.pTp +
      (1 + |a.fbe|) * pr.lsTol) ∧
  (a.tau = 0 → qubViolated pr a.it = false →
    a.it.x.length = n → a.it.gradPsi.length = n → a.gradPsiHat.length = n →
    φ ≤ a.fbe - (1 - a.it.gamma * a.it.L) / (2 * a.it.gamma) * a.it.pTp +
      (1 + |a.it.psix|) * pr.qubTol)

/-- What holds for every callback of a run.  `I` = "the initial step-size loop was cut short by a
    stop request": then the initial iterate (reported with `k = 0`) was never brought to satisfy the
    quadratic upper bound. -/
structure CbOK (I : Prop) (pr : Params α) (cb : Callback α) : Prop where
  gok : GammaOK pr cb.it
  qub : pr.recomputeLastProx = false → QubOK pr cb.it ∨ (I ∧ cb.k = 0)
  fbe : cb.fbe = cb.it.fbe
  tau : cb.status = .Busy → 0 ≤ cb.tau

/-- Relation between consecutive callbacks (`a` earlier, `b` later). -/
def Consec (G : Prop) (n : Nat) (pr : Params α) (a b : Callback α) : Prop :=
  b.it.gamma ≤ a.it.gamma ∧ (G → DescTo n pr a b.fbe)

structure LoopInv (G I : Prop) (n : Nat) (P : Problem α) (pr : Params α) (s : St α D) : Prop where
  gok : GammaOK pr s.curr
  /-- the current iterate passed the quadratic-upper-bound test (or `L ≥ L_max`) — except the initial
      iterate of a solve whose initial step-size loop was interrupted (`I`) -/
  qok : QubOK pr s.curr ∨ (I ∧ s.k = 0)
  step : StepCons P s.curr
  cbs_ok : ∀ cb ∈ s.cbs, CbOK I pr cb
  chain : List.IsChain (fun newer older => Consec G n pr older newer) s.cbs
  head : ∀ cb, s.cbs.head? = some cb →
    s.curr.gamma ≤ cb.it.gamma ∧ (G → DescTo n pr cb s.curr.fbe)

theorem headStep_inv (G I : Prop) (n : Nat) (P : Problem α) (pr : Params α) (stop : Nat → Bool)
    (oot : Bool) (s : St α D) (h : LoopInv G I n P pr s) :
    LoopInv G I n P pr (headStep P pr stop oot s).1 := by
  have hs := headStep_same P pr stop oot s
  refine ⟨by rw [hs.1]; exact h.gok, ?_, by rw [hs.1]; exact h.step, by rw [hs.2.2.2.1]; exact h.cbs_ok,
    by rw [hs.2.2.2.1]; exact h.chain, ?_⟩
  · rw [hs.1, hs.2.1]; exact h.qok
  · rw [hs.2.2.2.1, hs.1]; exact h.head

/-- The loop invariant is kept by one pass of the loop body (completed or interrupted) whose line
    search did not run out of fuel; `G` switches the descent clauses on
    (`recompute_last_prox_step_after_stepsize_change = false` and the sized prox contract). -/
theorem iterBody_inv (G I : Prop) (n : Nat) (hval : Vec α → α) (dom : Vec α → Prop) (P : Problem α)
    (dir : Direction D α) (pr : Params α)
    (hG : G → pr.recomputeLastProx = false ∧ Sized n hval dom P.prox)
    (stop : Nat → Bool) (s : St α D) (eps : α) (h : LoopInv G I n P pr s)
    (hf : (lsOf P dir pr stop s).fuelOut = false) :
    LoopInv G I n P pr (iterBody P dir pr stop s eps) := by
  by_cases hst : stop (lsOf P dir pr stop s).tick = true
  · have hint := iterBody_interrupted P dir pr stop s eps hst
    refine ⟨by rw [hint.1]; exact h.gok, ?_, by rw [hint.1]; exact h.step,
      by rw [hint.2.2.2.2.1]; exact h.cbs_ok, by rw [hint.2.2.2.2.1]; exact h.chain, ?_⟩
    · rw [hint.1, hint.2.2.1]; exact h.qok
    · rw [hint.2.2.2.2.1, hint.1]; exact h.head
  · have hst' : stop (lsOf P dir pr stop s).tick = false := by simpa using hst
    have hc := iterBody_completed P dir pr stop s eps hst'
    have hd := lsOf_lsDone P dir pr stop s hf hst'
    have hgl := lsOf_GL P dir pr stop s h.gok.1
    have hgnew : GammaOK pr (lsOf P dir pr stop s).next := gammaOK_of_GL pr _ _ h.gok hgl
    obtain ⟨cb, hcbs, htau, hk, heps, hstat, hit, hfbe, hgh⟩ := iterBody_callback P dir pr stop s eps hst'
    -- the reported iterate: the current one, possibly with (γ, L) replaced by the candidate's
    have hcbγ : GammaOK pr cb.it ∧ cb.it.gamma ≤ s.curr.gamma ∧
        (lsOf P dir pr stop s).next.gamma ≤ cb.it.gamma := by
      rcases updateStage_curr P dir pr s.curr s.prox (lsOf P dir pr stop s) with hu | hu
      · rw [hit, hu]; exact ⟨h.gok, le_refl _, hgl.2.1⟩
      · rw [hit, hu]; exact ⟨hgnew, hgl.2.1, le_refl _⟩
    have hsame : pr.recomputeLastProx = false → cb.it = s.curr := fun hrec => by
      rw [hit]; exact updateStage_norecomp P dir pr _ _ _ hrec
    have hgrad : cb.gradPsiHat = s.prox.gradPsi := by
      rw [hgh]; exact updateStage_gradHat P dir pr _ _ _
    -- the new callback against the new current iterate
    have hdesc : G → DescTo n pr cb (iterBody P dir pr stop s eps).curr.fbe := by
      intro hg
      have hcc := hsame (hG hg).1
      constructor
      · intro hτ hforce
        rw [htau] at hτ
        have := zerofpr_iter_descent P dir pr stop s eps hforce hst' hf hτ
        unfold sigma at this
        rw [hfbe, hcc]
        exact this
      · intro hτ hq hx hgr hgh'
        rw [htau] at hτ
        rw [hcc] at hq hx hgr
        rw [hgrad] at hgh'
        have := zerofpr_safe_step_descent n hval dom P (hG hg).2 dir pr stop s eps h.gok.1 h.step hq
          hx hgr hgh' hst' hf hτ
        rw [hfbe, hcc]
        exact this
    have hcbok : CbOK I pr cb :=
      ⟨hcbγ.1, fun hrec => by rw [hsame hrec, hk]; exact h.qok, hfbe,
        fun _ => by rw [htau]; exact hd.tau_nonneg⟩
    refine ⟨by rw [hc.1]; exact hgnew, Or.inl (by rw [hc.1]; exact hd.acc.1),
      by rw [hc.1]; exact hd.step, ?_, ?_, ?_⟩
    · intro c hcm
      rw [hcbs] at hcm
      rcases List.mem_cons.mp hcm with hcm | hcm
      · rw [hcm]; exact hcbok
      · exact h.cbs_ok c hcm
    · rw [hcbs, List.isChain_cons]
      refine ⟨?_, h.chain⟩
      intro older hold
      have hh := h.head older (by simpa using hold)
      refine ⟨le_trans hcbγ.2.1 hh.1, fun hg => ?_⟩
      rw [hfbe, hsame (hG hg).1]
      exact hh.2 hg
    · intro c hcm
      rw [hcbs] at hcm
      have : c = cb := by simpa using hcm.symm
      subst this
      rw [hc.1] at hdesc ⊢
      exact ⟨hcbγ.2.2, hdesc⟩

/-- Conclusion for the callbacks of an exit from a state satisfying the invariant. -/
theorem exit_callbacks_ok (G I : Prop) (n : Nat) (P : Problem α) (pr : Params α) (s : St α D)
    (eps : α) (status : SolverStatus) (x0 y Sig errz0 : Vec α) (h : LoopInv G I n P pr s)
    (hst : status ≠ .Busy) :
    List.IsChain (Consec G n pr) (exitBlock pr s eps status x0 y Sig errz0).callbacks ∧
    ∀ cb ∈ (exitBlock pr s eps status x0 y Sig errz0).callbacks, CbOK I pr cb := by
  have hcb : (exitBlock pr s eps status x0 y Sig errz0).callbacks =
      (({ k := s.k, status := status, it := s.curr, fbe := s.curr.fbe,
          gradPsiHat := s.prox.gradPsi, q := [], tau := -1, eps := eps } : Callback α)
        :: s.cbs).reverse := rfl
  rw [hcb]
  constructor
  · rw [List.isChain_reverse, List.isChain_cons]
    refine ⟨?_, h.chain⟩
    intro older hold
    have hh := h.head older (by simpa using hold)
    exact ⟨hh.1, hh.2⟩
  · intro cb hcb'
    rw [List.mem_reverse] at hcb'
    rcases List.mem_cons.mp hcb' with hc | hc
    · rw [hc]
      exact ⟨h.gok, fun _ => h.qok, rfl, fun hb => absurd hb hst⟩
    · exact h.cbs_ok cb hc

/-- Hypotheses on the parameters that the whole-run theorems need (positivity of `γ`, `L`). -/
structure ParamsOK (pr : Params α) : Prop where
  lgf : 0 < pr.LgammaFactor
  lmin : 0 < pr.Lmin
  lmax : 0 < pr.Lmax

theorem initQub_stepCons (P : Problem α) (pr : Params α) (stop : Nat → Bool) (f : Nat)
    (c : Iterate α) (t b : Nat) (h : StepCons P c) : StepCons P (initQub P pr stop f c t b).1 := by
  induction f generalizing c t b with
  | zero => simpa [initQub] using h
  | succ f ih =>
    unfold initQub
    split_ifs
    · exact h
    · exact ih _ _ _ (stepCons_evalStep P _)
    · exact h

/-- The invariant holds in the state the main loop starts from. -/
theorem initState_inv (P : Problem α) (d0 : D) (pr : Params α) (stop : Nat → Bool) (x0 gV : Vec α)
    (gS : α) (hp : ParamsOK pr) (s : St α D) (hi : initState P d0 pr stop x0 gV gS = .inr s)
    (hf : s.fuelOut = false) (G I : Prop) (n : Nat) (hI : stop s.tick = true → I) :
    LoopInv G I n P pr s := by
  have hg := initState_gammaInv P d0 pr stop x0 gV gS hp.lmin hp.lmax hp.lgf s hi
  have hk := initState_good P d0 pr stop x0 gV gS s hi
  have hgok : GammaOK pr s.curr := by
    have hκ : 0 < s.curr.gamma * s.curr.L := by rw [hg.2.1]; exact hp.lgf
    exact ⟨hg.1, (pos_iff_pos_of_mul_pos hκ).mp hg.1, hg.2.1⟩
  have hq : QubOK pr s.curr ∨ (I ∧ s.k = 0) := by
    by_cases hst : stop s.tick = true
    · exact .inr ⟨hI hst, hk.2.1⟩
    · left
      unfold initState at hi
      simp only [] at hi
      split_ifs at hi
      injection hi with hi; subst hi
      exact initQub_qubOK P pr stop _ _ _ _ (by simpa using hf) (by simpa using hst)
  have hsc : StepCons P s.curr := by
    unfold initState at hi
    simp only [] at hi
    split_ifs at hi
    injection hi with hi; subst hi
    exact initQub_stepCons P pr stop _ _ _ _ (stepCons_evalStep P _)
  refine ⟨hgok, hq, hsc, ?_, ?_, ?_⟩
  · rw [hk.2.2.1]; simp
  · rw [hk.2.2.1]; exact List.isChain_nil
  · rw [hk.2.2.1]; simp

/-- **The callbacks of a solve**: consecutive ones are related by `Consec`, each one satisfies `CbOK`
    (model fuel not exhausted). -/
theorem run_callbacks_ok (G : Prop) (n : Nat) (hval : Vec α → α) (dom : Vec α → Prop) (P : Problem α)
    (dir : Direction D α) (d0 : D) (pr : Params α)
    (hG : G → pr.recomputeLastProx = false ∧ Sized n hval dom P.prox)
    (hp : ParamsOK pr) (stop : Nat → Bool) (oot : Bool) (x0 y Sig errz0 gV : Vec α) (gS iS : α)
    (hfuel : (run P dir d0 pr stop oot x0 y Sig errz0 gV gS iS).fuelOut = false) :
    List.IsChain (Consec G n pr) (run P dir d0 pr stop oot x0 y Sig errz0 gV gS iS).callbacks ∧
    ∀ cb ∈ (run P dir d0 pr stop oot x0 y Sig errz0 gV gS iS).callbacks,
      CbOK (InitInterrupted P d0 pr stop x0 gV gS) pr cb := by
  rcases run_cases P dir d0 pr stop oot x0 y Sig errz0 gV gS iS
    (fun s => s.fuelOut = true ∨ LoopInv G (InitInterrupted P d0 pr stop x0 gV gS) n P pr s)
    (fun s hi => by
      by_cases hf : s.fuelOut = true
      · exact .inl hf
      · exact .inr (initState_inv P d0 pr stop x0 gV gS hp s hi (by simpa using hf) G _ n
          (fun h => by unfold InitInterrupted; rw [hi]; exact h)))
    (fun s hI _ => by
      have hs := headStep_same P pr stop oot s
      rcases hI with hI | hI
      · left; rw [iterBody_fuelOut, hs.2.2.2.2.1, hI]; rfl
      · cases hfo : (iterBody P dir pr stop (headStep P pr stop oot s).1
            (headStep P pr stop oot s).2.1).fuelOut
        · right
          rw [iterBody_fuelOut] at hfo
          have hlsf : (lsOf P dir pr stop (headStep P pr stop oot s).1).fuelOut = false := by
            cases hx : (lsOf P dir pr stop (headStep P pr stop oot s).1).fuelOut
            · rfl
            · rw [hx] at hfo; simp at hfo
          exact iterBody_inv G _ n hval dom P dir pr hG stop _ _
            (headStep_inv G _ n P pr stop oot s hI) hlsf
        · left; rfl)
    hfuel with ⟨t, ht⟩ | ⟨s', hI, hnb, he⟩
  · unfold run; rw [ht]; simp
  · rw [he] at hfuel ⊢
    rw [(exitBlock_spec pr _ _ _ x0 y Sig errz0).2.2.2.2.2.1,
      (headStep_same P pr stop oot s').2.2.2.2.1] at hfuel
    rcases hI with hI | hI
    · rw [hI] at hfuel; exact absurd hfuel (by decide)
    · exact exit_callbacks_ok G _ n P pr _ _ _ x0 y Sig errz0
        (headStep_inv G _ n P pr stop oot s' hI) hnb

/-! ### The property's loop-level clauses, over the callback stream of a solve

  Each clause comes in two forms: `…_fuel` carries the hypothesis `fuelOut = false` (any stop
  schedule; this is what the replay asserts on every recorded run), the plain name discharges it from
  the explicit bounds `FuelOK pr N M` on the parameters and a stop flag that is never lowered
  (`Proofs/ZerofprFuel.run_fuel`). -/

theorem qubOK_cases (pr : Params α) (i : Iterate α) (h : QubOK pr i) :
    i.psixhat ≤ i.psix + i.gradPsiTp + 1 / 2 * i.L * i.pTp + (1 + |i.psix|) * pr.qubTol ∨
    pr.Lmax ≤ i.L := by
  unfold QubOK at h
  simp only [Bool.and_eq_false_iff, decide_eq_false_iff_not, not_lt] at h
  rcases h with h | h
  · exact .inr h
  · exact .inl (qub_kernel_bound _ _ _ _ _ _ h)

/-- **Every iterate handed to the callback satisfies the quadratic upper bound unless `L ≥ L_max`**
    (`recompute_last_prox_step_after_stepsize_change = false`; with that option the current iterate
    is reported with the candidate's `(γ, L)` without having been tested with them).  One exception,
    since the initial step-size loop polls the stop flag (C19): when that loop was cut short by a stop
    request (`InitInterrupted`), the *initial* iterate (reported with `k = 0`) was never brought to
    satisfy the bound; with a flag that is never lowered that solve ends at its first loop head
    (`Props/C19_Zerofpr.zerofpr_init_interrupted_exits`). -/
theorem zerofpr_reported_iterate_qub_fuel (P : Problem α) (dir : Direction D α) (d0 : D)
    (pr : Params α) (hp : ParamsOK pr) (hrec : pr.recomputeLastProx = false) (stop : Nat → Bool)
    (oot : Bool) (x0 y Sig errz0 gV : Vec α) (gS iS : α)
    (hfuel : (run P dir d0 pr stop oot x0 y Sig errz0 gV gS iS).fuelOut = false) :
    ∀ cb ∈ (run P dir d0 pr stop oot x0 y Sig errz0 gV gS iS).callbacks,
      cb.it.psixhat ≤ cb.it.psix + cb.it.gradPsiTp + 1 / 2 * cb.it.L * cb.it.pTp +
          (1 + |cb.it.psix|) * pr.qubTol ∨ pr.Lmax ≤ cb.it.L ∨
      (InitInterrupted P d0 pr stop x0 gV gS ∧ cb.k = 0) := fun cb hcb => by
  have h := ((run_callbacks_ok False 0 (fun _ => 0) (fun _ => True) P dir d0 pr (fun h => h.elim) hp
    stop oot x0 y Sig errz0 gV gS iS hfuel).2 cb hcb).qub hrec
  rcases h with h | h
  · rcases qubOK_cases pr cb.it h with h | h
    · exact .inl h
    · exact .inr (.inl h)
  · exact .inr (.inr h)

theorem zerofpr_reported_iterate_qub (P : Problem α) (dir : Direction D α) (d0 : D)
    (pr : Params α) (hp : ParamsOK pr) (hrec : pr.recomputeLastProx = false) (stop : Nat → Bool)
    (hm : StopMono stop) (N M : Nat) (hF : FuelOK pr N M)
    (oot : Bool) (x0 y Sig errz0 gV : Vec α) (gS iS : α) :
    ∀ cb ∈ (run P dir d0 pr stop oot x0 y Sig errz0 gV gS iS).callbacks,
      cb.it.psixhat ≤ cb.it.psix + cb.it.gradPsiTp + 1 / 2 * cb.it.L * cb.it.pTp +
          (1 + |cb.it.psix|) * pr.qubTol ∨ pr.Lmax ≤ cb.it.L ∨
      (InitInterrupted P d0 pr stop x0 gV gS ∧ cb.k = 0) :=
  zerofpr_reported_iterate_qub_fuel P dir d0 pr hp hrec stop oot x0 y Sig errz0 gV gS iS
    (run_fuel P dir d0 pr stop hm N M hF oot x0 y Sig errz0 gV gS iS)

/-- **Descent between consecutive callbacks `k`, `k+1` of a solve** (`DescTo`): with
    `cₖ = (1−γₖLₖ)/(2γₖ)` from the fields reported at `k`,
    * `τₖ > 0` (accelerated step `x̂ₖ + τₖ qₖ` accepted by ZeroFPR's own line search, not forced):
      `φₖ₊₁ ≤ φₖ − β·cₖ‖pₖ‖² + (1+|φₖ|)·ls_tol`;
    * `τₖ = 0` (safeguarded step `xₖ₊₁ = x̂ₖ`), the reported iterate passed the quadratic-upper-bound
      test and the reported `x`, `∇ψ(x)`, `∇ψ(x̂)` have the problem's dimension `n`:
      `φₖ₊₁ ≤ φₖ − cₖ‖pₖ‖² + (1+|ψₖ|)·qub_tol` — the envelope link `φ_{γ'}(x̂ₖ) ≤ ψ(x̂ₖ) + h(x̂ₖ)`
      comes from the prox contract, whatever the new step size `γ'`;
    for `recompute_last_prox_step_after_stepsize_change = false` and a prox oracle meeting the sized
    contract `ProxContract.Sized n` (discharged for the box / box+ℓ1 steps by
    `ProxContract.boxL1_sized`).  Every callback reports `φ = fbe` of its own iterate; every `Busy`
    callback has `τ ≥ 0`. -/
theorem zerofpr_descent_chain_local_fuel (n : Nat) (hval : Vec α → α) (dom : Vec α → Prop) (P : Problem α)
    (hP : Sized n hval dom P.prox) (dir : Direction D α) (d0 : D) (pr : Params α)
    (hp : ParamsOK pr) (hrec : pr.recomputeLastProx = false) (stop : Nat → Bool) (oot : Bool)
    (x0 y Sig errz0 gV : Vec α) (gS iS : α)
    (hfuel : (run P dir d0 pr stop oot x0 y Sig errz0 gV gS iS).fuelOut = false) :
    List.IsChain (fun a b : Callback α => DescTo n pr a b.fbe)
      (run P dir d0 pr stop oot x0 y Sig errz0 gV gS iS).callbacks ∧
    ∀ cb ∈ (run P dir d0 pr stop oot x0 y Sig errz0 gV gS iS).callbacks,
      cb.fbe = cb.it.fbe ∧ (cb.status = .Busy → 0 ≤ cb.tau) := by
  have h := run_callbacks_ok True n hval dom P dir d0 pr (fun _ => ⟨hrec, hP⟩) hp stop oot
    x0 y Sig errz0 gV gS iS hfuel
  exact ⟨h.1.imp (fun _ _ hc => hc.2 trivial), fun cb hcb => ⟨(h.2 cb hcb).fbe, (h.2 cb hcb).tau⟩⟩

theorem zerofpr_descent_chain_local (n : Nat) (hval : Vec α → α) (dom : Vec α → Prop) (P : Problem α)
    (hP : Sized n hval dom P.prox) (dir : Direction D α) (d0 : D) (pr : Params α)
    (hp : ParamsOK pr) (hrec : pr.recomputeLastProx = false) (stop : Nat → Bool)
    (hm : StopMono stop) (N M : Nat) (hF : FuelOK pr N M) (oot : Bool)
    (x0 y Sig errz0 gV : Vec α) (gS iS : α) :
    List.IsChain (fun a b : Callback α => DescTo n pr a b.fbe)
      (run P dir d0 pr stop oot x0 y Sig errz0 gV gS iS).callbacks ∧
    ∀ cb ∈ (run P dir d0 pr stop oot x0 y Sig errz0 gV gS iS).callbacks,
      cb.fbe = cb.it.fbe ∧ (cb.status = .Busy → 0 ≤ cb.tau) :=
  zerofpr_descent_chain_local_fuel n hval dom P hP dir d0 pr hp hrec stop oot x0 y Sig errz0 gV gS iS
    (run_fuel P dir d0 pr stop hm N M hF oot x0 y Sig errz0 gV gS iS)

/-- The descent relation between a loop callback `a` and the envelope value `φ` of the next reported
    iterate, *without size premises*: `DescTo` for a solve whose oracles are sized (`run_sized`). -/
def DescStep (pr : Params α) (a : Callback α) (φ : α) : Prop :=
  (0 < a.tau → pr.forceLinesearch = false →
    φ ≤ a.fbe - pr.lsStrictness * (1 - a.it.gamma * a.it.L) / (2 * a.it.gamma) * a.it.pTp +
      (1 + |a.fbe|) * pr.lsTol) ∧
  (a.tau = 0 → qubViolated pr a.it = false →
    φ ≤ a.fbe - (1 - a.it.gamma * a.it.L) / (2 * a.it.gamma) * a.it.pTp +
      (1 + |a.it.psix|) * pr.qubTol)

/-- **Descent between consecutive callbacks of a solve, size premises discharged**: on a well-formed
    call (`x₀` of size `n`; `y`, `Σ`, `err_z` of size `m`) with sized problem oracles
    (`ProblemSized n m P`) and a direction provider that is sized on the states the loop reaches
    (`DirSized n dir R`, `R d₀`), every pair of consecutive callbacks `a`, `b` satisfies
    * `τ_a > 0`, line search not forced: `φ_b ≤ φ_a − β·c_a‖p_a‖² + (1+|φ_a|)·ls_tol`;
    * `τ_a = 0` and `a` passed the quadratic-upper-bound test:
      `φ_b ≤ φ_a − c_a‖p_a‖² + (1+|ψ_a|)·qub_tol`,
    `c_a = (1−γ_aL_a)/(2γ_a)`.  Hypotheses: the sized prox contract, `ParamsOK`,
    `recompute_last_prox_step_after_stepsize_change = false`.  (`zerofpr_descent_chain_local` is the
    form with the sizes as premises on the callback fields and no oracle / provider size contract.) -/
theorem zerofpr_descent_chain_fuel (n m : Nat) (hval : Vec α → α) (dom : Vec α → Prop) (P : Problem α)
    (hP : Sized n hval dom P.prox) (hS : ProblemSized n m P) (dir : Direction D α) (R : D → Prop)
    (hD : DirSized n dir R) (d0 : D) (hd0 : R d0) (pr : Params α)
    (hp : ParamsOK pr) (hrec : pr.recomputeLastProx = false) (stop : Nat → Bool) (oot : Bool)
    (x0 y Sig errz0 gV : Vec α) (gS iS : α) (hx0 : x0.length = n) (hy : y.length = m)
    (hSig : Sig.length = m) (he : errz0.length = m)
    (hfuel : (run P dir d0 pr stop oot x0 y Sig errz0 gV gS iS).fuelOut = false) :
    List.IsChain (fun a b : Callback α => DescStep pr a b.fbe)
      (run P dir d0 pr stop oot x0 y Sig errz0 gV gS iS).callbacks ∧
    ∀ cb ∈ (run P dir d0 pr stop oot x0 y Sig errz0 gV gS iS).callbacks,
      cb.fbe = cb.it.fbe ∧ (cb.status = .Busy → 0 ≤ cb.tau) := by
  have h := zerofpr_descent_chain_local_fuel n hval dom P hP dir d0 pr hp hrec stop oot x0 y Sig errz0
    gV gS iS hfuel
  have hsz := (run_sized_fuel hS dir R hD d0 hd0 pr stop oot x0 y Sig errz0 gV gS iS hx0 hy hSig he
    hfuel).1
  refine ⟨h.1.imp_of_mem_imp (fun a b ha _ hab => ?_), h.2⟩
  have hsa := hsz a ha
  exact ⟨hab.1, fun hτ hq => hab.2 hτ hq hsa.it.x hsa.it.g hsa.gh⟩

theorem zerofpr_descent_chain (n m : Nat) (hval : Vec α → α) (dom : Vec α → Prop) (P : Problem α)
    (hP : Sized n hval dom P.prox) (hS : ProblemSized n m P) (dir : Direction D α) (R : D → Prop)
    (hD : DirSized n dir R) (d0 : D) (hd0 : R d0) (pr : Params α)
    (hp : ParamsOK pr) (hrec : pr.recomputeLastProx = false) (stop : Nat → Bool)
    (hm : StopMono stop) (N M : Nat) (hF : FuelOK pr N M) (oot : Bool)
    (x0 y Sig errz0 gV : Vec α) (gS iS : α) (hx0 : x0.length = n) (hy : y.length = m)
    (hSig : Sig.length = m) (he : errz0.length = m) :
    List.IsChain (fun a b : Callback α => DescStep pr a b.fbe)
      (run P dir d0 pr stop oot x0 y Sig errz0 gV gS iS).callbacks ∧
    ∀ cb ∈ (run P dir d0 pr stop oot x0 y Sig errz0 gV gS iS).callbacks,
      cb.fbe = cb.it.fbe ∧ (cb.status = .Busy → 0 ≤ cb.tau) :=
  zerofpr_descent_chain_fuel n m hval dom P hP hS dir R hD d0 hd0 pr hp hrec stop oot x0 y Sig errz0
    gV gS iS hx0 hy hSig he (run_fuel P dir d0 pr stop hm N M hF oot x0 y Sig errz0 gV gS iS)

/-- **The reported step size never increases** along the progress callbacks of a solve, and
    **`γ·L = Lγ_factor`, `γ, L > 0`** for every reported iterate (chain form; the unconditional
    `zerofpr_gamma_antitone_gammaL_const` gives the pairwise form without any fuel hypothesis). -/
theorem zerofpr_gamma_chain (P : Problem α) (dir : Direction D α) (d0 : D) (pr : Params α)
    (hp : ParamsOK pr) (stop : Nat → Bool) (hm : StopMono stop) (N M : Nat) (hF : FuelOK pr N M)
    (oot : Bool) (x0 y Sig errz0 gV : Vec α) (gS iS : α) :
    List.IsChain (fun a b : Callback α => b.it.gamma ≤ a.it.gamma)
      (run P dir d0 pr stop oot x0 y Sig errz0 gV gS iS).callbacks ∧
    ∀ cb ∈ (run P dir d0 pr stop oot x0 y Sig errz0 gV gS iS).callbacks,
      cb.it.gamma * cb.it.L = pr.LgammaFactor ∧ 0 < cb.it.gamma ∧ 0 < cb.it.L := by
  have h := run_callbacks_ok False 0 (fun _ => 0) (fun _ => True) P dir d0 pr (fun h => h.elim) hp
    stop oot x0 y Sig errz0 gV gS iS (run_fuel P dir d0 pr stop hm N M hF oot x0 y Sig errz0 gV gS iS)
  exact ⟨h.1.imp (fun _ _ hc => hc.1), fun cb hcb =>
    ⟨(h.2 cb hcb).gok.2.2, (h.2 cb hcb).gok.1, (h.2 cb hcb).gok.2.1⟩⟩

/-- **The iterate a solve returns satisfies the quadratic-upper-bound test, or its `L` reached
    `L_max`**, or the solve's initial step-size loop was cut short and it returns the initial
    iterate — with the fuel hypothesis discharged. -/
theorem zerofpr_final_iterate_qub (P : Problem α) (dir : Direction D α) (d0 : D) (pr : Params α)
    (stop : Nat → Bool) (hm : StopMono stop) (N M : Nat) (hF : FuelOK pr N M) (oot : Bool)
    (x0 y Sig errz0 gV : Vec α) (gS iS : α) (c : Iterate α)
    (hc : (run P dir d0 pr stop oot x0 y Sig errz0 gV gS iS).final = some c) :
    QubOK pr c ∨ (InitInterrupted P d0 pr stop x0 gV gS ∧
      (run P dir d0 pr stop oot x0 y Sig errz0 gV gS iS).stats.iterations = 0) :=
  zerofpr_final_iterate_qub_fuel P dir d0 pr stop oot x0 y Sig errz0 gV gS iS c
    (run_fuel P dir d0 pr stop hm N M hF oot x0 y Sig errz0 gV gS iS) hc

/-! ### Non-vacuity -/

/-- a concrete instance of the line-search test over `ℚ`: `φ = 3 → 1` with `σ‖p‖² = 1.5` passes
    (`β = 1/2`, `γ = 1/2`, `L = 1/2`, `‖p‖² = 4`: `σ = (1/2)(3/4)/1 = 3/8`). -/
example : zerofpr_linesearchViolated false (1/2 : ℚ) 0 1 0 4 (1/2) (-2) (1/2) 1 0 0 (1/2) 0 = false := by
  unfold zerofpr_linesearchViolated zerofpr_fbe; norm_num [eabs]

/-- …and one that is rejected (envelope went up). -/
example : zerofpr_linesearchViolated false (1/2 : ℚ) 0 1 0 4 (1/2) (-2) (1/2) 5 0 0 (1/2) 0 = true := by
  unfold zerofpr_linesearchViolated zerofpr_fbe; norm_num [eabs]

/-- The hypotheses of `sigma_nonneg` / `qubOK_fb_descent` / the solve-level theorem are
    satisfiable: `γ = 1/2`, `L = 1`, `Lγ_factor = 1/2`. -/
example : (0 : ℚ) < 1/2 ∧ (1/2 : ℚ) * 1 ≤ 1 ∧ ((1/2 : ℚ) / 2) * (1 * 2) = (1/2) * 1 := by norm_num

end field

section examples
open Alpaqa.Zerofpr.Example

/-- the concrete solve of `Proofs/ZerofprExample.lean`: accelerated steps (`τ = 1`) accepted in
    iterations 1 and 2, envelope `5/2 → 1/4 → 1/64 → 1/1024`, `γ = 1/2` and `γ·L = 1/2 = Lγ_factor`
    throughout; the hypotheses of the solve-level theorem hold. -/
example : (exRun (fun _ => false)).callbacks.map (·.fbe) = [5/2, 1/4, 1/64, 1/1024] ∧
    (exRun (fun _ => false)).callbacks.map (·.tau) = [0, 1, 1, -1] ∧
    (exRun (fun _ => false)).callbacks.map (·.it.gamma) = [1/2, 1/2, 1/2, 1/2] ∧
    (exRun (fun _ => false)).callbacks.map (fun cb => cb.it.gamma * cb.it.L) = [1/2, 1/2, 1/2, 1/2] ∧
    0 < exPr.Lmin ∧ 0 < exPr.Lmax ∧ 0 < exPr.LgammaFactor ∧ exPr.forceLinesearch = false := by
  decide +kernel

/-! the whole-run theorems on a concrete solve whose prox step is the shipped box step
    (`C15.proxGradStep` with `C = [−1, 1]`, no ℓ1 term) — all hypotheses instantiated -/

/-- `exP` with the translator-generated box step of `BoxConstrProblem` as its prox oracle -/
def exPC : Problem Rat :=
  { exP with prox := fun γ x g => Alpaqa.C15.proxGradStep [] γ x g [-1] [1] }

/-- `exPr` with the default model fuel -/
def exPrF : Params Rat := { exPr with lsFuel := 4096 }

def exRunC : Result Rat Unit :=
  run exPC exDir () exPrF (fun _ => false) false [3] [5] [2] [7] [] 0 1000000

theorem exPC_sized : Sized 1 (hL1 ([] : Vec Rat) 1) (domBox [-1] [1] 1) exPC.prox :=
  boxL1_sized 1 [] [-1] [1]
    (fun i hi => by
      have : i = 0 := by omega
      subst this; simp [vget])
    (fun i _ => by simp [Alpaqa.Props.C15.lamAt]) (Or.inl (by simp))

theorem exPrF_paramsOK : ParamsOK exPrF :=
  ⟨by norm_num [exPrF, exPr], by norm_num [exPrF, exPr], by norm_num [exPrF, exPr]⟩

/-- `L_max = 100 ≤ L_0·2⁷`, `2⁻⁹ < τ_min = 1/256`, `7·11 + 9 < 4096` -/
theorem exPrF_fuelOK : FuelOK exPrF 7 9 :=
  ⟨by norm_num [exPrF, exPr], by norm_num [exPrF, exPr], by norm_num [exPrF, exPr],
   by norm_num [exPrF, exPr], by norm_num, by decide⟩

/-- `ParamsOK` and `FuelOK` hold for the library's default `ZeroFPRParams`, which also have
    `recompute_last_prox_step_after_stepsize_change = false`, `force_linesearch = false`. -/
example : ParamsOK defaultParams ∧ FuelOK defaultParams 84 9 ∧
    defaultParams.recomputeLastProx = false ∧ defaultParams.forceLinesearch = false :=
  ⟨⟨by norm_num [defaultParams], by norm_num [defaultParams], by norm_num [defaultParams]⟩,
   ⟨by norm_num [defaultParams], by norm_num [defaultParams], by norm_num [defaultParams],
    by norm_num [defaultParams], by norm_num, by decide⟩, rfl, rfl⟩

theorem stopNever_mono : StopMono (fun _ : Nat => false) := fun _ _ _ h => h

/-- the oracles of `exPC` are sized for `n = m = 1` … -/
theorem exPC_problemSized : ProblemSized 1 1 exPC :=
  ⟨fun x hx => hx, fun x _ => rfl, fun x hx => hx, fun x _ hx _ => hx,
   fun γ x g hx _ => by
     show (Alpaqa.C15.proxGradStep [] γ x g [-1] [1]).2.1.length = 1
     rw [Alpaqa.Props.C15.proxGradStep_xhat_length]; exact hx,
   fun γ x g hx _ => by
     show (Alpaqa.C15.proxGradStep [] γ x g [-1] [1]).2.2.length = 1
     rw [proxGradStep_p_length]; exact hx⟩

/-- … and so is the direction provider `exDir` (`q = p̂`; its state is `Unit`, so `R` is trivial). -/
theorem exDir_sized : DirSized 1 exDir (fun _ => True) :=
  ⟨fun _ _ _ _ _ _ _ _ _ _ _ => trivial, fun _ _ _ _ _ _ _ _ _ _ _ _ => trivial,
   fun _ _ _ _ p _ _ _ _ _ hp _ _ => hp, fun _ _ _ _ _ _ _ _ _ _ _ _ _ _ _ _ => trivial,
   fun _ _ _ _ => trivial, fun _ _ => trivial⟩

/-- a provider with memory (it proposes the `p̂` it was handed one call earlier): its size contract
    holds on the states the loop reaches (`R d := d.length = 1`) and is *false* over all states (a state
    holding a vector of another length makes `apply` return that vector) — the reason `DirSized` carries
    the invariant `R`. -/
def exDirMem : Direction (Vec Rat) Rat where
  init _ _ _ _ p _ := p
  hasInitial _ := true
  apply d _ _ _ p _ _ := (p, true, d)
  update d _ _ _ _ _ _ _ _ := (d, true)
  changedGamma d _ _ := d
  reset d := d

theorem exDirMem_sized : DirSized 1 exDirMem (fun d => d.length = 1) :=
  ⟨fun _ _ _ _ _ _ _ _ _ hp _ => hp, fun _ _ _ _ _ _ _ _ _ _ hp _ => hp,
   fun _ _ _ _ _ _ _ hd _ _ _ _ _ => hd, fun _ _ _ _ _ _ _ _ _ hd _ _ _ _ _ _ => hd,
   fun _ _ _ hd => hd, fun _ hd => hd⟩

example : (exDirMem.apply [1, 2] 1 [0] [0] [0] [0] []).2.2.length ≠ 1 := by decide

example : List.IsChain (fun a b : Callback Rat => DescStep exPrF a b.fbe)
    (run exPC exDirMem [0] exPrF (fun _ => false) false [3] [5] [2] [7] [] 0 1000000).callbacks :=
  (zerofpr_descent_chain 1 1 _ _ exPC exPC_sized exPC_problemSized exDirMem _ exDirMem_sized [0] rfl
    exPrF exPrF_paramsOK rfl (fun _ => false) stopNever_mono 7 9 exPrF_fuelOK false [3] [5] [2] [7]
    [] 0 1000000 rfl rfl rfl rfl).1

/-- the descent chain without size premises, every hypothesis instantiated -/
example : List.IsChain (fun a b : Callback Rat => DescStep exPrF a b.fbe) exRunC.callbacks :=
  (zerofpr_descent_chain 1 1 _ _ exPC exPC_sized exPC_problemSized exDir _ exDir_sized () trivial
    exPrF exPrF_paramsOK rfl (fun _ => false) stopNever_mono 7 9 exPrF_fuelOK false [3] [5] [2] [7]
    [] 0 1000000 rfl rfl rfl rfl).1

/-- the descent chain holds along the four callbacks of that solve … -/
example : List.IsChain (fun a b : Callback Rat => DescTo 1 exPrF a b.fbe) exRunC.callbacks :=
  (zerofpr_descent_chain_local 1 _ _ exPC exPC_sized exDir () exPrF exPrF_paramsOK rfl (fun _ => false)
    stopNever_mono 7 9 exPrF_fuelOK false [3] [5] [2] [7] [] 0 1000000).1

/-- … and its clauses are not vacuous there: iteration 0 takes the safeguarded step (`τ = 0`) from
    an iterate that passed the quadratic-upper-bound test, with all reported vectors of dimension 1;
    iterations 1 and 2 accept the accelerated step (`τ = 1`); the envelope goes `5/2 → 1/4 → 1/64 →
    1/1024` with `γ = 1/2`, `L = 1`, `‖p₀‖² = 4`: `1/4 ≤ 5/2 − (1/4)·4`. -/
example : exRunC.fuelOut = false ∧ exRunC.callbacks.map (·.tau) = [0, 1, 1, -1] ∧
    exRunC.callbacks.map (·.fbe) = [5/2, 1/4, 1/64, 1/1024] ∧
    exRunC.callbacks.map (fun cb => qubViolated exPrF cb.it) = [false, false, false, false] ∧
    exRunC.callbacks.map (fun cb => (cb.it.x.length, cb.it.gradPsi.length, cb.gradPsiHat.length)) =
      [(1, 1, 1), (1, 1, 1), (1, 1, 1), (1, 1, 1)] ∧
    exRunC.callbacks.map (fun cb => (cb.it.gamma, cb.it.L, cb.it.pTp)) =
      [(1/2, 1, 4), (1/2, 1, 1/4), (1/2, 1, 1/64), (1/2, 1, 1/1024)] ∧
    exPrF.forceLinesearch = false ∧ exPrF.recomputeLastProx = false := by
  decide +kernel

example : ∀ cb ∈ exRunC.callbacks,
    cb.it.psixhat ≤ cb.it.psix + cb.it.gradPsiTp + 1 / 2 * cb.it.L * cb.it.pTp +
        (1 + |cb.it.psix|) * exPrF.qubTol ∨ exPrF.Lmax ≤ cb.it.L ∨
    (InitInterrupted exPC () exPrF (fun _ => false) [3] [] 0 ∧ cb.k = 0) :=
  zerofpr_reported_iterate_qub exPC exDir () exPrF exPrF_paramsOK rfl (fun _ => false)
    stopNever_mono 7 9 exPrF_fuelOK false [3] [5] [2] [7] [] 0 1000000

example : List.IsChain (fun a b : Callback Rat => b.it.gamma ≤ a.it.gamma) exRunC.callbacks :=
  (zerofpr_gamma_chain exPC exDir () exPrF exPrF_paramsOK (fun _ => false) stopNever_mono 7 9
    exPrF_fuelOK false [3] [5] [2] [7] [] 0 1000000).1

example : exRunC.final.isSome = true ∧ ∀ c, exRunC.final = some c →
    (QubOK exPrF c ∨ (InitInterrupted exPC () exPrF (fun _ => false) [3] [] 0 ∧
      exRunC.stats.iterations = 0)) :=
  ⟨by decide +kernel, fun c hc => zerofpr_final_iterate_qub exPC exDir () exPrF (fun _ => false)
    stopNever_mono 7 9 exPrF_fuelOK false [3] [5] [2] [7] [] 0 1000000 c hc⟩

end examples
end Alpaqa.Props.C05_Zerofpr
