/-
  C06 (FISTA) — Exit status, iteration count and reported residual mean what is documented.

  Loop-level facts for the FISTA model (`Alpaqa/Model/Fista.lean`): the iteration count never
  exceeds `max_iter`; the returned status is the translator-generated chain
  (`check_all_stop_conditions`) evaluated at the *last loop head*; the returned ε is the generated
  stopping criterion (`calc_error_stop_crit`) of the iterate that was current there, which is also
  the iterate handed to the final callback; the callbacks are numbered 0 … iterations.
  Combined with the chain theorems of `Props/C06.lean` this gives `Converged ↔ ε ≤ tol'`,
  `MaxIter → iterations = max_iter`, … for FISTA.  All oracles, stop schedules, budgets, carriers.
-/
import Alpaqa.Proofs.FistaInv
import Alpaqa.Props.C03_Fista
import Alpaqa.Props.C06
import Alpaqa.Proofs.FistaFuel

namespace Alpaqa.Props.C06_Fista
open Alpaqa Alpaqa.Fista Alpaqa.Gen Alpaqa.Props.C03_Fista
set_option linter.unusedSectionVars false

variable {α : Type} [Add α] [Sub α] [Mul α] [Div α] [Neg α] [LT α] [LE α] [DecidableLT α]
  [DecidableLE α] [BEq α] [RealLike α] [NatCast α] [OfScientific α]
  [OfNat α 0] [OfNat α 1] [OfNat α 2] [OfNat α 4] [OfNat α 100]

/-- **iterations ≤ max_iter**, for all oracles, stop schedules and budgets (0 included). -/
theorem fista_iterations_le_max_iter (P : Problem α) (pr : Params α) (stop : Nat → Bool) (oot : Bool)
    (x0 y Sig errz0 gV : Vec α) (nan inf : α) :
    (run P pr stop oot x0 y Sig errz0 gV nan inf).stats.iterations ≤ pr.maxIter := by
  rcases fista_run_cases P pr stop oot x0 y Sig errz0 gV nan inf with h | h
  · rw [h.2.2.2.2.2.1]; exact Nat.zero_le _
  · obtain ⟨s, hk, _, _, hr⟩ := h
    rw [hr, (exitBlock_fields P pr _ _ _ x0 y Sig errz0).2.2.1, (headStep_curr P pr stop oot _).2.1,
      (proxStage_k P pr stop s).1]
    exact hk

/-- **Status and ε come from the last loop head**: there is a loop state `s` (the state at the top
    of the last pass) such that, with `c` the iterate after that pass's prox / backtracking stage,
    * `iterations = s.k`,
    * `ε = calc_error_stop_crit(stop_crit, c)` (generated criterion of the final iterate),
    * `status = check_all_stop_conditions(…, s.k, ε, no_progress, out_of_time, stop flag)`
      (generated chain) and is not `Busy`,
    * the last callback reports exactly `(s.k, status, c, t, ε)`,
    * `final_γ = c.γ`, `final_h = c.h(x̂)`. -/
theorem fista_result_at_last_head (P : Problem α) (pr : Params α) (stop : Nat → Bool) (oot : Bool)
    (x0 y Sig errz0 gV : Vec α) (nan inf : α)
    (h : EndsAt P pr stop oot x0 y Sig errz0 (run P pr stop oot x0 y Sig errz0 gV nan inf)) :
    ∃ (s : St α) (np tick : Nat),
      (run P pr stop oot x0 y Sig errz0 gV nan inf).stats.iterations = s.k ∧
      (run P pr stop oot x0 y Sig errz0 gV nan inf).stats.eps = epsOf P pr (proxStage P pr stop s).curr ∧
      (run P pr stop oot x0 y Sig errz0 gV nan inf).stats.status =
        statusChain pr.tolerance pr.maxIter pr.maxNoProgress s.k (epsOf P pr (proxStage P pr stop s).curr)
          np oot (stop tick) ∧
      (run P pr stop oot x0 y Sig errz0 gV nan inf).stats.status ≠ .Busy ∧
      (run P pr stop oot x0 y Sig errz0 gV nan inf).callbacks.getLast? =
        some { k := s.k, status := (run P pr stop oot x0 y Sig errz0 gV nan inf).stats.status,
               it := (proxStage P pr stop s).curr, fbe := (proxStage P pr stop s).curr.fbe, t := s.t,
               eps := (run P pr stop oot x0 y Sig errz0 gV nan inf).stats.eps } ∧
      (run P pr stop oot x0 y Sig errz0 gV nan inf).callbacks.length = s.k + 1 ∧
      (run P pr stop oot x0 y Sig errz0 gV nan inf).stats.finalGamma = (proxStage P pr stop s).curr.gamma ∧
      (run P pr stop oot x0 y Sig errz0 gV nan inf).stats.finalH = (proxStage P pr stop s).curr.hxhat := by
  obtain ⟨s, hk, hcbs, hst, hr⟩ := h
  refine ⟨s, noProgressUpdate (proxStage P pr stop s).noProgress (proxStage P pr stop s).k pr.maxNoProgress
    ((proxStage P pr stop s).curr.xhat == (proxStage P pr stop s).prev),
    (proxStage P pr stop s).tick + epsTicks pr.stopCrit, ?_⟩
  rw [hr]
  have hpk := proxStage_k P pr stop s
  unfold exitBlock
  simp only []
  refine ⟨?_, ?_, ?_, ?_, ?_, ?_, ?_, ?_⟩
  · unfold headStep; simp only [hpk.1]
  · unfold headStep; simp only []
  · unfold headStep statusOf; simp only [hpk.1]
  · exact hst
  · unfold headStep; simp only [List.getLast?_reverse, List.head?_cons, hpk.1, hpk.2.2]
  · unfold headStep; simp only [List.length_reverse, List.length_cons, hpk.2.1, hcbs]
  · unfold headStep; simp only []; split_ifs <;> rfl
  · unfold headStep; simp only []; split_ifs <;> rfl

/-- **ε is computed from data of the final iterate only**: at every loop head (in particular the
    last one) the `∇ψ(x̂)` that the criteria ApproxKKT / ApproxKKT2 / Ipopt read is the `eval_grad_L`
    oracle's answer at the iterate's *own* `x̂`, `ŷ(x̂)` — also after step-size backtracking
    (in the source this is `eval_grad_ψx̂` placed after the quadratic-upper-bound loop; before the
    repair it preceded the loop and ε was computed from ∇ψ of a rejected `x̂`). -/
theorem fista_eps_fresh_gradient (P : Problem α) (pr : Params α) (stop : Nat → Bool) (s : St α)
    (hn : requiresGradHat pr.stopCrit = true) :
    (proxStage P pr stop s).curr.gradPsiHat
        = P.gradL (proxStage P pr stop s).curr.xhat (proxStage P pr stop s).curr.yhat ∧
    (proxStage P pr stop s).curr.yhat = (P.psi (proxStage P pr stop s).curr.xhat).2 := by
  refine ⟨proxStage_gradHat P pr stop s hn, (proxStage_good P pr stop s).2 ?_⟩
  have : needGradHat pr = true := hn
  simp [this]

/-! ### Consequences of the generated chain (`Props/C06`) for FISTA's returned status -/

/-- `Converged` is returned exactly when the returned ε meets the (effective) tolerance. -/
theorem fista_converged_iff (P : Problem α) (pr : Params α) (stop : Nat → Bool) (oot : Bool)
    (x0 y Sig errz0 gV : Vec α) (nan inf : α)
    (h : EndsAt P pr stop oot x0 y Sig errz0 (run P pr stop oot x0 y Sig errz0 gV nan inf)) :
    (run P pr stop oot x0 y Sig errz0 gV nan inf).stats.status = .Converged ↔
      (run P pr stop oot x0 y Sig errz0 gV nan inf).stats.eps ≤ C06.effTol pr.tolerance := by
  obtain ⟨s, np, tick, _, he, hs, _⟩ := fista_result_at_last_head P pr stop oot x0 y Sig errz0 gV nan inf h
  rw [hs, he]
  exact C06.converged_iff _ _ _ _ _ _ _ _

/-- `MaxIter` only with `iterations = max_iter`. -/
theorem fista_maxIter_only_if (P : Problem α) (pr : Params α) (stop : Nat → Bool) (oot : Bool)
    (x0 y Sig errz0 gV : Vec α) (nan inf : α)
    (h : EndsAt P pr stop oot x0 y Sig errz0 (run P pr stop oot x0 y Sig errz0 gV nan inf))
    (hm : (run P pr stop oot x0 y Sig errz0 gV nan inf).stats.status = .MaxIter) :
    (run P pr stop oot x0 y Sig errz0 gV nan inf).stats.iterations = pr.maxIter := by
  obtain ⟨s, np, tick, hi, _, hs, _⟩ := fista_result_at_last_head P pr stop oot x0 y Sig errz0 gV nan inf h
  rw [hi]; rw [hs] at hm
  exact C06.maxIter_only_if _ _ _ _ _ _ _ _ hm

/-- `NotFinite` (from the loop) only with a non-finite ε; `Interrupted` only after a stop request
    that was visible at the deciding check; `MaxTime` only when out of time. -/
theorem fista_status_only_if (P : Problem α) (pr : Params α) (stop : Nat → Bool) (oot : Bool)
    (x0 y Sig errz0 gV : Vec α) (nan inf : α)
    (h : EndsAt P pr stop oot x0 y Sig errz0 (run P pr stop oot x0 y Sig errz0 gV nan inf)) :
    ((run P pr stop oot x0 y Sig errz0 gV nan inf).stats.status = .NotFinite →
      RealLike.isFinite (run P pr stop oot x0 y Sig errz0 gV nan inf).stats.eps = false) ∧
    ((run P pr stop oot x0 y Sig errz0 gV nan inf).stats.status = .Interrupted →
      ∃ tick, stop tick = true) ∧
    ((run P pr stop oot x0 y Sig errz0 gV nan inf).stats.status = .MaxTime → oot = true) ∧
    (run P pr stop oot x0 y Sig errz0 gV nan inf).stats.status ≠ .Exception := by
  obtain ⟨s, np, tick, _, he, hs, _⟩ := fista_result_at_last_head P pr stop oot x0 y Sig errz0 gV nan inf h
  rw [hs, he]
  exact ⟨C06.notFinite_only_if _ _ _ _ _ _ _ _, fun hh => ⟨tick, C06.interrupted_only_if _ _ _ _ _ _ _ _ hh⟩,
    C06.maxTime_only_if _ _ _ _ _ _ _ _, C06.never_exception _ _ _ _ _ _ _ _⟩

/-! ### The no-progress counter: what it is

FISTA updates `no_progress` at *every loop head* (also the final one) with the generated statement
`noProgressUpdate` on the flag `curr->x̂ == prev_x̂`: the proximal point of this iteration against the
proximal point of the previous one (for `k = 0`: against the content of `curr->x̂` before the first step,
which is `x₀`, or the finite-difference work vector `x₀ − h` when the Lipschitz constant is estimated).
All these vectors are observable: `x̂ₖ` is reported by callback `k`.  So the counter handed to
`check_all_stop_conditions` at the deciding check is `npRun` (`Props/C06`) of the flags
`[x̂₀ == x̂₋₁, x̂₁ == x̂₀, …, x̂ₖ == x̂ₖ₋₁]` of the callbacks of the solve. -/

/-- flags `x̂ⱼ == x̂ⱼ₋₁` along the callbacks (oldest first), `xinit = x̂₋₁` -/
def xhatFlags (xinit : Vec α) : List (Callback α) → List Bool
  | [] => []
  | cb :: rest => (cb.it.xhat == xinit) :: xhatFlags cb.it.xhat rest

/-- `x̂` of the newest callback (list newest first), `xinit` if there is none -/
def lastXhat (xinit : Vec α) : List (Callback α) → Vec α
  | [] => xinit
  | cb :: _ => cb.it.xhat

/-- the same flags for a newest-first list -/
def flagsNF (xinit : Vec α) : List (Callback α) → List Bool
  | [] => []
  | cb :: rest => flagsNF xinit rest ++ [cb.it.xhat == lastXhat xinit rest]

theorem xhatFlags_snoc (xinit : Vec α) (l : List (Callback α)) (cb : Callback α) :
    xhatFlags xinit (l ++ [cb]) = xhatFlags xinit l ++ [cb.it.xhat == lastXhat xinit l.reverse] := by
  induction l generalizing xinit with
  | nil => simp [xhatFlags, lastXhat]
  | cons x xs ih =>
    simp only [List.cons_append, xhatFlags, ih, List.reverse_cons]
    congr 2
    cases hr : xs.reverse with
    | nil => simp [lastXhat]
    | cons z zs => simp [lastXhat]

theorem xhatFlags_reverse (xinit : Vec α) (cbs : List (Callback α)) :
    xhatFlags xinit cbs.reverse = flagsNF xinit cbs := by
  induction cbs with
  | nil => rfl
  | cons cb rest ih =>
    rw [List.reverse_cons, xhatFlags_snoc, List.reverse_reverse, ih]
    rfl

theorem flagsNF_length (xinit : Vec α) (cbs : List (Callback α)) :
    (flagsNF xinit cbs).length = cbs.length := by
  induction cbs with
  | nil => rfl
  | cons cb rest ih => simp [flagsNF, ih]

/-- invariant at the top of a pass of the loop body -/
def NpInv (xinit : Vec α) (pr : Params α) (s : St α) : Prop :=
  s.noProgress = C06.npRun pr.maxNoProgress 0 0 (flagsNF xinit s.cbs) ∧
  s.curr.xhat = lastXhat xinit s.cbs ∧ s.cbs.length = s.k

theorem flagsNF_cons (xinit : Vec α) (cb : Callback α) (rest : List (Callback α)) :
    flagsNF xinit (cb :: rest) = flagsNF xinit rest ++ [cb.it.xhat == lastXhat xinit rest] := rfl

theorem advance_np (P : Problem α) (pr : Params α) (s : St α) (eps : α) :
    (advance P pr s eps).noProgress = s.noProgress ∧ (advance P pr s eps).curr.xhat = s.curr.xhat ∧
    (∃ cb : Callback α, (advance P pr s eps).cbs = cb :: s.cbs ∧ cb.it = s.curr) ∧
    (advance P pr s eps).k = s.k + 1 := by
  unfold advance
  cases hf : fixedLip pr <;> simp [evalPsiGradPsi, evalGradPsi]

theorem exitBlock_cbs (P : Problem α) (pr : Params α) (s : St α) (eps : α) (status : SolverStatus)
    (x0 y Sig errz0 : Vec α) :
    ∃ cb : Callback α, (exitBlock P pr s eps status x0 y Sig errz0).callbacks = (cb :: s.cbs).reverse ∧
      cb.it = s.curr := ⟨_, rfl, rfl⟩

theorem mainLoop_np (P : Problem α) (pr : Params α) (stop : Nat → Bool) (oot : Bool)
    (x0 y Sig errz0 : Vec α) (xinit : Vec α) (fuel : Nat) (s : St α) (h : NpInv xinit pr s)
    (hk : s.k ≤ pr.maxIter) (hfuel : pr.maxIter + 1 ≤ fuel + s.k) :
    ∃ tick : Nat,
      (mainLoop P pr stop oot x0 y Sig errz0 fuel s).stats.status =
        statusChain pr.tolerance pr.maxIter pr.maxNoProgress
          (mainLoop P pr stop oot x0 y Sig errz0 fuel s).stats.iterations
          (mainLoop P pr stop oot x0 y Sig errz0 fuel s).stats.eps
          (C06.npRun pr.maxNoProgress 0 0
            (xhatFlags xinit (mainLoop P pr stop oot x0 y Sig errz0 fuel s).callbacks)) oot (stop tick) ∧
      (xhatFlags xinit (mainLoop P pr stop oot x0 y Sig errz0 fuel s).callbacks).length =
        (mainLoop P pr stop oot x0 y Sig errz0 fuel s).stats.iterations + 1 := by
  induction fuel generalizing s with
  | zero => omega
  | succ f ih =>
    unfold mainLoop
    simp only []
    have hpk := proxStage_k P pr stop s
    have hprev : (proxStage P pr stop s).prev = s.curr.xhat := by unfold proxStage; rfl
    have hpnp : (proxStage P pr stop s).noProgress = s.noProgress := by unfold proxStage; rfl
    have hhc := headStep_curr P pr stop oot (proxStage P pr stop s)
    have hnp : (headStep P pr stop oot (proxStage P pr stop s)).1.noProgress =
        C06.npRun pr.maxNoProgress 0 0 (flagsNF xinit s.cbs ++
          [(proxStage P pr stop s).curr.xhat == lastXhat xinit s.cbs]) := by
      unfold headStep
      simp only []
      rw [C06.npRun_append_single, Nat.zero_add, flagsNF_length, h.2.2, ← h.1, hprev, hpnp, hpk.1, h.2.1]
    split_ifs with hb
    · obtain ⟨cb, hcb, hit⟩ := exitBlock_cbs P pr (headStep P pr stop oot (proxStage P pr stop s)).1
        (headStep P pr stop oot (proxStage P pr stop s)).2.1
        (headStep P pr stop oot (proxStage P pr stop s)).2.2 x0 y Sig errz0
      have hfl : xhatFlags xinit (exitBlock P pr (headStep P pr stop oot (proxStage P pr stop s)).1
          (headStep P pr stop oot (proxStage P pr stop s)).2.1
          (headStep P pr stop oot (proxStage P pr stop s)).2.2 x0 y Sig errz0).callbacks =
          flagsNF xinit s.cbs ++ [(proxStage P pr stop s).curr.xhat == lastXhat xinit s.cbs] := by
        rw [hcb, xhatFlags_reverse, flagsNF_cons, hit, hhc.1, hhc.2.2.1, hpk.2.1]
      have hef := exitBlock_fields P pr (headStep P pr stop oot (proxStage P pr stop s)).1
        (headStep P pr stop oot (proxStage P pr stop s)).2.1
        (headStep P pr stop oot (proxStage P pr stop s)).2.2 x0 y Sig errz0
      refine ⟨(headStep P pr stop oot (proxStage P pr stop s)).1.tick, ?_, ?_⟩
      · rw [hfl, ← hnp, hef.2.1, hef.2.2.1, hef.2.2.2.1]
        unfold headStep statusOf
        simp only []
      · rw [hfl, hef.2.2.1, List.length_append, flagsNF_length, h.2.2, hhc.2.1, hpk.1]
        rfl
    · have hbusy : (headStep P pr stop oot (proxStage P pr stop s)).2.2 = .Busy := by simpa using hb
      have hkne := headStep_busy_k P pr stop oot _ hbusy
      rw [hpk.1] at hkne
      obtain ⟨a1, a2, ⟨cb, a3, a3'⟩, a4⟩ := advance_np P pr (headStep P pr stop oot (proxStage P pr stop s)).1
        (headStep P pr stop oot (proxStage P pr stop s)).2.1
      apply ih
      · refine ⟨?_, ?_, ?_⟩
        · rw [a1, a3, hnp, flagsNF_cons, a3', hhc.1, hhc.2.2.1, hpk.2.1]
        · rw [a2, a3, hhc.1]; show _ = cb.it.xhat; rw [a3', hhc.1]
        · rw [a3, a4, List.length_cons, hhc.2.2.1, hpk.2.1, hhc.2.1, hpk.1, h.2.2]
      · rw [a4, hhc.2.1, hpk.1]; omega
      · rw [a4, hhc.2.1, hpk.1]; omega

/-- **The no-progress counter of a FISTA solve.**  For a solve that entered the loop: the returned status
    is the generated chain evaluated with the counter
    `npRun max_no_progress 0 0 [x̂₀ == x̂₋₁, x̂₁ == x̂₀, …, x̂ₖ == x̂ₖ₋₁]` — the flags between the proximal
    points reported by *consecutive progress callbacks* (`x̂₋₁` = the content of `curr->x̂` after the
    initialisation).  Hence `NoProgress` is returned only after more than `max_no_progress` consecutive
    trailing iterations whose reported `x̂` are all equal (every `max_no_progress`, 0 included). -/
theorem fista_no_progress_counter (P : Problem α) (pr : Params α) (stop : Nat → Bool) (oot : Bool)
    (x0 y Sig errz0 gV : Vec α) (nan inf : α)
    (h : EndsAt P pr stop oot x0 y Sig errz0 (run P pr stop oot x0 y Sig errz0 gV nan inf)) :
    ∃ tick : Nat,
      (run P pr stop oot x0 y Sig errz0 gV nan inf).stats.status =
        statusChain pr.tolerance pr.maxIter pr.maxNoProgress
          (run P pr stop oot x0 y Sig errz0 gV nan inf).stats.iterations
          (run P pr stop oot x0 y Sig errz0 gV nan inf).stats.eps
          (C06.npRun pr.maxNoProgress 0 0 (xhatFlags (initIterate P pr x0 gV nan).1.xhat
            (run P pr stop oot x0 y Sig errz0 gV nan inf).callbacks)) oot (stop tick) ∧
      (xhatFlags (initIterate P pr x0 gV nan).1.xhat
        (run P pr stop oot x0 y Sig errz0 gV nan inf).callbacks).length =
        (run P pr stop oot x0 y Sig errz0 gV nan inf).stats.iterations + 1 ∧
      ((run P pr stop oot x0 y Sig errz0 gV nan inf).stats.status = .NoProgress →
        pr.maxNoProgress < ((xhatFlags (initIterate P pr x0 gV nan).1.xhat
          (run P pr stop oot x0 y Sig errz0 gV nan inf).callbacks).reverse.takeWhile (· = true)).length) := by
  unfold run at h ⊢
  cases hi : initState P pr x0 gV nan with
  | inl t =>
    rw [hi] at h
    obtain ⟨s, _, _, _, hr⟩ := h
    simp only [] at hr
    have : (exitBlock P pr (headStep P pr stop oot (proxStage P pr stop s)).1
      (headStep P pr stop oot (proxStage P pr stop s)).2.1
      (headStep P pr stop oot (proxStage P pr stop s)).2.2 x0 y Sig errz0).callbacks ≠ [] := by
      unfold exitBlock; simp
    rw [← hr] at this
    exact absurd rfl this
  | inr s =>
    simp only []
    have hk := initState_k P pr x0 gV nan s hi
    have hinit : NpInv (initIterate P pr x0 gV nan).1.xhat pr s := by
      unfold initState at hi
      simp only [] at hi
      split_ifs at hi
      injection hi with hi
      subst hi
      exact ⟨by simp [flagsNF, C06.npRun], rfl, rfl⟩
    obtain ⟨tick, h1, h2⟩ := mainLoop_np P pr stop oot x0 y Sig errz0 (initIterate P pr x0 gV nan).1.xhat
      (pr.maxIter + 2) s hinit (by rw [hk.1]; omega) (by omega)
    refine ⟨tick, h1, h2, ?_⟩
    intro hnp
    rw [hnp] at h1
    have hgt := C06.noProgress_only_if _ _ _ _ _ _ _ _ h1.symm
    have hle := C06.no_progress_counts_consecutive pr.maxNoProgress
      (xhatFlags (initIterate P pr x0 gV nan).1.xhat
        (mainLoop P pr stop oot x0 y Sig errz0 (pr.maxIter + 2) s).callbacks) 0
    omega

/-! ### ε is the *documented* criterion of the proximal data of the written-back point

`fista_result_at_last_head` says ε is the generated formula of the final iterate's fields.  Here those fields
are tied to the point: `∇ψ` is the gradient oracle's answer at `x`, `(x̂, p)` the projected-gradient step from
`(x, γ, ∇ψ(x))`, `ŷ(x̂)` and `∇ψ(x̂)` the oracles' answers at that `x̂` (when the criterion reads them), `γ > 0`,
`x̂` is what is written back — and ε is the independent specification `Props/C06.docCrit` of these data. -/

/-- the gradient oracle the loop uses for `∇ψ(x)` (`eval_grad_ψ` with a fixed step size, else
    `eval_ψ_grad_ψ`) -/
def gradAt (P : Problem α) (pr : Params α) (x : Vec α) : Vec α :=
  if fixedLip pr then P.gradPsi x else (P.psiGradPsi x).2.1

/-- `∇ψ` held by the iterate is the gradient oracle's answer at its own `x` -/
def GradCons (P : Problem α) (pr : Params α) (i : Iterate α) : Prop := i.gradPsi = gradAt P pr i.x

theorem qubLoop_keeps (P : Problem α) (pr : Params α) (stop : Nat → Bool) (f : Nat) (c : Iterate α)
    (t b : Nat) :
    (qubLoop P pr stop f c t b).1.x = c.x ∧ (qubLoop P pr stop f c t b).1.gradPsi = c.gradPsi := by
  induction f generalizing c t b with
  | zero => exact ⟨rfl, rfl⟩
  | succ f ih =>
    unfold qubLoop
    split_ifs
    · exact ⟨rfl, rfl⟩
    · have := ih (evalPsiHat P (evalProxGradStep P
        { c with gamma := (fista_backtrack c.gamma c.L).1, L := (fista_backtrack c.gamma c.L).2 })) (t + 2) (b + 1)
      exact ⟨this.1, this.2⟩
    · exact ⟨rfl, rfl⟩

theorem proxStage_keeps (P : Problem α) (pr : Params α) (stop : Nat → Bool) (s : St α) :
    (proxStage P pr stop s).curr.x = s.curr.x ∧ (proxStage P pr stop s).curr.gradPsi = s.curr.gradPsi := by
  have hq := qubLoop_keeps P pr stop pr.qubFuel (firstStep P pr s) (firstTick pr s) s.backtracks
  have hf : (firstStep P pr s).x = s.curr.x ∧ (firstStep P pr s).gradPsi = s.curr.gradPsi := by
    unfold firstStep; simp only []; split_ifs <;> exact ⟨rfl, rfl⟩
  have hw : ∀ c : Iterate α, (withGradHat P pr c).x = c.x ∧ (withGradHat P pr c).gradPsi = c.gradPsi := by
    intro c; unfold withGradHat; split_ifs <;> exact ⟨rfl, rfl⟩
  unfold proxStage
  simp only []
  exact ⟨by rw [(hw _).1, hq.1, hf.1], by rw [(hw _).2, hq.2, hf.2]⟩

theorem advance_gradCons (P : Problem α) (pr : Params α) (s : St α) (eps : α) :
    GradCons P pr (advance P pr s eps).curr := by
  unfold advance GradCons gradAt
  cases hf : fixedLip pr <;> simp [evalPsiGradPsi, evalGradPsi]

theorem initState_gradCons (P : Problem α) (pr : Params α) (x0 gV : Vec α) (nan : α) (s : St α)
    (h : initState P pr x0 gV nan = .inr s) : GradCons P pr s.curr := by
  unfold initState at h
  simp only [] at h
  split_ifs at h
  injection h with h
  subst h
  unfold GradCons gradAt initIterate
  cases hf : fixedLip pr
  · simp only [Bool.false_eq_true, if_false]
    split_ifs <;> simp [initialLipschitz, evalPsiGradPsi, blankIterate]
  · simp [evalGradPsi, blankIterate]

/-- The main loop ends at a loop head of a state satisfying any invariant that `advance ∘ head ∘ prox`
    re-establishes. -/
theorem mainLoop_endsAt_inv (P : Problem α) (pr : Params α) (stop : Nat → Bool) (oot : Bool)
    (x0 y Sig errz0 : Vec α) (Inv : St α → Prop)
    (hadv : ∀ s, Inv s → Inv (advance P pr (headStep P pr stop oot (proxStage P pr stop s)).1
      (headStep P pr stop oot (proxStage P pr stop s)).2.1))
    (fuel : Nat) (s : St α) (hinv : Inv s) (hk : s.k ≤ pr.maxIter) (hfuel : pr.maxIter + 1 ≤ fuel + s.k) :
    ∃ s' : St α, Inv s' ∧
      mainLoop P pr stop oot x0 y Sig errz0 fuel s =
        exitBlock P pr (headStep P pr stop oot (proxStage P pr stop s')).1
          (headStep P pr stop oot (proxStage P pr stop s')).2.1
          (headStep P pr stop oot (proxStage P pr stop s')).2.2 x0 y Sig errz0 := by
  induction fuel generalizing s with
  | zero => omega
  | succ f ih =>
    unfold mainLoop
    simp only []
    split_ifs with hb
    · exact ⟨s, hinv, rfl⟩
    · have hbusy : (headStep P pr stop oot (proxStage P pr stop s)).2.2 = .Busy := by simpa using hb
      have hkne := headStep_busy_k P pr stop oot _ hbusy
      rw [(proxStage_k P pr stop s).1] at hkne
      apply ih _ (hadv s hinv)
      · rw [(advance_k _ _ _ _).1, (headStep_curr P pr stop oot _).2.1, (proxStage_k P pr stop s).1]; omega
      · rw [(advance_k _ _ _ _).1, (headStep_curr P pr stop oot _).2.1, (proxStage_k P pr stop s).1]; omega

/-! ### Non-vacuity (the concrete run of `Props/C03_Fista`) -/

local instance instRealLikeRatC06F : RealLike ℚ := ⟨id, fun _ => false, fun _ => true⟩

example : (run exP exPr (fun _ => false) false [2] [1] [2] [0] [] 0 0).stats.status = .Converged ∧
    (run exP exPr (fun _ => false) false [2] [1] [2] [0] [] 0 0).stats.iterations = 0 ∧
    (run exP exPr (fun _ => false) false [2] [1] [2] [0] [] 0 0).stats.eps = 0 := by
  decide +kernel

/-- a budget of 0 iterations with an unmet tolerance: `MaxIter`, 0 iterations, one callback, and
    (no `always_overwrite_results`) the caller's x, y untouched. -/
def exP2 : Problem ℚ := { exP with prox := fun _ _ _ => (0, [1/2], [1]) }

example : (run exP2 { exPr with maxIter := 0, tolerance := 1/1000, alwaysOverwrite := false }
      (fun _ => false) false [2] [1] [2] [0] [] 0 0).stats.status = .MaxIter ∧
    (run exP2 { exPr with maxIter := 0, tolerance := 1/1000, alwaysOverwrite := false }
      (fun _ => false) false [2] [1] [2] [0] [] 0 0).callbacks.length = 1 ∧
    (run exP2 { exPr with maxIter := 0, tolerance := 1/1000, alwaysOverwrite := false }
      (fun _ => false) false [2] [1] [2] [0] [] 0 0).x = [2] := by
  decide +kernel

/-- `fista_no_progress_counter` instantiated: constant prox oracle (`x̂ = ½` always), `max_no_progress = 2`:
    flags `[x̂₀ == x₀, x̂₁ == x̂₀, …] = [false, true, true, true, true]`; the counter is sampled at `k = 0`
    (reset), not at `k = 1`, starts at `k = 2` and exceeds 2 at `k = 4`: `NoProgress` with 4 iterations -/
def exPrNp : Params ℚ := { exPr with maxIter := 10, tolerance := 1/1000, maxNoProgress := 2 }

example : (run exP2 exPrNp (fun _ => false) false [2] [1] [2] [0] [] 0 0).stats.status = .NoProgress ∧
    (run exP2 exPrNp (fun _ => false) false [2] [1] [2] [0] [] 0 0).stats.iterations = 4 ∧
    xhatFlags (initIterate exP2 exPrNp [2] [] 0).1.xhat
      (run exP2 exPrNp (fun _ => false) false [2] [1] [2] [0] [] 0 0).callbacks
      = [false, true, true, true, true] := by
  decide +kernel

example : exPrNp.maxNoProgress <
    ((xhatFlags (initIterate exP2 exPrNp [2] [] 0).1.xhat
      (run exP2 exPrNp (fun _ => false) false [2] [1] [2] [0] [] 0 0).callbacks).reverse.takeWhile
        (· = true)).length := by
  have hE := (fista_run_cases exP2 exPrNp (fun _ => false) false [2] [1] [2] [0] [] 0 0).resolve_left
    (fun h => absurd h.2.2.2.2.2.2 (by decide +kernel))
  obtain ⟨_, _, _, h3⟩ := fista_no_progress_counter exP2 exPrNp (fun _ => false) false [2] [1] [2] [0] [] 0 0 hE
  exact h3 (by decide +kernel)

/-- two iterations, then `MaxIter`. -/
example : (run exP2 { exPr with maxIter := 2, tolerance := 1/1000 }
      (fun _ => false) false [2] [1] [2] [0] [] 0 0).stats.iterations = 2 := by
  decide +kernel

/-! ### `eps_is_documented` (linearly ordered fields) -/
section field
open C06Spec
variable {β : Type} [Field β] [LinearOrder β] [IsStrictOrderedRing β] [RealLike β]

theorem qubLoop_gamma_pos (P : Problem β) (pr : Params β) (stop : Nat → Bool) (f : Nat) (c : Iterate β)
    (t b : Nat) (h : 0 < c.gamma) : 0 < (qubLoop P pr stop f c t b).1.gamma := by
  induction f generalizing c t b with
  | zero => exact h
  | succ f ih =>
    unfold qubLoop
    split_ifs
    · exact h
    · apply ih
      show 0 < c.gamma / 2
      positivity
    · exact h

theorem proxStage_gamma_pos (P : Problem β) (pr : Params β) (stop : Nat → Bool) (s : St β)
    (h : 0 < s.curr.gamma) : 0 < (proxStage P pr stop s).curr.gamma := by
  have hf : (firstStep P pr s).gamma = s.curr.gamma := by
    unfold firstStep; simp only []; split_ifs <;> rfl
  have hq := qubLoop_gamma_pos P pr stop pr.qubFuel (firstStep P pr s) (firstTick pr s) s.backtracks
    (by rw [hf]; exact h)
  unfold proxStage withGradHat
  simp only []
  split_ifs <;> exact hq

/-- **`ε` is the documented criterion of the proximal data of the written-back point.**  For a FISTA solve
    that entered the loop, with `c` the iterate handed to the final callback:
    `γ > 0`; `c.∇ψ` is the gradient oracle's answer at `c.x`; `c.x̂ = Π_C(c.x − γ c.∇ψ)`, `c.p = c.x̂ − c.x` (the
    problem's prox step being the projection, `ProxIsProj`); when the criterion reads them
    (`ApproxKKT`, `ApproxKKT2`, `Ipopt`) `c.ŷ` is the ψ-oracle's multiplier *at `c.x̂`* and `c.∇ψ̂` the gradient
    oracle's answer *at `(c.x̂, c.ŷ)`* — also with a fixed step size and after backtracking; the returned
    `ε = docCrit` (`Props/C06`, the independent specification of the ten criteria) of these data; and the
    written-back `x` is `c.x̂`.  Hypotheses: `0 < Lγ_factor`, `FistaFuelOK` (positivity of `L`), no NaN. -/
theorem fista_eps_is_documented (hnn : ∀ a : β, RealLike.isNaN a = false) (PC : Vec β → Vec β)
    (P : Problem β) (hP : C06.ProxIsProj PC (fun γ x g => ((P.prox γ x g).2.1, (P.prox γ x g).2.2)))
    (pr : Params β) (hpos : 0 < pr.LgammaFactor) (nL : Nat) (hF : FistaFuelOK pr nL)
    (stop : Nat → Bool) (oot : Bool) (x0 y Sig errz0 gV : Vec β) (nan inf : β)
    (h : EndsAt P pr stop oot x0 y Sig errz0 (run P pr stop oot x0 y Sig errz0 gV nan inf)) :
    ∃ c : Iterate β,
      ((run P pr stop oot x0 y Sig errz0 gV nan inf).callbacks.getLast?).map (·.it) = some c ∧
      0 < c.gamma ∧ c.gradPsi = gradAt P pr c.x ∧
      c.xhat = PC (vsub c.x (smul c.gamma c.gradPsi)) ∧ c.p = vsub c.xhat c.x ∧
      (requiresGradHat pr.stopCrit = true →
        c.yhat = (P.psi c.xhat).2 ∧ c.gradPsiHat = P.gradL c.xhat c.yhat) ∧
      (run P pr stop oot x0 y Sig errz0 gV nan inf).stats.eps =
        C06.docCrit PC pr.stopCrit c.gamma c.x c.xhat c.yhat c.gradPsi c.gradPsiHat ∧
      ((run P pr stop oot x0 y Sig errz0 gV nan inf).wrote = true →
        (run P pr stop oot x0 y Sig errz0 gV nan inf).x = c.xhat) := by
  unfold run at h ⊢
  cases hi : initState P pr x0 gV nan with
  | inl t =>
    rw [hi] at h
    obtain ⟨s, _, _, _, hr⟩ := h
    simp only [] at hr
    have : (exitBlock P pr (headStep P pr stop oot (proxStage P pr stop s)).1
      (headStep P pr stop oot (proxStage P pr stop s)).2.1
      (headStep P pr stop oot (proxStage P pr stop s)).2.2 x0 y Sig errz0).callbacks ≠ [] := by
      unfold exitBlock; simp
    rw [← hr] at this
    exact absurd rfl this
  | inr s0 =>
    simp only []
    have hk := initState_k P pr x0 gV nan s0 hi
    have hg0 := initState_gradCons P pr x0 gV nan s0 hi
    have hγ0 : 0 < s0.curr.gamma := by
      have hlb := initIterate_lbound P pr x0 gV nan nL hF
      unfold initState at hi
      simp only [] at hi
      split_ifs at hi
      injection hi with hi
      subst hi
      show 0 < fista_gammaInit pr.LgammaFactor _
      unfold fista_gammaInit
      exact div_pos hpos hlb.1
    obtain ⟨s, ⟨hg, hγ⟩, hr⟩ := mainLoop_endsAt_inv P pr stop oot x0 y Sig errz0
      (fun s => GradCons P pr s.curr ∧ 0 < s.curr.gamma)
      (fun s hs => by
        refine ⟨advance_gradCons P pr _ _, ?_⟩
        have e4 : (advance P pr (headStep P pr stop oot (proxStage P pr stop s)).1
            (headStep P pr stop oot (proxStage P pr stop s)).2.1).curr.gamma =
            (headStep P pr stop oot (proxStage P pr stop s)).1.curr.gamma := by
          unfold advance; cases hf : fixedLip pr <;> simp [evalPsiGradPsi, evalGradPsi]
        rw [e4, (headStep_curr P pr stop oot _).1]
        exact proxStage_gamma_pos P pr stop s hs.2)
      (pr.maxIter + 2) s0 ⟨hg0, hγ0⟩ (by rw [hk.1]; omega) (by omega)
    rw [hr]
    have hhc := headStep_curr P pr stop oot (proxStage P pr stop s)
    have hkeep := proxStage_keeps P pr stop s
    have hgood := proxStage_good P pr stop s
    have hgh := proxStage_gradHat P pr stop s
    have hγc := proxStage_gamma_pos P pr stop s hγ
    have hcons : C06.Consistent PC (proxStage P pr stop s).curr.gamma (proxStage P pr stop s).curr.p
        (proxStage P pr stop s).curr.x (proxStage P pr stop s).curr.xhat (proxStage P pr stop s).curr.gradPsi := by
      have h1 := hP (proxStage P pr stop s).curr.gamma (proxStage P pr stop s).curr.x
        (proxStage P pr stop s).curr.gradPsi
      simp only [Prod.mk.injEq] at h1
      constructor
      · rw [hgood.1.2.1]; exact h1.1
      · rw [hgood.1.2.2, h1.2, hgood.1.2.1, h1.1]
    refine ⟨(proxStage P pr stop s).curr, ?_, hγc, ?_, hcons.hxh, hcons.hp, ?_, ?_, ?_⟩
    · unfold exitBlock
      simp only [List.getLast?_reverse, List.head?_cons, Option.map_some, hhc.1]
    · rw [hkeep.1, hkeep.2]; exact hg
    · intro hn
      refine ⟨hgood.2 ?_, hgh hn⟩
      have : needGradHat pr = true := hn
      simp [this]
    · rw [(exitBlock_fields P pr _ _ _ x0 y Sig errz0).2.2.2.1]
      have e1 : (headStep P pr stop oot (proxStage P pr stop s)).2.1 = epsOf P pr (proxStage P pr stop s).curr := by
        unfold headStep; rfl
      rw [e1]
      unfold epsOf
      exact C06.calcErrorStopCrit_eq_doc hnn PC _ hP pr.stopCrit _ hγc.ne' _ _ _ _ _ _ hcons
    · intro hw
      unfold exitBlock at hw ⊢
      simp only [] at hw ⊢
      rw [if_pos hw, hhc.1]
      split_ifs <;> rfl

end field

/-! ### Non-vacuity of `fista_eps_is_documented`: ψ = ½‖x‖² on the box `[-1, 1]²`, criterion `ApproxKKT` -/
section doc_example
local instance instRealLikeRatC06Fd : RealLike ℚ := ⟨id, fun _ => false, fun _ => true⟩

def boxPC (v : Vec ℚ) : Vec ℚ := v.map fun a => min (max a (-1)) 1

def boxP : Problem ℚ :=
  { psiGradPsi := fun x => (sqNorm x / 2, x, []), psi := fun x => (sqNorm x / 2, [3]), gradPsi := fun x => x,
    gradL := fun x _ => x,
    prox := fun γ x g => (0, boxPC (vsub x (smul γ g)), vsub (boxPC (vsub x (smul γ g))) x) }

def boxPr : Params ℚ :=
  { L0 := 2, lipEps := 0, lipDelta := 0, LgammaFactor := 19/20, maxIter := 4, Lmin := 1/100, Lmax := 64,
    stopCrit := .ApproxKKT, maxNoProgress := 10, qubTol := 0, disableAcceleration := false,
    alwaysOverwrite := true, tolerance := 1/100000, qubFuel := 64 }

/-- the run: four accelerated iterations from `x₀ = (3, −½)`, `MaxIter`, the written-back `x` is the `x̂` of
    the final callback and `ε = ‖γ⁻¹(x − x̂) + ∇ψ(x̂) − ∇ψ(x)‖∞` of its data -/
example : (run boxP boxPr (fun _ => false) false [3, -1/2] [1] [2] [0] [] 0 0).stats.status = .MaxIter ∧
    (run boxP boxPr (fun _ => false) false [3, -1/2] [1] [2] [0] [] 0 0).stats.iterations = 4 ∧
    (run boxP boxPr (fun _ => false) false [3, -1/2] [1] [2] [0] [] 0 0).fuelOut = false := by
  decide +kernel

example : ∃ c : Iterate ℚ,
    ((run boxP boxPr (fun _ => false) false [3, -1/2] [1] [2] [0] [] 0 0).callbacks.getLast?).map (·.it) = some c ∧
    0 < c.gamma ∧ c.xhat = boxPC (vsub c.x (smul c.gamma c.gradPsi)) ∧
    (run boxP boxPr (fun _ => false) false [3, -1/2] [1] [2] [0] [] 0 0).stats.eps =
      C06.docCrit boxPC .ApproxKKT c.gamma c.x c.xhat c.yhat c.gradPsi c.gradPsiHat := by
  have hE := (fista_run_cases boxP boxPr (fun _ => false) false [3, -1/2] [1] [2] [0] [] 0 0).resolve_left
    (fun h => absurd h.2.2.2.2.2.2 (by decide +kernel))
  obtain ⟨c, h1, h2, _, h4, _, _, h7, _⟩ := fista_eps_is_documented (fun _ => rfl) boxPC boxP
    (fun _ _ _ => rfl) boxPr (by norm_num [boxPr]) 13
    ⟨by norm_num [boxPr], by norm_num [boxPr], by norm_num [boxPr], fun _ _ => by norm_num [boxPr],
      by norm_num [boxPr]⟩
    (fun _ => false) false [3, -1/2] [1] [2] [0] [] 0 0 hE
  exact ⟨c, h1, h2, h4, h7⟩

end doc_example

end Alpaqa.Props.C06_Fista
