/-
  C06 (FISTA) — Exit status, iteration count and reported residual mean what is documented.

  Loop-level facts for the FISTA model (`Alpaqa/Model/Fista.lean`): the iteration count never
  exceeds `max_iter`; the returned status is the translator-generated chain
  (`check_all_stop_conditions`) evaluated at the *last loop head*; the returned ε is the generated
  stopping criterion (`calc_error_stop_crit`) of the iterate that was current there, which is also
  the iterate handed to the final callback; the callbacks are numbered 0 … iterations.
  Combined with the chain theorems of `Props/C06.lean` this gives `Converged ↔ ε ≤ tol'`,
  `MaxIter → iterations = max_iter`, … for FISTA.  All oracles, stop schedules, budgets, carriers.
-/
import Alpaqa.Proofs.FistaInv
import Alpaqa.Props.C03_Fista
import Alpaqa.Props.C06

namespace Alpaqa.Props.C06_Fista
open Alpaqa Alpaqa.Fista Alpaqa.Gen Alpaqa.Props.C03_Fista
set_option linter.unusedSectionVars false

variable {α : Type} [Add α] [Sub α] [Mul α] [Div α] [Neg α] [LT α] [LE α] [DecidableLT α]
  [DecidableLE α] [BEq α] [RealLike α] [NatCast α] [OfScientific α]
  [OfNat α 0] [OfNat α 1] [OfNat α 2] [OfNat α 4] [OfNat α 100]

/-- **iterations ≤ max_iter**, for all oracles, stop schedules and budgets (0 included). -/
theorem fista_iterations_le_max_iter (P : Problem α) (pr : Params α) (stop : Nat → Bool) (oot : Bool)
    (x0 y Sig errz0 gV : Vec α) (nan inf : α) :
    (run P pr stop oot x0 y Sig errz0 gV nan inf).stats.iterations ≤ pr.maxIter := by
  rcases fista_run_cases P pr stop oot x0 y Sig errz0 gV nan inf with h | h
  · rw [h.2.2.2.2.2.1]; exact Nat.zero_le _
  · obtain ⟨s, hk, _, _, hr⟩ := h
    rw [hr, (exitBlock_fields P pr _ _ _ x0 y Sig errz0).2.2.1, (headStep_curr P pr stop oot _).2.1,
      (proxStage_k P pr stop s).1]
    exact hk

/-- **Status and ε come from the last loop head**: there is a loop state `s` (the state at the top
    of the last pass) such that, with `c` the iterate after that pass's prox / backtracking stage,
    * `iterations = s.k`,
    * `ε = calc_error_stop_crit(stop_crit, c)` (generated criterion of the final iterate),
    * `status = check_all_stop_conditions(…, s.k, ε, no_progress, out_of_time, stop flag)`
      (generated chain) and is not `Busy`,
    * the last callback reports exactly `(s.k, status, c, t, ε)`,
    * `final_γ = c.γ`, `final_h = c.h(x̂)`. -/
theorem fista_result_at_last_head (P : Problem α) (pr : Params α) (stop : Nat → Bool) (oot : Bool)
    (x0 y Sig errz0 gV : Vec α) (nan inf : α)
    (h : EndsAt P pr stop oot x0 y Sig errz0 (run P pr stop oot x0 y Sig errz0 gV nan inf)) :
    ∃ (s : St α) (np tick : Nat),
      (run P pr stop oot x0 y Sig errz0 gV nan inf).stats.iterations = s.k ∧
      (run P pr stop oot x0 y Sig errz0 gV nan inf).stats.eps = epsOf P pr (proxStage P pr stop s).curr ∧
      (run P pr stop oot x0 y Sig errz0 gV nan inf).stats.status =
        statusChain pr.tolerance pr.maxIter pr.maxNoProgress s.k (epsOf P pr (proxStage P pr stop s).curr)
          np oot (stop tick) ∧
      (run P pr stop oot x0 y Sig errz0 gV nan inf).stats.status ≠ .Busy ∧
      (run P pr stop oot x0 y Sig errz0 gV nan inf).callbacks.getLast? =
        some { k := s.k, status := (run P pr stop oot x0 y Sig errz0 gV nan inf).stats.status,
               it := (proxStage P pr stop s).curr, fbe := (proxStage P pr stop s).curr.fbe, t := s.t,
               eps := (run P pr stop oot x0 y Sig errz0 gV nan inf).stats.eps } ∧
      (run P pr stop oot x0 y Sig errz0 gV nan inf).callbacks.length = s.k + 1 ∧
      (run P pr stop oot x0 y Sig errz0 gV nan inf).stats.finalGamma = (proxStage P pr stop s).curr.gamma ∧
      (run P pr stop oot x0 y Sig errz0 gV nan inf).stats.finalH = (proxStage P pr stop s).curr.hxhat := by
  obtain ⟨s, hk, hcbs, hst, hr⟩ := h
  refine ⟨s, noProgressUpdate (proxStage P pr stop s).noProgress (proxStage P pr stop s).k pr.maxNoProgress
    ((proxStage P pr stop s).curr.xhat == (proxStage P pr stop s).prev),
    (proxStage P pr stop s).tick + epsTicks pr.stopCrit, ?_⟩
  rw [hr]
  have hpk := proxStage_k P pr stop s
  unfold exitBlock
  simp only []
  refine ⟨?_, ?_, ?_, ?_, ?_, ?_, ?_, ?_⟩
  · unfold headStep; simp only [hpk.1]
  · unfold headStep; simp only []
  · unfold headStep statusOf; simp only [hpk.1]
  · exact hst
  · unfold headStep; simp only [List.getLast?_reverse, List.head?_cons, hpk.1, hpk.2.2]
  · unfold headStep; simp only [List.length_reverse, List.length_cons, hpk.2.1, hcbs]
  · unfold headStep; simp only []; split_ifs <;> rfl
  · unfold headStep; simp only []; split_ifs <;> rfl

/-- **ε is computed from data of the final iterate only**: at every loop head (in particular the
    last one) the `∇ψ(x̂)` that the criteria ApproxKKT / ApproxKKT2 / Ipopt read is the `eval_grad_L`
    oracle's answer at the iterate's *own* `x̂`, `ŷ(x̂)` — also after step-size backtracking
    (in the source this is `eval_grad_ψx̂` placed after the quadratic-upper-bound loop; before the
    repair it preceded the loop and ε was computed from ∇ψ of a rejected `x̂`). -/
theorem fista_eps_fresh_gradient (P : Problem α) (pr : Params α) (stop : Nat → Bool) (s : St α)
    (hn : requiresGradHat pr.stopCrit = true) :
    (proxStage P pr stop s).curr.gradPsiHat
        = P.gradL (proxStage P pr stop s).curr.xhat (proxStage P pr stop s).curr.yhat ∧
    (proxStage P pr stop s).curr.yhat = (P.psi (proxStage P pr stop s).curr.xhat).2 := by
  refine ⟨proxStage_gradHat P pr stop s hn, (proxStage_good P pr stop s).2 ?_⟩
  have : needGradHat pr = true := hn
  simp [this]

/-! ### Consequences of the generated chain (`Props/C06`) for FISTA's returned status -/

/-- `Converged` is returned exactly when the returned ε meets the (effective) tolerance. -/
theorem fista_converged_iff (P : Problem α) (pr : Params α) (stop : Nat → Bool) (oot : Bool)
    (x0 y Sig errz0 gV : Vec α) (nan inf : α)
    (h : EndsAt P pr stop oot x0 y Sig errz0 (run P pr stop oot x0 y Sig errz0 gV nan inf)) :
    (run P pr stop oot x0 y Sig errz0 gV nan inf).stats.status = .Converged ↔
      (run P pr stop oot x0 y Sig errz0 gV nan inf).stats.eps ≤ C06.effTol pr.tolerance := by
  obtain ⟨s, np, tick, _, he, hs, _⟩ := fista_result_at_last_head P pr stop oot x0 y Sig errz0 gV nan inf h
  rw [hs, he]
  exact C06.converged_iff _ _ _ _ _ _ _ _

/-- `MaxIter` only with `iterations = max_iter`. -/
theorem fista_maxIter_only_if (P : Problem α) (pr : Params α) (stop : Nat → Bool) (oot : Bool)
    (x0 y Sig errz0 gV : Vec α) (nan inf : α)
    (h : EndsAt P pr stop oot x0 y Sig errz0 (run P pr stop oot x0 y Sig errz0 gV nan inf))
    (hm : (run P pr stop oot x0 y Sig errz0 gV nan inf).stats.status = .MaxIter) :
    (run P pr stop oot x0 y Sig errz0 gV nan inf).stats.iterations = pr.maxIter := by
  obtain ⟨s, np, tick, hi, _, hs, _⟩ := fista_result_at_last_head P pr stop oot x0 y Sig errz0 gV nan inf h
  rw [hi]; rw [hs] at hm
  exact C06.maxIter_only_if _ _ _ _ _ _ _ _ hm

/-- `NotFinite` (from the loop) only with a non-finite ε; `Interrupted` only after a stop request
    that was visible at the deciding check; `MaxTime` only when out of time. -/
theorem fista_status_only_if (P : Problem α) (pr : Params α) (stop : Nat → Bool) (oot : Bool)
    (x0 y Sig errz0 gV : Vec α) (nan inf : α)
    (h : EndsAt P pr stop oot x0 y Sig errz0 (run P pr stop oot x0 y Sig errz0 gV nan inf)) :
    ((run P pr stop oot x0 y Sig errz0 gV nan inf).stats.status = .NotFinite →
      RealLike.isFinite (run P pr stop oot x0 y Sig errz0 gV nan inf).stats.eps = false) ∧
    ((run P pr stop oot x0 y Sig errz0 gV nan inf).stats.status = .Interrupted →
      ∃ tick, stop tick = true) ∧
    ((run P pr stop oot x0 y Sig errz0 gV nan inf).stats.status = .MaxTime → oot = true) ∧
    (run P pr stop oot x0 y Sig errz0 gV nan inf).stats.status ≠ .Exception := by
  obtain ⟨s, np, tick, _, he, hs, _⟩ := fista_result_at_last_head P pr stop oot x0 y Sig errz0 gV nan inf h
  rw [hs, he]
  exact ⟨C06.notFinite_only_if _ _ _ _ _ _ _ _, fun hh => ⟨tick, C06.interrupted_only_if _ _ _ _ _ _ _ _ hh⟩,
    C06.maxTime_only_if _ _ _ _ _ _ _ _, C06.never_exception _ _ _ _ _ _ _ _⟩

/-! ### Non-vacuity (the concrete run of `Props/C03_Fista`) -/

local instance instRealLikeRatC06F : RealLike ℚ := ⟨id, fun _ => false, fun _ => true⟩

example : (run exP exPr (fun _ => false) false [2] [1] [2] [0] [] 0 0).stats.status = .Converged ∧
    (run exP exPr (fun _ => false) false [2] [1] [2] [0] [] 0 0).stats.iterations = 0 ∧
    (run exP exPr (fun _ => false) false [2] [1] [2] [0] [] 0 0).stats.eps = 0 := by
  decide +kernel

/-- a budget of 0 iterations with an unmet tolerance: `MaxIter`, 0 iterations, one callback, and
    (no `always_overwrite_results`) the caller's x, y untouched. -/
def exP2 : Problem ℚ := { exP with prox := fun _ _ _ => (0, [1/2], [1]) }

example : (run exP2 { exPr with maxIter := 0, tolerance := 1/1000, alwaysOverwrite := false }
      (fun _ => false) false [2] [1] [2] [0] [] 0 0).stats.status = .MaxIter ∧
    (run exP2 { exPr with maxIter := 0, tolerance := 1/1000, alwaysOverwrite := false }
      (fun _ => false) false [2] [1] [2] [0] [] 0 0).callbacks.length = 1 ∧
    (run exP2 { exPr with maxIter := 0, tolerance := 1/1000, alwaysOverwrite := false }
      (fun _ => false) false [2] [1] [2] [0] [] 0 0).x = [2] := by
  decide +kernel

/-- two iterations, then `MaxIter`. -/
example : (run exP2 { exPr with maxIter := 2, tolerance := 1/1000 }
      (fun _ => false) false [2] [1] [2] [0] [] 0 0).stats.iterations = 2 := by
  decide +kernel

end Alpaqa.Props.C06_Fista
