/-
  C20 — coverage of the generated tables, and capability flags restated against them.

  The table theorems of `Props/C20.lean` have the form `∀ e ∈ table, good e`: deleting a line of the
  C++ (a forwarding member, a `provides_` member, a field of the C header, a vtable member) removes
  the entry and leaves them true.  The theorems of this file close that gap.  They compare lists
  that `gen/gen_c20.py` reads from *different* source texts, independently of one another:

    abiNLP / abiOCP, abiNLPData / abiOCPData   fields of the two structs in dl-problem.h
    dlNLP / dlOCP .fwd .prov .init .dataReads  member definitions in dl-problem.cpp (+ inline getters)
    dlNLP / dlOCP .declared                    member declarations in dl-problem.hpp
    nlpVtFields / ocpVtFields                  function members *declared* by the vtable structs
    nlpTE / ocpTE .entries                     `ALPAQA_TE_*_METHOD` lines of the vtable constructors
    nlpTEMembers / ocpTEMembers                member functions declared by the type-erased classes
    nlpTEDispatch / ocpTEDispatch              their definitions `call(vtable.entry, args)`
    nlpWrapper / ocpWrapper / functional       the counting wrappers, FunctionalProblem
    boxConstrDeclared                          members of BoxConstrProblem

  and demand: every field / entry is handled *exactly once*, or is listed **by name with the reason**
  in one of the hand tables below (so a new, deleted or duplicated line breaks a theorem).
-/
import Alpaqa.Props.C20

namespace Alpaqa.Props.C20
open Alpaqa.C20 Alpaqa.Gen.C20

/-! ## Hand tables: what is legitimately not forwarded 1:1 (name, reason) -/

/-- function-pointer fields of `alpaqa_problem_functions_t` that no `DLProblem::X` forwards -/
def abiNotForwardedNLP : List (String × String) :=
  [("initialize_box_C", "called once by DLProblem's constructor (when non-null) to fill BoxConstrProblem::C; not an evaluation function, no vtable entry"),
   ("initialize_box_D", "called once by DLProblem's constructor (when non-null) to fill BoxConstrProblem::D"),
   ("initialize_l1_reg", "called by DLProblem's constructor (size query with nullptr, then fill) to set BoxConstrProblem::l1_reg")]

/-- every function-pointer field of `alpaqa_control_problem_functions_t` is forwarded -/
def abiNotForwardedOCP : List (String × String) := []

/-- entries of `ProblemVTable` that `DLProblem` does not forward to a table member of the same name -/
def vtNotForwardedNLP : List (String × String) :=
  [("get_box_C", "inherited from BoxConstrProblem (the box is filled by initialize_box_C); DLProblem::provides_get_box_C is a composite test (dl_provides_tests_called)"),
   ("get_box_D", "inherited from BoxConstrProblem (filled by initialize_box_D); DLProblem::provides_get_box_D tests eval_proj_diff_g == nullptr"),
   ("check", "inherited from BoxConstrProblem"),
   ("get_name", "DLProblem::get_name returns the table's *data* member `name` (file name when null), see abi_data_fields_read")]

/-- entries of `ControlProblemVTable` that `DLControlProblem` does not forward to a table member -/
def vtNotForwardedOCP : List (String × String) :=
  [("check", "DLControlProblem::check is defined inline in dl-problem.hpp with an EMPTY body (theorem dl_check_bodies in Props/C20_Proj.lean: the exemption breaks when a body appears); the C ABI has no member for it, nothing is validated"),
   ("eval_proj_diff_g", "implemented by DLControlProblem itself (dlOCP.own): z − Π(z) on the stage set D (N times) and the terminal set D_N, the boxes being queried from the plug-in (get_D / get_D_N) when it is loaded; the C ABI has no member for it; what it computes: Props/C20_Proj.lean (dl_ocp_projection_description, dlocpProjDiff_stagewise, project_spec)"),
   ("eval_proj_multipliers", "implemented by DLControlProblem itself (dlOCP.own): BoxConstrProblem::eval_proj_multipliers_box per stage on D and on D_N; the C ABI has no member for it; Props/C20_Proj.lean (dlocpProjMult_stagewise, multiplier_spec)")]

/-- public members of the type-erased classes that are not vtable entries -/
def teOtherMembersNLP : List (String × String) :=
  [("make", "static factory"), ("get_n", "reads vtable.n"), ("get_m", "reads vtable.m"),
   ("supports_eval_hess_ψ_prod", "provides_… || (m == 0 && provides_eval_hess_L_prod), see vtable_tables_match_model"),
   ("supports_eval_hess_ψ", "provides_… || (m == 0 && provides_eval_hess_L)"),
   ("calc_ŷ_dᵀŷ", "helper of the default ψ implementations (C04), static vtable function")]

def teOtherMembersOCP : List (String × String) :=
  [("make", "static factory"), ("get_N", "reads vtable.N"), ("get_nu", "reads vtable.nu"), ("get_nx", "reads vtable.nx"),
   ("get_nh", "reads vtable.nh"), ("get_nh_N", "reads vtable.nh_N"), ("get_nc", "reads vtable.nc"),
   ("get_nc_N", "reads vtable.nc_N"), ("get_dim", "dimension getter macro"), ("get_n", "N·nu"), ("get_m", "N·nc + nc_N")]

/-- members declared by the loader classes (dl-problem.hpp) that are neither forwarding methods nor
    `provides_` members -/
def dlOtherDeclaredNLP : List (String × String) :=
  [("get_name", "reads the data member `name`"), ("call_extra_func", "extra-function dictionary (not part of C20)")]

def dlOtherDeclaredOCP : List (String × String) :=
  [("get_N", "reads data member N"), ("get_nx", "reads nx"), ("get_nu", "reads nu"), ("get_nh", "reads nh"),
   ("get_nh_N", "reads nh_N"), ("get_nc", "reads nc"), ("get_nc_N", "reads nc_N"),
   ("check", "inline, empty body"), ("eval_proj_diff_g", "own implementation, see vtNotForwardedOCP"),
   ("eval_proj_multipliers", "own implementation, see vtNotForwardedOCP"),
   ("call_extra_func", "extra-function dictionary (not part of C20)")]

/-- forwarding methods of the counting wrappers that are not vtable entries (dimension getters) -/
def wrapperDimsNLP : List String := ["get_n", "get_m"]
def wrapperDimsOCP : List String := ["get_N", "get_nu", "get_nx", "get_nh", "get_nh_N", "get_nc", "get_nc_N"]

/-! ## 1. The C header: every field handled exactly once -/

/-- no field of the two function tables is declared twice -/
theorem abi_fields_unique :
    nodupS (abiNLP.map (·.name) ++ abiNLPData) = true ∧
    nodupS (abiOCP.map (·.name) ++ abiOCPData) = true := by decide

/-- every function-pointer field is the member called by exactly one forwarding definition and by
    no constructor call — or it is in the exemption list, is called by no forwarding definition and
    by a guarded constructor call; exemptions name existing fields; nothing outside the struct is
    called -/
def abiCovered (abi : List AbiMember) (t : DLTable) (exempt : List String) : Bool :=
  abi.all (fun a =>
    if exempt.contains a.name then
      countS (t.fwd.map (·.member)) a.name == 0 && t.init.any (fun i => i.member == a.name && i.guarded)
    else
      countS (t.fwd.map (·.member)) a.name == 1 && !t.init.any (·.member == a.name)) &&
  exempt.all (fun x => abi.any (·.name == x)) &&
  t.fwd.all (fun e => abi.any (·.name == e.member)) &&
  t.init.all (fun e => abi.any (·.name == e.member))

theorem abi_fields_forwarded_once :
    abiCovered abiNLP dlNLP (abiNotForwardedNLP.map (·.1)) = true ∧
    abiCovered abiOCP dlOCP (abiNotForwardedOCP.map (·.1)) = true := by decide

/-- quantified reading for the OCP table (no exemptions): each function pointer of
    `alpaqa_control_problem_functions_t` is called by exactly one `DLControlProblem` method -/
theorem abi_field_forwarded_ocp (a : AbiMember) (ha : a ∈ abiOCP) :
    countS (dlOCP.fwd.map (·.member)) a.name = 1 := by
  have h := abi_fields_forwarded_once.2
  simp only [abiCovered, Bool.and_eq_true, List.all_eq_true] at h
  have := h.1.1.1 a ha
  simp only [abiNotForwardedOCP, List.map_nil, List.contains_nil, Bool.false_eq_true, if_false,
    Bool.and_eq_true, beq_iff_eq] at this
  exact this.1

theorem abi_field_forwarded_nlp (a : AbiMember) (ha : a ∈ abiNLP)
    (hx : a.name ∉ abiNotForwardedNLP.map (·.1)) :
    countS (dlNLP.fwd.map (·.member)) a.name = 1 := by
  have h := abi_fields_forwarded_once.1
  simp only [abiCovered, Bool.and_eq_true, List.all_eq_true] at h
  have h1 := h.1.1.1 a ha
  have hc : (abiNotForwardedNLP.map (·.1)).contains a.name = false := by
    simpa using hx
  rw [hc] at h1
  simp only [Bool.false_eq_true, if_false, Bool.and_eq_true, beq_iff_eq] at h1
  exact h1.1

example : (⟨"eval_constr_N", "void", [("void *", "instance"), ("const alpaqa_real_t *", "x"), ("alpaqa_real_t *", "c")], true⟩ : AbiMember) ∈ abiOCP ∧
    countS (dlOCP.fwd.map (·.member)) "eval_constr_N" = 1 := by decide

example : (abiNLP.find? (·.name == "eval_hess_ψ_prod")).isSome = true ∧
    "eval_hess_ψ_prod" ∉ abiNotForwardedNLP.map (·.1) ∧
    countS (dlNLP.fwd.map (·.member)) "eval_hess_ψ_prod" = 1 := by decide

/-- every *data* field of the tables is read exactly once, by the reader named after it
    (`this->n = functions->n`, `get_name`, `get_N() { return functions->N; }` …) -/
def dataCovered (data : List String) (t : DLTable) : Bool :=
  data.all (fun d => countS (t.dataReads.map (·.2)) d == 1) &&
  t.dataReads.all (fun r => data.contains r.2 &&
    (r.1 == "<ctor>:" ++ r.2 || (r.1 == "get_" ++ r.2 && t.declared.contains r.1)))

theorem abi_data_fields_read :
    dataCovered abiNLPData dlNLP = true ∧ dataCovered abiOCPData dlOCP = true := by decide

/-! ## 2. The vtables: declared members = constructor lines = public interface = dispatch -/

/-- the struct's declared function members and the constructor's `ALPAQA_TE_*_METHOD` lines are the
    same set with the same required / optional kind, each once; every optional member is
    initialised with `default_<name>`; the class declares a member function of that name (and
    `provides_<name>` for the optional ones), defined as `call(vtable.<name>, <own parameters>)`;
    every other public member is in the hand list `other` -/
def vtListsAgree (fs : List VtField) (te : TETable) (members : List String) (disp : List TEDispatch)
    (other : List String) : Bool :=
  nodupS (fs.map (·.name)) && nodupS (te.entries.map (·.name)) &&
  fs.all (fun f => match te.find f.name with
    | some e => e.required == !f.optional &&
        (if f.optional then f.init == some ("default_" ++ f.name) else f.init == none)
    | none => false) &&
  te.entries.all (fun e => fs.any (·.name == e.name) && countS members e.name == 1 &&
    (e.required || countS members ("provides_" ++ e.name) == 1) &&
    disp.any (·.method == e.name)) &&
  disp.all (fun d => d.entry == d.method && d.args == d.params &&
    (other.contains d.entry ||
      (match te.find d.entry with | some e => e.params.length == d.params.length | none => false))) &&
  members.all (fun m => other.contains m || te.entries.any (fun e => e.name == m) ||
    te.entries.any (fun e => !e.required && "provides_" ++ e.name == m)) &&
  other.all (fun m => members.contains m)

theorem vtable_lists_agree :
    vtListsAgree nlpVtFields nlpTE nlpTEMembers nlpTEDispatch (teOtherMembersNLP.map (·.1)) = true ∧
    vtListsAgree ocpVtFields ocpTE ocpTEMembers ocpTEDispatch (teOtherMembersOCP.map (·.1)) = true := by
  decide

/-- The two macros that fill a vtable entry, as text (white space normalised).  `Native.provided`
    (`has f && (!hasProv f || provVal f)`) and the first line of `resolveNLP` / `resolveOCP`
    (`if P f then own member else default`) are the hand model of exactly this text: the entry is
    assigned iff the member exists and (`provides_member` does not exist or returns true); otherwise
    the default member initialiser (`default_<name>`, see `vtable_lists_agree`) stays installed. -/
theorem te_macros_as_modelled :
    teRequiredMacro = "vtable,type,member :: do { static_assert( requires { &type::member; }, \"Missing required method '\" #type \"::\" #member \"'\"); (vtable).member = util::type_erased_wrapped<type, &type::member>(); } while (0)" ∧
    teOptionalMacro = "vtable,type,member,instance :: do { if constexpr (requires { &type::member; }) { using vtable_t = std::remove_cvref_t<decltype(vtable)>; auto assign_vtable = [&] { (vtable).member = util::type_erased_wrapped<type, &type::member, const vtable_t &>(); }; if constexpr (requires { &type::provides_##member; }) { if (std::invoke(&type::provides_##member, instance)) assign_vtable(); } else { assign_vtable(); } } } while (0)" :=
  ⟨rfl, rfl⟩

/-! ## 3. The wrappers and loaders cover every vtable entry exactly once -/

/-- counting wrapper: every vtable entry has exactly one forwarding method, every optional one
    exactly one `provides_` forward; no `provides_` forward for anything else; every other
    forwarding method is a dimension getter -/
def wrapperCoversOnce (t : WrapperTable) (te : TETable) (dims : List String) : Bool :=
  te.entries.all (fun e => countS (t.fwd.map (·.method)) e.name == 1 &&
    countS (t.prov.map (·.method)) e.name == (if e.required then 0 else 1)) &&
  t.prov.all (fun p => te.entries.any (fun e => e.name == p.method && !e.required)) &&
  t.fwd.all (fun f => te.entries.any (·.name == f.method) || dims.contains f.method) &&
  nodupS (t.fwd.map (·.method)) && dims.all (fun d => t.fwd.any (·.method == d))

theorem wrapper_covers_vtable_once :
    wrapperCoversOnce nlpWrapper nlpTE wrapperDimsNLP = true ∧
    wrapperCoversOnce ocpWrapper ocpTE wrapperDimsOCP = true := by decide

/-- `FunctionalProblem`: every *required* vtable entry is defined by the class itself or inherited
    from `BoxConstrProblem`; every function object is called by exactly one `eval_` method; the
    optional entries it defines are exactly those with a `provides_` test plus what the base class
    declares (all the others get the vtable defaults) -/
theorem functional_covers_vtable :
    (nlpTE.entries.filter (·.required)).all (fun e =>
      (countS (functional.fwd.map (·.method)) e.name == 1) != boxConstrDeclared.contains e.name) = true ∧
    functional.counterFields.all (fun fn => countS (functional.fwd.map (·.callee)) fn == 1) = true ∧
    nodupS (functional.fwd.map (·.method)) = true ∧
    functional.fwd.all (fun f => nlpTE.entries.any (·.name == f.method)) = true ∧
    functional.fwd.all (fun f => match nlpTE.find f.method with
      | some e => e.required || countS (functional.prov.map (·.method)) f.method == 1
      | none => false) = true ∧
    functional.prov.all (fun p => countS (functional.fwd.map (·.method)) p.method == 1) = true := by
  decide

/-- C-ABI loader vs. vtable: every entry is forwarded by exactly one definition (declared once in
    dl-problem.hpp, with the vtable's parameter list) — or it is in `exempt` and supplied by the
    class itself / its base class without a table member; nothing but vtable entries is
    forwarded; every member that dl-problem.cpp implements without the plug-in's table (`own`) is
    an exempted vtable entry, declared once -/
def dlCoversVtable (t : DLTable) (te : TETable) (inherited exempt : List String) : Bool :=
  te.entries.all (fun e =>
    let k := countS (t.fwd.map (·.method)) e.name
    if exempt.contains e.name then
      k == 0 && (t.declared.contains e.name || inherited.contains e.name)
    else
      k == 1 && countS t.declared e.name == 1 &&
      (match t.fwd.find? (·.method == e.name) with
       | some f => f.params == e.params
       | none => false)) &&
  t.fwd.all (fun f => te.entries.any (·.name == f.method)) &&
  exempt.all (fun x => te.entries.any (·.name == x)) &&
  t.own.all (fun x => exempt.contains x && countS t.declared x == 1) && nodupS t.own

theorem dl_covers_vtable :
    dlCoversVtable dlNLP nlpTE boxConstrDeclared (vtNotForwardedNLP.map (·.1)) = true ∧
    dlCoversVtable dlOCP ocpTE [] (vtNotForwardedOCP.map (·.1)) = true := by
  decide

/-- former finding F8: `DLControlProblem` now supplies the two required projections itself -/
theorem F8_fixed_dl_ocp_own_projections :
    dlOCP.own = ["eval_proj_diff_g", "eval_proj_multipliers"] ∧ dlNLP.own = [] ∧
    (ocpTE.entries.filter (·.required)).all (fun e => dlOCP.declared.contains e.name) = true := by decide

/-! ## 4. `provides_X` tests the member that `X` calls — for every optional entry -/

/-- the link between a forwarding definition `e` and the `provides_` definition of the same name:
    `e` is the only forwarding definition of `e.method`, there is exactly one `provides_e.method`,
    both are declared, and its body is `functions->M != nullptr` for the very member `M` that `e`
    calls -/
def dlLinked (t : DLTable) (e : DLFwd) : Bool :=
  t.fwd.find? (·.method == e.method) == some e &&
  countS (t.fwd.map (·.method)) e.method == 1 &&
  countS (t.prov.map (·.method)) e.method == 1 &&
  (t.prov.find? (·.method == e.method)).map (·.test) == some (.nonnull e.member) &&
  t.declared.contains e.method && t.declared.contains ("provides_" ++ e.method)

/-- every forwarded *optional* vtable entry is linked (unguarded ones) — `dev` = entries excluded by
    name, empty for both loaders; `provides_` members are defined once and exactly for the declared ones; every declared member
    is a forwarding method, a `provides_` member or in the hand list `other` -/
def dlOptionalLinked (t : DLTable) (te : TETable) (dev other : List String) : Bool :=
  t.fwd.all (fun e => match te.find e.method with
    | none => false
    | some v => v.required || e.guarded || dev.contains e.method || dlLinked t e) &&
  nodupS (t.prov.map (·.method)) &&
  t.prov.all (fun p => countS t.declared ("provides_" ++ p.method) == 1) &&
  t.declared.all (fun d => t.fwd.any (·.method == d) || t.prov.any (fun p => "provides_" ++ p.method == d) ||
    other.contains d) &&
  other.all (fun d => t.declared.contains d)

theorem dl_optional_linked :
    dlOptionalLinked dlNLP nlpTE [] (dlOtherDeclaredNLP.map (·.1)) = true ∧
    dlOptionalLinked dlOCP ocpTE [] (dlOtherDeclaredOCP.map (·.1)) = true := by decide

/-- former finding F9: there is no exemption any more — `eval_h` / `eval_h_N` are optional vtable
    entries, forwarded unguarded, and linked to `provides_eval_h` / `provides_eval_h_N` like every
    other optional entry of the OCP loader -/
theorem F9_fixed_dl_ocp_output_mapping_linked :
    ["eval_h", "eval_h_N"].all (fun f =>
      ocpTE.entries.any (fun e => e.name == f && !e.required) &&
      (match dlOCP.fwd.find? (·.method == f) with
       | some e => e.member == f && !e.guarded && dlLinked dlOCP e
       | none => false)) = true := by decide

/-- the one guarded optional entry (`eval_inactive_indices_res_lna`, falls back on
    BoxConstrProblem) has exactly one `provides_`, whose test mentions the member it calls -/
theorem dl_guarded_optional :
    dlNLP.fwd.all (fun e => !e.guarded ||
      (match nlpTE.find e.method with | some v => v.required | none => false) ||
      (countS (dlNLP.prov.map (·.method)) e.method == 1 &&
        (match dlNLP.prov.find? (·.method == e.method) with
         | some p => p.test.members.contains e.member
         | none => false))) = true ∧
    dlOCP.fwd.all (fun e => !e.guarded) = true := by decide

/-! ### What the link means: reported-provided ⇔ table member non-null ⇔ the call is not a null call -/

theorem dlLinked_sound (t : DLTable) (e : DLFwd) (h : dlLinked t e = true) (hg : e.guarded = false)
    (tbl : FnTable) (base : String → Bool) :
    (t.native tbl base).provided e.method = tbl e.member ∧
    (tbl e.member = true → t.pluginCalls tbl e.method = some [e.member]) ∧
    (tbl e.member = false → t.pluginCalls tbl e.method = none) := by
  unfold dlLinked at h
  simp only [Bool.and_eq_true, beq_iff_eq] at h
  obtain ⟨⟨⟨⟨⟨hf, _⟩, _⟩, hp⟩, hd⟩, _⟩ := h
  cases hq : t.prov.find? (·.method == e.method) with
  | none => simp [hq] at hp
  | some p =>
    simp only [hq, Option.map_some, Option.some.injEq] at hp
    have hany : t.prov.any (·.method == e.method) = true := by
      rw [List.any_eq_true]
      exact ⟨p, List.mem_of_find?_eq_some hq, by simpa using List.find?_some hq⟩
    have hd' : e.method ∈ t.declared := by simpa using hd
    refine ⟨?_, ?_, ?_⟩
    · simp [DLTable.native, Native.provided, hd', hany, hq, hp, PExpr.eval]
    · intro ht; simp [DLTable.pluginCalls, hf, hg, ht]
    · intro ht; simp [DLTable.pluginCalls, hf, hg, ht]

/-- non-vacuity: `eval_constr_N` of the OCP loader, a table that omits exactly that member -/
example :
    (dlOCP.fwd.find? (·.method == "eval_constr_N")).map (dlLinked dlOCP) = some true ∧
    (dlOCP.fwd.find? (·.method == "eval_constr_N")).map (·.guarded) = some false ∧
    (dlOCP.native (fun f => f != "eval_constr_N") (fun _ => true)).provided "eval_constr_N" = false ∧
    (dlOCP.native (fun _ => true) (fun _ => true)).provided "eval_constr_N" = true ∧
    dlOCP.pluginCalls (fun _ => true) "eval_constr_N" = some ["eval_constr_N"] := by decide

/-! ### The counting wrappers: flags transparent for every optional entry of the generated tables -/

theorem optional_entry_mem_nlp (e : TEEntry) (he : e ∈ nlpTE.entries) (ho : e.required = false) :
    e.name ∈ nlpOptional := by
  have h1 : e.name ∈ nlpAll := by
    rw [← vtable_tables_match_model.1]; exact List.mem_map_of_mem he
  have h2 := vtable_tables_match_model.2.1
  rw [List.all_eq_true] at h2
  have h3 := h2 e he
  simp only [ho, Bool.and_eq_true, beq_iff_eq] at h3
  have h4 : e.name ∉ nlpRequired := by
    intro hc
    have : nlpRequired.contains e.name = true := by simpa using hc
    rw [this] at h3; exact absurd h3.1 (by decide)
  simp only [nlpAll, List.mem_append] at h1
  exact h1.resolve_left h4

theorem optional_entry_mem_ocp (e : TEEntry) (he : e ∈ ocpTE.entries) (ho : e.required = false) :
    e.name ∈ ocpOptional := by
  have h1 : e.name ∈ ocpAll := by
    rw [← vtable_tables_match_model.2.2.2.1]; exact List.mem_map_of_mem he
  have h2 := vtable_tables_match_model.2.2.2.2.1
  rw [List.all_eq_true] at h2
  have h3 := h2 e he
  simp only [ho, Bool.and_eq_true, beq_iff_eq] at h3
  have h4 : e.name ∉ ocpRequired := by
    intro hc
    have : ocpRequired.contains e.name = true := by simpa using hc
    rw [this] at h3; exact absurd h3.1 (by decide)
  simp only [ocpAll, List.mem_append] at h1
  exact h1.resolve_left h4

/-- capability flags seen through `ProblemWithCounters` / `ControlProblemWithCounters` equal those
    of the wrapped class, for every optional entry of the *generated* vtable tables -/
theorem wrap_transparent_generated (n : Native) :
    (∀ e ∈ nlpTE.entries, e.required = false → (nlpWrapper.wrap n).provided e.name = n.provided e.name) ∧
    (∀ e ∈ ocpTE.entries, e.required = false → (ocpWrapper.wrap n).provided e.name = n.provided e.name) :=
  ⟨fun e he ho => wrap_transparent_nlp n e.name (optional_entry_mem_nlp e he ho),
   fun e he ho => wrap_transparent_ocp n e.name (optional_entry_mem_ocp e he ho)⟩

example : (nlpTE.find "eval_grad_gi").map (·.required) = some false ∧
    (nlpWrapper.wrap ⟨fun _ => true, fun f => f == "eval_grad_gi", fun _ => false⟩).provided "eval_grad_gi" = false ∧
    (nlpWrapper.wrap ⟨fun _ => true, fun _ => false, fun _ => false⟩).provided "eval_grad_gi" = true ∧
    (ocpTE.find "eval_h").map (·.required) = some false ∧
    (ocpWrapper.wrap ⟨fun _ => true, fun f => f == "eval_h", fun _ => false⟩).provided "eval_h" = false ∧
    (ocpWrapper.wrap ⟨fun f => f != "eval_h", fun _ => false, fun _ => false⟩).provided "eval_h" = false ∧
    (ocpWrapper.wrap ⟨fun _ => true, fun _ => false, fun _ => false⟩).provided "eval_h" = true := by decide

/-! ## 5. `flags_truthful` restated against the generated tables

  `Props/C20.lean` proves `flags_truthful` on the hand model `resolveNLP` / `resolveOCP` with hand
  lists (`nlpAll`, `nlpThrowing`).  Here the two halves are tied to generated data:

  * reported-absent: what `resolve…` does for an entry with `P f = false` is what the *generated*
    default kind of that entry (read off `default_<f>` in the .tpp) says, for every entry of the
    generated vtable table;
  * reported-provided, for the loader: `provides_X()` is true iff the table member that `X(...)`
    dereferences is non-null (`dlLinked_sound`), so the call reaches the plug-in's function and is
    neither a `not_implemented_error` nor a null call.

  That `P f = true` installs the problem's own member (first line of `resolve…`) is the text of
  `ALPAQA_TE_OPTIONAL_METHOD` (`te_macros_as_modelled`); it is tied by the op-sequence
  correspondence (real code vs. `Driver/C20.lean`, which runs `resolve…` on `Native.provided`). -/

/-- what a generated default kind says about the outcome of calling the absent entry `self` -/
def _root_.Alpaqa.C20.DefaultKind.agrees (P : String → Bool) (m0 : Bool) (self : String) : DefaultKind → Outcome → Prop
  | .throws msg, o => o = .notImpl msg
  | .throwsIfMNonzero msg, o => o = if m0 then .calls [] else .notImpl msg
  | .fallbackIfM0 tgt msg, o =>
      o = if m0 && P tgt then .calls [tgt] else (match msg with | some m => .notImpl m | none => .calls [])
  | .computes, o => o ≠ .nullCall ∧ ∀ m, o = .notImpl m → m ≠ self ∧ m ≠ "default_" ++ self
  | .null, o => o = .nullCall

/-- **NLP, reported-absent half.**  For every entry of the generated `ProblemVTable` table that is
    optional and not provided, the model's outcome is the one its generated default prescribes:
    `throw not_implemented_error(msg)`, the `m == 0` special cases, or a computing default (which
    never raises `not_implemented_error` for that function). -/
theorem resolveNLP_absent_is_generated_default (P : String → Bool) (m0 : Bool) (e : TEEntry)
    (he : e ∈ nlpTE.entries) (hopt : e.required = false) (hP : P e.name = false) :
    ∃ d, e.dflt = some d ∧ d.agrees P m0 e.name (resolveNLP P m0 e.name) := by
  simp only [nlpTE, List.mem_cons, List.not_mem_nil, or_false] at he
  rcases he with rfl | rfl | rfl | rfl | rfl | rfl | rfl | rfl | rfl | rfl | rfl | rfl | rfl | rfl |
      rfl | rfl | rfl | rfl | rfl | rfl | rfl | rfl | rfl | rfl | rfl | rfl | rfl | rfl
  all_goals first
    | (exfalso; revert hopt; decide)
    | (refine ⟨_, rfl, ?_⟩
       dsimp only at hP ⊢
       first
       | (simp [DefaultKind.agrees, resolveNLP, hP]; done)
       | (cases m0 <;> simp [DefaultKind.agrees, resolveNLP, hP]; done)
       | (simp only [DefaultKind.agrees, resolveNLP, hP]
          constructor
          · (repeat' split) <;> simp [Outcome.seq]
          · intro m; (repeat' split) <;> simp [Outcome.seq]))

/-- the computing defaults of the NLP vtable never raise `not_implemented_error` at all -/
theorem nlp_computing_defaults_never_throw (P : String → Bool) (m0 : Bool) (e : TEEntry)
    (he : e ∈ nlpTE.entries) (hc : e.dflt = some .computes) (msg : String) :
    resolveNLP P m0 e.name ≠ .notImpl msg := by
  have hall : e.name ∈ nlpAll := by
    rw [← vtable_tables_match_model.1]; exact List.mem_map_of_mem he
  apply defaults_fill_in P m0 e.name hall
  simp only [nlpTE, List.mem_cons, List.not_mem_nil, or_false] at he
  rcases he with rfl | rfl | rfl | rfl | rfl | rfl | rfl | rfl | rfl | rfl | rfl | rfl | rfl | rfl |
      rfl | rfl | rfl | rfl | rfl | rfl | rfl | rfl | rfl | rfl | rfl | rfl | rfl | rfl <;>
    first
    | (exfalso; revert hc; decide)
    | decide

/-- **`flags_truthful` over the generated vtable table** (every entry, every subset `P` of provided
    functions, `m = 0` or not). -/
theorem flags_truthful_generated (P : String → Bool) (m0 : Bool) (e : TEEntry) (he : e ∈ nlpTE.entries) :
    (P e.name = true → resolveNLP P m0 e.name = .calls [e.name]) ∧
    (e.required = false → P e.name = false →
      ∃ d, e.dflt = some d ∧ d.agrees P m0 e.name (resolveNLP P m0 e.name)) :=
  ⟨fun h => flags_truthful_provided P m0 e.name h,
   fun h1 h2 => resolveNLP_absent_is_generated_default P m0 e he h1 h2⟩

/-- non-vacuity: `eval_hess_ψ_prod` absent, `eval_hess_L_prod` provided — with `m = 0` the
    generated default `fallbackIfM0` runs `eval_hess_L_prod`, otherwise it raises
    `not_implemented_error("eval_hess_ψ_prod")`; `eval_ψ` absent has a computing default -/
example :
    (nlpTE.find "eval_hess_ψ_prod").map (·.required) = some false ∧
    (nlpTE.find "eval_hess_ψ_prod").bind (·.dflt) = some (.fallbackIfM0 "eval_hess_L_prod" (some "eval_hess_ψ_prod")) ∧
    resolveNLP (fun f => f == "eval_hess_L_prod") true "eval_hess_ψ_prod" = .calls ["eval_hess_L_prod"] ∧
    resolveNLP (fun f => f == "eval_hess_L_prod") false "eval_hess_ψ_prod" = .notImpl "eval_hess_ψ_prod" ∧
    (nlpTE.find "eval_ψ").bind (·.dflt) = some .computes ∧
    resolveNLP (fun f => f == "eval_hess_L_prod") false "eval_ψ" = .calls ["eval_g", "eval_f", "eval_proj_diff_g"] ∧
    (nlpTE.find "eval_hess_L_prod").isSome = true ∧
    resolveNLP (fun f => f == "eval_hess_L_prod") false "eval_hess_L_prod" = .calls ["eval_hess_L_prod"] := by
  decide

/-- the four `default_X_N` bodies forward to entry `X` through the vtable -/
theorem resolveOCP_viaN (P : String → Bool) (f g : String)
    (h : (f, g) ∈ [("get_D_N", "get_D"), ("eval_constr_N", "eval_constr"),
      ("eval_grad_constr_prod_N", "eval_grad_constr_prod"),
      ("eval_add_gn_hess_constr_N", "eval_add_gn_hess_constr")])
    (hP : P f = false) : resolveOCP P f = if P g then .calls [g] else .notImpl g := by
  simp only [List.mem_cons, Prod.mk.injEq, List.not_mem_nil, or_false] at h
  rcases h with ⟨rfl, rfl⟩ | ⟨rfl, rfl⟩ | ⟨rfl, rfl⟩ | ⟨rfl, rfl⟩ <;>
    (cases hg : P _ <;> simp [resolveOCP, hP, hg, ocpRequired, ocpAbsent, ocpModelDefault])

/-- **OCP, reported-absent half**, against the generated `ControlProblemVTable` table. -/
theorem resolveOCP_absent_is_generated_default (P : String → Bool) (e : TEEntry)
    (he : e ∈ ocpTE.entries) (hopt : e.required = false) (hP : P e.name = false) :
    ∃ d, e.dflt = some d ∧ d.agrees P false e.name (resolveOCP P e.name) := by
  simp only [ocpTE, List.mem_cons, List.not_mem_nil, or_false] at he
  rcases he with rfl | rfl | rfl | rfl | rfl | rfl | rfl | rfl | rfl | rfl | rfl | rfl | rfl | rfl |
      rfl | rfl | rfl | rfl | rfl | rfl | rfl | rfl | rfl | rfl | rfl | rfl | rfl | rfl | rfl | rfl
  all_goals first
    | (exfalso; revert hopt; decide)
    | (refine ⟨_, rfl, ?_⟩
       dsimp only at hP ⊢
       first
       | ((first
           | rw [resolveOCP_viaN P _ "get_D" (by decide) hP]
           | rw [resolveOCP_viaN P _ "eval_constr" (by decide) hP]
           | rw [resolveOCP_viaN P _ "eval_grad_constr_prod" (by decide) hP]
           | rw [resolveOCP_viaN P _ "eval_add_gn_hess_constr" (by decide) hP])
          simp only [DefaultKind.agrees]
          refine ⟨by split <;> simp, fun m => ?_⟩
          split
          · simp
          · intro h; cases h; decide)
       | simp [DefaultKind.agrees, resolveOCP, hP, ocpRequired, ocpAbsent, ocpModelDefault])

theorem flags_truthful_generated_ocp (P : String → Bool) (e : TEEntry) (he : e ∈ ocpTE.entries) :
    (P e.name = true → resolveOCP P e.name = .calls [e.name]) ∧
    (e.required = false → P e.name = false →
      ∃ d, e.dflt = some d ∧ d.agrees P false e.name (resolveOCP P e.name)) :=
  ⟨fun h => (flags_truthful_ocp P e.name).1 h,
   fun h1 h2 => resolveOCP_absent_is_generated_default P e he h1 h2⟩

example :
    (ocpTE.find "eval_constr").bind (·.dflt) = some (.throws "eval_constr") ∧
    resolveOCP (fun f => f == "get_D") "eval_constr" = .notImpl "eval_constr" ∧
    (ocpTE.find "eval_constr_N").bind (·.dflt) = some .computes ∧
    resolveOCP (fun f => f == "eval_constr") "eval_constr_N" = .calls ["eval_constr"] ∧
    resolveOCP (fun f => f == "get_D") "eval_constr_N" = .notImpl "eval_constr" := by decide

/-! ### The loader: reported flag ⇔ callable, over the generated tables -/

theorem dlLinked_of_tables_nlp (e : DLFwd) (he : e ∈ dlNLP.fwd) (v : TEEntry)
    (hv : nlpTE.find e.method = some v) (hopt : v.required = false) (hg : e.guarded = false) :
    dlLinked dlNLP e = true := by
  have h := dl_optional_linked.1
  simp only [dlOptionalLinked, Bool.and_eq_true, List.all_eq_true] at h
  have h1 := h.1.1.1.1 e he
  simp only [hv, hopt, hg, Bool.false_or] at h1
  simpa using h1

theorem dlLinked_of_tables_ocp (e : DLFwd) (he : e ∈ dlOCP.fwd) (v : TEEntry)
    (hv : ocpTE.find e.method = some v) (hopt : v.required = false) :
    dlLinked dlOCP e = true := by
  have h := dl_optional_linked.2
  simp only [dlOptionalLinked, Bool.and_eq_true, List.all_eq_true] at h
  have h1 := h.1.1.1.1 e he
  have hg : e.guarded = false := by
    have := dl_guarded_optional.2
    rw [List.all_eq_true] at this
    simpa using this e he
  simp only [hv, hopt, hg, Bool.false_or] at h1
  simpa using h1

/-- **`flags_truthful` for `DLProblem`, over the generated tables**: for every plug-in function
    table `tbl` (any subset of members), every forwarding definition `e` of an optional, unguarded
    vtable entry:
    * reported as provided ⇒ the member `e` dereferences is non-null, the call runs exactly the
      plug-in's function (no `not_implemented_error`, no null call);
    * reported as absent ⇒ the member is null and the type-erased call does what the generated
      default of that entry prescribes (for the throwing ones: `not_implemented_error` naming it). -/
theorem dl_flags_truthful_nlp (tbl : FnTable) (base : String → Bool) (m0 : Bool) (e : DLFwd)
    (he : e ∈ dlNLP.fwd) (v : TEEntry) (hv : nlpTE.find e.method = some v)
    (hopt : v.required = false) (hg : e.guarded = false) :
    ((dlNLP.native tbl base).provided e.method = true →
      tbl e.member = true ∧ dlNLP.pluginCalls tbl e.method = some [e.member] ∧
      resolveNLP (dlNLP.native tbl base).provided m0 e.method = .calls [e.method]) ∧
    ((dlNLP.native tbl base).provided e.method = false →
      tbl e.member = false ∧
      ∃ d, v.dflt = some d ∧ d.agrees (dlNLP.native tbl base).provided m0 e.method
        (resolveNLP (dlNLP.native tbl base).provided m0 e.method)) := by
  obtain ⟨h1, h2, _⟩ := dlLinked_sound dlNLP e (dlLinked_of_tables_nlp e he v hv hopt hg) hg tbl base
  have hvm : v ∈ nlpTE.entries := List.mem_of_find?_eq_some hv
  have hvn : v.name = e.method := by simpa using List.find?_some hv
  refine ⟨fun hp => ⟨h1 ▸ hp, h2 (h1 ▸ hp), flags_truthful_provided _ m0 _ hp⟩, fun hp => ⟨h1 ▸ hp, ?_⟩⟩
  have := resolveNLP_absent_is_generated_default (dlNLP.native tbl base).provided m0 v hvm hopt (hvn ▸ hp)
  rw [hvn] at this
  exact this

/-- the same for `DLControlProblem`, every optional entry (no exclusion) -/
theorem dl_flags_truthful_ocp (tbl : FnTable) (base : String → Bool) (e : DLFwd)
    (he : e ∈ dlOCP.fwd) (v : TEEntry) (hv : ocpTE.find e.method = some v)
    (hopt : v.required = false) :
    ((dlOCP.native tbl base).provided e.method = true →
      tbl e.member = true ∧ dlOCP.pluginCalls tbl e.method = some [e.member] ∧
      resolveOCP (dlOCP.native tbl base).provided e.method = .calls [e.method]) ∧
    ((dlOCP.native tbl base).provided e.method = false →
      tbl e.member = false ∧
      ∃ d, v.dflt = some d ∧ d.agrees (dlOCP.native tbl base).provided false e.method
        (resolveOCP (dlOCP.native tbl base).provided e.method)) := by
  have hg : e.guarded = false := by
    have := dl_guarded_optional.2
    rw [List.all_eq_true] at this
    simpa using this e he
  obtain ⟨h1, h2, _⟩ := dlLinked_sound dlOCP e (dlLinked_of_tables_ocp e he v hv hopt) hg tbl base
  have hvm : v ∈ ocpTE.entries := List.mem_of_find?_eq_some hv
  have hvn : v.name = e.method := by simpa using List.find?_some hv
  refine ⟨fun hp => ⟨h1 ▸ hp, h2 (h1 ▸ hp), (flags_truthful_ocp _ _).1 hp⟩, fun hp => ⟨h1 ▸ hp, ?_⟩⟩
  have := resolveOCP_absent_is_generated_default (dlOCP.native tbl base).provided v hvm hopt (hvn ▸ hp)
  rw [hvn] at this
  exact this

/-- non-vacuity (all hypotheses of `dl_flags_truthful_nlp` / `_ocp` on concrete entries): the
    forwarding definition of `eval_hess_L_prod` (NLP) and of `eval_constr_N` (OCP) are in the
    generated tables, their vtable entries are optional, they are unguarded; with
    a table that has / omits the member the flag is true / false -/
example :
    (dlNLP.fwd.find? (·.method == "eval_hess_L_prod")).isSome = true ∧
    (nlpTE.find "eval_hess_L_prod").map (·.required) = some false ∧
    (dlNLP.fwd.find? (·.method == "eval_hess_L_prod")).map (·.guarded) = some false ∧
    (dlNLP.native (fun f => f == "eval_hess_L_prod") (fun _ => true)).provided "eval_hess_L_prod" = true ∧
    (dlNLP.native (fun f => f == "eval_f") (fun _ => true)).provided "eval_hess_L_prod" = false ∧
    (dlOCP.fwd.find? (·.method == "eval_constr_N")).isSome = true ∧
    (ocpTE.find "eval_constr_N").map (·.required) = some false ∧
    (dlOCP.native (fun f => f == "eval_constr_N") (fun _ => true)).provided "eval_constr_N" = true ∧
    (dlOCP.native (fun f => f == "eval_f") (fun _ => true)).provided "eval_constr_N" = false := by decide

/-- former finding F9, semantically: an OCP plug-in whose table leaves `eval_h` null is reported as
    *not* providing it, and the type-erased call raises `not_implemented_error("eval_h")`; with the
    member present it is reported as provided and the call runs the plug-in's function -/
example :
    (dlOCP.fwd.find? (·.method == "eval_h")).isSome = true ∧
    (ocpTE.find "eval_h").map (·.required) = some false ∧
    (dlOCP.native (fun f => f != "eval_h") (fun _ => true)).provided "eval_h" = false ∧
    resolveOCP (dlOCP.native (fun f => f != "eval_h") (fun _ => true)).provided "eval_h" = .notImpl "eval_h" ∧
    (dlOCP.native (fun _ => true) (fun _ => true)).provided "eval_h" = true ∧
    dlOCP.pluginCalls (fun _ => true) "eval_h" = some ["eval_h"] ∧
    ocpCtorMissing (dlOCP.native (fun f => f != "eval_h") (fun _ => true)).provided 0 1 1 = some "eval_h" := by
  decide

end Alpaqa.Props.C20
