/-
  C03 (ZeroFPR) — Written-back x, y and slack error are feasible and mutually consistent.

  Theorems about the ZeroFPR loop model (`Alpaqa/Model/Zerofpr.lean`, tied to zerofpr.tpp by
  bit-exact trace replay and, for its decision kernels, by the translator).  They hold for *every*
  problem oracle, direction provider, stop schedule (`stop : Nat → Bool`, any function of the
  number of events so far — monotone or not), time-limit oracle, iteration budget (0 included),
  both values of `always_overwrite_results`, every exit status, every setting of the
  ZeroFPR-specific parameters, and over *any* carrier (IEEE doubles included): they are structural
  facts about which oracle answer ends up in which output.

  The theorems named `…_fuel` carry the hypothesis `fuelOut = false` (the model's explicit loop fuel
  did not run out; any carrier, any stop schedule; the replay asserts it on every recorded run).  The
  theorems with the plain names discharge it over an ordered field from explicit bounds on the
  parameters, `FuelOK pr N M` (`L_max ≤ L_start·2^N`, `2^-M < min_linesearch_coefficient`,
  `N(M+2)+M < lsFuel`), and a stop flag that is never lowered (`Proofs/ZerofprFuel.lean`).
-/
import Alpaqa.Proofs.ZerofprInv
import Alpaqa.Proofs.ZerofprFuel
import Alpaqa.Proofs.ZerofprExample

namespace Alpaqa.Props.C03_Zerofpr
open Alpaqa Alpaqa.Zerofpr Alpaqa.Gen
set_option linter.unusedSectionVars false

variable {α D : Type} [Add α] [Sub α] [Mul α] [Div α] [Neg α] [LT α] [LE α] [DecidableLT α]
  [DecidableLE α] [BEq α] [RealLike α] [NatCast α] [OfScientific α]
  [OfNat α 0] [OfNat α 1] [OfNat α 2] [OfNat α 100]

/-- The invariant of the main loop: the current iterate is consistent (unless the model's fuel
    ran out, which is flagged in the result). -/
def LoopInv (P : Problem α) (s : St α D) : Prop := s.fuelOut = true ∨ Good P s.curr

/-- `LoopInv` is preserved by "loop head; loop body" — through an accepted accelerated step, an
    accepted safe step, step-size backtracking, a failed direction, *and* the `continue` of an
    interrupted line search. -/
theorem loopInv_step (P : Problem α) (dir : Direction D α) (pr : Params α) (stop : Nat → Bool)
    (oot : Bool) (s : St α D) (h : LoopInv P s) :
    LoopInv P (iterBody P dir pr stop (headStep P pr stop oot s).1 (headStep P pr stop oot s).2.1) := by
  have hs := headStep_same P pr stop oot s
  rcases h with h | h
  · left; rw [iterBody_fuelOut, hs.2.2.2.2.1, h]; rfl
  · cases hf : (iterBody P dir pr stop (headStep P pr stop oot s).1 (headStep P pr stop oot s).2.1).fuelOut
    · right
      exact iterBody_good P dir pr stop _ _ (by rw [hs.1]; exact h) hf
    · left; exact hf

/-- **Exit contract of the main loop.** -/
theorem mainLoop_ok (P : Problem α) (dir : Direction D α) (pr : Params α) (stop : Nat → Bool)
    (oot : Bool) (x0 y Sig errz0 : Vec α) (fuel : Nat) (s : St α D) (h : LoopInv P s)
    (hr : (mainLoop P dir pr stop oot x0 y Sig errz0 fuel s).fuelOut = false) :
    ExitOK P x0 y Sig errz0 (mainLoop P dir pr stop oot x0 y Sig errz0 fuel s) := by
  rcases mainLoop_cases P dir pr stop oot x0 y Sig errz0 (LoopInv P)
      (fun s hs _ => loopInv_step P dir pr stop oot s hs) fuel s h with ⟨s', hI, _, he⟩ | ⟨s', _, he⟩
  · rw [he] at hr ⊢
    have hs := headStep_same P pr stop oot s'
    rw [(exitBlock_spec pr _ _ _ x0 y Sig errz0).2.2.2.2.2.1, hs.2.2.2.2.1] at hr
    rcases hI with hI | hI
    · rw [hI] at hr; exact absurd hr (by decide)
    · exact exitBlock_ok P pr _ _ _ x0 y Sig errz0 (by rw [hs.1]; exact hI)
  · rw [he] at hr; simp at hr

/-- **Exit contract of `ZeroFPRSolver::operator()`.**  Whenever the outputs are overwritten:
    `x_out` is the `x̂` of a proximal-gradient step (hence in `C` for any prox that maps into `C`),
    `y_out` is the ψ-oracle's `ŷ` *at that very `x_out`*, and `err_z = (y_out − y_in)/Σ`.
    Otherwise `x`, `y`, `err_z` are the caller's values, untouched. -/
theorem zerofpr_exit_contract_fuel (P : Problem α) (dir : Direction D α) (d0 : D) (pr : Params α)
    (stop : Nat → Bool) (oot : Bool) (x0 y Sig errz0 gV : Vec α) (gS iS : α)
    (hfuel : (run P dir d0 pr stop oot x0 y Sig errz0 gV gS iS).fuelOut = false) :
    ExitOK P x0 y Sig errz0 (run P dir d0 pr stop oot x0 y Sig errz0 gV gS iS) := by
  unfold run at hfuel ⊢
  cases hi : initState P d0 pr stop x0 gV gS with
  | inl t =>
    simp only [hi] at hfuel ⊢
    exact ⟨fun h => absurd h (by simp), fun _ => ⟨rfl, rfl, rfl⟩⟩
  | inr s =>
    simp only [hi] at hfuel ⊢
    exact mainLoop_ok P dir pr stop oot x0 y Sig errz0 _ s
      (.inr (initState_good P d0 pr stop x0 gV gS s hi).1) hfuel

/-- Feasibility: if the problem's prox step maps into `C` (proved for the shipped box / box+ℓ1 /
    unconstrained steps in `Props/C15`), the written-back `x` is in `C`. -/
theorem zerofpr_x_out_feasible_fuel (InC : Vec α → Prop) (P : Problem α)
    (hP : ∀ γ x g, InC (P.prox γ x g).2.1)
    (dir : Direction D α) (d0 : D) (pr : Params α)
    (stop : Nat → Bool) (oot : Bool) (x0 y Sig errz0 gV : Vec α) (gS iS : α)
    (hfuel : (run P dir d0 pr stop oot x0 y Sig errz0 gV gS iS).fuelOut = false)
    (hw : (run P dir d0 pr stop oot x0 y Sig errz0 gV gS iS).wrote = true) :
    InC (run P dir d0 pr stop oot x0 y Sig errz0 gV gS iS).x := by
  obtain ⟨⟨γ, x, g, hx⟩, _, _⟩ :=
    (zerofpr_exit_contract_fuel P dir d0 pr stop oot x0 y Sig errz0 gV gS iS hfuel).1 hw
  rw [hx]; exact hP γ x g

/-- Consistency: `y_out = ŷ(x_out)` and `err_z = (y_out − y_in)/Σ`, i.e. `y_out = y_in + Σ·err_z`
    componentwise whenever `Σ_i ≠ 0` (stated in the division form the code computes). -/
theorem zerofpr_y_errz_consistent_fuel (P : Problem α) (dir : Direction D α) (d0 : D) (pr : Params α)
    (stop : Nat → Bool) (oot : Bool) (x0 y Sig errz0 gV : Vec α) (gS iS : α)
    (hfuel : (run P dir d0 pr stop oot x0 y Sig errz0 gV gS iS).fuelOut = false)
    (hw : (run P dir d0 pr stop oot x0 y Sig errz0 gV gS iS).wrote = true) :
    (run P dir d0 pr stop oot x0 y Sig errz0 gV gS iS).y
        = (P.psi (run P dir d0 pr stop oot x0 y Sig errz0 gV gS iS).x).2 ∧
    (errz0.length > 0 → (run P dir d0 pr stop oot x0 y Sig errz0 gV gS iS).errz
        = vdiv (vsub (run P dir d0 pr stop oot x0 y Sig errz0 gV gS iS).y y) Sig) := by
  obtain ⟨_, hy, he⟩ :=
    (zerofpr_exit_contract_fuel P dir d0 pr stop oot x0 y Sig errz0 gV gS iS hfuel).1 hw
  exact ⟨hy, fun h => by rw [he, if_pos h]⟩

/-- With `always_overwrite_results` disabled and an exit that is neither Converged nor
    Interrupted — and on the early `NotFinite` return — `x`, `y` and `err_z` are left untouched. -/
theorem zerofpr_untouched_fuel (P : Problem α) (dir : Direction D α) (d0 : D) (pr : Params α)
    (stop : Nat → Bool) (oot : Bool) (x0 y Sig errz0 gV : Vec α) (gS iS : α)
    (hfuel : (run P dir d0 pr stop oot x0 y Sig errz0 gV gS iS).fuelOut = false)
    (hw : (run P dir d0 pr stop oot x0 y Sig errz0 gV gS iS).wrote = false) :
    (run P dir d0 pr stop oot x0 y Sig errz0 gV gS iS).x = x0 ∧
    (run P dir d0 pr stop oot x0 y Sig errz0 gV gS iS).y = y ∧
    (run P dir d0 pr stop oot x0 y Sig errz0 gV gS iS).errz = errz0 :=
  (zerofpr_exit_contract_fuel P dir d0 pr stop oot x0 y Sig errz0 gV gS iS hfuel).2 hw

/-- The written-back point is the `x̂` of the iterate that was current at exit, which is also the
    iterate handed to the last progress callback. -/
theorem zerofpr_x_out_is_final_xhat (P : Problem α) (dir : Direction D α) (d0 : D) (pr : Params α)
    (stop : Nat → Bool) (oot : Bool) (x0 y Sig errz0 gV : Vec α) (gS iS : α)
    (hw : (run P dir d0 pr stop oot x0 y Sig errz0 gV gS iS).wrote = true) :
    ∃ c, (run P dir d0 pr stop oot x0 y Sig errz0 gV gS iS).final = some c ∧
      (run P dir d0 pr stop oot x0 y Sig errz0 gV gS iS).x = c.xhat ∧
      (run P dir d0 pr stop oot x0 y Sig errz0 gV gS iS).y = c.yhat := by
  unfold run at hw ⊢
  cases hi : initState P d0 pr stop x0 gV gS with
  | inl t => simp [hi] at hw
  | inr s =>
    simp only [hi] at hw ⊢
    rcases mainLoop_cases P dir pr stop oot x0 y Sig errz0 (fun _ => True)
      (fun _ _ _ => trivial) (pr.maxIter + 2) s trivial with ⟨s', _, _, he⟩ | ⟨s', _, he⟩
    · rw [he] at hw ⊢
      unfold exitBlock at hw ⊢
      simp only [] at hw ⊢
      exact ⟨_, rfl, by simp [hw], by simp [hw]⟩
    · rw [he] at hw ⊢
      unfold exitBlock at hw ⊢
      simp only [] at hw ⊢
      exact ⟨_, rfl, by simp [hw], by simp [hw]⟩

/-- **When are the outputs overwritten**: exactly on `Converged`, `Interrupted`, or with
    `always_overwrite_results` — and never on the early `NotFinite` return (non-finite Lipschitz
    estimate), which happens before any iterate exists.  Unconditional (every oracle, stop schedule,
    budget). -/
theorem zerofpr_wrote_iff (P : Problem α) (dir : Direction D α) (d0 : D) (pr : Params α)
    (stop : Nat → Bool) (oot : Bool) (x0 y Sig errz0 gV : Vec α) (gS iS : α) :
    (run P dir d0 pr stop oot x0 y Sig errz0 gV gS iS).wrote =
      ((run P dir d0 pr stop oot x0 y Sig errz0 gV gS iS).final.isSome &&
        ((run P dir d0 pr stop oot x0 y Sig errz0 gV gS iS).stats.status == .Converged ||
         (run P dir d0 pr stop oot x0 y Sig errz0 gV gS iS).stats.status == .Interrupted ||
         pr.alwaysOverwrite)) := by
  unfold run
  cases hi : initState P d0 pr stop x0 gV gS with
  | inl t => simp
  | inr s =>
    simp only []
    rcases mainLoop_cases P dir pr stop oot x0 y Sig errz0 (fun _ => True)
      (fun _ _ _ => trivial) (pr.maxIter + 2) s trivial with ⟨s', _, _, he⟩ | ⟨s', _, he⟩
    · rw [he]
      have hx := exitBlock_spec pr (headStep P pr stop oot s').1 (headStep P pr stop oot s').2.1
        (headStep P pr stop oot s').2.2 x0 y Sig errz0
      rw [hx.1, hx.2.1, hx.2.2.2.2.1]; simp
    · rw [he]
      have hx := exitBlock_spec pr s' s'.stats.eps .Exception x0 y Sig errz0
      show (exitBlock pr s' s'.stats.eps .Exception x0 y Sig errz0).wrote =
        ((exitBlock pr s' s'.stats.eps .Exception x0 y Sig errz0).final.isSome &&
          ((exitBlock pr s' s'.stats.eps .Exception x0 y Sig errz0).stats.status == .Converged ||
           (exitBlock pr s' s'.stats.eps .Exception x0 y Sig errz0).stats.status == .Interrupted ||
           pr.alwaysOverwrite))
      rw [hx.1, hx.2.1, hx.2.2.2.2.1]; simp

/-- … in "untouched" form: the outputs are left alone iff the solve returned before the main loop or
    ended with a status other than `Converged` / `Interrupted` while `always_overwrite_results` is
    off. -/
theorem zerofpr_not_wrote_iff (P : Problem α) (dir : Direction D α) (d0 : D) (pr : Params α)
    (stop : Nat → Bool) (oot : Bool) (x0 y Sig errz0 gV : Vec α) (gS iS : α) :
    (run P dir d0 pr stop oot x0 y Sig errz0 gV gS iS).wrote = false ↔
      ((run P dir d0 pr stop oot x0 y Sig errz0 gV gS iS).final = none ∨
       ((run P dir d0 pr stop oot x0 y Sig errz0 gV gS iS).stats.status ≠ .Converged ∧
        (run P dir d0 pr stop oot x0 y Sig errz0 gV gS iS).stats.status ≠ .Interrupted ∧
        pr.alwaysOverwrite = false)) := by
  rw [zerofpr_wrote_iff]
  cases (run P dir d0 pr stop oot x0 y Sig errz0 gV gS iS).final <;>
  cases (run P dir d0 pr stop oot x0 y Sig errz0 gV gS iS).stats.status <;>
  cases pr.alwaysOverwrite <;> simp

/-! ### Non-vacuity: a concrete solve over `ℚ` (`Proofs/ZerofprExample.lean`), kernel-evaluated -/
section examples
open Alpaqa.Zerofpr.Example

/-- interrupted inside the first line search: the hypothesis `fuelOut = false` holds, the outputs
    are overwritten with `x̂₀ = 1 ∈ C`, `ŷ(x̂₀) = 1`, `err_z = (1 − 5)/2`. -/
example : (exRun stopAt9).fuelOut = false ∧ (exRun stopAt9).wrote = true ∧
    (exRun stopAt9).stats.status = SolverStatus.Interrupted ∧
    (exRun stopAt9).x = [1] ∧ (exRun stopAt9).y = [1] ∧ (exRun stopAt9).errz = [-2] := by
  decide +kernel

/-- out of iterations with `always_overwrite_results = false`: untouched. -/
example : (exRun (fun _ => false)).fuelOut = false ∧ (exRun (fun _ => false)).wrote = false ∧
    (exRun (fun _ => false)).stats.status = SolverStatus.MaxIter ∧
    (exRun (fun _ => false)).x = [3] ∧ (exRun (fun _ => false)).y = [5] ∧
    (exRun (fun _ => false)).errz = [7] := by
  decide +kernel

end examples

/-! ### The same statements with the fuel hypothesis discharged (ordered field) -/
section field
variable {α D : Type} [Field α] [LinearOrder α] [IsStrictOrderedRing α] [RealLike α]

/-- **Exit contract of `ZeroFPRSolver::operator()`**, fuel hypothesis discharged: for parameters
    satisfying `FuelOK pr N M` and a stop flag that is never lowered. -/
theorem zerofpr_exit_contract (P : Problem α) (dir : Direction D α) (d0 : D) (pr : Params α)
    (stop : Nat → Bool) (hm : StopMono stop) (N M : Nat) (hF : FuelOK pr N M) (oot : Bool)
    (x0 y Sig errz0 gV : Vec α) (gS iS : α) :
    ExitOK P x0 y Sig errz0 (run P dir d0 pr stop oot x0 y Sig errz0 gV gS iS) :=
  zerofpr_exit_contract_fuel P dir d0 pr stop oot x0 y Sig errz0 gV gS iS
    (run_fuel P dir d0 pr stop hm N M hF oot x0 y Sig errz0 gV gS iS)

theorem zerofpr_x_out_feasible (InC : Vec α → Prop) (P : Problem α)
    (hP : ∀ γ x g, InC (P.prox γ x g).2.1) (dir : Direction D α) (d0 : D) (pr : Params α)
    (stop : Nat → Bool) (hm : StopMono stop) (N M : Nat) (hF : FuelOK pr N M) (oot : Bool)
    (x0 y Sig errz0 gV : Vec α) (gS iS : α)
    (hw : (run P dir d0 pr stop oot x0 y Sig errz0 gV gS iS).wrote = true) :
    InC (run P dir d0 pr stop oot x0 y Sig errz0 gV gS iS).x :=
  zerofpr_x_out_feasible_fuel InC P hP dir d0 pr stop oot x0 y Sig errz0 gV gS iS
    (run_fuel P dir d0 pr stop hm N M hF oot x0 y Sig errz0 gV gS iS) hw

theorem zerofpr_y_errz_consistent (P : Problem α) (dir : Direction D α) (d0 : D) (pr : Params α)
    (stop : Nat → Bool) (hm : StopMono stop) (N M : Nat) (hF : FuelOK pr N M) (oot : Bool)
    (x0 y Sig errz0 gV : Vec α) (gS iS : α)
    (hw : (run P dir d0 pr stop oot x0 y Sig errz0 gV gS iS).wrote = true) :
    (run P dir d0 pr stop oot x0 y Sig errz0 gV gS iS).y
        = (P.psi (run P dir d0 pr stop oot x0 y Sig errz0 gV gS iS).x).2 ∧
    (errz0.length > 0 → (run P dir d0 pr stop oot x0 y Sig errz0 gV gS iS).errz
        = vdiv (vsub (run P dir d0 pr stop oot x0 y Sig errz0 gV gS iS).y y) Sig) :=
  zerofpr_y_errz_consistent_fuel P dir d0 pr stop oot x0 y Sig errz0 gV gS iS
    (run_fuel P dir d0 pr stop hm N M hF oot x0 y Sig errz0 gV gS iS) hw

theorem zerofpr_untouched (P : Problem α) (dir : Direction D α) (d0 : D) (pr : Params α)
    (stop : Nat → Bool) (hm : StopMono stop) (N M : Nat) (hF : FuelOK pr N M) (oot : Bool)
    (x0 y Sig errz0 gV : Vec α) (gS iS : α)
    (hw : (run P dir d0 pr stop oot x0 y Sig errz0 gV gS iS).wrote = false) :
    (run P dir d0 pr stop oot x0 y Sig errz0 gV gS iS).x = x0 ∧
    (run P dir d0 pr stop oot x0 y Sig errz0 gV gS iS).y = y ∧
    (run P dir d0 pr stop oot x0 y Sig errz0 gV gS iS).errz = errz0 :=
  zerofpr_untouched_fuel P dir d0 pr stop oot x0 y Sig errz0 gV gS iS
    (run_fuel P dir d0 pr stop hm N M hF oot x0 y Sig errz0 gV gS iS) hw

section examples
open Alpaqa.Zerofpr.Example

/-- `FuelOK` for the concrete solve (`L_0 = 1`, `L_max = 100 ≤ 2⁷`, `τ_min = 1/256 > 2⁻⁹`), with the
    default model fuel 4096 > `7·11 + 9`; the stop schedule "flag visible from tick 9 on" is never
    lowered. -/
example : FuelOK { exPr with lsFuel := 4096 } 7 9 :=
  ⟨by norm_num [exPr], by norm_num [exPr], by norm_num [exPr], by norm_num [exPr], by norm_num,
   by decide⟩

example : ExitOK exP [3] [5] [2] [7]
    (run exP exDir () { exPr with lsFuel := 4096 } stopAt9 false [3] [5] [2] [7] [] 0 1000000) :=
  zerofpr_exit_contract exP exDir () { exPr with lsFuel := 4096 } stopAt9
    (fun t t' h1 h2 => by unfold stopAt9 at *; simp only [decide_eq_true_eq] at *; omega) 7 9
    ⟨by norm_num [exPr], by norm_num [exPr], by norm_num [exPr], by norm_num [exPr], by norm_num,
     by decide⟩ false [3] [5] [2] [7] [] 0 1000000

/-- feasibility, consistency and the untouched clause instantiated on the concrete solves: the prox
    step of `exP` maps into `C = [−1, 1]`; interrupted at tick 9 the outputs are written
    (`x = [1] ∈ C`), out of iterations without `always_overwrite_results` they are untouched. -/
example : ∀ a ∈ (run exP exDir () { exPr with lsFuel := 4096 } stopAt9 false [3] [5] [2] [7] [] 0
    1000000).x, -1 ≤ a ∧ a ≤ 1 :=
  zerofpr_x_out_feasible (fun v => ∀ a ∈ v, -1 ≤ a ∧ a ≤ 1) exP
    (fun γ x g a ha => by
      simp only [exP, List.mem_singleton] at ha
      subst ha
      unfold clampQ
      split_ifs <;> constructor <;> linarith)
    exDir () { exPr with lsFuel := 4096 } stopAt9
    (fun t t' h1 h2 => by unfold stopAt9 at *; simp only [decide_eq_true_eq] at *; omega) 7 9
    ⟨by norm_num [exPr], by norm_num [exPr], by norm_num [exPr], by norm_num [exPr], by norm_num,
     by decide⟩ false [3] [5] [2] [7] [] 0 1000000 (by decide +kernel)

example : (run exP exDir () { exPr with lsFuel := 4096 } (fun _ => false) false [3] [5] [2] [7] [] 0
    1000000).x = [3] :=
  (zerofpr_untouched exP exDir () { exPr with lsFuel := 4096 } (fun _ => false) (fun _ _ _ h => h) 7 9
    ⟨by norm_num [exPr], by norm_num [exPr], by norm_num [exPr], by norm_num [exPr], by norm_num,
     by decide⟩ false [3] [5] [2] [7] [] 0 1000000 (by decide +kernel)).1

/-- `wrote ↔ status`: both directions occur -/
example : (exRun stopAt9).wrote = true ∧ (exRun (fun _ => false)).wrote = false ∧
    (exRun stopAt9).final.isSome = true ∧ exPr.alwaysOverwrite = false := by decide +kernel

/-- **`FuelOK` for the library's default `ZeroFPRParams`** (`L_0 = 0`, `L_min = 1e-5`, `L_max = 1e20`,
    `min_linesearch_coefficient = 1/256`; model fuel 4096): `N = 84` (`2⁸⁴ > 10²⁵`), `M = 9`
    (`2⁻⁹ < 1/256`), `84·11 + 9 = 933 < 4096`. -/
example : FuelOK defaultParams 84 9 :=
  ⟨by norm_num [defaultParams], by norm_num [defaultParams], by norm_num [defaultParams],
   by norm_num [defaultParams], by norm_num, by decide⟩

/-- the worst case the replay driver is run with (`checks/loop_zerofpr.py`: `L_min = 1e-5`,
    `L_max = 1e20`, `L_0 ≤ 0`, `min_linesearch_coefficient = 2⁻²⁰`, default fuel 4096) satisfies
    `FuelOK` with `N = 84` (`2⁸⁴ > 10²⁵`), `M = 21`: `84·23 + 21 = 1953 < 4096`. -/
example : FuelOK { exPr with L0 := 0, Lmin := 1/100000, Lmax := 100000000000000000000,
                             minLsCoef := 1/1048576, lsFuel := 4096 } 84 21 :=
  ⟨by norm_num, by norm_num, by norm_num, by norm_num, by norm_num, by decide⟩

end examples
end field

end Alpaqa.Props.C03_Zerofpr
