/-
  C03 (ZeroFPR) — Written-back x, y and slack error are feasible and mutually consistent.

  Theorems about the ZeroFPR loop model (`Alpaqa/Model/Zerofpr.lean`, tied to zerofpr.tpp by
  bit-exact trace replay and, for its decision kernels, by the translator).  They hold for *every*
  problem oracle, direction provider, stop schedule (`stop : Nat → Bool`, any function of the
  number of events so far — monotone or not), time-limit oracle, iteration budget (0 included),
  both values of `always_overwrite_results`, every exit status, every setting of the
  ZeroFPR-specific parameters, and over *any* carrier (IEEE doubles included): they are structural
  facts about which oracle answer ends up in which output.
-/
import Alpaqa.Proofs.ZerofprInv
import Alpaqa.Proofs.ZerofprExample

namespace Alpaqa.Props.C03_Zerofpr
open Alpaqa Alpaqa.Zerofpr Alpaqa.Gen
set_option linter.unusedSectionVars false

variable {α D : Type} [Add α] [Sub α] [Mul α] [Div α] [Neg α] [LT α] [LE α] [DecidableLT α]
  [DecidableLE α] [BEq α] [RealLike α] [NatCast α] [OfScientific α]
  [OfNat α 0] [OfNat α 1] [OfNat α 2] [OfNat α 100]

/-- The invariant of the main loop: the current iterate is consistent (unless the model's fuel
    ran out, which is flagged in the result). -/
def LoopInv (P : Problem α) (s : St α D) : Prop := s.fuelOut = true ∨ Good P s.curr

/-- `LoopInv` is preserved by "loop head; loop body" — through an accepted accelerated step, an
    accepted safe step, step-size backtracking, a failed direction, *and* the `continue` of an
    interrupted line search. -/
theorem loopInv_step (P : Problem α) (dir : Direction D α) (pr : Params α) (stop : Nat → Bool)
    (oot : Bool) (s : St α D) (h : LoopInv P s) :
    LoopInv P (iterBody P dir pr stop (headStep P pr stop oot s).1 (headStep P pr stop oot s).2.1) := by
  have hs := headStep_same P pr stop oot s
  rcases h with h | h
  · left; rw [iterBody_fuelOut, hs.2.2.2.2.1, h]; rfl
  · cases hf : (iterBody P dir pr stop (headStep P pr stop oot s).1 (headStep P pr stop oot s).2.1).fuelOut
    · right
      exact iterBody_good P dir pr stop _ _ (by rw [hs.1]; exact h) hf
    · left; exact hf

/-- **Exit contract of the main loop.** -/
theorem mainLoop_ok (P : Problem α) (dir : Direction D α) (pr : Params α) (stop : Nat → Bool)
    (oot : Bool) (x0 y Sig errz0 : Vec α) (fuel : Nat) (s : St α D) (h : LoopInv P s)
    (hr : (mainLoop P dir pr stop oot x0 y Sig errz0 fuel s).fuelOut = false) :
    ExitOK P x0 y Sig errz0 (mainLoop P dir pr stop oot x0 y Sig errz0 fuel s) := by
  rcases mainLoop_cases P dir pr stop oot x0 y Sig errz0 (LoopInv P)
      (fun s hs _ => loopInv_step P dir pr stop oot s hs) fuel s h with ⟨s', hI, _, he⟩ | ⟨s', _, he⟩
  · rw [he] at hr ⊢
    have hs := headStep_same P pr stop oot s'
    rw [(exitBlock_spec pr _ _ _ x0 y Sig errz0).2.2.2.2.2.1, hs.2.2.2.2.1] at hr
    rcases hI with hI | hI
    · rw [hI] at hr; exact absurd hr (by decide)
    · exact exitBlock_ok P pr _ _ _ x0 y Sig errz0 (by rw [hs.1]; exact hI)
  · rw [he] at hr; simp at hr

/-- **Exit contract of `ZeroFPRSolver::operator()`.**  Whenever the outputs are overwritten:
    `x_out` is the `x̂` of a proximal-gradient step (hence in `C` for any prox that maps into `C`),
    `y_out` is the ψ-oracle's `ŷ` *at that very `x_out`*, and `err_z = (y_out − y_in)/Σ`.
    Otherwise `x`, `y`, `err_z` are the caller's values, untouched. -/
theorem zerofpr_exit_contract (P : Problem α) (dir : Direction D α) (d0 : D) (pr : Params α)
    (stop : Nat → Bool) (oot : Bool) (x0 y Sig errz0 gV : Vec α) (gS : α)
    (hfuel : (run P dir d0 pr stop oot x0 y Sig errz0 gV gS).fuelOut = false) :
    ExitOK P x0 y Sig errz0 (run P dir d0 pr stop oot x0 y Sig errz0 gV gS) := by
  unfold run at hfuel ⊢
  cases hi : initState P d0 pr stop x0 gV gS with
  | inl t =>
    simp only [hi] at hfuel ⊢
    exact ⟨fun h => absurd h (by simp), fun _ => ⟨rfl, rfl, rfl⟩⟩
  | inr s =>
    simp only [hi] at hfuel ⊢
    exact mainLoop_ok P dir pr stop oot x0 y Sig errz0 _ s
      (.inr (initState_good P d0 pr stop x0 gV gS s hi).1) hfuel

/-- Feasibility: if the problem's prox step maps into `C` (proved for the shipped box / box+ℓ1 /
    unconstrained steps in `Props/C15`), the written-back `x` is in `C`. -/
theorem zerofpr_x_out_feasible (InC : Vec α → Prop) (P : Problem α)
    (hP : ∀ γ x g, InC (P.prox γ x g).2.1)
    (dir : Direction D α) (d0 : D) (pr : Params α)
    (stop : Nat → Bool) (oot : Bool) (x0 y Sig errz0 gV : Vec α) (gS : α)
    (hfuel : (run P dir d0 pr stop oot x0 y Sig errz0 gV gS).fuelOut = false)
    (hw : (run P dir d0 pr stop oot x0 y Sig errz0 gV gS).wrote = true) :
    InC (run P dir d0 pr stop oot x0 y Sig errz0 gV gS).x := by
  obtain ⟨⟨γ, x, g, hx⟩, _, _⟩ :=
    (zerofpr_exit_contract P dir d0 pr stop oot x0 y Sig errz0 gV gS hfuel).1 hw
  rw [hx]; exact hP γ x g

/-- Consistency: `y_out = ŷ(x_out)` and `err_z = (y_out − y_in)/Σ`, i.e. `y_out = y_in + Σ·err_z`
    componentwise whenever `Σ_i ≠ 0` (stated in the division form the code computes). -/
theorem zerofpr_y_errz_consistent (P : Problem α) (dir : Direction D α) (d0 : D) (pr : Params α)
    (stop : Nat → Bool) (oot : Bool) (x0 y Sig errz0 gV : Vec α) (gS : α)
    (hfuel : (run P dir d0 pr stop oot x0 y Sig errz0 gV gS).fuelOut = false)
    (hw : (run P dir d0 pr stop oot x0 y Sig errz0 gV gS).wrote = true) :
    (run P dir d0 pr stop oot x0 y Sig errz0 gV gS).y
        = (P.psi (run P dir d0 pr stop oot x0 y Sig errz0 gV gS).x).2 ∧
    (errz0.length > 0 → (run P dir d0 pr stop oot x0 y Sig errz0 gV gS).errz
        = vdiv (vsub (run P dir d0 pr stop oot x0 y Sig errz0 gV gS).y y) Sig) := by
  obtain ⟨_, hy, he⟩ :=
    (zerofpr_exit_contract P dir d0 pr stop oot x0 y Sig errz0 gV gS hfuel).1 hw
  exact ⟨hy, fun h => by rw [he, if_pos h]⟩

/-- With `always_overwrite_results` disabled and an exit that is neither Converged nor
    Interrupted — and on the early `NotFinite` return — `x`, `y` and `err_z` are left untouched. -/
theorem zerofpr_untouched (P : Problem α) (dir : Direction D α) (d0 : D) (pr : Params α)
    (stop : Nat → Bool) (oot : Bool) (x0 y Sig errz0 gV : Vec α) (gS : α)
    (hfuel : (run P dir d0 pr stop oot x0 y Sig errz0 gV gS).fuelOut = false)
    (hw : (run P dir d0 pr stop oot x0 y Sig errz0 gV gS).wrote = false) :
    (run P dir d0 pr stop oot x0 y Sig errz0 gV gS).x = x0 ∧
    (run P dir d0 pr stop oot x0 y Sig errz0 gV gS).y = y ∧
    (run P dir d0 pr stop oot x0 y Sig errz0 gV gS).errz = errz0 :=
  (zerofpr_exit_contract P dir d0 pr stop oot x0 y Sig errz0 gV gS hfuel).2 hw

/-- The written-back point is the `x̂` of the iterate that was current at exit, which is also the
    iterate handed to the last progress callback. -/
theorem zerofpr_x_out_is_final_xhat (P : Problem α) (dir : Direction D α) (d0 : D) (pr : Params α)
    (stop : Nat → Bool) (oot : Bool) (x0 y Sig errz0 gV : Vec α) (gS : α)
    (hw : (run P dir d0 pr stop oot x0 y Sig errz0 gV gS).wrote = true) :
    ∃ c, (run P dir d0 pr stop oot x0 y Sig errz0 gV gS).final = some c ∧
      (run P dir d0 pr stop oot x0 y Sig errz0 gV gS).x = c.xhat ∧
      (run P dir d0 pr stop oot x0 y Sig errz0 gV gS).y = c.yhat := by
  unfold run at hw ⊢
  cases hi : initState P d0 pr stop x0 gV gS with
  | inl t => simp [hi] at hw
  | inr s =>
    simp only [hi] at hw ⊢
    rcases mainLoop_cases P dir pr stop oot x0 y Sig errz0 (fun _ => True)
      (fun _ _ _ => trivial) (pr.maxIter + 2) s trivial with ⟨s', _, _, he⟩ | ⟨s', _, he⟩
    · rw [he] at hw ⊢
      unfold exitBlock at hw ⊢
      simp only [] at hw ⊢
      exact ⟨_, rfl, by simp [hw], by simp [hw]⟩
    · rw [he] at hw ⊢
      unfold exitBlock at hw ⊢
      simp only [] at hw ⊢
      exact ⟨_, rfl, by simp [hw], by simp [hw]⟩

/-! ### Non-vacuity: a concrete solve over `ℚ` (`Proofs/ZerofprExample.lean`), kernel-evaluated -/
section examples
open Alpaqa.Zerofpr.Example

/-- interrupted inside the first line search: the hypothesis `fuelOut = false` holds, the outputs
    are overwritten with `x̂₀ = 1 ∈ C`, `ŷ(x̂₀) = 1`, `err_z = (1 − 5)/2`. -/
example : (exRun stopAt9).fuelOut = false ∧ (exRun stopAt9).wrote = true ∧
    (exRun stopAt9).stats.status = SolverStatus.Interrupted ∧
    (exRun stopAt9).x = [1] ∧ (exRun stopAt9).y = [1] ∧ (exRun stopAt9).errz = [-2] := by
  decide +kernel

/-- out of iterations with `always_overwrite_results = false`: untouched. -/
example : (exRun (fun _ => false)).fuelOut = false ∧ (exRun (fun _ => false)).wrote = false ∧
    (exRun (fun _ => false)).stats.status = SolverStatus.MaxIter ∧
    (exRun (fun _ => false)).x = [3] ∧ (exRun (fun _ => false)).y = [5] ∧
    (exRun (fun _ => false)).errz = [7] := by
  decide +kernel

end examples

end Alpaqa.Props.C03_Zerofpr
