/-
  C20 — Problem wrappers / loaders are transparent; counters and capability flags truthful.

  Every table used below (`nlpWrapper`, `ocpWrapper`, `functional`, `nlpTE`, `ocpTE`, `dlNLP`,
  `dlOCP`, `abiNLP`, `abiOCP`, the constructor check lists) is regenerated from /repo's C++ on
  every run (`Alpaqa/Gen/C20.lean`, translator `gen/gen_c20.py`); the table theorems are decided
  by the kernel on what the source says *now*.  Where the unchanged tree violates a table
  theorem, that entry is excluded **by name** in `knownDeviations.*` (each is a reported finding,
  reproduced on the real code by `checks/c20.py`), so any other deviation breaks the proof.

  The counter block is a hand model (`Alpaqa/Model/C20.lean`), proved equal to a heap-free tally
  specification for every operation sequence and both `reset_evaluations` bodies that can be read
  off the source; it is tied to the code by op-sequence correspondence.
-/
import Mathlib.Tactic.Ring
import Mathlib.Tactic.Linarith
import Alpaqa.Gen.C20

namespace Alpaqa.Props.C20
open Alpaqa.C20 Alpaqa.Gen.C20

/-! ## Known deviations of the unchanged tree (each one a finding, see checks/c20.py) -/

/-- F3: `ProblemWithCounters::provides_eval_hess_ψ_prod`'s requires-clause names
    `provides_eval_hess_ψ` (problem-with-counters.hpp). -/
def knownDeviations.provRequires : List String := ["eval_hess_ψ_prod"]
/-- F5: `ControlProblemWithCounters::eval_h / eval_h_N` have no requires-clause and no
    `provides_` forward although the vtable treats them as optional (ocproblem.hpp): a problem
    without output mapping cannot be wrapped (does not compile). -/
def knownDeviations.ocpUnconditional : List String := ["eval_h", "eval_h_N"]
/-- F7: `alpaqa_problem_functions_t::eval_proj_multipliers` lacks `ALPAQA_DEFAULT(nullptr)`
    (dl-problem.h): default-initialised C++ tables leave it indeterminate. -/
def knownDeviations.abiNoDefault : List String := ["eval_proj_multipliers"]

/-! ## 1. `forward_transparent`: table theorems -/

/-- Every forwarding method of `ProblemWithCounters` calls the underlying method of the same
    name with its own parameters in order, increments the counter and the timer named after it,
    and its requires-clause names that same member. -/
theorem forward_transparent_nlp : nlpWrapper.fwd.all FwdEntry.diagonal = true := by decide

/-- Same for `ControlProblemWithCounters`. -/
theorem forward_transparent_ocp : ocpWrapper.fwd.all FwdEntry.diagonal = true := by decide

/-- Each counter field is incremented by exactly one method (no field shared, none forgotten),
    and the timer struct has the same fields. -/
theorem counters_bijective :
    nlpWrapper.countersBijective = true ∧ ocpWrapper.countersBijective = true := by decide

/-- `provides_X` of the NLP wrapper returns `problem.provides_X()` for every X, and its
    requires-clause names `provides_X` — except the entries in `knownDeviations.provRequires`. -/
theorem provides_forward_nlp :
    (nlpWrapper.prov.filter fun e => !knownDeviations.provRequires.contains e.method).all
        ProvEntry.diagonal = true ∧
    nlpWrapper.prov.all (fun e => e.callee == e.method) = true := by decide

theorem provides_forward_ocp : ocpWrapper.prov.all ProvEntry.diagonal = true := by decide

/-- the wrapper forwards every vtable entry with the declared parameter list; every optional
    entry is guarded by a requires-clause on that member and has a `provides_` forward
    (`dev` = entries excluded by name) -/
def covers (t : WrapperTable) (te : TETable) (dev : List String) : Bool :=
  te.entries.all fun e =>
    match t.find e.name with
    | none => false
    | some f =>
      f.params == e.params &&
      (e.required || dev.contains e.name ||
        (f.requiresMember == some e.name && (t.findProv e.name).isSome))

theorem wrapper_covers_vtable :
    covers nlpWrapper nlpTE [] = true ∧
    covers ocpWrapper ocpTE knownDeviations.ocpUnconditional = true := by decide

/-- `FunctionalProblem::eval_X` calls the `std::function` member `X` with its own parameters
    (matrices reshaped), `provides_eval_X` tests `bool{X}`, and every function object beyond the
    four required ones has such a test. -/
theorem functional_transparent :
    functional.fwd.all (fun e => e.method == "eval_" ++ e.callee &&
      e.callArgs.length == e.params.length &&
      (List.zipWith (fun a p => a == p || a == p ++ ":mxn" || a == p ++ ":nxn") e.callArgs e.params).all id) = true ∧
    (functional.find "eval_jac_g").map (·.callArgs) = some ["x", "J_values:mxn"] ∧
    (functional.find "eval_hess_L").map (·.callArgs) = some ["x", "y", "scale", "H_values:nxn"] ∧
    (functional.find "eval_hess_ψ").map (·.callArgs) = some ["x", "y", "Σ", "scale", "H_values:nxn"] ∧
    functional.prov.all (fun p => p.method == "eval_" ++ p.callee) = true ∧
    sameMembers (functional.fwd.map (·.callee)) functional.counterFields = true ∧
    sameMembers (functional.prov.map (·.callee))
      (functional.counterFields.filter fun f => !["f", "grad_f", "g", "grad_g_prod"].contains f) = true := by
  decide

/-- The vtable tables agree with the hand model `resolveNLP` / `resolveOCP` is written against:
    same entries in the same order, same default kinds (incl. the `not_implemented_error`
    message naming the function itself), `provides_X` compares entry `X` with `default_X` /
    `nullptr`, `supports_X` falls back on the documented partner. -/
theorem vtable_tables_match_model :
    nlpTE.entries.map (·.name) = nlpAll ∧
    nlpTE.entries.all (fun e => e.required == nlpRequired.contains e.name &&
      (e.required || (e.dflt == some (nlpModelDefault e.name) &&
        e.providesTests == some (e.name, "default_" ++ e.name)))) = true ∧
    nlpTE.supports = [("eval_hess_ψ_prod", "eval_hess_L_prod"), ("eval_hess_ψ", "eval_hess_L")] ∧
    ocpTE.entries.map (·.name) = ocpAll ∧
    ocpTE.entries.all (fun e => e.required == ocpRequired.contains e.name &&
      (e.required || (e.dflt == some (ocpModelDefault e.name) &&
        e.providesTests == some (e.name,
          if ocpModelDefault e.name == .null then "nullptr" else "default_" ++ e.name)))) = true ∧
    ocpCtorChecks = [("nc", "get_D"), ("nc", "eval_constr"), ("nc", "eval_grad_constr_prod"),
                     ("nh", "eval_h"), ("nh_N", "eval_h_N")] := by
  decide

/-- NLP: an absent entry raises `not_implemented_error` naming exactly that function. -/
theorem not_implemented_names_function :
    nlpTE.entries.all (fun e => match e.dflt with
      | some (.throws m) => m == e.name
      | some (.throwsIfMNonzero m) => m == e.name
      | some (.fallbackIfM0 _ (some m)) => m == e.name
      | _ => true) = true ∧
    ocpTE.entries.all (fun e => match e.dflt with
      | some (.throws m) => m == "default_" ++ e.name
      | _ => true) = true := by decide

/-- C-ABI forwarding (`dl-problem.cpp`): `DLProblem::X` calls table member `X`, passes its
    arguments in the order of the typedef in `dl-problem.h` (`instance` first, `D.lowerbound`
    before `D.upperbound` in the `zl`, `zu` slots), declares the parameters of
    `TypeErasedProblem::X`, and the four guarded ones fall back on `BoxConstrProblem::X` with the
    same arguments. -/
theorem dl_forward_nlp :
    dlNLP.fwd.all (fun e => e.member == e.method && e.abiOk abiNLP &&
      (match nlpTE.find e.method with | some t => t.params == e.params | none => false) &&
      (!e.guarded || e.fallback == some (e.method, e.params))) = true ∧
    dlNLP.init.all (fun e => e.passed.head? == some "instance" &&
      (e.member == "initialize_l1_reg" || e.abiOk abiNLP)) = true := by decide

theorem dl_forward_ocp :
    dlOCP.fwd.all (fun e => e.member == e.method && e.abiOk abiOCP && !e.guarded &&
      (match ocpTE.find e.method with | some t => t.params == e.params | none => false)) = true := by
  decide

/-- `DLProblem::provides_X` tests exactly the table member that `DLProblem::X` then calls; the
    three composite ones are the documented expressions. -/
def dlProvidesStandard (t : DLTable) (special : List String) : Bool :=
  t.prov.all fun p =>
    special.contains p.method ||
    (p.test == .nonnull p.method &&
      (match t.fwd.find? (·.method == p.method) with
       | some e => e.member == p.method && !e.guarded
       | none => false))

theorem dl_provides_tests_called :
    dlProvidesStandard dlNLP ["get_box_C", "get_box_D", "eval_inactive_indices_res_lna"] = true ∧
    dlProvidesStandard dlOCP [] = true ∧
    (dlNLP.prov.find? (·.method == "get_box_C")).map (·.test) =
      some (.and (.isnull "eval_prox_grad_step") (.base "provides_get_box_C")) ∧
    (dlNLP.prov.find? (·.method == "get_box_D")).map (·.test) = some (.isnull "eval_proj_diff_g") ∧
    (dlNLP.prov.find? (·.method == "eval_inactive_indices_res_lna")).map (·.test) =
      some (.or (.isnull "eval_prox_grad_step") (.nonnull "eval_inactive_indices_res_lna")) := by
  decide

/-- every optional vtable entry that the loader forwards unguarded has a `provides_` test, so the
    type-erased layer never calls a null table member of an *optional* function -/
theorem dl_optional_guarded :
    dlNLP.fwd.all (fun e => e.guarded || nlpRequired.contains e.method ||
      dlNLP.prov.any (·.method == e.method)) = true ∧
    dlOCP.fwd.all (fun e => ocpRequired.contains e.method || ["eval_h", "eval_h_N"].contains e.method ||
      dlOCP.prov.any (·.method == e.method)) = true := by decide

/-- every function pointer of the C-ABI tables defaults to `nullptr` (so "omitted" is
    well-defined) — except the entries in `knownDeviations.abiNoDefault`. -/
theorem abi_members_defaulted :
    (abiNLP.filter fun m => !knownDeviations.abiNoDefault.contains m.name).all (·.hasDefault) = true ∧
    abiOCP.all (·.hasDefault) = true := by decide

/-! ### Consequence for capability flags seen *through* the counting wrapper -/

def wrapOK (t : WrapperTable) (f : String) : Bool :=
  (match t.find f with
   | some e => e.requiresMember == some f
   | none => false) &&
  (match t.findProv f with
   | some p => p.requiresMember == f && p.callee == f
   | none => false)

theorem wrapOK_sound (t : WrapperTable) (f : String) (h : wrapOK t f = true) (n : Native) :
    (t.wrap n).provided f = n.provided f := by
  unfold wrapOK at h
  simp only [Bool.and_eq_true] at h
  obtain ⟨h1, h2⟩ := h
  unfold WrapperTable.wrap Native.provided
  cases hf : t.find f with
  | none => simp [hf] at h1
  | some e =>
    cases hp : t.findProv f with
    | none => simp [hp] at h2
    | some p =>
      simp only [hf, hp, Bool.and_eq_true, beq_iff_eq] at h1 h2 ⊢
      obtain ⟨h2a, h2b⟩ := h2
      simp [h1, h2a, h2b]

theorem wrap_tables_ok :
    (nlpOptional.filter fun f => !knownDeviations.provRequires.contains f).all (wrapOK nlpWrapper) = true ∧
    (ocpOptional.filter fun f => !knownDeviations.ocpUnconditional.contains f).all (wrapOK ocpWrapper) = true := by
  decide

/-- **Capability flags are transparent through the counting wrapper**: for every problem class
    description `n` (any subset of optional members, any subset of `provides_` members, any
    return values) and every optional function not excluded by name, the type-erased view of
    the wrapper provides `f` iff the type-erased view of the problem itself does. -/
theorem wrap_transparent_nlp (n : Native) (f : String) (hf : f ∈ nlpOptional)
    (hd : f ∉ knownDeviations.provRequires) : (nlpWrapper.wrap n).provided f = n.provided f := by
  apply wrapOK_sound
  have := wrap_tables_ok.1
  rw [List.all_eq_true] at this
  apply this
  simp [List.mem_filter, hf, hd]

theorem wrap_transparent_ocp (n : Native) (f : String) (hf : f ∈ ocpOptional)
    (hd : f ∉ knownDeviations.ocpUnconditional) : (ocpWrapper.wrap n).provided f = n.provided f := by
  apply wrapOK_sound
  have := wrap_tables_ok.2
  rw [List.all_eq_true] at this
  apply this
  simp [List.mem_filter, hf, hd]

/-- a problem that defines `eval_hess_ψ_prod` and `provides_eval_hess_ψ_prod() = false` but no
    `provides_eval_hess_ψ` -/
def f3Witness : Native where
  has _ := true
  hasProv f := f == "eval_hess_ψ_prod"
  provVal _ := false

/-- F3, what the excluded entry means: as long as the requires-clause names
    `provides_eval_hess_ψ`, there is a problem whose wrapper reports `eval_hess_ψ_prod` as
    provided although the problem says it is not (reproduced on the real code by the check). -/
theorem F3_wrapper_misreports
    (h : (nlpWrapper.findProv "eval_hess_ψ_prod").map (·.requiresMember) = some "eval_hess_ψ") :
    (nlpWrapper.wrap f3Witness).provided "eval_hess_ψ_prod" = true ∧
    f3Witness.provided "eval_hess_ψ_prod" = false := by
  constructor
  · unfold WrapperTable.wrap Native.provided
    cases hp : nlpWrapper.findProv "eval_hess_ψ_prod" with
    | none => simp [hp] at h
    | some p =>
      simp only [hp, Option.map_some, Option.some.injEq] at h
      have h1 : nlpWrapper.find "eval_hess_ψ_prod" ≠ none := by decide
      cases hf : nlpWrapper.find "eval_hess_ψ_prod" with
      | none => exact absurd hf h1
      | some e =>
        simp only [hf, hp]
        cases hr : e.requiresMember <;> simp [h, f3Witness]
  · decide

example : (nlpWrapper.findProv "eval_hess_ψ_prod").map (·.requiresMember) = some "eval_hess_ψ" ∨
          (nlpWrapper.findProv "eval_hess_ψ_prod").map (·.requiresMember) = some "eval_hess_ψ_prod" := by
  decide

/-! ## 2. `counter_eq_calls`, `reset_keeps_usable` -/

section counters
variable {F : Type} [DecidableEq F]

local macro "cl" : tactic => `(tactic| first | rfl | trivial | assumption | (intros; simp_all))

/-- heap (blocks + pointers) vs. specification (per-wrapper tallies + group tags) -/
structure Rel (c : CState F) (s : SState F) : Prop where
  nW : c.nW = s.nW
  nB : c.nB = s.nG
  ptr : ∀ w, c.ptr w = s.grp w
  lt : ∀ w b, c.ptr w = some b → b < c.nB
  blk : ∀ w b, c.ptr w = some b → c.blk b = s.tally w

omit [DecidableEq F] in
theorem rel_empty : Rel (CState.empty : CState F) SState.empty :=
  ⟨rfl, rfl, fun _ => rfl, fun _ _ h => by simp [CState.empty] at h,
   fun _ _ h => by simp [CState.empty] at h⟩

theorem rel_step (rk : ResetKind) (c : CState F) (s : SState F) (h : Rel c s) (op : COp F) :
    Rel (cstep rk c op).1 (sstep rk s op).1 ∧ (cstep rk c op).2 = (sstep rk s op).2 := by
  obtain ⟨hW, hB, hp, hl, hb⟩ := h
  have hW' : s.nW = c.nW := hW.symm
  have hB' : s.nG = c.nB := hB.symm
  have hp' : ∀ w, s.grp w = c.ptr w := fun w => (hp w).symm
  cases op with
  | create =>
    simp only [cstep, sstep, hW', hB']
    refine ⟨⟨by cl, by cl, ?_, ?_, ?_⟩, by cl⟩
    · intro w; simp only [upd]; split <;> simp [hp]
    · intro w b; simp only [upd]; split
      · intro e; cases e; omega
      · intro e; have := hl w b e; omega
    · intro w b; simp only [upd]; split
      · intro e; cases e; simp
      · intro e; have := hl w b e
        rw [if_neg (by omega)]; exact hb w b e
  | call w f =>
    simp only [cstep, sstep, hW', hp']
    by_cases hw : w < c.nW
    · simp only [hw, if_true]
      cases hpw : c.ptr w with
      | none => exact ⟨⟨by cl, by cl, by cl, by cl, by cl⟩, by cl⟩
      | some b =>
        dsimp only
        refine ⟨⟨by cl, by cl, by cl, by cl, ?_⟩, by cl⟩
        intro w' b' e
        dsimp only at e ⊢
        simp only [upd]
        by_cases hbb : b' = b
        · subst hbb; simp only [if_true, e, hb w' b' e]
        · simp only [if_neg hbb, e, hb w' b' e]
          rw [if_neg]; intro h2; exact hbb (Option.some.inj h2)
    · simp only [hw, if_false]; exact ⟨⟨by cl, by cl, by cl, by cl, by cl⟩, by cl⟩
  | copy w =>
    simp only [cstep, sstep, hW', hp']
    by_cases hw : w < c.nW
    · simp only [hw, if_true]
      refine ⟨⟨by cl, by cl, ?_, ?_, ?_⟩, by cl⟩
      · intro w'; simp only [upd]; split <;> simp [hp]
      · intro w' b; simp only [upd]; split
        · exact hl w b
        · exact hl w' b
      · intro w' b; simp only [upd]; split
        · exact hb w b
        · exact hb w' b
    · simp only [hw, if_false]; exact ⟨⟨by cl, by cl, by cl, by cl, by cl⟩, by cl⟩
  | decouple w =>
    simp only [cstep, sstep, hW', hp', hB']
    by_cases hw : w < c.nW
    · simp only [hw, if_true]
      cases hpw : c.ptr w with
      | none => exact ⟨⟨by cl, by cl, by cl, by cl, by cl⟩, by cl⟩
      | some b =>
        dsimp only
        refine ⟨⟨by cl, by cl, ?_, ?_, ?_⟩, by cl⟩
        · intro w'; simp only [upd]; split <;> simp [hp]
        · intro w' b'; simp only [upd]; split
          · intro e; cases e; omega
          · intro e; have := hl w' b' e; omega
        · intro w' b'; simp only [upd]; split
          · next hww => intro e; cases e; subst hww; simp [hb w' b hpw]
          · intro e; have := hl w' b' e; rw [if_neg (by omega)]; exact hb w' b' e
    · simp only [hw, if_false]; exact ⟨⟨by cl, by cl, by cl, by cl, by cl⟩, by cl⟩
  | reset w =>
    simp only [cstep, sstep, hW', hp']
    by_cases hw : w < c.nW
    · simp only [hw, if_true]
      cases rk with
      | nullsPointer =>
        dsimp only
        refine ⟨⟨by cl, by cl, ?_, ?_, ?_⟩, by cl⟩
        · intro w'; simp only [upd]; split <;> simp [hp]
        · intro w' b; simp only [upd]; split
          · intro e; cases e
          · exact hl w' b
        · intro w' b; simp only [upd]; split
          · intro e; cases e
          · exact hb w' b
      | zeroesBlock =>
        dsimp only
        cases hpw : c.ptr w with
        | none => exact ⟨⟨by cl, by cl, by cl, by cl, by cl⟩, by cl⟩
        | some b =>
          dsimp only
          refine ⟨⟨by cl, by cl, by cl, by cl, ?_⟩, by cl⟩
          intro w' b' e
          dsimp only at e ⊢
          simp only [upd]
          by_cases hbb : b' = b
          · subst hbb; simp only [if_true, e]
          · simp only [if_neg hbb, e, hb w' b' e]
            rw [if_neg]; intro h2; exact hbb (Option.some.inj h2)
    · simp only [hw, if_false]; exact ⟨⟨by cl, by cl, by cl, by cl, by cl⟩, by cl⟩

theorem rel_run (rk : ResetKind) (ops : List (COp F)) (c : CState F) (s : SState F) (h : Rel c s) :
    Rel (crun rk c ops).1 (srun rk s ops).1 ∧ (crun rk c ops).2 = (srun rk s ops).2 := by
  induction ops generalizing c s with
  | nil => exact ⟨h, rfl⟩
  | cons op ops ih =>
    obtain ⟨h1, h2⟩ := rel_step rk c s h op
    obtain ⟨h3, h4⟩ := ih _ _ h1
    simp only [crun, srun]
    exact ⟨h3, by rw [h2, h4]⟩

/-- **`counter_eq_calls`** — for every sequence of create / call / copy / decouple / reset
    operations (any length), for both reset bodies: every operation has the same outcome in the
    shared-pointer implementation and in the tally specification, and afterwards every wrapper
    reads (through its pointer) exactly its tally — i.e. the number of calls made through the
    wrappers of its sharing group, where a copy joins the group of its source with the source's
    count, `decouple` leaves the group keeping the count, and `reset` acts as the specification
    of the given reset body says (zero the whole group / detach this wrapper). -/
theorem counter_eq_calls (rk : ResetKind) (ops : List (COp F)) :
    (crun rk CState.empty ops).2 = (srun rk SState.empty ops).2 ∧
    (crun rk CState.empty ops).1.nW = (srun rk SState.empty ops).1.nW ∧
    ∀ w f, (crun rk CState.empty ops).1.read w f =
      ((srun rk SState.empty ops).1.grp w).map fun _ => (srun rk SState.empty ops).1.tally w f := by
  obtain ⟨h, ho⟩ := rel_run rk ops (CState.empty : CState F) SState.empty rel_empty
  refine ⟨ho, h.nW, ?_⟩
  intro w f
  unfold CState.read
  rw [← h.ptr w]
  cases hp : (crun rk CState.empty ops).1.ptr w with
  | none => rfl
  | some b => simp [h.blk w b hp]

/-- calls made since a given state: a call-only suffix adds, to the counter `f` read by wrapper
    `w`, exactly the number of calls of `f` made through wrappers that share `w`'s block. -/
def callOps (cs : List (Nat × F)) : List (COp F) := cs.map fun p => .call p.1 p.2

theorem calls_only_suffix (rk : ResetKind) (c : CState F) (cs : List (Nat × F)) (w : Nat) (f : F) :
    (crun rk c (callOps cs)).1.read w f =
      (c.read w f).map (· + (cs.filter fun p => p.2 = f ∧ p.1 < c.nW ∧ c.ptr p.1 = c.ptr w).length) := by
  induction cs generalizing c with
  | nil => simp [callOps, crun]
  | cons p cs ih =>
    have key : ∀ c' : CState F, c'.nW = c.nW → c'.ptr = c.ptr →
        (crun rk c' (callOps cs)).1.read w f =
          (c'.read w f).map (· + (cs.filter fun p => p.2 = f ∧ p.1 < c.nW ∧ c.ptr p.1 = c.ptr w).length) := by
      intro c' h1 h2; rw [ih c', h1, h2]
    simp only [callOps, List.map_cons, crun]
    change ((crun rk (cstep rk c (.call p.1 p.2)).1 (callOps cs)).1.read w f = _)
    by_cases hw : p.1 < c.nW
    · cases hp : c.ptr p.1 with
      | none =>
        have : (cstep rk c (.call p.1 p.2)).1 = c := by simp [cstep, hw, hp]
        rw [this, ih c]
        cases hr : c.ptr w with
        | none => simp [CState.read, hr]
        | some b => simp [CState.read, hr, List.filter_cons, hp]
      | some b =>
        have hs : (cstep rk c (.call p.1 p.2)).1 =
            { c with blk := upd c.blk b (updF (c.blk b) p.2 (c.blk b p.2 + 1)) } := by
          simp [cstep, hw, hp]
        rw [hs, key { c with blk := upd c.blk b (updF (c.blk b) p.2 (c.blk b p.2 + 1)) } rfl rfl]
        cases hr : c.ptr w with
        | none => simp [CState.read, hr]
        | some b' =>
          simp only [CState.read, hr, Option.map_some, List.filter_cons, hw, hp, true_and]
          by_cases hbb : b' = b
          · subst hbb
            by_cases hf : p.2 = f
            · subst hf; simp [upd, updF]; omega
            · simp [upd, updF, hf, Ne.symm hf]
          · have : ¬ (some b = some b') := fun h => hbb (Option.some.inj h).symm
            simp [upd, hbb, this]
    · have : (cstep rk c (.call p.1 p.2)).1 = c := by simp [cstep, hw]
      rw [this, ih c]
      cases hr : c.ptr w with
      | none => simp [CState.read, hr]
      | some b => simp [CState.read, hr, List.filter_cons, hw]

/-- with `evaluations->reset()` no wrapper ever holds a null pointer -/
theorem live_step (c : CState F) (op : COp F) (h : ∀ w, w < c.nW → (c.ptr w).isSome) :
    ∀ w, w < (cstep .zeroesBlock c op).1.nW → ((cstep .zeroesBlock c op).1.ptr w).isSome := by
  cases op with
  | create =>
    intro w hw; simp only [cstep, upd] at hw ⊢
    split
    · rfl
    · exact h w (by omega)
  | call w' f =>
    simp only [cstep]; split
    · split <;> exact h
    · exact h
  | copy w' =>
    simp only [cstep]; split
    · next hw' =>
      intro w hw; simp only [upd] at hw ⊢
      split
      · exact h w' hw'
      · exact h w (by omega)
    · exact h
  | decouple w' =>
    simp only [cstep]; split
    · split
      · exact h
      · intro w hw; simp only [upd] at hw ⊢
        split
        · rfl
        · exact h w hw
    · exact h
  | reset w' =>
    simp only [cstep]; split
    · split <;> exact h
    · exact h

theorem live_run (ops : List (COp F)) (c : CState F) (h : ∀ w, w < c.nW → (c.ptr w).isSome) :
    ∀ w, w < (crun .zeroesBlock c ops).1.nW → ((crun .zeroesBlock c ops).1.ptr w).isSome := by
  induction ops generalizing c with
  | nil => exact h
  | cons op ops ih => simp only [crun]; exact ih _ (live_step c op h)

/-- **`reset_keeps_usable`** (for the reset body `evaluations->reset()`): after *any* operation
    sequence, resetting any existing wrapper succeeds, all counters it reads are zero, and a
    following call through it succeeds and is counted (reads 1 for that function, 0 otherwise). -/
theorem reset_keeps_usable (ops : List (COp F)) (w : Nat) (f : F)
    (hw : w < (crun .zeroesBlock CState.empty ops).1.nW) :
    (cstep .zeroesBlock (crun .zeroesBlock CState.empty ops).1 (.reset w)).2 = .ok ∧
    (∀ g, (cstep .zeroesBlock (crun .zeroesBlock CState.empty ops).1 (.reset w)).1.read w g = some 0) ∧
    (cstep .zeroesBlock (cstep .zeroesBlock (crun .zeroesBlock CState.empty ops).1 (.reset w)).1 (.call w f)).2 = .ok ∧
    (∀ g, (cstep .zeroesBlock (cstep .zeroesBlock (crun .zeroesBlock CState.empty ops).1 (.reset w)).1
        (.call w f)).1.read w g = some (if g = f then 1 else 0)) := by
  have hl := live_run ops (CState.empty : CState F) (by intro w hw; simp [CState.empty] at hw) w hw
  generalize (crun .zeroesBlock CState.empty ops).1 = c at hw hl ⊢
  cases hp : c.ptr w with
  | none => simp [hp] at hl
  | some b =>
    refine ⟨by simp [cstep, hw, hp], ?_, by simp [cstep, hw, hp], ?_⟩
    · intro g; simp [cstep, hw, hp, CState.read, upd]
    · intro g; simp [cstep, hw, hp, CState.read, upd, updF]

/-- **F1** (for the reset body `evaluations.reset()`, what the unchanged tree has): after
    `reset_evaluations()` the wrapper's pointer is null — the next evaluation through it
    dereferences null (`crash`), `decouple_evaluations()` too — while every other wrapper,
    including copies that shared the block, keeps its pointer and its counts (nothing is zeroed). -/
theorem reset_nulls_pointer_F1 (c : CState F) (w : Nat) (f : F) (hw : w < c.nW) :
    (cstep .nullsPointer (cstep .nullsPointer c (.reset w)).1 (.call w f)).2 = .crash ∧
    (cstep .nullsPointer (cstep .nullsPointer c (.reset w)).1 (.decouple w)).2 = .crash ∧
    (∀ w' g, w' ≠ w → (cstep .nullsPointer c (.reset w)).1.read w' g = c.read w' g) := by
  refine ⟨by simp [cstep, hw, upd], by simp [cstep, hw, upd], ?_⟩
  intro w' g hne
  simp [cstep, hw, CState.read, upd, hne]

/-- non-vacuity: a concrete history with sharing, decoupling and a reset, both reset bodies -/
example :
    let ops : List (COp Nat) := [.create, .call 0 3, .copy 0, .call 1 3, .decouple 1, .call 0 3,
                                 .call 1 5, .reset 0, .call 1 3]
    ((crun .zeroesBlock CState.empty ops).1.read 0 3, (crun .zeroesBlock CState.empty ops).1.read 1 3,
     (crun .zeroesBlock CState.empty ops).1.read 1 5) = (some 0, some 3, some 1) ∧
    ((crun .nullsPointer CState.empty ops).1.read 0 3, (crun .nullsPointer CState.empty ops).1.read 1 3)
      = (none, some 3) := by decide

end counters

/-! ## 3. `flags_truthful` -/

/-- a function reported as provided runs the problem's own member (no `not_implemented_error`) -/
theorem flags_truthful_provided (P : String → Bool) (m0 : Bool) (f : String)
    (h : teProvides P f = true) : resolveNLP P m0 f = .calls [f] := by
  unfold teProvides at h
  simp [resolveNLP, h]

/-- a function reported as supported (`supports_eval_hess_ψ[_prod]`, or provided) never raises
    `not_implemented_error` — for every subset of optional functions and `m = 0` or not -/
theorem flags_truthful_supported (P : String → Bool) (m0 : Bool) (f : String) (hf : f ∈ nlpAll)
    (h : teSupports P m0 f = true) : ∀ msg, resolveNLP P m0 f ≠ .notImpl msg := by
  intro msg
  simp only [nlpAll, nlpRequired, nlpOptional, List.cons_append, List.nil_append, List.mem_cons,
    List.not_mem_nil, or_false] at hf
  by_cases hp : P f = true
  · simp [resolveNLP, hp]
  · rcases hf with rfl | rfl | rfl | rfl | rfl | rfl | rfl | rfl | rfl | rfl | rfl | rfl | rfl | rfl |
      rfl | rfl | rfl | rfl | rfl | rfl | rfl | rfl | rfl | rfl | rfl | rfl | rfl | rfl <;>
      simp_all [resolveNLP, teSupports]

/-- a function without computing default that is reported as absent (not provided, not
    supported) raises `not_implemented_error` naming exactly that function.  The one excluded
    point is `eval_jac_g` with `m = 0`: its default is the (empty) Jacobian of zero constraints. -/
theorem flags_truthful_absent (P : String → Bool) (m0 : Bool) (f : String) (hf : f ∈ nlpThrowing)
    (h : teSupports P m0 f = false) (hj : ¬ (f = "eval_jac_g" ∧ m0 = true)) :
    resolveNLP P m0 f = .notImpl f := by
  simp only [nlpThrowing, List.mem_cons, List.not_mem_nil, or_false] at hf
  rcases hf with rfl | rfl | rfl | rfl | rfl | rfl | rfl | rfl | rfl <;>
    simp_all [resolveNLP, teSupports]

/-- every other optional function has a computing default: never `not_implemented_error` -/
theorem defaults_fill_in (P : String → Bool) (m0 : Bool) (f : String) (hf : f ∈ nlpAll)
    (hn : f ∉ nlpThrowing) : ∀ msg, resolveNLP P m0 f ≠ .notImpl msg := by
  intro msg
  simp only [nlpAll, nlpRequired, nlpOptional, List.cons_append, List.nil_append, List.mem_cons,
    List.not_mem_nil, or_false] at hf
  by_cases hp : P f = true
  · simp [resolveNLP, hp]
  · rcases hf with rfl | rfl | rfl | rfl | rfl | rfl | rfl | rfl | rfl | rfl | rfl | rfl | rfl | rfl |
      rfl | rfl | rfl | rfl | rfl | rfl | rfl | rfl | rfl | rfl | rfl | rfl | rfl | rfl <;>
      first
      | (exfalso; revert hn; decide)
      | (simp only [resolveNLP, hp]; (repeat' split) <;> simp_all [Outcome.seq])

/-- OCP: provided ⇒ own member; the two throwing defaults raise `not_implemented_error`; the
    absent null-default entries are *not* safe to call (`nullCall`) — the property's "raises
    exactly that error" does not hold for them (finding F6, reproduced by the check). -/
theorem flags_truthful_ocp (P : String → Bool) (f : String) :
    (P f = true → resolveOCP P f = .calls [f]) ∧
    (P f = false → f ∈ ["eval_add_R_prod_masked", "eval_add_S_prod_masked"] →
      resolveOCP P f = .notImpl ("default_" ++ f)) ∧
    (P f = false → f ∈ ocpOptional → ocpNullDefault f = true → resolveOCP P f = .nullCall) := by
  refine ⟨fun h => by simp [resolveOCP, h], ?_, ?_⟩
  · intro hp hf
    simp only [List.mem_cons, List.not_mem_nil, or_false] at hf
    rcases hf with rfl | rfl <;> simp [resolveOCP, hp, ocpRequired] <;> rfl
  · intro hp hf hn
    simp only [ocpOptional, List.mem_cons, List.not_mem_nil, or_false] at hf
    rcases hf with rfl | rfl | rfl | rfl | rfl | rfl | rfl | rfl | rfl | rfl | rfl | rfl | rfl | rfl | rfl <;>
      first
      | (exfalso; revert hn; decide)
      | simp [resolveOCP, hp, ocpRequired, ocpNullDefault, ocpModelDefault]

/-- The loader is transparent for capability flags: through `DLProblem`, the type-erased
    `provides_X` is true iff the plug-in's table member `X` is non-null, for every plug-in table
    (any subset of members) — for each optional function with a plain test. -/
def dlPlain : List String :=
  ["eval_jac_g", "get_jac_g_sparsity", "eval_grad_gi", "eval_hess_L_prod", "eval_hess_L",
   "get_hess_L_sparsity", "eval_hess_ψ_prod", "eval_hess_ψ", "get_hess_ψ_sparsity", "eval_f_grad_f",
   "eval_f_g", "eval_grad_f_grad_g_prod", "eval_grad_L", "eval_ψ", "eval_grad_ψ", "eval_ψ_grad_ψ"]

def dlPlainOK (t : DLTable) (f : String) : Bool :=
  t.declared.contains f && t.prov.any (·.method == f) &&
  (t.prov.find? (·.method == f)).map (·.test) == some (.nonnull f)

theorem dl_plain_ok : dlPlain.all (dlPlainOK dlNLP) = true := by decide

theorem dl_flags_transparent (tbl : FnTable) (base : String → Bool) (f : String) (hf : f ∈ dlPlain) :
    (dlNLP.native tbl base).provided f = tbl f := by
  have h := dl_plain_ok
  rw [List.all_eq_true] at h
  have h1 := h f hf
  unfold dlPlainOK at h1
  simp only [Bool.and_eq_true, beq_iff_eq] at h1
  obtain ⟨⟨h1, h2⟩, h3⟩ := h1
  unfold DLTable.native Native.provided
  cases hp : dlNLP.prov.find? (·.method == f) with
  | none => simp [hp] at h3
  | some p =>
    simp only [hp, Option.map_some, Option.some.injEq] at h3
    have h1' : f ∈ dlNLP.declared := by simpa using h1
    simp [h1', h2, hp, h3, PExpr.eval]

/-! ## 4. `loader_decision` -/

theorem descr_all_complete (d : PluginDescr) : d ∈ PluginDescr.all := by
  obtain ⟨a, b, v, c, e, x, h⟩ := d
  cases a <;> cases b <;> cases v <;> cases c <;> cases e <;> cases x <;> cases h <;> decide

/-- **`loader_decision` (NLP)** — `DLProblem`'s constructor, interpreted step by step from the
    generated check list, answers for *every* plug-in description exactly what the documented
    decision table says; the only parameter is whether a mismatching `<name>_version()` is
    swallowed, which is the case iff `invalid_abi_error` derives from the caught
    `dynamic_load_error` (finding F4: it does). -/
theorem loader_decision_nlp (d : PluginDescr) :
    load invalidAbiDerivesFromDynamicLoadError dlNLP.ctor d =
      loadSpec invalidAbiDerivesFromDynamicLoadError d := by
  have h : PluginDescr.all.all (fun d => load invalidAbiDerivesFromDynamicLoadError dlNLP.ctor d ==
      loadSpec invalidAbiDerivesFromDynamicLoadError d) = true := by decide
  rw [List.all_eq_true] at h
  exact beq_iff_eq.mp (h d (descr_all_complete d))

/-- with an exception hierarchy in which the ABI error is not swallowed, the same constructor
    text implements the strict table (a mismatching version function is a load failure) -/
theorem loader_decision_nlp_strict (d : PluginDescr) :
    load false dlNLP.ctor d = loadSpec false d := by
  have h : PluginDescr.all.all (fun d => load false dlNLP.ctor d == loadSpec false d) = true := by
    decide
  rw [List.all_eq_true] at h
  exact beq_iff_eq.mp (h d (descr_all_complete d))

/-- **`loader_decision` (OCP)** — same table for `DLControlProblem`, with the one known-deviating
    step (`if (!functions)` on the not-yet-assigned member, finding F2) replaced by name. -/
theorem loader_decision_ocp (d : PluginDescr) :
    load invalidAbiDerivesFromDynamicLoadError (patchFunctionsNull dlOCP.ctor) d =
      loadSpec invalidAbiDerivesFromDynamicLoadError d := by
  have h : PluginDescr.all.all (fun d =>
      load invalidAbiDerivesFromDynamicLoadError (patchFunctionsNull dlOCP.ctor) d ==
      loadSpec invalidAbiDerivesFromDynamicLoadError d) = true := by decide
  rw [List.all_eq_true] at h
  exact beq_iff_eq.mp (h d (descr_all_complete d))

/-- F2, what the excluded step means: as long as the constructor tests the member `functions`
    before assigning it, no plug-in whatsoever loads. -/
theorem F2_ocp_loader_always_fails (h : dlOCP.ctor.contains (.functionsNull "functions") = true)
    (d : PluginDescr) : ∀ w, load invalidAbiDerivesFromDynamicLoadError dlOCP.ctor d ≠ .ok w := by
  have hh : dlOCP.ctor.contains (.functionsNull "functions") = true →
      PluginDescr.all.all (fun d => match load invalidAbiDerivesFromDynamicLoadError dlOCP.ctor d with
        | .ok _ => false | .error _ => true) = true := by decide
  have h2 := hh h
  rw [List.all_eq_true] at h2
  have h3 := h2 d (descr_all_complete d)
  intro w hw
  simp [hw] at h3

/-- F4, what swallowing means: a plug-in whose version function reports a different ABI but
    whose register struct carries the expected number is loaded (with a warning). -/
theorem F4_version_mismatch_swallowed (h : invalidAbiDerivesFromDynamicLoadError = true) :
    load invalidAbiDerivesFromDynamicLoadError dlNLP.ctor
      ⟨false, true, .mismatch, true, true, false, true⟩ = .ok true := by
  revert h; decide

/-- a plug-in with every load failure the property lists is rejected with the documented kind -/
example :
    loadSpec false ⟨false, true, .good, false, true, false, true⟩ = .error .missingSymbol ∧
    loadSpec false ⟨false, true, .good, true, false, false, true⟩ = .error .abiMismatch ∧
    loadSpec false ⟨false, true, .mismatch, true, true, false, true⟩ = .error .abiMismatch ∧
    loadSpec false ⟨false, true, .good, true, true, true, true⟩ = .error .pluginException ∧
    loadSpec false ⟨false, true, .good, true, true, false, false⟩ = .error .noFunctions ∧
    loadSpec false ⟨false, true, .missing, true, true, false, true⟩ = .ok true ∧
    loadSpec false ⟨false, true, .good, true, true, false, true⟩ = .ok false := by decide

end Alpaqa.Props.C20
