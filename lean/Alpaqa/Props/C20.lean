/-
  C20 — Problem wrappers / loaders are transparent; counters and capability flags truthful.

  Every table used below (`nlpWrapper`, `ocpWrapper`, `functional`, `nlpTE`, `ocpTE`, `dlNLP`,
  `dlOCP`, `abiNLP`, `abiOCP`, the constructor check lists) is regenerated from /repo's C++ on
  every run (`Alpaqa/Gen/C20.lean`, translator `gen/gen_c20.py`); the table theorems are decided
  by the kernel on what the source says *now*.  No entry is excluded at present; should the tree
  violate a table theorem again, the entry is to be excluded **by name** (an open finding,
  reproduced on the real code by `checks/c20.py`), so that any other deviation breaks the proof.

  The counter block is a hand model (`Alpaqa/Model/C20.lean`), proved equal to a heap-free tally
  specification for every operation sequence; the bodies it models (`evaluations->reset()`, cloning
  `decouple`, sharing copies) are checked against the source by `wrapper_bodies`; it is tied to the
  code by op-sequence correspondence.
-/
import Mathlib.Tactic.Ring
import Mathlib.Tactic.Linarith
import Alpaqa.Gen.C20

namespace Alpaqa.Props.C20
open Alpaqa.C20 Alpaqa.Gen.C20

/-! ## Known deviations of the tree

  Findings F1–F9 have been repaired in /repo (patches under /verif/fixes); the theorems below state
  the repaired behaviour without exclusions: no entry is excluded by name any more.  Coverage of
  the tables (nothing deleted / duplicated) and the restatement of `flags_truthful` against the
  generated tables are in `Props/C20_Coverage.lean`. -/

/-! ## 1. `forward_transparent`: table theorems -/

/-- Every forwarding method of `ProblemWithCounters` calls the underlying method of the same
    name with its own parameters in order, increments the counter and the timer named after it,
    and its requires-clause names that same member. -/
theorem forward_transparent_nlp : nlpWrapper.fwd.all FwdEntry.diagonal = true := by decide

/-- Same for `ControlProblemWithCounters`. -/
theorem forward_transparent_ocp : ocpWrapper.fwd.all FwdEntry.diagonal = true := by decide

/-- Each counter field is incremented by exactly one method (no field shared, none forgotten),
    and the timer struct has the same fields. -/
theorem counters_bijective :
    nlpWrapper.countersBijective = true ∧ ocpWrapper.countersBijective = true := by decide

/-- `provides_X` of the NLP wrapper returns `problem.provides_X()` for every X, and its
    requires-clause names `provides_X`. -/
theorem provides_forward_nlp : nlpWrapper.prov.all ProvEntry.diagonal = true := by decide

theorem provides_forward_ocp : ocpWrapper.prov.all ProvEntry.diagonal = true := by decide

/-- the wrapper forwards every vtable entry with the declared parameter list; every optional
    entry is guarded by a requires-clause on that member and has a `provides_` forward
    (`dev` = entries excluded by name) -/
def covers (t : WrapperTable) (te : TETable) (dev : List String) : Bool :=
  te.entries.all fun e =>
    match t.find e.name with
    | none => false
    | some f =>
      f.params == e.params &&
      (e.required || dev.contains e.name ||
        (f.requiresMember == some e.name && (t.findProv e.name).isSome))

theorem wrapper_covers_vtable :
    covers nlpWrapper nlpTE [] = true ∧ covers ocpWrapper ocpTE [] = true := by decide

/-- `FunctionalProblem::eval_X` calls the `std::function` member `X` with its own parameters
    (matrices reshaped), `provides_eval_X` tests `bool{X}`, and every function object beyond the
    four required ones has such a test. -/
theorem functional_transparent :
    functional.fwd.all (fun e => e.method == "eval_" ++ e.callee &&
      e.callArgs.length == e.params.length &&
      (List.zipWith (fun a p => a == p || a == p ++ ":mxn" || a == p ++ ":nxn") e.callArgs e.params).all id) = true ∧
    (functional.find "eval_jac_g").map (·.callArgs) = some ["x", "J_values:mxn"] ∧
    (functional.find "eval_hess_L").map (·.callArgs) = some ["x", "y", "scale", "H_values:nxn"] ∧
    (functional.find "eval_hess_ψ").map (·.callArgs) = some ["x", "y", "Σ", "scale", "H_values:nxn"] ∧
    functional.prov.all (fun p => p.method == "eval_" ++ p.callee) = true ∧
    sameMembers (functional.fwd.map (·.callee)) functional.counterFields = true ∧
    sameMembers (functional.prov.map (·.callee))
      (functional.counterFields.filter fun f => !["f", "grad_f", "g", "grad_g_prod"].contains f) = true := by
  decide

/-- The vtable tables agree with the hand model `resolveNLP` / `resolveOCP` is written against:
    same entries in the same order, same default kinds (incl. the `not_implemented_error`
    message naming the function itself), `provides_X` compares entry `X` with `default_X` /
    `nullptr`, `supports_X` falls back on the documented partner. -/
theorem vtable_tables_match_model :
    nlpTE.entries.map (·.name) = nlpAll ∧
    nlpTE.entries.all (fun e => e.required == nlpRequired.contains e.name &&
      (e.required || (e.dflt == some (nlpModelDefault e.name) &&
        e.providesTests == some (e.name, "default_" ++ e.name)))) = true ∧
    nlpTE.supports = [("eval_hess_ψ_prod", "eval_hess_L_prod"), ("eval_hess_ψ", "eval_hess_L")] ∧
    ocpTE.entries.map (·.name) = ocpAll ∧
    ocpTE.entries.all (fun e => e.required == ocpRequired.contains e.name &&
      (e.required || (e.dflt == some (ocpModelDefault e.name) &&
        e.providesTests == some (e.name, "default_" ++ e.name)))) = true ∧
    ocpCtorChecks = [("nc", "get_D", "default_get_D"), ("nc", "eval_constr", "default_eval_constr"),
                     ("nc", "eval_grad_constr_prod", "default_eval_grad_constr_prod"),
                     ("nh", "eval_h", "default_eval_h"), ("nh_N", "eval_h_N", "default_eval_h_N")] := by
  decide

/-- An absent entry raises `not_implemented_error` naming exactly that function (OCP: two older
    defaults carry a `default_` prefix in the message). -/
theorem not_implemented_names_function :
    nlpTE.entries.all (fun e => match e.dflt with
      | some (.throws m) => m == e.name
      | some (.throwsIfMNonzero m) => m == e.name
      | some (.fallbackIfM0 _ (some m)) => m == e.name
      | _ => true) = true ∧
    ocpTE.entries.all (fun e => match e.dflt with
      | some (.throws m) => m == e.name || m == "default_" ++ e.name
      | some .null => false
      | _ => true) = true := by decide

/-- C-ABI forwarding (`dl-problem.cpp`): `DLProblem::X` calls table member `X`, passes its
    arguments in the order of the typedef in `dl-problem.h` (`instance` first, `D.lowerbound`
    before `D.upperbound` in the `zl`, `zu` slots), declares the parameters of
    `TypeErasedProblem::X`, and the four guarded ones fall back on `BoxConstrProblem::X` with the
    same arguments. -/
theorem dl_forward_nlp :
    dlNLP.fwd.all (fun e => e.member == e.method && e.abiOk abiNLP &&
      (match nlpTE.find e.method with | some t => t.params == e.params | none => false) &&
      (!e.guarded || e.fallback == some (e.method, e.params))) = true ∧
    dlNLP.init.all (fun e => e.passed.head? == some "instance" &&
      (e.member == "initialize_l1_reg" || e.abiOk abiNLP)) = true := by decide

theorem dl_forward_ocp :
    dlOCP.fwd.all (fun e => e.member == e.method && e.abiOk abiOCP && !e.guarded &&
      (match ocpTE.find e.method with | some t => t.params == e.params | none => false)) = true := by
  decide

/-- `DLProblem::provides_X` tests exactly the table member that `DLProblem::X` then calls; the
    three composite ones are the documented expressions. -/
def dlProvidesStandard (t : DLTable) (special : List String) : Bool :=
  t.prov.all fun p =>
    special.contains p.method ||
    (p.test == .nonnull p.method &&
      (match t.fwd.find? (·.method == p.method) with
       | some e => e.member == p.method && !e.guarded
       | none => false))

theorem dl_provides_tests_called :
    dlProvidesStandard dlNLP ["get_box_C", "get_box_D", "eval_inactive_indices_res_lna"] = true ∧
    dlProvidesStandard dlOCP [] = true ∧
    (dlNLP.prov.find? (·.method == "get_box_C")).map (·.test) =
      some (.and (.isnull "eval_prox_grad_step") (.base "provides_get_box_C")) ∧
    (dlNLP.prov.find? (·.method == "get_box_D")).map (·.test) = some (.isnull "eval_proj_diff_g") ∧
    (dlNLP.prov.find? (·.method == "eval_inactive_indices_res_lna")).map (·.test) =
      some (.or (.isnull "eval_prox_grad_step") (.nonnull "eval_inactive_indices_res_lna")) := by
  decide

/-- every optional vtable entry that the loader forwards unguarded has a `provides_` test, so the
    type-erased layer never calls a null table member of an *optional* function (no exception:
    former finding F9 is repaired).  Required / optional is read off the generated vtable tables.  (`dl_optional_linked` in `Props/C20_Coverage.lean` sharpens this:
    the test is on the very member that is called.) -/
theorem dl_optional_guarded :
    dlNLP.fwd.all (fun e => e.guarded ||
      (match nlpTE.find e.method with | some v => v.required | none => false) ||
      dlNLP.prov.any (·.method == e.method)) = true ∧
    dlOCP.fwd.all (fun e =>
      (match ocpTE.find e.method with | some v => v.required | none => false) ||
      dlOCP.prov.any (·.method == e.method)) = true := by decide

/-- every function pointer of the C-ABI tables defaults to `nullptr` (so "omitted" is well-defined) -/
theorem abi_members_defaulted :
    abiNLP.all (·.hasDefault) = true ∧ abiOCP.all (·.hasDefault) = true := by decide

/-- the loader classes declare (or inherit from `BoxConstrProblem`) every required vtable entry
    (no exception: former finding F8 is repaired) -/
theorem dl_declares_required :
    nlpRequired.all (fun f => dlNLP.declared.contains f || boxConstrDeclared.contains f) = true ∧
    ocpRequired.all (dlOCP.declared.contains ·) = true := by decide

/-! ### Consequence for capability flags seen *through* the counting wrapper -/

def wrapOK (t : WrapperTable) (f : String) : Bool :=
  (match t.find f with
   | some e => e.requiresMember == some f
   | none => false) &&
  (match t.findProv f with
   | some p => p.requiresMember == f && p.callee == f
   | none => false)

theorem wrapOK_sound (t : WrapperTable) (f : String) (h : wrapOK t f = true) (n : Native) :
    (t.wrap n).provided f = n.provided f := by
  unfold wrapOK at h
  simp only [Bool.and_eq_true] at h
  obtain ⟨h1, h2⟩ := h
  unfold WrapperTable.wrap Native.provided
  cases hf : t.find f with
  | none => simp [hf] at h1
  | some e =>
    cases hp : t.findProv f with
    | none => simp [hp] at h2
    | some p =>
      simp only [hf, hp, Bool.and_eq_true, beq_iff_eq] at h1 h2 ⊢
      obtain ⟨h2a, h2b⟩ := h2
      simp [h1, h2a, h2b]

theorem wrap_tables_ok :
    nlpOptional.all (wrapOK nlpWrapper) = true ∧ ocpOptional.all (wrapOK ocpWrapper) = true := by
  decide

/-- **Capability flags are transparent through the counting wrapper**: for every problem class
    description `n` (any subset of optional members, any subset of `provides_` members, any
    return values) and every optional function, the type-erased view of the wrapper provides `f`
    iff the type-erased view of the problem itself does. -/
theorem wrap_transparent_nlp (n : Native) (f : String) (hf : f ∈ nlpOptional) :
    (nlpWrapper.wrap n).provided f = n.provided f := by
  apply wrapOK_sound
  have := wrap_tables_ok.1
  rw [List.all_eq_true] at this
  exact this f hf

theorem wrap_transparent_ocp (n : Native) (f : String) (hf : f ∈ ocpOptional) :
    (ocpWrapper.wrap n).provided f = n.provided f := by
  apply wrapOK_sound
  have := wrap_tables_ok.2
  rw [List.all_eq_true] at this
  exact this f hf

/-- a problem that defines `eval_hess_ψ_prod` and `provides_eval_hess_ψ_prod() = false` but no
    `provides_eval_hess_ψ` (the witness of former finding F3) -/
def f3Witness : Native where
  has _ := true
  hasProv f := f == "eval_hess_ψ_prod"
  provVal _ := false

example : (nlpWrapper.wrap f3Witness).provided "eval_hess_ψ_prod" = false ∧
          f3Witness.provided "eval_hess_ψ_prod" = false := by decide

/-! ## 2. `counter_eq_calls`, `reset_keeps_usable` -/

section counters
variable {F : Type} [DecidableEq F]

local macro "cl" : tactic => `(tactic| first | rfl | trivial | assumption | (intros; simp_all))

/-- heap (blocks + pointers) vs. specification (per-wrapper tallies + group tags) -/
structure Rel (c : CState F) (s : SState F) : Prop where
  nW : c.nW = s.nW
  nB : c.nB = s.nG
  ptr : ∀ w, c.ptr w = s.grp w
  lt : ∀ w b, c.ptr w = some b → b < c.nB
  blk : ∀ w b, c.ptr w = some b → c.blk b = s.tally w

omit [DecidableEq F] in
theorem rel_empty : Rel (CState.empty : CState F) SState.empty :=
  ⟨rfl, rfl, fun _ => rfl, fun _ _ h => by simp [CState.empty] at h,
   fun _ _ h => by simp [CState.empty] at h⟩

theorem rel_step (rk : ResetKind) (c : CState F) (s : SState F) (h : Rel c s) (op : COp F) :
    Rel (cstep rk c op).1 (sstep rk s op).1 ∧ (cstep rk c op).2 = (sstep rk s op).2 := by
  obtain ⟨hW, hB, hp, hl, hb⟩ := h
  have hW' : s.nW = c.nW := hW.symm
  have hB' : s.nG = c.nB := hB.symm
  have hp' : ∀ w, s.grp w = c.ptr w := fun w => (hp w).symm
  cases op with
  | create =>
    simp only [cstep, sstep, hW', hB']
    refine ⟨⟨by cl, by cl, ?_, ?_, ?_⟩, by cl⟩
    · intro w; simp only [upd]; split <;> simp [hp]
    · intro w b; simp only [upd]; split
      · intro e; cases e; omega
      · intro e; have := hl w b e; omega
    · intro w b; simp only [upd]; split
      · intro e; cases e; simp
      · intro e; have := hl w b e
        rw [if_neg (by omega)]; exact hb w b e
  | call w f =>
    simp only [cstep, sstep, hW', hp']
    by_cases hw : w < c.nW
    · simp only [hw, if_true]
      cases hpw : c.ptr w with
      | none => exact ⟨⟨by cl, by cl, by cl, by cl, by cl⟩, by cl⟩
      | some b =>
        dsimp only
        refine ⟨⟨by cl, by cl, by cl, by cl, ?_⟩, by cl⟩
        intro w' b' e
        dsimp only at e ⊢
        simp only [upd]
        by_cases hbb : b' = b
        · subst hbb; simp only [if_true, e, hb w' b' e]
        · simp only [if_neg hbb, e, hb w' b' e]
          rw [if_neg]; intro h2; exact hbb (Option.some.inj h2)
    · simp only [hw, if_false]; exact ⟨⟨by cl, by cl, by cl, by cl, by cl⟩, by cl⟩
  | copy w =>
    simp only [cstep, sstep, hW', hp']
    by_cases hw : w < c.nW
    · simp only [hw, if_true]
      refine ⟨⟨by cl, by cl, ?_, ?_, ?_⟩, by cl⟩
      · intro w'; simp only [upd]; split <;> simp [hp]
      · intro w' b; simp only [upd]; split
        · exact hl w b
        · exact hl w' b
      · intro w' b; simp only [upd]; split
        · exact hb w b
        · exact hb w' b
    · simp only [hw, if_false]; exact ⟨⟨by cl, by cl, by cl, by cl, by cl⟩, by cl⟩
  | decouple w =>
    simp only [cstep, sstep, hW', hp', hB']
    by_cases hw : w < c.nW
    · simp only [hw, if_true]
      cases hpw : c.ptr w with
      | none => exact ⟨⟨by cl, by cl, by cl, by cl, by cl⟩, by cl⟩
      | some b =>
        dsimp only
        refine ⟨⟨by cl, by cl, ?_, ?_, ?_⟩, by cl⟩
        · intro w'; simp only [upd]; split <;> simp [hp]
        · intro w' b'; simp only [upd]; split
          · intro e; cases e; omega
          · intro e; have := hl w' b' e; omega
        · intro w' b'; simp only [upd]; split
          · next hww => intro e; cases e; subst hww; simp [hb w' b hpw]
          · intro e; have := hl w' b' e; rw [if_neg (by omega)]; exact hb w' b' e
    · simp only [hw, if_false]; exact ⟨⟨by cl, by cl, by cl, by cl, by cl⟩, by cl⟩
  | reset w =>
    simp only [cstep, sstep, hW', hp']
    by_cases hw : w < c.nW
    · simp only [hw, if_true]
      cases rk with
      | nullsPointer =>
        dsimp only
        refine ⟨⟨by cl, by cl, ?_, ?_, ?_⟩, by cl⟩
        · intro w'; simp only [upd]; split <;> simp [hp]
        · intro w' b; simp only [upd]; split
          · intro e; cases e
          · exact hl w' b
        · intro w' b; simp only [upd]; split
          · intro e; cases e
          · exact hb w' b
      | zeroesBlock =>
        dsimp only
        cases hpw : c.ptr w with
        | none => exact ⟨⟨by cl, by cl, by cl, by cl, by cl⟩, by cl⟩
        | some b =>
          dsimp only
          refine ⟨⟨by cl, by cl, by cl, by cl, ?_⟩, by cl⟩
          intro w' b' e
          dsimp only at e ⊢
          simp only [upd]
          by_cases hbb : b' = b
          · subst hbb; simp only [if_true, e]
          · simp only [if_neg hbb, e, hb w' b' e]
            rw [if_neg]; intro h2; exact hbb (Option.some.inj h2)
    · simp only [hw, if_false]; exact ⟨⟨by cl, by cl, by cl, by cl, by cl⟩, by cl⟩

theorem rel_run (rk : ResetKind) (ops : List (COp F)) (c : CState F) (s : SState F) (h : Rel c s) :
    Rel (crun rk c ops).1 (srun rk s ops).1 ∧ (crun rk c ops).2 = (srun rk s ops).2 := by
  induction ops generalizing c s with
  | nil => exact ⟨h, rfl⟩
  | cons op ops ih =>
    obtain ⟨h1, h2⟩ := rel_step rk c s h op
    obtain ⟨h3, h4⟩ := ih _ _ h1
    simp only [crun, srun]
    exact ⟨h3, by rw [h2, h4]⟩

/-- **`counter_eq_calls`** — for every sequence of create / call / copy / decouple / reset
    operations (any length), with the reset body the wrappers have (`evaluations->reset()`, see
    `wrapper_bodies`): every operation has the same outcome in the shared-pointer implementation
    and in the tally specification, and afterwards every wrapper reads (through its pointer)
    exactly its tally — i.e. the number of calls made through the wrappers of its sharing group
    since the group's last reset, where a copy joins the group of its source with the source's
    count, `decouple` leaves the group keeping the count, and `reset` zeroes the whole group. -/
theorem counter_eq_calls (ops : List (COp F)) :
    (crun .zeroesBlock CState.empty ops).2 = (srun .zeroesBlock SState.empty ops).2 ∧
    (crun .zeroesBlock CState.empty ops).1.nW = (srun .zeroesBlock SState.empty ops).1.nW ∧
    ∀ w f, (crun .zeroesBlock CState.empty ops).1.read w f =
      ((srun .zeroesBlock SState.empty ops).1.grp w).map fun _ =>
        (srun .zeroesBlock SState.empty ops).1.tally w f := by
  obtain ⟨h, ho⟩ := rel_run .zeroesBlock ops (CState.empty : CState F) SState.empty rel_empty
  refine ⟨ho, h.nW, ?_⟩
  intro w f
  unfold CState.read
  rw [← h.ptr w]
  cases hp : (crun .zeroesBlock CState.empty ops).1.ptr w with
  | none => rfl
  | some b => simp [h.blk w b hp]

/-- calls made since a given state: a call-only suffix adds, to the counter `f` read by wrapper
    `w`, exactly the number of calls of `f` made through wrappers that share `w`'s block. -/
def callOps (cs : List (Nat × F)) : List (COp F) := cs.map fun p => .call p.1 p.2

theorem calls_only_suffix (rk : ResetKind) (c : CState F) (cs : List (Nat × F)) (w : Nat) (f : F) :
    (crun rk c (callOps cs)).1.read w f =
      (c.read w f).map (· + (cs.filter fun p => p.2 = f ∧ p.1 < c.nW ∧ c.ptr p.1 = c.ptr w).length) := by
  induction cs generalizing c with
  | nil => simp [callOps, crun]
  | cons p cs ih =>
    have key : ∀ c' : CState F, c'.nW = c.nW → c'.ptr = c.ptr →
        (crun rk c' (callOps cs)).1.read w f =
          (c'.read w f).map (· + (cs.filter fun p => p.2 = f ∧ p.1 < c.nW ∧ c.ptr p.1 = c.ptr w).length) := by
      intro c' h1 h2; rw [ih c', h1, h2]
    simp only [callOps, List.map_cons, crun]
    change ((crun rk (cstep rk c (.call p.1 p.2)).1 (callOps cs)).1.read w f = _)
    by_cases hw : p.1 < c.nW
    · cases hp : c.ptr p.1 with
      | none =>
        have : (cstep rk c (.call p.1 p.2)).1 = c := by simp [cstep, hw, hp]
        rw [this, ih c]
        cases hr : c.ptr w with
        | none => simp [CState.read, hr]
        | some b => simp [CState.read, hr, List.filter_cons, hp]
      | some b =>
        have hs : (cstep rk c (.call p.1 p.2)).1 =
            { c with blk := upd c.blk b (updF (c.blk b) p.2 (c.blk b p.2 + 1)) } := by
          simp [cstep, hw, hp]
        rw [hs, key { c with blk := upd c.blk b (updF (c.blk b) p.2 (c.blk b p.2 + 1)) } rfl rfl]
        cases hr : c.ptr w with
        | none => simp [CState.read, hr]
        | some b' =>
          simp only [CState.read, hr, Option.map_some, List.filter_cons, hw, hp, true_and]
          by_cases hbb : b' = b
          · subst hbb
            by_cases hf : p.2 = f
            · subst hf; simp [upd, updF]; omega
            · simp [upd, updF, hf, Ne.symm hf]
          · have : ¬ (some b = some b') := fun h => hbb (Option.some.inj h).symm
            simp [upd, hbb, this]
    · have : (cstep rk c (.call p.1 p.2)).1 = c := by simp [cstep, hw]
      rw [this, ih c]
      cases hr : c.ptr w with
      | none => simp [CState.read, hr]
      | some b => simp [CState.read, hr, List.filter_cons, hw]

/-- with `evaluations->reset()` no wrapper ever holds a null pointer -/
theorem live_step (c : CState F) (op : COp F) (h : ∀ w, w < c.nW → (c.ptr w).isSome) :
    ∀ w, w < (cstep .zeroesBlock c op).1.nW → ((cstep .zeroesBlock c op).1.ptr w).isSome := by
  cases op with
  | create =>
    intro w hw; simp only [cstep, upd] at hw ⊢
    split
    · rfl
    · exact h w (by omega)
  | call w' f =>
    simp only [cstep]; split
    · split <;> exact h
    · exact h
  | copy w' =>
    simp only [cstep]; split
    · next hw' =>
      intro w hw; simp only [upd] at hw ⊢
      split
      · exact h w' hw'
      · exact h w (by omega)
    · exact h
  | decouple w' =>
    simp only [cstep]; split
    · split
      · exact h
      · intro w hw; simp only [upd] at hw ⊢
        split
        · rfl
        · exact h w hw
    · exact h
  | reset w' =>
    simp only [cstep]; split
    · split <;> exact h
    · exact h

theorem live_run (ops : List (COp F)) (c : CState F) (h : ∀ w, w < c.nW → (c.ptr w).isSome) :
    ∀ w, w < (crun .zeroesBlock c ops).1.nW → ((crun .zeroesBlock c ops).1.ptr w).isSome := by
  induction ops generalizing c with
  | nil => exact h
  | cons op ops ih => simp only [crun]; exact ih _ (live_step c op h)

/-- **`reset_keeps_usable`** (for the reset body `evaluations->reset()`): after *any* operation
    sequence, resetting any existing wrapper succeeds, all counters it reads are zero, and a
    following call through it succeeds and is counted (reads 1 for that function, 0 otherwise). -/
theorem reset_keeps_usable (ops : List (COp F)) (w : Nat) (f : F)
    (hw : w < (crun .zeroesBlock CState.empty ops).1.nW) :
    (cstep .zeroesBlock (crun .zeroesBlock CState.empty ops).1 (.reset w)).2 = .ok ∧
    (∀ g, (cstep .zeroesBlock (crun .zeroesBlock CState.empty ops).1 (.reset w)).1.read w g = some 0) ∧
    (cstep .zeroesBlock (cstep .zeroesBlock (crun .zeroesBlock CState.empty ops).1 (.reset w)).1 (.call w f)).2 = .ok ∧
    (∀ g, (cstep .zeroesBlock (cstep .zeroesBlock (crun .zeroesBlock CState.empty ops).1 (.reset w)).1
        (.call w f)).1.read w g = some (if g = f then 1 else 0)) := by
  have hl := live_run ops (CState.empty : CState F) (by intro w hw; simp [CState.empty] at hw) w hw
  generalize (crun .zeroesBlock CState.empty ops).1 = c at hw hl ⊢
  cases hp : c.ptr w with
  | none => simp [hp] at hl
  | some b =>
    refine ⟨by simp [cstep, hw, hp], ?_, by simp [cstep, hw, hp], ?_⟩
    · intro g; simp [cstep, hw, hp, CState.read, upd]
    · intro g; simp [cstep, hw, hp, CState.read, upd, updF]

/-- in the specification no wrapper is ever detached and no operation crashes: every wrapper
    that exists has a group, after any operation sequence (with `counter_eq_calls`: every counter
    read is defined) -/
theorem never_null (ops : List (COp F)) (w : Nat)
    (hw : w < (crun .zeroesBlock CState.empty ops).1.nW) :
    ((crun .zeroesBlock CState.empty ops).1.ptr w).isSome :=
  live_run ops (CState.empty : CState F) (by intro w hw; simp [CState.empty] at hw) w hw

/-- non-vacuity: a concrete history with sharing, decoupling and a reset, both reset bodies -/
example :
    let ops : List (COp Nat) := [.create, .call 0 3, .copy 0, .call 1 3, .decouple 1, .call 0 3,
                                 .call 1 5, .reset 0, .call 1 3]
    ((crun .zeroesBlock CState.empty ops).1.read 0 3, (crun .zeroesBlock CState.empty ops).1.read 1 3,
     (crun .zeroesBlock CState.empty ops).1.read 1 5) = (some 0, some 3, some 1) := by decide

end counters

/-- The bodies the counter model is about, read off the source: `reset_evaluations()` is
    `evaluations->reset()` (zeroes the shared block) in both wrappers, `EvalCounter::reset()` is
    `*this = {}` over `{}`-initialised fields, `decouple_evaluations()` clones the block, the
    wrappers have no user-declared copy operations (copies share the `std::shared_ptr`), and a new
    wrapper gets a fresh block. -/
theorem wrapper_bodies :
    [nlpWrapper, ocpWrapper].all (fun t => t.resetKind == .zeroesBlock && t.counterResetZeroes &&
      t.decoupleClones && t.copyShares && t.freshOnCreate) = true := by decide

/-! ## 3. `flags_truthful` -/

/-- a function reported as provided runs the problem's own member (no `not_implemented_error`).
    On the hand model this is the first line of `resolveNLP` (`if P f then own member`), i.e. it is
    *definitional*: that line is the text of `ALPAQA_TE_OPTIONAL_METHOD` (pinned by
    `te_macros_as_modelled`) and is tied to the code by the op-sequence correspondence.  The
    statements with content are in `Props/C20_Coverage.lean`: `dl_flags_truthful_nlp/_ocp`
    (reported-provided ⇔ the table member that the forwarding body dereferences is non-null, over
    the generated tables), `wrap_transparent_generated`, and `resolveNLP_absent_is_generated_default`
    (reported-absent ⇒ the generated default kind of that entry). -/
theorem flags_truthful_provided (P : String → Bool) (m0 : Bool) (f : String)
    (h : teProvides P f = true) : resolveNLP P m0 f = .calls [f] := by
  unfold teProvides at h
  simp [resolveNLP, h]

/-- a function reported as supported (`supports_eval_hess_ψ[_prod]`, or provided) never raises
    `not_implemented_error` — for every subset of optional functions and `m = 0` or not -/
theorem flags_truthful_supported (P : String → Bool) (m0 : Bool) (f : String) (hf : f ∈ nlpAll)
    (h : teSupports P m0 f = true) : ∀ msg, resolveNLP P m0 f ≠ .notImpl msg := by
  intro msg
  simp only [nlpAll, nlpRequired, nlpOptional, List.cons_append, List.nil_append, List.mem_cons,
    List.not_mem_nil, or_false] at hf
  by_cases hp : P f = true
  · simp [resolveNLP, hp]
  · rcases hf with rfl | rfl | rfl | rfl | rfl | rfl | rfl | rfl | rfl | rfl | rfl | rfl | rfl | rfl |
      rfl | rfl | rfl | rfl | rfl | rfl | rfl | rfl | rfl | rfl | rfl | rfl | rfl | rfl <;>
      simp_all [resolveNLP, teSupports]

/-- a function without computing default that is reported as absent (not provided, not
    supported) raises `not_implemented_error` naming exactly that function.  The one excluded
    point is `eval_jac_g` with `m = 0`: its default is the (empty) Jacobian of zero constraints. -/
theorem flags_truthful_absent (P : String → Bool) (m0 : Bool) (f : String) (hf : f ∈ nlpThrowing)
    (h : teSupports P m0 f = false) (hj : ¬ (f = "eval_jac_g" ∧ m0 = true)) :
    resolveNLP P m0 f = .notImpl f := by
  simp only [nlpThrowing, List.mem_cons, List.not_mem_nil, or_false] at hf
  rcases hf with rfl | rfl | rfl | rfl | rfl | rfl | rfl | rfl | rfl <;>
    simp_all [resolveNLP, teSupports]

/-- every other optional function has a computing default: never `not_implemented_error` -/
theorem defaults_fill_in (P : String → Bool) (m0 : Bool) (f : String) (hf : f ∈ nlpAll)
    (hn : f ∉ nlpThrowing) : ∀ msg, resolveNLP P m0 f ≠ .notImpl msg := by
  intro msg
  simp only [nlpAll, nlpRequired, nlpOptional, List.cons_append, List.nil_append, List.mem_cons,
    List.not_mem_nil, or_false] at hf
  by_cases hp : P f = true
  · simp [resolveNLP, hp]
  · rcases hf with rfl | rfl | rfl | rfl | rfl | rfl | rfl | rfl | rfl | rfl | rfl | rfl | rfl | rfl |
      rfl | rfl | rfl | rfl | rfl | rfl | rfl | rfl | rfl | rfl | rfl | rfl | rfl | rfl <;>
      first
      | (exfalso; revert hn; decide)
      | (simp only [resolveNLP, hp]; (repeat' split) <;> simp_all [Outcome.seq])

theorem ocpModelDefault_ne_null (g : String) : ocpModelDefault g ≠ .null := by
  unfold ocpModelDefault; split <;> simp

theorem ocpAbsent_ne_null (g : String) : ocpAbsent g ≠ .nullCall := by
  unfold ocpAbsent
  have := ocpModelDefault_ne_null g
  split <;> simp_all

/-- no type-erased OCP function is ever a call through a null vtable entry -/
theorem resolveOCP_ne_null (P : String → Bool) (f : String) : resolveOCP P f ≠ .nullCall := by
  unfold resolveOCP
  simp only []
  repeat' split
  all_goals first
    | exact ocpAbsent_ne_null _
    | simp

/-- OCP: provided ⇒ own member runs; an absent entry without computing default raises
    `not_implemented_error` (naming it, two older ones with a `default_` prefix); a null vtable
    entry is never called (`resolveOCP_ne_null`). -/
theorem flags_truthful_ocp (P : String → Bool) (f : String) :
    (P f = true → resolveOCP P f = .calls [f]) ∧
    (P f = false → f ∈ ["get_D", "eval_h", "eval_h_N", "eval_constr", "eval_grad_constr_prod",
        "eval_add_gn_hess_constr"] → resolveOCP P f = .notImpl f) ∧
    (P f = false → f ∈ ["eval_add_R_prod_masked", "eval_add_S_prod_masked"] →
      resolveOCP P f = .notImpl ("default_" ++ f)) := by
  refine ⟨fun h => by simp [resolveOCP, h], ?_, ?_⟩
  · intro hp hf
    simp only [List.mem_cons, List.not_mem_nil, or_false] at hf
    rcases hf with rfl | rfl | rfl | rfl | rfl | rfl <;>
      simp [resolveOCP, hp, ocpRequired, ocpAbsent, ocpModelDefault]
  · intro hp hf
    simp only [List.mem_cons, List.not_mem_nil, or_false] at hf
    rcases hf with rfl | rfl <;> simp [resolveOCP, hp, ocpRequired, ocpAbsent, ocpModelDefault] <;> rfl

/-- The loader is transparent for capability flags: through `DLProblem`, the type-erased
    `provides_X` is true iff the plug-in's table member `X` is non-null, for every plug-in table
    (any subset of members) — for each optional function with a plain test. -/
def dlPlain : List String :=
  ["eval_jac_g", "get_jac_g_sparsity", "eval_grad_gi", "eval_hess_L_prod", "eval_hess_L",
   "get_hess_L_sparsity", "eval_hess_ψ_prod", "eval_hess_ψ", "get_hess_ψ_sparsity", "eval_f_grad_f",
   "eval_f_g", "eval_grad_f_grad_g_prod", "eval_grad_L", "eval_ψ", "eval_grad_ψ", "eval_ψ_grad_ψ"]

def dlPlainOK (t : DLTable) (f : String) : Bool :=
  t.declared.contains f && t.prov.any (·.method == f) &&
  (t.prov.find? (·.method == f)).map (·.test) == some (.nonnull f)

theorem dl_plain_ok : dlPlain.all (dlPlainOK dlNLP) = true := by decide

theorem dl_flags_transparent (tbl : FnTable) (base : String → Bool) (f : String) (hf : f ∈ dlPlain) :
    (dlNLP.native tbl base).provided f = tbl f := by
  have h := dl_plain_ok
  rw [List.all_eq_true] at h
  have h1 := h f hf
  unfold dlPlainOK at h1
  simp only [Bool.and_eq_true, beq_iff_eq] at h1
  obtain ⟨⟨h1, h2⟩, h3⟩ := h1
  unfold DLTable.native Native.provided
  cases hp : dlNLP.prov.find? (·.method == f) with
  | none => simp [hp] at h3
  | some p =>
    simp only [hp, Option.map_some, Option.some.injEq] at h3
    have h1' : f ∈ dlNLP.declared := by simpa using h1
    simp [h1', h2, hp, h3, PExpr.eval]

/-! ## 4. `loader_decision` -/

theorem descr_all_complete (d : PluginDescr) : d ∈ PluginDescr.all := by
  obtain ⟨a, b, v, c, e, x, h⟩ := d
  cases a <;> cases b <;> cases v <;> cases c <;> cases e <;> cases x <;> cases h <;> decide

/-- **`loader_decision` (NLP)** — `DLProblem`'s constructor, interpreted step by step from the
    generated check list (with the exception hierarchy of dl-problem.hpp), answers for *every*
    plug-in description exactly what the documented decision table says; in particular an ABI
    mismatch reported by `<name>_version()` is a load failure. -/
theorem loader_decision_nlp (d : PluginDescr) :
    load invalidAbiDerivesFromDynamicLoadError dlNLP.ctor d = loadSpec false d := by
  have h : PluginDescr.all.all (fun d => load invalidAbiDerivesFromDynamicLoadError dlNLP.ctor d ==
      loadSpec false d) = true := by decide
  rw [List.all_eq_true] at h
  exact beq_iff_eq.mp (h d (descr_all_complete d))

/-- **`loader_decision` (OCP)** — same table for `DLControlProblem`, constructor as written. -/
theorem loader_decision_ocp (d : PluginDescr) :
    load invalidAbiDerivesFromDynamicLoadError dlOCP.ctor d = loadSpec false d := by
  have h : PluginDescr.all.all (fun d => load invalidAbiDerivesFromDynamicLoadError dlOCP.ctor d ==
      loadSpec false d) = true := by decide
  rw [List.all_eq_true] at h
  exact beq_iff_eq.mp (h d (descr_all_complete d))

/-- a well-formed plug-in loads (both loaders); a version function reporting another ABI is rejected -/
example :
    load invalidAbiDerivesFromDynamicLoadError dlOCP.ctor ⟨false, true, .good, true, true, false, true⟩ = .ok false ∧
    load invalidAbiDerivesFromDynamicLoadError dlNLP.ctor ⟨false, true, .good, true, true, false, true⟩ = .ok false ∧
    load invalidAbiDerivesFromDynamicLoadError dlNLP.ctor ⟨false, true, .mismatch, true, true, false, true⟩ =
      .error .abiMismatch := by decide

/-- a plug-in with every load failure the property lists is rejected with the documented kind -/
example :
    loadSpec false ⟨false, true, .good, false, true, false, true⟩ = .error .missingSymbol ∧
    loadSpec false ⟨false, true, .good, true, false, false, true⟩ = .error .abiMismatch ∧
    loadSpec false ⟨false, true, .mismatch, true, true, false, true⟩ = .error .abiMismatch ∧
    loadSpec false ⟨false, true, .good, true, true, true, true⟩ = .error .pluginException ∧
    loadSpec false ⟨false, true, .good, true, true, false, false⟩ = .error .noFunctions ∧
    loadSpec false ⟨false, true, .missing, true, true, false, true⟩ = .ok true ∧
    loadSpec false ⟨false, true, .good, true, true, false, true⟩ = .ok false := by decide

/-! ## Summary statements under the names used in DESIGN.md §6 C20 -/

/-- **`forward_transparent`**: both counting wrappers and both loaders forward every entry to the
    entry of the same name with the same arguments (C ABI: in the typedef's order), count it in the
    counter of the same name, and guard / report it through the member of the same name. -/
theorem forward_transparent :
    nlpWrapper.fwd.all FwdEntry.diagonal = true ∧ ocpWrapper.fwd.all FwdEntry.diagonal = true ∧
    nlpWrapper.prov.all ProvEntry.diagonal = true ∧
    ocpWrapper.prov.all ProvEntry.diagonal = true ∧
    covers nlpWrapper nlpTE [] = true ∧ covers ocpWrapper ocpTE [] = true ∧
    dlNLP.fwd.all (fun e => e.member == e.method && e.abiOk abiNLP) = true ∧
    dlOCP.fwd.all (fun e => e.member == e.method && e.abiOk abiOCP) = true ∧
    dlProvidesStandard dlNLP ["get_box_C", "get_box_D", "eval_inactive_indices_res_lna"] = true ∧
    dlProvidesStandard dlOCP [] = true :=
  ⟨forward_transparent_nlp, forward_transparent_ocp, provides_forward_nlp, provides_forward_ocp,
   wrapper_covers_vtable.1, wrapper_covers_vtable.2, by decide, by decide,
   dl_provides_tests_called.1, dl_provides_tests_called.2.1⟩

/-- **`flags_truthful`** (NLP vtable, every subset of optional functions, `m = 0` or not). -/
theorem flags_truthful (P : String → Bool) (m0 : Bool) (f : String) (hf : f ∈ nlpAll) :
    (teProvides P f = true → resolveNLP P m0 f = .calls [f]) ∧
    (teSupports P m0 f = true → ∀ msg, resolveNLP P m0 f ≠ .notImpl msg) ∧
    (f ∈ nlpThrowing → teSupports P m0 f = false → ¬ (f = "eval_jac_g" ∧ m0 = true) →
      resolveNLP P m0 f = .notImpl f) :=
  ⟨flags_truthful_provided P m0 f, flags_truthful_supported P m0 f hf,
   fun h1 h2 h3 => flags_truthful_absent P m0 f h1 h2 h3⟩

/-- **`loader_decision`**: both constructors implement the documented decision table for every
    plug-in description. -/
theorem loader_decision (d : PluginDescr) :
    load invalidAbiDerivesFromDynamicLoadError dlNLP.ctor d = loadSpec false d ∧
    load invalidAbiDerivesFromDynamicLoadError dlOCP.ctor d = loadSpec false d :=
  ⟨loader_decision_nlp d, loader_decision_ocp d⟩

end Alpaqa.Props.C20
