/-
  C06 for PANOC-OCP — exit status, iteration count and reported residual mean what is documented.

  For every evaluator oracle, direction oracle (all Gauss-Newton / L-BFGS schedules), stop schedule,
  time-limit oracle and budget, any carrier: a solve that returns (no exception) either returned early
  with `NotFinite` before the first iteration, or its statistics are those of the exit block at a loop
  head — `iterations = k ≤ max_iter`, `status` = the generated chain `statusChainOcp` evaluated at that
  head, `ε` = the generated criterion `calcErrorStopCritOcp` of the final (current) iterate.
  `ocp_no_progress_counter`: the counter handed to the chain is `npRun` of the "storage vector unchanged" flags
  between consecutive progress callbacks.  `ocp_result_meaning_fuelOK`: the same facts over ordered fields
  with the explicit fuel bound `FuelOK` instead of `fuelOut = false`.
  (`max_no_progress = 0`: since /repo commit f7343661f the update tests every iteration instead of dividing
  by zero; the generated statement is a model of the code for every `max_no_progress`.)
-/
import Alpaqa.Proofs.OcpLoop
import Alpaqa.Proofs.OcpLs
import Alpaqa.Proofs.OcpFuel
import Alpaqa.Proofs.OcpExample
import Alpaqa.Proofs.OcpDoc
import Alpaqa.Proofs.OcpDescent

namespace Alpaqa.Props.C06_Ocp
open Alpaqa Alpaqa.Ocp Alpaqa.Gen
set_option linter.unusedSectionVars false
set_option linter.unusedVariables false

variable {α D : Type} [Add α] [Sub α] [Mul α] [Div α] [Neg α] [LT α] [LE α] [DecidableLT α]
  [DecidableLE α] [BEq α] [RealLike α] [NatCast α] [OfScientific α]
  [OfNat α 0] [OfNat α 1] [OfNat α 2] [OfNat α 100]

/-- Where a solve can end: early `NotFinite` return, an exception, or the exit block at a loop head. -/
theorem ocp_run_cases (O : Oracles α) (dir : Dir D α) (P : Prob α) (d0 : D) (pr : Params α)
    (stop : Nat → Bool) (oot : Bool) (u0 y mu errz0 gV gQ : Vec α) (gS e0 : α)
    (hτ : TauSentinelOK α)
    (hfuel : (run O dir P d0 pr stop oot u0 y mu errz0 gV gQ gS e0).fuelOut = false) :
    ((run O dir P d0 pr stop oot u0 y mu errz0 gV gQ gS e0).stats.status = .NotFinite ∧
      (run O dir P d0 pr stop oot u0 y mu errz0 gV gQ gS e0).stats.iterations = 0 ∧
      (run O dir P d0 pr stop oot u0 y mu errz0 gV gQ gS e0).wrote = false ∧
      (run O dir P d0 pr stop oot u0 y mu errz0 gV gQ gS e0).callbacks = []) ∨
    (run O dir P d0 pr stop oot u0 y mu errz0 gV gQ gS e0).exc ≠ .none ∨
    ExitAtHead O P pr stop oot u0 y mu errz0 (run O dir P d0 pr stop oot u0 y mu errz0 gV gQ gS e0) := by
  unfold run at hfuel ⊢
  cases hi : initState O P d0 pr stop u0 gV gQ gS e0 with
  | inl t => left; simp [stats0]
  | inr s =>
    right
    simp only [hi] at hfuel ⊢
    have hs := initState_good O P d0 pr stop u0 gV gQ gS e0 s hi
    refine mainLoop_spec O dir P pr stop oot u0 y mu errz0 _ s hs.1 (by rw [hs.2]; omega) hτ ?_ hfuel
    rcases Bool.eq_false_or_eq_true s.fuelOut with hc | hc
    · have := mainLoop_fuelOut_mono O dir P pr stop oot u0 y mu errz0 (pr.maxIter + 2) s hc
      rw [this] at hfuel; exact absurd hfuel (by decide)
    · exact hc

/-- **Iteration count**: the number of iterations reported never exceeds `max_iter`. -/
theorem ocp_iterations_le_max_iter (O : Oracles α) (dir : Dir D α) (P : Prob α) (d0 : D)
    (pr : Params α) (stop : Nat → Bool) (oot : Bool) (u0 y mu errz0 gV gQ : Vec α) (gS e0 : α)
    (hτ : TauSentinelOK α)
    (hfuel : (run O dir P d0 pr stop oot u0 y mu errz0 gV gQ gS e0).fuelOut = false)
    (hex : (run O dir P d0 pr stop oot u0 y mu errz0 gV gQ gS e0).exc = .none) :
    (run O dir P d0 pr stop oot u0 y mu errz0 gV gQ gS e0).stats.iterations ≤ pr.maxIter := by
  rcases ocp_run_cases O dir P d0 pr stop oot u0 y mu errz0 gV gQ gS e0 hτ hfuel with h | h | h
  · rw [h.2.1]; omega
  · exact absurd hex h
  · obtain ⟨sh, eps, status, _, hk, _, _, _, hr⟩ := h
    rw [hr]; simpa [exitBlock] using hk

/-- **Status and residual**: whenever the progress callback ran at least once (i.e. the loop was
    entered) and the solver returned, the reported status is the generated chain evaluated at the last
    loop head with the reported ε, and ε is the generated criterion of the final iterate. -/
theorem ocp_status_and_eps (O : Oracles α) (dir : Dir D α) (P : Prob α) (d0 : D)
    (pr : Params α) (stop : Nat → Bool) (oot : Bool) (u0 y mu errz0 gV gQ : Vec α) (gS e0 : α)
    (hτ : TauSentinelOK α)
    (hfuel : (run O dir P d0 pr stop oot u0 y mu errz0 gV gQ gS e0).fuelOut = false)
    (hex : (run O dir P d0 pr stop oot u0 y mu errz0 gV gQ gS e0).exc = .none)
    (hcb : (run O dir P d0 pr stop oot u0 y mu errz0 gV gQ gS e0).callbacks ≠ []) :
    ∃ (it : Iterate α) (k np tick : Nat),
      (run O dir P d0 pr stop oot u0 y mu errz0 gV gQ gS e0).final = some it ∧ Good O P it ∧
      (run O dir P d0 pr stop oot u0 y mu errz0 gV gQ gS e0).stats.iterations = k ∧
      epsOf P pr it = some (run O dir P d0 pr stop oot u0 y mu errz0 gV gQ gS e0).stats.eps ∧
      (run O dir P d0 pr stop oot u0 y mu errz0 gV gQ gS e0).stats.status =
        statusChainOcp pr.tolerance pr.maxIter pr.maxNoProgress k
          (run O dir P d0 pr stop oot u0 y mu errz0 gV gQ gS e0).stats.eps np oot (stop tick) ∧
      (run O dir P d0 pr stop oot u0 y mu errz0 gV gQ gS e0).stats.status ≠ .Busy := by
  rcases ocp_run_cases O dir P d0 pr stop oot u0 y mu errz0 gV gQ gS e0 hτ hfuel with h | h | h
  · exact absurd h.2.2.2 hcb
  · exact absurd hex h
  · obtain ⟨sh, eps, status, hg, hk, he, hst, hnb, hr⟩ := h
    refine ⟨sh.curr, sh.k, sh.noProgress, sh.tick, ?_, hg, ?_, ?_, ?_, ?_⟩ <;> rw [hr]
    · simp [exitBlock]
    · simp [exitBlock]
    · simpa [exitBlock] using he
    · simpa [exitBlock, statusOf] using hst
    · simpa [exitBlock] using hnb

/-- `Converged` is reported exactly when the reported ε meets the effective tolerance
    (`tolerance > 0 ? tolerance : 1e-8`) at that head — `Props.C06.converged_iff` for the OCP chain. -/
theorem ocp_converged_iff (tol : α) (maxIter maxNP k : Nat) (ε : α) (np : Nat) (oot intr : Bool) :
    statusChainOcp tol maxIter maxNP k ε np oot intr = .Converged ↔ ε ≤ Props.C06.effTol tol := by
  rw [Props.C06.chains_agree]; exact Props.C06.converged_iff tol maxIter maxNP k ε np oot intr

/-- The four criteria this solver does not implement make it throw, the other six return a value. -/
theorem ocp_unsupported_throws (P : Prob α) (pr : Params α) (c : Iterate α) :
    (epsOf P pr c).isNone =
      decide (pr.stopCrit ∈ [.ApproxKKT, .ApproxKKT2, .Ipopt, .LBFGSBpp]) := by
  unfold epsOf
  cases pr.stopCrit <;> rfl

example : (PANOCStopCrit.ApproxKKT ∈ [PANOCStopCrit.ApproxKKT, .ApproxKKT2, .Ipopt, .LBFGSBpp]) := by
  decide

/-! ### The no-progress counter: what it is

`check_all_stop_conditions` receives `no_progress`; PANOC-OCP updates it after every *accepted* iteration
with the generated statement `noProgressUpdate` on the flag `curr->xu == next->xu` (whole storage vectors:
inputs and states).  Both iterates are observable: `curr` is the iterate handed to the progress callback
of that iteration, `next` is the iterate handed to the following callback.  So the counter at the deciding
check is `npRun` (`Props/C06`) of the "unchanged" flags of *consecutive callbacks* of the solve. -/

/-- `curr->xu == next->xu` -/
def sameIt (a b : Iterate α) : Bool := a.u == b.u && a.traj == b.traj

/-- "iterate unchanged" flags between consecutive progress callbacks (oldest first) -/
def cbFlags : List (Callback α) → List Bool
  | a :: b :: rest => sameIt a.it b.it :: cbFlags (b :: rest)
  | _ => []

/-- the same flags for the callbacks so far (newest first) followed by the current iterate -/
def flagsNF (cur : Iterate α) : List (Callback α) → List Bool
  | [] => []
  | cb :: rest => flagsNF cb.it rest ++ [sameIt cb.it cur]

theorem cbFlags_snoc (l : List (Callback α)) (a b : Callback α) :
    cbFlags (l ++ [a, b]) = cbFlags (l ++ [a]) ++ [sameIt a.it b.it] := by
  induction l with
  | nil => simp [cbFlags]
  | cons x xs ih =>
    cases xs with
    | nil => simp [cbFlags]
    | cons z zs =>
      simp only [List.cons_append, cbFlags] at ih ⊢
      rw [ih]

theorem cbFlags_reverse (f : Callback α) (cbs : List (Callback α)) :
    cbFlags ((f :: cbs).reverse) = flagsNF f.it cbs := by
  induction cbs generalizing f with
  | nil => simp [cbFlags, flagsNF]
  | cons cb rest ih =>
    have : (f :: cb :: rest).reverse = rest.reverse ++ [cb, f] := by simp
    rw [this, cbFlags_snoc, flagsNF]
    have h2 : rest.reverse ++ [cb] = (cb :: rest).reverse := by simp
    rw [h2, ih]

theorem flagsNF_length (cur : Iterate α) (cbs : List (Callback α)) :
    (flagsNF cur cbs).length = cbs.length := by
  induction cbs generalizing cur with
  | nil => rfl
  | cons cb rest ih => simp [flagsNF, ih]

/-- the invariant: the counter is `npRun` of the flags seen so far, one flag per accepted iteration -/
def NpInv (pr : Params α) (s : St α D) : Prop :=
  s.noProgress = Props.C06.npRun pr.maxNoProgress 0 0 (flagsNF s.curr s.cbs) ∧ s.cbs.length = s.k

theorem headStep_cbs_eq (P : Prob α) (pr : Params α) (stop : Nat → Bool) (oot : Bool) (s : St α D) :
    (headStep P pr stop oot s).1.cbs = s.cbs := by
  unfold headStep; simp only []; split <;> rfl

theorem iterBody_np (O : Oracles α) (dir : Dir D α) (P : Prob α) (pr : Params α) (stop : Nat → Bool)
    (s : St α D) (eps : α) (h : NpInv pr s) : NpInv pr (iterBody O dir P pr stop s eps).1 := by
  unfold iterBody
  simp only []
  split_ifs
  · exact h
  · exact h
  · unfold acceptStep NpInv
    simp only [flagsNF, List.length_cons]
    obtain ⟨h1, h2⟩ := h
    refine ⟨?_, by rw [h2]⟩
    rw [Props.C06.npRun_append_single, Nat.zero_add, flagsNF_length, h2, ← h1]
    congr 1
    unfold sameIt
    rcases updateStage_fields dir pr s.curr
      (lineSearch O dir P pr stop s.curr (directionStage dir P pr s).q (directionStage dir P pr s).tauInit
        (decide (pr.gnInterval > 0) && ((s.k + 1) % pr.gnInterval == 0) && !pr.disableAccel) pr.lsFuel
        { next := { s.next with gamma := s.curr.gamma, L := s.curr.L }, d := (directionStage dir P pr s).d,
          tick := (directionStage dir P pr s).tick, tau := (directionStage dir P pr s).tauInit,
          tauPrev := -1,
          doGnStep := (decide (pr.gnInterval > 0) && ((s.k + 1) % pr.gnInterval == 0) && !pr.disableAccel)
            || (s.doGnStep && pr.gnSticky),
          lsBacktracks := 0, stepsizeBacktracks := 0 }).next _ _ (directionStage dir P pr s).didGn
      with hu | hu <;> rw [hu]

/-- What the counter is, for every result of the main loop that is an exit at a loop head. -/
theorem mainLoop_np (O : Oracles α) (dir : Dir D α) (P : Prob α) (pr : Params α) (stop : Nat → Bool)
    (oot : Bool) (u0 y mu errz0 : Vec α) (fuel : Nat) (s : St α D) (h : NpInv pr s) :
    match (mainLoop O dir P pr stop oot u0 y mu errz0 fuel s).lastHead with
    | none => True
    | some hd =>
      hd.2.2.2.1 = Props.C06.npRun pr.maxNoProgress 0 0
        (cbFlags (mainLoop O dir P pr stop oot u0 y mu errz0 fuel s).callbacks) ∧
      (cbFlags (mainLoop O dir P pr stop oot u0 y mu errz0 fuel s).callbacks).length = hd.2.2.1 ∧
      hd.1 = (mainLoop O dir P pr stop oot u0 y mu errz0 fuel s).stats.eps ∧
      hd.2.1 = (mainLoop O dir P pr stop oot u0 y mu errz0 fuel s).stats.status ∧
      hd.2.2.1 = (mainLoop O dir P pr stop oot u0 y mu errz0 fuel s).stats.iterations ∧
      hd.2.1 = statusChainOcp pr.tolerance pr.maxIter pr.maxNoProgress hd.2.2.1 hd.1 hd.2.2.2.1 oot
        (stop hd.2.2.2.2) := by
  induction fuel generalizing s with
  | zero => simp [mainLoop, excResult]
  | succ f ih =>
    unfold mainLoop
    have hc := headStep_curr P pr stop oot s
    have hcb := headStep_cbs_eq P pr stop oot s
    have hsnd := headStep_snd P pr stop oot s
    have hh : NpInv pr (headStep P pr stop oot s).1 := by
      unfold NpInv; rw [hc.1, hcb, hc.2.2.1, hc.2.2.2.2]; exact h
    cases hes : (headStep P pr stop oot s).2 with
    | none => simp [excResult]
    | some es =>
      simp only []
      split_ifs
      · simp only [exitBlock]
        rw [cbFlags_reverse, flagsNF_length]
        refine ⟨hh.1, hh.2, by first | rfl | trivial, by first | rfl | trivial, by first | rfl | trivial, ?_⟩
        rw [hes] at hsnd
        cases hep : epsOf P pr s.curr with
        | none => rw [hep] at hsnd; simp at hsnd
        | some e0 =>
          rw [hep] at hsnd
          simp only [Option.map_some, Option.some.injEq] at hsnd
          rw [hc.2.2.1, hc.2.2.2.2, hc.2.2.2.1, hsnd]
          rfl
      · simp [excResult]
      · exact ih _ (iterBody_np O dir P pr stop _ es.1 hh)

/-- **The no-progress counter of a solve.**  For a solve that returned from a loop head (`lastHead`
    records ε, status, `k`, the counter and the tick of that check): the counter handed to
    `check_all_stop_conditions` is `npRun max_no_progress 0 0` of the flags "storage vector unchanged"
    between *consecutive progress callbacks* (`cbFlags callbacks`, one per iteration), and the returned
    status is the generated chain evaluated with that counter.  Hence `NoProgress` is returned only after
    more than `max_no_progress` consecutive trailing iterations whose reported iterates are all equal (for
    every `max_no_progress`, 0 included: `Props/C06.noProgressUpdate_spec`). -/
theorem ocp_no_progress_counter (O : Oracles α) (dir : Dir D α) (P : Prob α) (d0 : D)
    (pr : Params α) (stop : Nat → Bool) (oot : Bool) (u0 y mu errz0 gV gQ : Vec α) (gS e0 : α)
    (eps : α) (status : SolverStatus) (k np tick : Nat)
    (hl : (run O dir P d0 pr stop oot u0 y mu errz0 gV gQ gS e0).lastHead = some (eps, status, k, np, tick)) :
    np = Props.C06.npRun pr.maxNoProgress 0 0
      (cbFlags (run O dir P d0 pr stop oot u0 y mu errz0 gV gQ gS e0).callbacks) ∧
    (cbFlags (run O dir P d0 pr stop oot u0 y mu errz0 gV gQ gS e0).callbacks).length = k ∧
    (run O dir P d0 pr stop oot u0 y mu errz0 gV gQ gS e0).stats.iterations = k ∧
    (run O dir P d0 pr stop oot u0 y mu errz0 gV gQ gS e0).stats.eps = eps ∧
    (run O dir P d0 pr stop oot u0 y mu errz0 gV gQ gS e0).stats.status = status ∧
    status = statusChainOcp pr.tolerance pr.maxIter pr.maxNoProgress k eps np oot (stop tick) ∧
    (status = .NoProgress →
      pr.maxNoProgress < ((cbFlags (run O dir P d0 pr stop oot u0 y mu errz0 gV gQ gS e0).callbacks).reverse.takeWhile
        (· = true)).length) := by
  unfold run at hl ⊢
  cases hi : initState O P d0 pr stop u0 gV gQ gS e0 with
  | inl t => rw [hi] at hl; simp at hl
  | inr s =>
    simp only [hi] at hl ⊢
    have hinit : NpInv pr s := by
      unfold initState at hi
      simp only [] at hi
      split_ifs at hi
      injection hi with hi
      subst hi
      exact ⟨by simp [flagsNF, Props.C06.npRun], rfl⟩
    have hm := mainLoop_np O dir P pr stop oot u0 y mu errz0 (pr.maxIter + 2) s hinit
    rw [hl] at hm
    simp only [] at hm
    obtain ⟨h1, h2, h3, h4, h5, h6⟩ := hm
    refine ⟨h1, h2, h5.symm, h3.symm, h4.symm, h6, ?_⟩
    intro hnp
    rw [hnp] at h6
    have hgt := Props.C06.noProgress_only_if pr.tolerance pr.maxIter pr.maxNoProgress k eps np oot
      (stop tick) h6.symm
    have hle := Props.C06.no_progress_counts_consecutive pr.maxNoProgress
      (cbFlags (mainLoop O dir P pr stop oot u0 y mu errz0 (pr.maxIter + 2) s).callbacks) 0
    rw [← h1] at hle
    omega

/-! ### With the explicit fuel bound (linearly ordered fields) -/
section field
variable {α D : Type} [Field α] [LinearOrder α] [IsStrictOrderedRing α] [RealLike α]

theorem tauSentinelOK : TauSentinelOK α := by
  constructor <;> simp [bne_iff_ne] <;> norm_num

/-- **Iteration count, status and residual under `FuelOK`** (no `fuelOut` hypothesis): a solve that does
    not throw reports `iterations ≤ max_iter`; if the loop was entered, the status is the generated chain at
    the last head evaluated with the reported ε, ε is the generated criterion of the final iterate, and
    `Converged ⇔ ε ≤ tolerance'`. -/
theorem ocp_result_meaning_fuelOK (O : Oracles α) (dir : Dir D α) (P : Prob α) (d0 : D)
    (pr : Params α) (stop : Nat → Bool) (oot : Bool) (u0 y mu errz0 gV gQ : Vec α) (gS e0 : α)
    (nL nτ : Nat) (hp : FuelOK pr nL nτ)
    (hex : (run O dir P d0 pr stop oot u0 y mu errz0 gV gQ gS e0).exc = .none) :
    (run O dir P d0 pr stop oot u0 y mu errz0 gV gQ gS e0).stats.iterations ≤ pr.maxIter ∧
    ((run O dir P d0 pr stop oot u0 y mu errz0 gV gQ gS e0).callbacks ≠ [] →
      (∃ (it : Iterate α) (k np tick : Nat),
        (run O dir P d0 pr stop oot u0 y mu errz0 gV gQ gS e0).final = some it ∧ Good O P it ∧
        (run O dir P d0 pr stop oot u0 y mu errz0 gV gQ gS e0).stats.iterations = k ∧
        epsOf P pr it = some (run O dir P d0 pr stop oot u0 y mu errz0 gV gQ gS e0).stats.eps ∧
        (run O dir P d0 pr stop oot u0 y mu errz0 gV gQ gS e0).stats.status =
          statusChainOcp pr.tolerance pr.maxIter pr.maxNoProgress k
            (run O dir P d0 pr stop oot u0 y mu errz0 gV gQ gS e0).stats.eps np oot (stop tick) ∧
        (run O dir P d0 pr stop oot u0 y mu errz0 gV gQ gS e0).stats.status ≠ .Busy) ∧
      ((run O dir P d0 pr stop oot u0 y mu errz0 gV gQ gS e0).stats.status = .Converged ↔
        (run O dir P d0 pr stop oot u0 y mu errz0 gV gQ gS e0).stats.eps ≤ Props.C06.effTol pr.tolerance)) := by
  have hfuel := run_fuelOut_false O dir P d0 pr stop oot u0 y mu errz0 gV gQ gS e0 nL nτ hp
  refine ⟨ocp_iterations_le_max_iter O dir P d0 pr stop oot u0 y mu errz0 gV gQ gS e0 tauSentinelOK hfuel hex,
    fun hcb => ?_⟩
  have h := ocp_status_and_eps O dir P d0 pr stop oot u0 y mu errz0 gV gQ gS e0 tauSentinelOK hfuel hex hcb
  refine ⟨h, ?_⟩
  obtain ⟨it, k, np, tick, _, _, _, _, hst, _⟩ := h
  rw [hst]
  exact ocp_converged_iff _ _ _ _ _ _ _ _

/-- **`ε` is the documented criterion of the projected-gradient data of the written-back point.**  For a
    solve that returned from a loop head (no exception, progress callback ran), with `it` the iterate that
    was current there (`Result.final`, also the iterate of the final callback):
    `γ > 0`; `it.traj` is the forward oracle's roll-out of `it.u` and `it.∇ψ` the backward oracle's answer on
    it; `it.û = Π_U(it.u − γ it.∇ψ)`, `it.p = it.û − it.u` (computed by `eval_prox_impl` itself); the returned
    `ε` is `docCritOcp` (`Proofs/OcpDoc`: the documented measure `‖u − Π_U(u − γ∇ψ)‖` of the selected one of
    the six supported criteria, from `docRes`) of `(γ, it.u, it.∇ψ)`; the written-back `u` is `it.û`.
    Hypotheses: `0 < Lγ_factor`, `FuelOK` (fuel, `L > 0`), no NaN. -/
theorem ocp_eps_is_documented (hnn : ∀ x : α, RealLike.isNaN x = false)
    (O : Oracles α) (dir : Dir D α) (P : Prob α) (d0 : D)
    (pr : Params α) (stop : Nat → Bool) (oot : Bool) (u0 y mu errz0 gV gQ : Vec α) (gS e0 : α)
    (hpos : 0 < pr.LgammaFactor) (nL nτ : Nat) (hp : FuelOK pr nL nτ)
    (hex : (run O dir P d0 pr stop oot u0 y mu errz0 gV gQ gS e0).exc = .none)
    (hcb : (run O dir P d0 pr stop oot u0 y mu errz0 gV gQ gS e0).callbacks ≠ []) :
    ∃ it : Iterate α,
      (run O dir P d0 pr stop oot u0 y mu errz0 gV gQ gS e0).final = some it ∧
      ((run O dir P d0 pr stop oot u0 y mu errz0 gV gQ gS e0).callbacks.getLast?).map (·.it) = some it ∧
      0 < it.gamma ∧ it.traj = (O.fwd it.u).2 ∧ it.gradPsi = O.bwd it.u it.traj ∧
      it.uhat = projGradV it.gamma it.u it.gradPsi (tile P.N P.Ulb) (tile P.N P.Uub) ∧
      it.p = projStepV it.gamma it.u it.gradPsi (tile P.N P.Ulb) (tile P.N P.Uub) ∧
      docCritOcp P pr.stopCrit it.gamma it.u it.gradPsi =
        some (run O dir P d0 pr stop oot u0 y mu errz0 gV gQ gS e0).stats.eps ∧
      ((run O dir P d0 pr stop oot u0 y mu errz0 gV gQ gS e0).wrote = true →
        (run O dir P d0 pr stop oot u0 y mu errz0 gV gQ gS e0).u = it.uhat) := by
  have hfuel := run_fuelOut_false O dir P d0 pr stop oot u0 y mu errz0 gV gQ gS e0 nL nτ hp
  have hcbs := (run_callbacks_ok False O dir P d0 pr (fun h => h.elim) hpos nL nτ hp stop oot
    u0 y mu errz0 gV gQ gS e0).2
  rcases ocp_run_cases O dir P d0 pr stop oot u0 y mu errz0 gV gQ gS e0 tauSentinelOK hfuel with h | h | h
  · exact absurd h.2.2.2 hcb
  · exact absurd hex h
  · obtain ⟨sh, eps, status, hg, hk, he, hst, hnb, hr⟩ := h
    have hlast : ∃ cb : Callback α, cb ∈ (run O dir P d0 pr stop oot u0 y mu errz0 gV gQ gS e0).callbacks ∧
        cb.it = sh.curr ∧
        ((run O dir P d0 pr stop oot u0 y mu errz0 gV gQ gS e0).callbacks.getLast?) = some cb := by
      have hc : ∃ cb : Callback α, (exitBlock P pr sh eps status u0 y mu errz0).callbacks = (cb :: sh.cbs).reverse ∧
          cb.it = sh.curr := ⟨_, rfl, rfl⟩
      obtain ⟨cb, hc1, hc2⟩ := hc
      rw [hr, hc1]
      exact ⟨cb, by simp, hc2, by simp⟩
    obtain ⟨cb, hmem, hit, hgl⟩ := hlast
    have hγ : 0 < sh.curr.gamma := by rw [← hit]; exact (hcbs cb hmem).gok.1
    have hux : sh.curr.uhat = (evalProxImpl P sh.curr.gamma sh.curr.u sh.curr.gradPsi).1 :=
      congrArg Prod.fst hg.2.1
    have hpx : sh.curr.p = (evalProxImpl P sh.curr.gamma sh.curr.u sh.curr.gradPsi).2.1 :=
      congrArg (fun t => t.2.1) hg.2.1
    refine ⟨sh.curr, by rw [hr]; simp [exitBlock], by rw [hgl, Option.map_some, hit], hγ, hg.1.1, hg.1.2.2,
      ?_, ?_, ?_, ?_⟩
    · rw [hux, ← projStepV_eq_proj hnn]; rfl
    · rw [hpx]; rfl
    · rw [← epsOf_eq_docCritOcp hnn P pr sh.curr hg.2.1, he, hr]; simp [exitBlock]
    · intro hw
      rw [hr] at hw ⊢
      simp only [exitBlock] at hw ⊢
      rw [if_pos hw]
      exact writeSolution_u _ _ _ _ _ _

end field

/-! ### Non-vacuity on concrete runs of `Ocp.run` (`Proofs/OcpExample`) -/
section run_examples
open Alpaqa.Ocp.Example

theorem fuelOK_prN : FuelOK prN 23 9 :=
  ⟨by norm_num [prN, prA], by norm_num [prN, prA], by norm_num [prN, prA], fun _ => by norm_num [prN, prA],
    by norm_num [prN, prA], by norm_num [prN, prA]⟩

/-- statuses reached by the example runs: `Converged` (k = 1 and k = 2), `MaxIter` (budget 0 and 2),
    `Interrupted`, `NoProgress`; an unsupported criterion throws -/
example : (rA .ProjGradNorm none).stats.status = .Converged ∧ (rA .ProjGradNorm none).stats.iterations = 1 ∧
    (rC .ProjGradNorm none).stats.status = .Converged ∧ (rC .ProjGradNorm none).stats.iterations = 2 ∧
    rM.stats.status = .MaxIter ∧ rM.stats.iterations = 0 ∧
    (rL none).stats.status = .MaxIter ∧ (rL none).stats.iterations = 2 ∧
    (rA .ProjGradNorm (some 25)).stats.status = .Interrupted ∧
    rN.stats.status = .NoProgress ∧ rN.stats.iterations = 3 ∧
    (rA .ApproxKKT none).exc = .invalidArgument ∧ (rA .ApproxKKT none).wrote = false := by
  decide +kernel

/-- `ocp_result_meaning_fuelOK` instantiated on the `NoProgress` run -/
example : rN.stats.iterations ≤ prN.maxIter :=
  (ocp_result_meaning_fuelOK OA dirZero PA () prN (stopAt none) false [1, 1/2] [] [] [] [] [] 0 0 23 9
    fuelOK_prN (by decide +kernel)).1

/-- `ocp_eps_is_documented` instantiated on the L-BFGS run `rC` (`Converged` after two iterations, nonzero
    residual), every hypothesis discharged; the value: `ε = ‖u − Π_U(u − γ∇ψ(u))‖∞ = 80579/1024000` -/
example : ∃ it : Iterate ℚ, (rC .ProjGradNorm none).final = some it ∧ 0 < it.gamma ∧
    it.gradPsi = OA.bwd it.u it.traj ∧
    docCritOcp PA .ProjGradNorm it.gamma it.u it.gradPsi = some (rC .ProjGradNorm none).stats.eps := by
  obtain ⟨it, h1, _, h3, _, h5, _, _, h8, _⟩ := ocp_eps_is_documented (fun _ => rfl) OA (dirOf 1 3) PA ()
    (prC .ProjGradNorm) (stopAt none) false [1, 1/2] [] [] [] [] [] 0 0 (by norm_num [prC, prA]) 23 9
    ⟨by norm_num [prC, prA], by norm_num [prC, prA], by norm_num [prC, prA], fun _ => by norm_num [prC, prA],
      by norm_num [prC, prA], by norm_num [prC, prA]⟩ (by decide +kernel) (by decide +kernel)
  exact ⟨it, h1, h3, h5, h8⟩
example : docCritOcp PA .ProjGradNorm (19/80) [1327/6400, -1067/12800] [4241/12800, 13/320]
    = some (80579/1024000) := by decide +kernel

/-- `ocp_no_progress_counter` instantiated: the direction oracle `q = 0` with strictness 0 leaves the
    iterate unchanged in every iteration; flags `[true, true, true]`, counter `3 > max_no_progress = 2` at the
    head of iteration 3 -/
example : cbFlags rN.callbacks = [true, true, true] ∧
    rN.lastHead.map (fun h => (h.2.1, h.2.2.1, h.2.2.2.1)) = some (.NoProgress, 3, 3) := by
  decide +kernel
example : 3 = Props.C06.npRun prN.maxNoProgress 0 0 (cbFlags rN.callbacks) ∧
    (prN.maxNoProgress < ((cbFlags rN.callbacks).reverse.takeWhile (· = true)).length) := by
  have hl : rN.lastHead = some (rN.stats.eps, .NoProgress, 3, 3, 73) := by decide +kernel
  have h := ocp_no_progress_counter OA dirZero PA () prN (stopAt none) false [1, 1/2] [] [] [] [] [] 0 0
    _ _ _ _ _ hl
  exact ⟨h.1, h.2.2.2.2.2.2 rfl⟩

/-- `max_no_progress = 0` (the repaired update tests every iteration): `NoProgress` right after the first
    iteration that left the iterate unchanged -/
example : rN0.stats.status = .NoProgress ∧ rN0.stats.iterations = 1 ∧ cbFlags rN0.callbacks = [true] := by
  decide +kernel

end run_examples

end Alpaqa.Props.C06_Ocp
