/-
  C06 for PANOC-OCP — exit status, iteration count and reported residual mean what is documented.

  For every evaluator oracle, direction oracle (all Gauss-Newton / L-BFGS schedules), stop schedule,
  time-limit oracle and budget, any carrier: a solve that returns (no exception) either returned early
  with `NotFinite` before the first iteration, or its statistics are those of the exit block at a loop
  head — `iterations = k ≤ max_iter`, `status` = the generated chain `statusChainOcp` evaluated at that
  head, `ε` = the generated criterion `calcErrorStopCritOcp` of the final (current) iterate.
-/
import Alpaqa.Proofs.OcpLoop

namespace Alpaqa.Props.C06_Ocp
open Alpaqa Alpaqa.Ocp Alpaqa.Gen
set_option linter.unusedSectionVars false
set_option linter.unusedVariables false

variable {α D : Type} [Add α] [Sub α] [Mul α] [Div α] [Neg α] [LT α] [LE α] [DecidableLT α]
  [DecidableLE α] [BEq α] [RealLike α] [NatCast α] [OfScientific α]
  [OfNat α 0] [OfNat α 1] [OfNat α 2] [OfNat α 100]

/-- Where a solve can end: early `NotFinite` return, an exception, or the exit block at a loop head. -/
theorem ocp_run_cases (O : Oracles α) (dir : Dir D α) (P : Prob α) (d0 : D) (pr : Params α)
    (stop : Nat → Bool) (oot : Bool) (u0 y mu errz0 gV gQ : Vec α) (gS e0 : α)
    (hτ : TauSentinelOK α)
    (hfuel : (run O dir P d0 pr stop oot u0 y mu errz0 gV gQ gS e0).fuelOut = false) :
    ((run O dir P d0 pr stop oot u0 y mu errz0 gV gQ gS e0).stats.status = .NotFinite ∧
      (run O dir P d0 pr stop oot u0 y mu errz0 gV gQ gS e0).stats.iterations = 0 ∧
      (run O dir P d0 pr stop oot u0 y mu errz0 gV gQ gS e0).wrote = false ∧
      (run O dir P d0 pr stop oot u0 y mu errz0 gV gQ gS e0).callbacks = []) ∨
    (run O dir P d0 pr stop oot u0 y mu errz0 gV gQ gS e0).exc ≠ .none ∨
    ExitAtHead O P pr stop oot u0 y mu errz0 (run O dir P d0 pr stop oot u0 y mu errz0 gV gQ gS e0) := by
  unfold run at hfuel ⊢
  cases hi : initState O P d0 pr stop u0 gV gQ gS e0 with
  | inl t => left; simp [stats0]
  | inr s =>
    right
    simp only [hi] at hfuel ⊢
    have hs := initState_good O P d0 pr stop u0 gV gQ gS e0 s hi
    refine mainLoop_spec O dir P pr stop oot u0 y mu errz0 _ s hs.1 (by rw [hs.2]; omega) hτ ?_ hfuel
    rcases Bool.eq_false_or_eq_true s.fuelOut with hc | hc
    · have := mainLoop_fuelOut_mono O dir P pr stop oot u0 y mu errz0 (pr.maxIter + 2) s hc
      rw [this] at hfuel; exact absurd hfuel (by decide)
    · exact hc

/-- **Iteration count**: the number of iterations reported never exceeds `max_iter`. -/
theorem ocp_iterations_le_max_iter (O : Oracles α) (dir : Dir D α) (P : Prob α) (d0 : D)
    (pr : Params α) (stop : Nat → Bool) (oot : Bool) (u0 y mu errz0 gV gQ : Vec α) (gS e0 : α)
    (hτ : TauSentinelOK α)
    (hfuel : (run O dir P d0 pr stop oot u0 y mu errz0 gV gQ gS e0).fuelOut = false)
    (hex : (run O dir P d0 pr stop oot u0 y mu errz0 gV gQ gS e0).exc = .none) :
    (run O dir P d0 pr stop oot u0 y mu errz0 gV gQ gS e0).stats.iterations ≤ pr.maxIter := by
  rcases ocp_run_cases O dir P d0 pr stop oot u0 y mu errz0 gV gQ gS e0 hτ hfuel with h | h | h
  · rw [h.2.1]; omega
  · exact absurd hex h
  · obtain ⟨sh, eps, status, _, hk, _, _, _, hr⟩ := h
    rw [hr]; simpa [exitBlock] using hk

/-- **Status and residual**: whenever the progress callback ran at least once (i.e. the loop was
    entered) and the solver returned, the reported status is the generated chain evaluated at the last
    loop head with the reported ε, and ε is the generated criterion of the final iterate. -/
theorem ocp_status_and_eps (O : Oracles α) (dir : Dir D α) (P : Prob α) (d0 : D)
    (pr : Params α) (stop : Nat → Bool) (oot : Bool) (u0 y mu errz0 gV gQ : Vec α) (gS e0 : α)
    (hτ : TauSentinelOK α)
    (hfuel : (run O dir P d0 pr stop oot u0 y mu errz0 gV gQ gS e0).fuelOut = false)
    (hex : (run O dir P d0 pr stop oot u0 y mu errz0 gV gQ gS e0).exc = .none)
    (hcb : (run O dir P d0 pr stop oot u0 y mu errz0 gV gQ gS e0).callbacks ≠ []) :
    ∃ (it : Iterate α) (k np tick : Nat),
      (run O dir P d0 pr stop oot u0 y mu errz0 gV gQ gS e0).final = some it ∧ Good O P it ∧
      (run O dir P d0 pr stop oot u0 y mu errz0 gV gQ gS e0).stats.iterations = k ∧
      epsOf P pr it = some (run O dir P d0 pr stop oot u0 y mu errz0 gV gQ gS e0).stats.eps ∧
      (run O dir P d0 pr stop oot u0 y mu errz0 gV gQ gS e0).stats.status =
        statusChainOcp pr.tolerance pr.maxIter pr.maxNoProgress k
          (run O dir P d0 pr stop oot u0 y mu errz0 gV gQ gS e0).stats.eps np oot (stop tick) ∧
      (run O dir P d0 pr stop oot u0 y mu errz0 gV gQ gS e0).stats.status ≠ .Busy := by
  rcases ocp_run_cases O dir P d0 pr stop oot u0 y mu errz0 gV gQ gS e0 hτ hfuel with h | h | h
  · exact absurd h.2.2.2 hcb
  · exact absurd hex h
  · obtain ⟨sh, eps, status, hg, hk, he, hst, hnb, hr⟩ := h
    refine ⟨sh.curr, sh.k, sh.noProgress, sh.tick, ?_, hg, ?_, ?_, ?_, ?_⟩ <;> rw [hr]
    · simp [exitBlock]
    · simp [exitBlock]
    · simpa [exitBlock] using he
    · simpa [exitBlock, statusOf] using hst
    · simpa [exitBlock] using hnb

/-- `Converged` is reported exactly when the reported ε meets the effective tolerance
    (`tolerance > 0 ? tolerance : 1e-8`) at that head — `Props.C06.converged_iff` for the OCP chain. -/
theorem ocp_converged_iff (tol : α) (maxIter maxNP k : Nat) (ε : α) (np : Nat) (oot intr : Bool) :
    statusChainOcp tol maxIter maxNP k ε np oot intr = .Converged ↔ ε ≤ Props.C06.effTol tol := by
  rw [Props.C06.chains_agree]; exact Props.C06.converged_iff tol maxIter maxNP k ε np oot intr

/-- The four criteria this solver does not implement make it throw, the other six return a value. -/
theorem ocp_unsupported_throws (P : Prob α) (pr : Params α) (c : Iterate α) :
    (epsOf P pr c).isNone =
      decide (pr.stopCrit ∈ [.ApproxKKT, .ApproxKKT2, .Ipopt, .LBFGSBpp]) := by
  unfold epsOf
  cases pr.stopCrit <;> rfl

example : (PANOCStopCrit.ApproxKKT ∈ [PANOCStopCrit.ApproxKKT, .ApproxKKT2, .Ipopt, .LBFGSBpp]) := by
  decide

end Alpaqa.Props.C06_Ocp
