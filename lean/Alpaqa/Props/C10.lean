/-
  C10 — Limited-memory QR and Anderson acceleration match their least-squares definition.

  The index arithmetic and scalar formulas (`lmqrSucc`, `lmqrPred`, `circInc`, `circDec`,
  `lmqrAddIdx`, `lmqrRemoveIdx`, `aaAlpha0/Mid/Last`, `aaMem`, …) are regenerated from /repo's C++ on
  every run (`Alpaqa/Gen/C10.lean`); the loop skeletons (`Alpaqa/Model/C10.lean`) are tied to the real
  `alpaqa::LimitedMemoryQR<EigenConfigd>` / `alpaqa::AndersonAccel<EigenConfigd>` by a bit-exact
  op-sequence correspondence (`checks/c10.py`).  All theorems hold over every linearly ordered field,
  for every capacity `m ≥ 1`, dimension `n`, and every operation history within capacity (no bound).

  What "R upper triangular, QR = A" means here: `get_R()` of the C++ returns the *upper-triangular
  view* of the ring-ordered `q_idx × q_idx` block of the raw storage (entries below the diagonal are
  stale by design: `remove_column` never zeroes them).  `LMQR.getR` is that view, `getR_upper` says
  it is upper triangular, and `Represents s A` says `Q · get_R() = A` on rows `< n`.  So the content
  of "R stays upper triangular" is that no operation ever relies on a below-diagonal entry.

  Oracles: `giv` = `Eigen::JacobiRotation::makeGivens` with the contract `GivensOK`; `std::sqrt` with
  `SqrtLaw` (only for orthonormality).  Hypothesis forced on `add_column`: the `norm_q` it divides by
  is nonzero (`hnz`).  At the excluded point (a column in the span of the window, e.g. the zero
  vector or a repeated column) the real code divides by zero and stores NaN — recorded as a known
  finding by the monitor of `checks/c10.py`.

  Partial (see the comment at `history_orthonormal_partial`): the benefit of the *re*orthogonalisation loop
  and `min_eig` / `max_eig` are modelled and carried through every proof, but nothing is proved about
  conditioning in floating point; in exact arithmetic reorthogonalisation is a no-op on an orthonormal
  `Q` and the bookkeeping identity holds for any number of passes.
-/
import Alpaqa.Proofs.C10History
import Mathlib.Analysis.Real.Sqrt
import Mathlib.Tactic.NormNum

namespace Alpaqa.Props.C10
open Finset Alpaqa Alpaqa.Gen Alpaqa.C10
set_option linter.unusedSectionVars false
set_option linter.unusedVariables false

section
variable {α : Type} [Field α] [LinearOrder α] [IsStrictOrderedRing α] [RealLike α]

/-! ### 1. Ring refinement (index arithmetic regenerated from the C++) -/

/-- `r_succ` / `r_pred` are `+1` / `−1` modulo the capacity and invert each other. -/
theorem ring_succ_pred {m i : ℕ} (hi : i < m) :
    lmqrSucc m i = (i + 1) % m ∧ lmqrPred m i = (i + m - 1) % m ∧
    lmqrPred m (lmqrSucc m i) = i ∧ lmqrSucc m (lmqrPred m i) = i :=
  ⟨lmqrSucc_eq hi, lmqrPred_eq hi, lmqrPred_succ hi, lmqrSucc_pred hi⟩

/-- `CircularIndexIterator::operator++ / --` on a valid circular index. -/
theorem circ_iterator_steps {max zb ci : ℕ} (hc : ci < max) :
    circInc max zb ci = (zb + 1, (ci + 1) % max) ∧ circDec max zb ci = (zb - 1, (ci + max - 1) % max) :=
  ⟨circInc_eq hc, circDec_eq hc⟩

/-- `ring_iter()` yields logical `j ↦` storage `(r_idx_start + j) mod m` for `j < q_idx`. -/
theorem ring_iter_logical (s : LMQR α) (h : RingInv s) :
    s.ringFwd = (List.range s.qIdx).map fun j => (j, (s.rStart + j) % s.m) := ringFwd_eq s h

/-- `ring_reverse_iter()` is the reverse of `ring_iter()`. -/
theorem ring_reverse_iter_reverse (s : LMQR α) (h : RingInv s) : s.ringRev = s.ringFwd.reverse :=
  ringRev_eq s h

/-- the storage columns of one window are pairwise distinct (also when the ring is full) -/
theorem ring_slots_distinct (s : LMQR α) (h : RingInv s) {a b : ℕ} (hab : a < b) (hb : b < s.qIdx) :
    s.slot a ≠ s.slot b := by
  unfold LMQR.slot; exact slot_inj hab (by have := h.cap; omega)

/-! ### 2. Single operations -/

/-- `get_R()` is upper triangular. -/
theorem getR_upper_triangular (s : LMQR α) {i k : ℕ} (h : k < i) : s.getR i k = 0 := getR_upper s h

/-- `add_column`: the indices advance as the ring refinement demands, and `[A v] = Q'R'` — a
    bookkeeping identity of Modified Gram–Schmidt that holds regardless of the orthogonality of `Q`
    and of the number of reorthogonalisation passes. -/
theorem addColumn_QR (fuel : ℕ) (s : LMQR α) (h : RingInv s) (hK : s.qIdx < s.m) (v : ℕ → α)
    (hnz : (addCore fuel s v).2.2.1 ≠ 0) (A : ℕ → ℕ → α) (hA : Represents s A) :
    RingInv (s.addColumn fuel v) ∧ (s.addColumn fuel v).qIdx = s.qIdx + 1 ∧
    Represents (s.addColumn fuel v) (fun k => if k = s.qIdx then v else A k) :=
  ⟨addColumn_ring fuel s h hK v, (addColumn_idx fuel s v).1, addColumn_represents fuel s h hK v hnz A hA⟩

/-- `add_column` keeps `QᵀQ = I` (exact arithmetic; lawful `sqrt`). -/
theorem addColumn_orthonormal (hs : SqrtLaw α) (fuel : ℕ) (s : LMQR α) (h : RingInv s)
    (hK : s.qIdx < s.m) (v : ℕ → α) (hnz : (addCore fuel s v).2.2.1 ≠ 0) (hO : Orth s) :
    Orth (s.addColumn fuel v) := addColumn_orth hs fuel s h hK v hnz hO

/-- `remove_column`: under the Givens contract, `Q'R'` = `A` without its first column, using only the
    upper triangle of `R'` (Hessenberg invariant through the sweep), and the ring head advances. -/
theorem removeColumn_QR (giv : α → α → α × α × α) (hg : GivensOK giv) (s : LMQR α) (h : RingInv s)
    (hK : 0 < s.qIdx) (A : ℕ → ℕ → α) (hA : Represents s A) :
    RingInv (s.removeColumn giv) ∧ (s.removeColumn giv).qIdx = s.qIdx - 1 ∧
    (s.removeColumn giv).rStart = (s.rStart + 1) % s.m ∧
    Represents (s.removeColumn giv) (fun k => A (k + 1)) :=
  ⟨removeColumn_ring giv s h hK, (removeColumn_idx giv s h hK).1, (removeColumn_idx giv s h hK).2.1,
    removeColumn_represents giv hg s h hK A hA⟩

/-- the Givens sweep keeps the remaining columns of `Q` orthonormal -/
theorem removeColumn_orthonormal (giv : α → α → α × α × α) (hg : GivensOK giv) (s : LMQR α)
    (h : RingInv s) (hK : 0 < s.qIdx) (hO : Orth s) : Orth (s.removeColumn giv) :=
  removeColumn_orth giv hg s h hK hO

/-- `scale_R(c)`: every entry of `get_R()` is multiplied once, so the window is scaled by `c`. -/
theorem scaleR_QR (s : LMQR α) (h : RingInv s) (c : α) (A : ℕ → ℕ → α) (hA : Represents s A) :
    RingInv (s.scaleR c) ∧ (∀ i, ∀ k < s.qIdx, (s.scaleR c).getR i k = s.getR i k * c) ∧
    Represents (s.scaleR c) (fun k j => A k j * c) :=
  ⟨scaleR_ring s h c, fun i k hk => scaleR_getR s h c hk, scaleR_represents s h c A hA⟩

/-- `solve_col`: back substitution over the ring.  Rows whose pivot passes the threshold satisfy
    their row of `R x = Qᵀ b` (pivot nonzero — automatic for `tol > 0`), rows below the threshold get
    `x = 0`, entries `≥ q_idx` are untouched. -/
theorem solveCol_backsubst (s : LMQR α) (h : RingInv s) (b x0 : ℕ → α) (tol : α) :
    (∀ k, s.qIdx ≤ k → s.solveCol b x0 tol k = x0 k) ∧
    ∀ r < s.qIdx,
      (|s.getR r r| < tol → s.solveCol b x0 tol r = 0) ∧
      (¬ |s.getR r r| < tol → s.getR r r ≠ 0 →
        ∑ k ∈ range s.qIdx, s.getR r k * s.solveCol b x0 tol k = ∑ j ∈ range s.n, s.Q.get j r * b j) :=
  Alpaqa.C10.solveCol_backsubst s h b x0 tol

/-- `QᵀQ = I`, `A = QR`, `R x = Qᵀ b` ⇒ `x` minimises `‖A z − b‖²` (normal equations; sums of
    squares only, no square root). -/
theorem ls_optimal (n K : ℕ) (Q Ru A : ℕ → ℕ → α)
    (hA : ∀ k < K, ∀ j < n, ∑ i ∈ range K, Q j i * Ru i k = A k j)
    (hO : ∀ a < K, ∀ c < K, ∑ j ∈ range n, Q j a * Q j c = if a = c then 1 else 0)
    (b x : ℕ → α) (hx : ∀ r < K, ∑ k ∈ range K, Ru r k * x k = ∑ j ∈ range n, Q j r * b j) :
    ∀ z : ℕ → α, ∑ j ∈ range n, (∑ k ∈ range K, A k j * x k - b j) ^ 2 ≤
                  ∑ j ∈ range n, (∑ k ∈ range K, A k j * z k - b j) ^ 2 :=
  Alpaqa.C10.ls_optimal n K Q Ru A hA hO b x hx

/-- … and with `R` nonsingular upper triangular the minimiser is unique. -/
theorem ls_unique (n K : ℕ) (Q Ru A : ℕ → ℕ → α)
    (hA : ∀ k < K, ∀ j < n, ∑ i ∈ range K, Q j i * Ru i k = A k j)
    (hO : ∀ a < K, ∀ c < K, ∑ j ∈ range n, Q j a * Q j c = if a = c then 1 else 0)
    (b x : ℕ → α) (hx : ∀ r < K, ∑ k ∈ range K, Ru r k * x k = ∑ j ∈ range n, Q j r * b j)
    (hd : ∀ r < K, Ru r r ≠ 0) (hU : ∀ i k, k < i → Ru i k = 0) (z : ℕ → α)
    (hz : ∑ j ∈ range n, (∑ k ∈ range K, A k j * z k - b j) ^ 2 ≤
          ∑ j ∈ range n, (∑ k ∈ range K, A k j * x k - b j) ^ 2) :
    ∀ k < K, z k = x k :=
  Alpaqa.C10.ls_unique n K Q Ru A hA hO hd hU b x hx z hz

/-! ### 3. All operation histories within capacity -/

/-- States reachable from the constructor `LimitedMemoryQR(n, m)` by `add_column` (below capacity,
    with a nonzero `norm_q`), `remove_column` (non-empty), `reset`, `scale_R`, together with the
    window of columns (oldest first) the history defines. -/
inductive Reach (fuel : ℕ) (giv : α → α → α × α × α) (inf : α) (n m : ℕ) :
    LMQR α → List (ℕ → α) → Prop
  | new : Reach fuel giv inf n m (LMQR.new inf n m) []
  | add {s A} (v : ℕ → α) : Reach fuel giv inf n m s A → s.qIdx < m →
      (addCore fuel s v).2.2.1 ≠ 0 → Reach fuel giv inf n m (s.addColumn fuel v) (A ++ [v])
  | remove {s A} : Reach fuel giv inf n m s A → 0 < s.qIdx →
      Reach fuel giv inf n m (s.removeColumn giv) A.tail
  | reset {s A} : Reach fuel giv inf n m s A → Reach fuel giv inf n m (s.reset inf) []
  | scale {s A} (c : α) : Reach fuel giv inf n m s A →
      Reach fuel giv inf n m (s.scaleR c) (A.map fun col j => col j * c)

/-- **Ring refinement + `QR = A` for every history**: sizes are kept, `q_idx` is the window length,
    `r_idx_end = (r_idx_start + q_idx) mod m` with `r_idx_start < m`, `q_idx ≤ m`, and
    `Q · get_R()` is the window. -/
theorem history_invariant {fuel : ℕ} {giv : α → α → α × α × α} (hg : GivensOK giv) {inf : α}
    {n m : ℕ} (hm : 0 < m) {s : LMQR α} {A : List (ℕ → α)} (h : Reach fuel giv inf n m s A) :
    s.n = n ∧ s.m = m ∧ s.qIdx = A.length ∧ s.qIdx ≤ m ∧ s.rStart < m ∧
    s.rEnd = (s.rStart + s.qIdx) % m ∧ Represents s (winFn A) := by
  have key : QRInv n m s A := by
    induction h with
    | new => exact QRInv.new inf n m hm
    | add v _ hK hnz ih => exact ih.add fuel hK v hnz
    | remove _ hK ih => exact ih.remove giv hg hK
    | reset _ ih => exact ih.reset inf
    | scale c _ ih => exact ih.scale c
  refine ⟨key.hn, key.hm, key.len, ?_, ?_, ?_, key.repr⟩
  · rw [← key.hm]; exact key.ring.cap
  · rw [← key.hm]; exact key.ring.start_lt
  · rw [← key.hm]; exact key.ring.end_eq

theorem history_qrinv {fuel : ℕ} {giv : α → α → α × α × α} (hg : GivensOK giv) {inf : α}
    {n m : ℕ} (hm : 0 < m) {s : LMQR α} {A : List (ℕ → α)} (h : Reach fuel giv inf n m s A) :
    QRInv n m s A := by
  induction h with
  | new => exact QRInv.new inf n m hm
  | add v _ hK hnz ih => exact ih.add fuel hK v hnz
  | remove _ hK ih => exact ih.remove giv hg hK
  | reset _ ih => exact ih.reset inf
  | scale c _ ih => exact ih.scale c

/-- **`QᵀQ = I` for every history** (exact arithmetic).
    PARTIAL with respect to the property's "all column values incl. nearly dependent ones": this is
    the real-number statement.  In binary64 the loss of orthogonality of MGS on nearly dependent
    columns, and its repair by the reorthogonalisation loop (`while norm_q < η·norm_v`), is numerical;
    it is not proved, only monitored (`‖QᵀQ − I‖ ≤ 1e-10` on windows with condition number ≤ 1e5).
    Full statement that is *not* proved: for binary64 inputs with cond(A) ≤ κ, the computed `Q`
    satisfies `‖QᵀQ − I‖ ≤ c(n, m)·ε` after any history. -/
theorem history_orthonormal_partial (hs : SqrtLaw α) {fuel : ℕ} {giv : α → α → α × α × α}
    (hg : GivensOK giv) {inf : α} {n m : ℕ} (hm : 0 < m) {s : LMQR α} {A : List (ℕ → α)}
    (h : Reach fuel giv inf n m s A) : Orth s := by
  induction h with
  | new => intro a ha; rw [(new_idx inf n m).1] at ha; omega
  | @add s A v hr hK hnz ih =>
    have hq := history_qrinv hg hm hr
    exact addColumn_orth hs fuel s hq.ring (by rw [hq.hm]; exact hK) v hnz ih
  | @remove s A hr hK ih =>
    exact removeColumn_orth giv hg s (history_qrinv hg hm hr).ring hK ih
  | reset _ _ => exact reset_orth inf _
  | scale c _ ih => exact scaleR_orth _ c ih

/-- **End to end**: after any history, `solve_col(b, x, tol)` returns a least-squares minimiser of
    `‖A z − b‖` over the current window `A`, provided every pivot passes the threshold and is nonzero
    (components with pivots below the threshold are set to zero: `solveCol_backsubst`). -/
theorem history_solve_least_squares (hs : SqrtLaw α) {fuel : ℕ} {giv : α → α → α × α × α}
    (hg : GivensOK giv) {inf : α} {n m : ℕ} (hm : 0 < m) {s : LMQR α} {A : List (ℕ → α)}
    (h : Reach fuel giv inf n m s A) (b x0 : ℕ → α) (tol : α)
    (hp : ∀ r < A.length, ¬ |s.getR r r| < tol ∧ s.getR r r ≠ 0) :
    ∀ z : ℕ → α,
      ∑ j ∈ range n, (∑ k ∈ range A.length, winFn A k j * s.solveCol b x0 tol k - b j) ^ 2 ≤
      ∑ j ∈ range n, (∑ k ∈ range A.length, winFn A k j * z k - b j) ^ 2 := by
  have hq := history_qrinv hg hm h
  have hO := history_orthonormal_partial hs hg hm h
  intro z
  have := solveCol_ls s hq.ring (winFn A) hq.repr hO b x0 tol (by rw [hq.len]; exact hp) z
  rw [hq.hn, hq.len] at this
  exact this

/-! ### 4. Anderson acceleration -/

/-- `m_AA = min(n, memory)` (anderson.hpp `resize`), and that is the capacity of the QR and of `G`. -/
theorem anderson_memory (inf : α) (memory : ℕ) (mdf : α) (n : ℕ) :
    aaMem n memory = min n memory ∧ (AA.new inf memory mdf n).qr.m = min n memory ∧
    (AA.new inf memory mdf n).qr.n = n :=
  ⟨rfl, (AA.new_sizes inf memory mdf n).2.2, (AA.new_sizes inf memory mdf n).2.1⟩

/-- `Σ αᵢ = 1`: the coefficients `α₀ = γ₀`, `αᵢ = γᵢ − γᵢ₋₁`, `α_K = 1 − γ_{K−1}` exactly as computed in
    anderson-helpers.hpp (regenerated) telescope. -/
theorem anderson_coeff_sum_one (gam : ℕ → α) (K : ℕ) (hK : 0 < K) :
    ∑ i ∈ range (K + 1), aaCoef gam K i = 1 := aaCoef_sum gam K hK

/-- `anderson_affine` at storage level: `xₖ_aa = Σ_{i<K} αᵢ G(:, slot i) + α_K gₖ`, `Σ αᵢ = 1`. -/
theorem anderson_affine (fuel : ℕ) (giv : α → α → α × α × α) (a : AA α) (gk rk : ℕ → α)
    (hR : RingInv (a.qrNext fuel giv rk)) (hK : 0 < (a.qrNext fuel giv rk).qIdx) :
    (∑ i ∈ range ((a.qrNext fuel giv rk).qIdx + 1),
        aaCoef (readV (a.computeCore fuel giv gk rk).1.gamLS) (a.qrNext fuel giv rk).qIdx i = 1) ∧
    ∀ j < a.n, readV (a.computeCore fuel giv gk rk).2 j =
      ∑ i ∈ range (a.qrNext fuel giv rk).qIdx,
          aaCoef (readV (a.computeCore fuel giv gk rk).1.gamLS) (a.qrNext fuel giv rk).qIdx i *
            a.G.get j ((a.qrNext fuel giv rk).slot i) +
        aaCoef (readV (a.computeCore fuel giv gk rk).1.gamLS) (a.qrNext fuel giv rk).qIdx
            (a.qrNext fuel giv rk).qIdx * gk j :=
  computeCore_affine fuel giv a gk rk hR hK

/-- States of `AndersonAccel(params, n)` reachable by `initialize`, `compute` (with a nonzero `norm_q`
    in its `add_column`), `reset`, `scale_R`, with the abstract history: `W` = residual differences in
    the window (oldest first), `gs` = the function values that go with them (one more than `W`; the
    last is the newest), `rl` = last residual. -/
inductive AReach (fuel : ℕ) (giv : α → α → α × α × α) (inf : α) (memory : ℕ) (mdf : α) (n : ℕ) :
    AA α → List (ℕ → α) → List (ℕ → α) → (ℕ → α) → Prop
  | init (g0 r0 : ℕ → α) :
      AReach fuel giv inf memory mdf n ((AA.new inf memory mdf n).initialize inf g0 r0) [] [g0] r0
  | reinit {a W gs rl} (g0 r0 : ℕ → α) : AReach fuel giv inf memory mdf n a W gs rl →
      AReach fuel giv inf memory mdf n (a.initialize inf g0 r0) [] [g0] r0
  | compute {a W gs rl} (g r : ℕ → α) : AReach fuel giv inf memory mdf n a W gs rl →
      (addCore fuel (a.qr1 giv) (fun j => r j - readV a.rLast j)).2.2.1 ≠ 0 →
      AReach fuel giv inf memory mdf n (a.computeCore fuel giv g r).1
        (aaNextW (min n memory) W rl r) (aaNextG (min n memory) W gs g) r
  | reset {a W gs rl} : AReach fuel giv inf memory mdf n a W gs rl →
      AReach fuel giv inf memory mdf n (a.reset inf) [] [winFn gs W.length] rl
  | scale {a W gs rl} (c : α) : AReach fuel giv inf memory mdf n a W gs rl →
      AReach fuel giv inf memory mdf n (a.scaleR c) (W.map fun col j => col j * c) gs rl

/-- **Every Anderson history**: the QR inside represents the window of residual differences with a
    valid ring, and the `G` ring stays aligned with the `R` ring (the `G.col(ring_tail) = gₖ` store and
    the copy in `reset`). -/
theorem anderson_history {fuel : ℕ} {giv : α → α → α × α × α} (hg : GivensOK giv) {inf : α}
    {memory : ℕ} {mdf : α} {n : ℕ} (hm : 0 < min n memory) {a : AA α} {W gs : List (ℕ → α)}
    {rl : ℕ → α} (h : AReach fuel giv inf memory mdf n a W gs rl) :
    AAInv n (min n memory) a W gs rl := by
  induction h with
  | init g0 r0 =>
    obtain ⟨e1, e2, e3⟩ := AA.new_sizes inf memory mdf n
    exact AAInv.initialize inf hm _ e1 e2 e3 g0 r0
  | reinit g0 r0 _ ih => exact AAInv.initialize inf hm _ ih.an ih.qr.hn ih.qr.hm g0 r0
  | compute g r _ hnz ih => exact ih.compute fuel giv hg g r hnz
  | reset _ ih => exact ih.reset inf
  | scale c _ ih => exact ih.scale c

/-- the number of residual differences used is `min(k, memory, n)`: each `compute` lengthens the
    window by one up to the capacity `min(n, memory)` -/
theorem anderson_window_length {fuel : ℕ} {giv : α → α → α × α × α} (hg : GivensOK giv) {inf : α}
    {memory : ℕ} {mdf : α} {n : ℕ} (hm : 0 < min n memory) {a : AA α} {W gs : List (ℕ → α)}
    {rl : ℕ → α} (h : AReach fuel giv inf memory mdf n a W gs rl) (r : ℕ → α) :
    W.length ≤ min n memory ∧
    (aaNextW (min n memory) W rl r).length = min (W.length + 1) (min n memory) := by
  have hi := anderson_history hg hm h
  have hcap : W.length ≤ min n memory := by rw [← hi.qr.len, ← hi.qr.hm]; exact hi.qr.ring.cap
  exact ⟨hcap, aaNextW_length _ hm W hcap rl r⟩

/-- **Output of `compute` after any history** = `Σᵢ αᵢ gᵢ` over the last `K' + 1` function values
    (`K'` = new window length), with `Σ αᵢ = 1`. -/
theorem anderson_output_affine {fuel : ℕ} {giv : α → α → α × α × α} (hg : GivensOK giv) {inf : α}
    {memory : ℕ} {mdf : α} {n : ℕ} (hm : 0 < min n memory) {a : AA α} {W gs : List (ℕ → α)}
    {rl : ℕ → α} (h : AReach fuel giv inf memory mdf n a W gs rl) (g r : ℕ → α)
    (hnz : (addCore fuel (a.qr1 giv) (fun j => r j - readV a.rLast j)).2.2.1 ≠ 0) :
    (∑ i ∈ range ((aaNextW (min n memory) W rl r).length + 1),
        aaCoef (readV (a.computeCore fuel giv g r).1.gamLS) (aaNextW (min n memory) W rl r).length i
      = 1) ∧
    ∀ j < n, readV (a.computeCore fuel giv g r).2 j =
      ∑ i ∈ range ((aaNextW (min n memory) W rl r).length + 1),
        aaCoef (readV (a.computeCore fuel giv g r).1.gamLS) (aaNextW (min n memory) W rl r).length i *
          winFn (aaNextG (min n memory) W gs g) i j :=
  (anderson_history hg hm h).compute_output fuel giv hg g r hnz

/-- orthonormality of the `Q` inside the accelerator after any history (exact arithmetic) -/
theorem anderson_orthonormal (hs : SqrtLaw α) {fuel : ℕ} {giv : α → α → α × α × α} (hg : GivensOK giv)
    {inf : α} {memory : ℕ} {mdf : α} {n : ℕ} (hm : 0 < min n memory) {a : AA α}
    {W gs : List (ℕ → α)} {rl : ℕ → α} (h : AReach fuel giv inf memory mdf n a W gs rl) : Orth a.qr := by
  induction h with
  | init g0 r0 => exact reset_orth inf _
  | reinit g0 r0 _ _ => exact reset_orth inf _
  | compute g r hr hnz ih => exact (anderson_history hg hm hr).compute_orth hs fuel giv hg g r hnz ih
  | reset _ _ => exact reset_orth inf _
  | scale c _ ih => exact scaleR_orth _ c ih

/-- **The coefficients solve the least-squares problem** over the last `min(k, memory, n)` residual
    differences: γ_LS minimises `‖ΔR γ − rₖ‖²` (no pivot below `max_eig · min_div_fac`). -/
theorem anderson_gamma_least_squares (hs : SqrtLaw α) {fuel : ℕ} {giv : α → α → α × α × α}
    (hg : GivensOK giv) {inf : α} {memory : ℕ} {mdf : α} {n : ℕ} (hm : 0 < min n memory) {a : AA α}
    {W gs : List (ℕ → α)} {rl : ℕ → α} (h : AReach fuel giv inf memory mdf n a W gs rl) (g r : ℕ → α)
    (hnz : (addCore fuel (a.qr1 giv) (fun j => r j - readV a.rLast j)).2.2.1 ≠ 0)
    (hp : ∀ k < (aaNextW (min n memory) W rl r).length,
      ¬ |(a.qrNext fuel giv r).getR k k| < aaTol (a.qrNext fuel giv r).maxEig a.minDivFac ∧
        (a.qrNext fuel giv r).getR k k ≠ 0) :
    ∀ z : ℕ → α,
      ∑ j ∈ range n, (∑ k ∈ range (aaNextW (min n memory) W rl r).length,
          winFn (aaNextW (min n memory) W rl r) k j * readV (a.computeCore fuel giv g r).1.gamLS k
            - r j) ^ 2 ≤
      ∑ j ∈ range n, (∑ k ∈ range (aaNextW (min n memory) W rl r).length,
          winFn (aaNextW (min n memory) W rl r) k j * z k - r j) ^ 2 :=
  (anderson_history hg hm h).compute_ls hs fuel giv hg g r hnz (anderson_orthonormal hs hg hm h) hp

end

/-! ### 5. Non-vacuity: the hypotheses are satisfiable, the histories are inhabited -/

section examples

/-- `ℝ` with `Real.sqrt` as the model's `sqrt`. -/
noncomputable instance realLikeReal : RealLike ℝ := ⟨Real.sqrt, fun _ => false, fun _ => true⟩

/-- `SqrtLaw` holds over `ℝ`. -/
theorem sqrtLaw_real : SqrtLaw ℝ := fun _ ha => Real.mul_self_sqrt ha

/-- a total real Givens rotation (`c = p/h`, `s = −q/h`, `r = h = √(p²+q²)`; identity for `h = 0`) -/
noncomputable def givR (p q : ℝ) : ℝ × ℝ × ℝ :=
  if Real.sqrt (p * p + q * q) = 0 then (1, 0, 0)
  else (p / Real.sqrt (p * p + q * q), -q / Real.sqrt (p * p + q * q), Real.sqrt (p * p + q * q))

/-- … it meets the `makeGivens` contract, so `GivensOK` is satisfiable. -/
theorem givR_ok : GivensOK givR := by
  intro p q
  unfold givR
  have hnn : 0 ≤ p * p + q * q := by nlinarith [mul_self_nonneg p, mul_self_nonneg q]
  split_ifs with h
  · have h0 : p * p + q * q = 0 := (Real.sqrt_eq_zero hnn).mp h
    have hp : p = 0 := by nlinarith [mul_self_nonneg p, mul_self_nonneg q]
    have hq : q = 0 := by nlinarith [mul_self_nonneg p, mul_self_nonneg q]
    subst hp; subst hq; norm_num
  · have hs : Real.sqrt (p * p + q * q) * Real.sqrt (p * p + q * q) = p * p + q * q :=
      Real.mul_self_sqrt hnn
    generalize Real.sqrt (p * p + q * q) = w at h hs
    have e1 : p / w * (p / w) + -q / w * (-q / w) = (p * p + q * q) / (w * w) := by
      field_simp
    have e2 : p / w * p - -q / w * q = (p * p + q * q) / w := by field_simp; ring
    have e3 : -q / w * p + p / w * q = 0 := by field_simp; ring
    refine ⟨?_, ?_, e3⟩
    · show p / w * (p / w) + -q / w * (-q / w) = 1
      rw [e1, ← hs, div_self (mul_ne_zero h h)]
    · show w = p / w * p - -q / w * q
      rw [e2, ← hs, mul_div_assoc, div_self h, mul_one]

def eR (i : ℕ) : ℕ → ℝ := fun j => if j = i then 1 else 0

/-- Over `ℝ`, with the real Givens rotation and the real square root, a concrete non-trivial history
    (add, scale, remove, add) is reachable — all hypotheses of the history theorems hold at once —
    and the conclusion of `history_invariant` / `history_orthonormal_partial` is about a window of
    length 1. -/
example : ∃ (s : LMQR ℝ) (A : List (ℕ → ℝ)), A.length = 1 ∧ Reach 0 givR 1000 2 2 s A ∧
    Represents s (winFn A) ∧ Orth s := by
  have hq0 : (LMQR.new (1000 : ℝ) 2 2).qIdx = 0 := (new_idx _ _ _).1
  have hn1 : (addCore 0 (LMQR.new (1000 : ℝ) 2 2) (eR 0)).2.2.1 ≠ 0 := by
    simp [addCore, LMQR.new, LMQR.reset, lmqrResetIdx, lmqrResetEig, mgsPass, reorthLoop, normTo, sumTo,
      readV_freezeV, eR, RealLike.sqrt]
  have r1 : Reach 0 givR 1000 2 2 _ _ := Reach.add (eR 0) Reach.new (by rw [hq0]; norm_num) hn1
  have r2 := Reach.scale (2 : ℝ) r1
  have hq2 : 0 < (((LMQR.new (1000 : ℝ) 2 2).addColumn 0 (eR 0)).scaleR 2).qIdx := by
    rw [(scaleR_idx _ _).1, (addColumn_idx _ _ _).1]; omega
  have r3 := Reach.remove r2 hq2
  have hq3 : ((((LMQR.new (1000 : ℝ) 2 2).addColumn 0 (eR 0)).scaleR 2).removeColumn givR).qIdx = 0 := by
    rw [(history_invariant givR_ok (by norm_num) r3).2.2.1]; rfl
  have hn4 : (addCore 0 ((((LMQR.new (1000 : ℝ) 2 2).addColumn 0 (eR 0)).scaleR 2).removeColumn givR)
      (eR 1)).2.2.1 ≠ 0 := by
    have hn : ((((LMQR.new (1000 : ℝ) 2 2).addColumn 0 (eR 0)).scaleR 2).removeColumn givR).n = 2 :=
      (history_invariant givR_ok (by norm_num) r3).1
    simp [addCore, hq3, hn, mgsPass, reorthLoop, normTo, sumTo, readV_freezeV, eR, RealLike.sqrt]
  have r4 := Reach.add (eR 1) r3 (by rw [hq3]; norm_num) hn4
  exact ⟨_, _, by simp, r4, (history_invariant givR_ok (by norm_num) r4).2.2.2.2.2.2,
    history_orthonormal_partial sqrtLaw_real givR_ok (by norm_num) r4⟩

/-! Kernel-evaluated runs of the model over `ℚ`.  `sqrt := id` is a stand-in that is a true square
    root on the values these runs hit (`√1 = 1`); it is used only to show that concrete histories —
    including a ring wrap-around, a Givens sweep over two columns and an Anderson update on a full
    ring — satisfy the side conditions (`hnz`, capacity) of `Reach` / `AReach`. -/
section rat
local instance ratRealLike : RealLike ℚ := ⟨id, fun _ => false, fun _ => true⟩

def cQ (a b c : ℚ) : ℕ → ℚ := fun j => if j = 0 then a else if j = 1 then b else if j = 2 then c else 0

example : Reach 4 givensEigen 1000 3 2
    ((((LMQR.new (1000 : ℚ) 3 2).addColumn 4 (cQ 1 0 0)).addColumn 4 (cQ 1 1 0)).removeColumn givensEigen
      |>.addColumn 4 (cQ 0 0 1))
    [cQ 1 1 0, cQ 0 0 1] :=
  Reach.add (cQ 0 0 1)
    (Reach.remove
      (Reach.add (cQ 1 1 0) (Reach.add (cQ 1 0 0) Reach.new (by decide +kernel) (by decide +kernel))
        (by decide +kernel) (by decide +kernel))
      (by decide +kernel))
    (by decide +kernel) (by decide +kernel)

/-- the ring has wrapped: after add, add, remove, add with capacity 2 the head is at storage column 1
    and the tail at 1 (full ring: tail = head) -/
example :
    let s := ((((LMQR.new (1000 : ℚ) 3 2).addColumn 4 (cQ 1 0 0)).addColumn 4 (cQ 1 1 0)).removeColumn
      givensEigen).addColumn 4 (cQ 0 0 1)
    (s.qIdx, s.rStart, s.rEnd) = (2, 1, 1) ∧ s.ringFwd = [(0, 1), (1, 0)] ∧
      s.ringRev = [(1, 0), (0, 1)] := by decide +kernel

example : AReach 4 givensEigen 1000 2 (1/1000) 3
    ((((AA.new (1000 : ℚ) 2 (1/1000) 3).initialize 1000 (cQ 1 2 3) (cQ 1 0 0)).computeCore 4 givensEigen
        (cQ 2 2 2) (cQ 0 0 0)).1.computeCore 4 givensEigen (cQ 0 1 0) (cQ 0 1 0)).1
    (aaNextW (min 3 2) (aaNextW (min 3 2) [] (cQ 1 0 0) (cQ 0 0 0)) (cQ 0 0 0) (cQ 0 1 0))
    (aaNextG (min 3 2) (aaNextW (min 3 2) [] (cQ 1 0 0) (cQ 0 0 0))
      (aaNextG (min 3 2) [] [cQ 1 2 3] (cQ 2 2 2)) (cQ 0 1 0))
    (cQ 0 1 0) :=
  AReach.compute (cQ 0 1 0) (cQ 0 1 0)
    (AReach.compute (cQ 2 2 2) (cQ 0 0 0) (AReach.init (cQ 1 2 3) (cQ 1 0 0)) (by decide +kernel))
    (by decide +kernel)

/-- the telescoped coefficients for `γ = (3, 5)`, `K = 2` are `(3, 2, −4)`, summing to 1 -/
example : (List.range 3).map (aaCoef (fun i => if i = 0 then (3 : ℚ) else 5) 2) = [3, 2, -4] := by
  decide +kernel

end rat
end examples

end Alpaqa.Props.C10
